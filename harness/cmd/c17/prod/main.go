// Command prod is the production-build child of harness/cmd/c17: it is compiled at run time by
// harness/cmd/c17/prodrun WITHOUT the build tag `verif`, in a scratch module, and drives the PUBLIC
// API of amount.go only (NewAmount, ToUnit, ToBCH, Format, String, MulF64, AmountUnit.String)
// against the same exact-rational reference as the parent.  It exists because the parent is built
// `-tags verif`: a file pair `//go:build verif` / `//go:build !verif` shows the parent one
// implementation and every user another.  Self-contained on purpose (standard library + the package
// under test).  Input (stdin, JSON): the literal dictionary harvested by the parent and, for a
// replay, the recorded input.  Output (stdout, JSON): prodrun.Output.
package main

import (
	"encoding/json"
	"flag"
	"fmt"
	"io"
	"math"
	"math/big"
	"os"
	"regexp"
	"runtime/debug"
	"strconv"
	"strings"

	"github.com/gcash/bchutil"
)

type violation struct {
	Key    string                 `json:"key"`
	What   string                 `json:"what"`
	Replay map[string]interface{} `json:"replay"`
}

type output struct {
	MainPath   string         `json:"main_path"`
	Tags       string         `json:"build_tags"`
	Executions int            `json:"executions"`
	Histogram  map[string]int `json:"histogram"`
	Violations []violation    `json:"violations"`
}

type input struct {
	Ints   []int64                `json:"ints"`
	Floats []uint64               `json:"float_bits"`
	Replay map[string]interface{} `json:"replay"`
}

var out = output{Histogram: map[string]int{}}
var perKey = map[string]int{}

func violate(key, what string, rp map[string]interface{}) {
	perKey[key]++
	if perKey[key] > 3 {
		return
	}
	rp["prod_build"] = true
	out.Violations = append(out.Violations, violation{key, what, rp})
}

const capSat = int64(2100000000000000)

var (
	ratHalf = big.NewRat(1, 2)
	two62   = new(big.Rat).SetInt(new(big.Int).Lsh(big.NewInt(1), 62))
	rat1e8  = new(big.Rat).SetInt64(100000000)
)

func ratOf(f float64) *big.Rat { return new(big.Rat).SetFloat64(f) }
func nearestAway(r *big.Rat) *big.Int {
	abs := new(big.Rat).Abs(r)
	abs.Add(abs, ratHalf)
	q := new(big.Int).Quo(abs.Num(), abs.Denom())
	if r.Sign() < 0 {
		q.Neg(q)
	}
	return q
}
func rn(r *big.Rat) float64   { f, _ := r.Float64(); return f }
func guard62(r *big.Rat) bool { return new(big.Rat).Abs(r).Cmp(two62) < 0 }
func isFinite(f float64) bool { return !math.IsNaN(f) && !math.IsInf(f, 0) }
func fdesc(f float64) string  { return strconv.FormatFloat(f, 'g', 20, 64) }
func bitsOf(f float64) uint64 { return math.Float64bits(f) }
func isTie(prod *big.Rat) bool {
	pa := new(big.Rat).Abs(prod)
	fr := new(big.Rat).Sub(pa, new(big.Rat).SetInt(new(big.Int).Quo(pa.Num(), pa.Denom())))
	return fr.Cmp(ratHalf) == 0
}
func pow10Rat(k int) *big.Rat {
	n := k
	if n < 0 {
		n = -n
	}
	p := new(big.Int).Exp(big.NewInt(10), big.NewInt(int64(n)), nil)
	if k >= 0 {
		return new(big.Rat).SetInt(p)
	}
	return new(big.Rat).SetFrac(big.NewInt(1), p)
}

var labelRef = map[int]string{6: "MBCH", 3: "kBCH", 0: "BCH", -3: "mBCH", -6: "μBCH", -8: "Satoshi"}

func refLabel(u int) string {
	if s, ok := labelRef[u]; ok {
		return s
	}
	return "1e" + strconv.Itoa(u) + " BCH"
}

func newAmount(f float64) {
	out.Executions++
	amt, err := bchutil.NewAmount(f)
	if !isFinite(f) {
		if err == nil {
			violate("C17:newamount:nan_inf", "NewAmount accepted NaN or an infinity", map[string]interface{}{"op": "newamount", "bits": bitsOf(f), "float": fdesc(f), "returned": int64(amt)})
		}
		return
	}
	if err != nil {
		violate("C17:newamount:finite_rejected", "NewAmount rejected a finite float", map[string]interface{}{"op": "newamount", "bits": bitsOf(f), "float": fdesc(f)})
		return
	}
	prod := ratOf(rn(new(big.Rat).Mul(ratOf(f), rat1e8)))
	if prod == nil || !guard62(prod) {
		return
	}
	if isTie(prod) {
		out.Histogram["newamount_exact_tie"]++
	}
	want := nearestAway(prod)
	if !want.IsInt64() || want.Int64() != int64(amt) {
		violate("C17:newamount:nearest", "NewAmount(f) is not the integer nearest to fl(f*1e8), ties away from zero",
			map[string]interface{}{"op": "newamount", "bits": bitsOf(f), "call": "NewAmount(" + fdesc(f) + ")", "product": prod.FloatString(20), "returned": int64(amt), "required": want.String()})
	}
}

func mulF64(a int64, f float64) {
	out.Executions++
	got := int64(bchutil.Amount(a).MulF64(f))
	if !isFinite(f) {
		return
	}
	fa := rn(new(big.Rat).SetInt64(a))
	prod := ratOf(rn(new(big.Rat).Mul(ratOf(fa), ratOf(f))))
	if prod == nil || !guard62(prod) {
		return
	}
	if isTie(prod) {
		out.Histogram["mulf64_exact_tie"]++
	}
	if want := nearestAway(prod); want.Int64() != got {
		violate("C17:mulf64:nearest", "Amount(a).MulF64(f) is not the integer nearest to fl(float64(a)*f), ties away from zero",
			map[string]interface{}{"op": "mulf64", "amount": a, "fbits": bitsOf(f), "call": fmt.Sprintf("Amount(%d).MulF64(%s)", a, fdesc(f)), "product": prod.FloatString(20), "returned": got, "required": want.String()})
	}
}

func toUnit(a int64, u int) {
	out.Executions++
	f := bchutil.Amount(a).ToUnit(bchutil.AmountUnit(u))
	if a < -capSat || a > capSat || u < -8 || u > 12 {
		return
	}
	want := rn(new(big.Rat).Mul(new(big.Rat).SetInt64(a), pow10Rat(-(u + 8))))
	if bitsOf(want) != bitsOf(f) {
		violate("C17:tounit:quotient", "ToUnit(u) is not the correctly rounded value of a * 10^-(u+8)",
			map[string]interface{}{"op": "tounit", "amount": a, "unit": u, "returned": fdesc(f), "required": fdesc(want)})
	}
	if u == 0 {
		g := bchutil.Amount(a).ToBCH()
		if bitsOf(g) != bitsOf(want) {
			violate("C17:tobch:quotient", "ToBCH() is not the correctly rounded value of a / 1e8",
				map[string]interface{}{"op": "tobch", "amount": a, "returned": fdesc(g), "required": fdesc(want)})
		}
		b, err := bchutil.NewAmount(g)
		if err != nil || int64(b) != a {
			violate("C17:roundtrip", "NewAmount(Amount(a).ToBCH()) != a for |a| <= 2.1e15",
				map[string]interface{}{"op": "roundtrip", "amount": a, "to_bch": fdesc(g), "back": int64(b)})
		}
	}
}

var decRe = regexp.MustCompile(`^-?[0-9]+(\.[0-9]+)?$`)

func format(a int64, u int) {
	out.Executions++
	s := bchutil.Amount(a).Format(bchutil.AmountUnit(u))
	if l := bchutil.AmountUnit(u).String(); l != refLabel(u) {
		violate("C17:unit:label", "AmountUnit(u).String() is not the unit's label", map[string]interface{}{"op": "unit", "unit": u, "returned": l, "required": refLabel(u)})
	}
	if a < -capSat || a > capSat || u < -8 || u > 12 {
		return
	}
	rp := map[string]interface{}{"op": "format", "amount": a, "unit": u, "printed": s}
	label := " " + refLabel(u)
	if !strings.HasSuffix(s, label) {
		violate("C17:format:label", "Format(u) does not end with the unit's label", rp)
		return
	}
	num := strings.TrimSuffix(s, label)
	want := new(big.Rat).Mul(new(big.Rat).SetInt64(a), pow10Rat(-(u + 8)))
	var got *big.Rat
	if decRe.MatchString(num) {
		got, _ = new(big.Rat).SetString(num)
	}
	if got == nil || got.Cmp(want) != 0 {
		rp["required_value"] = want.FloatString(u + 8)
		violate("C17:format:text", "Format(u): printed number does not denote amount * 10^-(u+8) exactly", rp)
	}
	if u == 0 {
		if t := bchutil.Amount(a).String(); t != s {
			violate("C17:string", "Amount.String() != Format(AmountBCH)", map[string]interface{}{"op": "string", "amount": a, "string": t, "format": s})
		}
	}
}

// every way this program has of making the rounding see exactly k+0.5 (and its neighbours)
func tiesAt(k int64) {
	for _, s := range []int64{1, -1} {
		// MulF64: (2k+1) * 0.5 is exact below 2^53
		if k < 1<<52 {
			mulF64(s*(2*k+1), 0.5)
			mulF64(2*k+1, float64(s)*0.5)
		}
		if k < 1<<50 && (2*k+1)%4 != 0 { // (4k+2) * 0.25
			mulF64(s*(4*k+2), 0.25)
		}
		mulF64(s, float64(k)+0.5) // 1 * (k+0.5)
		// NewAmount: floats around (k+0.5)/1e8; the product is exactly k+0.5 for about one k in three
		g := (float64(k) + 0.5) * 1e-8
		for _, f := range []float64{g, math.Nextafter(g, math.Inf(1)), math.Nextafter(g, math.Inf(-1)), (float64(k) + 0.5) / 1e8} {
			newAmount(float64(s) * f)
		}
	}
}

func pow10i(e int) int64 {
	v := int64(1)
	for i := 0; i < e; i++ {
		v *= 10
	}
	return v
}

type rng struct{ s uint64 }

func (r *rng) u64() uint64 {
	r.s += 0x9E3779B97F4A7C15
	z := r.s
	z = (z ^ (z >> 30)) * 0xBF58476D1CE4E5B9
	z = (z ^ (z >> 27)) * 0x94D049BB133111EB
	return z ^ (z >> 31)
}
func (r *rng) intn(n int) int { return int(r.u64() % uint64(n)) }

func replay(rp map[string]interface{}) {
	num := func(k string) int64 {
		switch v := rp[k].(type) {
		case json.Number:
			n, _ := strconv.ParseInt(v.String(), 10, 64)
			return n
		}
		return 0
	}
	unum := func(k string) uint64 {
		if v, ok := rp[k].(json.Number); ok {
			n, _ := strconv.ParseUint(v.String(), 10, 64)
			return n
		}
		return 0
	}
	switch op, _ := rp["op"].(string); op {
	case "newamount":
		newAmount(math.Float64frombits(unum("bits")))
	case "mulf64":
		mulF64(num("amount"), math.Float64frombits(unum("fbits")))
	case "tounit":
		toUnit(num("amount"), int(num("unit")))
	case "tobch", "roundtrip":
		toUnit(num("amount"), 0)
	case "format", "unit":
		format(num("amount"), int(num("unit")))
	case "string":
		format(num("amount"), 0)
	}
}

func main() {
	seed := flag.Uint64("seed", 1, "seed")
	scale := flag.Int("scale", 1, "1 quick, larger = wider")
	doReplay := flag.Bool("replay", false, "re-run the input given as \"replay\" on stdin")
	flag.Parse()
	if bi, ok := debug.ReadBuildInfo(); ok {
		out.MainPath = bi.Main.Path
		for _, s := range bi.Settings {
			if s.Key == "-tags" {
				out.Tags = s.Value
			}
		}
	}
	var in input
	if raw, err := io.ReadAll(os.Stdin); err == nil && len(raw) > 0 {
		dec := json.NewDecoder(strings.NewReader(string(raw)))
		dec.UseNumber()
		_ = dec.Decode(&in)
	}
	defer func() {
		b, _ := json.Marshal(out)
		os.Stdout.Write(b)
	}()
	if int64(bchutil.MaxSatoshi) != capSat || bchutil.SatoshiPerBitcoin != 1e8 {
		violate("C17:constants", "MaxSatoshi / SatoshiPerBitcoin are not 2.1e15 / 1e8", map[string]interface{}{"op": "constants", "MaxSatoshi": int64(bchutil.MaxSatoshi)})
	}
	if *doReplay {
		replay(in.Replay)
		return
	}
	r := &rng{*seed*0x9E3779B97F4A7C15 + 17}
	S := *scale

	// 1. every half-way point k+0.5 for small k, both parities
	for k := int64(0); k < int64(3000*S); k++ {
		tiesAt(k)
	}
	// 2. half-way points at every magnitude: around powers of ten and of two (both parities on either
	// side), sampled k per decade and per binade, the cap
	for e := 1; e <= 15; e++ {
		for d := int64(-6); d <= 6; d++ {
			tiesAt(pow10i(e) + d)
			tiesAt(2*pow10i(e) + d)
			tiesAt(5*pow10i(e) + d)
		}
		for i := 0; i < 40*S; i++ {
			tiesAt(pow10i(e) + int64(r.u64()%uint64(9*pow10i(e))))
		}
	}
	for e := uint(1); e <= 52; e++ {
		for d := int64(-4); d <= 4; d++ {
			if k := int64(1)<<e + d; k >= 0 {
				tiesAt(k)
			}
		}
		for i := 0; i < 20*S; i++ {
			tiesAt(int64(1)<<e + int64(r.u64()%(uint64(1)<<e)))
		}
	}
	for d := int64(-50); d <= 50; d++ {
		tiesAt(capSat + d)
		tiesAt(capSat/2 + d)
	}
	// 3. dictionary: numbers that occur in the source of the package, and memorable numbers, as k,
	// as the amount, as the product
	for _, v := range in.Ints {
		if v < 0 {
			v = -v
		}
		if v < 0 || v >= 1<<53 {
			continue
		}
		tiesAt(v)
		if v > 0 {
			tiesAt(v - 1)
		}
		for _, f := range []float64{0.5, 1.5, 0.25, 0.75, 0.1, 1e-8, 2.5} {
			mulF64(v, f)
			mulF64(-v, f)
		}
		newAmount(float64(v) / 1e8)
		newAmount(float64(v))
		out.Histogram["dictionary_numbers"]++
	}
	for _, b := range in.Floats {
		f := math.Float64frombits(b)
		if !isFinite(f) {
			continue
		}
		// f as the product: 1 * f, f/1e8 * 1e8; f as the argument
		mulF64(1, f)
		mulF64(-1, f)
		mulF64(2, f/2)
		for _, g := range []float64{f / 1e8, f * 1e-8, math.Nextafter(f/1e8, math.Inf(1)), math.Nextafter(f/1e8, math.Inf(-1))} {
			newAmount(g)
		}
		newAmount(f)
		out.Histogram["dictionary_floats"]++
	}
	// 4. random multipliers and amounts
	for i := 0; i < 20000*S; i++ {
		a := int64(r.u64() % uint64(capSat))
		if i%3 == 0 {
			a = int64(r.u64() % 100000000000)
		}
		if i%2 == 0 {
			a = -a
		}
		f := []float64{0.5, 0.25, 1.5, 0.1, 0.01, 1e-8, 3, 1.0 / 3}[r.intn(8)]
		if i%5 == 0 {
			f = math.Float64frombits(r.u64()&0x000FFFFFFFFFFFFF | uint64(1000+r.intn(40))<<52)
		}
		mulF64(a, f)
	}
	// 5. unit conversions and text: bands around powers of ten, the cap, dictionary, random
	var amts []int64
	for e := 0; e <= 15; e++ {
		for d := int64(-3); d <= 3; d++ {
			amts = append(amts, pow10i(e)+d, -(pow10i(e) + d))
		}
	}
	for d := int64(0); d <= 20; d++ {
		amts = append(amts, capSat-d, -capSat+d, d)
	}
	for _, v := range in.Ints {
		if v >= -capSat && v <= capSat {
			amts = append(amts, v)
		}
	}
	for i := 0; i < 1500*S; i++ {
		amts = append(amts, int64(r.u64()%uint64(2*capSat))-capSat)
	}
	for _, a := range amts {
		for _, u := range []int{-8, -6, -3, 0, 3, 6, -7, -5, -1, 1, 2, 8} {
			toUnit(a, u)
			format(a, u)
		}
	}
}

// Command c11 drives the two merkle-block builders of the repository under test
// (merkleblock.NewMerkleBlockWithTxnSet / NewMerkleBlockWithFilter and bloom.NewMerkleBlock) and
// extraction of what they built:
//   - monitors: the built message is the canonical BIP37 partial merkle tree (independent reference
//     pmtref.Build), ExtractMatches of it returns the block's merkle root and exactly the chosen
//     transactions in block order, the returned index lists are the chosen positions, the two builders
//     agree, the header is copied;
//   - correspondence cases for the Coq models (Run/Run_C11.v).
package main

import (
	"bytes"
	"encoding/hex"
	"encoding/json"
	"fmt"
	"os"
	"sort"
	"time"

	"github.com/gcash/bchd/blockchain"
	"github.com/gcash/bchd/chaincfg/chainhash"
	"github.com/gcash/bchd/wire"
	"github.com/gcash/bchutil"
	"github.com/gcash/bchutil/bloom"
	"github.com/gcash/bchutil/merkleblock"

	"verif/harness/cmd/c12/pmtref"
	"verif/harness/internal/vh"
)

var cfg vh.Config
var rep *vh.Report
var cases *vh.Cases
var maxTxn uint32

// ---------- synthetic blocks ----------
type blk struct {
	seed   uint64
	b      *bchutil.Block
	leaves []pmtref.Hash
	header []byte
}

// makeBlock builds a block of n distinct transactions (distinct lock times, values and previous
// outpoints), deterministic in (seed, n).
func makeBlock(seed uint64, n int) *blk {
	r := vh.NewRNG(seed).Fork(fmt.Sprintf("block%d", n))
	var prev chainhash.Hash
	copy(prev[:], r.Bytes(32))
	hdr := wire.NewBlockHeader(1, &prev, &chainhash.Hash{}, 0x1d00ffff, r.U32())
	hdr.Timestamp = time.Unix(1231006505+int64(n), 0)
	mb := wire.NewMsgBlock(hdr)
	for i := 0; i < n; i++ {
		tx := wire.NewMsgTx(1)
		var ph chainhash.Hash
		copy(ph[:], r.Bytes(32))
		tx.AddTxIn(wire.NewTxIn(wire.NewOutPoint(&ph, uint32(i)), []byte{0x51}))
		tx.AddTxOut(wire.NewTxOut(int64(i)+1, []byte{0x51}, wire.TokenData{}))
		tx.LockTime = uint32(i)
		mb.AddTransaction(tx)
	}
	b := bchutil.NewBlock(mb)
	out := &blk{seed: seed, b: b}
	for _, tx := range b.Transactions() {
		out.leaves = append(out.leaves, pmtref.Hash(*tx.Hash()))
	}
	if n > 0 {
		store := blockchain.BuildMerkleTreeStore(b.Transactions())
		mb.Header.MerkleRoot = *store[len(store)-1]
		if pmtref.Hash(mb.Header.MerkleRoot) != pmtref.MerkleRoot(out.leaves) {
			rep.Violate("C11:dep:merkle_root", "blockchain.BuildMerkleTreeStore root differs from the textbook merkle root",
				map[string]interface{}{"block_seed": seed, "n": n})
		}
	}
	var buf bytes.Buffer
	mb.Header.Serialize(&buf)
	out.header = buf.Bytes()
	return out
}

func hexHashes(hs []pmtref.Hash) []string {
	out := make([]string, len(hs))
	for i := range hs {
		out[i] = hex.EncodeToString(hs[i][:])
	}
	return out
}

func selString(sel []bool) string {
	b := make([]byte, len(sel))
	for i, s := range sel {
		b[i] = '0'
		if s {
			b[i] = '1'
		}
	}
	return string(b)
}

func positions(sel []bool) []uint32 {
	var out []uint32
	for i, s := range sel {
		if s {
			out = append(out, uint32(i))
		}
	}
	return out
}

// ---------- observed results ----------
type built struct {
	Panic   string
	Count   uint32
	Hashes  []pmtref.Hash
	Flags   []byte
	Header  []byte
	Indices []uint32
	msg     *wire.MsgMerkleBlock
}

func observe(f func() (*wire.MsgMerkleBlock, []uint32)) (o built) {
	defer func() {
		if e := recover(); e != nil {
			o.Panic = fmt.Sprint(e)
		}
	}()
	m, idx := f()
	o.msg = m
	o.Count = m.Transactions
	for _, h := range m.Hashes {
		o.Hashes = append(o.Hashes, pmtref.Hash(*h))
	}
	o.Flags = append([]byte(nil), m.Flags...)
	var buf bytes.Buffer
	m.Header.Serialize(&buf)
	o.Header = buf.Bytes()
	o.Indices = append([]uint32(nil), idx...)
	return
}

type extracted struct {
	Panic   string
	OK, Bad bool
	Root    pmtref.Hash
	Items   []uint32
	Matches []pmtref.Hash
}

func extract(m *wire.MsgMerkleBlock) (o extracted) {
	defer func() {
		if e := recover(); e != nil {
			o.Panic = fmt.Sprint(e)
		}
	}()
	pb := merkleblock.NewMerkleBlockFromMsg(*m)
	root := pb.ExtractMatches()
	o.Bad = pb.BadTree()
	if root != nil {
		o.OK = true
		o.Root = pmtref.Hash(*root)
		o.Items = append(o.Items, pb.GetItems()...)
		for _, x := range pb.GetMatches() {
			o.Matches = append(o.Matches, pmtref.Hash(*x))
		}
	}
	return
}

func sameBuilt(a, b built) bool {
	if a.Count != b.Count || !bytes.Equal(a.Flags, b.Flags) || !bytes.Equal(a.Header, b.Header) || len(a.Hashes) != len(b.Hashes) || len(a.Indices) != len(b.Indices) {
		return false
	}
	for i := range a.Hashes {
		if a.Hashes[i] != b.Hashes[i] {
			return false
		}
	}
	for i := range a.Indices {
		if a.Indices[i] != b.Indices[i] {
			return false
		}
	}
	return true
}

// ---------- monitors ----------
func replayOf(bk *blk, how string, sel []bool, o built) map[string]interface{} {
	m := map[string]interface{}{"block_seed": bk.seed, "n": len(bk.leaves), "builder": how, "chosen": selString(sel),
		"note": "block = makeBlock(block_seed, n) of harness/cmd/c11 (n synthetic transactions); chosen[i]=1: transaction i is in the set / matched by the filter"}
	if len(bk.leaves) <= 16 {
		m["txids"] = hexHashes(bk.leaves)
	}
	if o.Panic != "" {
		m["panic"] = o.Panic
	} else {
		m["impl_transactions"] = o.Count
		m["impl_flags"] = hex.EncodeToString(o.Flags)
		m["impl_indices"] = o.Indices
		if len(o.Hashes) <= 24 {
			m["impl_hashes"] = hexHashes(o.Hashes)
		} else {
			m["impl_hash_count"] = len(o.Hashes)
		}
	}
	return m
}

// checkBuilt evaluates the property on one built message (sel = the selection the builder was given).
func checkBuilt(bk *blk, how string, sel []bool, o built) {
	n := len(bk.leaves)
	rp := func() map[string]interface{} { return replayOf(bk, how, sel, o) }
	if o.Panic != "" {
		rep.Violate("C11:panic:"+how, "the builder panicked on a block with at least one transaction", rp())
		return
	}
	if !bytes.Equal(o.Header, bk.header) {
		rep.Violate("C11:header:"+how, "the message header is not the block header", rp())
	}
	if int(o.Count) != n {
		rep.Violate("C11:count:"+how, "msg.Transactions differs from the number of transactions", rp())
	}
	// canonical BIP37 tree
	t := pmtref.Build(bk.leaves, sel)
	wantH := t.Hashes(nil)
	wantF := pmtref.Pack(t.Flags(nil))
	same := len(wantH) == len(o.Hashes) && bytes.Equal(wantF, o.Flags)
	for i := 0; same && i < len(wantH); i++ {
		same = wantH[i] == o.Hashes[i]
	}
	if !same {
		r := rp()
		r["reference_flags"] = hex.EncodeToString(wantF)
		r["reference_hash_count"] = len(wantH)
		rep.Violate("C11:canonical:"+how, "the built message is not the canonical partial merkle tree for the chosen subset", r)
	}
	// index list
	want := positions(sel)
	okIdx := len(want) == len(o.Indices)
	for i := 0; okIdx && i < len(want); i++ {
		okIdx = want[i] == o.Indices[i]
	}
	if !okIdx {
		rep.Violate("C11:indices:"+how, "the returned index list is not the list of chosen positions in block order", rp())
	}
	// round trip through extraction
	e := extract(o.msg)
	switch {
	case e.Panic != "":
		rep.Violate("C11:roundtrip:panic", "ExtractMatches panicked on a built message", rp())
	case !e.OK:
		r := rp()
		r["bad_tree"] = e.Bad
		rep.Violate("C11:roundtrip:rejected:"+how, "ExtractMatches rejects the message the builder produced", r)
	default:
		if e.Root != pmtref.MerkleRoot(bk.leaves) || e.Root != pmtref.Hash(bk.b.MsgBlock().Header.MerkleRoot) {
			r := rp()
			r["extracted_root"] = hex.EncodeToString(e.Root[:])
			rep.Violate("C11:roundtrip:root:"+how, "the extracted root is not the block's merkle root", r)
		}
		okM := len(e.Items) == len(want) && len(e.Matches) == len(want)
		for i := 0; okM && i < len(want); i++ {
			okM = e.Items[i] == want[i] && e.Matches[i] == bk.leaves[want[i]]
		}
		if !okM {
			r := rp()
			r["extracted_items"] = e.Items
			rep.Violate("C11:roundtrip:matches:"+how, "extraction does not reveal exactly the chosen transactions with their positions in block order", r)
		}
	}
}

// ---------- the builders ----------
func ptrs(hs []pmtref.Hash) []*chainhash.Hash {
	out := make([]*chainhash.Hash, len(hs))
	for i := range hs {
		h := chainhash.Hash(hs[i])
		out[i] = &h
	}
	return out
}

// byTxnSet runs NewMerkleBlockWithTxnSet with the chosen ids (plus, optionally, foreign ids and duplicates).
func byTxnSet(bk *blk, sel []bool, r *vh.RNG, noise bool) (built, []pmtref.Hash) {
	var set []pmtref.Hash
	for i, s := range sel {
		if s {
			set = append(set, bk.leaves[i])
		}
	}
	if noise {
		if len(set) > 0 && r.Bool() {
			set = append(set, set[r.Intn(len(set))]) // duplicate
		}
		if r.Bool() {
			var f pmtref.Hash
			copy(f[:], r.Bytes(32))
			set = append(set, f) // not in the block
		}
		for i := len(set) - 1; i > 0; i-- { // order must not matter
			j := r.Intn(i + 1)
			set[i], set[j] = set[j], set[i]
		}
	}
	o := observe(func() (*wire.MsgMerkleBlock, []uint32) { return merkleblock.NewMerkleBlockWithTxnSet(bk.b, ptrs(set)) })
	return o, set
}

func newFilter(bk *blk, sel []bool, tweak uint32) *bloom.Filter {
	k := 1
	for _, s := range sel {
		if s {
			k++
		}
	}
	f := bloom.NewFilter(uint32(k), tweak, 0.0000001, wire.BloomUpdateNone)
	for i, s := range sel {
		if s {
			h := chainhash.Hash(bk.leaves[i])
			f.AddHash(&h)
		}
	}
	return f
}

// byFilter runs both filter-driven builders on identical filters; returns what the filter matched.
func byFilter(bk *blk, sel []bool, tweak uint32) (mbRes, blRes built, matched []bool) {
	mm := bloom.GetMatchedIndices(bk.b, newFilter(bk, sel, tweak))
	matched = make([]bool, len(bk.leaves))
	for i := range matched {
		matched[i] = mm[i]
	}
	mbRes = observe(func() (*wire.MsgMerkleBlock, []uint32) {
		return merkleblock.NewMerkleBlockWithFilter(bk.b, newFilter(bk, sel, tweak))
	})
	blRes = observe(func() (*wire.MsgMerkleBlock, []uint32) { return bloom.NewMerkleBlock(bk.b, newFilter(bk, sel, tweak)) })
	return
}

// ---------- correspondence ----------
// namer gives every distinct hash of a case one `let` binding (Coq spends ~4 ms per 32-byte literal).
type namer struct {
	names map[pmtref.Hash]string
	order []pmtref.Hash
}

func newNamer() *namer { return &namer{names: map[pmtref.Hash]string{}} }
func (nm *namer) h(x pmtref.Hash) string {
	if s, ok := nm.names[x]; ok {
		return s
	}
	s := fmt.Sprintf("h%d", len(nm.order))
	nm.names[x] = s
	nm.order = append(nm.order, x)
	return s
}
func (nm *namer) hs(xs []pmtref.Hash) string {
	it := make([]string, len(xs))
	for i, x := range xs {
		it[i] = nm.h(x)
	}
	return vh.CoqList(it)
}
func (nm *namer) wrap(body string) string {
	var sb bytes.Buffer
	sb.WriteString("(")
	for i, x := range nm.order {
		fmt.Fprintf(&sb, "let h%d := %s in ", i, vh.CoqBytes(x[:]))
	}
	sb.WriteString(body)
	sb.WriteString(")")
	return sb.String()
}

func coqU32s(xs []uint32) string {
	it := make([]string, len(xs))
	for i, x := range xs {
		it[i] = fmt.Sprint(x)
	}
	return vh.CoqList(it)
}
func coqBools(bs []bool) string {
	it := make([]string, len(bs))
	for i, b := range bs {
		it[i] = vh.CoqBool(b)
	}
	return vh.CoqList(it)
}

// table: every inner node of the block's merkle tree as (left, right, result); empty for small
// blocks, whose node hashes are computed inside Coq.
func table(nm *namer, bk *blk) string {
	if len(bk.leaves) <= 5 {
		return "[]"
	}
	var it []string
	cur := bk.leaves
	for len(cur) > 1 {
		var next []pmtref.Hash
		for i := 0; i < len(cur); i += 2 {
			l, r := cur[i], cur[i]
			if i+1 < len(cur) {
				r = cur[i+1]
			}
			o := pmtref.NodeHash(l, r)
			it = append(it, fmt.Sprintf("(%s, %s, %s)", nm.h(l), nm.h(r), nm.h(o)))
			next = append(next, o)
		}
		cur = next
	}
	return vh.CoqList(it)
}

func extFields(nm *namer, e extracted) string {
	ms := make([]string, len(e.Items))
	for i := range e.Items {
		ms[i] = fmt.Sprintf("(%d, %s)", e.Items[i], nm.h(e.Matches[i]))
	}
	root := "[]"
	if e.OK {
		root = nm.h(e.Root)
	}
	return fmt.Sprintf("%d %s %s %s %s", maxTxn, vh.CoqBool(e.OK), vh.CoqBool(e.Bad), root, vh.CoqList(ms))
}

func addBuildSet(bk *blk, sel []bool, set []pmtref.Hash, o built) {
	if o.Panic != "" {
		return
	}
	e := extract(o.msg)
	if e.Panic != "" {
		return
	}
	nm := newNamer()
	body := fmt.Sprintf("BuildSet %s %s %s %s %d %s %s %s %s", table(nm, bk), vh.CoqBytes(bk.header), nm.hs(bk.leaves), nm.hs(set),
		o.Count, nm.hs(o.Hashes), vh.CoqBytes(o.Flags), coqU32s(o.Indices), extFields(nm, e))
	cases.Add(nm.wrap(body),
		map[string]interface{}{"op": "NewMerkleBlockWithTxnSet + ExtractMatches", "block_seed": bk.seed, "n": len(bk.leaves), "chosen": selString(sel), "txnset_size": len(set),
			"impl_flags": hex.EncodeToString(o.Flags), "impl_hash_count": len(o.Hashes), "impl_indices": o.Indices, "extract_ok": e.OK, "extract_items": e.Items})
}

func addBuildFilter(bk *blk, sel, matched []bool, a, b built) {
	if a.Panic != "" || b.Panic != "" {
		return
	}
	nm := newNamer()
	body := fmt.Sprintf("BuildFilter %s %s %s %s %d %s %s %s %d %s %s %s", table(nm, bk), vh.CoqBytes(bk.header), nm.hs(bk.leaves), coqBools(matched),
		a.Count, nm.hs(a.Hashes), vh.CoqBytes(a.Flags), coqU32s(a.Indices),
		b.Count, nm.hs(b.Hashes), vh.CoqBytes(b.Flags), coqU32s(b.Indices))
	cases.Add(nm.wrap(body),
		map[string]interface{}{"op": "NewMerkleBlockWithFilter+bloom.NewMerkleBlock", "block_seed": bk.seed, "n": len(bk.leaves), "chosen": selString(sel), "matched": selString(matched),
			"mb_flags": hex.EncodeToString(a.Flags), "bloom_flags": hex.EncodeToString(b.Flags)})
}

// ---------- one (block, subset) through everything ----------
var distinctTrees = map[string]bool{}

func runSubset(bk *blk, sel []bool, r *vh.RNG, corrSet, corrFilter bool, family string) {
	n := len(bk.leaves)
	key := fmt.Sprintf("%d/%s", n, selString(sel))
	rep.Count(family, key, true)
	// by transaction set
	o, set := byTxnSet(bk, sel, r, r.Chance(1, 3))
	checkBuilt(bk, "NewMerkleBlockWithTxnSet", sel, o)
	if corrSet {
		addBuildSet(bk, sel, set, o)
	}
	// by filter, both builders
	a, b, matched := byFilter(bk, sel, r.U32())
	rep.Evaluations += 2
	for i, s := range sel {
		if s && !matched[i] {
			rep.Violate("C11:dep:filter_false_negative", "a transaction whose id was added to the filter is not matched (C09/C10)", replayOf(bk, "GetMatchedIndices", sel, built{Panic: "n/a"}))
		}
	}
	checkBuilt(bk, "NewMerkleBlockWithFilter", matched, a)
	checkBuilt(bk, "bloom.NewMerkleBlock", matched, b)
	if a.Panic == "" && b.Panic == "" && !sameBuilt(a, b) {
		r := replayOf(bk, "bloom.NewMerkleBlock", matched, b)
		r["merkleblock_flags"] = hex.EncodeToString(a.Flags)
		r["merkleblock_hash_count"] = len(a.Hashes)
		r["merkleblock_indices"] = a.Indices
		rep.Violate("C11:builders_agree", "bloom.NewMerkleBlock and merkleblock.NewMerkleBlockWithFilter differ for the same block and filter", r)
	}
	if corrFilter {
		addBuildFilter(bk, sel, matched, a, b)
	}
}

func subsetOf(n int, idx ...int) []bool {
	sel := make([]bool, n)
	for _, i := range idx {
		if i >= 0 && i < n {
			sel[i] = true
		}
	}
	return sel
}

func structured(n int, r *vh.RNG) map[string][]bool {
	out := map[string][]bool{}
	out["empty"] = subsetOf(n)
	full := make([]bool, n)
	for i := range full {
		full[i] = true
	}
	out["full"] = full
	out["last"] = subsetOf(n, n-1)
	out["first"] = subsetOf(n, 0)
	out["last_two"] = subsetOf(n, n-1, n-2)
	out["first_and_last"] = subsetOf(n, 0, n-1)
	// the right edge: everything right of the largest power of two below n
	p := 1
	for p*2 < n {
		p *= 2
	}
	re := make([]bool, n)
	for i := p; i < n; i++ {
		re[i] = true
	}
	out["right_edge"] = re
	// two chosen transactions whose pruned siblings sit at the same height
	out["0_and_4"] = subsetOf(n, 0, 4)
	out["1_and_n/2"] = subsetOf(n, 1, n/2)
	sp := make([]bool, n)
	de := make([]bool, n)
	for i := range sp {
		sp[i] = r.Chance(1, 8)
		de[i] = r.Bool()
	}
	out["sparse"] = sp
	out["dense"] = de
	return out
}

func sortedKeys(m map[string][]bool) []string {
	var ks []string
	for k := range m {
		ks = append(ks, k)
	}
	sort.Strings(ks)
	return ks
}

func replay(path string) {
	var rp struct {
		Input struct {
			Seed   uint64 `json:"block_seed"`
			N      int    `json:"n"`
			Chosen string `json:"chosen"`
		} `json:"input"`
	}
	b, err := os.ReadFile(path)
	vh.Must(err)
	vh.Must(json.Unmarshal(b, &rp))
	bk := makeBlock(rp.Input.Seed, rp.Input.N)
	sel := make([]bool, rp.Input.N)
	for i := range sel {
		sel[i] = i < len(rp.Input.Chosen) && rp.Input.Chosen[i] == '1'
	}
	runSubset(bk, sel, vh.NewRNG(1), false, false, "replay")
}

func main() {
	cfg = vh.ParseFlags("C11")
	rep = vh.NewReport(cfg)
	rep.Rule = "every (block, subset) pair is non-trivial (n >= 1); distinct by (n, subset); each pair runs NewMerkleBlockWithTxnSet, NewMerkleBlockWithFilter and bloom.NewMerkleBlock (3 executions) plus extraction of each result"
	cases = vh.NewCases(cfg, "Run.Run_C11", 16)
	maxTxn = merkleblock.MaxTxnCount
	rep.Extra["MaxTxnCount"] = maxTxn
	rng := vh.NewRNG(cfg.Seed)
	if cfg.Replay != "" {
		replay(cfg.Replay)
		vh.Must(rep.Write(cfg))
		return
	}
	corr := !cfg.Search

	// node hash validation (Coq SHA-256 against the Go dependency)
	rn := rng.Fork("nodehash")
	for i := 0; i < 4; i++ {
		var l, rr pmtref.Hash
		copy(l[:], rn.Bytes(32))
		copy(rr[:], rn.Bytes(32))
		if i == 0 {
			rr = l
		}
		cl, cr := chainhash.Hash(l), chainhash.Hash(rr)
		impl := blockchain.HashMerkleBranches(&cl, &cr)
		if pmtref.Hash(*impl) != pmtref.NodeHash(l, rr) {
			rep.Violate("C11:dep:node_hash", "blockchain.HashMerkleBranches differs from double SHA-256 of the concatenation", map[string]interface{}{"left": hex.EncodeToString(l[:]), "right": hex.EncodeToString(rr[:])})
		}
		cases.Add(fmt.Sprintf("NodeHash %s %s %s", vh.CoqBytes(l[:]), vh.CoqBytes(rr[:]), vh.CoqBytes(impl[:])), map[string]interface{}{"op": "HashMerkleBranches"})
	}

	// the empty block (outside the property, n >= 1): recorded, and modelled when it does not panic
	{
		bk := makeBlock(cfg.Seed, 0)
		o := observe(func() (*wire.MsgMerkleBlock, []uint32) { return merkleblock.NewMerkleBlockWithTxnSet(bk.b, nil) })
		rep.Extra["empty_block"] = map[string]interface{}{"panic": o.Panic, "transactions": o.Count, "hashes": len(o.Hashes), "flag_bytes": len(o.Flags)}
		o2 := observe(func() (*wire.MsgMerkleBlock, []uint32) { return bloom.NewMerkleBlock(bk.b, bloom.NewFilter(1, 0, 0.01, wire.BloomUpdateNone)) })
		for how, x := range map[string]built{"NewMerkleBlockWithTxnSet": o, "bloom.NewMerkleBlock": o2} {
			if x.Panic != "" {
				// outside the quantifier of C11 (n >= 1) but the models mirror the guard of commit 89c7599, so say it concretely
				rep.Violate("C11:panic:empty_block", "the builder panics on a block without transactions (the models return the empty message)",
					map[string]interface{}{"block_seed": bk.seed, "n": 0, "builder": how, "chosen": "", "panic": x.Panic})
			} else if x.Count != 0 || len(x.Hashes) != 0 || len(x.Flags) != 0 || len(x.Indices) != 0 {
				rep.Violate("C11:empty_block", "the message for a block without transactions is not empty", replayOf(bk, how, nil, x))
			}
		}
		if o.Panic == "" && corr {
			addBuildSet(bk, nil, nil, o)
		}
	}

	// 1. every n <= 12 with all 2^n subsets (monitors); a sample to Coq
	allMax := cfg.Scale(12, 15)
	if cfg.Search {
		allMax = 16
	}
	ra := rng.Fork("all")
	for n := 1; n <= allMax; n++ {
		bk := makeBlock(cfg.Seed, n)
		total := 1 << uint(n)
		for code := 0; code < total; code++ {
			sel := make([]bool, n)
			for i := 0; i < n; i++ {
				sel[i] = code>>uint(i)&1 == 1
			}
			// Coq: all subsets for n <= 3, a few per n beyond
			c := corr && (n <= 3 || code == total-1 || ra.Chance(cfg.Scale(2, 5), total))
			runSubset(bk, sel, ra, c, c && (n <= 3 || code%2 == 1), "all_subsets")
		}
	}

	// 2. every n <= 65 (quick) / 130 (thorough) with structured and random subsets
	rs := rng.Fork("structured")
	upper := cfg.Scale(65, 200)
	for n := allMax + 1; n <= upper; n++ {
		bk := makeBlock(cfg.Seed, n)
		st := structured(n, rs)
		for k, name := range sortedKeys(st) {
			// Coq: one structured subset per n (rotating), tables for the node hashes
			c := corr && n <= 65 && k == n%len(st)
			runSubset(bk, st[name], rs, c, c && n%4 == 0, "structured:"+name)
		}
		for i := 0; i < n; i++ { // every singleton
			runSubset(bk, subsetOf(n, i), rs, false, false, "structured:singleton")
		}
	}

	// 3. big blocks: byte-sized counters, multiples of 256 chosen transactions, deep trees (monitors only)
	rb := rng.Fork("big")
	sizes := []int{255, 256, 257, 300, 511, 512, 513, 1000, 1024, 1025}
	if cfg.Thorough() || cfg.Search {
		sizes = append(sizes, 2047, 2048, 2049, 3000, 4096, 5000)
	}
	for i := 0; i < cfg.Scale(6, 20); i++ {
		sizes = append(sizes, 66+rb.Intn(cfg.Scale(3000, 6000)))
	}
	for _, n := range sizes {
		bk := makeBlock(cfg.Seed, n)
		st := structured(n, rb)
		first256 := make([]bool, n)
		for i := 0; i < 256 && i < n; i++ {
			first256[i] = true
		}
		st["first_256"] = first256
		f2 := append([]bool(nil), first256...)
		f2[n-1] = true
		st["first_256_and_last"] = f2
		ev := make([]bool, n)
		for i := range ev {
			ev[i] = i%2 == 0
		}
		st["even"] = ev
		for _, name := range sortedKeys(st) {
			runSubset(bk, st[name], rb, false, false, "big:"+name)
		}
	}

	rep.Sample(map[string]interface{}{"family": "all_subsets", "what": fmt.Sprintf("every n <= %d with all 2^n subsets, three builders + extraction each", allMax)}, 4)
	rep.Sample(map[string]interface{}{"family": "structured", "what": fmt.Sprintf("every n <= %d: empty, full, every singleton, first/last, right edge, {0,4}, sparse, dense", upper)}, 4)
	rep.Sample(map[string]interface{}{"family": "big", "what": "n in 255..1025 (to 5000 thorough) and random: full, first 256 (+last), even, right edge, ..."}, 4)
	if corr {
		_, err := cases.Flush()
		vh.Must(err)
		rep.Cases = cases.Len()
	}
	vh.Must(rep.Write(cfg))
}

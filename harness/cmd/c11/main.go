// Command c11 drives the two merkle-block builders of the repository under test
// (merkleblock.NewMerkleBlockWithTxnSet / NewMerkleBlockWithFilter and bloom.NewMerkleBlock) and
// extraction of what they built:
//   - monitors: the built message is the canonical BIP37 partial merkle tree (independent reference
//     pmtref.Build), ExtractMatches of it returns the block's merkle root and exactly the chosen
//     transactions in block order, the returned index lists are the chosen positions, the two builders
//     agree, the header is copied;
//   - correspondence cases for the Coq models (Run/Run_C11.v).
package main

import (
	"bytes"
	"encoding/hex"
	"encoding/json"
	"fmt"
	"os"
	"sort"
	"strings"
	"sync"
	"time"

	"github.com/gcash/bchd/blockchain"
	"github.com/gcash/bchd/chaincfg/chainhash"
	"github.com/gcash/bchd/wire"
	"github.com/gcash/bchutil"
	"github.com/gcash/bchutil/bloom"
	"github.com/gcash/bchutil/merkleblock"

	"verif/harness/cmd/c12/plainrun"
	"verif/harness/cmd/c12/pmtref"
	"verif/harness/internal/vh"
)

var cfg vh.Config
var rep *vh.Report
var cases *vh.Cases
var maxTxn uint32

// ---------- synthetic blocks ----------
type blk struct {
	seed   uint64
	kind   string // "" = plain (makeBlock); "dep:<order>" = makeDepBlock
	b      *bchutil.Block
	leaves []pmtref.Hash
	header []byte
	// dependent blocks only: the 20-byte item the filter is loaded with and the transactions
	// that filter (BloomUpdateAll) must match whatever their order in the block
	watch  []byte
	expect []bool
}

// makeBlock builds a block of n distinct transactions (distinct lock times, values and previous
// outpoints), deterministic in (seed, n).
func makeBlock(seed uint64, n int) *blk {
	r := vh.NewRNG(seed).Fork(fmt.Sprintf("block%d", n))
	var prev chainhash.Hash
	copy(prev[:], r.Bytes(32))
	hdr := wire.NewBlockHeader(1, &prev, &chainhash.Hash{}, 0x1d00ffff, r.U32())
	hdr.Timestamp = time.Unix(1231006505+int64(n), 0)
	mb := wire.NewMsgBlock(hdr)
	for i := 0; i < n; i++ {
		tx := wire.NewMsgTx(1)
		var ph chainhash.Hash
		copy(ph[:], r.Bytes(32))
		tx.AddTxIn(wire.NewTxIn(wire.NewOutPoint(&ph, uint32(i)), []byte{0x51}))
		tx.AddTxOut(wire.NewTxOut(int64(i)+1, []byte{0x51}, wire.TokenData{}))
		tx.LockTime = uint32(i)
		mb.AddTransaction(tx)
	}
	return finishBlock(mb, seed, n, "")
}

// makeCtorBlock: as makeBlock, but the transactions after the first are in ascending txid order, as
// in every block since canonical transaction ordering (kind "ctor": txids compared as 256-bit numbers,
// i.e. from the last byte down, chainhash.Hash.Compare; kind "ctor-raw": plain byte order).
func makeCtorBlock(seed uint64, n int, kind string) *blk {
	plain := makeBlock(seed, n)
	txs := append([]*wire.MsgTx(nil), plain.b.MsgBlock().Transactions...)
	if n > 2 {
		rest := txs[1:]
		sort.SliceStable(rest, func(i, j int) bool {
			a, b := rest[i].TxHash(), rest[j].TxHash()
			if kind == "ctor-raw" {
				return bytes.Compare(a[:], b[:]) < 0
			}
			return a.Compare(&b) < 0
		})
	}
	hdr := plain.b.MsgBlock().Header
	mb := wire.NewMsgBlock(&hdr)
	for _, tx := range txs {
		mb.AddTransaction(tx)
	}
	return finishBlock(mb, seed, n, kind)
}

func makeBlockKind(seed uint64, n int, kind string) *blk {
	switch {
	case kind == "ctor" || kind == "ctor-raw":
		return makeCtorBlock(seed, n, kind)
	case strings.HasPrefix(kind, "dep:"):
		var order string
		var chain int
		if parts := strings.Split(kind, ":"); len(parts) == 3 {
			order = parts[1]
			fmt.Sscan(parts[2], &chain)
		}
		return makeDepBlock(seed, n, order, chain)
	}
	return makeBlock(seed, n)
}

func finishBlock(mb *wire.MsgBlock, seed uint64, n int, kind string) *blk {
	b := bchutil.NewBlock(mb)
	out := &blk{seed: seed, kind: kind, b: b}
	for _, tx := range b.Transactions() {
		out.leaves = append(out.leaves, pmtref.Hash(*tx.Hash()))
	}
	if n > 0 {
		store := blockchain.BuildMerkleTreeStore(b.Transactions())
		mb.Header.MerkleRoot = *store[len(store)-1]
		if pmtref.Hash(mb.Header.MerkleRoot) != pmtref.MerkleRoot(out.leaves) {
			rep.Violate("C11:dep:merkle_root", "blockchain.BuildMerkleTreeStore root differs from the textbook merkle root",
				map[string]interface{}{"block_seed": seed, "n": n, "block_kind": kind})
		}
	}
	var buf bytes.Buffer
	mb.Header.Serialize(&buf)
	out.header = buf.Bytes()
	return out
}

// makeDepBlock builds a block of n >= 2 transactions in which some transactions spend outputs of
// other transactions of the same block, for the two filter-driven builders with an updating filter
// (BloomUpdateAll): `chain` families P <- C <- G: P pays its output 0 to the watched pay-to-pubkey-hash
// script (matched through the script; the filter then learns the outpoint P:0), C spends P:0 and pays
// elsewhere (matched through that outpoint only, hence only once P has been seen), G spends C:0 (not
// matched), among unrelated transactions.  order: "topo" (parents first), "reverse" (every child before its
// parent, as canonical transaction ordering may place them), "shuffled".  The filter loaded with the
// watched hash must match exactly the chain, wherever its members sit (bloom.GetMatchedIndices re-checks
// children that precede their parent).  Deterministic in (seed, n, order, chain).
func makeDepBlock(seed uint64, n int, order string, chain int) *blk {
	r := vh.NewRNG(seed).Fork(fmt.Sprintf("dep%d/%s/%d", n, order, chain))
	var prev chainhash.Hash
	copy(prev[:], r.Bytes(32))
	hdr := wire.NewBlockHeader(1, &prev, &chainhash.Hash{}, 0x1d00ffff, r.U32())
	hdr.Timestamp = time.Unix(1231006505+int64(n), 0)
	watch := r.Bytes(20)
	p2pkh := append(append([]byte{0x76, 0xa9, 0x14}, watch...), 0x88, 0xac)
	type gtx struct {
		tx    *wire.MsgTx
		chain bool // must be matched
		fam   bool // member of a P <- C <- G family
	}
	var txs []gtx
	spend := func(parent *wire.MsgTx, lock uint32, script []byte) *wire.MsgTx {
		tx := wire.NewMsgTx(1)
		if parent == nil {
			var ph chainhash.Hash
			copy(ph[:], r.Bytes(32))
			tx.AddTxIn(wire.NewTxIn(wire.NewOutPoint(&ph, 7), []byte{0x51}))
		} else {
			h := parent.TxHash()
			tx.AddTxIn(wire.NewTxIn(wire.NewOutPoint(&h, 0), []byte{0x51}))
		}
		tx.AddTxOut(wire.NewTxOut(int64(5000+lock), script, wire.TokenData{}))
		tx.LockTime = lock
		return tx
	}
	for i := 0; i < chain && len(txs)+2 <= n; i++ {
		p := spend(nil, uint32(1000+8*i), p2pkh) // matched: pays the watched script
		// further watched outputs of the same parent, each spent by a child of its own (several
		// transactions that must be looked at again when the parent is met after them)
		for k := 1; k <= (i+n)%4 && len(txs)+2+k <= n; k++ {
			p.AddTxOut(wire.NewTxOut(int64(100+k), p2pkh, wire.TokenData{}))
		}
		c := spend(p, uint32(1001+8*i), []byte{0x51}) // matched only through the outpoint it spends
		txs = append(txs, gtx{p, true, true}, gtx{c, true, true})
		for k := 1; k < len(p.TxOut) && len(txs)+1 <= n; k++ {
			h := p.TxHash()
			ck := wire.NewMsgTx(1)
			ck.AddTxIn(wire.NewTxIn(wire.NewOutPoint(&h, uint32(k)), []byte{0x51}))
			ck.AddTxOut(wire.NewTxOut(int64(200+k), []byte{0x51}, wire.TokenData{}))
			ck.LockTime = uint32(1001 + 8*i + k)
			txs = append(txs, gtx{ck, true, true})
		}
		if i%2 == 0 && len(txs)+1 <= n {
			g := spend(c, uint32(1007+8*i), []byte{0x51}) // not matched: its parent's output was not added
			txs = append(txs, gtx{g, false, true})
		}
	}
	for i := len(txs); i < n; i++ {
		tx := wire.NewMsgTx(1)
		var ph chainhash.Hash
		copy(ph[:], r.Bytes(32))
		tx.AddTxIn(wire.NewTxIn(wire.NewOutPoint(&ph, uint32(i)), []byte{0x51}))
		tx.AddTxOut(wire.NewTxOut(int64(i)+1, []byte{0x51}, wire.TokenData{}))
		tx.LockTime = uint32(i)
		txs = append(txs, gtx{tx, false, false})
	}
	// placement
	switch order {
	case "topo":
		// chain first, in dependency order, interleaved with unrelated transactions
		var a, b []gtx
		for _, t := range txs {
			if t.fam {
				a = append(a, t)
			} else {
				b = append(b, t)
			}
		}
		txs = txs[:0]
		for len(a) > 0 || len(b) > 0 {
			if len(a) > 0 && (len(b) == 0 || r.Bool()) {
				txs, a = append(txs, a[0]), a[1:]
			} else {
				txs, b = append(txs, b[0]), b[1:]
			}
		}
	case "reverse":
		var a, b []gtx
		for _, t := range txs {
			if t.fam {
				a = append([]gtx{t}, a...)
			} else {
				b = append(b, t)
			}
		}
		txs = txs[:0]
		for len(a) > 0 || len(b) > 0 {
			if len(a) > 0 && (len(b) == 0 || r.Bool()) {
				txs, a = append(txs, a[0]), a[1:]
			} else {
				txs, b = append(txs, b[0]), b[1:]
			}
		}
	default:
		for i := len(txs) - 1; i > 0; i-- {
			j := r.Intn(i + 1)
			txs[i], txs[j] = txs[j], txs[i]
		}
	}
	mb := wire.NewMsgBlock(hdr)
	expect := make([]bool, len(txs))
	for i, t := range txs {
		mb.AddTransaction(t.tx)
		expect[i] = t.chain
	}
	out := finishBlock(mb, seed, len(txs), fmt.Sprintf("dep:%s:%d", order, chain))
	out.watch = watch
	out.expect = expect
	return out
}

func depFilter(bk *blk, tweak uint32) *bloom.Filter {
	f := bloom.NewFilter(uint32(len(bk.leaves)+4), tweak, 0.0000001, wire.BloomUpdateAll)
	f.Add(bk.watch)
	return f
}

func hexHashes(hs []pmtref.Hash) []string {
	out := make([]string, len(hs))
	for i := range hs {
		out[i] = hex.EncodeToString(hs[i][:])
	}
	return out
}

func selString(sel []bool) string {
	b := make([]byte, len(sel))
	for i, s := range sel {
		b[i] = '0'
		if s {
			b[i] = '1'
		}
	}
	return string(b)
}

func positions(sel []bool) []uint32 {
	var out []uint32
	for i, s := range sel {
		if s {
			out = append(out, uint32(i))
		}
	}
	return out
}

// ---------- observed results ----------
type built struct {
	Panic   string
	Count   uint32
	Hashes  []pmtref.Hash
	Flags   []byte
	Header  []byte
	Indices []uint32
	msg     *wire.MsgMerkleBlock
	idx     []uint32 // the returned index list itself (Indices is the copy taken when it was returned)
	input   string   // how the selection was handed over when that is not the usual way (nil set, unloaded filter, ...)
}

func observe(f func() (*wire.MsgMerkleBlock, []uint32)) (o built) {
	defer func() {
		if e := recover(); e != nil {
			o.Panic = fmt.Sprint(e)
		}
	}()
	m, idx := f()
	o.msg, o.idx = m, idx
	o.Count = m.Transactions
	for _, h := range m.Hashes {
		o.Hashes = append(o.Hashes, pmtref.Hash(*h))
	}
	o.Flags = append([]byte(nil), m.Flags...)
	var buf bytes.Buffer
	m.Header.Serialize(&buf)
	o.Header = buf.Bytes()
	o.Indices = append([]uint32(nil), idx...)
	return
}

type extracted struct {
	Panic   string
	OK, Bad bool
	Root    pmtref.Hash
	Items   []uint32
	Matches []pmtref.Hash
	pb      *merkleblock.PartialBlock
	rootPtr *chainhash.Hash
}

func extract(m *wire.MsgMerkleBlock) (o extracted) {
	defer func() {
		if e := recover(); e != nil {
			o.Panic = fmt.Sprint(e)
		}
	}()
	pb := merkleblock.NewMerkleBlockFromMsg(*m)
	root := pb.ExtractMatches()
	o.pb, o.rootPtr = pb, root
	o.Bad = pb.BadTree()
	if root != nil {
		o.OK = true
		o.Root = pmtref.Hash(*root)
		o.Items = append(o.Items, pb.GetItems()...)
		for _, x := range pb.GetMatches() {
			o.Matches = append(o.Matches, pmtref.Hash(*x))
		}
	}
	return
}

func sameBuilt(a, b built) bool {
	if a.Count != b.Count || !bytes.Equal(a.Flags, b.Flags) || !bytes.Equal(a.Header, b.Header) || len(a.Hashes) != len(b.Hashes) || len(a.Indices) != len(b.Indices) {
		return false
	}
	for i := range a.Hashes {
		if a.Hashes[i] != b.Hashes[i] {
			return false
		}
	}
	for i := range a.Indices {
		if a.Indices[i] != b.Indices[i] {
			return false
		}
	}
	return true
}

// ---------- monitors ----------
func replayOf(bk *blk, how string, sel []bool, o built) map[string]interface{} {
	m := map[string]interface{}{"block_seed": bk.seed, "n": len(bk.leaves), "block_kind": bk.kind, "builder": how, "chosen": selString(sel),
		"note": "block = makeBlock(block_seed, n) of harness/cmd/c11 (n synthetic transactions; block_kind dep:<order>:<chain> = makeDepBlock, filter = the watched hash with BloomUpdateAll); chosen[i]=1: transaction i is in the set / matched by the filter"}
	if len(bk.leaves) <= 16 {
		m["txids"] = hexHashes(bk.leaves)
	}
	if o.input != "" {
		m["input"] = o.input
	}
	if o.Panic != "" {
		m["panic"] = o.Panic
	} else {
		m["impl_transactions"] = o.Count
		m["impl_flags"] = hex.EncodeToString(o.Flags)
		m["impl_indices"] = o.Indices
		if len(o.Hashes) <= 24 {
			m["impl_hashes"] = hexHashes(o.Hashes)
		} else {
			m["impl_hash_count"] = len(o.Hashes)
		}
	}
	return m
}

// checkBuilt evaluates the property on one built message (sel = the selection the builder was given).
func checkBuilt(bk *blk, how string, sel []bool, o built) {
	n := len(bk.leaves)
	rp := func() map[string]interface{} { return replayOf(bk, how, sel, o) }
	if o.Panic != "" {
		rep.Violate("C11:panic:"+how, "the builder panicked on a block with at least one transaction", rp())
		return
	}
	if !bytes.Equal(o.Header, bk.header) {
		rep.Violate("C11:header:"+how, "the message header is not the block header", rp())
	}
	if int(o.Count) != n {
		rep.Violate("C11:count:"+how, "msg.Transactions differs from the number of transactions", rp())
	}
	// canonical BIP37 tree
	t := pmtref.Build(bk.leaves, sel)
	wantH := t.Hashes(nil)
	wantF := pmtref.Pack(t.Flags(nil))
	same := len(wantH) == len(o.Hashes) && bytes.Equal(wantF, o.Flags)
	for i := 0; same && i < len(wantH); i++ {
		same = wantH[i] == o.Hashes[i]
	}
	if !same {
		r := rp()
		r["reference_flags"] = hex.EncodeToString(wantF)
		r["reference_hash_count"] = len(wantH)
		rep.Violate("C11:canonical:"+how, "the built message is not the canonical partial merkle tree for the chosen subset", r)
	}
	// index list
	want := positions(sel)
	okIdx := len(want) == len(o.Indices)
	for i := 0; okIdx && i < len(want); i++ {
		okIdx = want[i] == o.Indices[i]
	}
	if !okIdx {
		rep.Violate("C11:indices:"+how, "the returned index list is not the list of chosen positions in block order", rp())
	}
	// round trip through extraction
	e := extract(o.msg)
	keepExtracted(bk, how, sel, o, e)
	switch {
	case e.Panic != "":
		rep.Violate("C11:roundtrip:panic", "ExtractMatches panicked on a built message", rp())
	case !e.OK:
		r := rp()
		r["bad_tree"] = e.Bad
		rep.Violate("C11:roundtrip:rejected:"+how, "ExtractMatches rejects the message the builder produced", r)
	default:
		if e.Root != pmtref.MerkleRoot(bk.leaves) || e.Root != pmtref.Hash(bk.b.MsgBlock().Header.MerkleRoot) {
			r := rp()
			r["extracted_root"] = hex.EncodeToString(e.Root[:])
			rep.Violate("C11:roundtrip:root:"+how, "the extracted root is not the block's merkle root", r)
		}
		okM := len(e.Items) == len(want) && len(e.Matches) == len(want)
		for i := 0; okM && i < len(want); i++ {
			okM = e.Items[i] == want[i] && e.Matches[i] == bk.leaves[want[i]]
		}
		if !okM {
			r := rp()
			r["extracted_items"] = e.Items
			rep.Violate("C11:roundtrip:matches:"+how, "extraction does not reveal exactly the chosen transactions with their positions in block order", r)
		}
	}
}

// ---------- the builders ----------
func ptrs(hs []pmtref.Hash) []*chainhash.Hash {
	out := make([]*chainhash.Hash, len(hs))
	for i := range hs {
		h := chainhash.Hash(hs[i])
		out[i] = &h
	}
	return out
}

// byTxnSet runs NewMerkleBlockWithTxnSet with the chosen ids (plus, optionally, foreign ids and duplicates).
func byTxnSet(bk *blk, sel []bool, r *vh.RNG, noise bool) (built, []pmtref.Hash) {
	var set []pmtref.Hash
	for i, s := range sel {
		if s {
			set = append(set, bk.leaves[i])
		}
	}
	if noise {
		if len(set) > 0 && r.Bool() {
			set = append(set, set[r.Intn(len(set))]) // duplicate
		}
		if r.Bool() {
			var f pmtref.Hash
			copy(f[:], r.Bytes(32))
			set = append(set, f) // not in the block
		}
		for i := len(set) - 1; i > 0; i-- { // order must not matter
			j := r.Intn(i + 1)
			set[i], set[j] = set[j], set[i]
		}
	}
	o := observe(func() (*wire.MsgMerkleBlock, []uint32) { return merkleblock.NewMerkleBlockWithTxnSet(bk.b, ptrs(set)) })
	noteCall(bk, "NewMerkleBlockWithTxnSet", sel)
	return o, set
}

// emptyInputs: the empty selection handed over in every way the API allows.  Transaction set: nil, an empty
// literal, an empty slice with capacity (the model cannot tell them apart, so the builder must not);
// filter: not loaded (LoadFilter(nil)), unloaded after use - each of them matches nothing (C09) - through
// both filter-driven builders.  Every result must be the canonical
// message of the empty subset with an empty index list.
func emptyInputs(bk *blk) {
	none := make([]bool, len(bk.leaves))
	sets := []struct {
		name string
		set  []*chainhash.Hash
	}{{"txnSet = nil", nil}, {"txnSet = []*chainhash.Hash{}", []*chainhash.Hash{}}, {"txnSet = make([]*chainhash.Hash, 0, 8)", make([]*chainhash.Hash, 0, 8)}}
	for _, x := range sets {
		set := x.set
		o := observe(func() (*wire.MsgMerkleBlock, []uint32) { return merkleblock.NewMerkleBlockWithTxnSet(bk.b, set) })
		o.input = x.name
		noteCall(bk, "NewMerkleBlockWithTxnSet", none)
		rep.Evaluations++
		rep.Histogram["empty_input:"+x.name]++
		checkBuilt(bk, "NewMerkleBlockWithTxnSet", none, o)
		keep(bk, "NewMerkleBlockWithTxnSet", none, o)
	}
	filters := []struct {
		name string
		mk   func() *bloom.Filter
	}{
		{"filter = bloom.LoadFilter(nil) (not loaded)", func() *bloom.Filter { return bloom.LoadFilter(nil) }},
		{"filter = NewFilter(..) loaded with every txid, then Unload()", func() *bloom.Filter {
			all := make([]bool, len(bk.leaves))
			for i := range all {
				all[i] = true
			}
			f := newFilter(bk, all, 7)
			f.Unload()
			return f
		}},
	}
	for _, x := range filters {
		if p, _ := vh.Catch(func() {
			for i, m := range bloom.GetMatchedIndices(bk.b, x.mk()) {
				if m {
					r := replayOf(bk, "GetMatchedIndices", none, built{Panic: "n/a", input: x.name})
					r["matched_index"] = i
					rep.Violate("C11:dep:empty_filter_matches", "a filter that is not loaded matches a transaction (C09/C10)", r)
				}
			}
		}); p {
			continue // outside C11 (C08's business); the builders would panic in the same call
		}
		a := observe(func() (*wire.MsgMerkleBlock, []uint32) { return merkleblock.NewMerkleBlockWithFilter(bk.b, x.mk()) })
		noteCall(bk, "NewMerkleBlockWithFilter", none)
		b := observe(func() (*wire.MsgMerkleBlock, []uint32) { return bloom.NewMerkleBlock(bk.b, x.mk()) })
		noteCall(bk, "bloom.NewMerkleBlock", none)
		a.input, b.input = x.name, x.name
		rep.Evaluations += 2
		rep.Histogram["empty_input:"+strings.SplitN(x.name, " (", 2)[0]] += 2
		checkBuilt(bk, "NewMerkleBlockWithFilter", none, a)
		checkBuilt(bk, "bloom.NewMerkleBlock", none, b)
		if a.Panic == "" && b.Panic == "" && !sameBuilt(a, b) {
			rep.Violate("C11:builders_agree", "bloom.NewMerkleBlock and merkleblock.NewMerkleBlockWithFilter differ for the same block and filter", replayOf(bk, "bloom.NewMerkleBlock", none, b))
		}
	}
}

// fullFilter: a filter whose bits are all set, and a loaded filter with an empty bit array (which matches
// everything, as in the reference client: bloom.Filter.matches), select every transaction.
func fullFilter(bk *blk) {
	all := make([]bool, len(bk.leaves))
	for i := range all {
		all[i] = true
	}
	filters := []struct {
		name string
		mk   func() *bloom.Filter
	}{
		{"filter = 16 bytes 0xff, 3 hash functions (matches everything)", func() *bloom.Filter {
			return bloom.LoadFilter(&wire.MsgFilterLoad{Filter: bytes.Repeat([]byte{0xff}, 16), HashFuncs: 3, Tweak: 5, Flags: wire.BloomUpdateNone})
		}},
		{"filter = LoadFilter(filterload{Filter: {}, HashFuncs: 1}) (empty bit array: matches everything)", func() *bloom.Filter {
			return bloom.LoadFilter(&wire.MsgFilterLoad{Filter: []byte{}, HashFuncs: 1, Flags: wire.BloomUpdateNone})
		}},
		{"filter = LoadFilter(filterload{Filter: nil, HashFuncs: 0}) (nil bit array: matches everything)", func() *bloom.Filter {
			return bloom.LoadFilter(&wire.MsgFilterLoad{})
		}},
	}
	for _, x := range filters {
		a := observe(func() (*wire.MsgMerkleBlock, []uint32) { return merkleblock.NewMerkleBlockWithFilter(bk.b, x.mk()) })
		noteCall(bk, "NewMerkleBlockWithFilter", all)
		b := observe(func() (*wire.MsgMerkleBlock, []uint32) { return bloom.NewMerkleBlock(bk.b, x.mk()) })
		noteCall(bk, "bloom.NewMerkleBlock", all)
		a.input, b.input = x.name, x.name
		rep.Evaluations += 2
		rep.Histogram["full_filter"] += 2
		checkBuilt(bk, "NewMerkleBlockWithFilter", all, a)
		checkBuilt(bk, "bloom.NewMerkleBlock", all, b)
	}
}

func newFilter(bk *blk, sel []bool, tweak uint32) *bloom.Filter {
	k := 1
	for _, s := range sel {
		if s {
			k++
		}
	}
	f := bloom.NewFilter(uint32(k), tweak, 0.0000001, wire.BloomUpdateNone)
	for i, s := range sel {
		if s {
			h := chainhash.Hash(bk.leaves[i])
			f.AddHash(&h)
		}
	}
	return f
}

// byFilter runs both filter-driven builders on identical filters; returns what the filter matched.
func byFilter(bk *blk, sel []bool, tweak uint32) (mbRes, blRes built, matched []bool) {
	mm := bloom.GetMatchedIndices(bk.b, newFilter(bk, sel, tweak))
	matched = make([]bool, len(bk.leaves))
	for i := range matched {
		matched[i] = mm[i]
	}
	mbRes = observe(func() (*wire.MsgMerkleBlock, []uint32) {
		return merkleblock.NewMerkleBlockWithFilter(bk.b, newFilter(bk, sel, tweak))
	})
	noteCall(bk, "NewMerkleBlockWithFilter", matched)
	blRes = observe(func() (*wire.MsgMerkleBlock, []uint32) { return bloom.NewMerkleBlock(bk.b, newFilter(bk, sel, tweak)) })
	noteCall(bk, "bloom.NewMerkleBlock", matched)
	return
}

// ---------- correspondence ----------
// namer gives every distinct hash of a case one `let` binding (Coq spends ~4 ms per 32-byte literal).
type namer struct {
	names map[pmtref.Hash]string
	order []pmtref.Hash
}

func newNamer() *namer { return &namer{names: map[pmtref.Hash]string{}} }
func (nm *namer) h(x pmtref.Hash) string {
	if s, ok := nm.names[x]; ok {
		return s
	}
	s := fmt.Sprintf("h%d", len(nm.order))
	nm.names[x] = s
	nm.order = append(nm.order, x)
	return s
}
func (nm *namer) hs(xs []pmtref.Hash) string {
	it := make([]string, len(xs))
	for i, x := range xs {
		it[i] = nm.h(x)
	}
	return vh.CoqList(it)
}
func (nm *namer) wrap(body string) string {
	var sb bytes.Buffer
	sb.WriteString("(")
	for i, x := range nm.order {
		fmt.Fprintf(&sb, "let h%d := %s in ", i, vh.CoqBytes(x[:]))
	}
	sb.WriteString(body)
	sb.WriteString(")")
	return sb.String()
}

func coqU32s(xs []uint32) string {
	it := make([]string, len(xs))
	for i, x := range xs {
		it[i] = fmt.Sprint(x)
	}
	return vh.CoqList(it)
}
func coqBools(bs []bool) string {
	it := make([]string, len(bs))
	for i, b := range bs {
		it[i] = vh.CoqBool(b)
	}
	return vh.CoqList(it)
}

// table: every inner node of the block's merkle tree as (left, right, result); empty for small
// blocks, whose node hashes are computed inside Coq.
func table(nm *namer, bk *blk) string {
	if len(bk.leaves) <= 5 {
		return "[]"
	}
	var it []string
	cur := bk.leaves
	for len(cur) > 1 {
		var next []pmtref.Hash
		for i := 0; i < len(cur); i += 2 {
			l, r := cur[i], cur[i]
			if i+1 < len(cur) {
				r = cur[i+1]
			}
			o := pmtref.NodeHash(l, r)
			it = append(it, fmt.Sprintf("(%s, %s, %s)", nm.h(l), nm.h(r), nm.h(o)))
			next = append(next, o)
		}
		cur = next
	}
	return vh.CoqList(it)
}

func extFields(nm *namer, e extracted) string {
	ms := make([]string, len(e.Items))
	for i := range e.Items {
		ms[i] = fmt.Sprintf("(%d, %s)", e.Items[i], nm.h(e.Matches[i]))
	}
	root := "[]"
	if e.OK {
		root = nm.h(e.Root)
	}
	return fmt.Sprintf("%d %s %s %s %s", maxTxn, vh.CoqBool(e.OK), vh.CoqBool(e.Bad), root, vh.CoqList(ms))
}

func addBuildSet(bk *blk, sel []bool, set []pmtref.Hash, o built) {
	if o.Panic != "" {
		return
	}
	e := extract(o.msg)
	if e.Panic != "" {
		return
	}
	nm := newNamer()
	body := fmt.Sprintf("BuildSet %s %s %s %s %d %s %s %s %s", table(nm, bk), vh.CoqBytes(bk.header), nm.hs(bk.leaves), nm.hs(set),
		o.Count, nm.hs(o.Hashes), vh.CoqBytes(o.Flags), coqU32s(o.Indices), extFields(nm, e))
	cases.Add(nm.wrap(body),
		map[string]interface{}{"op": "NewMerkleBlockWithTxnSet + ExtractMatches", "block_seed": bk.seed, "n": len(bk.leaves), "chosen": selString(sel), "txnset_size": len(set),
			"impl_flags": hex.EncodeToString(o.Flags), "impl_hash_count": len(o.Hashes), "impl_indices": o.Indices, "extract_ok": e.OK, "extract_items": e.Items})
}

func addBuildFilter(bk *blk, sel, matched []bool, a, b built) {
	if a.Panic != "" || b.Panic != "" {
		return
	}
	nm := newNamer()
	body := fmt.Sprintf("BuildFilter %s %s %s %s %d %s %s %s %d %s %s %s", table(nm, bk), vh.CoqBytes(bk.header), nm.hs(bk.leaves), coqBools(matched),
		a.Count, nm.hs(a.Hashes), vh.CoqBytes(a.Flags), coqU32s(a.Indices),
		b.Count, nm.hs(b.Hashes), vh.CoqBytes(b.Flags), coqU32s(b.Indices))
	cases.Add(nm.wrap(body),
		map[string]interface{}{"op": "NewMerkleBlockWithFilter+bloom.NewMerkleBlock", "block_seed": bk.seed, "n": len(bk.leaves), "chosen": selString(sel), "matched": selString(matched),
			"mb_flags": hex.EncodeToString(a.Flags), "bloom_flags": hex.EncodeToString(b.Flags)})
}

// ---------- messages stay what they were; the block is not written to ----------
// A built message is remembered together with the snapshot taken when it was returned and looked at
// again after later builder calls (on other blocks and subsets): storage shared between two results,
// or state kept by a builder between calls, shows up as a changed earlier message.
type kept struct {
	bk  *blk
	how string
	sel []bool
	o   built
	e   extracted // extraction results kept alive (only for keptExt)
}

// the first few results of the run are kept for good, the last few in a ring
var keptPinned, keptRing []kept
var keptExt []kept

// lastCall describes the builder call made last (what an earlier result is re-read after)
var lastCall struct {
	bk  *blk
	how string
	sel []bool
}

func noteCall(bk *blk, how string, sel []bool) { lastCall.bk, lastCall.how, lastCall.sel = bk, how, sel }

func unchanged(o built) bool {
	m := o.msg
	if m == nil {
		return true
	}
	if m.Transactions != o.Count || !bytes.Equal(m.Flags, o.Flags) || len(m.Hashes) != len(o.Hashes) {
		return false
	}
	for i, h := range m.Hashes {
		if h == nil || pmtref.Hash(*h) != o.Hashes[i] {
			return false
		}
	}
	var buf bytes.Buffer
	m.Header.Serialize(&buf)
	return bytes.Equal(buf.Bytes(), o.Header)
}

func unchangedIdx(o built) bool {
	if len(o.idx) != len(o.Indices) {
		return false
	}
	for i := range o.idx {
		if o.idx[i] != o.Indices[i] {
			return false
		}
	}
	return true
}

func laterOf(r map[string]interface{}) {
	if lastCall.bk != nil {
		r["later_block_seed"], r["later_n"], r["later_block_kind"], r["later_builder"], r["later_chosen"] = lastCall.bk.seed, len(lastCall.bk.leaves), lastCall.bk.kind, lastCall.how, selString(lastCall.sel)
		r["history"] = "this builder call was made and its results were looked at (impl_*); then, among others, the later_* call was made; then the SAME returned message / index list / PartialBlock was read again"
	}
}

func checkKept() {
	for _, ring := range [][]kept{keptPinned, keptRing} {
		for _, k := range ring {
			if !unchanged(k.o) {
				r := replayOf(k.bk, k.how, k.sel, k.o)
				r["now_flags"] = hex.EncodeToString(k.o.msg.Flags)
				r["now_hash_count"] = len(k.o.msg.Hashes)
				laterOf(r)
				rep.Violate("C11:stable:"+k.how, "a message returned earlier is no longer what was returned (it changed while later messages were built)", r)
			}
			if !unchangedIdx(k.o) {
				r := replayOf(k.bk, k.how, k.sel, k.o)
				r["now_indices"] = append([]uint32(nil), k.o.idx...)
				laterOf(r)
				rep.Violate("C11:stable:indices:"+k.how, "an index list returned earlier is no longer what was returned (it changed while later messages were built)", r)
			}
		}
	}
	for _, k := range keptExt {
		now := extracted{OK: true, Bad: k.e.pb.BadTree()}
		if k.e.rootPtr != nil {
			now.Root = pmtref.Hash(*k.e.rootPtr)
		}
		now.Items = append(now.Items, k.e.pb.GetItems()...)
		for _, x := range k.e.pb.GetMatches() {
			now.Matches = append(now.Matches, pmtref.Hash(*x))
		}
		same := now.Bad == k.e.Bad && now.Root == k.e.Root && len(now.Items) == len(k.e.Items) && len(now.Matches) == len(k.e.Matches)
		for i := 0; same && i < len(now.Items); i++ {
			same = now.Items[i] == k.e.Items[i] && now.Matches[i] == k.e.Matches[i]
		}
		if !same {
			r := replayOf(k.bk, k.how, k.sel, k.o)
			r["extracted_items"], r["now_extracted_items"] = k.e.Items, now.Items
			r["extracted_root"], r["now_extracted_root"] = hex.EncodeToString(k.e.Root[:]), hex.EncodeToString(now.Root[:])
			laterOf(r)
			rep.Violate("C11:stable:extracted", "what extraction of a built message returned (root, positions, ids) is no longer what it returned (it changed during later calls)", r)
		}
	}
}

var keptCalls int

func keep(bk *blk, how string, sel []bool, o built) {
	if o.Panic != "" {
		return
	}
	k := kept{bk: bk, how: how, sel: append([]bool(nil), sel...), o: o}
	keptCalls++
	// pinned: the first six results of the run, and one result of every 997th call after that (at most 12)
	if len(keptPinned) < 6 || (keptCalls%997 == 0 && len(keptPinned) < 12 && len(bk.leaves) <= 4096) {
		keptPinned = append(keptPinned, k)
		return
	}
	keptRing = append(keptRing, k)
	if len(keptRing) > 6 {
		keptRing = keptRing[len(keptRing)-6:]
	}
}

func keepExtracted(bk *blk, how string, sel []bool, o built, e extracted) {
	if e.Panic != "" || !e.OK || e.pb == nil || len(e.Items) == 0 || len(e.Items) > 4096 {
		return
	}
	k := kept{bk: bk, how: how, sel: append([]bool(nil), sel...), o: o, e: e}
	if len(keptExt) >= 8 {
		keptExt = append(keptExt[:3:3], keptExt[len(keptExt)-4:]...) // the first three stay
	}
	keptExt = append(keptExt, k)
}

// checkBlockIntact: building must not write to the block it was given.
func checkBlockIntact(bk *blk, how string, sel []bool) {
	var buf bytes.Buffer
	bk.b.MsgBlock().Header.Serialize(&buf)
	same := bytes.Equal(buf.Bytes(), bk.header) && len(bk.b.Transactions()) == len(bk.leaves)
	for i, tx := range bk.b.Transactions() {
		if !same {
			break
		}
		same = pmtref.Hash(*tx.Hash()) == bk.leaves[i] && pmtref.Hash(tx.MsgTx().TxHash()) == bk.leaves[i]
	}
	if !same {
		rep.Violate("C11:input_mutated:"+how, "the block (header, transaction ids) differs after building a merkle block from it", replayOf(bk, how, sel, built{Panic: "n/a"}))
	}
}

// ---------- one (block, subset) through everything ----------
var distinctTrees = map[string]bool{}

func runSubset(bk *blk, sel []bool, r *vh.RNG, corrSet, corrFilter bool, family string) {
	n := len(bk.leaves)
	key := fmt.Sprintf("%d/%s", n, selString(sel))
	rep.Count(family, key, true)
	checkKept()
	// by transaction set (TxInSet is a linear scan per transaction: skipped when |set| * n is huge)
	chosenCount := 0
	for _, s := range sel {
		if s {
			chosenCount++
		}
	}
	var o built
	if chosenCount*n <= 40000000 {
		var set []pmtref.Hash
		o, set = byTxnSet(bk, sel, r, r.Chance(1, 3))
		checkBuilt(bk, "NewMerkleBlockWithTxnSet", sel, o)
		if corrSet {
			addBuildSet(bk, sel, set, o)
		}
	} else {
		o.Panic = "skipped"
		rep.Histogram["skipped:txnset_too_big"]++
	}
	// by filter, both builders
	a, b, matched := byFilter(bk, sel, r.U32())
	rep.Evaluations += 2
	if n <= 4096 || r.Chance(1, 4) {
		checkBlockIntact(bk, "any", sel)
	}
	checkKept()
	keep(bk, "NewMerkleBlockWithTxnSet", sel, o)
	keep(bk, "NewMerkleBlockWithFilter", matched, a)
	keep(bk, "bloom.NewMerkleBlock", matched, b)
	for i, s := range sel {
		if s && !matched[i] {
			rep.Violate("C11:dep:filter_false_negative", "a transaction whose id was added to the filter is not matched (C09/C10)", replayOf(bk, "GetMatchedIndices", sel, built{Panic: "n/a"}))
		}
	}
	checkBuilt(bk, "NewMerkleBlockWithFilter", matched, a)
	checkBuilt(bk, "bloom.NewMerkleBlock", matched, b)
	if a.Panic == "" && b.Panic == "" && !sameBuilt(a, b) {
		r := replayOf(bk, "bloom.NewMerkleBlock", matched, b)
		r["merkleblock_flags"] = hex.EncodeToString(a.Flags)
		r["merkleblock_hash_count"] = len(a.Hashes)
		r["merkleblock_indices"] = a.Indices
		rep.Violate("C11:builders_agree", "bloom.NewMerkleBlock and merkleblock.NewMerkleBlockWithFilter differ for the same block and filter", r)
	}
	// the set-driven builder against the filter-driven ones when the filter matched exactly the chosen ids
	if o.Panic == "" && a.Panic == "" && selString(sel) == selString(matched) && !sameBuilt(o, a) {
		r := replayOf(bk, "NewMerkleBlockWithTxnSet", sel, o)
		r["filter_builder_flags"] = hex.EncodeToString(a.Flags)
		r["filter_builder_hash_count"] = len(a.Hashes)
		r["filter_builder_indices"] = a.Indices
		rep.Violate("C11:builders_agree:set_vs_filter", "NewMerkleBlockWithTxnSet and NewMerkleBlockWithFilter differ for the same block and the same chosen transactions", r)
	}
	if corrFilter {
		addBuildFilter(bk, sel, matched, a, b)
	}
	switch chosenCount {
	case 0:
		emptyInputs(bk)
		checkKept()
	case n:
		if n <= 4096 {
			fullFilter(bk)
		}
	}
}

// nearMiss: the transaction set holds, besides the chosen ids, ids that differ from an id of the
// block that is NOT chosen in a single bit (of byte `at`), and ids of chosen transactions with one bit
// flipped: none of them may select anything.
func nearMiss(bk *blk, sel []bool, r *vh.RNG, at int, corr bool) {
	n := len(bk.leaves)
	rep.Count("near_miss", fmt.Sprintf("%d/%s/%d", n, selString(sel), at), true)
	var set []pmtref.Hash
	for i, s := range sel {
		if s {
			set = append(set, bk.leaves[i])
		}
	}
	for i, s := range sel {
		if !s || r.Chance(1, 4) {
			f := bk.leaves[i]
			f[at] ^= 1 << uint(r.Intn(8))
			set = append(set, f)
		}
	}
	for i := len(set) - 1; i > 0; i-- {
		j := r.Intn(i + 1)
		set[i], set[j] = set[j], set[i]
	}
	o := observe(func() (*wire.MsgMerkleBlock, []uint32) { return merkleblock.NewMerkleBlockWithTxnSet(bk.b, ptrs(set)) })
	rep.Evaluations++
	checkBuilt(bk, "NewMerkleBlockWithTxnSet", sel, o)
	for _, id := range set { // TxInSet itself, against plain membership
		h := chainhash.Hash(id)
		in := false
		for _, x := range set {
			in = in || x == id
		}
		if !merkleblock.TxInSet(&h, ptrs(set)) || !in {
			rep.Violate("C11:tx_in_set", "TxInSet does not find a member of the set", replayOf(bk, "TxInSet", sel, o))
		}
	}
	for i, s := range sel {
		h := chainhash.Hash(bk.leaves[i])
		if merkleblock.TxInSet(&h, ptrs(set)) != s {
			r := replayOf(bk, "TxInSet", sel, o)
			r["txnset"] = hexHashes(set)
			r["queried_index"] = i
			rep.Violate("C11:tx_in_set", "TxInSet(id, set) differs from 'id is an element of set' (the set holds ids one bit away from ids of the block)", r)
			break
		}
	}
	if corr {
		addBuildSet(bk, sel, set, o)
	}
}

// ---------- extraction of canonical proofs over hand-made transaction ids ----------
// Real transaction ids are SHA-256d outputs, so two ids of one block never look alike; here the leaves
// are written by hand so that all of them agree in a prefix / a suffix / everything but one byte.  The
// message is the canonical one (reference builder; the builders are held to it by C11:canonical), and
// extracting it must give the merkle root and exactly the chosen (position, id) pairs.
func craftedLeaves(seed uint64, n int, mode string) []pmtref.Hash {
	r := vh.NewRNG(seed).Fork(fmt.Sprintf("crafted%d/%s", n, mode))
	kind, k := mode, 0
	if i := strings.IndexAny(mode, "0123456789"); i >= 0 {
		kind = mode[:i]
		fmt.Sscan(mode[i:], &k)
	}
	base := r.Bytes(32)
	out := make([]pmtref.Hash, n)
	for i := range out {
		var h pmtref.Hash
		copy(h[:], base)
		switch kind {
		case "prefix": // first k bytes shared, the rest differs
			copy(h[k:], r.Bytes(32-k))
			h[31] = byte(i)
			h[30] = byte(i >> 8)
		case "suffix": // last k bytes shared
			copy(h[:32-k], r.Bytes(32-k))
			h[0] = byte(i)
			h[1] = byte(i >> 8)
		default: // "byte": all bytes shared but byte k (and k+1 for n > 256)
			h[k%32] = byte(i)
			if n > 256 {
				h[(k+1)%32] = byte(i >> 8)
			}
		}
		out[i] = h
	}
	return out
}

func craftedOne(seed uint64, n int, mode string, sel []bool, corr bool) {
	leaves := craftedLeaves(seed, n, mode)
	rep.Count("crafted:"+strings.TrimRight(mode, "0123456789"), fmt.Sprintf("%d/%s/%s", n, mode, selString(sel)), true)
	t := pmtref.Build(leaves, sel)
	hashes, flags := t.Hashes(nil), pmtref.Pack(t.Flags(nil))
	msg := &wire.MsgMerkleBlock{Transactions: uint32(n), Hashes: ptrs(hashes), Flags: flags}
	e := extract(msg)
	rep.Evaluations++
	rp := func() map[string]interface{} {
		m := map[string]interface{}{"block_kind": "crafted", "block_seed": seed, "n": n, "leaf_mode": mode, "chosen": selString(sel),
			"note":           "leaves = craftedLeaves(block_seed, n, leaf_mode) of harness/cmd/c11 (hand-made ids sharing a prefix / suffix / all but one byte); message = canonical partial merkle tree for the chosen subset",
			"msg_flags":      hex.EncodeToString(flags), "extract_ok": e.OK, "extract_bad_tree": e.Bad, "extract_items": e.Items, "extract_matches": hexHashes(e.Matches), "expected_items": positions(sel)}
		if n <= 16 {
			m["txids"] = hexHashes(leaves)
			m["msg_hashes"] = hexHashes(hashes)
		}
		return m
	}
	want := positions(sel)
	switch {
	case e.Panic != "":
		rep.Violate("C11:roundtrip:panic", "ExtractMatches panicked on a canonical message", rp())
	case !e.OK:
		rep.Violate("C11:roundtrip:rejected:crafted", "ExtractMatches rejects the canonical message of a block with distinct transaction ids", rp())
	default:
		if e.Root != pmtref.MerkleRoot(leaves) {
			rep.Violate("C11:roundtrip:root:crafted", "the extracted root is not the block's merkle root", rp())
		}
		okM := len(e.Items) == len(want) && len(e.Matches) == len(want)
		for i := 0; okM && i < len(want); i++ {
			okM = e.Items[i] == want[i] && e.Matches[i] == leaves[want[i]]
		}
		if !okM {
			rep.Violate("C11:roundtrip:matches:crafted", "extraction does not reveal exactly the chosen transactions with their positions in block order", rp())
		}
	}
	if corr && e.Panic == "" {
		nm := newNamer()
		// node hashes of the whole tree as an oracle table (a missing pair is computed in Coq)
		bk := &blk{leaves: leaves}
		ms := make([]string, len(e.Items))
		for i := range e.Items {
			ms[i] = fmt.Sprintf("(%d, %s)", e.Items[i], nm.h(e.Matches[i]))
		}
		root := "[]"
		if e.OK {
			root = nm.h(e.Root)
		}
		term := fmt.Sprintf("Ext %s %d %d %s %s %s %s %s %s", table(nm, bk), maxTxn, n, nm.hs(hashes), vh.CoqBytes(flags),
			vh.CoqBool(e.OK), vh.CoqBool(e.Bad), root, vh.CoqList(ms))
		cases.Add(nm.wrap(term), map[string]interface{}{"op": "ExtractMatches (canonical message over hand-made ids)", "n": n, "leaf_mode": mode, "chosen": selString(sel), "extract_ok": e.OK, "extract_items": e.Items})
	}
}

func craftedReplay(seed uint64, n int, mode, chosen string) {
	sel := make([]bool, n)
	for i := range sel {
		sel[i] = i < len(chosen) && chosen[i] == '1'
	}
	craftedOne(seed, n, mode, sel, false)
}

func craftedFamily(r *vh.RNG, maxN int, corr bool) {
	modes := []string{"prefix1", "prefix2", "prefix4", "prefix6", "prefix8", "prefix16", "prefix24", "prefix29",
		"suffix1", "suffix2", "suffix4", "suffix6", "suffix8", "suffix16", "suffix24", "suffix29"}
	for b := 0; b < 32; b += 3 {
		modes = append(modes, fmt.Sprintf("byte%d", b))
	}
	k := 0
	for n := 2; n <= maxN; n++ {
		for _, mode := range modes {
			var sels [][]bool
			full := make([]bool, n)
			rnd := make([]bool, n)
			for i := range full {
				full[i] = true
				rnd[i] = r.Bool()
			}
			sels = append(sels, full, rnd, subsetOf(n, r.Intn(n), r.Intn(n)), subsetOf(n, 0, n-1))
			for _, sel := range sels {
				k++
				craftedOne(cfg.Seed, n, mode, sel, corr && n <= 9 && k%211 == 0)
			}
		}
	}
	for _, n := range []int{255, 256, 257, 1000} {
		for _, mode := range []string{"prefix6", "suffix6", "byte0", "byte30", "prefix29"} {
			full := make([]bool, n)
			for i := range full {
				full[i] = true
			}
			craftedOne(cfg.Seed, n, mode, full, false)
		}
	}
}

// runDep: a block with in-block spends and an updating filter through both filter-driven builders
// (and the set-driven one with the ids the filter selects).
func runDep(bk *blk, r *vh.RNG, corr bool) {
	n := len(bk.leaves)
	tweak := r.U32()
	mm := bloom.GetMatchedIndices(bk.b, depFilter(bk, tweak))
	matched := make([]bool, n)
	extra := false
	for i := range matched {
		matched[i] = mm[i]
		if bk.expect[i] && !matched[i] {
			rep.Violate("C11:dep:matched_indices", "bloom.GetMatchedIndices misses a transaction that pays the watched script or spends a matched output (C10)", replayOf(bk, "GetMatchedIndices", bk.expect, built{Panic: "n/a"}))
		}
		extra = extra || (matched[i] && !bk.expect[i])
	}
	if extra {
		rep.Histogram["dep:filter_false_positive"]++
	}
	// the subset the filter induces: what must be matched by construction, plus false positives of the filter
	got := matched
	matched = make([]bool, n)
	for i := range matched {
		matched[i] = bk.expect[i] || got[i]
	}
	rep.Count("dependent:"+bk.kind[4:4+3], fmt.Sprintf("%s/%d/%s", bk.kind, n, selString(matched)), true)
	checkKept()
	a := observe(func() (*wire.MsgMerkleBlock, []uint32) {
		return merkleblock.NewMerkleBlockWithFilter(bk.b, depFilter(bk, tweak))
	})
	b := observe(func() (*wire.MsgMerkleBlock, []uint32) { return bloom.NewMerkleBlock(bk.b, depFilter(bk, tweak)) })
	rep.Evaluations += 2
	checkBuilt(bk, "NewMerkleBlockWithFilter", matched, a)
	checkBuilt(bk, "bloom.NewMerkleBlock", matched, b)
	if a.Panic == "" && b.Panic == "" && !sameBuilt(a, b) {
		rp := replayOf(bk, "bloom.NewMerkleBlock", matched, b)
		rp["merkleblock_flags"] = hex.EncodeToString(a.Flags)
		rp["merkleblock_hash_count"] = len(a.Hashes)
		rp["merkleblock_indices"] = a.Indices
		rep.Violate("C11:builders_agree", "bloom.NewMerkleBlock and merkleblock.NewMerkleBlockWithFilter differ for the same block and filter", rp)
	}
	o, set := byTxnSet(bk, matched, r, r.Bool())
	rep.Evaluations++
	checkBuilt(bk, "NewMerkleBlockWithTxnSet", matched, o)
	checkBlockIntact(bk, "any", matched)
	checkKept()
	keep(bk, "NewMerkleBlockWithFilter", matched, a)
	keep(bk, "bloom.NewMerkleBlock", matched, b)
	if corr {
		addBuildFilter(bk, matched, matched, a, b)
		addBuildSet(bk, matched, set, o)
	}
}

// ---------- many calls in one process ----------
// soak: `calls` builder calls on one small block, cycling through the three builders and all subsets, every
// result compared with the reference results computed once per subset, the results of calls 0, 1, 2, 10,
// 100, 1000, ... kept and read again at the end: counters that wrap, scratch areas that fill up, caches
// that go stale after N calls.
func soak(seed uint64, n, calls int, r *vh.RNG) {
	bk := makeBlock(seed, n)
	type want struct {
		hashes []pmtref.Hash
		flags  []byte
		idx    []uint32
		sel    []bool
	}
	wants := make([]want, 1<<uint(n))
	for code := range wants {
		sel := make([]bool, n)
		for i := range sel {
			sel[i] = code>>uint(i)&1 == 1
		}
		t := pmtref.Build(bk.leaves, sel)
		wants[code] = want{t.Hashes(nil), pmtref.Pack(t.Flags(nil)), positions(sel), sel}
	}
	hows := []string{"NewMerkleBlockWithTxnSet", "NewMerkleBlockWithFilter", "bloom.NewMerkleBlock"}
	var held []kept
	var heldAt []int
	next := 0
	agree := func(o built, w want) bool {
		ok := o.Panic == "" && int(o.Count) == n && bytes.Equal(o.Flags, w.flags) && len(o.Hashes) == len(w.hashes) && len(o.Indices) == len(w.idx) && bytes.Equal(o.Header, bk.header)
		for i := 0; ok && i < len(w.hashes); i++ {
			ok = o.Hashes[i] == w.hashes[i]
		}
		for i := 0; ok && i < len(w.idx); i++ {
			ok = o.Indices[i] == w.idx[i]
		}
		return ok
	}
	for c := 0; c < calls; c++ {
		code := (c*37 + c/3) % len(wants)
		w := wants[code]
		how := hows[c%3]
		var o built
		sel := w.sel
		switch c % 3 {
		case 0:
			var set []pmtref.Hash
			for i, x := range sel {
				if x {
					set = append(set, bk.leaves[i])
				}
			}
			o = observe(func() (*wire.MsgMerkleBlock, []uint32) { return merkleblock.NewMerkleBlockWithTxnSet(bk.b, ptrs(set)) })
		default:
			// the filter may match more than the chosen ids: compare with the subset it matched
			tweak := uint32(c)
			mm := bloom.GetMatchedIndices(bk.b, newFilter(bk, sel, tweak))
			mcode := 0
			for i := 0; i < n; i++ {
				if mm[i] {
					mcode |= 1 << uint(i)
				}
			}
			w = wants[mcode]
			if c%3 == 1 {
				o = observe(func() (*wire.MsgMerkleBlock, []uint32) {
					return merkleblock.NewMerkleBlockWithFilter(bk.b, newFilter(bk, sel, tweak))
				})
			} else {
				o = observe(func() (*wire.MsgMerkleBlock, []uint32) { return bloom.NewMerkleBlock(bk.b, newFilter(bk, sel, tweak)) })
			}
		}
		noteCall(bk, how, w.sel)
		rep.Evaluations++
		if !agree(o, w) {
			rp := replayOf(bk, how, w.sel, o)
			rp["soak_calls"], rp["soak_n"] = c+1, n
			rp["note"] = fmt.Sprintf("call number %d (from 0) of soak(block_seed, n, ..) of harness/cmd/c11: the three builders in turn over all subsets of one block; the result differs from the canonical message / chosen positions", c)
			rep.Violate("C11:soak:"+how, "after many builder calls in one process a builder no longer returns the canonical message and the chosen positions", rp)
			break
		}
		if c == next {
			held = append(held, kept{bk: bk, how: how, sel: w.sel, o: o})
			heldAt = append(heldAt, c)
			switch {
			case c < 2:
				next = c + 1
			case c == 2:
				next = 10
			default:
				next = c * 10
			}
		}
		if c%1024 == 1023 || c == calls-1 {
			for i, k := range held {
				if !unchanged(k.o) || !unchangedIdx(k.o) {
					rp := replayOf(bk, k.how, k.sel, k.o)
					rp["soak_calls"], rp["soak_n"], rp["kept_at_call"] = c+1, n, heldAt[i]
					rp["now_indices"] = append([]uint32(nil), k.o.idx...)
					rep.Violate("C11:stable:soak", "a message / index list returned earlier in a long run of builder calls is no longer what was returned", rp)
				}
			}
		}
	}
	rep.Histogram["soak_calls"] += calls
}

// ---------- several goroutines ----------
// goroutines: (a) relay - W goroutines take turns (one builder call each, strictly one after the other),
// each keeps what it got and reads it again after all the others had their turns, and the main goroutine
// reads everything at the end (storage shared through the package shows although there is no race);
// (b) crowd - the same W goroutines build at the same time, each on its own block, `rounds` times, and
// compare every result with the reference at once and again at the end.
func goroutines(seed uint64, W, rounds int) {
	type res struct {
		bk  *blk
		how string
		sel []bool
		o   built
	}
	var mu sync.Mutex
	violate := func(key, what string, rp map[string]interface{}) {
		mu.Lock()
		defer mu.Unlock()
		rep.Violate(key, what, rp)
	}
	hows := []string{"NewMerkleBlockWithTxnSet", "NewMerkleBlockWithFilter", "bloom.NewMerkleBlock"}
	call := func(bk *blk, sel []bool, which int, tweak uint32) (built, []bool) {
		switch which % 3 {
		case 0:
			var set []pmtref.Hash
			for i, x := range sel {
				if x {
					set = append(set, bk.leaves[i])
				}
			}
			return observe(func() (*wire.MsgMerkleBlock, []uint32) { return merkleblock.NewMerkleBlockWithTxnSet(bk.b, ptrs(set)) }), sel
		case 1:
			mm := bloom.GetMatchedIndices(bk.b, newFilter(bk, sel, tweak))
			matched := make([]bool, len(sel))
			for i := range matched {
				matched[i] = mm[i]
			}
			return observe(func() (*wire.MsgMerkleBlock, []uint32) {
				return merkleblock.NewMerkleBlockWithFilter(bk.b, newFilter(bk, sel, tweak))
			}), matched
		}
		mm := bloom.GetMatchedIndices(bk.b, newFilter(bk, sel, tweak))
		matched := make([]bool, len(sel))
		for i := range matched {
			matched[i] = mm[i]
		}
		return observe(func() (*wire.MsgMerkleBlock, []uint32) { return bloom.NewMerkleBlock(bk.b, newFilter(bk, sel, tweak)) }), matched
	}
	agree := func(x res) bool {
		t := pmtref.Build(x.bk.leaves, x.sel)
		wh, wf, wi := t.Hashes(nil), pmtref.Pack(t.Flags(nil)), positions(x.sel)
		ok := x.o.Panic == "" && bytes.Equal(x.o.Flags, wf) && len(x.o.Hashes) == len(wh) && len(x.o.Indices) == len(wi) && bytes.Equal(x.o.Header, x.bk.header)
		for i := 0; ok && i < len(wh); i++ {
			ok = x.o.Hashes[i] == wh[i]
		}
		for i := 0; ok && i < len(wi); i++ {
			ok = x.o.Indices[i] == wi[i]
		}
		return ok
	}
	reread := func(xs []res, who string) {
		for _, x := range xs {
			if x.o.Panic == "" && (!unchanged(x.o) || !unchangedIdx(x.o)) {
				rp := replayOf(x.bk, x.how, x.sel, x.o)
				rp["goroutines"], rp["workers"], rp["rounds"] = who, W, rounds
				rp["now_indices"] = append([]uint32(nil), x.o.idx...)
				violate("C11:stable:goroutines", "a message / index list returned to one goroutine changed while other goroutines (or the same one) built later messages", rp)
			}
		}
	}
	blocks := make([]*blk, W)
	for w := range blocks {
		blocks[w] = makeBlock(seed+uint64(w), 3+w%9)
	}
	// (a) relay
	results := make([][]res, W)
	turn := make([]chan bool, W+1)
	for i := range turn {
		turn[i] = make(chan bool, 1)
	}
	var wg sync.WaitGroup
	for w := 0; w < W; w++ {
		wg.Add(1)
		go func(w int) {
			defer wg.Done()
			for round := 0; round < 3; round++ {
				<-turn[w]
				bk := blocks[w]
				n := len(bk.leaves)
				sel := make([]bool, n)
				for i := range sel {
					sel[i] = (i+w+round)%2 == 0 || (round == 2 && i == n-1)
				}
				o, matched := call(bk, sel, w+round, uint32(w*31+round))
				x := res{bk, hows[(w+round)%3], matched, o}
				if !agree(x) {
					rp := replayOf(bk, x.how, matched, o)
					rp["goroutines"], rp["workers"] = "relay", W
					violate("C11:goroutines:"+x.how, "a builder called from a goroutine of its own (one call at a time) does not return the canonical message and the chosen positions", rp)
				}
				reread(results[w], "relay: read again by the goroutine that made the call, after the other goroutines had their turns")
				results[w] = append(results[w], x)
				turn[(w+1)%W] <- true
			}
		}(w)
	}
	turn[0] <- true
	wg.Wait()
	for w := 0; w < W; w++ {
		reread(results[w], "relay: read by the main goroutine at the end")
		mu.Lock()
		rep.Evaluations += len(results[w])
		rep.Histogram["goroutines:relay"] += len(results[w])
		mu.Unlock()
	}
	// (b) crowd
	start := make(chan bool)
	crowd := make([][]res, W)
	for w := 0; w < W; w++ {
		wg.Add(1)
		go func(w int) {
			defer wg.Done()
			<-start
			bk := blocks[w]
			n := len(bk.leaves)
			for round := 0; round < rounds; round++ {
				code := (round*7 + w) % (1 << uint(n))
				sel := make([]bool, n)
				for i := range sel {
					sel[i] = code>>uint(i)&1 == 1
				}
				o, matched := call(bk, sel, w+round, uint32(w*131+round))
				x := res{bk, hows[(w+round)%3], matched, o}
				if !agree(x) {
					rp := replayOf(bk, x.how, matched, o)
					rp["goroutines"], rp["workers"], rp["rounds"] = "crowd", W, rounds
					violate("C11:goroutines:"+x.how, "a builder called by several goroutines at once (each with its own block and filter) does not return the canonical message and the chosen positions", rp)
				}
				if round < 4 || round%64 == 0 {
					crowd[w] = append(crowd[w], x)
				}
			}
			reread(crowd[w], "crowd: read again by the goroutine that made the calls")
		}(w)
	}
	close(start)
	wg.Wait()
	for w := 0; w < W; w++ {
		reread(crowd[w], "crowd: read by the main goroutine at the end")
	}
	rep.Evaluations += W * rounds
	rep.Histogram["goroutines:crowd"] += W * rounds
}

// ---------- the build that ships ----------
// runPlain builds harness/cmd/c12/plain without -tags verif under a neutral module path and merges what it found.
func runPlain(scale int) {
	o, err := plainrun.Run(cfg.Out, "C11", cfg.Seed, scale)
	if err != nil {
		rep.Extra["plain_build"] = "NOT RUN: " + err.Error()
		rep.Histogram["plain/not_run"]++
		return
	}
	rep.Extra["plain_build"] = map[string]interface{}{"main_module": o.MainPath, "build_tags": o.Tags, "MaxTxnCount": o.MaxTxnStart, "executions": o.Executions,
		"build_seconds": o.BuildSecs, "run_seconds": o.RunSecs}
	rep.Evaluations += o.Executions
	for k, v := range o.Histogram {
		rep.Histogram["plain/"+k] += v
	}
	for _, v := range o.Violations {
		rep.Violate(v.Key, v.What+" [build without -tags verif]", v.Replay)
	}
}

// checkLimit: extract_build assumes n <= MaxTxnCount = wire.MaxBlockPayload()/61 (= 2098360); read at the start and at the end.
func checkLimit(when string) {
	now := merkleblock.MaxTxnCount
	if now != wire.MaxBlockPayload()/61 || now != maxTxn || now != 2098360 {
		rep.Violate("C11:dep:max_txn_count", "merkleblock.MaxTxnCount is not wire.MaxBlockPayload()/61 = 2098360 ("+when+")",
			map[string]interface{}{"MaxTxnCount_now": now, "MaxTxnCount_at_start": maxTxn, "MaxBlockPayload": wire.MaxBlockPayload(), "when": when})
	}
}

func subsetOf(n int, idx ...int) []bool {
	sel := make([]bool, n)
	for _, i := range idx {
		if i >= 0 && i < n {
			sel[i] = true
		}
	}
	return sel
}

func structured(n int, r *vh.RNG) map[string][]bool {
	out := map[string][]bool{}
	out["empty"] = subsetOf(n)
	full := make([]bool, n)
	for i := range full {
		full[i] = true
	}
	out["full"] = full
	out["last"] = subsetOf(n, n-1)
	out["first"] = subsetOf(n, 0)
	out["last_two"] = subsetOf(n, n-1, n-2)
	out["first_and_last"] = subsetOf(n, 0, n-1)
	// the right edge: everything right of the largest power of two below n
	p := 1
	for p*2 < n {
		p *= 2
	}
	re := make([]bool, n)
	for i := p; i < n; i++ {
		re[i] = true
	}
	out["right_edge"] = re
	// two chosen transactions whose pruned siblings sit at the same height
	out["0_and_4"] = subsetOf(n, 0, 4)
	out["1_and_n/2"] = subsetOf(n, 1, n/2)
	sp := make([]bool, n)
	de := make([]bool, n)
	for i := range sp {
		sp[i] = r.Chance(1, 8)
		de[i] = r.Bool()
	}
	out["sparse"] = sp
	out["dense"] = de
	return out
}

func sortedKeys(m map[string][]bool) []string {
	var ks []string
	for k := range m {
		ks = append(ks, k)
	}
	sort.Strings(ks)
	return ks
}

func replay(path string) {
	var rp struct {
		Input struct {
			Seed   uint64 `json:"block_seed"`
			N      int    `json:"n"`
			Kind   string `json:"block_kind"`
			Mode   string `json:"leaf_mode"`
			Chosen string `json:"chosen"`
			Plain       bool   `json:"plain_build"`
			SoakCalls   int    `json:"soak_calls"`
			SoakN       int    `json:"soak_n"`
			Goroutines  string `json:"goroutines"`
			Workers     int    `json:"workers"`
			Rounds      int    `json:"rounds"`
			LaterSeed   uint64 `json:"later_block_seed"`
			LaterN      int    `json:"later_n"`
			LaterKind   string `json:"later_block_kind"`
			LaterChosen string `json:"later_chosen"`
		} `json:"input"`
	}
	b, err := os.ReadFile(path)
	vh.Must(err)
	vh.Must(json.Unmarshal(b, &rp))
	switch {
	case rp.Input.Plain:
		runPlain(1)
		return
	case rp.Input.SoakCalls > 0:
		soak(rp.Input.Seed, rp.Input.SoakN, rp.Input.SoakCalls, vh.NewRNG(1))
		return
	case rp.Input.Goroutines != "":
		if rp.Input.Rounds == 0 {
			rp.Input.Rounds = 200
		}
		goroutines(cfg.Seed, rp.Input.Workers, rp.Input.Rounds)
		return
	}
	if strings.HasPrefix(rp.Input.Kind, "dep:") {
		runDep(makeBlockKind(rp.Input.Seed, rp.Input.N, rp.Input.Kind), vh.NewRNG(1), false)
		return
	}
	if rp.Input.Kind == "crafted" {
		craftedReplay(rp.Input.Seed, rp.Input.N, rp.Input.Mode, rp.Input.Chosen)
		return
	}
	bk := makeBlockKind(rp.Input.Seed, rp.Input.N, rp.Input.Kind)
	sel := make([]bool, rp.Input.N)
	for i := range sel {
		sel[i] = i < len(rp.Input.Chosen) && rp.Input.Chosen[i] == '1'
	}
	runSubset(bk, sel, vh.NewRNG(1), false, false, "replay")
	for _, at := range []int{0, 15, 31} {
		nearMiss(bk, sel, vh.NewRNG(1), at, false)
	}
	// a second, different subset on the same block so that a message kept from the first is looked at again
	other := make([]bool, len(sel))
	for i := range other {
		other[i] = !sel[i]
	}
	runSubset(bk, other, vh.NewRNG(2), false, false, "replay")
	checkKept()
	// the call after which a kept result was found changed, when the replay names one; and a few other subsets
	if rp.Input.LaterN > 0 && !strings.HasPrefix(rp.Input.LaterKind, "dep:") {
		lb := makeBlockKind(rp.Input.LaterSeed, rp.Input.LaterN, rp.Input.LaterKind)
		ls := make([]bool, rp.Input.LaterN)
		for i := range ls {
			ls[i] = i < len(rp.Input.LaterChosen) && rp.Input.LaterChosen[i] == '1'
		}
		runSubset(bk, sel, vh.NewRNG(1), false, false, "replay")
		runSubset(lb, ls, vh.NewRNG(3), false, false, "replay")
		checkKept()
	}
	n := len(sel)
	full := make([]bool, n)
	alt := make([]bool, n)
	for i := range full {
		full[i], alt[i] = true, i%2 == 1
	}
	for _, x := range [][]bool{sel, subsetOf(n), sel, full, sel, alt, subsetOf(n, n-1)} {
		runSubset(bk, x, vh.NewRNG(4), false, false, "replay")
	}
	checkKept()
}

func main() {
	cfg = vh.ParseFlags("C11")
	rep = vh.NewReport(cfg)
	rep.Rule = "every (block, subset) pair is non-trivial (n >= 1); distinct by (n, subset); each pair runs NewMerkleBlockWithTxnSet, NewMerkleBlockWithFilter and bloom.NewMerkleBlock (3 executions) plus extraction of each result"
	cases = vh.NewCases(cfg, "Run.Run_C11", 16)
	maxTxn = merkleblock.MaxTxnCount
	rep.Extra["MaxTxnCount"] = maxTxn
	rng := vh.NewRNG(cfg.Seed)
	checkLimit("at the start of the run")
	if cfg.Replay != "" {
		replay(cfg.Replay)
		checkLimit("at the end of the run")
		vh.Must(rep.Write(cfg))
		return
	}
	corr := !cfg.Search

	// wire's AddTxHash refuses the hash when the message already holds maxTxPerBlock() = MaxBlockPayload()/10 + 1
	// hashes; calcBlock discards that error.  The models append every hash and the theorems assume at most
	// add_tx_hash_cap = 12800001 transactions (Merkle.v): check the number (formula always, behaviour in the
	// thorough tier).
	const addTxHashCap = 12800001
	if uint64(wire.MaxBlockPayload())/10+1 != addTxHashCap {
		rep.Violate("C11:dep:add_tx_hash_cap", "wire.MaxBlockPayload()/10 + 1 is not the add_tx_hash_cap the theorems assume",
			map[string]interface{}{"MaxBlockPayload": wire.MaxBlockPayload(), "assumed_cap": addTxHashCap})
	}
	if cfg.Thorough() {
		var m wire.MsgMerkleBlock
		m.Hashes = make([]*chainhash.Hash, 0, addTxHashCap+1)
		h := &chainhash.Hash{}
		var firstErr int = -1
		for i := 0; i < addTxHashCap+1; i++ {
			if err := m.AddTxHash(h); err != nil {
				firstErr = i
				break
			}
		}
		rep.Extra["add_tx_hash_first_refusal_at"] = firstErr
		if firstErr != addTxHashCap {
			rep.Violate("C11:dep:add_tx_hash_cap", "MsgMerkleBlock.AddTxHash does not accept exactly add_tx_hash_cap hashes",
				map[string]interface{}{"first_refusal_at": firstErr, "assumed_cap": addTxHashCap})
		}
	}

	// node hash validation (Coq SHA-256 against the Go dependency)
	rn := rng.Fork("nodehash")
	for i := 0; i < 4; i++ {
		var l, rr pmtref.Hash
		copy(l[:], rn.Bytes(32))
		copy(rr[:], rn.Bytes(32))
		if i == 0 {
			rr = l
		}
		cl, cr := chainhash.Hash(l), chainhash.Hash(rr)
		impl := blockchain.HashMerkleBranches(&cl, &cr)
		if pmtref.Hash(*impl) != pmtref.NodeHash(l, rr) {
			rep.Violate("C11:dep:node_hash", "blockchain.HashMerkleBranches differs from double SHA-256 of the concatenation", map[string]interface{}{"left": hex.EncodeToString(l[:]), "right": hex.EncodeToString(rr[:])})
		}
		cases.Add(fmt.Sprintf("NodeHash %s %s %s", vh.CoqBytes(l[:]), vh.CoqBytes(rr[:]), vh.CoqBytes(impl[:])), map[string]interface{}{"op": "HashMerkleBranches"})
	}

	// the empty block (outside the property, n >= 1): recorded, and modelled when it does not panic
	{
		bk := makeBlock(cfg.Seed, 0)
		o := observe(func() (*wire.MsgMerkleBlock, []uint32) { return merkleblock.NewMerkleBlockWithTxnSet(bk.b, nil) })
		rep.Extra["empty_block"] = map[string]interface{}{"panic": o.Panic, "transactions": o.Count, "hashes": len(o.Hashes), "flag_bytes": len(o.Flags)}
		o2 := observe(func() (*wire.MsgMerkleBlock, []uint32) { return bloom.NewMerkleBlock(bk.b, bloom.NewFilter(1, 0, 0.01, wire.BloomUpdateNone)) })
		for how, x := range map[string]built{"NewMerkleBlockWithTxnSet": o, "bloom.NewMerkleBlock": o2} {
			if x.Panic != "" {
				// outside the quantifier of C11 (n >= 1) but the models mirror the guard of commit 89c7599, so say it concretely
				rep.Violate("C11:panic:empty_block", "the builder panics on a block without transactions (the models return the empty message)",
					map[string]interface{}{"block_seed": bk.seed, "n": 0, "builder": how, "chosen": "", "panic": x.Panic})
			} else if x.Count != 0 || len(x.Hashes) != 0 || len(x.Flags) != 0 || len(x.Indices) != 0 {
				rep.Violate("C11:empty_block", "the message for a block without transactions is not empty", replayOf(bk, how, nil, x))
			}
		}
		if o.Panic == "" && corr {
			addBuildSet(bk, nil, nil, o)
		}
	}

	tFam := time.Now()
	lap := func(name string) {
		rep.Extra["seconds_"+name] = time.Since(tFam).Seconds()
		rep.Write(cfg) // partial report: what was found so far survives the driver's time limit
		tFam = time.Now()
	}
	// 1. every n <= 12 with all 2^n subsets (monitors); a sample to Coq
	allMax := cfg.Scale(12, 15)
	if cfg.Search {
		allMax = 16
	}
	ra := rng.Fork("all")
	for n := 1; n <= allMax; n++ {
		bk := makeBlock(cfg.Seed, n)
		total := 1 << uint(n)
		for code := 0; code < total; code++ {
			sel := make([]bool, n)
			for i := 0; i < n; i++ {
				sel[i] = code>>uint(i)&1 == 1
			}
			// Coq: all subsets for n <= 3, a few per n beyond
			c := corr && (n <= 3 || code == total-1 || ra.Chance(cfg.Scale(2, 5), total))
			runSubset(bk, sel, ra, c, c && (n <= 3 || code%2 == 1), "all_subsets")
		}
	}

	lap("all_subsets")
	// 2. every n <= 65 (quick) / 130 (thorough) with structured and random subsets
	rs := rng.Fork("structured")
	upper := cfg.Scale(65, 200)
	for n := allMax + 1; n <= upper; n++ {
		bk := makeBlock(cfg.Seed, n)
		st := structured(n, rs)
		for k, name := range sortedKeys(st) {
			// Coq: one structured subset per n (rotating), tables for the node hashes
			c := corr && n <= 65 && k == n%len(st)
			runSubset(bk, st[name], rs, c, c && n%4 == 0, "structured:"+name)
		}
		for i := 0; i < n; i++ { // every singleton
			runSubset(bk, subsetOf(n, i), rs, false, false, "structured:singleton")
		}
	}

	lap("structured")
	// 2b. transaction sets holding ids one bit away from ids of the block (every byte position)
	rm := rng.Fork("near_miss")
	for n := 1; n <= cfg.Scale(24, 64); n++ {
		bk := makeBlock(cfg.Seed, n)
		for at := 0; at < 32; at++ {
			sel := make([]bool, n)
			for i := range sel {
				sel[i] = rm.Chance(1+at%3, 4)
			}
			nearMiss(bk, sel, rm, at, corr && n <= 12 && at == (5*n)%32)
		}
	}

	lap("near_miss")
	// 2c. blocks with in-block spends and an updating filter (children before / after their parents)
	rd := rng.Fork("dependent")
	for n := 2; n <= cfg.Scale(40, 120); n++ {
		for oi, order := range []string{"topo", "reverse", "shuffled"} {
			for ci, chain := range []int{1, 2, 1 + rd.Intn(n/2+1)} {
				bk := makeDepBlock(cfg.Seed, n, order, chain)
				runDep(bk, rd, corr && n <= 24 && (n+oi)%3 == 0 && ci == n%3)
			}
		}
	}

	lap("dependent")
	// 2d. canonically ordered blocks (ascending txids after the first transaction), subsets with and without index 0
	rc := rng.Fork("ctor")
	ctorSizes := []int{}
	for n := 2; n <= cfg.Scale(70, 140); n++ {
		ctorSizes = append(ctorSizes, n)
	}
	ctorSizes = append(ctorSizes, 255, 256, 257, 1000)
	for _, n := range ctorSizes {
		for ki, kind := range []string{"ctor", "ctor-raw"} {
			if n > 70 && ki == 1 && n%2 == 0 {
				continue
			}
			bk := makeCtorBlock(cfg.Seed, n, kind)
			rndm := make([]bool, n)
			rnd0 := make([]bool, n)
			for i := range rndm {
				rndm[i] = rc.Chance(1, 3)
				rnd0[i] = rc.Chance(1, 5)
			}
			rnd0[0] = true
			full := make([]bool, n)
			for i := range full {
				full[i] = true
			}
			for si, sel := range [][]bool{subsetOf(n, 0), subsetOf(n, 0, n-1), subsetOf(n, 0, 1+rc.Intn(n-1), rc.Intn(n)), rnd0, rndm, full, subsetOf(n, n-1), subsetOf(n)} {
				c := corr && n <= 40 && ki == 0 && si == n%8 && n%3 == 0
				runSubset(bk, sel, rc, c, c && n%2 == 0, "ctor:"+kind)
			}
		}
	}
	lap("ctor")
	// 2e. extraction of canonical messages over hand-made transaction ids that look alike
	craftedFamily(rng.Fork("crafted"), cfg.Scale(20, 48), corr)
	lap("crafted")
	// 3. big blocks: byte-sized counters, multiples of 256 chosen transactions, deep trees (monitors; the
	// 8-bit boundary sizes also go to Coq), and the 16-bit boundary 65535..65537
	rb := rng.Fork("big")
	sizes := []int{255, 256, 257, 300, 511, 512, 513, 1000, 1024, 1025}
	if cfg.Thorough() || cfg.Search {
		sizes = append(sizes, 2047, 2048, 2049, 3000, 4096, 5000)
	}
	for i := 0; i < cfg.Scale(6, 20); i++ {
		sizes = append(sizes, 66+rb.Intn(cfg.Scale(3000, 6000)))
	}
	sizes = append(sizes, 65535, 65536, 65537)
	for _, n := range sizes {
		if n == 65535 {
			lap("big_below_2^16")
		}
		bk := makeBlock(cfg.Seed, n)
		st := structured(n, rb)
		first256 := make([]bool, n)
		for i := 0; i < 256 && i < n; i++ {
			first256[i] = true
		}
		st["first_256"] = first256
		f2 := append([]bool(nil), first256...)
		f2[n-1] = true
		st["first_256_and_last"] = f2
		ev := make([]bool, n)
		for i := range ev {
			ev[i] = i%2 == 0
		}
		st["even"] = ev
		for _, name := range sortedKeys(st) {
			if n >= 60000 {
				switch name {
				case "last_two", "first_and_last", "right_edge", "sparse", "even":
				case "full", "dense", "1_and_n/2":
					if !cfg.Thorough() && !cfg.Search {
						continue
					}
				default:
					continue
				}
			}
			// Coq: n = 256 all chosen (256 chosen transactions below one node); thorough: also n = 257 (about 15 s of VM time each)
			c := corr && ((n == 256 && name == "full") || (cfg.Thorough() && n == 257 && (name == "full" || name == "first_256_and_last")))
			runSubset(bk, st[name], rb, c, false, "big:"+name)
		}
	}
	checkKept()
	lap("big_2^16")
	// 4. many calls in one process; several goroutines; the build without -tags verif
	switch {
	case cfg.Search:
		soak(cfg.Seed, 7, 400000, rng.Fork("soak"))
		soak(cfg.Seed+1, 10, 100000, rng.Fork("soak2"))
		goroutines(cfg.Seed, 16, 4000)
		runPlain(8)
	case cfg.Thorough():
		soak(cfg.Seed, 7, 200000, rng.Fork("soak"))
		goroutines(cfg.Seed, 16, 2000)
		runPlain(4)
	default:
		soak(cfg.Seed, 7, 20000, rng.Fork("soak"))
		goroutines(cfg.Seed, 8, 300)
		runPlain(1)
	}
	checkKept()
	checkLimit("at the end of the run")
	lap("soak_goroutines_plain")

	rep.Sample(map[string]interface{}{"family": "all_subsets", "what": fmt.Sprintf("every n <= %d with all 2^n subsets, three builders + extraction each", allMax)}, 4)
	rep.Sample(map[string]interface{}{"family": "structured", "what": fmt.Sprintf("every n <= %d: empty, full, every singleton, first/last, right edge, {0,4}, sparse, dense", upper)}, 4)
	rep.Sample(map[string]interface{}{"family": "big", "what": "n in 255..1025 (to 5000 thorough) and random: full, first 256 (+last), even, right edge, ...; n = 65535, 65536, 65537: last two, first and last, right edge, sparse, even (thorough: full, dense)"}, 4)
	rep.Sample(map[string]interface{}{"family": "ctor", "what": "canonically ordered blocks (txids ascending after the first transaction, both as numbers and as byte strings), n <= 70 (140) and 255..1000: {0}, {0, n-1}, {0, ..}, random with and without 0, full, {n-1}, empty"}, 4)
	rep.Sample(map[string]interface{}{"family": "crafted", "what": "ExtractMatches of canonical messages over hand-made transaction ids sharing a 1..29-byte prefix or suffix, or all but one byte: full, random, pairs"}, 4)
	rep.Sample(map[string]interface{}{"family": "near_miss", "what": "transaction sets with ids one bit (every byte position) away from ids of the block; TxInSet against plain membership"}, 4)
	rep.Sample(map[string]interface{}{"family": "kept / empty inputs / soak / goroutines / plain", "what": "returned messages, the returned index lists themselves and the PartialBlocks of the round trips kept (first few for good, last few in a ring) and read again after later calls; the empty selection as nil / empty / capacity-only set and as not-loaded / unloaded / empty filter, the all-ones filter; set-driven against filter-driven builder; 20000 (400000) calls on one block; 8-16 goroutines in turn and at once; a second program built without -tags verif in a neutral module"}, 8)
	rep.Sample(map[string]interface{}{"family": "dependent", "what": "blocks with in-block spends (parent pays the watched script, child matched only through the outpoint, grandchild unmatched) in topological, reversed and shuffled order; updating filter through both filter-driven builders"}, 4)
	if corr {
		_, err := cases.Flush()
		vh.Must(err)
		rep.Cases = cases.Len()
	}
	vh.Must(rep.Write(cfg))
}

// Command c03 drives the two checksum codes of the repository under test (CashAddr in
// address.go, bech32 in bech32/bech32.go).
//
// Monitors (the property's own predicate on the implementation):
//   - every string obtained from an accepted string by 1..5 (CashAddr) / 1..4 (bech32)
//     substitutions in the part after the separator must be rejected by DecodeCashAddress /
//     bech32.Decode (random patterns at all standard lengths; exhaustive weight 1 over all byte
//     values and exhaustive weight 2 over an alphabet that contains the charset, both cases, the
//     excluded characters b i o 1 and the separators);
//   - a string whose remainder differs from the required constant must be rejected (structured
//     and random remainders);
//   - the implementation's remainder functions agree with independent references on random and
//     on all single-symbol vectors.
//
// Correspondence cases for the Coq models (Run/Run_C03.v): remainders, verify/create, decoders.
//
// -search: meet-in-the-middle over the syndromes of the implementation's own remainder functions
// for a low-weight pattern whose syndrome is zero or the difference of two accepted remainders
// (the accepted set of bech32 remainders is learnt by exhausting all 2^30 checksums against
// bech32.VerifVerifyChecksum); every candidate is confirmed on the real decoders, and the replay
// is the pair (accepted string, accepted corrupted string).
package main

import (
	"encoding/json"
	"errors"
	"fmt"
	"os"
	"runtime"
	"sort"
	"strings"
	"sync"
	"time"

	"github.com/gcash/bchd/chaincfg"
	"github.com/gcash/bchutil"
	"github.com/gcash/bchutil/bech32"

	"verif/harness/cmd/c01/addrlib/envrun"
	"verif/harness/internal/vh"
)

const charset = "qpzry9x8gf2tvdw0s3jn54khce6mua7l"

var cfg vh.Config
var rep *vh.Report
var cases *vh.Cases

// ---------------------------------------------------------------- references (from the specs)
func refCashPolymod(v []byte) uint64 {
	gen := [5]uint64{0x98f2bc8e61, 0x79b76d99e2, 0xf33e5fb3c4, 0xae2eabe2a8, 0x1e4f43e470}
	c := uint64(1)
	for _, d := range v {
		c0 := byte(c >> 35)
		c = ((c & 0x07ffffffff) << 5) ^ uint64(d)
		for i := 0; i < 5; i++ {
			if c0&(1<<uint(i)) != 0 {
				c ^= gen[i]
			}
		}
	}
	return c ^ 1
}

func refBechPolymod(values []int) int {
	gen := [5]int{0x3b6a57b2, 0x26508e6d, 0x1ea119fa, 0x3d4233dd, 0x2a1462b3}
	chk := 1
	for _, v := range values {
		top := chk >> 25
		chk = (chk&0x1ffffff)<<5 ^ v
		for i := 0; i < 5; i++ {
			if (top>>uint(i))&1 == 1 {
				chk ^= gen[i]
			}
		}
	}
	return chk
}

func cashExpand(prefix string) []byte {
	r := make([]byte, 0, len(prefix)+1)
	for i := 0; i < len(prefix); i++ {
		r = append(r, prefix[i]&0x1f)
	}
	return append(r, 0)
}

func bechExpand(hrp string) []int {
	var r []int
	for i := 0; i < len(hrp); i++ {
		r = append(r, int(hrp[i])>>5)
	}
	r = append(r, 0)
	for i := 0; i < len(hrp); i++ {
		r = append(r, int(hrp[i])&31)
	}
	return r
}

// cashBody returns the characters of payload||checksum such that the remainder of
// expand(prefix)||payload||checksum is `residue` (0 for a valid string).
func cashBody(prefix string, payload []byte, residue uint64) string {
	v := append(cashExpand(prefix), payload...)
	v = append(v, 0, 0, 0, 0, 0, 0, 0, 0)
	m := refCashPolymod(v) ^ residue
	sb := make([]byte, 0, len(payload)+8)
	for _, p := range payload {
		sb = append(sb, charset[p&31])
	}
	for i := 0; i < 8; i++ {
		sb = append(sb, charset[(m>>uint(5*(7-i)))&31])
	}
	return string(sb)
}

// bechBody: characters of data||checksum with remainder `residue` (1 for a valid string).
func bechBody(hrp string, data []byte, residue int) string {
	v := bechExpand(hrp)
	for _, d := range data {
		v = append(v, int(d))
	}
	v = append(v, 0, 0, 0, 0, 0, 0)
	m := refBechPolymod(v) ^ residue
	sb := make([]byte, 0, len(data)+6)
	for _, d := range data {
		sb = append(sb, charset[d&31])
	}
	for i := 0; i < 6; i++ {
		sb = append(sb, charset[(m>>uint(5*(5-i)))&31])
	}
	return string(sb)
}

// strings built with the implementation's own encoders (what the implementation itself calls valid);
// the reference is the fallback when the encoder panics or refuses
func implCash(prefix string, payload []byte) string {
	var body string
	if p, _ := vh.Catch(func() { body = bchutil.VerifEncode(prefix, payload) }); p || len(body) != len(payload)+8 {
		body = cashBody(prefix, payload, 0)
	}
	return prefix + ":" + body
}

func implBech(hrp string, data []byte) string {
	var s string
	var err error
	if p, _ := vh.Catch(func() { s, err = bech32.Encode(hrp, data) }); p || err != nil || len(s) != len(hrp)+1+len(data)+6 {
		s = hrp + "1" + bechBody(hrp, data, 1)
	}
	return s
}

// ---------------------------------------------------------------- the decoders as observed
type cashObs struct {
	ok, chk, panicked bool
	prefix           string
	payload          []byte
	msg              string
}

func cashDecode(s string) cashObs {
	var o cashObs
	var err error
	p, msg := vh.Catch(func() { o.prefix, o.payload, err = bchutil.DecodeCashAddress(s) })
	if p {
		o.panicked, o.msg = true, msg
		return o
	}
	o.ok = err == nil
	o.chk = errors.Is(err, bchutil.ErrChecksumMismatch)
	if !o.ok {
		o.prefix, o.payload = "", nil
	}
	return o
}

func cashCase(s string, o cashObs) {
	if o.panicked {
		return
	}
	cases.Add(fmt.Sprintf("CashDec %s %s %s %s %s", vh.CoqStr(s), vh.CoqBool(o.ok), vh.CoqBool(o.chk), vh.CoqStr(o.prefix), vh.CoqBytes(o.payload)),
		map[string]interface{}{"op": "DecodeCashAddress", "string": s, "impl_ok": o.ok, "impl_checksum_error": o.chk, "impl_prefix": o.prefix, "impl_payload": vh.Hex(o.payload)})
}

type bechObs struct {
	ok, panicked bool
	hrp          string
	data         []byte
	msg          string
}

func bechDecode(s string) bechObs {
	var o bechObs
	var err error
	p, msg := vh.Catch(func() { o.hrp, o.data, err = bech32.Decode(s) })
	if p {
		o.panicked, o.msg = true, msg
		return o
	}
	o.ok = err == nil
	if !o.ok {
		o.hrp, o.data = "", nil
	}
	return o
}

func bechCase(s string, o bechObs) {
	if o.panicked {
		return
	}
	cases.Add(fmt.Sprintf("BechDec %s %s %s %s", vh.CoqStr(s), vh.CoqBool(o.ok), vh.CoqStr(o.hrp), vh.CoqBytes(o.data)),
		map[string]interface{}{"op": "bech32.Decode", "string": s, "impl_ok": o.ok, "impl_hrp": o.hrp, "impl_data": vh.Hex(o.data)})
}

func hamming(a, b string) int {
	n := 0
	for i := 0; i < len(a) && i < len(b); i++ {
		if a[i] != b[i] {
			n++
		}
	}
	return n
}

// ---------------------------------------------------------------- monitors
// cashCorrupted: s2 differs from the accepted s in w (1..5) characters after the separator.
func cashCorrupted(s, s2, family string, corr bool) {
	w := hamming(s, s2)
	o := cashDecode(s2)
	rep.Count("cash-subst-"+family, "cs"+s2, true)
	rep.Histogram[fmt.Sprintf("cash weight %d", w)]++
	if o.panicked {
		rep.Violate("C03:cash:substitution_panic", "DecodeCashAddress panicked on a corrupted address",
			map[string]interface{}{"code": "cashaddr", "valid": s, "corrupted": s2, "weight": w, "panic": o.msg})
		return
	}
	if o.ok {
		rep.Violate("C03:cash:substitution_accepted", fmt.Sprintf("DecodeCashAddress accepts a string that differs from a valid address in %d payload characters", w),
			map[string]interface{}{"code": "cashaddr", "valid": s, "corrupted": s2, "weight": w, "family": family, "decoded_payload": vh.Hex(o.payload)})
	}
	if corr {
		cashCase(s2, o)
	}
}

// bechCorrupted: s2 differs from the accepted s in w (1..4) characters after the separator, none of
// them a '1', at least one of them more than a change of case (see Checksum/BechString.v).
func bechCorrupted(s, s2, family string, corr bool) {
	w := hamming(s, s2)
	o := bechDecode(s2)
	rep.Count("bech-subst-"+family, "bs"+s2, true)
	rep.Histogram[fmt.Sprintf("bech32 weight %d", w)]++
	if o.panicked {
		rep.Violate("C03:bech32:substitution_panic", "bech32.Decode panicked on a corrupted string",
			map[string]interface{}{"code": "bech32", "valid": s, "corrupted": s2, "weight": w, "panic": o.msg})
		return
	}
	if o.ok {
		rep.Violate("C03:bech32:substitution_accepted", fmt.Sprintf("bech32.Decode accepts a string that differs from a valid string in %d data characters", w),
			map[string]interface{}{"code": "bech32", "valid": s, "corrupted": s2, "weight": w, "family": family, "decoded_hrp": o.hrp, "decoded_data": vh.Hex(o.data)})
	}
	if corr {
		bechCase(s2, o)
	}
}

// bechCaseVariant: s2 differs from the accepted s only in the case of letters (any number of them, in
// the data part and/or the human-readable part).  The only such strings a bech32 decoder accepts are
// the all-lower-case and the all-upper-case forms of s (C03_bech32_mixed_case_rejected); every other one
// is a substitution that must be rejected.
func bechCaseVariant(s, s2, family string, corr bool) {
	if strings.ToLower(s2) != strings.ToLower(s) || s2 == strings.ToLower(s) || s2 == strings.ToUpper(s) {
		return
	}
	w := hamming(s, s2)
	o := bechDecode(s2)
	rep.Count("bech-case-"+family, "bc"+s2, true)
	rep.Histogram["bech32 case-only change"]++
	if o.panicked {
		rep.Violate("C03:bech32:substitution_panic", "bech32.Decode panicked on a case variant of an accepted string",
			map[string]interface{}{"code": "bech32", "valid": s, "corrupted": s2, "weight": w, "panic": o.msg})
		return
	}
	if o.ok {
		rep.Violate("C03:bech32:case_variant_accepted", fmt.Sprintf("bech32.Decode accepts a mixed-case string that differs from a valid string in the case of %d characters", w),
			map[string]interface{}{"code": "bech32", "valid": s, "corrupted": s2, "weight": w, "family": family, "decoded_hrp": o.hrp, "decoded_data": vh.Hex(o.data)})
	}
	if corr {
		bechCase(s2, o)
	}
}

// flipCase changes the case of k letters of s at positions >= from (fewer when there are not that many).
func flipCase(r *vh.RNG, s string, from, k int) string {
	b := []byte(s)
	var letters []int
	for i := from; i < len(b); i++ {
		if c := b[i] | 0x20; c >= 'a' && c <= 'z' {
			letters = append(letters, i)
		}
	}
	for j := 0; j < k && len(letters) > 0; j++ {
		q := r.Intn(len(letters))
		b[letters[q]] ^= 0x20
		letters = append(letters[:q], letters[q+1:]...)
	}
	return string(b)
}

// alphabets for substitutions
var alnum = func() []byte {
	var a []byte
	for c := byte('a'); c <= 'z'; c++ {
		a = append(a, c)
	}
	for c := byte('A'); c <= 'Z'; c++ {
		a = append(a, c)
	}
	for c := byte('0'); c <= '9'; c++ {
		a = append(a, c)
	}
	return a
}()

// replacement for position holding `old`: mostly another charset symbol of the same case,
// sometimes the other case, an excluded alphanumeric, a separator or any byte.
func replChar(r *vh.RNG, old byte, upper bool, code string) byte {
	for {
		var c byte
		switch k := r.Intn(20); {
		case k < 13:
			c = charset[r.Intn(32)]
			if upper && c >= 'a' {
				c -= 32
			}
		case k < 15:
			c = charset[r.Intn(32)]
			if !upper && c >= 'a' {
				c -= 32
			}
		case k < 18:
			c = vh.Pick(r, []byte("bio1BIO"))
		case k < 19:
			c = vh.Pick(r, []byte(":- _"))
		default:
			c = r.Byte()
		}
		if c == old {
			continue
		}
		if code == "bech32" {
			if c == '1' {
				continue // moves the separator: another code, see bech32_separator_substitution_accepted
			}
			lo := func(x byte) byte {
				if x >= 'A' && x <= 'Z' {
					return x + 32
				}
				return x
			}
			if lo(c) == lo(old) {
				continue // pure change of case is the same address when done consistently
			}
		}
		return c
	}
}

func randPositions(r *vh.RNG, n, w int) []int {
	seen := map[int]bool{}
	var ps []int
	for len(ps) < w {
		p := r.Intn(n)
		if !seen[p] {
			seen[p] = true
			ps = append(ps, p)
		}
	}
	sort.Ints(ps)
	return ps
}

// burst / clustered / spread position patterns
func patternPositions(r *vh.RNG, n, w int) []int {
	switch r.Intn(4) {
	case 0: // burst
		if n >= w {
			st := r.Intn(n - w + 1)
			ps := make([]int, w)
			for i := range ps {
				ps[i] = st + i
			}
			return ps
		}
	case 1: // inside the checksum symbols
		k := 8
		if n < k {
			k = n
		}
		if k >= w {
			ps := randPositions(r, k, w)
			for i := range ps {
				ps[i] += n - k
			}
			return ps
		}
	}
	return randPositions(r, n, w)
}

// exhaustive weight 1 (all byte values) and weight 2 (given alphabet) on one accepted string
func exhaustiveLowWeight(code, s string, bodyStart int, alphabet []byte, doPairs bool) {
	b := []byte(s)
	n := len(b) - bodyStart
	check := func(family string) {
		s2 := string(b)
		if code == "cashaddr" {
			o := cashDecode(s2)
			if o.ok || o.panicked {
				cashCorrupted(s, s2, family, false)
			} else {
				rep.Evaluations++
				rep.Histogram["cash-exhaustive-"+family]++
			}
		} else {
			lo := strings.ToLower(s2)
			if lo == strings.ToLower(s) {
				bechCaseVariant(s, s2, family, false)
				return
			}
			if strings.LastIndexByte(s2, '1') != bodyStart-1 {
				return
			}
			o := bechDecode(s2)
			if o.ok || o.panicked {
				bechCorrupted(s, s2, family, false)
			} else {
				rep.Evaluations++
				rep.Histogram["bech-exhaustive-"+family]++
			}
		}
	}
	for i := 0; i < n; i++ {
		old := b[bodyStart+i]
		for c := 0; c < 256; c++ {
			if byte(c) == old {
				continue
			}
			b[bodyStart+i] = byte(c)
			check("w1")
		}
		b[bodyStart+i] = old
	}
	if !doPairs {
		return
	}
	for i := 0; i < n; i++ {
		oi := b[bodyStart+i]
		for _, ci := range alphabet {
			if ci == oi {
				continue
			}
			b[bodyStart+i] = ci
			for j := i + 1; j < n; j++ {
				oj := b[bodyStart+j]
				for _, cj := range alphabet {
					if cj == oj {
						continue
					}
					b[bodyStart+j] = cj
					check("w2")
				}
				b[bodyStart+j] = oj
			}
		}
		b[bodyStart+i] = oi
	}
}

// ---------------------------------------------------------------- generators
var cashPrefixes = []string{"bitcoincash", "bchtest", "bchreg", "simpleledger", "slptest", "slpreg", "a", "bch", "ergon"}
var cashPayloadLens = []int{34, 40, 47, 53, 66, 79, 92, 104} // 160..512-bit hashes + version byte

func randSymbols(r *vh.RNG, n int) []byte {
	b := make([]byte, n)
	for i := range b {
		b[i] = byte(r.Intn(32))
	}
	return b
}

func randCashPrefix(r *vh.RNG) string {
	if r.Intn(4) != 0 {
		return vh.Pick(r, cashPrefixes)
	}
	n := 1 + r.Intn(12)
	b := make([]byte, n)
	for i := range b {
		b[i] = byte('a' + r.Intn(26))
	}
	return string(b)
}

func randHrp(r *vh.RNG, maxLen int) string {
	n := 1 + r.Intn(maxLen)
	b := make([]byte, n)
	for i := range b {
		c := byte(33 + r.Intn(94))
		if c >= 'A' && c <= 'Z' {
			c += 32
		}
		b[i] = c
	}
	if r.Intn(3) == 0 {
		return vh.Pick(r, []string{"bc", "tb", "bcrt", "a", "split", "1", "2", "?"})
	}
	return string(b)
}

// validCash returns an accepted address prefix:body built with the implementation's own encoder
// (checked against the reference), possibly upper-cased.
func validCash(r *vh.RNG, prefix string, n int) (string, int) {
	payload := randSymbols(r, n)
	body := bchutil.VerifEncode(prefix, payload)
	if want := cashBody(prefix, payload, 0); want != body {
		rep.Violate("C03:cash:encode_reference", "encode(prefix, payload) differs from the CashAddr specification",
			map[string]interface{}{"prefix": prefix, "payload": vh.Hex(payload), "impl": body, "spec": want})
		if len(body) != len(want) {
			body = want
		}
	}
	s := prefix + ":" + body
	if r.Intn(5) == 0 {
		s = strings.ToUpper(s)
	}
	o := cashDecode(s)
	rep.Count("cash-valid", "cv"+s, true)
	if !o.ok || o.prefix != prefix || string(o.payload) != string(payload) {
		rep.Violate("C03:cash:valid_rejected", "DecodeCashAddress does not return (prefix, payload) for a string with a correct checksum",
			map[string]interface{}{"string": s, "prefix": prefix, "payload": vh.Hex(payload), "accepted": o.ok, "panic": o.msg})
	}
	return s, len(prefix) + 1
}

func validBech(r *vh.RNG, hrp string, n int) (string, int) {
	data := randSymbols(r, n)
	s, err := bech32.Encode(hrp, data)
	want := hrp + "1" + bechBody(hrp, data, 1)
	if err != nil || s != want {
		rep.Violate("C03:bech32:encode_reference", "bech32.Encode differs from BIP173",
			map[string]interface{}{"hrp": hrp, "data": vh.Hex(data), "impl": s, "spec": want})
		if err != nil || len(s) != len(want) {
			s = want
		}
	}
	if r.Intn(5) == 0 {
		s = strings.ToUpper(s)
	}
	o := bechDecode(s)
	rep.Count("bech-valid", "bv"+s, true)
	if !o.ok || o.hrp != strings.ToLower(hrp) || string(o.data) != string(data) {
		rep.Violate("C03:bech32:valid_rejected", "bech32.Decode does not return (hrp, data) for a string with a correct checksum",
			map[string]interface{}{"string": s, "accepted": o.ok, "panic": o.msg})
	}
	return s, len(hrp) + 1
}

func isUpperStr(s string) bool { return s == strings.ToUpper(s) && s != strings.ToLower(s) }

func substitute(r *vh.RNG, code, s string, bodyStart, w int) string {
	b := []byte(s)
	up := isUpperStr(s)
	for _, p := range patternPositions(r, len(b)-bodyStart, w) {
		b[bodyStart+p] = replChar(r, b[bodyStart+p], up, code)
	}
	return string(b)
}

// ---------------------------------------------------------------- remainder / residue families
func polymodFamilies(rng *vh.RNG) {
	r := rng.Fork("polymod")
	// random vectors (any byte values: polyMod takes []byte and does not mask)
	for i := 0; i < cfg.Scale(120, 1200); i++ {
		n := r.Intn(130)
		v := r.Bytes(n)
		if i%3 != 0 {
			for j := range v {
				v[j] &= 31
			}
		}
		got, want := bchutil.VerifPolyMod(v), refCashPolymod(v)
		rep.Count("cash-polymod", "cp"+string(v), n > 0)
		if got != want {
			rep.Violate("C03:cash:polymod_reference", "polyMod differs from the CashAddr specification", map[string]interface{}{"v": vh.Hex(v), "impl": got, "spec": want})
		}
		cases.Add(fmt.Sprintf("CashPoly %s %d", vh.CoqBytes(v), got), map[string]interface{}{"op": "polyMod", "v": vh.Hex(v), "impl": got})
		iv := make([]int, n)
		for j := range v {
			iv[j] = int(v[j])
		}
		g2, w2 := bech32.VerifPolymod(iv), refBechPolymod(iv)
		rep.Count("bech-polymod", "bp"+string(v), n > 0)
		if g2 != w2 {
			rep.Violate("C03:bech32:polymod_reference", "bech32Polymod differs from BIP173", map[string]interface{}{"v": vh.Hex(v), "impl": g2, "spec": w2})
		}
		cases.Add(fmt.Sprintf("BechPoly %s %d", vh.CoqBytes(v), g2), map[string]interface{}{"op": "bech32Polymod", "v": vh.Hex(v), "impl": g2})
	}
	// all single-symbol vectors (the syndrome map the minimum-distance proof is about)
	for _, L := range []int{112, 89} {
		for pos := 0; pos < L; pos++ {
			for val := 1; val < 32; val++ {
				v := make([]byte, L)
				v[pos] = byte(val)
				toCoq := (pos*31+val)%cfg.Scale(23, 7) == 0
				if L == 112 {
					got, want := bchutil.VerifPolyMod(v), refCashPolymod(v)
					rep.Count("cash-polymod-single", fmt.Sprintf("cps%d.%d", pos, val), true)
					if got != want {
						rep.Violate("C03:cash:polymod_reference", "polyMod differs from the CashAddr specification on a single-symbol vector", map[string]interface{}{"v": vh.Hex(v), "impl": got, "spec": want})
					}
					if toCoq {
						cases.Add(fmt.Sprintf("CashPoly %s %d", vh.CoqBytes(v), got), map[string]interface{}{"op": "polyMod", "single": []int{pos, val}, "impl": got})
					}
				} else {
					iv := make([]int, L)
					iv[pos] = val
					got, want := bech32.VerifPolymod(iv), refBechPolymod(iv)
					rep.Count("bech-polymod-single", fmt.Sprintf("bps%d.%d", pos, val), true)
					if got != want {
						rep.Violate("C03:bech32:polymod_reference", "bech32Polymod differs from BIP173 on a single-symbol vector", map[string]interface{}{"v": vh.Hex(v), "impl": got, "spec": want})
					}
					if toCoq {
						cases.Add(fmt.Sprintf("BechPoly %s %d", vh.CoqBytes(v), got), map[string]interface{}{"op": "bech32Polymod", "single": []int{pos, val}, "impl": got})
					}
				}
			}
		}
	}
	// verify / create through the hooks
	for i := 0; i < cfg.Scale(60, 600); i++ {
		prefix := randCashPrefix(r)
		payload := randSymbols(r, r.Intn(60))
		chk := bchutil.VerifCreateChecksum(prefix, payload)
		cases.Add(fmt.Sprintf("CashCreate %s %s %s", vh.CoqStr(prefix), vh.CoqBytes(payload), vh.CoqBytes(chk)), map[string]interface{}{"op": "createChecksum", "prefix": prefix, "payload": vh.Hex(payload), "impl": vh.Hex(chk)})
		full := append(append([]byte{}, payload...), chk...)
		switch i % 4 {
		case 1:
			full[r.Intn(len(full))] ^= byte(1 + r.Intn(31))
		case 2:
			full[len(full)-8] ^= byte(1 + r.Intn(31)) // only the top symbol of the remainder changes
		case 3:
			full = randSymbols(r, 8+r.Intn(20))
		}
		ok := bchutil.VerifVerifyChecksum(prefix, full)
		rep.Count("cash-verify", "cvf"+prefix+string(full), true)
		if want := refCashPolymod(append(cashExpand(prefix), full...)) == 0; ok != want {
			rep.Violate("C03:cash:verify_reference", "verifyChecksum differs from 'remainder of expand(prefix)||payload is 0'", map[string]interface{}{"prefix": prefix, "payload": vh.Hex(full), "impl": ok, "spec": want})
		}
		cases.Add(fmt.Sprintf("CashVerify %s %s %s", vh.CoqStr(prefix), vh.CoqBytes(full), vh.CoqBool(ok)), map[string]interface{}{"op": "verifyChecksum", "prefix": prefix, "payload": vh.Hex(full), "impl": ok})

		hrp := randHrp(r, 10)
		data := randSymbols(r, r.Intn(50))
		bchk := bech32.VerifChecksum(hrp, data)
		cases.Add(fmt.Sprintf("BechCreate %s %s %s", vh.CoqStr(hrp), vh.CoqBytes(data), vh.CoqBytes(bchk)), map[string]interface{}{"op": "bech32Checksum", "hrp": hrp, "data": vh.Hex(data), "impl": vh.Hex(bchk)})
		bfull := append(append([]byte{}, data...), bchk...)
		switch i % 4 {
		case 1:
			bfull[r.Intn(len(bfull))] ^= byte(1 + r.Intn(31))
		case 2:
			bfull[len(bfull)-6] ^= byte(1 + r.Intn(31))
		case 3:
			bfull = randSymbols(r, 6+r.Intn(20))
		}
		bok := bech32.VerifVerifyChecksum(hrp, bfull)
		rep.Count("bech-verify", "bvf"+hrp+string(bfull), true)
		vv := bechExpand(hrp)
		for _, d := range bfull {
			vv = append(vv, int(d))
		}
		if want := refBechPolymod(vv) == 1; bok != want {
			rep.Violate("C03:bech32:verify_reference", "bech32VerifyChecksum differs from 'remainder of expand(hrp)||data is 1'", map[string]interface{}{"hrp": hrp, "data": vh.Hex(bfull), "impl": bok, "spec": want})
		}
		cases.Add(fmt.Sprintf("BechVerify %s %s %s", vh.CoqStr(hrp), vh.CoqBytes(bfull), vh.CoqBool(bok)), map[string]interface{}{"op": "bech32VerifyChecksum", "hrp": hrp, "data": vh.Hex(bfull), "impl": bok})
	}
}

// structured non-zero differences of the remainder: single bits, single lanes, bit pairs, the top
// lane only, all ones, the bech32m constant, and random ones
func residueDeltas(r *vh.RNG, width int, random int) []uint64 {
	var ds []uint64
	for i := 0; i < width; i++ {
		ds = append(ds, 1<<uint(i))
		for j := i + 1; j < width; j += 7 {
			ds = append(ds, 1<<uint(i)|1<<uint(j))
		}
	}
	for lane := 0; lane < width/5; lane++ {
		for a := uint64(1); a < 32; a++ {
			ds = append(ds, a<<uint(5*lane))
		}
	}
	mask := uint64(1)<<uint(width) - 1
	ds = append(ds, mask, mask>>5, mask&^31, (1^0x2bc830a3)&mask, 0x2bc830a3&mask, 0x3fffffff&mask, mask&^(mask>>5))
	for i := 0; i < random; i++ {
		if d := r.U64() & mask; d != 0 {
			ds = append(ds, d)
		}
	}
	return ds
}

// a string whose remainder is not the required constant must be rejected
func residueFamilies(rng *vh.RNG) (cashAccepted []uint64, bechAccepted []uint64) {
	r := rng.Fork("residue")
	nrand := cfg.Scale(3000, 60000)
	prefix, payload := "bitcoincash", randSymbols(r, 34)
	valid := prefix + ":" + cashBody(prefix, payload, 0)
	for _, d := range residueDeltas(r, 40, nrand) {
		s := prefix + ":" + cashBody(prefix, payload, d)
		o := cashDecode(s)
		rep.Count("cash-residue", fmt.Sprintf("cr%x", d), true)
		if o.ok || o.panicked {
			cashAccepted = append(cashAccepted, d)
			rep.Violate("C03:cash:wrong_remainder_accepted", fmt.Sprintf("DecodeCashAddress accepts a string whose checksum remainder is %#x instead of 0 (it differs from a valid address in %d characters)", d, hamming(valid, s)),
				map[string]interface{}{"code": "cashaddr", "valid": valid, "corrupted": s, "weight": hamming(valid, s), "remainder": d, "panic": o.msg})
		}
	}
	hrp, data := "bc", randSymbols(r, 33)
	bvalid := hrp + "1" + bechBody(hrp, data, 1)
	for _, d := range residueDeltas(r, 30, nrand) {
		s := hrp + "1" + bechBody(hrp, data, 1^int(d))
		o := bechDecode(s)
		rep.Count("bech-residue", fmt.Sprintf("br%x", d), true)
		if o.ok || o.panicked {
			bechAccepted = append(bechAccepted, d)
			rep.Violate("C03:bech32:wrong_remainder_accepted", fmt.Sprintf("bech32.Decode accepts a string whose checksum remainder is %#x instead of 1 (it differs from a valid string in %d characters)", 1^int(d), hamming(bvalid, s)),
				map[string]interface{}{"code": "bech32", "valid": bvalid, "corrupted": s, "weight": hamming(bvalid, s), "remainder": 1 ^ int(d), "panic": o.msg})
		}
	}
	return
}

// ---------------------------------------------------------------- meet in the middle (search)
type synEntry struct {
	syn  uint64
	code uint32 // p1<<20 | v1<<15 | p2<<7... see pack
}

func packPair(p1, v1, p2, v2 int) uint32 { return uint32(p1)<<24 | uint32(v1)<<16 | uint32(p2)<<8 | uint32(v2) }
func unpackPair(c uint32) (int, int, int, int) {
	return int(c >> 24), int(c >> 16 & 255), int(c >> 8 & 255), int(c & 255)
}

// syndromes of the implementation's own remainder function for n symbols after `head`
func syndromes(code string, head []byte, n int) [][32]uint64 {
	poly := func(v []byte) uint64 {
		if code == "cashaddr" {
			return bchutil.VerifPolyMod(v)
		}
		iv := make([]int, len(v))
		for i := range v {
			iv[i] = int(v[i])
		}
		return uint64(bech32.VerifPolymod(iv))
	}
	base := make([]byte, len(head)+n)
	copy(base, head)
	b0 := poly(base)
	t := make([][32]uint64, n)
	for p := 0; p < n; p++ {
		for v := 1; v < 32; v++ {
			base[len(head)+p] = byte(v)
			t[p][v] = poly(base) ^ b0
		}
		base[len(head)+p] = 0
	}
	return t
}

type pattern [][2]int // (position, xor value)

func mergePattern(a pattern) pattern {
	m := map[int]int{}
	for _, pv := range a {
		m[pv[0]] ^= pv[1]
	}
	var out pattern
	for p, v := range m {
		if v != 0 {
			out = append(out, [2]int{p, v})
		}
	}
	sort.Slice(out, func(i, j int) bool { return out[i][0] < out[j][0] })
	return out
}

// mitm looks for patterns of weight <= maxW whose syndrome is one of targets (0 = two codewords
// at small distance). It returns candidate patterns (to be confirmed on the decoder).
func mitm(t [][32]uint64, targets []uint64, maxW int, limit int, deadline time.Time) []pattern {
	n := len(t)
	var found []pattern
	add := func(p pattern) {
		p = mergePattern(p)
		if len(p) >= 1 && len(p) <= maxW && len(found) < limit {
			found = append(found, p)
		}
	}
	var singles, pairs []synEntry
	for p := 0; p < n; p++ {
		for v := 1; v < 32; v++ {
			singles = append(singles, synEntry{t[p][v], packPair(p, v, 255, 0)})
		}
	}
	for p := 0; p < n; p++ {
		for v := 1; v < 32; v++ {
			for q := p + 1; q < n; q++ {
				for w := 1; w < 32; w++ {
					pairs = append(pairs, synEntry{t[p][v] ^ t[q][w], packPair(p, v, q, w)})
				}
			}
		}
	}
	all := append(append([]synEntry{{0, packPair(255, 0, 255, 0)}}, singles...), pairs...)
	sort.Slice(all, func(i, j int) bool { return all[i].syn < all[j].syn })
	toPat := func(c uint32) pattern {
		p1, v1, p2, v2 := unpackPair(c)
		var p pattern
		if p1 != 255 {
			p = append(p, [2]int{p1, v1})
		}
		if p2 != 255 {
			p = append(p, [2]int{p2, v2})
		}
		return p
	}
	lookup := func(s uint64) []synEntry {
		i := sort.Search(len(all), func(i int) bool { return all[i].syn >= s })
		j := i
		for j < len(all) && all[j].syn == s && j-i < 8 {
			j++
		}
		return all[i:j]
	}
	// weight <= 4: x ^ y = target with x, y of weight <= 2
	for _, tg := range targets {
		for _, e := range all {
			if time.Now().After(deadline) || len(found) >= limit {
				return found
			}
			for _, f := range lookup(e.syn ^ tg) {
				if f.code == e.code && tg == 0 {
					continue
				}
				add(append(toPat(e.code), toPat(f.code)...))
			}
		}
	}
	if maxW < 5 || len(found) > 0 {
		return found
	}
	// weight 5: triple ^ (weight <= 2) = target, triples enumerated in parallel
	var mu sync.Mutex
	var wg sync.WaitGroup
	workers := runtime.NumCPU()
	for wk := 0; wk < workers; wk++ {
		wg.Add(1)
		go func(wk int) {
			defer wg.Done()
			for p := wk; p < n; p += workers {
				for q := p + 1; q < n; q++ {
					if time.Now().After(deadline) {
						return
					}
					for u := q + 1; u < n; u++ {
						for a := 1; a < 32; a++ {
							for b := 1; b < 32; b++ {
								sab := t[p][a] ^ t[q][b]
								for c := 1; c < 32; c++ {
									s := sab ^ t[u][c]
									for _, tg := range targets {
										for _, f := range lookup(s ^ tg) {
											mu.Lock()
											add(append(pattern{{p, a}, {q, b}, {u, c}}, toPat(f.code)...))
											mu.Unlock()
										}
									}
								}
							}
						}
					}
				}
			}
		}(wk)
	}
	wg.Wait()
	return found
}

// applyPattern xors the pattern into the symbols of the body of an accepted lower-case string
func applyPattern(s string, bodyStart int, p pattern) string {
	b := []byte(s)
	for _, pv := range p {
		i := bodyStart + pv[0]
		if i >= len(b) {
			return s
		}
		k := strings.IndexByte(charset, b[i])
		if k < 0 {
			return s
		}
		b[i] = charset[k^pv[1]]
	}
	return string(b)
}

// learn the set of bech32 remainders the implementation accepts: exhaust all 2^30 checksums
func learnBechAccepted(deadline time.Time) (deltas []uint64, covered float64) {
	hrp := "a"
	base := bechExpand(hrp)
	base = append(base, 0, 0, 0, 0, 0, 0)
	p0 := refBechPolymod(base) // remainder with an all-zero checksum
	var mu sync.Mutex
	var wg sync.WaitGroup
	workers := runtime.NumCPU()
	done := make([]uint64, workers)
	const total = uint64(1) << 30
	for wk := 0; wk < workers; wk++ {
		wg.Add(1)
		go func(wk int) {
			defer wg.Done()
			data := make([]byte, 6)
			lo, hi := total*uint64(wk)/uint64(workers), total*uint64(wk+1)/uint64(workers)
			for x := lo; x < hi; x++ {
				if x&0xfffff == 0 && time.Now().After(deadline) {
					return
				}
				for i := 0; i < 6; i++ {
					data[i] = byte(x >> uint(5*(5-i)) & 31)
				}
				if bech32.VerifVerifyChecksum(hrp, data) {
					res := uint64(p0) ^ x // remainder of this string
					if res != 1 {
						mu.Lock()
						deltas = append(deltas, res^1)
						mu.Unlock()
					}
				}
				done[wk]++
			}
		}(wk)
	}
	wg.Wait()
	var d uint64
	for _, x := range done {
		d += x
	}
	return deltas, float64(d) / float64(total)
}

func search(rng *vh.RNG, cashDeltas, bechDeltas []uint64) {
	r := rng.Fork("search")
	start := time.Now()
	budget := func(sec int) time.Time { return time.Now().Add(time.Duration(sec) * time.Second) }
	// --- bech32: accepted remainders, then patterns of weight <= 4 at several data lengths
	learned, cov := learnBechAccepted(budget(240))
	rep.Extra["bech32_checksums_exhausted_fraction"] = cov
	rep.Extra["bech32_accepted_remainder_deltas"] = learned
	targets := append([]uint64{0}, bechDeltas...)
	for _, d := range learned {
		targets = append(targets, d)
	}
	targets = uniq(targets)
	for _, n := range []int{39, 88, 59} {
		hrp := vh.Pick(r, []string{"bc", "a"})
		if n == 88 {
			hrp = "a"
		}
		t := syndromes("bech32", toBytes(bechExpand(hrp)), n)
		cands := mitm(t, targets, 4, 400, budget(120))
		rep.Extra[fmt.Sprintf("bech32_mitm_candidates_n%d", n)] = len(cands)
		data := randSymbols(r, n-6)
		valid := implBech(hrp, data)
		for _, p := range cands {
			s2 := applyPattern(valid, len(hrp)+1, p)
			if s2 != valid {
				rep.Evaluations++
				if o := bechDecode(s2); o.ok {
					bechCorrupted(valid, s2, "search-mitm", false)
				}
			}
		}
	}
	// --- cashaddr: zero-syndrome patterns (and differences of accepted remainders) of weight <= 5
	ctargets := uniq(append([]uint64{0}, cashDeltas...))
	for _, n := range []int{42, 112} {
		prefix := "bitcoincash"
		t := syndromes("cashaddr", cashExpand(prefix), n)
		maxW := 5
		if n > 42 {
			maxW = 4
		}
		cands := mitm(t, ctargets, maxW, 400, budget(200))
		rep.Extra[fmt.Sprintf("cash_mitm_candidates_n%d", n)] = len(cands)
		payload := randSymbols(r, n-8)
		valid := implCash(prefix, payload)
		for _, p := range cands {
			s2 := applyPattern(valid, len(prefix)+1, p)
			if s2 != valid {
				rep.Evaluations++
				if o := cashDecode(s2); o.ok {
					cashCorrupted(valid, s2, "search-mitm", false)
				}
			}
		}
	}
	// --- black box: exhaustive weight <= 2 over the wide alphabet on further strings
	wide := append(append([]byte{}, alnum...), ':', '-')
	for i := 0; i < 6; i++ {
		prefix := vh.Pick(r, []string{"a", "bitcoincash", "simpleledger"})
		n := vh.Pick(r, []int{34, 34, 53, 20})
		s, st := validCash(r, prefix, n)
		exhaustiveLowWeight("cashaddr", s, st, wide, true)
		hrp := vh.Pick(r, []string{"bc", "a", "tb"})
		bs, bst := validBech(r, hrp, vh.Pick(r, []int{33, 20, 52}))
		exhaustiveLowWeight("bech32", bs, bst, wide, true)
	}
	rep.Extra["search_seconds"] = time.Since(start).Seconds()
}

func uniq(xs []uint64) []uint64 {
	m := map[uint64]bool{}
	var out []uint64
	for _, x := range xs {
		if !m[x] {
			m[x] = true
			out = append(out, x)
		}
	}
	return out
}

func toBytes(v []int) []byte {
	b := make([]byte, len(v))
	for i := range v {
		b[i] = byte(v[i])
	}
	return b
}

// ---------------------------------------------------------------- replay
func replay(path string) {
	raw, err := os.ReadFile(path)
	vh.Must(err)
	var rp struct {
		Key   string                 `json:"key"`
		Input map[string]interface{} `json:"input"`
	}
	vh.Must(json.Unmarshal(raw, &rp))
	if replayWithHistory(rp.Key, rp.Input) {
		return
	}
	valid, _ := rp.Input["valid"].(string)
	corrupted, _ := rp.Input["corrupted"].(string)
	code, _ := rp.Input["code"].(string)
	if corrupted == "" {
		fmt.Println("c03: replay file has no corrupted string (obligation replay): nothing to run on the implementation")
		return
	}
	if code == "bech32" {
		if o := bechDecode(valid); !o.ok {
			fmt.Println("c03: replay: the reference string is not accepted any more")
		}
		if strings.Contains(rp.Key, "wrong_remainder") {
			if o := bechDecode(corrupted); o.ok || o.panicked {
				rep.Violate(rp.Key, "bech32.Decode accepts a string whose checksum remainder is not 1", rp.Input)
			}
			rep.Evaluations++
		} else {
			bechCorrupted(valid, corrupted, "replay", false)
		}
	} else {
		if o := cashDecode(valid); !o.ok {
			fmt.Println("c03: replay: the reference address is not accepted any more")
		}
		if strings.Contains(rp.Key, "wrong_remainder") {
			if o := cashDecode(corrupted); o.ok || o.panicked {
				rep.Violate(rp.Key, "DecodeCashAddress accepts a string whose checksum remainder is not 0", rp.Input)
			}
			rep.Evaluations++
		} else {
			cashCorrupted(valid, corrupted, "replay", false)
		}
	}
}

// ---------------------------------------------------------------- main
func main() {
	cfg = vh.ParseFlags("C03")
	rep = vh.NewReport(cfg)
	rep.Rule = "valid strings are built with the implementation's encoder at every standard length and corrupted in 1..5 (1..4) positions after the separator; a case is non-trivial when the corrupted string reaches the checksum test or a character rule of the decoder (all do); distinct by corrupted string / remainder / vector"
	cases = vh.NewCases(cfg, "Run.Run_C03", 400)
	rng := vh.NewRNG(cfg.Seed)
	defer func() {
		rep.Cases = cases.Len()
		rep.Extra["duplicate_cases_dropped"] = cases.Dups
		if !cfg.Search && cfg.Replay == "" {
			_, err := cases.Flush()
			vh.Must(err)
		}
		vh.Must(rep.Write(cfg))
		fmt.Printf("c03: %d implementation executions, %d correspondence cases, %d monitor violations\n", rep.Evaluations, rep.Cases, len(rep.Violations))
	}()
	if cfg.Replay != "" {
		if !envrun.Replay(cfg, rep) {
			replay(cfg.Replay)
		}
		return
	}
	// environment monitors (round 3): every package of the module linked, decode tables read at the start and at
	// the end of the run, single substitutions over all of ASCII; plain children
	env := envrun.Start(cfg, rep)
	defer env.Finish()

	polymodFamilies(rng)
	cashAcc, bechAcc := residueFamilies(rng)

	// --- CashAddr: random 1..5 substitutions at every standard length and prefix
	r := rng.Fork("cash-subst")
	nv := cfg.Scale(40, 400)
	for i := 0; i < nv; i++ {
		prefix := randCashPrefix(r)
		n := vh.Pick(r, cashPayloadLens)
		if i%6 == 0 {
			n = r.Intn(105)
		}
		s, st := validCash(r, prefix, n)
		if i%3 == 0 {
			cashCase(s, cashDecode(s))
		}
		for k := 0; k < cfg.Scale(30, 200); k++ {
			w := 1 + r.Intn(5)
			if w > len(s)-st {
				w = len(s) - st
			}
			if w == 0 {
				continue
			}
			s2 := substitute(r, "cashaddr", s, st, w)
			cashCorrupted(s, s2, "random", k < 3 && i%2 == 0)
		}
		// change of case of 1..5 payload letters only (a mixed-case string)
		for k := 0; k < 4; k++ {
			if s2 := flipCase(r, s, st, 1+r.Intn(5)); s2 != s {
				cashCorrupted(s, s2, "case", false)
			}
		}
		// through DecodeAddress as well (mainnet prefix only)
		if prefix == "bitcoincash" && len(s)-st == 42 {
			s2 := substitute(r, "cashaddr", s, st, 1+r.Intn(5))
			rep.Count("cash-decodeaddress", "da"+s2, true)
			var err error
			p, msg := vh.Catch(func() { _, err = bchutil.DecodeAddress(s2, &chaincfg.MainNetParams) })
			if p || err == nil {
				rep.Violate("C03:cash:decodeaddress_accepts", "DecodeAddress accepts (or panics on) a corrupted CashAddr string",
					map[string]interface{}{"code": "cashaddr", "valid": s, "corrupted": s2, "weight": hamming(s, s2), "panic": msg})
			}
		}
	}
	// fixed malformed / edge strings for the decoder model
	for _, s := range []string{"", ":", "a:", ":qqqqqqqq", "a:qqqqqqq", "a:qqqqqqqq", "a1:qqqqqqqqq", "a:b:qqqqqqqqq", "A:qqqqqqqq", "aB:qpzry9x8gf2tvdw0", "bitcoincash:", "bitcoincash",
		"a:" + cashBody("a", nil, 0), "A:" + strings.ToUpper(cashBody("a", nil, 0)), "a:" + strings.ToUpper(cashBody("a", nil, 0)), "a:" + cashBody("a", []byte{1, 2, 3}, 0) + "\x80",
		"bitcoincash:qpm2qsznhks23z7629mms6s4cwef74vcwvy22gdx6a", "bitcoincash:qpm2qsznhks23z7629mms6s4cwef74vcwvy22gdx6b", "BITCOINCASH:QPM2QSZNHKS23Z7629MMS6S4CWEF74VCWVY22GDX6A",
		"bchreg:555555555555555555555555555555555555555555555udxmlmrz", "bchreg:555555555555555555555555555555555555555555551udxmlmrz"} {
		o := cashDecode(s)
		rep.Count("cash-edge", "ce"+s, o.ok)
		if o.panicked {
			rep.Violate("C03:cash:decode_panic", "DecodeCashAddress panicked", map[string]interface{}{"string": s, "panic": o.msg})
		}
		cashCase(s, o)
	}

	// --- review round 2: cross-prefix cosets, history dependence, DecodeAddress under both labels
	historyFamilies(rng)
	decodeAddressFamilies(rng)
	exploitAnomalies(rng)

	// --- bech32: random 1..4 substitutions
	r = rng.Fork("bech-subst")
	for i := 0; i < nv; i++ {
		hrp := randHrp(r, 12)
		maxd := 90 - len(hrp) - 7
		n := r.Intn(maxd + 1)
		if i%4 == 0 {
			n = maxd // longest strings: where the code is weakest
		}
		s, st := validBech(r, hrp, n)
		if strings.LastIndexByte(s, '1') != st-1 {
			continue
		}
		if i%3 == 0 {
			bechCase(s, bechDecode(s))
		}
		for k := 0; k < cfg.Scale(30, 200); k++ {
			w := 1 + r.Intn(4)
			s2 := substitute(r, "bech32", s, st, w)
			bechCorrupted(s, s2, "random", k < 3 && i%2 == 0)
		}
		// change of case of 1..4 letters of the data part, of some letters anywhere (upper-case original
		// too): mixed-case strings, rejected whatever the checksum says
		for k := 0; k < 6; k++ {
			base := s
			if k%2 == 1 {
				base = strings.ToUpper(s)
			}
			if o := bechDecode(base); !o.ok {
				continue
			}
			from, cnt := st, 1+r.Intn(4)
			if k >= 4 {
				from, cnt = 0, 1+r.Intn(len(s))
			}
			bechCaseVariant(base, flipCase(r, base, from, cnt), "random", k == 0 && i%4 == 0)
		}
		// consistent change of case of the whole string is the same address
		if o := bechDecode(strings.ToUpper(s)); !o.ok && s == strings.ToLower(s) {
			rep.Violate("C03:bech32:uppercase_rejected", "the upper-case form of an accepted string is rejected", map[string]interface{}{"string": s})
		}
	}

	// --- exhaustive low weight on the real decoders (black box)
	r = rng.Fork("exhaustive")
	wide := append(append([]byte{}, alnum...), ':', '-')
	narrow := []byte(charset + "bio1BIOQL")
	for i := 0; i < cfg.Scale(2, 6); i++ {
		prefix := vh.Pick(r, []string{"a", "bitcoincash", "simpleledger"})
		n := 34
		alpha := narrow
		if i == 0 {
			prefix, n, alpha = "a", 20, wide
		}
		if cfg.Thorough() {
			alpha = wide
		}
		s := implCash(prefix, withAnL(randSymbols(r, n)))
		exhaustiveLowWeight("cashaddr", s, len(prefix)+1, alpha, true)
		hrp := vh.Pick(r, []string{"bc", "a"})
		bs := implBech(hrp, randSymbols(r, vh.Pick(r, []int{33, 20})))
		exhaustiveLowWeight("bech32", bs, len(hrp)+1, alpha, true)
	}
	// weight 1 over all byte values at every standard length
	for _, n := range cashPayloadLens {
		prefix := vh.Pick(r, cashPrefixes)
		s := implCash(prefix, randSymbols(r, n))
		exhaustiveLowWeight("cashaddr", s, len(prefix)+1, nil, false)
	}
	for _, n := range []int{0, 1, 33, 52, 82} {
		hrp := "bc"
		s := implBech(hrp, randSymbols(r, n))
		exhaustiveLowWeight("bech32", s, len(hrp)+1, nil, false)
	}

	if cfg.Search {
		search(rng, cashAcc, bechAcc)
	} else if len(cashAcc)+len(bechAcc) > 0 {
		// an unexpected remainder is accepted: find a corruption of weight <= 5 / <= 4 that exploits it
		rs := rng.Fork("exploit")
		if len(bechAcc) > 0 {
			for _, n := range []int{88, 39} {
				t := syndromes("bech32", toBytes(bechExpand("a")), n)
				cands := mitm(t, uniq(bechAcc), 4, 50, time.Now().Add(60*time.Second))
				valid := "a1" + bechBody("a", randSymbols(rs, n-6), 1)
				for _, p := range cands {
					if s2 := applyPattern(valid, 2, p); s2 != valid {
						if o := bechDecode(s2); o.ok {
							bechCorrupted(valid, s2, "mitm", false)
						}
					}
				}
			}
		}
		if len(cashAcc) > 0 {
			t := syndromes("cashaddr", cashExpand("a"), 42)
			cands := mitm(t, uniq(cashAcc), 4, 50, time.Now().Add(60*time.Second))
			valid := "a:" + cashBody("a", randSymbols(rs, 34), 0)
			for _, p := range cands {
				if s2 := applyPattern(valid, 2, p); s2 != valid {
					if o := cashDecode(s2); o.ok {
						cashCorrupted(valid, s2, "mitm", false)
					}
				}
			}
		}
	}
	rep.Sample(map[string]interface{}{"kind": "cashaddr substitution", "valid": "bitcoincash:qpm2qsznhks23z7629mms6s4cwef74vcwvy22gdx6a", "corrupted": "bitcoincash:ppm2qsznhks23z7629mms6s4cwef74vcwvy22gdx6a", "impl": "rejected"}, 8)
}

// make sure the payload contains symbol 31 ('l') away from the first position, next to a neighbour:
// the shape on which a decoder that lets excluded characters reach the remainder goes wrong
func withAnL(p []byte) []byte {
	if len(p) > 4 {
		p[len(p)/2] = 31
		p[len(p)-2] = 31
	}
	return p
}

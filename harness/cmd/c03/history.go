package main

// Review round 2 families (CashAddr):
//
//  1. CROSS-PREFIX cosets.  A body (payload||checksum) that is valid under prefix A, labelled with another
//     prefix B, has a non-zero remainder that depends only on (A, B, length).  A decoder that accepts
//     it verifies B-strings against something else than B (a cached state of another prefix, a
//     re-labelled string, a prefix that is ignored): its accepted set is a union of cosets of the code,
//     and patterns of weight <= 5 lead from a valid B-string into the extra coset.  Checked through
//     DecodeCashAddress for every ordered pair of prefixes, and through DecodeAddress with BOTH labels
//     (CashAddr and SLP) of every network that has both.
//  2. HISTORY.  The decoders are functions of their argument: the same string must give the same answer
//     whatever was decoded before.  Valid strings, malformed strings that leave the decoder through
//     each of its early exits, wrong-checksum strings and cross-prefix bodies under many prefixes are
//     decoded in systematic (A completes, B exits early, B probes) and random orders; every answer is
//     compared with the answer the string must get (valid => accepted, anything else => rejected).
//  3. When a wrong coset is accepted (in some history), a meet-in-the-middle over the implementation's
//     own syndromes looks for a pattern of weight <= 5 into that coset, re-establishes the history and
//     confirms the corrupted string on the real decoder: the replay is (history, valid, corrupted).
//  4. Random 1..5 substitutions through DecodeAddress under both labels of every network.

import (
	"fmt"
	"os"
	"strings"
	"time"

	"github.com/gcash/bchd/chaincfg"
	"github.com/gcash/bchutil"

	"verif/harness/internal/vh"
)

// ---- a decoder to look through: DecodeCashAddress, or DecodeAddress on a network
type via struct {
	name string           // "DecodeCashAddress" or "DecodeAddress/<net>"
	net  *chaincfg.Params // nil for DecodeCashAddress
}

var viaCash = via{"DecodeCashAddress", nil}

type histItem struct {
	Via string `json:"via"`
	S   string `json:"string"`
}

var c03Nets = []struct {
	name string
	p    *chaincfg.Params
}{
	{"mainnet", &chaincfg.MainNetParams}, {"testnet3", &chaincfg.TestNet3Params}, {"regtest", &chaincfg.RegressionNetParams}, {"simnet", &chaincfg.SimNetParams},
}

func viaByName(name string) via {
	for _, n := range c03Nets {
		if name == "DecodeAddress/"+n.name {
			return via{name, n.p}
		}
	}
	return viaCash
}

// accept: (accepted, panicked, panic message)
func (v via) accept(s string) (bool, bool, string) {
	rep.Evaluations++
	if v.net == nil {
		o := cashDecode(s)
		return o.ok, o.panicked, o.msg
	}
	var err error
	p, msg := vh.Catch(func() { _, err = bchutil.DecodeAddress(s, v.net) })
	return !p && err == nil, p, msg
}

func replayHistory(h []histItem) {
	for _, it := range h {
		viaByName(it.Via).accept(it.S)
	}
}

func symsOf(body string) []byte {
	out := make([]byte, len(body))
	for i := 0; i < len(body); i++ {
		out[i] = byte(strings.IndexByte(charset, body[i]))
	}
	return out
}

// payload symbols of a well-formed address body: version byte || hash, regrouped to 5 bits with zero padding
func addrPayload(version byte, hash []byte) []byte {
	data := append([]byte{version}, hash...)
	var out []byte
	acc, bits := 0, 0
	for _, b := range data {
		acc = acc<<8 | int(b)
		bits += 8
		for bits >= 5 {
			bits -= 5
			out = append(out, byte(acc>>uint(bits))&31)
		}
	}
	if bits > 0 {
		out = append(out, byte(acc<<uint(5-bits))&31)
	}
	return out
}

// ---- anomalies: a string of the wrong coset was accepted
type anomaly struct {
	v       via
	label   string // prefix written in the string
	other   string // prefix under which the body is valid
	payload []byte // payload symbols of the accepted wrong-coset string
	delta   uint64 // its remainder under `label` (non-zero)
	history []histItem
}

var anomalies []anomaly

func noteAnomaly(a anomaly) {
	for _, b := range anomalies {
		if b.v.name == a.v.name && b.label == a.label && b.delta == a.delta && len(b.payload) == len(a.payload) {
			return
		}
	}
	anomalies = append(anomalies, a)
}

// expectReject: s (prefix-qualified, not valid under its own prefix) must be rejected after `history`
func expectReject(v via, history []histItem, label, other string, payload []byte, s, family string) {
	ok, panicked, msg := v.accept(s)
	rep.Count("cash-"+family, v.name+"|"+s+fmt.Sprint(len(history)), true)
	if !ok && !panicked {
		return
	}
	body := s[strings.IndexByte(s, ':')+1:]
	delta := refCashPolymod(append(cashExpand(strings.ToLower(label)), symsOf(strings.ToLower(body))...))
	if delta == 0 {
		fatalf("c03 harness error: expectReject called on a string that is valid under its own prefix: %q", s)
	}
	valid := label + ":" + cashBody(strings.ToLower(label), payload, 0)
	rep.Violate("C03:cash:wrong_remainder_accepted",
		fmt.Sprintf("%s accepts %q whose checksum remainder under its own prefix is %#x instead of 0 (the body is valid under the prefix %q); history of %d earlier calls", v.name, s, delta, other, len(history)),
		map[string]interface{}{"code": "cashaddr", "via": v.name, "history": history, "valid": valid, "corrupted": s, "weight": hamming(valid, s), "remainder": delta, "body_valid_under": other, "panic": msg, "family": family})
	noteAnomaly(anomaly{v, label, other, payload, delta, append([]histItem(nil), history...)})
}

// expectAccept: s is valid under its own prefix (and, for DecodeAddress, a well-formed address)
func expectAccept(v via, history []histItem, s, family string) {
	ok, panicked, msg := v.accept(s)
	rep.Count("cash-"+family, v.name+"|ok|"+s+fmt.Sprint(len(history)), true)
	if ok && !panicked {
		return
	}
	rep.Violate("C03:cash:valid_rejected", fmt.Sprintf("%s rejects a string with a correct checksum after a history of %d earlier calls (the answer depends on what was decoded before)", v.name, len(history)),
		map[string]interface{}{"code": "cashaddr", "via": v.name, "history": history, "string": s, "panic": msg, "family": family})
}

// malformed strings under prefix p that leave DecodeCashAddress through each early exit
func malformed(r *vh.RNG, p string, payload []byte) []string {
	body := cashBody(p, payload, 0)
	mid := len(body) / 2
	return []string{
		p + ":" + body[:mid] + "b" + body[mid+1:],               // character outside the charset
		p + ":" + body[:mid] + "\x80" + body[mid+1:],            // byte above 127
		p + ":" + body[:7],                                      // fewer than 8 symbols
		p + ":",                                                 // no data
		p + ":" + body[:mid] + strings.ToUpper(body[mid:]),      // mixed case
		p + ":" + body[:mid] + ":" + body[mid+1:],               // second separator
		p + ":" + body[:mid] + " " + body[mid+1:],               // unexpected character
		p + ":" + cashBody(p, payload, 1+uint64(r.Intn(1<<20))), // well-formed, wrong checksum
	}
}

var histPrefixes = []string{"bitcoincash", "bchtest", "bchreg", "bchsim", "simpleledger", "slptest", "slpreg", "a", "ergon"}

func historyFamilies(rng *vh.RNG) {
	r := rng.Fork("history")
	payload := addrPayload(0x00, r.Bytes(20)) // 34 symbols: a 160-bit P2PKH body, n = 42
	// (1) stateless cross-prefix bodies through DecodeCashAddress
	for _, a := range histPrefixes {
		for _, b := range histPrefixes {
			if a != b {
				expectReject(viaCash, nil, b, a, payload, b+":"+cashBody(a, payload, 0), "cross-prefix")
			}
		}
	}
	// (2) systematic three-call histories: A completes, B leaves early (every exit), then B is probed
	for _, a := range histPrefixes {
		for _, b := range histPrefixes {
			if a == b {
				continue
			}
			va := a + ":" + cashBody(a, payload, 0)
			vb := b + ":" + cashBody(b, payload, 0)
			for _, m := range malformed(r, b, payload) {
				h := []histItem{{viaCash.name, va}, {viaCash.name, m}}
				if !cfg.Thorough() && r.Intn(3) != 0 && !(a == "bitcoincash" || b == "bitcoincash") {
					continue
				}
				expectAccept(viaCash, nil, va, "history")
				viaCash.accept(m) // whether it is rejected is the business of the ordinary families
				expectAccept(viaCash, h, vb, "history")
				replayHistory(h)
				expectReject(viaCash, h, b, a, payload, b+":"+cashBody(a, payload, 0), "history")
				replayHistory(h)
				expectReject(viaCash, h, b, b, payload, b+":"+cashBody(b, payload, 1<<uint(r.Intn(40))), "history")
				expectAccept(viaCash, append(h, histItem{viaCash.name, vb}), va, "history")
			}
		}
	}
	// (3) random walk: any prefix, any kind, the expected answer is known for each string
	var walk []histItem
	for step := 0; step < cfg.Scale(3000, 30000); step++ {
		p := vh.Pick(r, histPrefixes)
		pl := payload
		if r.Intn(4) == 0 {
			pl = randSymbols(r, r.Intn(60))
		}
		h := walk
		if len(h) > 6 {
			h = h[len(h)-6:]
		}
		var s string
		switch r.Intn(4) {
		case 0:
			s = p + ":" + cashBody(p, pl, 0)
			if r.Intn(5) == 0 {
				s = strings.ToUpper(s)
			}
			expectAccept(viaCash, h, s, "history-walk")
		case 1:
			s = vh.Pick(r, malformed(r, p, pl))
			viaCash.accept(s)
		case 2:
			q := vh.Pick(r, histPrefixes)
			if q == p {
				continue
			}
			s = p + ":" + cashBody(q, pl, 0)
			expectReject(viaCash, h, p, q, pl, s, "history-walk")
		default:
			s = p + ":" + cashBody(p, pl, 0)
			s2 := substitute(r, "cashaddr", s, len(p)+1, 1+r.Intn(5))
			replayable := append([]histItem(nil), h...)
			if ok, pn, msg := viaCash.accept(s2); ok || pn {
				rep.Violate("C03:cash:substitution_accepted", fmt.Sprintf("DecodeCashAddress accepts a string that differs from a valid address in %d payload characters (after a history of %d calls)", hamming(s, s2), len(replayable)),
					map[string]interface{}{"code": "cashaddr", "via": viaCash.name, "history": replayable, "valid": s, "corrupted": s2, "weight": hamming(s, s2), "panic": msg, "family": "history-walk"})
			}
			s = s2
		}
		walk = append(walk, histItem{viaCash.name, s})
	}
}

// DecodeAddress with both labels of every network
func decodeAddressFamilies(rng *vh.RNG) {
	r := rng.Fork("decodeaddress-labels")
	type shape struct {
		version byte
		hlen    int
	}
	shapes := []shape{{0x00, 20}, {0x08, 20}, {0x0b, 32}}
	var walk []histItem
	for _, n := range c03Nets {
		v := via{"DecodeAddress/" + n.name, n.p}
		cash, slp := n.p.CashAddressPrefix, n.p.SlpAddressPrefix
		labels := []string{cash}
		if slp != "" {
			labels = append(labels, slp)
		}
		for _, sh := range shapes {
			for rep3 := 0; rep3 < cfg.Scale(2, 8); rep3++ {
				payload := addrPayload(sh.version, r.Bytes(sh.hlen))
				for li, label := range labels {
					valid := label + ":" + cashBody(label, payload, 0)
					expectAccept(v, nil, valid, "decodeaddress-label")
					expectAccept(v, nil, strings.ToUpper(valid), "decodeaddress-label")
					// the body of the OTHER label of the same network, and of the labels of the other networks
					for _, other := range []string{labels[len(labels)-1-li], "bitcoincash", "simpleledger", "bchtest", "slptest", "bchreg", "slpreg", "bchsim"} {
						if other == label {
							continue
						}
						s := label + ":" + cashBody(other, payload, 0)
						expectReject(v, nil, label, other, payload, s, "decodeaddress-cross-label")
						if rep3 == 0 {
							expectReject(v, nil, strings.ToUpper(label), other, payload, strings.ToUpper(s), "decodeaddress-cross-label")
						}
					}
					// structured wrong remainders under this label
					for _, d := range []uint64{1, 1 << 39, 31, 31 << 35, 0xffffffffff, 1 << uint(r.Intn(40)), r.U64()&0xffffffffff | 1} {
						s := label + ":" + cashBody(label, payload, d)
						if ok, p, msg := v.accept(s); ok || p {
							rep.Violate("C03:cash:wrong_remainder_accepted", fmt.Sprintf("%s accepts a string whose checksum remainder is %#x instead of 0", v.name, d),
								map[string]interface{}{"code": "cashaddr", "via": v.name, "valid": valid, "corrupted": s, "weight": hamming(valid, s), "remainder": d, "panic": msg})
							noteAnomaly(anomaly{v, label, label, payload, d, nil})
						}
						rep.Count("cash-decodeaddress-residue", v.name+s, true)
					}
					// random 1..5 substitutions of the payload part, after whatever was decoded before
					for k := 0; k < cfg.Scale(40, 400); k++ {
						base := valid
						if k%5 == 4 {
							base = strings.ToUpper(valid)
						}
						s2 := substitute(r, "cashaddr", base, len(label)+1, 1+r.Intn(5))
						h := walk
						if len(h) > 4 {
							h = h[len(h)-4:]
						}
						rep.Count("cash-decodeaddress-subst", v.name+s2, true)
						rep.Histogram[fmt.Sprintf("cash weight %d", hamming(base, s2))]++
						if ok, p, msg := v.accept(s2); ok || p {
							rep.Violate("C03:cash:decodeaddress_accepts", fmt.Sprintf("%s accepts (or panics on) a string that differs from a valid %s-labelled address in %d payload characters", v.name, label, hamming(base, s2)),
								map[string]interface{}{"code": "cashaddr", "via": v.name, "history": append([]histItem(nil), h...), "valid": base, "corrupted": s2, "weight": hamming(base, s2), "panic": msg})
						}
						walk = append(walk, histItem{v.name, s2})
					}
					// history: the other label / another network completes or exits early in between
					otherLabel := labels[len(labels)-1-li]
					if otherLabel == label {
						otherLabel = "bitcoincash" // a network with a single label: take the body of another network
						if label == otherLabel {
							otherLabel = "bchtest"
						}
					}
					for _, m := range malformed(r, label, payload)[:4] {
						h := []histItem{{v.name, otherLabel + ":" + cashBody(otherLabel, payload, 0)}, {v.name, m}}
						replayHistory(h)
						expectAccept(v, h, valid, "decodeaddress-history")
						replayHistory(h)
						expectReject(v, h, label, otherLabel, payload, label+":"+cashBody(otherLabel, payload, 0), "decodeaddress-history")
					}
				}
			}
		}
	}
}

// exploitAnomalies: for every wrong coset seen accepted, look for a pattern of weight <= 5 from a valid
// string into that coset (syndromes of the implementation's own remainder function), re-establish
// the history and confirm on the real decoder.
func exploitAnomalies(rng *vh.RNG) {
	if len(anomalies) == 0 {
		return
	}
	r := rng.Fork("exploit-coset")
	deadline := time.Now().Add(time.Duration(cfg.Scale(240, 600)) * time.Second)
	done := 0
	confirmed := 0
	for _, a := range anomalies {
		if done >= 4 || time.Now().After(deadline) || confirmed >= 2 {
			break
		}
		done++
		n := len(a.payload) + 8
		label := strings.ToLower(a.label)
		t := syndromes("cashaddr", cashExpand(label), n)
		per := time.Now().Add(150 * time.Second)
		if per.After(deadline) {
			per = deadline
		}
		cands := mitm(t, []uint64{a.delta}, 5, 400, per)
		rep.Extra[fmt.Sprintf("coset_mitm_%s_%s_n%d_%x", a.v.name, label, n, a.delta)] = len(cands)
		// several valid strings: for DecodeAddress the corrupted string must still be a well-formed address
		for try := 0; try < 6 && confirmed < 2; try++ {
			payload := a.payload
			if try > 0 && len(a.payload) == 34 {
				payload = addrPayload(a.payload[0]<<3|a.payload[1]>>2, r.Bytes(20)) // same version byte, another hash
			} else if try > 0 {
				break
			}
			valid := label + ":" + cashBody(label, payload, 0)
			for _, p := range cands {
				s2 := applyPattern(valid, len(label)+1, p)
				if s2 == valid {
					continue
				}
				replayHistory(a.history)
				if ok, _, _ := a.v.accept(valid); !ok {
					// in this history the valid string itself is rejected: corrupt relative to it all the same
					replayHistory(a.history)
				}
				replayHistory(a.history)
				ok, pn, msg := a.v.accept(s2)
				if !ok && !pn {
					continue
				}
				key := "C03:cash:substitution_accepted"
				if a.v.net != nil {
					key = "C03:cash:decodeaddress_accepts"
				}
				rep.Violate(key, fmt.Sprintf("%s accepts a string that differs from a valid address in %d payload characters (after a history of %d earlier calls)", a.v.name, hamming(valid, s2), len(a.history)),
					map[string]interface{}{"code": "cashaddr", "via": a.v.name, "history": a.history, "valid": valid, "corrupted": s2, "weight": hamming(valid, s2), "panic": msg, "family": "coset-mitm", "coset_remainder": a.delta})
				confirmed++
				break
			}
		}
	}
}

// replayWithHistory re-evaluates a recorded violation that carries a history / a decoder name.
// Returns false when the replay file has neither (the ordinary replay applies).
func replayWithHistory(key string, in map[string]interface{}) bool {
	viaName, _ := in["via"].(string)
	rawH, hasH := in["history"].([]interface{})
	if viaName == "" && !hasH {
		return false
	}
	var h []histItem
	for _, x := range rawH {
		if m, ok := x.(map[string]interface{}); ok {
			vn, _ := m["via"].(string)
			s, _ := m["string"].(string)
			h = append(h, histItem{vn, s})
		}
	}
	v := viaByName(viaName)
	replayHistory(h)
	if strings.Contains(key, "valid_rejected") {
		s, _ := in["string"].(string)
		if ok, _, _ := v.accept(s); !ok {
			rep.Violate(key, v.name+" rejects a string with a correct checksum after the recorded history", in)
		}
		return true
	}
	corrupted, _ := in["corrupted"].(string)
	if ok, pn, _ := v.accept(corrupted); ok || pn {
		rep.Violate(key, v.name+" accepts the recorded corrupted string after the recorded history", in)
	}
	return true
}

func fatalf(format string, a ...interface{}) {
	fmt.Fprintf(os.Stderr, format+"\n", a...)
	os.Exit(3)
}

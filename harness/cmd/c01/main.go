// Command c01 checks property C01 on the implementation: every constructible
// address survives encode -> decode on its network in every rendering, the
// string is the one the CashAddr / Base58Check specifications prescribe, and
// the script-taking constructors hash correctly.  It also writes the
// correspondence cases the Coq model (Address/Address.v) is evaluated on.
package main

import (
	"bytes"
	"encoding/hex"
	"fmt"

	"github.com/gcash/bchutil"

	al "verif/harness/cmd/c01/addrlib"
	"verif/harness/cmd/c01/addrlib/codecenv"
	"verif/harness/cmd/c01/addrlib/envrun"
	"verif/harness/internal/vh"
)

var cfg vh.Config
var rep *vh.Report
var ctx *al.Ctx

type kindSpec struct {
	name    string
	ctor    int
	hashLen int
	slp     bool
	typ     byte // cashaddr type bits
	legacy  bool
}

var kinds = []kindSpec{
	{"PKH", al.CtorPKH, 20, false, 0, false},
	{"SLP-PKH", al.CtorSlpPKH, 20, true, 0, false},
	{"SH", al.CtorSH, 20, false, 1, false},
	{"SLP-SH", al.CtorSlpSH, 20, true, 1, false},
	{"SH32", al.CtorSH32, 32, false, 1, false},
	{"SLP-SH32", al.CtorSlpSH32, 32, true, 1, false},
	{"LegPKH", al.CtorLegPKH, 20, false, 0, true},
	{"LegSH", al.CtorLegSH, 20, false, 0, true},
}

// roundTrip decodes rendering s of address a (observed as want) on net and applies the property's predicate.
func roundTrip(k string, net int, a bchutil.Address, want al.Obs, rendering, s string, mustBeForNet bool, arg []byte) {
	_, got := al.Decode(s, net)
	rep.Count("decode:"+k+":"+rendering, fmt.Sprintf("%s/%d/%s", k, net, s), true)
	bad := ""
	switch {
	case got.Cls != 0:
		bad = "rejected: " + got.Err
	case got.Kind != want.Kind:
		bad = "decoded to kind " + al.KindNames[got.Kind]
	case !bytes.Equal(got.Payload, want.Payload):
		bad = "different script payload"
	case got.Enc != want.Enc || got.Str != want.Str:
		bad = "re-encodes to a different string"
	case mustBeForNet && !got.Nets[net]:
		bad = "IsForNet(net) is false"
	case fmt.Sprint(got.Nets) != fmt.Sprint(want.Nets):
		bad = "IsForNet differs from the constructed address"
	}
	if bad != "" {
		rep.Violate("C01:roundtrip:"+k, "DecodeAddress(render(encode(a))) != a: "+bad,
			map[string]interface{}{"kind": k, "net": al.Nets[net].Name, "constructor_arg": vh.Hex(arg), "rendering": rendering, "string": s,
				"constructed": want.JSON(), "decoded": got.JSON()})
	}
}

func doKind(r *vh.RNG, net int, ks kindSpec, h []byte, corrRenderings []string) {
	p := al.Nets[net].P
	if ks.slp && p.SlpAddressPrefix == "" {
		return
	}
	corr := len(corrRenderings) > 0
	var a bchutil.Address
	var o al.Obs
	if corr {
		a, o = ctx.NewCase(net, ks.ctor, h, "construct:"+ks.name)
	} else {
		var err error
		a, err, _ = al.Construct(ks.ctor, h, net)
		o = al.Observe(a, err)
	}
	rep.Count("construct:"+ks.name, fmt.Sprintf("%s/%d/%x", ks.name, net, h), true)
	if o.Cls != 0 {
		rep.Violate("C01:construct:"+ks.name, "constructor rejected a hash of the kind's length",
			map[string]interface{}{"kind": ks.name, "net": al.Nets[net].Name, "hash": vh.Hex(h), "observed": o.JSON()})
		return
	}
	if !bytes.Equal(o.Payload, h) {
		rep.Violate("C01:construct:payload", "ScriptAddress() differs from the hash given to the constructor",
			map[string]interface{}{"kind": ks.name, "net": al.Nets[net].Name, "hash": vh.Hex(h), "observed": o.JSON()})
	}
	// the string is the specification's
	var spec string
	prefix := p.CashAddressPrefix
	if ks.slp {
		prefix = p.SlpAddressPrefix
	}
	if ks.legacy {
		id := p.LegacyPubKeyHashAddrID
		if ks.ctor == al.CtorLegSH {
			id = p.LegacyScriptHashAddrID
		}
		spec = al.RefBase58Check(id, h)
	} else {
		spec = al.RefCashAddr(prefix, ks.typ, h)
	}
	if o.Enc != spec || o.Str != spec {
		rep.Violate("C01:spec:"+ks.name, "EncodeAddress()/String() differ from the specification's string",
			map[string]interface{}{"kind": ks.name, "net": al.Nets[net].Name, "hash": vh.Hex(h), "encode_address": o.Enc, "string": o.Str, "specification": spec})
	}
	mustNet := !ks.slp
	if mustNet && !o.Nets[net] {
		rep.Violate("C01:isfornet:"+ks.name, "constructed address does not report membership of its network",
			map[string]interface{}{"kind": ks.name, "net": al.Nets[net].Name, "hash": vh.Hex(h)})
	}
	if ks.legacy {
		roundTrip(ks.name, net, a, o, "exact", o.Enc, true, h)
		if corr {
			ctx.DecCase(net, o.Enc, "roundtrip:"+ks.name)
		}
		return
	}
	rs := al.Renderings(prefix, o.Enc)
	for _, rn := range al.RenderOrder {
		roundTrip(ks.name, net, a, o, rn, rs[rn], mustNet, h)
	}
	for _, rn := range corrRenderings {
		ctx.DecCase(net, rs[rn], "roundtrip:"+ks.name+":"+rn)
	}
}

func scripts(r *vh.RNG) {
	var ss [][]byte
	ss = append(ss, []byte{}, []byte{0x51}, bytes.Repeat([]byte{0}, 55), bytes.Repeat([]byte{0xff}, 56), bytes.Repeat([]byte{0xab}, 64))
	n := cfg.Scale(6, 40)
	for i := 0; i < n; i++ {
		ss = append(ss, r.Bytes(r.Intn(120)))
	}
	for i, s := range ss {
		net := i % len(al.Nets)
		for _, ctor := range []int{al.CtorSHScript, al.CtorSH32Script, al.CtorLegSHScript} {
			var o al.Obs
			if i < cfg.Scale(8, 30) {
				_, o = ctx.NewCase(net, ctor, s, "script")
			} else {
				a, err, _ := al.Construct(ctor, s, net)
				o = al.Observe(a, err)
			}
			rep.Count("script:"+al.CtorNames[ctor], fmt.Sprintf("s%d/%x", ctor, s), true)
			want := al.Hash160(s)
			if ctor == al.CtorSH32Script {
				want = al.Sha256d(s)
			}
			if o.Cls != 0 || !bytes.Equal(o.Payload, want) {
				rep.Violate("C01:script:"+al.CtorNames[ctor], "script constructor does not hash as RIPEMD160(SHA256(script)) / SHA256(SHA256(script))",
					map[string]interface{}{"constructor": al.CtorNames[ctor], "script": vh.Hex(s), "required_payload": vh.Hex(want), "observed": o.JSON()})
			}
			// and the result round-trips like any other address of its kind
			if o.Cls == 0 {
				_, got := al.Decode(o.Enc, net)
				if got.Cls != 0 || got.Kind != o.Kind || !bytes.Equal(got.Payload, o.Payload) || got.Enc != o.Enc {
					rep.Violate("C01:roundtrip:script", "address built from a script does not decode back",
						map[string]interface{}{"constructor": al.CtorNames[ctor], "script": vh.Hex(s), "net": al.Nets[net].Name, "string": o.Enc, "decoded": got.JSON()})
				}
			}
		}
	}
}

// scriptPairs: the script-taking constructors called back to back on two DIFFERENT scripts that agree in length,
// in their first and in their last bytes (e.g. two multisig redeem scripts with the same first and last key), in
// every order of constructors: each result must be the hash of the script it was given, not of the one before.
func scriptPairs(r *vh.RNG) {
	ctors := []int{al.CtorSHScript, al.CtorSH32Script, al.CtorLegSHScript}
	for i := 0; i < cfg.Scale(6, 30); i++ {
		n := []int{33, 40, 64, 71, 105, 200}[i%6]
		head := 1 + r.Intn(n/2)
		tail := 1 + r.Intn(n-head-1)
		if i%2 == 0 {
			head, tail = n/2-1, n-n/2 // differ in one byte only
			if head > 16 && tail > 16 && i%4 == 0 {
				head, tail = 16, 16
			}
		}
		a := r.Bytes(n)
		b := append([]byte(nil), a...)
		for j := head; j < n-tail; j++ {
			b[j] ^= byte(1 + r.Intn(255))
		}
		net := i % len(al.Nets)
		for _, c1 := range ctors {
			for _, c2 := range ctors {
				for _, pair := range [][2][]byte{{a, b}, {b, a}} {
					al.Construct(c1, pair[0], net)
					x, err, _ := al.Construct(c2, pair[1], (net+1)%len(al.Nets))
					o := al.Observe(x, err)
					rep.Count("script:pair", fmt.Sprintf("p%d/%d/%x/%x", c1, c2, pair[0], pair[1]), true)
					want := al.Hash160(pair[1])
					if c2 == al.CtorSH32Script {
						want = al.Sha256d(pair[1])
					}
					if o.Cls != 0 || !bytes.Equal(o.Payload, want) {
						rep.Violate("C01:script:"+al.CtorNames[c2], "script constructor does not hash as RIPEMD160(SHA256(script)) / SHA256(SHA256(script))",
							map[string]interface{}{"history": al.CtorNames[c1] + "(previous_script) and then " + al.CtorNames[c2] + "(script)", "previous_script": vh.Hex(pair[0]), "script": vh.Hex(pair[1]),
								"constructor": al.CtorNames[c2], "required_payload": vh.Hex(want), "observed": o.JSON()})
					}
				}
			}
		}
	}
}

type keyTriple struct {
	u, c, h []byte
	family  string
}

func pubkeys(r *vh.RNG) {
	var keys []keyTriple
	n := cfg.Scale(12, 80)
	for i := 0; i < n; i++ {
		u, c, h := al.RandomKey(r)
		keys = append(keys, keyTriple{u, c, h, "random"})
	}
	// coordinates with a leading zero byte (serialisations must keep the 32-byte padding)
	for i := 0; i < cfg.Scale(2, 6); i++ {
		if u, c, h := al.FindKey(r, 20000, func(u, c, h []byte) bool { return u[1] == 0 }); u != nil {
			keys = append(keys, keyTriple{u, c, h, "x-leading-zero"})
		}
		if u, c, h := al.FindKey(r, 20000, func(u, c, h []byte) bool { return u[33] == 0 }); u != nil {
			keys = append(keys, keyTriple{u, c, h, "y-leading-zero"})
		}
	}
	// compressed keys whose hex string is also a run of CashAddr symbols (no '1', no 'b'):
	// the CashAddr attempts then fail at the checksum, not at the character stage
	for i := 0; i < cfg.Scale(2, 6); i++ {
		if u, c, h := al.FindKey(r, 400000, func(u, c, h []byte) bool { return al.OverCashCharset(c) }); u != nil {
			keys = append(keys, keyTriple{u, c, h, "hex-over-cash-charset"})
		}
	}
	for i, k := range keys {
		net := i % len(al.Nets)
		for fi, ser := range [][]byte{k.u, k.c, k.h} {
			corr := i < cfg.Scale(6, 20) || (k.family != "random" && (fi == 1 || i%2 == 0))
			var o al.Obs
			if corr {
				_, o = ctx.NewCase(net, al.CtorPubKey, ser, "pubkey:"+k.family)
			} else {
				a, err, _ := al.Construct(al.CtorPubKey, ser, net)
				o = al.Observe(a, err)
			}
			rep.Count("pubkey:construct:"+k.family, fmt.Sprintf("k%x", ser), true)
			wantFmt := []int{0, 1, 2}[fi]
			hx := hex.EncodeToString(ser)
			if o.Cls != 0 || o.Fmt != wantFmt || !bytes.Equal(o.Payload, ser) || o.Str != hx {
				rep.Violate("C01:pubkey:construct", "NewAddressPubKey does not preserve the serialisation (format, ScriptAddress, String)",
					map[string]interface{}{"serialized": hx, "family": k.family, "net": al.Nets[net].Name, "observed": o.JSON()})
				continue
			}
			if want := al.RefBase58Check(al.Nets[net].P.LegacyPubKeyHashAddrID, al.Hash160(ser)); o.Enc != want {
				rep.Violate("C01:spec:PubKey", "EncodeAddress() of a public key is not Base58Check(pkh id, HASH160(serialisation))",
					map[string]interface{}{"serialized": hx, "family": k.family, "net": al.Nets[net].Name, "encode_address": o.Enc, "specification": want})
			}
			// the same string asked for on the next network right afterwards belongs to that one (a public key
			// carries no network of its own), and asking the first network again gives the first answer
			for _, s := range []string{hx, al.AsciiUpper(hx)} {
				other := (net + 1) % len(al.Nets)
				_, g1 := al.Decode(s, net)
				_, g2 := al.Decode(s, other)
				_, g3 := al.Decode(s, net)
				rep.Count("decode:PubKey:two-nets", "x"+s, true)
				if g1.Cls != 0 || g2.Cls != 0 || g3.Cls != 0 || !g1.Nets[net] || !g2.Nets[other] || !g3.Nets[net] || g1.Enc != g3.Enc ||
					g2.Enc != al.RefBase58Check(al.Nets[other].P.LegacyPubKeyHashAddrID, al.Hash160(ser)) {
					rep.Violate("C01:roundtrip:PubKey", "a public-key string decoded on two networks in turn does not report membership of the network asked for each time",
						map[string]interface{}{"serialized": hx, "family": k.family, "string": s, "first_net": al.Nets[net].Name, "second_net": al.Nets[other].Name,
							"first": g1.JSON(), "second": g2.JSON(), "first_again": g3.JSON()})
				}
			}
			for _, s := range []string{hx, al.AsciiUpper(hx)} {
				_, got := al.Decode(s, net)
				rep.Count("decode:PubKey:"+k.family, "d"+s, true)
				if corr {
					ctx.DecCase(net, s, "roundtrip:PubKey:"+k.family)
				}
				if got.Cls != 0 || got.Kind != 5 || got.Fmt != wantFmt || !bytes.Equal(got.Payload, ser) || got.Str != hx || got.Enc != o.Enc || !got.Nets[net] {
					rep.Violate("C01:roundtrip:PubKey", "DecodeAddress(String(pubkey address)) != the address",
						map[string]interface{}{"serialized": hx, "family": k.family, "string": s, "net": al.Nets[net].Name, "constructed": o.JSON(), "decoded": got.JSON()})
				}
			}
		}
	}
}

func workers(r *vh.RNG) {
	// the Coq SHA-256 against crypto/sha256 (Base58Check and HASH160 go through it)
	for _, n := range []int{0, 1, 55, 56, 64, 65} {
		ctx.ShaCase(r.Bytes(n))
	}
	for n := 0; n <= 40; n++ {
		if !cfg.Thorough() && n > 8 && n%4 != 1 && n != 20 && n != 32 {
			continue
		}
		d := r.Bytes(n)
		ctx.ConvCase(d, 8, 5, true)
		p5, _ := bchutil.VerifConvertBits(d, 8, 5, true)
		ctx.ConvCase(p5, 5, 8, false)
		rep.Count("convertBits", fmt.Sprintf("c%x", d), n > 0)
		// monitor: regrouping is inverted by the strict direction
		back, err := bchutil.VerifConvertBits(p5, 5, 8, false)
		if err != nil || !bytes.Equal(back, d) {
			rep.Violate("C01:bits:inverse", "convertBits(convertBits(d,8,5,pad),5,8,strict) != d", map[string]interface{}{"data": vh.Hex(d), "packed": vh.Hex(p5), "back": vh.Hex(back)})
		}
		if !bytes.Equal(p5, al.RefBits8to5(d, 0)) {
			rep.Violate("C01:bits:spec", "convertBits(d,8,5,pad) is not the zero-padded 5-bit regrouping", map[string]interface{}{"data": vh.Hex(d), "packed": vh.Hex(p5)})
		}
		// arbitrary 5-bit strings through the strict direction
		q := r.Bytes(r.Intn(60))
		for i := range q {
			q[i] &= 31
		}
		ctx.ConvCase(q, 5, 8, false)
	}
	for _, ft := range [][2]uint{{8, 8}, {5, 5}, {8, 4}, {4, 8}, {8, 3}, {3, 8}, {7, 5}, {1, 8}, {8, 1}} {
		d := r.Bytes(1 + r.Intn(12))
		for i := range d {
			d[i] &= byte(1<<ft[0] - 1)
		}
		ctx.ConvCase(d, ft[0], ft[1], true)
		ctx.ConvCase(d, ft[0], ft[1], false)
	}
	for _, t := range []int{0, 1, 2, 3} {
		for _, n := range []int{0, 16, 19, 20, 21, 22, 24, 28, 32, 40, 48, 52, 56, 60, 64, 65} {
			ctx.PackCase(t, r.Bytes(n))
		}
	}
	for i, pfx := range []string{"bitcoincash", "simpleledger", "bchtest", "slptest", "bchreg", "slpreg", "bchsim", "", "x", "PREF"} {
		ctx.ChkEncCase(r.Bytes(20), pfx, i%2)
		s := ctx.ChkEncCase(r.Bytes(32), pfx, 1)
		ctx.ChkDecCase(pfx + ":" + s)
		ctx.ChkEncCase(r.Bytes(24), pfx, 0)
		ctx.ChkEncCase(r.Bytes(21), pfx, 0) // packing error -> empty string
	}
}

// hookPurity: the unexported workers (through the verif hooks) on inputs of 0..300 bytes with spare capacity
// behind the slice, valid and invalid parameters: the whole backing array is compared afterwards, also when the
// call ends in an error (round 3: error paths that format or abbreviate their input in place).  The unexported
// convertBits has no range check of its own (its callers pass 8 and 5; toBits = 0 does not terminate), so only
// group sizes 1..8 are used here; the exported bech32.ConvertBits gets the invalid sizes (harness c07).
func hookPurity(r *vh.RNG) *codecenv.Mon {
	m := codecenv.New("C01")
	m.Phase = "hook functions"
	for _, n := range codecenv.Sizes(cfg.Thorough() || cfg.Search) {
		for gi, g := range [][2]uint{{8, 5}, {5, 8}, {8, 8}, {5, 5}, {8, 3}, {3, 8}, {1, 8}, {8, 1}, {7, 4}, {4, 6}} {
			for _, pad := range []bool{false, true} {
				for pat := 0; pat < 3; pat++ {
					d := r.Bytes(n)
					mask := byte(0xff)
					if g[0] >= 1 && g[0] < 8 {
						mask = byte(1)<<g[0] - 1
					}
					for i := range d {
						switch pat {
						case 0:
							d[i] &= mask
						case 1:
							d[i] = 0
						case 2:
							d[i] &= mask
						}
					}
					if n > 0 && pat == 1 {
						d[n-1] = 1 // only the very last bit set: a non-zero incomplete trailing group
					}
					if n > 0 && pat == 2 {
						d[n-1] = 0xff // out of range for fromBits < 8
					}
					m.Guarded("bchutil.convertBits", map[string]interface{}{"fromBits": g[0], "toBits": g[1], "pad": pad}, d, codecenv.Spares[(n+gi+pat)%4], func(in []byte) string {
						_, err := bchutil.VerifConvertBits(in, g[0], g[1], pad)
						return codecenv.ErrStr(err)
					})
				}
			}
		}
		for t := 0; t < 4; t++ {
			h := r.Bytes(n)
			sp := codecenv.Spares[(n+t)%4]
			m.Guarded("bchutil.packAddressData", map[string]interface{}{"type": t}, h, sp, func(in []byte) string {
				_, err := bchutil.VerifPackAddressData(bchutil.AddressType(t), in)
				return codecenv.ErrStr(err)
			})
			m.Guarded("bchutil.checkEncodeCashAddress", map[string]interface{}{"type": t, "prefix": "bitcoincash"}, h, sp, func(in []byte) string {
				return "string of " + fmt.Sprint(len(bchutil.VerifCheckEncodeCashAddress(in, "bitcoincash", bchutil.AddressType(t)))) + " characters"
			})
		}
		p := r.Bytes(n)
		for i := range p {
			p[i] &= 31
		}
		sp := codecenv.Spares[n%4]
		m.Guarded("bchutil.polyMod", nil, p, sp, func(in []byte) string { return fmt.Sprint(bchutil.VerifPolyMod(in)) })
		m.Guarded("bchutil.createChecksum", map[string]interface{}{"prefix": "bchtest"}, p, sp, func(in []byte) string { return vh.Hex(bchutil.VerifCreateChecksum("bchtest", in)) })
		m.Guarded("bchutil.verifyChecksum", map[string]interface{}{"prefix": "bchtest"}, p, sp, func(in []byte) string { return fmt.Sprint(bchutil.VerifVerifyChecksum("bchtest", in)) })
		// (the unexported encode(prefix, payload) is left out on purpose: it appends the checksum to its argument, i.e.
		// writes into spare capacity by construction; its only caller hands it a slice made by packAddressData)
	}
	return m
}

func main() {
	cfg = vh.ParseFlags("C01")
	rep = vh.NewReport(cfg)
	rep.Rule = "an execution counts as non-trivial when it constructs, encodes or decodes an address (or regroups a non-empty byte string); distinct by (kind, network, input)"
	ctx = &al.Ctx{Cfg: cfg, Rep: rep, Cases: vh.NewCases(cfg, "Run.Run_C01", 150)}
	root := vh.NewRNG(cfg.Seed)
	// environment monitors (round 3): tables, registered networks, purity on error paths; plain children
	env := envrun.Start(cfg, rep)
	env.Merge(hookPurity(root.Fork("hook-purity")))

	if cfg.Replay != "" {
		// the monitors are deterministic in the seed recorded in the replay file (bin/check passes it)
	}
	if !cfg.Search {
		workers(root.Fork("workers"))
	}

	// kinds x nets x hashes x renderings
	rk := root.Fork("kinds")
	nrand := cfg.Scale(6, 60)
	if cfg.Search {
		nrand = 300
	}
	ci := 0
	for net := range al.Nets {
		for _, ks := range kinds {
			hs := al.InterestingHashes(rk, ks.hashLen, nrand)
			if ks.legacy {
				// hashes solved for so that the Base58Check string has a run of zero digits ('1') in its interior
				// (whole 10-digit chunks that are zero, and runs straddling chunk boundaries)
				id := al.Nets[net].P.LegacyPubKeyHashAddrID
				if ks.ctor == al.CtorLegSH {
					id = al.Nets[net].P.LegacyScriptHashAddrID
				}
				for _, run := range [][2]int{{10, 20}, {20, 30}, {10, 30}, {9, 19}, {11, 21}, {6, 32}, {15, 25}} {
					if body := al.ZeroDigitRunBody(rk, id, 21, run[0], run[1]); body != nil {
						hs = append(hs, body[1:])
					}
				}
			}
			for hi, h := range hs {
				var corr []string
				if !cfg.Search {
					if hi < 8 { // boundary hashes: one rendering each, rotating; random ones: a sample
						corr = []string{al.RenderOrder[(ci+hi)%4]}
					} else if hi < 8+cfg.Scale(1, 4) {
						corr = al.RenderOrder
					}
				}
				doKind(rk, net, ks, h, corr)
			}
			ci++
		}
	}
	scripts(root.Fork("scripts"))
	scriptPairs(root.Fork("script-pairs"))
	pubkeys(root.Fork("pubkeys"))
	env.Finish()

	if !cfg.Search {
		_, err := ctx.Cases.Flush()
		vh.Must(err)
	}
	rep.Cases = ctx.Cases.Len()
	rep.Extra["duplicate_cases_dropped"] = ctx.Cases.Dups
	rep.Sample(map[string]string{"example": "mainnet P2PKH of 20 zero bytes", "string": al.RefCashAddr("bitcoincash", 0, make([]byte, 20))}, 4)
	vh.Must(rep.Write(cfg))
	fmt.Printf("C01 harness: %d executions, %d cases, %d violations\n", rep.Evaluations, rep.Cases, len(rep.Violations))
}

// Command codecplain is the plain child of the codec harness commands (c01, c02, c03, c06, c07): the
// hook-free environment monitors of package codecenv, compiled by addrlib/plainrun the way a user program is
// compiled - in a scratch module with a neutral path, WITHOUT the `verif` build tag, once per build
// configuration that selects a different set of files of the module (CGO_ENABLED=0, further tags named in the
// module's build constraints) - and with a generated file of blank imports of every package `go list` finds in
// the module under that configuration.  It prints one JSON object.
package main

import (
	"encoding/json"
	"flag"
	"fmt"
	"os"
	"runtime/debug"

	"verif/harness/cmd/c01/addrlib/codecenv"
)

type output struct {
	Config     string               `json:"configuration"`
	MainPath   string               `json:"main_path"`
	Settings   map[string]string    `json:"build_settings"`
	NetsSource string               `json:"nets_source"`
	Executions int                  `json:"executions"`
	Histogram  map[string]int       `json:"histogram"`
	Violations []codecenv.Violation `json:"violations"`
}

func main() {
	prop := flag.String("prop", "C01", "property")
	config := flag.String("config", "plain", "label of the build configuration")
	thorough := flag.Bool("thorough", false, "thorough tier")
	nets := flag.String("nets", "", "JSON file with the model's network specification")
	repo := flag.String("repo", "", "directory of the module's source (for the source-literal dictionary)")
	flag.Parse()
	spec := codecenv.Builtin()
	if *nets != "" {
		if b, err := os.ReadFile(*nets); err == nil {
			s := &codecenv.Spec{}
			if json.Unmarshal(b, s) == nil && len(s.Nets) == 6 {
				spec = s
			}
		}
	}
	m := codecenv.New(*prop)
	m.Phase = "plain build (" + *config + ")"
	m.Run(spec, *thorough, true)
	m.RunDict(codecenv.LoadDict(*repo), spec)
	o := output{Config: *config, NetsSource: spec.Source, Executions: m.Exec, Histogram: m.Hist, Violations: m.Out, Settings: map[string]string{}}
	if bi, ok := debug.ReadBuildInfo(); ok {
		o.MainPath = bi.Main.Path
		for _, s := range bi.Settings {
			switch s.Key {
			case "-tags", "CGO_ENABLED", "GOARCH", "GOOS":
				o.Settings[s.Key] = s.Value
			}
		}
	}
	b, err := json.Marshal(o)
	if err != nil {
		fmt.Fprintln(os.Stderr, err)
		os.Exit(2)
	}
	os.Stdout.Write(b)
}

// Package plainrun builds and runs addrlib/codecplain the way an ordinary user program is built: a scratch
// module with a neutral path, a neutral binary name, an environment without VERIF_* variables, NO `verif` tag -
// once for every build configuration that can select a different set of the module's files:
//
//	plain           no tags, CGO_ENABLED=1
//	plain-nocgo     no tags, CGO_ENABLED=0
//	tag:<t>         -tags <t> for every further tag named in a //go:build (or +build) line of the module
//	                (operating systems, architectures, `ignore`, compiler and release tags excluded)
//
// The harness commands themselves are `-tags verif` CGO_ENABLED=1 binaries, which is not the build that ships: a
// file constrained `!verif` or `!cgo` (an init function registering a network, say) is not in them.
// Every configuration also gets a generated file of blank imports of all packages `go list` reports for the
// module, so that packages added to the module later are linked as well.
package plainrun

import (
	"context"
	"encoding/json"
	"fmt"
	"os"
	"os/exec"
	"path/filepath"
	"regexp"
	"sort"
	"strings"
	"sync"
	"time"

	"verif/harness/cmd/c01/addrlib/codecenv"
)

type Output struct {
	Config     string               `json:"configuration"`
	MainPath   string               `json:"main_path"`
	Settings   map[string]string    `json:"build_settings"`
	NetsSource string               `json:"nets_source"`
	Executions int                  `json:"executions"`
	Histogram  map[string]int       `json:"histogram"`
	Violations []codecenv.Violation `json:"violations"`
	Linked     []string             `json:"linked_packages"`
	BuildSecs  float64              `json:"build_seconds"`
	RunSecs    float64              `json:"run_seconds"`
	Error      string               `json:"error,omitempty"`
}

type Config struct {
	Label string
	Tags  string
	Cgo   string
}

func harnessDir() (string, error) {
	var cands []string
	if wd, err := os.Getwd(); err == nil {
		cands = append(cands, wd)
	}
	if exe, err := os.Executable(); err == nil {
		cands = append(cands, filepath.Dir(filepath.Dir(exe)))
	}
	cands = append(cands, "/verif/harness")
	for _, d := range cands {
		if _, err := os.Stat(filepath.Join(d, "cmd", "c01", "addrlib", "codecplain", "main.go")); err == nil {
			return d, nil
		}
	}
	return "", fmt.Errorf("harness/cmd/c01/addrlib/codecplain not found from %v", cands)
}

var (
	modfileFlag = regexp.MustCompile(`-modfile=(\S+)`)
	replaceLine = regexp.MustCompile(`(?m)^replace\s+github\.com/gcash/bchutil\s+=>\s+(\S+)`)
	ident       = regexp.MustCompile(`[A-Za-z_][A-Za-z0-9_.]*`)
)

// tags that do not name a user-selectable configuration on this machine
var ignoredTags = map[string]bool{"ignore": true, "verif": true, "cgo": true, "gc": true, "gccgo": true, "unix": true, "race": true, "msan": true, "asan": true,
	"purego": false, "appengine": false,
	"aix": true, "android": true, "darwin": true, "dragonfly": true, "freebsd": true, "hurd": true, "illumos": true, "ios": true, "js": true, "linux": true, "nacl": true,
	"netbsd": true, "openbsd": true, "plan9": true, "solaris": true, "wasip1": true, "windows": true, "zos": true,
	"386": true, "amd64": true, "amd64p32": true, "arm": true, "armbe": true, "arm64": true, "arm64be": true, "loong64": true, "mips": true, "mipsle": true, "mips64": true,
	"mips64le": true, "mips64p32": true, "mips64p32le": true, "ppc": true, "ppc64": true, "ppc64le": true, "riscv": true, "riscv64": true, "s390": true, "s390x": true,
	"sparc": true, "sparc64": true, "wasm": true}

// ModuleTags scans the non-test Go files of the module for build-constraint lines and returns the custom tags.
func ModuleTags(repo string) []string {
	seen := map[string]bool{}
	filepath.Walk(repo, func(p string, fi os.FileInfo, err error) error {
		if err != nil {
			return nil
		}
		if fi.IsDir() {
			if n := fi.Name(); p != repo && (strings.HasPrefix(n, ".") || n == "testdata" || n == "vendor") {
				return filepath.SkipDir
			}
			return nil
		}
		if !strings.HasSuffix(p, ".go") || strings.HasSuffix(p, "_test.go") {
			return nil
		}
		b, err := os.ReadFile(p)
		if err != nil {
			return nil
		}
		for _, line := range strings.Split(string(b), "\n") {
			t := strings.TrimSpace(line)
			if strings.HasPrefix(t, "package ") {
				break
			}
			var expr string
			if strings.HasPrefix(t, "//go:build ") {
				expr = t[len("//go:build "):]
			} else if strings.HasPrefix(t, "// +build ") {
				expr = t[len("// +build "):]
			} else {
				continue
			}
			for _, id := range ident.FindAllString(expr, -1) {
				if !ignoredTags[id] && !regexp.MustCompile(`^go1\.\d+$`).MatchString(id) {
					seen[id] = true
				}
			}
		}
		return nil
	})
	var out []string
	for t := range seen {
		out = append(out, t)
	}
	sort.Strings(out)
	return out
}

func Configs(repo string) []Config {
	cs := []Config{{"plain", "", "1"}, {"plain-nocgo", "", "0"}}
	tags := ModuleTags(repo)
	for i, t := range tags {
		if i >= 3 {
			break
		}
		cs = append(cs, Config{"tag:" + t, t, "1"})
	}
	if len(tags) > 1 {
		cs = append(cs, Config{"tags:" + strings.Join(tags, ","), strings.Join(tags, ","), "1"})
	}
	return cs
}

// RepoDir: the directory the module github.com/gcash/bchutil is replaced by in the module file in force.
func RepoDir() string {
	hd, err := harnessDir()
	if err != nil {
		return "/repo"
	}
	modfile := filepath.Join(hd, "go.mod")
	if m := modfileFlag.FindStringSubmatch(os.Getenv("GOFLAGS")); m != nil {
		modfile = m[1]
	}
	if mod, err := os.ReadFile(modfile); err == nil {
		if m := replaceLine.FindSubmatch(mod); m != nil {
			return string(m[1])
		}
	}
	return "/repo"
}

// Run builds and runs every configuration (in parallel) under outDir/np_<label>.
func Run(outDir, prop string, thorough bool, spec *codecenv.Spec) ([]*Output, string, error) {
	hd, err := harnessDir()
	if err != nil {
		return nil, "", err
	}
	modfile := filepath.Join(hd, "go.mod")
	if m := modfileFlag.FindStringSubmatch(os.Getenv("GOFLAGS")); m != nil {
		modfile = m[1]
	}
	mod, err := os.ReadFile(modfile)
	if err != nil {
		return nil, "", err
	}
	sum, err := os.ReadFile(strings.TrimSuffix(modfile, ".mod") + ".sum")
	if err != nil {
		return nil, "", err
	}
	repo := "/repo"
	if m := replaceLine.FindSubmatch(mod); m != nil {
		repo = string(m[1])
	}
	src, e2 := os.ReadFile(filepath.Join(hd, "cmd", "c01", "addrlib", "codecplain", "main.go"))
	envFiles, e3 := filepath.Glob(filepath.Join(hd, "cmd", "c01", "addrlib", "codecenv", "*.go"))
	if e2 != nil || e3 != nil || len(envFiles) == 0 {
		return nil, repo, fmt.Errorf("reading the sources: %v %v", e2, e3)
	}
	envSrc := map[string][]byte{}
	for _, f := range envFiles {
		b, err := os.ReadFile(f)
		if err != nil {
			return nil, repo, err
		}
		envSrc["codecenv/"+filepath.Base(f)] = b
	}
	specJSON, _ := json.Marshal(spec)
	baseEnv := []string{"GOFLAGS=-mod=mod", "GOPROXY=off", "GOSUMDB=off", "GOTOOLCHAIN=local"}
	for _, kv := range os.Environ() {
		k := strings.SplitN(kv, "=", 2)[0]
		switch {
		case k == "GOFLAGS" || k == "GOPROXY" || k == "GOSUMDB" || k == "GOTOOLCHAIN" || k == "CGO_ENABLED" || strings.HasPrefix(k, "VERIF"):
		default:
			baseEnv = append(baseEnv, kv)
		}
	}
	cfgs := Configs(repo)
	outs := make([]*Output, len(cfgs))
	var wg sync.WaitGroup
	for i, c := range cfgs {
		wg.Add(1)
		go func(i int, c Config) {
			defer wg.Done()
			o := &Output{Config: c.Label}
			outs[i] = o
			fail := func(f string, a ...interface{}) { o.Error = fmt.Sprintf(f, a...) }
			dir := filepath.Join(outDir, "np_"+regexp.MustCompile(`[^A-Za-z0-9]+`).ReplaceAllString(c.Label, "_"))
			os.RemoveAll(dir)
			if err := os.MkdirAll(filepath.Join(dir, "codecenv"), 0o755); err != nil {
				fail("%v", err)
				return
			}
			files := map[string][]byte{
				"go.mod":    []byte(strings.Replace(string(mod), "module verif/harness", "module np", 1)),
				"go.sum":    sum,
				"main.go":   []byte(strings.Replace(string(src), `"verif/harness/cmd/c01/addrlib/codecenv"`, `"np/codecenv"`, 1)),
				"nets.json": specJSON,
			}
			for name, b := range envSrc {
				files[name] = b
			}
			for name, b := range files {
				if err := os.WriteFile(filepath.Join(dir, name), b, 0o644); err != nil {
					fail("%v", err)
					return
				}
			}
			env := append(append([]string(nil), baseEnv...), "CGO_ENABLED="+c.Cgo)
			ctx, cancel := context.WithTimeout(context.Background(), 8*time.Minute)
			defer cancel()
			t0 := time.Now()
			// every package of the module under this configuration
			args := []string{"list", "-e", "-f", "{{.ImportPath}}|{{.Name}}|{{len .GoFiles}}"}
			if c.Tags != "" {
				args = append(args, "-tags", c.Tags)
			}
			list := exec.CommandContext(ctx, "go", append(args, "github.com/gcash/bchutil/...")...)
			list.Dir, list.Env = dir, env
			lb, err := list.Output()
			if err != nil {
				fail("go list: %v", err)
				return
			}
			var imp strings.Builder
			imp.WriteString("// generated by addrlib/plainrun: every package of the module under this build configuration\npackage main\n\nimport (\n")
			for _, l := range strings.Split(strings.TrimSpace(string(lb)), "\n") {
				f := strings.Split(l, "|")
				if len(f) != 3 || f[1] == "main" || f[1] == "" || f[2] == "0" || strings.Contains(f[0], "/internal/") || strings.HasSuffix(f[0], "/testpb") {
					continue
				}
				o.Linked = append(o.Linked, strings.TrimPrefix(f[0], "github.com/gcash/"))
				fmt.Fprintf(&imp, "\t_ %q\n", f[0])
			}
			imp.WriteString(")\n")
			if err := os.WriteFile(filepath.Join(dir, "linkall_gen.go"), []byte(imp.String()), 0o644); err != nil {
				fail("%v", err)
				return
			}
			bargs := []string{"build", "-o", "node"}
			if c.Tags != "" {
				bargs = append(bargs, "-tags", c.Tags)
			}
			build := exec.CommandContext(ctx, "go", append(bargs, ".")...)
			build.Dir, build.Env = dir, env
			if b, err := build.CombinedOutput(); err != nil {
				fail("go build (%s) failed: %v\n%s", c.Label, err, b)
				return
			}
			o.BuildSecs = time.Since(t0).Seconds()
			t0 = time.Now()
			rargs := []string{"-prop", prop, "-config", c.Label, "-nets", "nets.json", "-repo", repo}
			if thorough {
				rargs = append(rargs, "-thorough")
			}
			run := exec.CommandContext(ctx, filepath.Join(dir, "node"), rargs...)
			run.Dir, run.Env = dir, env
			run.Stderr = os.Stderr
			b, err := run.Output()
			if err != nil {
				fail("running the plain program (%s): %v\n%s", c.Label, err, b)
				return
			}
			linked := o.Linked
			bs := o.BuildSecs
			if err := json.Unmarshal(b, o); err != nil {
				fail("output of the plain program: %v", err)
				return
			}
			o.Linked, o.BuildSecs, o.RunSecs = linked, bs, time.Since(t0).Seconds()
			os.Remove(filepath.Join(dir, "node"))
		}(i, c)
	}
	wg.Wait()
	return outs, repo, nil
}

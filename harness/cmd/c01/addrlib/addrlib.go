// Package addrlib holds what the C01 and C02 harness commands share: the six
// networks, projection of an Address to observables, oracle tables for the
// dependencies the Coq model does not compute (RIPEMD-160, secp256k1),
// reference implementations of the CashAddr / Base58Check specifications
// written independently of bchutil, and the correspondence case writers.
package addrlib

import (
	"bytes"
	"crypto/sha256"
	"encoding/hex"
	"fmt"
	"math/big"
	"strings"

	"github.com/gcash/bchd/bchec"
	"github.com/gcash/bchd/chaincfg"
	"github.com/gcash/bchutil"
	"golang.org/x/crypto/ripemd160"

	"verif/harness/internal/vh"
)

type Net struct {
	Name string
	P    *chaincfg.Params
}

// same order as Gen/Nets.v all_nets
var Nets = []Net{
	{"mainnet", &chaincfg.MainNetParams}, {"testnet3", &chaincfg.TestNet3Params}, {"testnet4", &chaincfg.TestNet4Params},
	{"chipnet", &chaincfg.ChipNetParams}, {"regtest", &chaincfg.RegressionNetParams}, {"simnet", &chaincfg.SimNetParams},
}

const Charset = "qpzry9x8gf2tvdw0s3jn54khce6mua7l"
const B58 = "123456789ABCDEFGHJKLMNPQRSTUVWXYZabcdefghijkmnopqrstuvwxyz"

// ---------- reference implementations (from the specifications) ----------
func Sha256d(b []byte) []byte {
	h := sha256.Sum256(b)
	h2 := sha256.Sum256(h[:])
	return h2[:]
}

func Ripemd(b []byte) []byte {
	h := ripemd160.New()
	h.Write(b)
	return h.Sum(nil)
}

func Hash160(b []byte) []byte {
	h := sha256.Sum256(b)
	return Ripemd(h[:])
}

// RefPolyMod is the cashaddr spec's PolyMod.
func RefPolyMod(v []byte) uint64 {
	c := uint64(1)
	gen := [5]uint64{0x98f2bc8e61, 0x79b76d99e2, 0xf33e5fb3c4, 0xae2eabe2a8, 0x1e4f43e470}
	for _, d := range v {
		c0 := c >> 35
		c = ((c & 0x07ffffffff) << 5) ^ uint64(d)
		for i := 0; i < 5; i++ {
			if (c0>>uint(i))&1 == 1 {
				c ^= gen[i]
			}
		}
	}
	return c ^ 1
}

// RefBits regroups the bit string of data (width from) into groups of width to,
// padding the last group with padBits (taken from the low bits of padVal), and
// optionally appending extra whole symbols.
func RefBits8to5(data []byte, padVal byte) []byte {
	var bits []byte
	for _, b := range data {
		for i := 7; i >= 0; i-- {
			bits = append(bits, (b>>uint(i))&1)
		}
	}
	npad := (5 - len(bits)%5) % 5
	for i := npad - 1; i >= 0; i-- {
		bits = append(bits, (padVal>>uint(i))&1)
	}
	out := make([]byte, 0, len(bits)/5)
	for i := 0; i < len(bits); i += 5 {
		var x byte
		for j := 0; j < 5; j++ {
			x = x<<1 | bits[i+j]
		}
		out = append(out, x)
	}
	return out
}

// PadBits is the number of padding bits an n-byte payload needs in 5-bit groups.
func PadBits(n int) int { return (5 - (8*n)%5) % 5 }

// RefCashString is the spec's encoding of a 5-bit payload under a prefix (without the prefix).
func RefCashString(prefix string, payload5 []byte) string {
	var v []byte
	for i := 0; i < len(prefix); i++ {
		v = append(v, prefix[i]&0x1f)
	}
	v = append(v, 0)
	v = append(v, payload5...)
	v = append(v, 0, 0, 0, 0, 0, 0, 0, 0)
	m := RefPolyMod(v)
	var sb strings.Builder
	for _, d := range payload5 {
		sb.WriteByte(Charset[d&31])
	}
	for i := 0; i < 8; i++ {
		sb.WriteByte(Charset[(m>>uint(5*(7-i)))&31])
	}
	return sb.String()
}

// RefCashAddr is the spec's address string for (prefix, type bits, hash).
func RefCashAddr(prefix string, typ byte, hash []byte) string {
	var size byte
	switch len(hash) {
	case 20:
		size = 0
	case 24:
		size = 1
	case 28:
		size = 2
	case 32:
		size = 3
	case 40:
		size = 4
	case 48:
		size = 5
	case 56:
		size = 6
	case 64:
		size = 7
	}
	ver := typ<<3 | size
	return RefCashString(prefix, RefBits8to5(append([]byte{ver}, hash...), 0))
}

func RefBase58(b []byte) string {
	x := new(big.Int).SetBytes(b)
	var out []byte
	r := new(big.Int)
	k := big.NewInt(58)
	for x.Sign() > 0 {
		x.DivMod(x, k, r)
		out = append(out, B58[r.Int64()])
	}
	for _, c := range b {
		if c != 0 {
			break
		}
		out = append(out, '1')
	}
	for i, j := 0, len(out)-1; i < j; i, j = i+1, j-1 {
		out[i], out[j] = out[j], out[i]
	}
	return string(out)
}

func RefBase58Check(ver byte, payload []byte) string {
	b := append([]byte{ver}, payload...)
	b = append(b, Sha256d(b)[:4]...)
	return RefBase58(b)
}

// AsciiLower / AsciiUpper change ASCII letters only.
func AsciiLower(s string) string {
	b := []byte(s)
	for i, c := range b {
		if c >= 'A' && c <= 'Z' {
			b[i] = c + 32
		}
	}
	return string(b)
}
func AsciiUpper(s string) string {
	b := []byte(s)
	for i, c := range b {
		if c >= 'a' && c <= 'z' {
			b[i] = c - 32
		}
	}
	return string(b)
}

// ---------- observables ----------
type Obs struct {
	Cls     int // 0 ok, 1 other, 2 unknown type, 7 checksum, 8 unknown format, 9 collision, 99 panic
	Kind    int
	Payload []byte
	Enc     string
	Str     string
	Fmt     int
	Nets    []bool
	Err     string // not compared; for replay files only
}

func ErrClass(err error) int {
	switch err {
	case nil:
		return 0
	case bchutil.ErrUnknownAddressType:
		return 2
	case bchutil.ErrChecksumMismatch:
		return 7
	case bchutil.ErrUnknownFormat:
		return 8
	case bchutil.ErrAddressCollision:
		return 9
	}
	return 1
}

func KindOf(a bchutil.Address) int {
	switch a.(type) {
	case *bchutil.AddressPubKeyHash:
		return 0
	case *bchutil.AddressScriptHash:
		return 1
	case *bchutil.AddressScriptHash32:
		return 2
	case *bchutil.LegacyAddressPubKeyHash:
		return 3
	case *bchutil.LegacyAddressScriptHash:
		return 4
	case *bchutil.AddressPubKey:
		return 5
	}
	return -1
}

var KindNames = []string{"PKH", "SH", "SH32", "LegPKH", "LegSH", "PubKey"}

func isNil(a bchutil.Address) bool {
	if a == nil {
		return true
	}
	switch v := a.(type) {
	case *bchutil.AddressPubKeyHash:
		return v == nil
	case *bchutil.AddressScriptHash:
		return v == nil
	case *bchutil.AddressScriptHash32:
		return v == nil
	case *bchutil.LegacyAddressPubKeyHash:
		return v == nil
	case *bchutil.LegacyAddressScriptHash:
		return v == nil
	case *bchutil.AddressPubKey:
		return v == nil
	}
	return false
}

// Observe projects (address, error) to the observables the properties speak about.
func Observe(a bchutil.Address, err error) (o Obs) {
	o.Cls = ErrClass(err)
	if err != nil {
		o.Err = err.Error()
		return
	}
	if isNil(a) {
		o.Cls = 1
		o.Err = "nil address without error"
		return
	}
	if p, msg := vh.Catch(func() {
		o.Kind = KindOf(a)
		o.Payload = append([]byte(nil), a.ScriptAddress()...)
		o.Enc = a.EncodeAddress()
		o.Str = a.String()
		if pk, ok := a.(*bchutil.AddressPubKey); ok {
			o.Fmt = int(pk.Format())
		}
		for _, n := range Nets {
			o.Nets = append(o.Nets, a.IsForNet(n.P))
		}
	}); p {
		o.Cls = 99
		o.Err = "panic: " + msg
	}
	return
}

// Decode runs DecodeAddress and projects the result.
func Decode(s string, net int) (a bchutil.Address, o Obs) {
	var err error
	if p, msg := vh.Catch(func() { a, err = bchutil.DecodeAddress(s, Nets[net].P) }); p {
		return nil, Obs{Cls: 99, Err: "panic: " + msg}
	}
	return a, Observe(a, err)
}

func (o Obs) Coq() string {
	nets := make([]string, len(o.Nets))
	for i, b := range o.Nets {
		nets[i] = vh.CoqBool(b)
	}
	return fmt.Sprintf("{| o_cls := %d; o_kind := %d; o_payload := %s; o_enc := %s; o_str := %s; o_fmt := %d; o_nets := %s |}",
		o.Cls, o.Kind, vh.CoqBytes(o.Payload), vh.CoqStr(o.Enc), vh.CoqStr(o.Str), o.Fmt, vh.CoqList(nets))
}

func (o Obs) JSON() map[string]interface{} {
	m := map[string]interface{}{"class": o.Cls}
	if o.Cls == 0 {
		m["kind"] = KindNames[o.Kind]
		m["payload"] = vh.Hex(o.Payload)
		m["encode_address"] = o.Enc
		m["string"] = o.Str
		m["is_for_net"] = o.Nets
	} else {
		m["error"] = o.Err
	}
	return m
}

// ---------- oracle tables ----------
type Oracle struct {
	rip  [][2][]byte
	ec   []ecEntry
	seen map[string]bool
}
type ecEntry struct {
	in      []byte
	ok      bool
	u, c, h []byte
}

func NewOracle() *Oracle { return &Oracle{seen: map[string]bool{}} }

// Hash160Of records RIPEMD-160 of SHA-256(b) (the model computes the SHA-256 itself).
func (o *Oracle) Hash160Of(b []byte) {
	h := sha256.Sum256(b)
	k := "r" + string(h[:])
	if o.seen[k] {
		return
	}
	o.seen[k] = true
	o.rip = append(o.rip, [2][]byte{h[:], Ripemd(h[:])})
}

// PubKey records bchec.ParsePubKey(ser) and, when it parses, the three serialisations and
// the RIPEMD-160 entries EncodeAddress needs for each of them.
func (o *Oracle) PubKey(ser []byte) {
	k := "e" + string(ser)
	if o.seen[k] {
		return
	}
	o.seen[k] = true
	var pk *bchec.PublicKey
	var err error
	if p, _ := vh.Catch(func() { pk, err = bchec.ParsePubKey(ser, bchec.S256()) }); p || err != nil || pk == nil {
		o.ec = append(o.ec, ecEntry{in: ser})
		return
	}
	e := ecEntry{in: ser, ok: true, u: pk.SerializeUncompressed(), c: pk.SerializeCompressed(), h: pk.SerializeHybrid()}
	o.ec = append(o.ec, e)
	o.Hash160Of(e.u)
	o.Hash160Of(e.c)
	o.Hash160Of(e.h)
}

func (o *Oracle) Coq() string {
	rs := make([]string, len(o.rip))
	for i, r := range o.rip {
		rs[i] = "(" + vh.CoqBytes(r[0]) + ", " + vh.CoqBytes(r[1]) + ")"
	}
	es := make([]string, len(o.ec))
	for i, e := range o.ec {
		if e.ok {
			es[i] = fmt.Sprintf("(%s, Some (%s, %s, %s))", vh.CoqBytes(e.in), vh.CoqBytes(e.u), vh.CoqBytes(e.c), vh.CoqBytes(e.h))
		} else {
			es[i] = fmt.Sprintf("(%s, None)", vh.CoqBytes(e.in))
		}
	}
	return "{| o_ripemd := " + vh.CoqList(rs) + "; o_ec := " + vh.CoqList(es) + " |}"
}

// ---------- correspondence cases ----------
type Ctx struct {
	Cfg   vh.Config
	Rep   *vh.Report
	Cases *vh.Cases
}

// DecCase writes a DecodeAddress correspondence case for (net, s) and returns what was observed.
func (c *Ctx) DecCase(net int, s string, family string) Obs {
	_, o := Decode(s, net)
	or := NewOracle()
	if len(s) == 130 || len(s) == 66 {
		if ser, err := hex.DecodeString(s); err == nil {
			or.PubKey(ser)
		}
	}
	c.Cases.Add(fmt.Sprintf("Dec %s %d %s %s", or.Coq(), net, vh.CoqStr(s), o.Coq()),
		map[string]interface{}{"op": "DecodeAddress", "family": family, "net": Nets[net].Name, "string": s, "string_hex": vh.Hex([]byte(s)), "impl": o.JSON()})
	return o
}

// Constructor numbers shared with Address/RunCommon.v [construct].
const (
	CtorPKH = iota
	CtorSlpPKH
	CtorSH
	CtorSlpSH
	CtorSH32
	CtorSlpSH32
	CtorLegPKH
	CtorLegSH
	CtorSHScript
	CtorSH32Script
	CtorLegSHScript
	CtorPubKey
)

var CtorNames = []string{"NewAddressPubKeyHash", "NewSlpAddressPubKeyHash", "NewAddressScriptHashFromHash", "NewSlpAddressScriptHashFromHash",
	"NewAddressScriptHash32FromHash", "NewSlpAddressScriptHash32FromHash", "NewLegacyAddressPubKeyHash", "NewLegacyAddressScriptHashFromHash",
	"NewAddressScriptHash", "NewAddressScriptHash32", "NewLegacyAddressScriptHash", "NewAddressPubKey"}

// Construct calls the numbered constructor.
func Construct(ctor int, arg []byte, net int) (a bchutil.Address, err error, panicked string) {
	p := Nets[net].P
	wrap := func(x bchutil.Address, e error) { a, err = x, e }
	if pn, msg := vh.Catch(func() {
		switch ctor {
		case CtorPKH:
			x, e := bchutil.NewAddressPubKeyHash(arg, p)
			wrap(x, e)
		case CtorSlpPKH:
			x, e := bchutil.NewSlpAddressPubKeyHash(arg, p)
			wrap(x, e)
		case CtorSH:
			x, e := bchutil.NewAddressScriptHashFromHash(arg, p)
			wrap(x, e)
		case CtorSlpSH:
			x, e := bchutil.NewSlpAddressScriptHashFromHash(arg, p)
			wrap(x, e)
		case CtorSH32:
			x, e := bchutil.NewAddressScriptHash32FromHash(arg, p)
			wrap(x, e)
		case CtorSlpSH32:
			x, e := bchutil.NewSlpAddressScriptHash32FromHash(arg, p)
			wrap(x, e)
		case CtorLegPKH:
			x, e := bchutil.NewLegacyAddressPubKeyHash(arg, p)
			wrap(x, e)
		case CtorLegSH:
			x, e := bchutil.NewLegacyAddressScriptHashFromHash(arg, p)
			wrap(x, e)
		case CtorSHScript:
			x, e := bchutil.NewAddressScriptHash(arg, p)
			wrap(x, e)
		case CtorSH32Script:
			x, e := bchutil.NewAddressScriptHash32(arg, p)
			wrap(x, e)
		case CtorLegSHScript:
			x, e := bchutil.NewLegacyAddressScriptHash(arg, p)
			wrap(x, e)
		default:
			x, e := bchutil.NewAddressPubKey(arg, p)
			wrap(x, e)
		}
	}); pn {
		panicked = msg
	}
	return
}

// NewCase writes a constructor correspondence case.
func (c *Ctx) NewCase(net, ctor int, arg []byte, family string) (bchutil.Address, Obs) {
	a, err, pmsg := Construct(ctor, arg, net)
	var o Obs
	if pmsg != "" {
		o = Obs{Cls: 99, Err: "panic: " + pmsg}
	} else {
		o = Observe(a, err)
	}
	or := NewOracle()
	switch ctor {
	case CtorSHScript, CtorLegSHScript:
		or.Hash160Of(arg)
	case CtorPubKey:
		or.PubKey(arg)
	}
	c.Cases.Add(fmt.Sprintf("New %s %d %d %s %s", or.Coq(), net, ctor, vh.CoqBytes(arg), o.Coq()),
		map[string]interface{}{"op": CtorNames[ctor], "family": family, "net": Nets[net].Name, "arg": vh.Hex(arg), "impl": o.JSON()})
	return a, o
}

// worker-level cases
func (c *Ctx) ConvCase(data []byte, from, to uint, pad bool) {
	out, err := bchutil.VerifConvertBits(data, from, to, pad)
	if err != nil {
		out = nil
	}
	c.Cases.Add(fmt.Sprintf("Conv %s %d %d %s %s %s", vh.CoqBytes(data), from, to, vh.CoqBool(pad), vh.CoqBool(err == nil), vh.CoqBytes(out)),
		map[string]interface{}{"op": "convertBits", "data": vh.Hex(data), "from": from, "to": to, "pad": pad, "impl_ok": err == nil, "impl": vh.Hex(out)})
}

func (c *Ctx) PackCase(t int, h []byte) {
	out, err := bchutil.VerifPackAddressData(bchutil.AddressType(t), h)
	if err != nil {
		out = nil
	}
	c.Cases.Add(fmt.Sprintf("Pack %d %s %s %s", t, vh.CoqBytes(h), vh.CoqBool(err == nil), vh.CoqBytes(out)),
		map[string]interface{}{"op": "packAddressData", "type": t, "hash": vh.Hex(h), "impl_ok": err == nil, "impl": vh.Hex(out)})
}

func (c *Ctx) ChkEncCase(input []byte, prefix string, t int) string {
	s := bchutil.VerifCheckEncodeCashAddress(input, prefix, bchutil.AddressType(t))
	c.Cases.Add(fmt.Sprintf("ChkEnc %s %s %d %s", vh.CoqBytes(input), vh.CoqStr(prefix), t, vh.CoqStr(s)),
		map[string]interface{}{"op": "checkEncodeCashAddress", "input": vh.Hex(input), "prefix": prefix, "type": t, "impl": s})
	return s
}

func (c *Ctx) ChkDecCase(input string) {
	var res []byte
	var prefix string
	var t bchutil.AddressType
	var err error
	cls := 0
	if p, _ := vh.Catch(func() { res, prefix, t, err = bchutil.VerifCheckDecodeCashAddress(input) }); p {
		cls = 99
		res, prefix, t = nil, "", 0
	} else if err == bchutil.ErrChecksumMismatch {
		cls = 8
	} else if err == bchutil.ErrUnknownAddressType {
		cls = 22
	} else if err != nil {
		cls = 1
	}
	if cls != 0 {
		res, t = nil, 0
	}
	c.Cases.Add(fmt.Sprintf("ChkDec %s %d %s %s %d", vh.CoqStr(input), cls, vh.CoqStr(prefix), vh.CoqBytes(res), int(t)),
		map[string]interface{}{"op": "checkDecodeCashAddress", "input": input, "impl_class": cls, "impl_prefix": prefix, "impl_hash": vh.Hex(res), "impl_type": int(t)})
}

func (c *Ctx) ShaCase(msg []byte) {
	h := sha256.Sum256(msg)
	c.Cases.Add(fmt.Sprintf("Sha %s %s", vh.CoqBytes(msg), vh.CoqBytes(h[:])), map[string]interface{}{"op": "sha256", "msg": vh.Hex(msg)})
}

// ---------- generators ----------
// Renderings of a cash-format address string s (as EncodeAddress returns it, without prefix).
func Renderings(prefix, s string) map[string]string {
	return map[string]string{
		"bare-lower":   s,
		"bare-upper":   AsciiUpper(s),
		"prefix-lower": prefix + ":" + s,
		"prefix-upper": AsciiUpper(prefix + ":" + s),
	}
}

var RenderOrder = []string{"bare-lower", "bare-upper", "prefix-lower", "prefix-upper"}

// Normalise strips one optional case-insensitive "<prefix>:" of the net (cash or SLP) and
// lower-cases ASCII letters: the only documented normalisations of a cash-format string.
func Normalise(s string, net int) string {
	l := AsciiLower(s)
	for _, p := range []string{Nets[net].P.CashAddressPrefix, Nets[net].P.SlpAddressPrefix} {
		if p != "" && strings.HasPrefix(l, p+":") {
			return l[len(p)+1:]
		}
	}
	return l
}

// InterestingHashes returns boundary hashes of length n plus k random ones.
func InterestingHashes(r *vh.RNG, n, k int) [][]byte {
	var hs [][]byte
	hs = append(hs, make([]byte, n), bytes.Repeat([]byte{0xff}, n))
	lead := r.Bytes(n)
	lead[0], lead[1], lead[2] = 0, 0, 0
	hs = append(hs, lead)
	trail := r.Bytes(n)
	trail[n-1], trail[n-2] = 0, 0
	hs = append(hs, trail)
	for b := 0; b < 4; b++ { // every value of the last two bits (they sit next to the padding)
		h := r.Bytes(n)
		h[n-1] = h[n-1]&^3 | byte(b)
		hs = append(hs, h)
	}
	for i := 0; i < k; i++ {
		hs = append(hs, r.Bytes(n))
	}
	return hs
}

// RandomKey returns the three serialisations of a random valid public key.
func RandomKey(r *vh.RNG) (u, c, h []byte) {
	for {
		d := r.Bytes(32)
		if new(big.Int).SetBytes(d).Sign() == 0 {
			continue
		}
		_, pub := bchec.PrivKeyFromBytes(bchec.S256(), d)
		if pub == nil || pub.X == nil {
			continue
		}
		return pub.SerializeUncompressed(), pub.SerializeCompressed(), pub.SerializeHybrid()
	}
}

// FindKey draws random keys until pred holds (nil when maxTries is exhausted).
func FindKey(r *vh.RNG, maxTries int, pred func(u, c, h []byte) bool) (u, c, h []byte) {
	for i := 0; i < maxTries; i++ {
		u, c, h = RandomKey(r)
		if pred(u, c, h) {
			return
		}
	}
	return nil, nil, nil
}

// OverCashCharset reports whether every character of the hex form of b is also a CashAddr
// charset character (no '1', no 'b'): such a string passes the CashAddr character stage.
func OverCashCharset(b []byte) bool {
	for _, x := range b {
		if hi, lo := x>>4, x&15; hi == 1 || hi == 11 || lo == 1 || lo == 11 {
			return false
		}
	}
	return true
}

// ---------- constructed Base58Check bodies (round 2 of the review) ----------

// ZeroDigitRunBody returns a body of n bytes that starts with `first`, such that the base58 digits lo..hi-1
// (counted from the least significant one) of body||sha256d(body)[:4] are all zero, i.e. the Base58Check string
// has a run of hi-lo '1' characters in its interior.  Random values practically never have such a run (58^-(hi-lo)),
// boundary values (zeros, ones, powers of two) never: the body is solved for.  With x = P*2^32 + c (c the checksum),
// x mod 58^hi = (P*2^32 mod 58^hi) + c, and P*2^32 = 2^g*u (mod 58^hi) with g = min(32,hi) has the solutions
// P*2^(32-g) = u (mod 58^hi/2^g); any u < (58^lo - 2^32)/2^g gives x mod 58^hi < 58^lo.  nil when impossible.
func ZeroDigitRunBody(r *vh.RNG, first byte, n, lo, hi int) []byte {
	if lo < 6 || hi <= lo || n < 2 {
		return nil
	}
	pow := func(b int64, e int) *big.Int { return new(big.Int).Exp(big.NewInt(b), big.NewInt(int64(e)), nil) }
	g := hi
	if g > 32 {
		g = 32
	}
	two := func(e int) *big.Int { return new(big.Int).Lsh(big.NewInt(1), uint(e)) }
	M := new(big.Int).Div(pow(58, hi), two(g))
	ulim := new(big.Int).Div(new(big.Int).Sub(pow(58, lo), two(32)), two(g))
	if ulim.Sign() <= 0 {
		return nil
	}
	u := new(big.Int).Mod(new(big.Int).SetBytes(r.Bytes(40)), ulim)
	P := new(big.Int).Set(u)
	if g < 32 {
		inv := new(big.Int).ModInverse(two(32-g), M)
		if inv == nil {
			return nil
		}
		P.Mul(P, inv).Mod(P, M)
	}
	// P = first*2^(8(n-1)) + F (mod M): F = P - first*2^(8(n-1)) + k*M with F < 2^(8(n-1))
	top := new(big.Int).Mul(big.NewInt(int64(first)), two(8*(n-1)))
	F := new(big.Int).Sub(P, top)
	F.Mod(F, M)
	room := new(big.Int).Div(new(big.Int).Sub(two(8*(n-1)), F), M) // number of admissible k
	if two(8*(n-1)).Cmp(F) <= 0 {
		return nil
	}
	if room.Sign() > 0 {
		k := new(big.Int).Mod(new(big.Int).SetBytes(r.Bytes(40)), room)
		F.Add(F, k.Mul(k, M))
	}
	body := make([]byte, n)
	body[0] = first
	F.FillBytes(body[1:])
	// verify against the digit string
	s := RefBase58(append(append([]byte(nil), body...), Sha256d(body)[:4]...))
	if len(s) < hi+1 {
		return nil
	}
	for d := lo; d < hi; d++ {
		if s[len(s)-1-d] != '1' {
			return nil
		}
	}
	return body
}

// RuneAliases returns s with the character at position pos replaced by the UTF-8 encoding of code points whose
// low eight bits equal that character (U+0100+c, U+0200+c, U+0700+c, U+2100+c, U+10000+c): a decoder that walks
// the string by code point and narrows to a byte reads them as the original character.
func RuneAliases(s string, pos int) []string {
	c := rune(s[pos])
	var out []string
	for _, hi := range []rune{0x100, 0x200, 0x300, 0x700, 0x2100, 0xff00, 0x10000} {
		out = append(out, s[:pos]+string(hi+c)+s[pos+1:])
	}
	return out
}

// RefBase58Decode is base58 decoding by the table semantics on bytes (independent of the implementation):
// any byte outside the alphabet gives the empty result; leading '1' characters become zero bytes.
func RefBase58Decode(s string) []byte {
	x := new(big.Int)
	k := big.NewInt(58)
	for i := 0; i < len(s); i++ {
		d := strings.IndexByte(B58, s[i])
		if d < 0 {
			return []byte{}
		}
		x.Mul(x, k).Add(x, big.NewInt(int64(d)))
	}
	nz := 0
	for nz < len(s) && s[nz] == '1' {
		nz++
	}
	return append(make([]byte, nz), x.Bytes()...)
}

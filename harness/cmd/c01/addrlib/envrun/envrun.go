// Package envrun wires the environment monitors of package codecenv into a codec harness command:
//
//	env := envrun.Start(cfg, rep)   // tables / registry at the START of the run; plain children start building
//	... the command's own families ...
//	env.Finish()                    // the same tables again at the END; results of the plain children merged
//
// Monitor keys are `<Cxx>:env:...` and `<Cxx>:purity:...`; a finding made only by a plain child carries
// `plain_build: true` and the build configuration in its replay.
package envrun

import (
	"encoding/json"
	"fmt"
	"os"
	"path/filepath"
	"strings"

	"verif/harness/cmd/c01/addrlib/codecenv"
	"verif/harness/cmd/c01/addrlib/plainrun"
	"verif/harness/internal/vh"
)

type Env struct {
	cfg   vh.Config
	rep   *vh.Report
	Spec  *codecenv.Spec
	plain chan plainResult
}

type plainResult struct {
	outs []*plainrun.Output
	repo string
	err  error
}

func (e *Env) merge(m *codecenv.Mon, extra map[string]interface{}) {
	for k, n := range m.Hist {
		for i := 0; i < n; i++ {
			e.rep.Count(k, "", false)
		}
	}
	for _, v := range m.Out {
		for k, x := range extra {
			v.Replay[k] = x
		}
		e.rep.Violate(v.Key, v.What, v.Replay)
	}
}

// Merge adds the findings of further monitors a command ran itself on a codecenv.Mon (hook functions).
func (e *Env) Merge(m *codecenv.Mon) { e.merge(m, nil) }

// Start runs the start-of-run monitors (with the purity sweeps) and starts the plain children in the background.
func Start(cfg vh.Config, rep *vh.Report) *Env {
	e := &Env{cfg: cfg, rep: rep, plain: make(chan plainResult, 1)}
	wd, _ := os.Getwd()
	exe, _ := os.Executable()
	e.Spec = codecenv.LoadGenNets(filepath.Join(wd, "..", "coq", "theories", "Gen", "Nets.v"),
		filepath.Join(filepath.Dir(filepath.Dir(filepath.Dir(exe))), "coq", "theories", "Gen", "Nets.v"))
	rep.Extra["env_linked_packages"] = codecenv.LinkedPackages
	rep.Extra["env_nets_source"] = e.Spec.Source
	go func() {
		outs, repo, err := plainrun.Run(cfg.Out, cfg.Prop, cfg.Thorough() || cfg.Search, e.Spec)
		e.plain <- plainResult{outs, repo, err}
	}()
	m := codecenv.New(cfg.Prop)
	m.Phase = "start of the run"
	m.Run(e.Spec, cfg.Thorough() || cfg.Search, true)
	// inputs built from the constants and string literals of the module's source ("magic values")
	d := codecenv.LoadDict(plainrun.RepoDir())
	if d != nil {
		rep.Extra["env_dictionary"] = map[string]interface{}{"repo": d.Repo, "files": d.Files, "strings": len(d.Strings), "byte_entries": len(d.Bytes)}
	}
	m.RunDict(d, e.Spec)
	e.merge(m, nil)
	return e
}

// Finish re-reads the tables and the registry after everything else has run and merges the plain children.
func (e *Env) Finish() {
	m := codecenv.New(e.cfg.Prop)
	m.Phase = "end of the run"
	m.Run(e.Spec, false, false)
	e.merge(m, nil)
	pr := <-e.plain
	if pr.err != nil {
		fmt.Fprintln(os.Stderr, "plain children:", pr.err)
		e.rep.Extra["plain_children_error"] = pr.err.Error()
		return
	}
	var summary []map[string]interface{}
	for _, o := range pr.outs {
		s := map[string]interface{}{"configuration": o.Config, "build_settings": o.Settings, "main_path": o.MainPath, "executions": o.Executions,
			"violations": len(o.Violations), "linked_packages": o.Linked, "build_seconds": o.BuildSecs, "run_seconds": o.RunSecs}
		if o.Error != "" {
			s["error"] = o.Error
			fmt.Fprintln(os.Stderr, "plain child", o.Config+":", o.Error)
		}
		summary = append(summary, s)
		for k, n := range o.Histogram {
			for i := 0; i < n; i++ {
				e.rep.Count("plain:"+k, "", false)
			}
		}
		for _, v := range o.Violations {
			v.Replay["plain_build"] = true
			v.Replay["build_configuration"] = o.Config
			v.Replay["build_settings"] = o.Settings
			v.Replay["how_to_reproduce"] = "build harness/cmd/c01/addrlib/codecplain against the repository without -tags verif, configuration " + o.Config + " (see addrlib/plainrun), and run it with -prop " + e.cfg.Prop
			e.rep.Violate(v.Key, v.What, v.Replay)
		}
	}
	e.rep.Extra["plain_children"] = summary
	e.rep.Extra["plain_children_repo"] = pr.repo
}

// Replay: when the replay file names one of the environment keys, the environment monitors are run again (they
// are deterministic and take no input but the program itself); reports whether it did so.
func Replay(cfg vh.Config, rep *vh.Report) bool {
	raw, err := os.ReadFile(cfg.Replay)
	if err != nil {
		return false
	}
	var rp struct {
		Key string `json:"key"`
	}
	if json.Unmarshal(raw, &rp) != nil || !(strings.Contains(rp.Key, ":env:") || strings.Contains(rp.Key, ":purity:")) {
		return false
	}
	Start(cfg, rep).Finish()
	return true
}

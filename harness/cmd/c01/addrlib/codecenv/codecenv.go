// Package codecenv holds the ENVIRONMENT monitors of the codec area (C01, C02, C03, C06, C07): what the address,
// Base58 and Bech32 code computes depends on package-level tables and registries that any other package linked
// into the same program can rewrite before main starts (an init function, a variable initialiser, a
// go:linkname alias, chaincfg.Register).  The monitors here
//
//   - link EVERY package of the module into the binary (blank imports below), so that their initialisation
//     runs in the tested program as it does in an application;
//   - read the tables (bchutil.CharsetRev, bchutil.Charset, base58's digit table through Decode of all 256
//     one-character strings, bech32's alphabet through Encode, the exported error values) and compare them with
//     the values the models were generated from - when the run starts and again when it ends;
//   - compare the registered legacy version bytes (chaincfg.IsPubKeyHashAddrID / IsScriptHashAddrID over all
//     256 ids) and the six networks' parameters with Gen/Nets.v (written by cmd/nets, which links chaincfg
//     WITHOUT bchutil), and send legacy addresses of every id through DecodeAddress on every network;
//   - put white space / control characters around valid strings of every kind (canonicity);
//   - call every function that takes a byte slice with inputs of 0..300 bytes, spare capacity behind the slice,
//     valid and INVALID parameters, and compare the whole backing array afterwards (purity on error paths).
//
// The package uses the public API only (no hook, no internal/vh), so the same source also compiles in the
// plain child programs built by addrlib/plainrun under other build configurations (no `verif` tag,
// CGO_ENABLED=0, further tags found in the module's build constraints).
package codecenv

import (
	"bytes"
	"crypto/sha256"
	"encoding/hex"
	"fmt"
	"math/big"
	"os"
	"regexp"
	"strconv"
	"strings"

	"github.com/gcash/bchd/bchec"
	"github.com/gcash/bchd/chaincfg"
	"github.com/gcash/bchutil"
	"github.com/gcash/bchutil/base58"
	"github.com/gcash/bchutil/bech32"

	// every other package of the module: their init functions and variable initialisers run in this binary
	_ "github.com/gcash/bchutil/bloom"
	_ "github.com/gcash/bchutil/coinset"
	_ "github.com/gcash/bchutil/gcs"
	_ "github.com/gcash/bchutil/gcs/builder"
	_ "github.com/gcash/bchutil/hdkeychain"
	_ "github.com/gcash/bchutil/jsonpb"
	_ "github.com/gcash/bchutil/merkleblock"
	_ "github.com/gcash/bchutil/txsort"
)

// LinkedPackages names what the blank imports above link (reported in the harness report).
var LinkedPackages = []string{"bchutil", "base58", "bech32", "bloom", "coinset", "gcs", "gcs/builder", "hdkeychain", "jsonpb", "merkleblock", "txsort"}

type Violation struct {
	Key    string                 `json:"key"`
	What   string                 `json:"what"`
	Replay map[string]interface{} `json:"replay"`
}

// Mon collects the findings of one property's environment monitors.
type Mon struct {
	Prop  string // "C01" ...: prefix of every key
	Phase string // "start" / "end" / "plain:<configuration>"
	Out   []Violation
	Exec  int
	Hist  map[string]int
	perK  map[string]int
}

func New(prop string) *Mon {
	return &Mon{Prop: prop, Phase: "start", Hist: map[string]int{}, perK: map[string]int{}}
}

func (m *Mon) count(family string) { m.Exec++; m.Hist[family]++ }

func (m *Mon) violate(key, what string, replay map[string]interface{}) {
	k := m.Prop + ":" + key
	m.perK[k]++
	if m.perK[k] > 6 { // a rewritten table entry shows up on many inputs: the first few are enough
		return
	}
	replay["phase"] = m.Phase
	m.Out = append(m.Out, Violation{k, what, replay})
}

// ---------------------------------------------------------------------------------------------------------
// references, written from the specifications (no call into bchutil)
// ---------------------------------------------------------------------------------------------------------

const CashCharset = "qpzry9x8gf2tvdw0s3jn54khce6mua7l"
const B58Alphabet = "123456789ABCDEFGHJKLMNPQRSTUVWXYZabcdefghijkmnopqrstuvwxyz"

func sha256d(b []byte) []byte {
	h := sha256.Sum256(b)
	h2 := sha256.Sum256(h[:])
	return h2[:]
}

func refPolyMod(v []byte) uint64 {
	c := uint64(1)
	gen := [5]uint64{0x98f2bc8e61, 0x79b76d99e2, 0xf33e5fb3c4, 0xae2eabe2a8, 0x1e4f43e470}
	for _, d := range v {
		c0 := byte(c >> 35)
		c = ((c & 0x07ffffffff) << 5) ^ uint64(d)
		for i := 0; i < 5; i++ {
			if c0>>uint(i)&1 == 1 {
				c ^= gen[i]
			}
		}
	}
	return c ^ 1
}

func bits8to5(data []byte) []byte {
	var out []byte
	acc, bits := 0, 0
	for _, b := range data {
		acc = acc<<8 | int(b)
		bits += 8
		for bits >= 5 {
			bits -= 5
			out = append(out, byte(acc>>uint(bits))&31)
		}
	}
	if bits > 0 {
		out = append(out, byte(acc<<uint(5-bits))&31)
	}
	return out
}

// RefCashAddr: the CashAddr string (without prefix) of (type bits, hash) under the prefix.
func RefCashAddr(prefix string, typ byte, hash []byte) string {
	size := map[int]byte{20: 0, 24: 1, 28: 2, 32: 3, 40: 4, 48: 5, 56: 6, 64: 7}[len(hash)]
	payload := bits8to5(append([]byte{typ<<3 | size}, hash...))
	var v []byte
	for i := 0; i < len(prefix); i++ {
		v = append(v, prefix[i]&31)
	}
	v = append(v, 0)
	v = append(v, payload...)
	v = append(v, make([]byte, 8)...)
	pm := refPolyMod(v)
	var sb strings.Builder
	for _, d := range payload {
		sb.WriteByte(CashCharset[d])
	}
	for i := 0; i < 8; i++ {
		sb.WriteByte(CashCharset[(pm>>uint(5*(7-i)))&31])
	}
	return sb.String()
}

func RefBase58(b []byte) string {
	x := new(big.Int).SetBytes(b)
	r := big.NewInt(58)
	m := new(big.Int)
	var out []byte
	for x.Sign() > 0 {
		x.DivMod(x, r, m)
		out = append(out, B58Alphabet[m.Int64()])
	}
	for _, c := range b {
		if c != 0 {
			break
		}
		out = append(out, '1')
	}
	for i, j := 0, len(out)-1; i < j; i, j = i+1, j-1 {
		out[i], out[j] = out[j], out[i]
	}
	return string(out)
}

func RefBase58Check(ver byte, payload []byte) string {
	full := append([]byte{ver}, payload...)
	return RefBase58(append(full, sha256d(full)[:4]...))
}

var bechGen = [5]uint32{0x3b6a57b2, 0x26508e6d, 0x1ea119fa, 0x3d4233dd, 0x2a1462b3}

func refBech32(hrp string, data []byte) string {
	var v []byte
	for i := 0; i < len(hrp); i++ {
		v = append(v, hrp[i]>>5)
	}
	v = append(v, 0)
	for i := 0; i < len(hrp); i++ {
		v = append(v, hrp[i]&31)
	}
	v = append(v, data...)
	v = append(v, 0, 0, 0, 0, 0, 0)
	chk := uint32(1)
	for _, d := range v {
		top := chk >> 25
		chk = (chk&0x1ffffff)<<5 ^ uint32(d)
		for i := 0; i < 5; i++ {
			if top>>uint(i)&1 == 1 {
				chk ^= bechGen[i]
			}
		}
	}
	chk ^= 1
	var sb strings.Builder
	sb.WriteString(hrp + "1")
	for _, d := range data {
		sb.WriteByte(CashCharset[d])
	}
	for i := 0; i < 6; i++ {
		sb.WriteByte(CashCharset[(chk>>uint(5*(5-i)))&31])
	}
	return sb.String()
}

// deterministic bytes (no dependency on internal/vh): splitmix64
type rng struct{ s uint64 }

func (r *rng) u64() uint64 {
	r.s += 0x9E3779B97F4A7C15
	z := r.s
	z = (z ^ (z >> 30)) * 0xBF58476D1CE4E5B9
	z = (z ^ (z >> 27)) * 0x94D049BB133111EB
	return z ^ (z >> 31)
}
func (r *rng) bytes(n int) []byte {
	b := make([]byte, n)
	for i := range b {
		b[i] = byte(r.u64() >> 17)
	}
	return b
}
func (r *rng) intn(n int) int { return int(r.u64() % uint64(n)) }

// ---------------------------------------------------------------------------------------------------------
// networks
// ---------------------------------------------------------------------------------------------------------

type NetSpec struct {
	Name   string `json:"name"`
	Cash   string `json:"cash_prefix"`
	Slp    string `json:"slp_prefix"`
	PKH    byte   `json:"pkh_id"`
	SH     byte   `json:"sh_id"`
	WIF    byte   `json:"wif_id"`
	HDPriv []byte `json:"hd_priv_id"`
	HDPub  []byte `json:"hd_pub_id"`
}

// Spec is what the models were generated from (Gen/Nets.v).
type Spec struct {
	Nets   []NetSpec `json:"nets"`
	PKHIds []int     `json:"registered_pkh_ids"`
	SHIds  []int     `json:"registered_sh_ids"`
	Source string    `json:"source"`
}

var params = []*chaincfg.Params{&chaincfg.MainNetParams, &chaincfg.TestNet3Params, &chaincfg.TestNet4Params,
	&chaincfg.ChipNetParams, &chaincfg.RegressionNetParams, &chaincfg.SimNetParams}

// Builtin: the content of Gen/Nets.v at the time the models were validated (bchd v0.20.0).
func Builtin() *Spec {
	t := []byte{4, 0x35, 0x83, 0x94}
	tp := []byte{4, 0x35, 0x87, 0xcf}
	return &Spec{Source: "built-in copy of Gen/Nets.v", PKHIds: []int{0, 63, 111}, SHIds: []int{5, 123, 196}, Nets: []NetSpec{
		{"mainnet", "bitcoincash", "simpleledger", 0, 5, 128, []byte{4, 0x88, 0xad, 0xe4}, []byte{4, 0x88, 0xb2, 0x1e}},
		{"testnet3", "bchtest", "slptest", 111, 196, 239, t, tp}, {"testnet4", "bchtest", "slptest", 111, 196, 239, t, tp},
		{"chipnet", "bchtest", "slptest", 111, 196, 239, t, tp}, {"regtest", "bchreg", "slpreg", 111, 196, 239, t, tp},
		{"simnet", "bchsim", "", 63, 123, 100, []byte{4, 0x20, 0xb9, 0x00}, []byte{4, 0x20, 0xbd, 0x3a}}}}
}

var (
	reNet  = regexp.MustCompile(`Definition (\w+) : net := \{\| net_name := \[[0-9;]*\]; cash_prefix := \[([0-9;]*)\]; slp_prefix := \[([0-9;]*)\]; pkh_id := (\d+); sh_id := (\d+);\s*wif_id := (\d+); hd_priv_id := \[([0-9;]*)\]; hd_pub_id := \[([0-9;]*)\]`)
	rePKH  = regexp.MustCompile(`Definition registered_pkh_ids : list N := \[([0-9;]*)\]`)
	reSH   = regexp.MustCompile(`Definition registered_sh_ids : list N := \[([0-9;]*)\]`)
	reAll  = regexp.MustCompile(`Definition all_nets : list net := \[([\w; ]*)\]`)
	netIdx = map[string]int{"mainnet": 0, "testnet3": 1, "testnet4": 2, "chipnet": 3, "regtest": 4, "simnet": 5}
)

func nlist(s string) []byte {
	var out []byte
	for _, f := range strings.Split(s, ";") {
		if f = strings.TrimSpace(f); f != "" {
			v, _ := strconv.Atoi(f)
			out = append(out, byte(v))
		}
	}
	return out
}

// LoadGenNets parses coq/theories/Gen/Nets.v (looked for relative to the harness directory); when the file cannot
// be found or parsed the built-in copy is used.
func LoadGenNets(candidates ...string) *Spec {
	for _, p := range candidates {
		b, err := os.ReadFile(p)
		if err != nil {
			continue
		}
		s := &Spec{Source: p, Nets: make([]NetSpec, 6)}
		found := 0
		for _, m := range reNet.FindAllStringSubmatch(string(b), -1) {
			i, ok := netIdx[m[1]]
			if !ok {
				continue
			}
			at := func(k int) byte { v, _ := strconv.Atoi(m[k]); return byte(v) }
			s.Nets[i] = NetSpec{m[1], string(nlist(m[2])), string(nlist(m[3])), at(4), at(5), at(6), nlist(m[7]), nlist(m[8])}
			found++
		}
		mp, ms, ma := rePKH.FindStringSubmatch(string(b)), reSH.FindStringSubmatch(string(b)), reAll.FindStringSubmatch(string(b))
		if found != 6 || mp == nil || ms == nil || ma == nil || len(strings.Split(ma[1], ";")) != 6 {
			continue
		}
		for _, x := range nlist(mp[1]) {
			s.PKHIds = append(s.PKHIds, int(x))
		}
		for _, x := range nlist(ms[1]) {
			s.SHIds = append(s.SHIds, int(x))
		}
		return s
	}
	return Builtin()
}

func has(xs []int, v int) bool {
	for _, x := range xs {
		if x == v {
			return true
		}
	}
	return false
}

type obs struct {
	ok   bool
	err  string
	kind string
	hash []byte
	enc  string
	nets [6]bool
}

func (o obs) json() map[string]interface{} {
	if !o.ok {
		return map[string]interface{}{"accepted": false, "error": o.err}
	}
	return map[string]interface{}{"accepted": true, "kind": o.kind, "hash": hex.EncodeToString(o.hash), "encode_address": o.enc, "is_for_net": fmt.Sprint(o.nets)}
}

func decode(s string, net int) (o obs) {
	defer func() {
		if r := recover(); r != nil {
			o = obs{err: fmt.Sprint("panic: ", r)}
		}
	}()
	a, err := bchutil.DecodeAddress(s, params[net])
	if err != nil {
		return obs{err: err.Error()}
	}
	o.ok = true
	switch a.(type) {
	case *bchutil.AddressPubKeyHash:
		o.kind = "PKH"
	case *bchutil.AddressScriptHash:
		o.kind = "SH"
	case *bchutil.AddressScriptHash32:
		o.kind = "SH32"
	case *bchutil.LegacyAddressPubKeyHash:
		o.kind = "LegPKH"
	case *bchutil.LegacyAddressScriptHash:
		o.kind = "LegSH"
	case *bchutil.AddressPubKey:
		o.kind = "PubKey"
	default:
		o.kind = fmt.Sprintf("%T", a)
	}
	o.hash = append([]byte(nil), a.ScriptAddress()...)
	o.enc = a.EncodeAddress()
	for i, p := range params {
		o.nets[i] = a.IsForNet(p)
	}
	return o
}

// Nets: the registry and the six networks are the ones the model was generated from; legacy addresses of every id.
func (m *Mon) Nets(spec *Spec) {
	m.NetParams(spec)
	m.netsLegacy(spec)
}

// NetParams: the six networks' own parameters (package variables of a dependency: writable from any init).
func (m *Mon) NetParams(spec *Spec) {
	for i, n := range spec.Nets {
		p := params[i]
		m.count("env:nets:params")
		if p.CashAddressPrefix != n.Cash || p.SlpAddressPrefix != n.Slp || p.LegacyPubKeyHashAddrID != n.PKH || p.LegacyScriptHashAddrID != n.SH ||
			p.PrivateKeyID != n.WIF || !bytes.Equal(p.HDPrivateKeyID[:], n.HDPriv) || !bytes.Equal(p.HDPublicKeyID[:], n.HDPub) {
			m.violate("env:nets:params", "the parameters of a network differ at run time from the ones the model was generated from ("+spec.Source+")",
				map[string]interface{}{"net": n.Name, "model": n, "run_time": NetSpec{p.Name, p.CashAddressPrefix, p.SlpAddressPrefix, p.LegacyPubKeyHashAddrID,
					p.LegacyScriptHashAddrID, p.PrivateKeyID, p.HDPrivateKeyID[:], p.HDPublicKeyID[:]}})
		}
	}
}

// netsLegacy: the registered legacy ids over all 256 values, each with a concrete address through DecodeAddress.
func (m *Mon) netsLegacy(spec *Spec) {
	r := &rng{s: 0xC01}
	h := r.bytes(20)
	for id := 0; id < 256; id++ {
		isP, isS := chaincfg.IsPubKeyHashAddrID(byte(id)), chaincfg.IsScriptHashAddrID(byte(id))
		wantP, wantS := has(spec.PKHIds, id), has(spec.SHIds, id)
		s := RefBase58Check(byte(id), h)
		net := id % 6
		o := decode(s, net)
		m.count("env:nets:registered")
		if isP != wantP || isS != wantS {
			m.violate("env:nets:registered", "the legacy version bytes registered with chaincfg at run time differ from the model's lists (a network was registered, or de-registered, by code linked into the program)",
				map[string]interface{}{"version_byte": id, "IsPubKeyHashAddrID": isP, "IsScriptHashAddrID": isS, "model_registered_pkh_ids": spec.PKHIds, "model_registered_sh_ids": spec.SHIds,
					"legacy_address_of_that_version": s, "hash": hex.EncodeToString(h), "net": spec.Nets[net].Name, "DecodeAddress": o.json()})
		}
		wantKind := map[[2]bool]string{{true, false}: "LegPKH", {false, true}: "LegSH"}[[2]bool{wantP, wantS}]
		if o.ok != (wantKind != "") || o.ok && (o.kind != wantKind || !bytes.Equal(o.hash, h) || o.enc != s) {
			m.violate("env:legacy:accept", "DecodeAddress on Base58Check(version, 20 bytes): accepted exactly when the version byte is one of the model's registered ids, as that kind, with that hash",
				map[string]interface{}{"version_byte": id, "hash": hex.EncodeToString(h), "string": s, "net": spec.Nets[net].Name, "required_kind": wantKind, "DecodeAddress": o.json()})
		}
	}
	// legacy constructors of every network, decoded on every network
	for i, n := range spec.Nets {
		for k := 0; k < 2; k++ {
			hh := r.bytes(20)
			if k == 1 {
				hh[0] = 0
			}
			for _, sh := range []bool{false, true} {
				var a bchutil.Address
				var err error
				id, kind := n.PKH, "LegPKH"
				if sh {
					id, kind = n.SH, "LegSH"
					a, err = bchutil.NewLegacyAddressScriptHashFromHash(hh, params[i])
				} else {
					a, err = bchutil.NewLegacyAddressPubKeyHash(hh, params[i])
				}
				want := RefBase58Check(id, hh)
				if err != nil || a.EncodeAddress() != want {
					m.violate("env:spec:"+kind, "legacy constructor does not give Base58Check(model's version byte, hash)",
						map[string]interface{}{"net": n.Name, "hash": hex.EncodeToString(hh), "specification": want, "error": fmt.Sprint(err)})
					continue
				}
				for j := range spec.Nets {
					o := decode(want, j)
					m.count("env:roundtrip:" + kind)
					bad := ""
					switch {
					case !o.ok:
						bad = "rejected: " + o.err
					case o.kind != kind || !bytes.Equal(o.hash, hh) || o.enc != want:
						bad = "decoded to something else"
					case !o.nets[i]:
						bad = "IsForNet(network of the constructor) is false"
					}
					if bad != "" {
						m.violate("env:roundtrip:"+kind, "DecodeAddress(EncodeAddress(legacy address)) != the address: "+bad,
							map[string]interface{}{"kind": kind, "net_of_constructor": n.Name, "hash": hex.EncodeToString(hh), "string": want, "decoded_on_net": spec.Nets[j].Name, "DecodeAddress": o.json()})
					}
				}
			}
		}
	}
}

type validStr struct {
	net        int
	kind, form string
	s          string
}

// validStrings: one valid string of every kind and rendering on every network.
func validStrings(spec *Spec, r *rng) []validStr {
	var out []validStr
	for i, n := range spec.Nets {
		h20, h32 := r.bytes(20), r.bytes(32)
		add := func(kind, prefix, body string) {
			out = append(out, validStr{i, kind, "bare-lower", body}, validStr{i, kind, "bare-upper", strings.ToUpper(body)},
				validStr{i, kind, "prefix-lower", prefix + ":" + body}, validStr{i, kind, "prefix-upper", strings.ToUpper(prefix + ":" + body)})
		}
		add("PKH", n.Cash, RefCashAddr(n.Cash, 0, h20))
		add("SH", n.Cash, RefCashAddr(n.Cash, 1, h20))
		add("SH32", n.Cash, RefCashAddr(n.Cash, 1, h32))
		if n.Slp != "" {
			add("SLP-PKH", n.Slp, RefCashAddr(n.Slp, 0, h20))
			add("SLP-SH", n.Slp, RefCashAddr(n.Slp, 1, h20))
		}
		out = append(out, validStr{i, "LegPKH", "base58check", RefBase58Check(n.PKH, h20)}, validStr{i, "LegSH", "base58check", RefBase58Check(n.SH, h20)})
		_, pub := bchec.PrivKeyFromBytes(bchec.S256(), r.bytes(32))
		out = append(out, validStr{i, "PubKey", "hex-compressed", hex.EncodeToString(pub.SerializeCompressed())},
			validStr{i, "PubKey", "hex-uncompressed", hex.EncodeToString(pub.SerializeUncompressed())},
			validStr{i, "PubKey", "hex-hybrid-upper", strings.ToUpper(hex.EncodeToString(pub.SerializeHybrid()))})
	}
	return out
}

// Affixes: white space and control characters that input handling tends to strip.
var Affixes = []string{"\n", "\r", "\r\n", "\t", " ", "\x00", "\v", "\f", "  ", "\n\n", "\u00a0", "\u2028", "\ufeff", "\u200b", "\x1f", "\x7f"}

// Whitespace: a valid string of any kind with white space / control characters before it, behind it, on both
// sides, or behind the prefix colon is NOT an accepted string (the property's normal form allows ASCII case and
// one optional prefix, nothing else).
func (m *Mon) Whitespace(spec *Spec, thorough bool) {
	r := &rng{s: 0xC02}
	reps := 1
	if thorough {
		reps = 4
	}
	for rep := 0; rep < reps; rep++ {
		for _, v := range validStrings(spec, r) {
			if o := decode(v.s, v.net); !o.ok {
				m.violate("env:accept:"+v.kind, "a valid string was refused", map[string]interface{}{"net": spec.Nets[v.net].Name, "kind": v.kind, "rendering": v.form, "string": v.s, "error": o.err})
				continue
			}
			for _, ax := range Affixes {
				cands := map[string]string{"trailing": v.s + ax, "leading": ax + v.s, "both": ax + v.s + ax}
				if i := strings.IndexByte(v.s, ':'); i >= 0 {
					cands["after-colon"] = v.s[:i+1] + ax + v.s[i+1:]
					cands["before-colon"] = v.s[:i] + ax + v.s[i:]
				}
				for where, s := range cands {
					o := decode(s, v.net)
					m.count("env:canonical:whitespace:" + v.kind)
					if o.ok {
						m.violate("env:canonical:whitespace", "a valid address string with white space / a control character added ("+where+") was accepted: accepted strings must equal the address's own string up to ASCII case and one optional prefix",
							map[string]interface{}{"net": spec.Nets[v.net].Name, "kind": v.kind, "rendering": v.form, "where": where, "added": fmt.Sprintf("%q", ax),
								"string": fmt.Sprintf("%q", s), "string_hex": hex.EncodeToString([]byte(s)), "DecodeAddress": o.json()})
					}
				}
			}
		}
	}
}

// ---------------------------------------------------------------------------------------------------------
// tables
// ---------------------------------------------------------------------------------------------------------

func cashRev(c int) int {
	if c >= 'A' && c <= 'Z' {
		c += 32
	}
	return strings.IndexByte(CashCharset, byte(c))
}

// TablesCash: bchutil.Charset / bchutil.CharsetRev against the CashAddr specification's alphabet.
func (m *Mon) TablesCash() {
	m.count("env:tables:Charset")
	if bchutil.Charset != CashCharset {
		m.violate("env:tables:Charset", "bchutil.Charset is not the CashAddr alphabet", map[string]interface{}{"run_time": bchutil.Charset, "model": CashCharset})
	}
	r := &rng{s: 0xC03}
	for c := 0; c < 128; c++ {
		m.count("env:tables:CharsetRev")
		got, want := int(bchutil.CharsetRev[c]), cashRev(c)
		if got == want {
			continue
		}
		rp := map[string]interface{}{"table": "bchutil.CharsetRev", "index": c, "character": fmt.Sprintf("%q", rune(c)), "run_time_value": got, "model_value": want}
		// the consequence on the property's function: a valid address with one character replaced by this one
		if got >= 0 && got < 32 {
		search:
			for try := 0; try < 40; try++ {
				h := r.bytes(20)
				body := RefCashAddr("bitcoincash", byte(try&1), h)
				if i := strings.IndexByte(body, CashCharset[got]); i >= 0 {
					for _, s := range []string{body[:i] + string(rune(c)) + body[i+1:], "bitcoincash:" + body[:i] + string(rune(c)) + body[i+1:]} {
						if o := decode(s, 0); o.ok {
							rp["valid_address"], rp["altered_string"], rp["position"], rp["DecodeAddress(altered_string, mainnet)"] = body, s, i, o.json()
							break search
						}
					}
				}
			}
		} else if want >= 0 {
			body := RefCashAddr("bitcoincash", 0, make([]byte, 20)) // "qqqq..." contains q; find one containing the character
			for try := 0; try < 40 && !strings.ContainsRune(body, rune(c|32)); try++ {
				body = RefCashAddr("bitcoincash", 0, r.bytes(20))
			}
			rp["valid_address"], rp["DecodeAddress(valid_address, mainnet)"] = body, decode(body, 0).json()
		}
		m.violate("env:tables:CharsetRev", "an entry of the exported decode table bchutil.CharsetRev differs at run time from the value the model was generated from (rewritten by code linked into the program)", rp)
	}
}

// TablesB58: base58's digit table, read through Decode of all 256 one-character strings, and Encode of single digits.
func (m *Mon) TablesB58() {
	r := &rng{s: 0xC06}
	for c := 0; c < 256; c++ {
		s := string([]byte{byte(c)})
		got := base58.Decode(s)
		m.count("env:tables:b58")
		var want []byte
		if i := strings.IndexByte(B58Alphabet, byte(c)); i == 0 {
			want = []byte{0}
		} else if i > 0 {
			want = []byte{byte(i)}
		}
		if bytes.Equal(got, want) || len(got) == 0 && len(want) == 0 {
			continue
		}
		rp := map[string]interface{}{"table": "base58 digit table (through base58.Decode of a one-character string)", "string": fmt.Sprintf("%q", s), "string_hex": hex.EncodeToString([]byte(s)),
			"decoded": hex.EncodeToString(got), "required": hex.EncodeToString(want)}
		if len(got) == 1 && int(got[0]) < 58 { // a foreign character read as a digit: Base58Check, address and WIF strings
		search:
			for try := 0; try < 60; try++ {
				h := r.bytes(20)
				for _, valid := range []string{RefBase58Check(0, h), RefBase58Check(5, h)} {
					if i := strings.IndexByte(valid[1:], B58Alphabet[got[0]]); i >= 0 {
						alt := valid[:i+1] + s + valid[i+2:]
						_, _, err := base58.CheckDecode(alt)
						if err == nil {
							rp["valid_base58check"], rp["altered_string"], rp["CheckDecode(altered_string)"] = valid, alt, "accepted"
							rp["DecodeAddress(altered_string, mainnet)"] = decode(alt, 0).json()
							key := append([]byte{0x80}, r.bytes(32)...)
							wif := RefBase58(append(key, sha256d(key)[:4]...))
							if j := strings.IndexByte(wif[1:], B58Alphabet[got[0]]); j >= 0 {
								w2 := wif[:j+1] + s + wif[j+2:]
								_, werr := bchutil.DecodeWIF(w2)
								rp["valid_wif"], rp["altered_wif"], rp["DecodeWIF(altered_wif)"] = wif, w2, fmt.Sprint(werr)
							}
							break search
						}
					}
				}
			}
		}
		m.violate("env:tables:b58", "base58.Decode of a one-character string differs from the alphabet's digit value: the package's table was rewritten by code linked into the program (variable initialiser / init / go:linkname)", rp)
	}
	for d := 1; d < 58; d++ {
		m.count("env:tables:b58")
		if s := base58.Encode([]byte{byte(d)}); s != B58Alphabet[d:d+1] {
			m.violate("env:tables:b58alphabet", "base58.Encode of a single digit value is not the alphabet's character", map[string]interface{}{"byte": d, "encoded": s, "required": B58Alphabet[d : d+1]})
		}
	}
}

// TablesBech32: the alphabet and generator of bech32 through Encode / Decode against BIP173.
func (m *Mon) TablesBech32() {
	for d := 0; d < 32; d++ {
		for _, hrp := range []string{"a", "bc"} {
			data := []byte{byte(d), byte(31 - d), byte(d)}
			want := refBech32(hrp, data)
			got, err := bech32.Encode(hrp, data)
			m.count("env:tables:bech32")
			if err != nil || got != want {
				m.violate("env:tables:bech32", "bech32.Encode differs from BIP173 on a three-symbol payload (alphabet or generator rewritten)", map[string]interface{}{"hrp": hrp, "data": hex.EncodeToString(data), "encoded": got, "error": fmt.Sprint(err), "bip173": want})
				continue
			}
			h2, d2, err := bech32.Decode(want)
			if err != nil || h2 != hrp || !bytes.Equal(d2, data) {
				m.violate("env:tables:bech32", "bech32.Decode refuses or misreads a BIP173 string", map[string]interface{}{"string": want, "error": fmt.Sprint(err), "hrp": h2, "data": hex.EncodeToString(d2)})
			}
		}
	}
	// every printable ASCII character in a data position of a string whose checksum is right for the symbol the
	// character would stand for under any 5-bit reading is too wide a search; the alphabet is a constant, the
	// one-character reading is checked instead: a foreign character in the data part is refused
	valid := refBech32("a", []byte{1, 2, 3})
	for c := 33; c < 127; c++ {
		if strings.IndexByte(CashCharset, byte(c)) >= 0 || c >= 'A' && c <= 'Z' || c == '1' {
			continue
		}
		s := valid[:2] + string(rune(c)) + valid[3:]
		m.count("env:tables:bech32")
		if _, _, err := bech32.Decode(s); err == nil {
			m.violate("env:tables:bech32", "bech32.Decode accepted a character outside the alphabet in the data part", map[string]interface{}{"string": s})
		}
	}
}

// TablesErrors: the exported error values are compared by identity inside the decoders (`err == ErrChecksumMismatch`);
// another package can assign to them.
func (m *Mon) TablesErrors() {
	for _, e := range []struct {
		name string
		err  error
		text string
	}{
		{"bchutil.ErrChecksumMismatch", bchutil.ErrChecksumMismatch, "checksum mismatch"},
		{"bchutil.ErrUnknownAddressType", bchutil.ErrUnknownAddressType, "unknown address type"},
		{"bchutil.ErrAddressCollision", bchutil.ErrAddressCollision, "address collision"},
		{"bchutil.ErrInvalidFormat", bchutil.ErrInvalidFormat, "invalid format: version and/or checksum bytes missing"},
		{"bchutil.ErrUnknownFormat", bchutil.ErrUnknownFormat, "decoded address is of unknown format"},
		{"bchutil.ErrMalformedPrivateKey", bchutil.ErrMalformedPrivateKey, "malformed private key"},
		{"base58.ErrChecksum", base58.ErrChecksum, "checksum error"},
		{"base58.ErrInvalidFormat", base58.ErrInvalidFormat, "invalid format: version and/or checksum bytes missing"},
	} {
		m.count("env:tables:errors")
		if e.err == nil || e.err.Error() != e.text {
			m.violate("env:tables:errors", "an exported error value was reassigned by code linked into the program (the decoders return it / compare with it)",
				map[string]interface{}{"variable": e.name, "run_time": fmt.Sprint(e.err), "model": e.text})
		}
	}
	// behaviour that depends on them: a Base58Check / CashAddr string with a damaged checksum is an error
	h := make([]byte, 20)
	s := RefBase58Check(0, h)
	bad := s[:len(s)-1] + string(B58Alphabet[(strings.IndexByte(B58Alphabet, s[len(s)-1])+1)%58])
	if _, _, err := base58.CheckDecode(bad); err == nil {
		m.violate("env:tables:errors", "base58.CheckDecode returned no error for a string with a damaged checksum", map[string]interface{}{"string": bad})
	}
	c := "bitcoincash:" + RefCashAddr("bitcoincash", 0, h)
	badc := c[:len(c)-1] + string(CashCharset[(strings.IndexByte(CashCharset, c[len(c)-1])+1)%32])
	if o := decode(badc, 0); o.ok {
		m.violate("env:tables:errors", "DecodeAddress accepted a CashAddr string with a damaged checksum", map[string]interface{}{"string": badc, "DecodeAddress": o.json()})
	}
}

// Subst1: every single-character substitution (all 128 ASCII characters, every position; the same letter in the
// other case excepted) of a few valid addresses is refused by DecodeAddress.
func (m *Mon) Subst1(thorough bool) {
	r := &rng{s: 0xC33}
	n := 2
	if thorough {
		n = 12
	}
	for k := 0; k < n; k++ {
		typ := byte(k & 1)
		h := r.bytes(20 + 12*(k%3/2))
		if len(h) == 32 {
			typ = 1
		}
		body := RefCashAddr("bitcoincash", typ, h)
		for _, base := range []string{body, "bitcoincash:" + body, strings.ToUpper(body)} {
			first := strings.IndexByte(base, ':') + 1
			for i := first; i < len(base); i++ {
				for c := 0; c < 128; c++ {
					if byte(c) == base[i] || (byte(c)|32 == base[i]|32 && base[i]|32 >= 'a' && base[i]|32 <= 'z') {
						continue // the same letter in the other case is the same symbol (bare strings are lower-cased as a whole)
					}
					s := base[:i] + string(rune(c)) + base[i+1:]
					o := decode(s, 0)
					m.count("env:subst1")
					if o.ok {
						m.violate("env:subst1", "a valid CashAddr string with ONE character replaced was accepted", map[string]interface{}{"valid_address": base, "position": i, "replaced_by": fmt.Sprintf("%q", rune(c)), "string": s, "DecodeAddress": o.json()})
					}
				}
			}
		}
	}
}

// WIF: wallet import format strings of every network.
func (m *Mon) WIF(spec *Spec) {
	r := &rng{s: 0xC66}
	for i, n := range spec.Nets {
		for _, compressed := range []bool{false, true} {
			key := r.bytes(32)
			key[0] &= 0x7f
			key[31] |= 1
			body := append([]byte{n.WIF}, key...)
			if compressed {
				body = append(body, 1)
			}
			s := RefBase58(append(body, sha256d(body)[:4]...))
			w, err := bchutil.DecodeWIF(s)
			m.count("env:wif:roundtrip")
			if err != nil {
				m.violate("env:wif:roundtrip", "DecodeWIF refused Base58Check(model's private-key id, key [, 01])", map[string]interface{}{"net": n.Name, "string": s, "error": err.Error()})
				continue
			}
			priv, _ := bchec.PrivKeyFromBytes(bchec.S256(), key)
			if w.String() != s || w.CompressPubKey != compressed || w.PrivKey.D.Cmp(priv.D) != 0 {
				m.violate("env:wif:roundtrip", "DecodeWIF(s).String() != s, or the key / compression flag differ", map[string]interface{}{"net": n.Name, "string": s, "again": w.String()})
			}
			for j, n2 := range spec.Nets {
				if w.IsForNet(params[j]) != (n2.WIF == n.WIF) {
					m.violate("env:wif:isfornet", "IsForNet differs from 'the model's private-key id of that network is the string's version byte'", map[string]interface{}{"string": s, "version_byte": n.WIF, "net": n2.Name, "model_wif_id": n2.WIF})
				}
			}
			w2, err := bchutil.NewWIF(priv, params[i], compressed)
			if err != nil || w2.String() != s {
				m.violate("env:wif:spec", "NewWIF(key, net).String() is not Base58Check(model's private-key id, key [, 01])", map[string]interface{}{"net": n.Name, "required": s, "error": fmt.Sprint(err)})
			}
			for _, ax := range Affixes {
				for where, t := range map[string]string{"trailing": s + ax, "leading": ax + s, "both": ax + s + ax} {
					m.count("env:wif:whitespace")
					if _, err := bchutil.DecodeWIF(t); err == nil {
						m.violate("env:wif:whitespace", "a valid WIF string with white space / a control character added ("+where+") was accepted",
							map[string]interface{}{"string": fmt.Sprintf("%q", t), "string_hex": hex.EncodeToString([]byte(t)), "added": fmt.Sprintf("%q", ax)})
					}
				}
			}
		}
	}
}

// ---------------------------------------------------------------------------------------------------------
// purity: every function taking a byte slice, valid and invalid calls, large inputs, spare capacity
// ---------------------------------------------------------------------------------------------------------

var quickSizes = []int{0, 1, 2, 3, 4, 5, 7, 8, 19, 20, 21, 31, 32, 33, 40, 63, 64, 65, 93, 94, 95, 96, 97, 98, 99, 100, 127, 128, 129, 160, 200, 255, 256, 257, 299, 300}

func Sizes(thorough bool) []int {
	if !thorough {
		return quickSizes
	}
	s := make([]int, 301)
	for i := range s {
		s[i] = i
	}
	return s
}

// guarded runs call on a slice of n bytes produced by fill, with `spare` marked bytes of capacity behind it, and
// reports any change of the backing array (the slice's own bytes or the spare capacity).
func (m *Mon) guarded(fn string, params map[string]interface{}, data []byte, spare int, call func(in []byte) string) {
	backing := make([]byte, len(data)+spare)
	copy(backing, data)
	for i := len(data); i < len(backing); i++ {
		backing[i] = 0xA5
	}
	before := append([]byte(nil), backing...)
	var outcome string
	func() {
		defer func() {
			if r := recover(); r != nil {
				outcome = fmt.Sprint("panic: ", r)
			}
		}()
		outcome = call(backing[:len(data):len(backing)])
	}()
	m.count("env:purity:" + fn)
	if !bytes.Equal(before, backing) {
		first := 0
		for first < len(before) && before[first] == backing[first] {
			first++
		}
		rp := map[string]interface{}{"function": fn, "len": len(data), "cap": len(backing), "input": hex.EncodeToString(data), "outcome_of_the_call": outcome,
			"first_changed_offset": first, "backing_before": hex.EncodeToString(before), "backing_after": hex.EncodeToString(backing)}
		for k, v := range params {
			rp[k] = v
		}
		m.violate("purity:"+fn, fn+" modified memory reachable from its argument (the slice's bytes or the spare capacity behind it)", rp)
	}
}

// Guarded is the purity check for callers outside this package (hook functions of a harness command).
func (m *Mon) Guarded(fn string, params map[string]interface{}, data []byte, spare int, call func(in []byte) string) {
	m.guarded(fn, params, data, spare, call)
}

// ErrStr renders an error for the "outcome" field of a purity replay.
func ErrStr(err error) string { return errStr(err) }

// Spares: the spare capacities the purity sweeps rotate through.
var Spares = spares

func errStr(err error) string {
	if err == nil {
		return "ok"
	}
	return "error: " + err.Error()
}

var spares = []int{0, 1, 8, 64}

// PurityBech32: bech32.ConvertBits / bech32.Encode.
func (m *Mon) PurityBech32(thorough bool) {
	r := &rng{s: 0xC07}
	groups := [][2]uint8{{8, 5}, {5, 8}, {8, 8}, {5, 5}, {8, 3}, {3, 8}, {7, 4}, {1, 8}, {8, 1}, {4, 6}, {0, 5}, {5, 0}, {9, 5}, {8, 9}, {255, 255}}
	if thorough {
		groups = groups[:0]
		for f := 0; f <= 9; f++ {
			for t := 0; t <= 9; t++ {
				groups = append(groups, [2]uint8{uint8(f), uint8(t)})
			}
		}
	}
	for _, n := range Sizes(thorough) {
		for gi, g := range groups {
			for _, pad := range []bool{false, true} {
				for pat := 0; pat < 4; pat++ {
					data := r.bytes(n)
					mask := byte(0xff)
					if g[0] >= 1 && g[0] < 8 {
						mask = byte(1)<<g[0] - 1
					}
					switch pat {
					case 0: // in range, random
						for i := range data {
							data[i] &= mask
						}
					case 1: // in range, only the very last bit set: an incomplete non-zero trailing group
						for i := range data {
							data[i] = 0
						}
						if n > 0 {
							data[n-1] = 1
						}
					case 2: // all ones
						for i := range data {
							data[i] = mask
						}
					case 3: // one value out of range at the end (the "invalid data range" path)
						for i := range data {
							data[i] &= mask
						}
						if n > 0 {
							data[n-1] = 0xff
						}
					}
					spare := spares[(n+gi+pat)%len(spares)]
					m.guarded("bech32.ConvertBits", map[string]interface{}{"fromBits": g[0], "toBits": g[1], "pad": pad}, data, spare, func(in []byte) string {
						_, err := bech32.ConvertBits(in, g[0], g[1], pad)
						return errStr(err)
					})
				}
			}
		}
		for pat := 0; pat < 3; pat++ {
			data := r.bytes(n)
			for i := range data {
				data[i] &= 31
			}
			if n > 0 && pat == 1 {
				data[n-1] = 32 // refused
			}
			if n > 0 && pat == 2 {
				data[0] = 0xff
			}
			for _, hrp := range []string{"bc", "", "A", strings.Repeat("x", 84)} {
				m.guarded("bech32.Encode", map[string]interface{}{"hrp": hrp}, data, spares[(n+pat)%len(spares)], func(in []byte) string {
					_, err := bech32.Encode(hrp, in)
					return errStr(err)
				})
			}
		}
	}
}

// PurityBase58: base58.Encode / base58.CheckEncode.
func (m *Mon) PurityBase58(thorough bool) {
	r := &rng{s: 0xC77}
	for _, n := range Sizes(thorough) {
		for pat := 0; pat < 3; pat++ {
			data := r.bytes(n)
			switch pat {
			case 1:
				for i := 0; i < n/2; i++ {
					data[i] = 0
				}
			case 2:
				for i := range data {
					data[i] = 0xff
				}
			}
			spare := spares[(n+pat)%len(spares)]
			m.guarded("base58.Encode", nil, data, spare, func(in []byte) string { return "ok, " + strconv.Itoa(len(base58.Encode(in))) + " characters" })
			m.guarded("base58.CheckEncode", map[string]interface{}{"version": n % 256}, data, spare, func(in []byte) string {
				return "ok, " + strconv.Itoa(len(base58.CheckEncode(in, byte(n)))) + " characters"
			})
		}
	}
}

// PurityAddress: the constructors of package bchutil (hash, script and public-key arguments of every length:
// all lengths but one are the error path of the hash-taking constructors).
func (m *Mon) PurityAddress(thorough bool) {
	r := &rng{s: 0xC11}
	type ctor struct {
		name string
		f    func(b []byte, p *chaincfg.Params) (bchutil.Address, error)
	}
	wrap := func(a bchutil.Address, err error) (bchutil.Address, error) { return a, err }
	ctors := []ctor{
		{"NewAddressPubKeyHash", func(b []byte, p *chaincfg.Params) (bchutil.Address, error) {
			return wrap(bchutil.NewAddressPubKeyHash(b, p))
		}},
		{"NewSlpAddressPubKeyHash", func(b []byte, p *chaincfg.Params) (bchutil.Address, error) {
			return wrap(bchutil.NewSlpAddressPubKeyHash(b, p))
		}},
		{"NewAddressScriptHashFromHash", func(b []byte, p *chaincfg.Params) (bchutil.Address, error) {
			return wrap(bchutil.NewAddressScriptHashFromHash(b, p))
		}},
		{"NewSlpAddressScriptHashFromHash", func(b []byte, p *chaincfg.Params) (bchutil.Address, error) {
			return wrap(bchutil.NewSlpAddressScriptHashFromHash(b, p))
		}},
		{"NewAddressScriptHash32FromHash", func(b []byte, p *chaincfg.Params) (bchutil.Address, error) {
			return wrap(bchutil.NewAddressScriptHash32FromHash(b, p))
		}},
		{"NewSlpAddressScriptHash32FromHash", func(b []byte, p *chaincfg.Params) (bchutil.Address, error) {
			return wrap(bchutil.NewSlpAddressScriptHash32FromHash(b, p))
		}},
		{"NewLegacyAddressPubKeyHash", func(b []byte, p *chaincfg.Params) (bchutil.Address, error) {
			return wrap(bchutil.NewLegacyAddressPubKeyHash(b, p))
		}},
		{"NewLegacyAddressScriptHashFromHash", func(b []byte, p *chaincfg.Params) (bchutil.Address, error) {
			return wrap(bchutil.NewLegacyAddressScriptHashFromHash(b, p))
		}},
		{"NewAddressScriptHash", func(b []byte, p *chaincfg.Params) (bchutil.Address, error) {
			return wrap(bchutil.NewAddressScriptHash(b, p))
		}},
		{"NewAddressScriptHash32", func(b []byte, p *chaincfg.Params) (bchutil.Address, error) {
			return wrap(bchutil.NewAddressScriptHash32(b, p))
		}},
		{"NewLegacyAddressScriptHash", func(b []byte, p *chaincfg.Params) (bchutil.Address, error) {
			return wrap(bchutil.NewLegacyAddressScriptHash(b, p))
		}},
		{"NewAddressPubKey", func(b []byte, p *chaincfg.Params) (bchutil.Address, error) {
			return wrap(bchutil.NewAddressPubKey(b, p))
		}},
	}
	_, pub := bchec.PrivKeyFromBytes(bchec.S256(), r.bytes(32))
	for _, n := range Sizes(thorough) {
		for ci, c := range ctors {
			data := r.bytes(n)
			if c.name == "NewAddressPubKey" {
				switch n {
				case 33:
					data = pub.SerializeCompressed()
				case 65:
					data = pub.SerializeUncompressed()
				}
			}
			net := (n + ci) % 6
			spare := spares[(n+ci)%len(spares)]
			m.guarded("bchutil."+c.name, map[string]interface{}{"net": params[net].Name}, data, spare, func(in []byte) string {
				a, err := c.f(in, params[net])
				if err != nil {
					return errStr(err)
				}
				// the methods of the result are part of the reachable behaviour: rendering must not write either
				_ = a.EncodeAddress()
				_ = a.String()
				_ = a.ScriptAddress()
				return "ok"
			})
		}
	}
}

// Run executes the monitors that concern the property.
func (m *Mon) Run(spec *Spec, thorough bool, withPurity bool) {
	switch m.Prop {
	case "C01":
		m.TablesCash()
		m.TablesB58()
		m.TablesErrors()
		m.Nets(spec)
		if withPurity {
			m.PurityAddress(thorough)
		}
	case "C02":
		m.TablesCash()
		m.TablesB58()
		m.TablesErrors()
		m.Nets(spec)
		m.Whitespace(spec, thorough)
	case "C03":
		m.TablesCash()
		m.TablesBech32()
		m.TablesErrors()
		if withPurity { // the heavier sweep: once per run, not at start and end
			m.Subst1(thorough)
		}
	case "C06":
		m.TablesB58()
		m.TablesErrors()
		m.NetParams(spec)
		m.WIF(spec)
	case "C07":
		m.TablesB58()
		m.TablesBech32()
		m.TablesErrors()
		if withPurity {
			m.PurityBech32(thorough)
			m.PurityBase58(thorough)
		}
	}
}

package codecenv

// Source-literal dictionary ("magic values").  Random and boundary generators cannot meet a condition of the form
// `input[0] == 0x5c && input[1] == 0x9e && ...` or `s == "<one particular string>"` (probability 2^-32 and less),
// yet such a condition has to spell its operands out in the source.  This file parses every non-test Go file of
// the module (all of them, whatever their build constraints and names), collects
//
//	strings   every string literal of 6..300 bytes;
//	pins      per function, the byte positions compared with constants (`x[3] == 0xa7`, either order, any
//	          comparison operator) -> inputs that have exactly these bytes at these positions;
//	seqs      []byte{...} / [N]byte{...} composite literals of 2..64 constant elements -> prefix and suffix;
//	words     integer literals above 0xff -> their big- and little-endian 2/4/8-byte forms as prefix and suffix;
//
// and runs the property's own predicates on inputs built from them (construct -> encode -> decode round trips
// against the specification's strings; every string literal through the decoders, an accepted one must be the
// specification's encoding of what it decodes to).  This is the static form of the comparison-operand dictionaries
// of coverage-guided fuzzers; a condition on a HASH of the input, or on operands computed at run time, is out of
// its reach.

import (
	"bytes"
	"crypto/sha256"
	"encoding/hex"
	"fmt"
	"go/ast"
	"go/parser"
	"go/token"
	"os"
	"path/filepath"
	"sort"
	"strconv"
	"strings"

	"github.com/gcash/bchd/bchec"
	"github.com/gcash/bchutil"
	"github.com/gcash/bchutil/base58"
	"github.com/gcash/bchutil/bech32"
	"golang.org/x/crypto/ripemd160"
)

type DictString struct {
	S     string
	Where string
}

type DictBytes struct {
	At    map[int]byte // position -> value (pins), or nil
	Seq   []byte       // or a sequence to be used as prefix / suffix
	Where string
}

type Dict struct {
	Repo    string
	Files   int
	Strings []DictString
	Bytes   []DictBytes
}

func litInt(e ast.Expr) (uint64, bool) {
	if p, ok := e.(*ast.ParenExpr); ok {
		return litInt(p.X)
	}
	if c, ok := e.(*ast.CallExpr); ok && len(c.Args) == 1 { // byte(0x5c), uint8('a')
		if id, ok := c.Fun.(*ast.Ident); ok && (id.Name == "byte" || id.Name == "uint8" || id.Name == "int" || id.Name == "rune" || id.Name == "uint32" || id.Name == "uint64") {
			return litInt(c.Args[0])
		}
	}
	b, ok := e.(*ast.BasicLit)
	if !ok {
		return 0, false
	}
	switch b.Kind {
	case token.INT:
		v, err := strconv.ParseUint(strings.ReplaceAll(b.Value, "_", ""), 0, 64)
		return v, err == nil
	case token.CHAR:
		if r, _, _, err := strconv.UnquoteChar(strings.Trim(b.Value, "'"), '\''); err == nil {
			return uint64(r), true
		}
	}
	return 0, false
}

// LoadDict parses the module under repo.  A nil result (repo unreadable) makes the dictionary monitors no-ops.
func LoadDict(repo string) *Dict {
	if repo == "" {
		return nil
	}
	d := &Dict{Repo: repo}
	seenS := map[string]bool{}
	seenB := map[string]bool{}
	addBytes := func(b DictBytes) {
		k := fmt.Sprint(b.At, b.Seq)
		if !seenB[k] {
			seenB[k] = true
			d.Bytes = append(d.Bytes, b)
		}
	}
	fset := token.NewFileSet()
	filepath.Walk(repo, func(p string, fi os.FileInfo, err error) error {
		if err != nil {
			return nil
		}
		if fi.IsDir() {
			if n := fi.Name(); p != repo && (strings.HasPrefix(n, ".") || n == "testdata" || n == "vendor") {
				return filepath.SkipDir
			}
			return nil
		}
		if !strings.HasSuffix(p, ".go") || strings.HasSuffix(p, "_test.go") {
			return nil
		}
		f, err := parser.ParseFile(fset, p, nil, parser.SkipObjectResolution)
		if err != nil || f == nil {
			return nil
		}
		d.Files++
		rel, _ := filepath.Rel(repo, p)
		where := func(n ast.Node, fn string) string {
			return fmt.Sprintf("%s:%d (%s)", rel, fset.Position(n.Pos()).Line, fn)
		}
		scan := func(root ast.Node, fn string) {
			pins := map[string]map[int]byte{} // by indexed expression
			var pinPos ast.Node
			ast.Inspect(root, func(n ast.Node) bool {
				switch x := n.(type) {
				case *ast.BasicLit:
					if x.Kind == token.STRING {
						if s, err := strconv.Unquote(x.Value); err == nil && len(s) >= 6 && len(s) <= 300 && !seenS[s] {
							seenS[s] = true
							d.Strings = append(d.Strings, DictString{s, where(x, fn)})
						}
						if s, err := strconv.Unquote(x.Value); err == nil && len(s) >= 2 && len(s) <= 8 {
							addBytes(DictBytes{Seq: []byte(s), Where: where(x, fn)})
						}
					} else if v, ok := litInt(x); ok && v > 0xff {
						for _, w := range []int{2, 4, 8} {
							if w < 8 && v>>(8*uint(w)) != 0 {
								continue
							}
							be, le := make([]byte, w), make([]byte, w)
							for i := 0; i < w; i++ {
								be[w-1-i], le[i] = byte(v>>(8*uint(i))), byte(v>>(8*uint(i)))
							}
							addBytes(DictBytes{Seq: be, Where: where(x, fn)})
							addBytes(DictBytes{Seq: le, Where: where(x, fn)})
						}
					}
				case *ast.BinaryExpr:
					switch x.Op {
					case token.EQL, token.NEQ, token.LSS, token.GTR, token.LEQ, token.GEQ:
						for _, pair := range [][2]ast.Expr{{x.X, x.Y}, {x.Y, x.X}} {
							ix, ok := pair[0].(*ast.IndexExpr)
							if !ok {
								continue
							}
							i, ok1 := litInt(ix.Index)
							v, ok2 := litInt(pair[1])
							if ok1 && ok2 && i < 4096 {
								name := fmt.Sprint(fset.Position(ix.X.Pos()).Offset)
								if id, ok := ix.X.(*ast.Ident); ok {
									name = id.Name
								}
								if pins[name] == nil {
									pins[name] = map[int]byte{}
								}
								if _, dup := pins[name][int(i)]; !dup {
									pins[name][int(i)] = byte(v)
								}
								if pinPos == nil {
									pinPos = x
								}
							}
						}
					}
				case *ast.CompositeLit:
					if len(x.Elts) >= 2 && len(x.Elts) <= 64 {
						seq := make([]byte, 0, len(x.Elts))
						for _, e := range x.Elts {
							v, ok := litInt(e)
							if !ok || v > 0xff {
								seq = nil
								break
							}
							seq = append(seq, byte(v))
						}
						if len(seq) >= 2 {
							addBytes(DictBytes{Seq: seq, Where: where(x, fn)})
						}
					}
				}
				return true
			})
			var names []string
			for n := range pins {
				names = append(names, n)
			}
			sort.Strings(names)
			for _, n := range names {
				addBytes(DictBytes{At: pins[n], Where: where(pinPos, fn) + " comparisons of " + n + "[const] with constants"})
			}
		}
		for _, decl := range f.Decls {
			if fd, ok := decl.(*ast.FuncDecl); ok {
				scan(fd, "func "+fd.Name.Name)
			} else {
				scan(decl, "package level")
			}
		}
		return nil
	})
	return d
}

// candidates: byte strings of length n built from the dictionary entry (random / zero filler).
func (b DictBytes) candidates(n int, r *rng) [][]byte {
	var out [][]byte
	for _, zero := range []bool{false, true} {
		base := make([]byte, n)
		if !zero {
			base = r.bytes(n)
		}
		if b.At != nil {
			c := append([]byte(nil), base...)
			used := false
			for i, v := range b.At {
				if i < n {
					c[i], used = v, true
				}
			}
			if used {
				out = append(out, c)
			}
			continue
		}
		if len(b.Seq) <= n {
			p := append([]byte(nil), base...)
			copy(p, b.Seq)
			s := append([]byte(nil), base...)
			copy(s[n-len(b.Seq):], b.Seq)
			out = append(out, p, s)
		}
	}
	return out
}

func hash160(b []byte) []byte {
	h := sha256Sum(b)
	r := ripemd160.New()
	r.Write(h)
	return r.Sum(nil)
}

func sha256Sum(b []byte) []byte { h := sha256.Sum256(b); return h[:] }

// DictRoundTrips (C01): hashes and scripts built from the dictionary through every constructor.
func (m *Mon) DictRoundTrips(d *Dict, spec *Spec) {
	if d == nil {
		return
	}
	r := &rng{s: 0xD1C7}
	type kind struct {
		name string
		n    int
		typ  byte
		slp  bool
		leg  int // 0 cash, 1 legacy pkh, 2 legacy sh
		mk   func(h []byte, net int) (bchutil.Address, error)
	}
	w := func(a bchutil.Address, err error) (bchutil.Address, error) { return a, err }
	kinds := []kind{
		{"PKH", 20, 0, false, 0, func(h []byte, n int) (bchutil.Address, error) { return w(bchutil.NewAddressPubKeyHash(h, params[n])) }},
		{"SLP-PKH", 20, 0, true, 0, func(h []byte, n int) (bchutil.Address, error) {
			return w(bchutil.NewSlpAddressPubKeyHash(h, params[n]))
		}},
		{"SH", 20, 1, false, 0, func(h []byte, n int) (bchutil.Address, error) {
			return w(bchutil.NewAddressScriptHashFromHash(h, params[n]))
		}},
		{"SLP-SH", 20, 1, true, 0, func(h []byte, n int) (bchutil.Address, error) {
			return w(bchutil.NewSlpAddressScriptHashFromHash(h, params[n]))
		}},
		{"SH32", 32, 1, false, 0, func(h []byte, n int) (bchutil.Address, error) {
			return w(bchutil.NewAddressScriptHash32FromHash(h, params[n]))
		}},
		{"SLP-SH32", 32, 1, true, 0, func(h []byte, n int) (bchutil.Address, error) {
			return w(bchutil.NewSlpAddressScriptHash32FromHash(h, params[n]))
		}},
		{"LegPKH", 20, 0, false, 1, func(h []byte, n int) (bchutil.Address, error) {
			return w(bchutil.NewLegacyAddressPubKeyHash(h, params[n]))
		}},
		{"LegSH", 20, 0, false, 2, func(h []byte, n int) (bchutil.Address, error) {
			return w(bchutil.NewLegacyAddressScriptHashFromHash(h, params[n]))
		}},
	}
	for ei, e := range d.Bytes {
		for _, k := range kinds {
			for ci, h := range e.candidates(k.n, r) {
				net := (ei + ci) % 6
				if k.slp && spec.Nets[net].Slp == "" {
					net = 0
				}
				ns := spec.Nets[net]
				a, err := k.mk(h, net)
				m.count("env:dict:roundtrip:" + k.name)
				rp := map[string]interface{}{"kind": k.name, "net": ns.Name, "hash": hex.EncodeToString(h), "dictionary_entry": e.Where}
				if err != nil {
					rp["error"] = err.Error()
					m.violate("env:dict:construct:"+k.name, "constructor refused a hash of the kind's length (hash built from constants of the source)", rp)
					continue
				}
				var want string
				switch {
				case k.leg == 1:
					want = RefBase58Check(ns.PKH, h)
				case k.leg == 2:
					want = RefBase58Check(ns.SH, h)
				case k.slp:
					want = RefCashAddr(ns.Slp, k.typ, h)
				default:
					want = RefCashAddr(ns.Cash, k.typ, h)
				}
				enc := a.EncodeAddress()
				rp["encode_address"], rp["specification"], rp["script_address"] = enc, want, hex.EncodeToString(a.ScriptAddress())
				if enc != want || !bytes.Equal(a.ScriptAddress(), h) {
					m.violate("env:dict:spec:"+k.name, "the address built from this hash is not the specification's (hash built from constants compared with input bytes in the source)", rp)
					continue
				}
				o := decode(enc, net)
				if !o.ok || !bytes.Equal(o.hash, h) || o.enc != enc {
					rp["DecodeAddress"] = o.json()
					m.violate("env:dict:roundtrip:"+k.name, "DecodeAddress(EncodeAddress(a)) != a (hash built from constants of the source)", rp)
				}
			}
		}
		// scripts and keys
		for _, n := range []int{20, 33, 65} {
			for ci, s := range e.candidates(n, r) {
				net := (ei + ci) % 6
				m.count("env:dict:script")
				for _, c := range []struct {
					name string
					want []byte
					mk   func() (bchutil.Address, error)
				}{
					{"NewAddressScriptHash", hash160(s), func() (bchutil.Address, error) { return w(bchutil.NewAddressScriptHash(s, params[net])) }},
					{"NewLegacyAddressScriptHash", hash160(s), func() (bchutil.Address, error) { return w(bchutil.NewLegacyAddressScriptHash(s, params[net])) }},
					{"NewAddressScriptHash32", sha256d(s), func() (bchutil.Address, error) { return w(bchutil.NewAddressScriptHash32(s, params[net])) }},
				} {
					a, err := c.mk()
					if err != nil || !bytes.Equal(a.ScriptAddress(), c.want) {
						m.violate("env:dict:script:"+c.name, "script constructor does not hash as the specification says (script built from constants of the source)",
							map[string]interface{}{"constructor": c.name, "script": hex.EncodeToString(s), "required_payload": hex.EncodeToString(c.want), "error": fmt.Sprint(err), "dictionary_entry": e.Where})
					}
				}
			}
		}
	}
}

// DictStrings (C02 / C03): every string literal of the source through DecodeAddress on every network; an accepted
// one must be the specification's encoding of what it decoded to.
func (m *Mon) DictStrings(d *Dict, spec *Spec) {
	if d == nil {
		return
	}
	for _, ds := range d.Strings {
		variants := []string{ds.S}
		if i := strings.IndexByte(ds.S, ':'); i >= 0 && i+1 < len(ds.S) {
			variants = append(variants, ds.S[i+1:])
		}
		for _, s := range variants {
			for net, ns := range spec.Nets {
				o := decode(s, net)
				m.count("env:dict:string")
				if !o.ok {
					continue
				}
				var allowed []string
				lower := strings.ToLower(s)
				switch o.kind {
				case "PKH", "SH", "SH32":
					typ := byte(1)
					if o.kind == "PKH" {
						typ = 0
					}
					for _, p := range []string{ns.Cash, ns.Slp} {
						if p != "" {
							body := RefCashAddr(p, typ, o.hash)
							allowed = append(allowed, body, p+":"+body)
						}
					}
				case "LegPKH":
					lower = s
					for _, id := range spec.PKHIds {
						allowed = append(allowed, RefBase58Check(byte(id), o.hash))
					}
				case "LegSH":
					lower = s
					for _, id := range spec.SHIds {
						allowed = append(allowed, RefBase58Check(byte(id), o.hash))
					}
				case "PubKey":
					allowed = append(allowed, hex.EncodeToString(o.hash))
				}
				ok := false
				for _, a := range allowed {
					ok = ok || a == lower
				}
				if !ok {
					m.violate("env:dict:accept", "a string that occurs as a literal in the source is accepted by DecodeAddress although it is not the specification's encoding of the address it decodes to (checksum / canonical form)",
						map[string]interface{}{"string": s, "net": ns.Name, "dictionary_entry": ds.Where, "DecodeAddress": o.json(), "specification_strings_of_the_decoded_address": allowed})
				}
			}
		}
	}
}

// DictWIF (C06): string literals through DecodeWIF; 32-byte keys built from the dictionary through NewWIF.
func (m *Mon) DictWIF(d *Dict, spec *Spec) {
	if d == nil {
		return
	}
	for _, ds := range d.Strings {
		w, err := bchutil.DecodeWIF(ds.S)
		m.count("env:dict:wif-string")
		if err != nil {
			continue
		}
		body := w.PrivKey.Serialize()
		if w.CompressPubKey {
			body = append(body, 1)
		}
		ok := false
		for v := 0; v < 256 && !ok; v++ {
			ok = RefBase58Check(byte(v), body) == ds.S
		}
		if !ok {
			m.violate("env:dict:wif-accept", "a string literal of the source is accepted by DecodeWIF although it is not Base58Check(version, key [, 01])", map[string]interface{}{"string": ds.S, "dictionary_entry": ds.Where, "again": w.String()})
		}
	}
	r := &rng{s: 0xD1C6}
	for ei, e := range d.Bytes {
		for ci, key := range e.candidates(32, r) {
			priv, _ := bchec.PrivKeyFromBytes(bchec.S256(), key)
			if priv.D.Sign() == 0 || priv.D.Cmp(bchec.S256().N) >= 0 || !bytes.Equal(priv.Serialize(), key) {
				continue
			}
			net := (ei + ci) % 6
			for _, comp := range []bool{false, true} {
				body := append([]byte(nil), key...)
				if comp {
					body = append(body, 1)
				}
				want := RefBase58Check(spec.Nets[net].WIF, body)
				w, err := bchutil.NewWIF(priv, params[net], comp)
				m.count("env:dict:wif")
				if err != nil || w.String() != want {
					m.violate("env:dict:wif-spec", "NewWIF(key).String() is not Base58Check(id, key [, 01]) (key built from constants of the source)",
						map[string]interface{}{"key": hex.EncodeToString(key), "compress": comp, "net": spec.Nets[net].Name, "required": want, "error": fmt.Sprint(err), "dictionary_entry": e.Where})
					continue
				}
				w2, err := bchutil.DecodeWIF(want)
				if err != nil || w2.CompressPubKey != comp || !bytes.Equal(w2.PrivKey.Serialize(), key) || w2.String() != want {
					m.violate("env:dict:wif-roundtrip", "DecodeWIF(NewWIF(key).String()) != key (key built from constants of the source)",
						map[string]interface{}{"key": hex.EncodeToString(key), "compress": comp, "string": want, "error": fmt.Sprint(err), "dictionary_entry": e.Where})
				}
			}
		}
	}
}

// DictCodec (C07): byte strings built from the dictionary through base58 / Base58Check / bech32; string literals
// through the decoders.
func (m *Mon) DictCodec(d *Dict) {
	if d == nil {
		return
	}
	r := &rng{s: 0xD1C0}
	for _, e := range d.Bytes {
		for _, n := range []int{8, 21, 25, 34} {
			for _, b := range e.candidates(n, r) {
				m.count("env:dict:b58")
				rp := map[string]interface{}{"bytes": hex.EncodeToString(b), "dictionary_entry": e.Where}
				if s, want := base58.Encode(b), RefBase58(b); s != want || !bytes.Equal(base58.Decode(want), b) {
					rp["encoded"], rp["required"], rp["decoded_back"] = s, want, hex.EncodeToString(base58.Decode(want))
					m.violate("env:dict:b58", "base58.Encode / Decode differ from positional notation (bytes built from constants of the source)", rp)
				}
				ver := b[0]
				want := RefBase58Check(ver, b[1:])
				p, v, err := base58.CheckDecode(want)
				if s := base58.CheckEncode(b[1:], ver); s != want || err != nil || v != ver || !bytes.Equal(p, b[1:]) {
					rp["check_encoded"], rp["required"], rp["error"] = s, want, fmt.Sprint(err)
					m.violate("env:dict:b58check", "CheckEncode / CheckDecode differ from Base58(version || payload || sha256d[:4]) (bytes built from constants of the source)", rp)
				}
				five, err := bech32.ConvertBits(b, 8, 5, true)
				var back []byte
				if err == nil {
					back, err = bech32.ConvertBits(five, 5, 8, false)
				}
				if err != nil || !bytes.Equal(five, bits8to5(b)) || !bytes.Equal(back, b) {
					rp["regrouped"], rp["back"], rp["error"] = hex.EncodeToString(five), hex.EncodeToString(back), fmt.Sprint(err)
					m.violate("env:dict:convertbits", "ConvertBits 8->5->8 is not the regrouping / its inverse (bytes built from constants of the source)", rp)
					continue
				}
				if len(five) <= 80 {
					s, err := bech32.Encode("bc", five)
					h2, d2, err2 := bech32.Decode(refBech32("bc", five))
					if err != nil || s != refBech32("bc", five) || err2 != nil || h2 != "bc" || !bytes.Equal(d2, five) {
						rp["bech32"], rp["bip173"], rp["errors"] = s, refBech32("bc", five), fmt.Sprint(err, err2)
						m.violate("env:dict:bech32", "bech32.Encode / Decode differ from BIP173 (data built from constants of the source)", rp)
					}
				}
			}
		}
	}
	for _, ds := range d.Strings {
		m.count("env:dict:codec-string")
		if p, v, err := base58.CheckDecode(ds.S); err == nil && RefBase58Check(v, p) != ds.S {
			m.violate("env:dict:b58check-accept", "a string literal of the source is accepted by CheckDecode although it is not Base58Check of what it decodes to",
				map[string]interface{}{"string": ds.S, "dictionary_entry": ds.Where, "version": v, "payload": hex.EncodeToString(p), "required": RefBase58Check(v, p)})
		}
		if len(ds.S) <= 90 {
			if hrp, data, err := bech32.Decode(ds.S); err == nil && refBech32(hrp, data) != strings.ToLower(ds.S) {
				m.violate("env:dict:bech32-accept", "a string literal of the source is accepted by bech32.Decode although it is not the BIP173 string of what it decodes to",
					map[string]interface{}{"string": ds.S, "dictionary_entry": ds.Where, "hrp": hrp, "data": hex.EncodeToString(data), "bip173": refBech32(hrp, data)})
			}
		}
	}
}

// RunDict executes the dictionary monitors that concern the property.
func (m *Mon) RunDict(d *Dict, spec *Spec) {
	switch m.Prop {
	case "C01":
		m.DictRoundTrips(d, spec)
	case "C02", "C03":
		m.DictStrings(d, spec)
	case "C06":
		m.DictWIF(d, spec)
	case "C07":
		m.DictCodec(d)
	}
}

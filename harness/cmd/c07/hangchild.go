package main

// Round 3 (red team): the leading-zero-run family (runs of 2^8 / 2^16 leading '1' characters and leading zero bytes)
// is first run in a CHILD PROCESS with a per-call deadline.  A counter of leading zeros kept in a uint8 / uint16 makes
// base58.Decode loop for ever exactly on these inputs; a goroutine stuck in that loop cannot be stopped, and a hung
// harness would only surface as a time-out of the whole check without an input.  The child prints `B <idx> <json>`
// before a call, `M <idx> <json>` when the result differs from the reference encoder / decoder, `E <idx>` after it;
// the parent watches the child's CPU time and the wall clock, kills it on a hang and reports `C07:b58:hang` with
// the call as replay; the in-process run of the same family (monitors + Coq cases) is then skipped.

import (
	"bufio"
	"bytes"
	"encoding/json"
	"fmt"
	"os"
	"os/exec"
	"strconv"
	"strings"
	"sync"
	"time"

	"github.com/gcash/bchutil/base58"

	al "verif/harness/cmd/c01/addrlib"
	"verif/harness/internal/vh"
)

const (
	hangChildEnv  = "C07_HANG_CHILD"
	hangCPULimit  = 6 * time.Second
	hangWallLimit = 60 * time.Second
)

type hangProbe struct {
	Op   string `json:"op"`
	N    int    `json:"run_length"`
	Tail string `json:"tail_hex"`
	Cons string `json:"construction"`
}

func hangProbes(thorough bool) []hangProbe {
	var out []hangProbe
	ns := []int{7, 8, 63, 64, 127, 128, 254, 255, 256, 257, 258, 300, 511, 512, 513, 1000}
	for _, n := range ns {
		for _, tail := range [][]byte{nil, {1}, {0xff, 0, 1}} {
			for _, op := range []string{"Decode", "Encode", "CheckDecode", "CheckEncode"} {
				out = append(out, mkHangProbe(op, n, tail))
			}
		}
	}
	big := []int{65536}
	if thorough {
		big = []int{65535, 65536, 65537}
	}
	for _, n := range big {
		for _, op := range []string{"Decode", "Encode", "CheckDecode", "CheckEncode"} {
			out = append(out, mkHangProbe(op, n, []byte{1}))
		}
	}
	return out
}

func mkHangProbe(op string, n int, tail []byte) hangProbe {
	p := hangProbe{Op: op, N: n, Tail: vh.Hex(tail)}
	switch op {
	case "Decode":
		p.Cons = fmt.Sprintf("base58.Decode(strings.Repeat(\"1\", %d) + base58.Encode(%x))", n, tail)
	case "Encode":
		p.Cons = fmt.Sprintf("base58.Encode(append(make([]byte, %d), 0x%x...))", n, tail)
	case "CheckDecode":
		p.Cons = fmt.Sprintf("base58.CheckDecode(Base58Check string of version 0, payload = %d zero bytes || %x)", n, tail)
	default:
		p.Cons = fmt.Sprintf("base58.CheckEncode(append(make([]byte, %d), 0x%x...), 0)", n, tail)
	}
	return p
}

// run executes the probe and returns a description of a disagreement with the reference ("" when none).
func (p hangProbe) run() string {
	tail, _ := hexDecode(p.Tail)
	switch p.Op {
	case "Decode":
		s := strings.Repeat("1", p.N) + al.RefBase58(tail)
		d := base58.Decode(s)
		if want := al.RefBase58Decode(s); !bytes.Equal(d, want) {
			return fmt.Sprintf("decoded %d bytes (%d leading zero bytes), required %d bytes (%d leading zero bytes)", len(d), leadingZeros(d), len(want), leadingZeros(want))
		}
	case "Encode":
		b := append(make([]byte, p.N), tail...)
		s := base58.Encode(b)
		if want := al.RefBase58(b); s != want {
			return fmt.Sprintf("encoded to %d characters, required %d characters", len(s), len(want))
		}
	case "CheckDecode":
		payload := append(make([]byte, p.N), tail...)
		s := al.RefBase58Check(0, payload)
		res, ver, err := base58.CheckDecode(s)
		if err != nil || ver != 0 || !bytes.Equal(res, payload) {
			return fmt.Sprintf("CheckDecode of a valid string: err = %v, version %d, payload of %d bytes (required %d)", err, ver, len(res), len(payload))
		}
	default:
		payload := append(make([]byte, p.N), tail...)
		if s, want := base58.CheckEncode(payload, 0), al.RefBase58Check(0, payload); s != want {
			return fmt.Sprintf("CheckEncode gave %d characters, required %d", len(s), len(want))
		}
	}
	return ""
}

func leadingZeros(b []byte) int {
	n := 0
	for n < len(b) && b[n] == 0 {
		n++
	}
	return n
}

func hexDecode(s string) ([]byte, error) {
	out := make([]byte, len(s)/2)
	for i := range out {
		v, err := strconv.ParseUint(s[2*i:2*i+2], 16, 8)
		if err != nil {
			return nil, err
		}
		out[i] = byte(v)
	}
	return out, nil
}

func hangChildMain() {
	thorough := os.Getenv("C07_TIER") == "thorough"
	start, _ := strconv.Atoi(os.Getenv("C07_SKIP"))
	skipOps := map[string]bool{}
	for _, o := range strings.Split(os.Getenv("C07_SKIP_OPS"), ",") {
		skipOps[o] = true
	}
	w := bufio.NewWriter(os.Stdout)
	for i, p := range hangProbes(thorough) {
		if i < start || skipOps[p.Op] {
			continue
		}
		j, _ := json.Marshal(p)
		fmt.Fprintf(w, "B %d %s\n", i, j)
		w.Flush()
		var diff string
		if pn, msg := vh.Catch(func() { diff = p.run() }); pn {
			diff = "panic: " + msg
		}
		if diff != "" {
			dj, _ := json.Marshal(diff)
			fmt.Fprintf(w, "M %d %s\n", i, dj)
		}
		fmt.Fprintf(w, "E %d\n", i)
		w.Flush()
	}
	fmt.Fprintf(w, "R done\n")
	w.Flush()
}

func childCPU(pid int) time.Duration {
	b, err := os.ReadFile(fmt.Sprintf("/proc/%d/stat", pid))
	if err != nil {
		return 0
	}
	s := string(b)
	k := strings.LastIndexByte(s, ')')
	if k < 0 {
		return 0
	}
	f := strings.Fields(s[k+1:])
	if len(f) < 13 {
		return 0
	}
	u, _ := strconv.ParseInt(f[11], 10, 64)
	st, _ := strconv.ParseInt(f[12], 10, 64)
	return time.Duration(u+st) * 10 * time.Millisecond
}

// runHangPreflight returns the set of operations that hung.
func runHangPreflight() map[string]bool {
	hung := map[string]bool{}
	exe, err := os.Executable()
	vh.Must(err)
	probes := hangProbes(cfg.Thorough())
	rep.Extra["leading_zero_run_preflight"] = fmt.Sprintf("%d calls (runs of 7..1000 and 2^16 leading '1' characters / zero bytes through Decode, Encode, CheckDecode, CheckEncode, compared with the reference) in a child process; a call that burns more than %v of CPU or does not return within %v is reported as C07:b58:hang", len(probes), hangCPULimit, hangWallLimit)
	start := 0
	for attempt := 0; attempt < 8 && start < len(probes); attempt++ {
		var ops []string
		for o := range hung {
			ops = append(ops, o)
		}
		cmd := exec.Command(exe)
		cmd.Env = append(os.Environ(), hangChildEnv+"=1", "C07_TIER="+cfg.Tier, "C07_SKIP="+strconv.Itoa(start), "C07_SKIP_OPS="+strings.Join(ops, ","))
		stdout, err := cmd.StdoutPipe()
		vh.Must(err)
		vh.Must(cmd.Start())
		var mu sync.Mutex
		open, finished := -1, false
		var since time.Time
		var cpu0 time.Duration
		why := ""
		go func() {
			for {
				time.Sleep(100 * time.Millisecond)
				mu.Lock()
				if finished {
					mu.Unlock()
					return
				}
				if open >= 0 {
					c, wl := childCPU(cmd.Process.Pid)-cpu0, time.Since(since)
					if c > hangCPULimit || wl > hangWallLimit {
						why = fmt.Sprintf("%v of CPU time burnt after %v without returning (limits %v CPU, %v wall)", c, wl.Round(time.Millisecond), hangCPULimit, hangWallLimit)
						finished = true
						_ = cmd.Process.Kill()
						mu.Unlock()
						return
					}
				}
				mu.Unlock()
			}
		}()
		sc := bufio.NewScanner(stdout)
		sc.Buffer(make([]byte, 1<<20), 16<<20)
		done := false
		for sc.Scan() {
			f := strings.SplitN(sc.Text(), " ", 3)
			switch f[0] {
			case "B":
				mu.Lock()
				open, _ = strconv.Atoi(f[1])
				since, cpu0 = time.Now(), childCPU(cmd.Process.Pid)
				mu.Unlock()
			case "M":
				i, _ := strconv.Atoi(f[1])
				if i >= 0 && i < len(probes) && len(f) == 3 {
					var diff string
					_ = json.Unmarshal([]byte(f[2]), &diff)
					key := map[string]string{"Decode": "C07:b58:decode_ref", "Encode": "C07:b58:encode_ref", "CheckDecode": "C07:check:roundtrip", "CheckEncode": "C07:check:spec"}[probes[i].Op]
					rep.Violate(key, "base58."+probes[i].Op+" differs from the reference on a long run of leading zeros: "+diff, map[string]interface{}{"call": probes[i], "observed": diff})
				}
			case "E":
				mu.Lock()
				if !finished {
					open = -1
				}
				mu.Unlock()
				rep.Count("b58:leading-zero-run-preflight", "p"+f[1], true)
			case "R":
				done = true
			}
		}
		_ = cmd.Wait()
		mu.Lock()
		finished = true
		idx, w := open, why
		mu.Unlock()
		if done {
			break
		}
		if idx < 0 || idx >= len(probes) {
			rep.Violate("C07:b58:hang", "the child process running the leading-zero-run family died outside a call", nil)
			break
		}
		p := probes[idx]
		if w == "" {
			w = "the child process died (fatal error) during the call"
		}
		rep.Violate("C07:b58:hang", fmt.Sprintf("base58.%s does not return on a run of %d leading zeros: %s", p.Op, p.N, w), map[string]interface{}{"call": p, "note": "run in a child process with a deadline; the child was killed"})
		hung[p.Op] = true
		start = idx + 1
	}
	return hung
}

// Command c07 drives base58, base58check and bech32 of the repository under
// test: it evaluates the property's own predicates on the implementation
// (monitors) and writes correspondence cases for the Coq models.
package main

import (
	"bytes"
	"crypto/sha256"
	"fmt"
	"os"
	"strings"

	"github.com/gcash/bchutil/base58"
	"github.com/gcash/bchutil/bech32"

	al "verif/harness/cmd/c01/addrlib"
	"verif/harness/cmd/c01/addrlib/envrun"
	"verif/harness/internal/vh"
)

const b58Alphabet = "123456789ABCDEFGHJKLMNPQRSTUVWXYZabcdefghijkmnopqrstuvwxyz"
const bechCharset = "qpzry9x8gf2tvdw0s3jn54khce6mua7l"

var cfg vh.Config
var rep *vh.Report
var cases *vh.Cases

// replays holds a sample of earlier calls; they are repeated at the very end of the run and must give
// the same answer (package-level state left over between calls would show here).
type replayCall struct {
	what string
	run  func() string
	want string
}

var replays []replayCall

// fam names the generator family currently running; it is part of every histogram key
var fam = "init"

func remember(what string, run func() string) {
	if len(replays) < 4000 && (len(replays) < 400 || len(what)%7 == 0) {
		replays = append(replays, replayCall{what, run, run()})
	}
}

func sha256d(b []byte) []byte {
	h := sha256.Sum256(b)
	h2 := sha256.Sum256(h[:])
	return h2[:]
}

// withSpare returns a slice equal to b with `spare` bytes of spare capacity filled with a marker.
func withSpare(b []byte, spare int) (s []byte, backing []byte) {
	backing = make([]byte, len(b)+spare)
	copy(backing, b)
	for i := len(b); i < len(backing); i++ {
		backing[i] = 0xA5
	}
	return backing[:len(b):len(backing)], backing
}

func pure(name string, before, backing []byte, what interface{}) {
	if !bytes.Equal(before, backing) {
		rep.Violate("C07:purity:"+name, name+" modified memory reachable from its argument",
			map[string]interface{}{"function": name, "input": what, "backing_before": vh.Hex(before), "backing_after": vh.Hex(backing)})
	}
}

// ---------- base58 ----------
func b58Encode(b []byte, corr bool) string {
	in, backing := withSpare(b, 8)
	before := append([]byte(nil), backing...)
	s := base58.Encode(in)
	pure("base58.Encode", before, backing, vh.Hex(b))
	rep.Count("b58enc:"+fam, "e"+string(b), len(b) > 0)
	if len(b) <= 64 {
		bc := append([]byte(nil), b...)
		remember("base58.Encode("+vh.Hex(bc)+")", func() string { return base58.Encode(bc) })
	}
	// monitor: the string is the one positional notation prescribes (independent big-integer reference)
	if want := al.RefBase58(b); want != s {
		rep.Violate("C07:b58:encode_ref", "base58.Encode differs from the base-58 positional notation of the bytes (leading zero bytes as '1')",
			map[string]interface{}{"bytes": vh.Hex(b), "encoded": s, "required": want})
	}
	// monitor: round trip
	if d := base58.Decode(s); !bytes.Equal(d, b) {
		rep.Violate("C07:b58:decode_encode", "base58.Decode(Encode(b)) != b",
			map[string]interface{}{"bytes": vh.Hex(b), "encoded": s, "decoded": vh.Hex(d)})
	}
	for i := 0; i < len(s); i++ {
		if !strings.ContainsRune(b58Alphabet, rune(s[i])) {
			rep.Violate("C07:b58:alphabet", "Encode produced a character outside the alphabet", map[string]interface{}{"bytes": vh.Hex(b), "encoded": s})
		}
	}
	// leading zeros <-> leading '1'
	nz := 0
	for nz < len(b) && b[nz] == 0 {
		nz++
	}
	n1 := 0
	for n1 < len(s) && s[n1] == '1' {
		n1++
	}
	if nz != n1 {
		rep.Violate("C07:b58:leading_zeros", "leading zero bytes do not correspond to leading '1' characters", map[string]interface{}{"bytes": vh.Hex(b), "encoded": s})
	}
	if corr {
		cases.Add(fmt.Sprintf("B58Enc %s %s", vh.CoqBytes(b), vh.CoqStr(s)), map[string]string{"op": "base58.Encode", "bytes": vh.Hex(b), "impl": s})
	}
	return s
}

func b58Decode(s string, corr bool) []byte {
	d := base58.Decode(s)
	foreign := false
	for i := 0; i < len(s); i++ {
		if !strings.ContainsRune(b58Alphabet, rune(s[i])) {
			foreign = true
		}
	}
	rep.Count("b58dec:"+fam, "d"+s, !foreign && len(s) > 0)
	if len(s) > 3 && len(s) <= 90 {
		remember("base58.Decode("+s+")", func() string { return vh.Hex(base58.Decode(s)) })
	}
	if want := al.RefBase58Decode(s); !bytes.Equal(d, want) {
		rep.Violate("C07:b58:decode_ref", "base58.Decode differs from the byte-wise table semantics (a byte outside the alphabet gives the empty result)",
			map[string]interface{}{"string": s, "string_hex": vh.Hex([]byte(s)), "decoded": vh.Hex(d), "required": vh.Hex(want)})
	}
	if len(d) > 0 && len(s) < 200 { // the result is the caller's: overwriting it must not change what the next call returns
		keep := append([]byte(nil), d...)
		for i := range d {
			d[i] ^= 0xff
		}
		if d2 := base58.Decode(s); !bytes.Equal(d2, keep) {
			rep.Violate("C07:stateless", "base58.Decode(s) changed after the caller overwrote the slice returned by the previous call",
				map[string]interface{}{"string": s, "first": vh.Hex(keep), "again": vh.Hex(d2)})
		}
		copy(d, keep)
	}
	if foreign {
		if len(d) != 0 {
			rep.Violate("C07:b58:foreign", "Decode of a string with a foreign character is not empty", map[string]interface{}{"string": s, "decoded": vh.Hex(d)})
		}
	} else if e := base58.Encode(d); e != s {
		rep.Violate("C07:b58:encode_decode", "base58.Encode(Decode(s)) != s for a string over the alphabet", map[string]interface{}{"string": s, "decoded": vh.Hex(d), "reencoded": e})
	}
	if corr {
		cases.Add(fmt.Sprintf("B58Dec %s %s", vh.CoqStr(s), vh.CoqBytes(d)), map[string]string{"op": "base58.Decode", "string": s, "impl": vh.Hex(d)})
	}
	return d
}

func checkDecode(s string, corr bool) {
	var res []byte
	var ver byte
	var err error
	if p, msg := vh.Catch(func() { res, ver, err = base58.CheckDecode(s) }); p {
		rep.Violate("C07:check:panic", "CheckDecode panicked", map[string]interface{}{"string": s, "panic": msg})
		return
	}
	// independent acceptance predicate
	d := base58.Decode(s)
	want := len(d) >= 5 && bytes.Equal(sha256d(d[:len(d)-4])[:4], d[len(d)-4:])
	rep.Count("chkdec:"+fam, "c"+s, len(d) >= 5)
	cls := 0
	if err == base58.ErrInvalidFormat {
		cls = 1
	} else if err == base58.ErrChecksum {
		cls = 2
	} else if err != nil {
		cls = 9
	}
	if want != (err == nil) {
		rep.Violate("C07:check:accept_iff", "CheckDecode acceptance differs from 'last four bytes are the double-SHA256 prefix of the rest'",
			map[string]interface{}{"string": s, "decoded": vh.Hex(d), "accepted": err == nil, "required": want})
	}
	if err == nil && len(res) > 0 { // the payload is the caller's: overwriting it must not change what the next call returns
		keep := append([]byte(nil), res...)
		for i := range res {
			res[i] ^= 0xff
		}
		if r2, v2, e2 := base58.CheckDecode(s); e2 != nil || v2 != ver || !bytes.Equal(r2, keep) {
			rep.Violate("C07:stateless", "base58.CheckDecode(s) changed after the caller overwrote the payload returned by the previous call",
				map[string]interface{}{"string": s, "first": vh.Hex(keep), "again": vh.Hex(r2), "history": "r1 := CheckDecode(s); overwrite r1; CheckDecode(s)"})
		}
		copy(res, keep)
	}
	if err == nil && (ver != d[0] || !bytes.Equal(res, d[1:len(d)-4])) {
		rep.Violate("C07:check:fields", "CheckDecode returned wrong version/payload", map[string]interface{}{"string": s, "decoded": vh.Hex(d), "version": ver, "payload": vh.Hex(res)})
	}
	if corr {
		cases.Add(fmt.Sprintf("ChkDec %s %d %s %d", vh.CoqStr(s), cls, vh.CoqBytes(res), ver), map[string]interface{}{"op": "base58.CheckDecode", "string": s, "impl_class": cls, "impl_payload": vh.Hex(res), "impl_version": ver})
	}
}

func checkEncode(p []byte, ver byte, corr bool) string {
	in, backing := withSpare(p, 8)
	before := append([]byte(nil), backing...)
	s := base58.CheckEncode(in, ver)
	pure("base58.CheckEncode", before, backing, vh.Hex(p))
	rep.Count("chkenc:"+fam, fmt.Sprintf("k%d:%s", ver, p), true)
	r, v, err := base58.CheckDecode(s)
	if err != nil || v != ver || !bytes.Equal(r, p) {
		rep.Violate("C07:check:roundtrip", "CheckDecode(CheckEncode(p, v)) != (p, v)", map[string]interface{}{"payload": vh.Hex(p), "version": ver, "string": s, "err": fmt.Sprint(err)})
	}
	// the string is the spec's: Base58(version || payload || sha256d(version||payload)[:4])
	full := append([]byte{ver}, p...)
	full = append(full, sha256d(full)[:4]...)
	if base58.Encode(full) != s {
		rep.Violate("C07:check:spec", "CheckEncode differs from Base58(version||payload||checksum)", map[string]interface{}{"payload": vh.Hex(p), "version": ver, "string": s})
	}
	if corr {
		cases.Add(fmt.Sprintf("ChkEnc %s %d %s", vh.CoqBytes(p), ver, vh.CoqStr(s)), map[string]interface{}{"op": "base58.CheckEncode", "payload": vh.Hex(p), "version": ver, "impl": s})
	}
	return s
}

// ---------- bech32 ----------
// independent BIP173 reference (written from the BIP text)
func refPolymod(values []int) int {
	gen := []int{0x3b6a57b2, 0x26508e6d, 0x1ea119fa, 0x3d4233dd, 0x2a1462b3}
	chk := 1
	for _, v := range values {
		top := chk >> 25
		chk = (chk&0x1ffffff)<<5 ^ v
		for i := 0; i < 5; i++ {
			if (top>>uint(i))&1 == 1 {
				chk ^= gen[i]
			}
		}
	}
	return chk
}
func refHrpExpand(hrp string) []int {
	var r []int
	for i := 0; i < len(hrp); i++ {
		r = append(r, int(hrp[i])>>5)
	}
	r = append(r, 0)
	for i := 0; i < len(hrp); i++ {
		r = append(r, int(hrp[i])&31)
	}
	return r
}
func refEncode(hrp string, data []byte) string {
	values := refHrpExpand(hrp)
	for _, d := range data {
		values = append(values, int(d))
	}
	values = append(values, 0, 0, 0, 0, 0, 0)
	pm := refPolymod(values) ^ 1
	var sb strings.Builder
	sb.WriteString(hrp)
	sb.WriteByte('1')
	for _, d := range data {
		sb.WriteByte(bechCharset[d])
	}
	for i := 0; i < 6; i++ {
		sb.WriteByte(bechCharset[(pm>>uint(5*(5-i)))&31])
	}
	return sb.String()
}

// refDecode: BIP173 validity, returning (ok, hrp, data)
func refDecode(s string) (bool, string, []byte) {
	if len(s) < 8 || len(s) > 90 {
		return false, "", nil
	}
	lower, upper := false, false
	for i := 0; i < len(s); i++ {
		c := s[i]
		if c < 33 || c > 126 {
			return false, "", nil
		}
		if c >= 'a' && c <= 'z' {
			lower = true
		}
		if c >= 'A' && c <= 'Z' {
			upper = true
		}
	}
	if lower && upper {
		return false, "", nil
	}
	s = strings.ToLower(s)
	pos := strings.LastIndexByte(s, '1')
	if pos < 1 || pos+7 > len(s) {
		return false, "", nil
	}
	hrp := s[:pos]
	var data []byte
	for i := pos + 1; i < len(s); i++ {
		k := strings.IndexByte(bechCharset, s[i])
		if k < 0 {
			return false, "", nil
		}
		data = append(data, byte(k))
	}
	values := refHrpExpand(hrp)
	for _, d := range data {
		values = append(values, int(d))
	}
	if refPolymod(values) != 1 {
		return false, "", nil
	}
	return true, hrp, data[:len(data)-6]
}

func bechDecode(s string, corr bool) {
	var hrp string
	var data []byte
	var err error
	if p, msg := vh.Catch(func() { hrp, data, err = bech32.Decode(s) }); p {
		rep.Violate("C07:bech32:decode_panic", "bech32.Decode panicked", map[string]interface{}{"string": s, "panic": msg})
		return
	}
	ok, rh, rd := refDecode(s)
	rep.Count("bechdec:"+fam, "bd"+s, ok)
	if err == nil && len(data) > 0 {
		keep := append([]byte(nil), data...)
		for i := range data {
			data[i] ^= 0xff
		}
		if _, d2, e2 := bech32.Decode(s); e2 != nil || !bytes.Equal(d2, keep) {
			rep.Violate("C07:stateless", "bech32.Decode(s) changed after the caller overwrote the slice returned by the previous call",
				map[string]interface{}{"string": s, "first": vh.Hex(keep), "again": vh.Hex(d2)})
		}
		copy(data, keep)
	}
	remember("bech32.Decode("+s+")", func() string { h, d, e := bech32.Decode(s); return fmt.Sprint(h, "|", vh.Hex(d), "|", e == nil) })
	if ok != (err == nil) || ok && (rh != hrp || !bytes.Equal(rd, data)) {
		rep.Violate("C07:bech32:decode_bip173", "bech32.Decode disagrees with BIP173",
			map[string]interface{}{"string": s, "accepted": err == nil, "required_accept": ok, "hrp": hrp, "data": vh.Hex(data)})
	}
	if err == nil {
		// accepted strings re-encode to themselves (lower-cased)
		if e, err2 := bech32.Encode(hrp, data); err2 != nil || e != strings.ToLower(s) {
			rep.Violate("C07:bech32:encode_decode", "an accepted bech32 string does not re-encode to itself", map[string]interface{}{"string": s, "reencoded": e})
		}
	}
	if corr {
		cases.Add(fmt.Sprintf("BechDec %s %s %s %s", vh.CoqStr(s), vh.CoqBool(err == nil), vh.CoqStr(hrp), vh.CoqBytes(data)),
			map[string]interface{}{"op": "bech32.Decode", "string": s, "impl_ok": err == nil, "impl_hrp": hrp, "impl_data": vh.Hex(data)})
	}
}

func bechEncode(hrp string, data []byte, spare int, corr bool) string {
	in, backing := withSpare(data, spare)
	before := append([]byte(nil), backing...)
	var s string
	var err error
	if p, msg := vh.Catch(func() { s, err = bech32.Encode(hrp, in) }); p {
		rep.Violate("C07:bech32:encode_panic", "bech32.Encode panicked", map[string]interface{}{"hrp": hrp, "data": vh.Hex(data), "panic": msg})
		return ""
	}
	if !bytes.Equal(before, backing) {
		rep.Violate("C07:purity:bech32.Encode", "bech32.Encode wrote into the spare capacity of the caller's data slice",
			map[string]interface{}{"function": "bech32.Encode", "hrp": hrp, "data": vh.Hex(data), "len": len(data), "cap": len(backing),
				"backing_before": vh.Hex(before), "backing_after": vh.Hex(backing)})
	}
	valid := true
	for _, d := range data {
		if d > 31 {
			valid = false
		}
	}
	rep.Count("bechenc:"+fam, "be"+hrp+"|"+string(data), valid)
	if valid != (err == nil) {
		rep.Violate("C07:bech32:encode_accept", "bech32.Encode acceptance differs from 'all data values < 32'", map[string]interface{}{"hrp": hrp, "data": vh.Hex(data), "err": fmt.Sprint(err)})
	}
	if err == nil {
		if want := refEncode(hrp, data); want != s {
			rep.Violate("C07:bech32:encode_bip173", "bech32.Encode differs from BIP173", map[string]interface{}{"hrp": hrp, "data": vh.Hex(data), "impl": s, "bip173": want})
		}
		hrpOK := len(hrp) >= 1 && hrp == strings.ToLower(hrp)
		for i := 0; i < len(hrp); i++ {
			if hrp[i] < 33 || hrp[i] > 126 {
				hrpOK = false
			}
		}
		if hrpOK && len(s) <= 90 {
			h2, d2, err2 := bech32.Decode(s)
			if err2 != nil || h2 != hrp || !bytes.Equal(d2, data) {
				rep.Violate("C07:bech32:decode_encode", "bech32.Decode(Encode(hrp, data)) != (hrp, data)", map[string]interface{}{"hrp": hrp, "data": vh.Hex(data), "string": s, "err": fmt.Sprint(err2)})
			}
		}
	}
	if corr || spare > 0 && len(data) < 8 {
		cases.Add(fmt.Sprintf("PureEnc %s %s %d%%nat %s", vh.CoqStr(hrp), vh.CoqBytes(data), spare, vh.CoqBytes(backing)),
			map[string]interface{}{"op": "bech32.Encode backing array", "hrp": hrp, "data": vh.Hex(data), "spare": spare, "impl_backing_after": vh.Hex(backing)})
	}
	if corr {
		cases.Add(fmt.Sprintf("BechEnc %s %s %s %s", vh.CoqStr(hrp), vh.CoqBytes(data), vh.CoqBool(err == nil), vh.CoqStr(s)),
			map[string]interface{}{"op": "bech32.Encode", "hrp": hrp, "data": vh.Hex(data), "impl_ok": err == nil, "impl": s})
	}
	return s
}

// reference regrouping on a bit list
func refConvert(data []byte, from, to uint8, pad bool) (bool, []byte) {
	var bits []byte
	for _, b := range data {
		for i := int(from) - 1; i >= 0; i-- {
			bits = append(bits, (b>>uint(i))&1)
		}
	}
	var out []byte
	i := 0
	for ; i+int(to) <= len(bits); i += int(to) {
		v := byte(0)
		for j := 0; j < int(to); j++ {
			v = v<<1 | bits[i+j]
		}
		out = append(out, v)
	}
	rem := len(bits) - i
	if rem > 0 {
		v := byte(0)
		for j := 0; j < rem; j++ {
			v = v<<1 | bits[i+j]
		}
		if pad {
			out = append(out, v<<(to-uint8(rem)))
		} else if rem > 4 || v != 0 {
			return false, nil
		}
	}
	return true, out
}

func convert(data []byte, from, to uint8, pad bool, corr bool) {
	in, backing := withSpare(data, 4)
	before := append([]byte(nil), backing...)
	var out []byte
	var err error
	if p, msg := vh.Catch(func() { out, err = bech32.ConvertBits(in, from, to, pad) }); p {
		rep.Violate("C07:bech32:convert_panic", "ConvertBits panicked", map[string]interface{}{"data": vh.Hex(data), "from": from, "to": to, "pad": pad, "panic": msg})
		return
	}
	pure("bech32.ConvertBits", before, backing, vh.Hex(data))
	if err == nil && len(out) > 0 {
		keep := append([]byte(nil), out...)
		for i := range out {
			out[i] ^= 0xff
		}
		if o2, e2 := bech32.ConvertBits(in, from, to, pad); e2 != nil || !bytes.Equal(o2, keep) {
			rep.Violate("C07:stateless", "bech32.ConvertBits changed its answer after the caller overwrote the slice returned by the previous call",
				map[string]interface{}{"data": vh.Hex(data), "from": from, "to": to, "pad": pad, "first": vh.Hex(keep), "again": vh.Hex(o2)})
		}
		copy(out, keep)
	}
	inRange := from >= 1 && from <= 8 && to >= 1 && to <= 8
	fits := true
	for _, b := range data {
		if from < 8 && b>>from != 0 {
			fits = false
		}
	}
	rep.Count("convert:"+fam, fmt.Sprintf("cv%d.%d.%v.%s", from, to, pad, data), inRange && len(data) > 0)
	if !inRange {
		if err == nil {
			rep.Violate("C07:bech32:convert_range", "ConvertBits accepted a bit-group size outside 1..8", map[string]interface{}{"from": from, "to": to})
		}
	} else if fits {
		ok, want := refConvert(data, from, to, pad)
		if ok != (err == nil) || ok && !bytes.Equal(want, out) {
			rep.Violate("C07:bech32:convert_spec", "ConvertBits differs from bit-list regrouping", map[string]interface{}{"data": vh.Hex(data), "from": from, "to": to, "pad": pad, "impl": vh.Hex(out), "impl_ok": err == nil, "ref": vh.Hex(want), "ref_ok": ok})
		}
		if err == nil && pad && from == 8 && to == 5 {
			back, err2 := bech32.ConvertBits(out, 5, 8, false)
			if err2 != nil || !bytes.Equal(back, data) {
				rep.Violate("C07:bech32:convert_inverse", "ConvertBits 5->8 does not invert 8->5", map[string]interface{}{"data": vh.Hex(data), "regrouped": vh.Hex(out), "back": vh.Hex(back), "err": fmt.Sprint(err2)})
			}
		}
	}
	if corr {
		cases.Add(fmt.Sprintf("Conv %s %d %d %s %s %s", vh.CoqBytes(data), from, to, vh.CoqBool(pad), vh.CoqBool(err == nil), vh.CoqBytes(out)),
			map[string]interface{}{"op": "bech32.ConvertBits", "data": vh.Hex(data), "from": from, "to": to, "pad": pad, "impl_ok": err == nil, "impl": vh.Hex(out)})
	}
}

var bip173Valid = []string{
	"A12UEL5L", "a12uel5l",
	"an83characterlonghumanreadablepartthatcontainsthenumber1andtheexcludedcharactersbio1tt5tgs",
	"abcdef1qpzry9x8gf2tvdw0s3jn54khce6mua7lmqqqxw",
	"11qqqqqqqqqqqqqqqqqqqqqqqqqqqqqqqqqqqqqqqqqqqqqqqqqqqqqqqqqqqqqqqqqqqqqqqqqqqqqqqqqqc8247j",
	"split1checkupstagehandshakeupstreamerranterredcaperred2y9e3w",
	"?1ezyfcl",
}
var bip173Invalid = []string{
	"\x201nwldj5", "\x7f1axkwrx", "\x801eym55h",
	"an84characterslonghumanreadablepartthatcontainsthenumber1andtheexcludedcharactersbio1569pvx",
	"pzry9x0s0muk", "1pzry9x0s0muk", "x1b4n0q5v", "li1dgmt3", "de1lg7wt\xff", "A1G7SGD8", "10a06t8", "1qzzfhee",
	"A12UEL5l", "a12UEL5L", "bc1qw508d6qejxtdg4y5r3zarvary0c5xw7kv8f3t4", "tb1qrp33g0q5c5txsp9arysrx4k6zdkfs4nce4xj0gdcccefvpysxf3q0sL5k7",
}

func main() {
	if os.Getenv(hangChildEnv) != "" {
		hangChildMain()
		return
	}
	cfg = vh.ParseFlags("C07")
	rep = vh.NewReport(cfg)
	rep.Rule = "structured generators (exhaustive small scopes + random + BIP173 vectors + mutations); a case is non-trivial when it passes the outer validation layer (non-empty alphabet string / >=5 decoded bytes / valid bech32 / in-range regrouping); distinct by input"
	cases = vh.NewCases(cfg, "Run.Run_C07", 400)
	rng := vh.NewRNG(cfg.Seed)
	// environment monitors (round 3): tables, purity on error paths with large inputs and spare capacity; plain children
	env := envrun.Start(cfg, rep)

	// --- SHA-256 validation of the Coq implementation against crypto/sha256
	r := rng.Fork("sha")
	for _, n := range []int{0, 1, 3, 31, 32, 54, 55, 56, 57, 63, 64, 65, 119, 120, 121, 200} {
		m := r.Bytes(n)
		h := sha256.Sum256(m)
		cases.Add(fmt.Sprintf("Sha %s %s", vh.CoqBytes(m), vh.CoqBytes(h[:])), map[string]string{"op": "sha256", "msg": vh.Hex(m)})
	}

	// --- base58: exhaustive small scopes on the implementation (monitors), sampled for the model
	r = rng.Fork("b58")
	fam = "small-and-random"
	b58Encode(nil, true)
	for a := 0; a < 256; a++ {
		b58Encode([]byte{byte(a)}, a%8 == 0 || a < 4)
		for b := 0; b < 256; b++ {
			b58Encode([]byte{byte(a), byte(b)}, r.Intn(1500) == 0)
		}
	}
	nb := cfg.Scale(120, 1500)
	for i := 0; i < nb; i++ {
		n := r.Intn(40)
		if i%10 == 0 {
			n = r.Intn(513)
		}
		b := r.Bytes(n)
		for j := 0; j < r.Intn(4) && j < n; j++ { // leading zeros
			if r.Bool() {
				b[j] = 0
			}
		}
		b58Encode(b, true)
	}
	// strings up to length 3 over a superset alphabet (58 + foreign)
	super := b58Alphabet + "0OIl +/-_\x00\xff~"
	b58Decode("", true)
	for i := 0; i < len(super); i++ {
		b58Decode(super[i:i+1], i%4 == 0 || i >= 58)
		for j := 0; j < len(super); j++ {
			b58Decode(string([]byte{super[i], super[j]}), r.Intn(120) == 0)
			for k := 0; k < len(super); k++ {
				b58Decode(string([]byte{super[i], super[j], super[k]}), r.Intn(6000) == 0)
			}
		}
	}
	for i := 0; i < nb; i++ {
		n := 1 + r.Intn(60)
		if i%10 == 0 {
			n = 1 + r.Intn(700)
		}
		sb := make([]byte, n)
		for j := range sb {
			sb[j] = b58Alphabet[r.Intn(58)]
		}
		for j := 0; j < r.Intn(4) && j < n; j++ {
			if r.Bool() {
				sb[j] = '1'
			}
		}
		if i%7 == 0 { // one foreign character somewhere
			sb[r.Intn(n)] = vh.Pick(r, []byte("0OIl +~\xff"))
		}
		b58Decode(string(sb), true)
	}

	// every length around machine-word boundaries: extreme and random digit strings / byte strings
	// (a fixed-width fast path would wrap exactly here: 58^10 < 2^64 < 58^11, 58^21 < 2^128 < 58^22)
	r = rng.Fork("b58-boundaries")
	fam = "word-boundaries"
	for L := 1; L <= 48; L++ {
		top := bytes.Repeat([]byte{'z'}, L)
		b58Decode(string(top), L <= 24)
		low := append([]byte{'2'}, bytes.Repeat([]byte{'1'}, L-1)...)
		b58Decode(string(low), L%4 == 0)
		for k := 0; k < cfg.Scale(12, 60); k++ {
			sb := make([]byte, L)
			for j := range sb {
				sb[j] = b58Alphabet[r.Intn(58)]
			}
			if k%3 == 0 { // bias to large leading digits
				sb[0] = b58Alphabet[40+r.Intn(18)]
			}
			b58Decode(string(sb), k == 0 && L <= 24)
		}
	}
	for L := 1; L <= 40; L++ {
		b58Encode(bytes.Repeat([]byte{0xff}, L), L <= 20)
		one := make([]byte, L)
		one[0] = 1
		b58Encode(one, L <= 20)
		for k := 0; k < cfg.Scale(8, 40); k++ {
			b := r.Bytes(L)
			if k%2 == 0 {
				b[0] = byte(1 + r.Intn(3))
			}
			b58Encode(b, k == 0 && L <= 20)
		}
	}

	// every two-byte string over the FULL byte alphabet (well-formed two-byte UTF-8 sequences included)
	r = rng.Fork("b58-two-bytes")
	fam = "two-bytes-and-rune-aliases"
	for a := 0; a < 256; a++ {
		for b := 0; b < 256; b++ {
			b58Decode(string([]byte{byte(a), byte(b)}), a >= 0xc2 && a <= 0xdf && b >= 0x80 && b <= 0xbf && r.Intn(40) == 0)
		}
	}
	// one character of an alphabet string replaced by a multi-byte code point whose low eight bits equal it
	// (a decoder that walks the string by code point and narrows to a byte reads the original character)
	for i, L := range []int{1, 2, 3, 11, 34, 51, 52, 111} {
		sb := make([]byte, L)
		for j := range sb {
			sb[j] = b58Alphabet[1+r.Intn(57)]
		}
		if i%2 == 1 {
			sb[0] = '1'
		}
		for _, pos := range []int{0, L / 2, L - 1} {
			for k, alias := range al.RuneAliases(string(sb), pos) {
				b58Decode(alias, k < 2 || L == 34)
			}
		}
	}
	// runs of the zero digit in the interior of the digit string (a multi-digit chunk that is entirely zero),
	// at every distance from the end and of every length up to 24
	r = rng.Fork("b58-zero-digits")
	fam = "interior-zero-digits"
	for k := 1; k <= 24; k++ {
		for _, xl := range []int{1, 3, 10, 11} {
			for _, yl := range []int{0, 1, 9, 10, 11, 19, 20, 21, 30} {
				sb := make([]byte, 0, xl+k+yl)
				for j := 0; j < xl; j++ {
					sb = append(sb, b58Alphabet[1+r.Intn(57)])
				}
				sb = append(sb, bytes.Repeat([]byte{'1'}, k)...)
				for j := 0; j < yl; j++ {
					sb = append(sb, b58Alphabet[r.Intn(58)])
				}
				corr := (k == 9 || k == 10 || k == 11 || k == 20) && xl == 3 && (yl == 10 || yl == 20)
				b58Decode(string(sb), corr)
				b58Encode(al.RefBase58Decode(string(sb)), corr)
			}
		}
	}

	// long runs of leading zero bytes / leading '1' characters, around the widths a narrow counter would wrap at
	r = rng.Fork("b58-zero-runs")
	fam = "leading-zero-runs"
	// round 3: the family first runs in a child process with a deadline (hangchild.go); in-process (monitors + Coq
	// cases) only when every call returned there
	if hung := runHangPreflight(); len(hung) == 0 {
		zr := []int{7, 8, 63, 64, 127, 128, 254, 255, 256, 257, 258, 300, 511, 512, 513, 1000}
		if cfg.Thorough() {
			zr = append(zr, 65535, 65536, 65537)
		}
		for _, n := range zr {
			for ti, tail := range [][]byte{nil, {1}, {0xff, 0, 1}, r.Bytes(1 + r.Intn(9))} {
				if n > 5000 && ti != 1 {
					continue
				}
				b := append(make([]byte, n), tail...)
				b58Encode(b, ti < 2 && (n >= 254 && n <= 258 || n == 64 || n == 512))
				str := append(bytes.Repeat([]byte{'1'}, n), []byte(base58.Encode(tail))...)
				b58Decode(string(str), ti < 2 && (n >= 254 && n <= 258 || n == 128))
				if ti < 2 && n >= 254 && n <= 513 {
					checkDecode(al.RefBase58Check(0, b), false)
				}
			}
		}
	} else {
		rep.Extra["leading_zero_runs_in_process"] = "skipped: the preflight in the child process saw a hang"
	}

	// --- base58check
	r = rng.Fork("check")
	fam = "base58check"
	// valid checksums over bodies shorter than a version byte + payload: the empty body (4 decoded bytes: must be
	// refused as too short) and a body that is the version byte alone (accepted with an empty payload)
	checkDecode(base58.Encode(sha256d(nil)[:4]), true)
	for _, v := range []byte{0, 1, 5, 0x6f, 0x80, 0xff} {
		body := []byte{v}
		checkDecode(base58.Encode(append(body, sha256d(body)[:4]...)), true)
		body2 := []byte{v, 0}
		checkDecode(base58.Encode(append(body2, sha256d(body2)[:4]...)), v%2 == 0)
		checkDecode(base58.Encode(append([]byte{v}, sha256d(nil)[:4]...)), v == 0) // checksum of the wrong (empty) body
	}
	nc := cfg.Scale(60, 600)
	for i := 0; i < nc; i++ {
		n := vh.Pick(r, []int{0, 1, 20, 20, 20, 32, 33, r.Intn(80)})
		p := r.Bytes(n)
		ver := vh.Pick(r, []byte{0, 5, 111, 196, 128, 239, r.Byte()})
		if i%5 == 0 && n > 0 {
			p[0] = 0
		}
		s := checkEncode(p, ver, i%2 == 0)
		checkDecode(s, i%2 == 1)
		// corruptions: one character, one bit of the payload/checksum
		d := base58.Decode(s)
		if len(d) > 0 {
			k := r.Intn(len(d))
			d[k] ^= 1 << uint(r.Intn(8))
			checkDecode(base58.Encode(d), i%3 == 0)
		}
		sb := []byte(s)
		sb[r.Intn(len(sb))] = b58Alphabet[r.Intn(58)]
		checkDecode(string(sb), i%4 == 0)
	}
	for n := 0; n <= 6; n++ { // short payloads incl. < 5 bytes
		checkDecode(base58.Encode(r.Bytes(n)), true)
		checkDecode(base58.Encode(make([]byte, n)), true)
	}
	checkDecode("", true)
	checkDecode("0", true)
	checkDecode("3MNQE1X", true) // base58 test vector "Test" region: valid checksum of a short payload
	checkDecode("1111111", true)

	// --- bech32
	r = rng.Fork("bech32")
	fam = "bip173-vectors-random-mutations"
	for _, s := range bip173Valid {
		bechDecode(s, true)
	}
	for _, s := range bip173Invalid {
		bechDecode(s, true)
	}
	nbe := cfg.Scale(150, 2000)
	for i := 0; i < nbe; i++ {
		hl := 1 + r.Intn(10)
		if i%9 == 0 {
			hl = 1 + r.Intn(83)
		}
		hrp := make([]byte, hl)
		for j := range hrp {
			c := byte(33 + r.Intn(94))
			if c >= 'A' && c <= 'Z' {
				c += 32
			}
			hrp[j] = c
		}
		maxd := 90 - hl - 7
		dl := 0
		if maxd > 0 {
			dl = r.Intn(maxd + 1)
		}
		if i%11 == 0 {
			dl = maxd + r.Intn(4) // at and just beyond the 90-character limit
			if dl < 0 {
				dl = 0
			}
		}
		data := make([]byte, dl)
		for j := range data {
			data[j] = byte(r.Intn(32))
		}
		if i%13 == 0 && dl > 0 {
			data[r.Intn(dl)] = byte(32 + r.Intn(224)) // invalid 5-bit value
		}
		s := bechEncode(string(hrp), data, vh.Pick(r, []int{0, 0, 3, 6, 16}), i%2 == 0)
		if s == "" {
			continue
		}
		bechDecode(s, i%3 == 0)
		bechDecode(strings.ToUpper(s), i%5 == 0)
		// mutations
		sb := []byte(s)
		switch r.Intn(7) {
		case 0: // substitute one data character
			sb[len(sb)-1-r.Intn(6+dl)] = bechCharset[r.Intn(32)]
		case 1: // mixed case
			k := r.Intn(len(sb))
			if sb[k] >= 'a' && sb[k] <= 'z' {
				sb[k] -= 32
			}
		case 2: // foreign character
			sb[r.Intn(len(sb))] = vh.Pick(r, []byte("bio1 \x7f\x80"))
		case 3: // drop the separator / move it
			sb = bytes.Replace(sb, []byte("1"), []byte(""), 1)
		case 4: // truncate
			sb = sb[:r.Intn(len(sb))]
		case 5: // insert
			k := r.Intn(len(sb))
			sb = append(sb[:k:k], append([]byte{bechCharset[r.Intn(32)]}, sb[k:]...)...)
		case 6: // separator too close to the end
			k := len(sb) - 1 - r.Intn(6)
			sb[k] = '1'
		}
		bechDecode(string(sb), true)
	}
	// white space and control characters around an otherwise valid string (a lenient Decode that trims its input
	// would accept them), and every total length around the 90-character limit and the 8-character minimum
	r = rng.Fork("bech32-edges")
	fam = "whitespace-and-length-edges"
	for i, base := range []string{"a12uel5l", "A12UEL5L", "abcdef1qpzry9x8gf2tvdw0s3jn54khce6mua7lmqqqxw", refEncode("bc", []byte{0, 14, 20, 15, 7, 13, 26, 0, 25, 18, 6, 11, 13, 8, 21, 4, 20, 3, 17, 2, 29, 3, 12, 29, 3, 4, 15, 24, 20, 6, 14, 30, 22})} {
		for j, w := range []string{" ", "\n", "\t", "\r\n", "\x00", "\x0b", "\xa0", "  "} {
			bechDecode(w+base, i < 2 || j < 2)
			bechDecode(base+w, i < 2 || j < 2)
			bechDecode(w+base+w, j == 0)
		}
	}
	// code points that Unicode case mapping folds to ASCII letters (U+212A KELVIN SIGN -> k, U+0130 -> i when
	// lower-casing; U+017F LONG S -> S, U+0131 DOTLESS I -> I when upper-casing) in place of that letter, in the
	// human-readable part and in the data part, in the lower- and in the upper-case rendering
	for _, hrp := range []string{"kiki", "ski", "bc", "k"} {
		data := []byte{22, 16, 22, 0, 31, 16, 22} // k s k q l s k
		lowS := refEncode(hrp, data)
		for _, sv := range []string{lowS, strings.ToUpper(lowS)} {
			for _, sub := range [][2]string{{"k", "\u212a"}, {"K", "\u212a"}, {"i", "\u0130"}, {"I", "\u0130"}, {"s", "\u017f"}, {"S", "\u017f"}, {"i", "\u0131"}, {"I", "\u0131"}} {
				for n := 1; n <= 3; n++ {
					if m := strings.Replace(sv, sub[0], sub[1], n); m != sv {
						bechDecode(m, true)
					}
				}
				if k := strings.LastIndex(sv, sub[0]); k >= 0 {
					bechDecode(sv[:k]+sub[1]+sv[k+1:], true)
				}
			}
		}
	}
	for total := 6; total <= 12; total++ { // hrp of one character: data length total-8 (negative: cannot exist)
		if total >= 8 {
			data := make([]byte, total-8)
			for j := range data {
				data[j] = byte(r.Intn(32))
			}
			s := refEncode("x", data)
			bechDecode(s, true)
			bechDecode(strings.ToUpper(s), total%2 == 0)
			bechDecode(s[:len(s)-1], true) // one short
		}
	}
	for _, hl := range []int{1, 2, 40, 82, 83, 84} {
		for total := 87; total <= 93; total++ {
			dl := total - hl - 7
			if dl < 0 {
				continue
			}
			hrp := make([]byte, hl)
			for j := range hrp {
				hrp[j] = byte('a' + r.Intn(26))
			}
			data := make([]byte, dl)
			for j := range data {
				data[j] = byte(r.Intn(32))
			}
			s := refEncode(string(hrp), data) // valid checksum whatever the length
			bechDecode(s, total >= 89 && total <= 92)
			bechDecode(strings.ToUpper(s), total == 90 || total == 91)
		}
	}
	// an upper-case or empty human-readable part handed to Encode (outside BIP173's domain: observed only)
	bechEncode("BC", []byte{1, 2, 3}, 0, true)
	bechEncode("", []byte{}, 0, true)
	bechEncode("", []byte{5}, 6, true)

	fam = "capacity-sweep"
	// purity sweep over capacities (the C07 search family)
	for spare := 0; spare <= 12; spare++ {
		for dl := 0; dl <= 4; dl++ {
			data := make([]byte, dl)
			for j := range data {
				data[j] = byte(r.Intn(32))
			}
			bechEncode("bc", data, spare, spare == 6 && dl == 3)
		}
	}

	// --- ConvertBits: every (from, to) in 0..9 x pad
	r = rng.Fork("convert")
	fam = "all-group-sizes"
	nv := cfg.Scale(2, 12)
	for from := 0; from <= 9; from++ {
		for to := 0; to <= 9; to++ {
			for _, pad := range []bool{true, false} {
				for k := 0; k < nv; k++ {
					n := r.Intn(12)
					if k == 0 {
						n = 0
					}
					data := r.Bytes(n)
					if from >= 1 && from < 8 && r.Intn(4) != 0 {
						for j := range data {
							data[j] &= 1<<uint(from) - 1
						}
					}
					convert(data, uint8(from), uint8(to), pad, true)
				}
			}
		}
	}
	fam = "incomplete-groups"
	// every (from, to), every input length 0..17: all-zero input (an incomplete trailing group of every possible
	// size, all zero: legal only up to 4 bits), only the very last bit set, and all ones
	for from := 1; from <= 8; from++ {
		for to := 1; to <= 8; to++ {
			for n := 0; n <= 17; n++ {
				for pat := 0; pat < 3; pat++ {
					data := make([]byte, n)
					switch pat {
					case 1:
						if n == 0 {
							continue
						}
						data[n-1] = 1
					case 2:
						if n == 0 {
							continue
						}
						for j := range data {
							data[j] = byte(1<<uint(from) - 1)
						}
					}
					corr := (from == 5 && to == 8) || (from == 8 && to == 5) || (from*7+to*3+n)%11 == 0 && pat != 2
					convert(data, uint8(from), uint8(to), false, corr && n <= 9)
					convert(data, uint8(from), uint8(to), true, corr && n <= 4 && pat == 1)
				}
			}
		}
	}
	fam = "8-5-round-trips"
	for i := 0; i < cfg.Scale(100, 1500); i++ { // 8 <-> 5 round trips, with all trailing-bit patterns
		data := r.Bytes(r.Intn(70))
		convert(data, 8, 5, true, i%3 == 0)
		five := make([]byte, r.Intn(60))
		for j := range five {
			five[j] = byte(r.Intn(32))
		}
		convert(five, 5, 8, false, i%3 == 1)
	}

	// the same calls again, after everything else has run: the functions keep no state
	for _, rc := range replays {
		if got := rc.run(); got != rc.want {
			rep.Violate("C07:stateless", "a repeated call gave a different result than the first time (state left over between calls)",
				map[string]interface{}{"call": rc.what, "first": rc.want, "again": got})
			break
		}
	}

	env.Finish()
	rep.Cases = cases.Len()
	rep.Extra["duplicate_cases_dropped"] = cases.Dups
	_, err := cases.Flush()
	vh.Must(err)
	vh.Must(rep.Write(cfg))
	fmt.Printf("c07: %d implementation executions, %d correspondence cases, %d monitor violations\n", rep.Evaluations, rep.Cases, len(rep.Violations))
}

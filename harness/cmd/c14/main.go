// Command c14 drives /repo/gcs and /repo/gcs/builder for property C14: filter
// bytes are the BIP158-style Golomb-Rice encoding (checked against the
// independent big-integer / bit-list reference of cmd/c13/gref), the N/P-prefixed
// serialisations are the stated concatenations and deserialise losslessly, the
// block-filter builder includes exactly the stated content under the stated key
// and parameters, filter hash and header are the stated double-SHA256 values.
// It also writes the correspondence cases for Run/Run_C14.v.
package main

import (
	"bytes"
	"crypto/sha256"
	"encoding/binary"
	"encoding/hex"
	"encoding/json"
	"fmt"
	"io"
	"os"
	"sort"
	"strconv"
	"strings"
	"time"

	"github.com/gcash/bchd/chaincfg"
	"github.com/gcash/bchd/chaincfg/chainhash"
	"github.com/gcash/bchd/wire"
	"github.com/gcash/bchutil/gcs"
	"github.com/gcash/bchutil/gcs/builder"

	"verif/harness/cmd/c13/gref"
	"verif/harness/internal/vh"
)

var cfg vh.Config
var rep *vh.Report
var cases *vh.Cases

func sha256d(b []byte) []byte {
	h := sha256.Sum256(b)
	h2 := sha256.Sum256(h[:])
	return h2[:]
}

func hexItems(items [][]byte) []string {
	out := make([]string, len(items))
	for i, it := range items {
		out[i] = hex.EncodeToString(it)
	}
	return out
}

func u(v uint64) string { return strconv.FormatUint(v, 10) }

func errClass(err error) int {
	switch {
	case err == nil:
		return 0
	case err == gcs.ErrNTooBig:
		return 1
	case err == gcs.ErrPTooBig:
		return 2
	case err == io.EOF || err == io.ErrUnexpectedEOF:
		return 3
	}
	if _, ok := err.(*wire.MessageError); ok {
		return 4
	}
	// any other error value (the builder's two anonymous fmt.Errorf values "p/m value is not set") is one class:
	// error TEXT is not an observable of the property, and re-wording a message must not raise an alarm
	return 5
}

type spec struct {
	P    uint8
	M    uint64
	Key  [16]byte
	Data [][]byte
	Gen  string
}

func (s spec) replay(extra map[string]interface{}) map[string]interface{} {
	m := map[string]interface{}{"P": s.P, "M": u(s.M), "key": hex.EncodeToString(s.Key[:]), "N": len(s.Data)}
	if s.Gen != "" {
		m["set"] = s.Gen
	} else {
		m["items"] = hexItems(s.Data)
	}
	for k, v := range extra {
		m[k] = v
	}
	return m
}

func firstDiff(a, b []byte) int {
	for i := 0; i < len(a) && i < len(b); i++ {
		if a[i] != b[i] {
			return i
		}
	}
	if len(a) != len(b) {
		if len(a) < len(b) {
			return len(a)
		}
		return len(b)
	}
	return -1
}

// checkFilter runs the C14 monitors on one BuildGCSFilter call.
func checkFilter(s spec, corr bool, family string) {
	n := len(s.Data)
	var f *gcs.Filter
	var err error
	if p, msg := vh.Catch(func() { f, err = gcs.BuildGCSFilter(s.P, s.M, s.Key, s.Data) }); p {
		rep.Violate("C14:build:panic", "BuildGCSFilter panicked", s.replay(map[string]interface{}{"panic": msg}))
		return
	}
	F := gref.Modulus(uint64(n), s.M)
	rep.Count("build:"+family, fmt.Sprintf("b%d/%d/%d/%x", s.P, s.M, n, s.Key[:4]), n > 0 && err == nil)
	rep.Histogram[fmt.Sprintf("P%%8=%d", s.P%8)]++
	if F >= 1<<32 {
		rep.Histogram["N*M>=2^32"]++
	}
	if err != nil {
		if s.P <= 32 {
			rep.Violate("C14:build:error", "BuildGCSFilter failed on admissible parameters", s.replay(map[string]interface{}{"error": err.Error()}))
		}
		if corr {
			cases.Add(fmt.Sprintf("Build %d %d %s %s %d 0 []", s.P, s.M, vh.CoqBytes(s.Key[:]), gref.CoqItems(s.Data), errClass(err)),
				map[string]interface{}{"op": "BuildGCSFilter", "spec": s.replay(nil), "impl_class": errClass(err)})
		}
		return
	}
	fb, _ := f.Bytes()
	// --- bit-exact BIP158-style encoding
	vals := gref.Values(s.Key, F, s.Data)
	want := gref.Pack(gref.EncodeBits(uint(s.P), vals))
	if !bytes.Equal(fb, want) || int(f.N()) != n || f.P() != s.P {
		d := firstDiff(fb, want)
		rep.Violate("C14:bytes:bip158", "filter bytes / N / P differ from the Golomb-Rice encoding of the sorted values floor(SipHash(key,item)*N*M/2^64) (independent reference)",
			s.replay(map[string]interface{}{"impl_N": f.N(), "impl_P": f.P(), "impl_len": len(fb), "reference_len": len(want), "first_difference_at_byte": d,
				"impl_bytes": vh.Hex(window(fb, d)), "reference_bytes": vh.Hex(window(want, d)), "bytes_shown_from_offset": windowStart(d)}))
	}
	// number of codewords: decoding must give exactly N values before the pad
	if dec, used := gref.Decode(uint(s.P), fb, n); len(dec) != n || len(fb)*8-used >= 8 && n > 0 {
		rep.Violate("C14:bytes:count", "the filter bytes do not hold exactly N codewords followed by fewer than 8 pad bits",
			s.replay(map[string]interface{}{"decoded_values": len(dec), "bits_used": used, "bits_total": len(fb) * 8}))
	}
	if n > 0 {
		_, used := gref.Decode(uint(s.P), want, n)
		rep.Histogram[fmt.Sprintf("pad=%d", len(want)*8-used)]++
	}
	switch {
	case len(fb) >= 1<<20:
		rep.Histogram["bytes>=1MiB"]++
	case len(fb) > 400000:
		rep.Histogram["bytes>400000"]++
	case len(fb) >= 64<<10:
		rep.Histogram["bytes>=64KiB"]++
	}
	// --- serialisations are the stated concatenations
	var nb, pb, npb []byte
	var e1, e2, e3 error
	for _, c := range []struct {
		name string
		call func()
	}{{"NBytes", func() { nb, e1 = f.NBytes() }}, {"PBytes", func() { pb, e2 = f.PBytes() }}, {"NPBytes", func() { npb, e3 = f.NPBytes() }}} {
		if pn, msg := vh.Catch(c.call); pn {
			rep.Violate("C14:ser:panic", "a serialisation method panicked on a built filter", s.replay(map[string]interface{}{"method": c.name, "panic": msg, "filter_bytes": len(fb)}))
			return
		}
	}
	vi := gref.VarInt(uint64(n))
	wantN := append(append([]byte{}, vi...), fb...)
	wantP := append([]byte{s.P}, fb...)
	wantNP := append(append(append([]byte{}, vi...), s.P), fb...)
	rep.Count("serialise", fmt.Sprintf("s%d/%d/%x", s.P, n, fb), n > 0)
	if e1 != nil || e2 != nil || e3 != nil || !bytes.Equal(nb, wantN) || !bytes.Equal(pb, wantP) || !bytes.Equal(npb, wantNP) {
		rep.Violate("C14:ser:concat", "NBytes / PBytes / NPBytes is not CompactSize(N) / P / both followed by the filter bytes",
			s.replay(map[string]interface{}{"filter": vh.Hex(trunc(fb, 64)), "NBytes": vh.Hex(trunc(nb, 80)), "PBytes": vh.Hex(trunc(pb, 80)), "NPBytes": vh.Hex(trunc(npb, 80)),
				"lengths_filter_N_P_NP": []int{len(fb), len(nb), len(pb), len(npb)}, "first_difference_N_P_NP": []int{firstDiff(nb, wantN), firstDiff(pb, wantP), firstDiff(npb, wantNP)}}))
	}
	stillSame := func(after string) {
		// no serialisation / hash method may change the filter: Bytes(), N(), P() as before, bytes still the reference
		fb2, _ := f.Bytes()
		if !bytes.Equal(fb2, fb) || int(f.N()) != n || f.P() != s.P {
			rep.Violate("C14:ser:mutates", "Bytes() / N() / P() of a built filter changed after calling "+after,
				s.replay(map[string]interface{}{"after": after, "len_before": len(fb), "len_after": len(fb2), "first_difference_at_byte": firstDiff(fb2, fb)}))
		}
	}
	stillSame("NBytes / PBytes / NPBytes")
	// --- deserialise round trips: same N, P, bytes, same answers
	for _, via := range []string{"FromNBytes", "FromBytes"} {
		var g *gcs.Filter
		var err error
		if pn, msg := vh.Catch(func() {
			if via == "FromNBytes" {
				g, err = gcs.FromNBytes(s.P, s.M, nb)
			} else {
				g, err = gcs.FromBytes(f.N(), s.P, s.M, fb)
			}
		}); pn {
			rep.Violate("C14:deser:panic", via+" panicked on a serialisation produced by the library", s.replay(map[string]interface{}{"via": via, "panic": msg, "filter_bytes": len(fb)}))
			continue
		}
		rep.Count("roundtrip:"+via, fmt.Sprintf("r%d/%d/%x", s.P, n, fb), n > 0)
		if err != nil {
			rep.Violate("C14:roundtrip:error", via+" rejected a serialisation produced by the library", s.replay(map[string]interface{}{"via": via, "error": err.Error()}))
			continue
		}
		gb, _ := g.Bytes()
		if g.N() != f.N() || g.P() != f.P() || !bytes.Equal(gb, fb) || gcs.VerifModulusNP(g) != gcs.VerifModulusNP(f) {
			rep.Violate("C14:roundtrip:fields", "a filter rebuilt from its serialisation has different N / P / bytes / modulus",
				s.replay(map[string]interface{}{"via": via, "N": []uint32{f.N(), g.N()}, "P": []int{int(f.P()), int(g.P())}, "bytes_len": []int{len(fb), len(gb)}, "first_difference_at_byte": firstDiff(gb, fb)}))
			continue
		}
		// same answers: a few members and non-members through all forms
		var qs [][]byte
		for i := 0; i < n && i < 6; i++ {
			qs = append(qs, s.Data[(i*7)%n])
		}
		if n > 6 && len(vals) == n { // the members with the two largest hashed values: the last codewords
			for _, d := range s.Data {
				if v := gref.Value(s.Key, F, d); v >= vals[n-2] && len(qs) < 8 {
					qs = append(qs, d)
				}
			}
		}
		qs = append(qs, []byte{0xEE, 1, 2, 3, 4, 5, 6, 7, 8, 9}, []byte("not a member"))
		for _, q := range qs {
			a1, _ := f.Match(s.Key, q)
			a2, _ := g.Match(s.Key, q)
			b1, _ := f.MatchAny(s.Key, [][]byte{q})
			b2, _ := g.MatchAny(s.Key, [][]byte{q})
			if a1 != a2 || b1 != b2 {
				rep.Violate("C14:roundtrip:answers", "a filter rebuilt from its serialisation answers a query differently",
					s.replay(map[string]interface{}{"via": via, "query": hex.EncodeToString(q), "Match": []bool{a1, a2}, "MatchAny": []bool{b1, b2}}))
			}
		}
		z1, _ := f.ZipMatchAny(s.Key, qs)
		z2, _ := g.ZipMatchAny(s.Key, qs)
		h1, _ := f.HashMatchAny(s.Key, qs)
		h2, _ := g.HashMatchAny(s.Key, qs)
		if z1 != z2 || h1 != h2 {
			rep.Violate("C14:roundtrip:answers", "a filter rebuilt from its serialisation answers an any-of query differently", s.replay(map[string]interface{}{"via": via, "queries": hexItems(qs)}))
		}
	}
	// --- filter hash and header of this filter (the empty filter included: SHA256d of the single byte 00)
	{
		prev := chainhash.Hash{}
		copy(prev[:], sha256d(fb))
		fh, e1 := builder.GetFilterHash(f)
		fhd, e2 := builder.MakeHeaderForFilter(f, prev)
		wantH := sha256d(wantN)
		wantHdr := sha256d(append(append([]byte{}, wantH...), prev[:]...))
		rep.Count("hash", fmt.Sprintf("h%d/%x", n, fb), true)
		if e1 != nil || e2 != nil || !bytes.Equal(fh[:], wantH) || !bytes.Equal(fhd[:], wantHdr) {
			rep.Violate("C14:hash:header", "GetFilterHash / MakeHeaderForFilter differ from SHA256d(CompactSize(N)||bytes) / SHA256d(hash||prev)",
				s.replay(map[string]interface{}{"filter": vh.Hex(trunc(fb, 64)), "prev": vh.Hex(prev[:]), "impl_hash": vh.Hex(fh[:]), "impl_header": vh.Hex(fhd[:])}))
		}
		stillSame("GetFilterHash / MakeHeaderForFilter")
	}
	if corr {
		cases.Add(fmt.Sprintf("Build %d %d %s %s 0 %d %s", s.P, s.M, vh.CoqBytes(s.Key[:]), gref.CoqItems(s.Data), f.N(), vh.CoqBytes(fb)),
			map[string]interface{}{"op": "BuildGCSFilter", "spec": s.replay(nil), "impl_N": f.N(), "impl_bytes": vh.Hex(fb)})
		if F == uint64(n)*s.M && (n == 0 || F/uint64(n) == s.M) { // the BIP158 reading needs N*M < 2^64
			cases.Add(fmt.Sprintf("Spec %d %d %s %s %s", s.P, s.M, vh.CoqBytes(s.Key[:]), gref.CoqItems(s.Data), vh.CoqBytes(fb)),
				map[string]interface{}{"op": "Bip158Spec.spec_filter_bytes vs BuildGCSFilter", "spec": s.replay(nil), "impl_bytes": vh.Hex(fb)})
		}
		cases.Add(fmt.Sprintf("Ser %d %d %d %s %s %s %s", f.N(), s.P, s.M, vh.CoqBytes(fb), vh.CoqBytes(nb), vh.CoqBytes(pb), vh.CoqBytes(npb)),
			map[string]interface{}{"op": "NBytes/PBytes/NPBytes", "N": f.N(), "P": s.P, "filter": vh.Hex(fb), "impl_nbytes": vh.Hex(nb), "impl_pbytes": vh.Hex(pb), "impl_npbytes": vh.Hex(npb)})
		cases.Add(fmt.Sprintf("FromN %d %d %s 0 %d %d %s", s.P, s.M, vh.CoqBytes(nb), f.N(), s.P, vh.CoqBytes(fb)),
			map[string]interface{}{"op": "FromNBytes(NBytes())", "P": s.P, "nbytes": vh.Hex(nb)})
		if len(vals) <= 64 {
			cases.Add(fmt.Sprintf("Writer %d %s", s.P, vh.CoqListU64(vals)), map[string]interface{}{"op": "model-internal: bstream writer machine vs pack", "P": s.P, "values": vals})
		}
	}
}

// window is up to 64 bytes of b around offset d (the whole prefix when d < 48).
func windowStart(d int) int {
	if d < 48 {
		return 0
	}
	return d - 16
}

func window(b []byte, d int) []byte {
	lo := windowStart(d)
	if lo > len(b) {
		lo = len(b)
	}
	return trunc(b[lo:], 64)
}

func trunc(b []byte, n int) []byte {
	if len(b) > n {
		return b[:n]
	}
	return b
}

func randItem(r *vh.RNG) []byte {
	switch r.Intn(6) {
	case 0:
		return gref.LE64(uint64(r.Intn(1000)))
	case 1:
		return r.Bytes(r.Intn(4))
	case 2:
		return r.Bytes(36)
	}
	return r.Bytes(r.Intn(34))
}

func randKey(r *vh.RNG) (k [16]byte) {
	if r.Intn(6) == 0 {
		return
	}
	copy(k[:], r.Bytes(16))
	return
}

func mShapes(p uint8, r *vh.RNG) []uint64 {
	two := uint64(1) << p
	ms := []uint64{two, two + 1 + uint64(r.Intn(int(two%1000+7))), two*3 + 1}
	if p <= 10 {
		ms = append(ms, 1, 0)
	}
	if 784931>>p <= 2048 {
		ms = append(ms, 784931)
	}
	if p >= 1 {
		ms = append(ms, two/2+1)
	}
	if p >= 26 {
		ms = append(ms, two*2, two*5+3) // deltas with a quotient of several units next to P = 32
	}
	return ms
}

// ---------- families ----------
func familySmall(rng *vh.RNG) {
	r := rng.Fork("small")
	ns := []int{0, 1, 2, 3, 4, 7, 12, 20, 33, 50}
	rounds := cfg.Scale(1, 4)
	if cfg.Search {
		rounds = 10
	}
	for round := 0; round < rounds; round++ {
		for p := 0; p <= 32; p++ {
			for mi, m := range mShapes(uint8(p), r) {
				for ni, n := range ns {
					corr := !cfg.Search && round == 0 && (ni+p+2*mi)%len(ns) == 0
					s := spec{P: uint8(p), M: m, Key: randKey(r)}
					for i := 0; i < n; i++ {
						s.Data = append(s.Data, randItem(r))
					}
					switch {
					case n >= 2 && (ni+mi+round)%3 == 0:
						s.Data[n-1] = s.Data[0] // the same item twice
					case n >= 3 && (ni+mi+round)%3 == 1:
						s.Data[1], s.Data[2] = s.Data[0], s.Data[0] // three times
					}
					checkFilter(s, corr, "small")
				}
			}
		}
	}
	// coinciding hashed values of different items: a tiny range forces them
	for i := 0; i < cfg.Scale(60, 400); i++ {
		n := 2 + r.Intn(12)
		p := uint8(r.Intn(6))
		m := uint64(1 + r.Intn(3))
		if i%5 == 0 {
			m = 0
		}
		s := spec{P: p, M: m, Key: randKey(r)}
		for k := 0; k < n; k++ {
			s.Data = append(s.Data, randItem(r))
		}
		checkFilter(s, i%4 == 0 && !cfg.Search, "coinciding")
	}
	// the coordinator's example: items 84 and 1788 (4-byte big endian) coincide with N = 3, default P/M, zero key
	{
		be := func(v uint32) []byte { b := make([]byte, 4); binary.BigEndian.PutUint32(b, v); return b }
		checkFilter(spec{P: 19, M: 784931, Data: [][]byte{be(84), be(1788), be(7)}}, true, "coinciding")
		// search more coinciding pairs under the default parameters
		var key [16]byte
		F := gref.Modulus(3, 784931)
		seen := map[uint64]uint32{}
		found := 0
		for v := uint32(0); v < 4000000 && found < cfg.Scale(3, 12); v++ {
			x := gref.Value(key, F, be(v))
			if w, ok := seen[x]; ok {
				checkFilter(spec{P: 19, M: 784931, Data: [][]byte{be(w), be(v), be(v + 1)}}, found < 2, "coinciding")
				found++
			}
			seen[x] = v
		}
		rep.Extra["coinciding_pairs_default_params"] = found
	}
	// edges
	for _, p := range []uint8{33, 200} {
		checkFilter(spec{P: p, M: 10, Data: [][]byte{{1}}}, true, "edge")
	}
	for _, m := range []uint64{1<<63 + 5, 1<<63 + 200, 1<<62 + 3} { // N*M wraps mod 2^64
		for _, n := range []int{2, 4} {
			s := spec{P: 3, M: m, Key: randKey(r)}
			for i := 0; i < n; i++ {
				s.Data = append(s.Data, randItem(r))
			}
			if gref.Modulus(uint64(n), m) < 1<<20 {
				checkFilter(s, true, "wrap")
			}
		}
	}
}

func familyBig(rng *vh.RNG) {
	r := rng.Fork("big")
	type cfgT struct {
		n int
		p uint8
		m uint64
	}
	list := []cfgT{{1000, 19, 784931}, {5473, 19, 784931}, {6000, 19, 784931}, {20000, 19, 784931}, {3000, 8, 300}, {2500, 0, 1}, {2000, 32, 1 << 32}, {4000, 30, 1<<31 + 5}}
	if cfg.Thorough() || cfg.Search {
		list = append(list, cfgT{100000, 19, 784931}, cfgT{100000, 10, 1 << 10}, cfgT{50000, 25, 1<<25 + 77}, cfgT{70000, 5, 43}, cfgT{40000, 32, 1 << 33})
	}
	for _, c := range list {
		checkFilter(bigSpec(c.n, c.p, c.m, randKey(r), r.U64()), false, "big")
	}
	// Round 3: the size classes nothing reached.  P = 32 with N in [2^16, 2^17) (bit 16 of N set, remainders of a full
	// word) and a filter above 400000 bytes in EVERY tier; thorough/search: N in [2^17, 2^18) at P = 32, more than
	// 1 MiB, and for each large configuration three consecutive N so that the number of pad bits after the last
	// codeword varies (the bytes are compared with the reference including the zero pad).  Own stream.
	r2 := rng.Fork("big-r3")
	list2 := []cfgT{{70002, 32, 1 << 32}, {70003, 32, 1 << 32}, {100000, 32, 1 << 32}, {66001, 19, 784931}, {131073, 32, 1<<32 + 99}, {400000, 19, 784931}}
	if cfg.Thorough() || cfg.Search {
		list2 = append(list2, cfgT{70004, 32, 1 << 32}, cfgT{100001, 32, 1 << 32}, cfgT{100002, 32, 1 << 32}, cfgT{131074, 32, 1<<32 + 99}, cfgT{140000, 19, 784931}, cfgT{140001, 19, 784931},
			cfgT{400001, 19, 784931}, cfgT{65536, 31, 1 << 31}, cfgT{131072, 1, 3}, cfgT{262144 + 7, 8, 1 << 8}, cfgT{1<<20 + 1, 10, 1 << 10})
	}
	for _, c := range list2 {
		checkFilter(bigSpec(c.n, c.p, c.m, randKey(r2), r2.U64()), false, "big")
	}
}

// bigSpec is a set too large to print, described by a formula (runReplay parses it back).
func bigSpec(n int, p uint8, m uint64, key [16]byte, seed uint64) spec {
	s := spec{P: p, M: m, Key: key}
	s.Gen = fmt.Sprintf("N=%d items: LE64(x*0x9E3779B97F4A7C15 + %d) for x in 0..N-1", n, seed)
	s.Data = make([][]byte, n)
	for i := range s.Data {
		s.Data[i] = gref.LE64(uint64(i)*0x9E3779B97F4A7C15 + seed)
	}
	return s
}

func parseBigSpec(g string) ([][]byte, bool) {
	var n int
	var seed uint64
	if _, err := fmt.Sscanf(g, "N=%d items: LE64(x*0x9E3779B97F4A7C15 + %d) for x in 0..N-1", &n, &seed); err != nil || n < 0 || n > 1<<24 {
		return nil, false
	}
	return bigSpec(n, 0, 0, [16]byte{}, seed).Data, true
}

// N across the CompactSize boundaries (0xfc/0xfd, 0xffff/0x10000, 2^32-1) through FromBytes, then
// NBytes / PBytes / NPBytes against the stated concatenations, FromNBytes back, and parsing the NP form
func familySerN(rng *vh.RNG) {
	r := rng.Fork("serN")
	ns := []uint32{0, 1, 2, 0x7f, 0x80, 0xfb, 0xfc, 0xfd, 0xfe, 0xff, 0x100, 0x101, 0xfffe, 0xffff, 0x10000, 0x10001, 0xffffff, 0x1000000, 0x7fffffff, 0x80000000, 0xfffffffe, 0xffffffff}
	for i := 0; i < cfg.Scale(10, 60); i++ {
		ns = append(ns, r.U32()>>uint(r.Intn(32)))
	}
	for i, n := range ns {
		p := uint8(r.Intn(33))
		m := vh.Pick(r, []uint64{784931, 1, 0, 1 << 32, 1<<40 + 7, r.U64()})
		body := r.Bytes(r.Intn(12))
		if i%5 == 0 {
			body = nil
		}
		var f *gcs.Filter
		var err error
		if pn, msg := vh.Catch(func() { f, err = gcs.FromBytes(n, p, m, body) }); pn {
			rep.Violate("C14:deser:panic", "FromBytes panicked", map[string]interface{}{"N": n, "P": p, "M": u(m), "bytes": vh.Hex(body), "panic": msg})
			continue
		}
		if err != nil {
			rep.Violate("C14:deser:frombytes", "FromBytes accepts/rejects differently from P <= 32", map[string]interface{}{"N": n, "P": p, "impl_class": errClass(err)})
			continue
		}
		var fb, nb, pb, npb []byte
		var e1, e2, e3 error
		if pn, msg := vh.Catch(func() {
			fb, _ = f.Bytes()
			nb, e1 = f.NBytes()
			pb, e2 = f.PBytes()
			npb, e3 = f.NPBytes()
		}); pn {
			rep.Violate("C14:ser:panic", "a serialisation method panicked", map[string]interface{}{"call": "FromBytes(N, P, M, bytes) then Bytes()/NBytes()/PBytes()/NPBytes()", "N": n, "P": p, "M": u(m), "bytes": vh.Hex(body), "panic": msg})
			continue
		}
		vi := gref.VarInt(uint64(n))
		wantN := append(append([]byte{}, vi...), body...)
		wantP := append([]byte{p}, body...)
		wantNP := append(append(append([]byte{}, vi...), p), body...)
		rep.Count("serN", fmt.Sprintf("n%d/%d/%x", n, p, body), n >= 0xfd)
		rep.Histogram[fmt.Sprintf("serN:varint%d", len(vi))]++
		replay := map[string]interface{}{"call": "FromBytes(N, P, M, bytes) then N()/P()/Bytes()/NBytes()/PBytes()/NPBytes(), FromNBytes(P, M, NBytes())", "N": n, "P": p, "M": u(m), "bytes": vh.Hex(body)}
		if f.N() != n || f.P() != p || !bytes.Equal(fb, body) || gcs.VerifModulusNP(f) != gref.Modulus(uint64(n), m) {
			rep.Violate("C14:deser:fields", "FromBytes returned wrong N / P / bytes / modulus", replay)
		}
		if e1 != nil || e2 != nil || e3 != nil || !bytes.Equal(nb, wantN) || !bytes.Equal(pb, wantP) || !bytes.Equal(npb, wantNP) {
			replay["NBytes"], replay["PBytes"], replay["NPBytes"] = vh.Hex(nb), vh.Hex(pb), vh.Hex(npb)
			rep.Violate("C14:ser:concat", "NBytes / PBytes / NPBytes is not CompactSize(N) / P / both followed by the filter bytes", replay)
			continue
		}
		var g *gcs.Filter
		if pn, msg := vh.Catch(func() { g, err = gcs.FromNBytes(p, m, nb) }); pn {
			replay["panic"] = msg
			rep.Violate("C14:deser:panic", "FromNBytes panicked on a serialisation produced by the library", replay)
			continue
		}
		if err != nil {
			replay["error"] = err.Error()
			rep.Violate("C14:roundtrip:error", "FromNBytes rejected a serialisation produced by the library", replay)
			continue
		}
		gb, _ := g.Bytes()
		if g.N() != n || g.P() != p || !bytes.Equal(gb, body) || gcs.VerifModulusNP(g) != gcs.VerifModulusNP(f) {
			replay["rebuilt_N"] = g.N()
			rep.Violate("C14:roundtrip:fields", "a filter rebuilt from its serialisation has different N / P / bytes / modulus", replay)
		}
		// the NP form parses back (independent CompactSize reader): N, then P, then the bytes
		if cls, pn, rest := refReadVarInt(npb); cls != 0 || pn != uint64(n) || len(rest) < 1 || rest[0] != p || !bytes.Equal(rest[1:], body) {
			rep.Violate("C14:ser:concat", "NPBytes does not parse back into (N, P, bytes)", replay)
		}
		if !cfg.Search {
			cases.Add(fmt.Sprintf("Ser %d %d %d %s %s %s %s", n, p, m, vh.CoqBytes(body), vh.CoqBytes(nb), vh.CoqBytes(pb), vh.CoqBytes(npb)),
				map[string]interface{}{"op": "NBytes/PBytes/NPBytes", "N": n, "P": p, "filter": vh.Hex(body), "impl_nbytes": vh.Hex(nb), "impl_pbytes": vh.Hex(pb), "impl_npbytes": vh.Hex(npb)})
			cases.Add(fmt.Sprintf("FromN %d %d %s 0 %d %d %s", p, m, vh.CoqBytes(nb), g.N(), g.P(), vh.CoqBytes(gb)),
				map[string]interface{}{"op": "FromNBytes(NBytes())", "P": p, "nbytes": vh.Hex(nb)})
		}
	}
}

// long unary runs (quotients beyond 2^8 and 2^16) through the bit-exactness monitor
func familyLongRun(rng *vh.RNG) {
	r := rng.Fork("longrun")
	type lc struct {
		p uint8
		q uint64
	}
	list := []lc{{0, 300}, {3, 520}, {0, 70000}, {1, 140000}, {5, 200000}, {0, 66000}}
	if cfg.Thorough() || cfg.Search {
		list = append(list, lc{8, 300000}, lc{0, 1 << 20}, lc{19, 70000}, lc{32, 66000})
	}
	for li, c := range list {
		for _, n := range []int{1, 2, 3} {
			for k := 0; k < cfg.Scale(2, 6); k++ {
				s := spec{P: c.p, M: c.q<<c.p + uint64(r.Intn(3)), Key: randKey(r)}
				for i := 0; i < n; i++ {
					s.Data = append(s.Data, randItem(r))
				}
				vals := gref.Values(s.Key, gref.Modulus(uint64(n), s.M), s.Data)
				var last, mq uint64
				for _, v := range vals {
					if q := (v - last) >> s.P; q > mq {
						mq = q
					}
					last = v
				}
				switch {
				case mq >= 1<<16:
					rep.Histogram["longrun:q>=2^16"]++
				case mq >= 1<<8:
					rep.Histogram["longrun:q>=2^8"]++
				}
				checkFilter(s, !cfg.Search && k == 0 && (li < 2 && n == 2 || li == 2 && n == 1), "longrun")
			}
		}
	}
}

// codeword lengths around the machine word (quotient + 1 + P = 63, 64, 65 bits for every P; quotients 31, 32, 33
// at P = 32): items found by scanning for N = 1, M = (q+2) << P
func familyCodeword(rng *vh.RNG) {
	r := rng.Fork("codeword")
	for p := 0; p <= 32; p++ {
		qs := []uint64{62 - uint64(p), 63 - uint64(p), 64 - uint64(p)}
		if p == 32 || cfg.Thorough() || cfg.Search {
			qs = append(qs, 31, 32, 33)
		}
		for _, q := range qs {
			key := randKey(r)
			m := (q + 2) << uint(p)
			var it []byte
			for t := 0; t < 20000 && it == nil; t++ {
				c := gref.LE64(r.U64())
				if gref.Value(key, m, c)>>uint(p) == q {
					it = c
				}
			}
			if it == nil {
				continue
			}
			rep.Histogram[fmt.Sprintf("codeword:bits=%d", q+1+uint64(p))]++
			corr := !cfg.Search && (p == 32 && q == 32 || p == 0 && q == 64 || p == 31 && q == 33 || p == 8 && q == 55)
			checkFilter(spec{P: uint8(p), M: m, Key: key, Data: [][]byte{it}}, corr, "codeword")
			checkFilter(spec{P: uint8(p), M: m / 3, Key: key, Data: [][]byte{it, randItem(r), randItem(r)}}, false, "codeword")
		}
	}
}

// moduli and digests that make the middle column of the 64x64 -> 128 product overflow, driven through
// BuildGCSFilter (not only through the fastReduction hook): M = c*2^32 - 1, so that N*M has its low word
// just below 2^32, and items whose SipHash has its high word within N*M>>34 of 2^32 (found by scanning)
func familyReduceWrap(rng *vh.RNG) {
	r := rng.Fork("reducewrap")
	type rc struct {
		c uint64
		n int
	}
	list := []rc{{1000, 50}, {4096, 12}, {2000, 30}, {3000, 4}}
	if cfg.Thorough() || cfg.Search {
		list = append(list, rc{500, 200}, rc{64, 2000}, rc{8000, 9})
	}
	for li, c := range list {
		m := c.c<<32 - 1
		key := randKey(r)
		F := gref.Modulus(uint64(c.n), m)
		slack := (F >> 32) / 4
		var crafted [][]byte
		for t := 0; t < 40000000 && len(crafted) < 3; t++ {
			it := gref.LE64(r.U64())
			if gref.Sip(key, it)>>32 >= 1<<32-slack {
				crafted = append(crafted, it)
			}
		}
		s := spec{P: 32, M: m, Key: key, Data: crafted}
		for len(s.Data) < c.n {
			s.Data = append(s.Data, randItem(r))
		}
		rep.Histogram[fmt.Sprintf("reducewrap:crafted=%d", len(crafted))]++
		checkFilter(s, !cfg.Search && li == 1, "reducewrap")
	}
}

func familyReduction(rng *vh.RNG) {
	r := rng.Fork("reduction")
	edge := []uint64{0, 1, 2, 0xffffffff, 0x100000000, 0x100000001, 0xfffffffe00000001, 0xffffffff00000000, 0x8000000000000000, 0xffffffffffffffff, 0x00000001ffffffff, 0xffffffff00000001}
	total := cfg.Scale(40000, 600000)
	for i := 0; i < total; i++ {
		var v, n uint64
		switch {
		case i < len(edge)*len(edge):
			v, n = edge[i/len(edge)], edge[i%len(edge)]
		case i%4 == 0:
			v, n = r.U64(), r.U64()
		case i%4 == 1:
			v, n = r.U64(), uint64(r.Intn(100000)+1)*784931 // moduli of real filters
		case i%4 == 2:
			v, n = r.U64()|0xffffffff, r.U64()|0xffffffff00000000 // the three middle columns nearly full: carry 2
		default:
			v, n = r.U64(), uint64(5473+r.Intn(30000))*784931 // just above 2^32
		}
		out := gcs.VerifFastReduction(v, n>>32, uint64(uint32(n)))
		rep.Count("fastReduction", fmt.Sprintf("r%d/%d", v, n), n >= 1<<32)
		if ref := gref.Reduce(v, n); ref != out {
			rep.Violate("C14:fastreduction:spec", "fastReduction(v, n>>32, uint32(n)) differs from floor(v*n/2^64)", map[string]interface{}{"v": u(v), "n": u(n), "impl": u(out), "reference": u(ref)})
		}
		if i < cfg.Scale(200, 500) {
			cases.Add(fmt.Sprintf("Red %d %d %d %d", v, n>>32, uint64(uint32(n)), out), map[string]interface{}{"op": "fastReduction", "v": u(v), "n": u(n), "impl": u(out)})
		}
	}
}

// malformed and hostile serialisations
func familyDeser(rng *vh.RNG) {
	r := rng.Fork("deser")
	type in struct {
		p uint8
		d []byte
	}
	var ins []in
	le := func(n int, v uint64) []byte { b := gref.LE64(v); return b[:n] }
	fixed := [][]byte{
		{}, {0xfc}, {0xfd}, {0xfd, 0x01}, {0xfd, 0xfc, 0x00}, {0xfd, 0xfd, 0x00}, {0xfd, 0xff, 0xff, 0xaa},
		{0xfe}, {0xfe, 1, 2, 3}, append([]byte{0xfe}, le(4, 0xffff)...), append([]byte{0xfe}, le(4, 0x10000)...), append([]byte{0xfe}, le(4, 0xffffffff)...),
		{0xff}, append([]byte{0xff}, le(7, 1)...), append([]byte{0xff}, le(8, 0xffffffff)...), append([]byte{0xff}, le(8, 0x100000000)...),
		append([]byte{0xff}, le(8, 0xffffffffffffffff)...), append(append([]byte{0xff}, le(8, 0x100000001)...), 1, 2, 3),
		append(append([]byte{0xfe}, le(4, 0xfffffffe)...), 0xff, 0, 0),
	}
	for _, d := range fixed {
		ins = append(ins, in{19, d}, in{33, d})
	}
	for i := 0; i < cfg.Scale(80, 500); i++ {
		d := r.Bytes(r.Intn(14))
		if len(d) > 0 && i%2 == 0 {
			d[0] = vh.Pick(r, []byte{0xfc, 0xfd, 0xfe, 0xff, 0x00, 0x01})
		}
		ins = append(ins, in{uint8(r.Intn(40)), d})
	}
	for _, x := range ins {
		var f *gcs.Filter
		var err error
		m := uint64(784931)
		if p, msg := vh.Catch(func() { f, err = gcs.FromNBytes(x.p, m, x.d) }); p {
			rep.Violate("C14:deser:panic", "FromNBytes panicked", map[string]interface{}{"P": x.p, "bytes": vh.Hex(x.d), "panic": msg})
			continue
		}
		cls := errClass(err)
		rep.Count("deser", fmt.Sprintf("d%d/%x", x.p, x.d), len(x.d) > 0)
		rep.Histogram[fmt.Sprintf("deser:class%d", cls)]++
		// independent acceptance rule
		wantCls, wantN, rest := refReadVarInt(x.d)
		if wantCls == 0 && wantN >= 1<<32 {
			wantCls = 1
		}
		if wantCls == 0 && x.p > 32 {
			wantCls = 2
		}
		if cls != wantCls {
			rep.Violate("C14:deser:accept", "FromNBytes accepts/rejects differently from: canonical CompactSize N < 2^32, then P <= 32", map[string]interface{}{"P": x.p, "bytes": vh.Hex(x.d), "impl_class": cls, "required_class": wantCls})
		}
		var n uint32
		var pp uint8
		var fb []byte
		if err == nil {
			n, pp = f.N(), f.P()
			fb, _ = f.Bytes()
			if uint64(n) != wantN || pp != x.p || !bytes.Equal(fb, rest) {
				rep.Violate("C14:deser:fields", "FromNBytes returned wrong N / P / bytes", map[string]interface{}{"P": x.p, "bytes": vh.Hex(x.d), "N": n, "filter": vh.Hex(fb)})
			}
			// re-serialising gives the input back (canonical)
			if nb, _ := f.NBytes(); !bytes.Equal(nb, x.d) {
				rep.Violate("C14:deser:canonical", "NBytes(FromNBytes(d)) != d for an accepted d", map[string]interface{}{"P": x.p, "bytes": vh.Hex(x.d), "reserialised": vh.Hex(nb)})
			}
		}
		cases.Add(fmt.Sprintf("FromN %d %d %s %d %d %d %s", x.p, m, vh.CoqBytes(x.d), cls, n, pp, vh.CoqBytes(fb)),
			map[string]interface{}{"op": "FromNBytes", "P": x.p, "bytes": vh.Hex(x.d), "impl_class": cls, "impl_N": n})
		// FromBytes with the same P
		g, err2 := gcs.FromBytes(uint32(r.U32()), x.p, m, x.d)
		c2 := errClass(err2)
		if (x.p > 32) != (err2 != nil) {
			rep.Violate("C14:deser:frombytes", "FromBytes accepts/rejects differently from P <= 32", map[string]interface{}{"P": x.p, "impl_class": c2})
		}
		if err2 == nil {
			gb, _ := g.Bytes()
			if g.P() != x.p || !bytes.Equal(gb, x.d) {
				rep.Violate("C14:deser:fields", "FromBytes returned wrong P / bytes", map[string]interface{}{"P": x.p, "bytes": vh.Hex(x.d), "impl_P": g.P(), "filter": vh.Hex(gb)})
			}
		}
		cases.Add(fmt.Sprintf("FromB %d %d %d %s %d", 7, x.p, m, vh.CoqBytes(x.d), c2), map[string]interface{}{"op": "FromBytes", "P": x.p, "impl_class": c2})
	}
}

func refReadVarInt(d []byte) (cls int, n uint64, rest []byte) {
	if len(d) == 0 {
		return 3, 0, nil
	}
	need, min := 0, uint64(0)
	switch d[0] {
	case 0xfd:
		need, min = 2, 0xfd
	case 0xfe:
		need, min = 4, 0x10000
	case 0xff:
		need, min = 8, 0x100000000
	default:
		return 0, uint64(d[0]), d[1:]
	}
	if len(d) < 1+need {
		return 3, 0, nil
	}
	for i := need; i >= 1; i-- {
		n = n<<8 | uint64(d[i])
	}
	if n < min {
		return 4, 0, nil
	}
	return 0, n, d[1+need:]
}

// ---------- builder chains ----------
type bop struct {
	coq string
	do  func(b *builder.GCSBuilder)
	js  string
}

func familyBuilder(rng *vh.RNG) {
	r := rng.Fork("builder")
	count := cfg.Scale(600, 2500)
	corrCount := cfg.Scale(120, 700) // chains that also go to the Coq model; the rest are monitor-only
	for i := 0; i < count; i++ {
		var key [16]byte
		copy(key[:], r.Bytes(16))
		h := chainhash.Hash{}
		copy(h[:], r.Bytes(32))
		pickP := func() uint8 {
			return vh.Pick(r, []uint8{0, 1, 5, 19, 20, 32, 33, 200, uint8(r.Intn(33))})
		}
		pickM := func() uint64 {
			return vh.Pick(r, []uint64{0, 1, 784931, 1 << 20, 1<<32 - 1, 1 << 32, 1 << 40, uint64(r.Intn(5000))})
		}
		var b *builder.GCSBuilder
		var start string
		var startJS string
		p0, m0, n0 := pickP(), pickM(), uint32(r.Intn(5))
		if p0 != 0 && m0>>p0 > 4096 { // keep unary runs short
			m0 = uint64(1)<<p0 + uint64(r.Intn(9))
		}
		switch r.Intn(8) {
		case 0:
			b, start, startJS = &builder.GCSBuilder{}, "SZero", "GCSBuilder{}"
		case 1:
			b, start, startJS = builder.WithKeyPNM(key, p0, n0, m0), fmt.Sprintf("(SKeyPNM %s %d %d %d)", vh.CoqBytes(key[:]), p0, n0, m0), fmt.Sprintf("WithKeyPNM(%x,%d,%d,%d)", key, p0, n0, m0)
		case 2:
			b, start, startJS = builder.WithKeyPM(key, p0, m0), fmt.Sprintf("(SKeyPM %s %d %d)", vh.CoqBytes(key[:]), p0, m0), fmt.Sprintf("WithKeyPM(%x,%d,%d)", key, p0, m0)
		case 3:
			b, start, startJS = builder.WithKey(key), fmt.Sprintf("(SKey %s)", vh.CoqBytes(key[:])), fmt.Sprintf("WithKey(%x)", key)
		case 4:
			b, start, startJS = builder.WithKeyHashPNM(&h, p0, n0, m0), fmt.Sprintf("(SHashPNM %s %d %d %d)", vh.CoqBytes(h[:]), p0, n0, m0), fmt.Sprintf("WithKeyHashPNM(%x,%d,%d,%d)", h[:], p0, n0, m0)
		case 5:
			b, start, startJS = builder.WithKeyHashPM(&h, p0, m0), fmt.Sprintf("(SHashPM %s %d %d)", vh.CoqBytes(h[:]), p0, m0), fmt.Sprintf("WithKeyHashPM(%x,%d,%d)", h[:], p0, m0)
		default:
			b, start, startJS = builder.WithKeyHash(&h), fmt.Sprintf("(SHash %s)", vh.CoqBytes(h[:])), fmt.Sprintf("WithKeyHash(%x)", h[:])
		}
		// reference state
		refKey, refP, refM := [16]byte{}, uint8(0), uint64(0)
		refErr := 0
		refSet := map[string]bool{}
		var refOrder [][]byte
		refNil := true
		apply := func(kind string, arg interface{}) {
			if refErr != 0 {
				return
			}
			switch kind {
			case "key":
				refKey = arg.([16]byte)
			case "p":
				if arg.(uint8) > 32 {
					refErr = 2
				} else {
					refP = arg.(uint8)
				}
			case "m":
				if arg.(uint64) > 0xffffffff {
					refErr = 2
				} else {
					refM = arg.(uint64)
				}
			case "prealloc":
				refNil = false
			}
		}
		if start != "SZero" {
			switch {
			case strings.Contains(start, "SKeyPNM"), strings.Contains(start, "SKeyPM"):
				apply("key", key)
				apply("p", p0)
				apply("m", m0)
			case strings.Contains(start, "SKey "):
				apply("key", key)
				apply("p", uint8(builder.DefaultP))
				apply("m", uint64(builder.DefaultM))
			case strings.Contains(start, "SHashPNM"), strings.Contains(start, "SHashPM"):
				var k [16]byte
				copy(k[:], h[:16])
				apply("key", k)
				apply("p", p0)
				apply("m", m0)
			default:
				var k [16]byte
				copy(k[:], h[:16])
				apply("key", k)
				apply("p", uint8(builder.DefaultP))
				apply("m", uint64(builder.DefaultM))
			}
			apply("prealloc", nil)
		}
		var ops []string
		var opsJS []string
		panicked := false
		nops := r.Intn(9)
		// Build() in the middle of a history (and again after further Set*/Add* calls): each call must return the
		// filter of the state at that moment.  Not an operation of the Coq chain (the model's Build is a pure function).
		midBuild := func() {
			f, err := b.Build()
			cls := errClass(err)
			wantCls := refErr
			if wantCls == 0 && refP == 0 {
				wantCls = 5
			}
			if wantCls == 0 && refM == 0 {
				wantCls = 5
			}
			hist := append(append([]string{}, opsJS...), "Build()")
			replay := map[string]interface{}{"start": startJS, "ops": hist, "impl_class": cls, "required_class": wantCls}
			rep.Histogram["builder:mid-build"]++
			if cls != wantCls {
				rep.Violate("C14:builder:errors", "Build() error differs from: first latched error, else p unset, else m unset", replay)
			} else if err == nil {
				fb, _ := f.Bytes()
				F := gref.Modulus(uint64(len(refOrder)), refM)
				want := gref.Pack(gref.EncodeBits(uint(refP), gref.Values(refKey, F, refOrder)))
				if int(f.N()) != len(refOrder) || f.P() != refP || !bytes.Equal(fb, want) {
					replay["impl_N"], replay["distinct_entries"] = f.N(), len(refOrder)
					rep.Violate("C14:builder:content", "Build() is not the filter of the de-duplicated entries under the configured key, P and M (history with earlier Build() calls)", replay)
				}
			}
			opsJS = append(opsJS, "Build()")
		}
		for k := 0; k < nops && !panicked; k++ {
			if i >= corrCount/2 && r.Intn(3) == 0 {
				midBuild()
			}
			var coq, js string
			var do func()
			switch r.Intn(9) {
			case 0:
				var k2 [16]byte
				copy(k2[:], r.Bytes(16))
				coq, js = fmt.Sprintf("OSetKey %s", vh.CoqBytes(k2[:])), fmt.Sprintf("SetKey(%x)", k2)
				do = func() { b.SetKey(k2); apply("key", k2) }
			case 1:
				h2 := chainhash.Hash{}
				copy(h2[:], r.Bytes(32))
				coq, js = fmt.Sprintf("OSetKeyHash %s", vh.CoqBytes(h2[:])), fmt.Sprintf("SetKeyFromHash(%x)", h2[:])
				do = func() {
					b.SetKeyFromHash(&h2)
					var k [16]byte
					copy(k[:], h2[:16])
					apply("key", k)
				}
			case 2:
				p := pickP()
				if p != 0 && p <= 32 && refM>>p > 4096 {
					p = 20
				}
				coq, js = fmt.Sprintf("OSetP %d", p), fmt.Sprintf("SetP(%d)", p)
				do = func() { b.SetP(p); apply("p", p) }
			case 3:
				m := pickM()
				if refP != 0 && m <= 0xffffffff && m>>refP > 4096 {
					m = uint64(1) << refP
				}
				coq, js = fmt.Sprintf("OSetM %d", m), fmt.Sprintf("SetM(%d)", m)
				do = func() { b.SetM(m); apply("m", m) }
			case 4:
				n := uint32(r.Intn(4))
				coq, js = fmt.Sprintf("OPrealloc %d", n), fmt.Sprintf("Preallocate(%d)", n)
				do = func() { b.Preallocate(n); apply("prealloc", nil) }
			case 5, 6:
				e := randItem(r)
				if len(refOrder) > 0 && r.Intn(3) == 0 {
					e = refOrder[r.Intn(len(refOrder))] // duplicate
				} else if len(refOrder) > 0 && r.Intn(3) == 0 {
					// a near-duplicate: same first 32 bytes (two outpoints of one transaction), a proper
					// prefix, or an extension of an earlier entry - all distinct entries
					o := refOrder[r.Intn(len(refOrder))]
					switch r.Intn(3) {
					case 0:
						e = append(append([]byte{}, o...), r.Bytes(1+r.Intn(4))...)
					case 1:
						if len(o) > 1 {
							e = append([]byte{}, o[:1+r.Intn(len(o)-1)]...)
						}
					default:
						if len(o) >= 36 {
							e = append([]byte{}, o...)
							e[32+r.Intn(len(o)-32)] ^= byte(1 + r.Intn(255))
						}
					}
				}
				coq, js = fmt.Sprintf("OAdd %s", vh.CoqBytes(e)), fmt.Sprintf("AddEntry(%x)", e)
				do = func() {
					b.AddEntry(e)
					if refErr == 0 && !refSet[string(e)] {
						refSet[string(e)] = true
						refOrder = append(refOrder, e)
					}
				}
			case 7:
				var es [][]byte
				for j := r.Intn(4); j > 0; j-- {
					es = append(es, randItem(r))
				}
				if len(es) > 1 && r.Bool() {
					es[len(es)-1] = es[0]
				}
				coq, js = fmt.Sprintf("OAddMany %s", gref.CoqItems(es)), fmt.Sprintf("AddEntries(%v)", hexItems(es))
				do = func() {
					b.AddEntries(es)
					for _, e := range es {
						if refErr == 0 && !refSet[string(e)] {
							refSet[string(e)] = true
							refOrder = append(refOrder, e)
						}
					}
				}
			default:
				h2 := chainhash.Hash{}
				copy(h2[:], r.Bytes(32))
				coq, js = fmt.Sprintf("OAddHash %s", vh.CoqBytes(h2[:])), fmt.Sprintf("AddHash(%x)", h2[:])
				do = func() {
					b.AddHash(&h2)
					if refErr == 0 && !refSet[string(h2[:])] {
						refSet[string(h2[:])] = true
						refOrder = append(refOrder, append([]byte{}, h2[:]...))
					}
				}
			}
			ops = append(ops, coq)
			opsJS = append(opsJS, js)
			// adding to a builder whose map was never made panics in Go (nil map write); expected only then
			addsEntry := strings.HasPrefix(coq, "OAdd") && !(strings.HasPrefix(coq, "OAddMany []"))
			expectPanic := refNil && refErr == 0 && addsEntry
			if pn, msg := vh.Catch(do); pn {
				panicked = true
				if !expectPanic {
					rep.Violate("C14:builder:panic", "a builder operation panicked", map[string]interface{}{"start": startJS, "ops": opsJS, "panic": msg})
				}
			}
		}
		rep.Count("builder", fmt.Sprintf("c%s%v", startJS, opsJS), len(refOrder) > 0)
		desc := map[string]interface{}{"op": "builder chain", "start": startJS, "ops": opsJS}
		if panicked {
			rep.Histogram["builder:nilmap-panic"]++
			if i < corrCount {
				cases.Add(fmt.Sprintf("Chain %s %s true 0 [] 0 0 0 []", start, vh.CoqList(ops)), desc)
			}
			continue
		}
		k, kerr := b.Key()
		f, err := b.Build()
		cls := errClass(err)
		rep.Histogram[fmt.Sprintf("builder:class%d", cls)]++
		// reference expectation
		wantCls := refErr
		if wantCls == 0 && refP == 0 {
			wantCls = 5
		}
		if wantCls == 0 && refM == 0 {
			wantCls = 5
		}
		replay := map[string]interface{}{"start": startJS, "ops": opsJS, "impl_class": cls, "required_class": wantCls}
		if (refErr != 0) != (kerr != nil) || (kerr == nil && k != refKey) {
			rep.Violate("C14:builder:key", "Key() differs from the last key set before any latched error", replay)
		}
		var n uint32
		var pp uint8
		var fb []byte
		if cls != wantCls {
			rep.Violate("C14:builder:errors", "Build() error differs from: first latched error, else p unset, else m unset", replay)
		} else if err == nil {
			n, pp = f.N(), f.P()
			fb, _ = f.Bytes()
			F := gref.Modulus(uint64(len(refOrder)), refM)
			want := gref.Pack(gref.EncodeBits(uint(refP), gref.Values(refKey, F, refOrder)))
			if int(n) != len(refOrder) || pp != refP || !bytes.Equal(fb, want) {
				replay["impl_N"], replay["distinct_entries"] = n, len(refOrder)
				rep.Violate("C14:builder:content", "Build() is not the filter of the de-duplicated entries under the configured key, P and M", replay)
			}
		}
		kc := 0
		if kerr != nil {
			kc = errClass(kerr)
			k = [16]byte{}
		}
		keyCoq := vh.CoqBytes(k[:])
		if kerr != nil {
			keyCoq = "[]"
		}
		if i < corrCount {
			cases.Add(fmt.Sprintf("Chain %s %s false %d %s %d %d %d %s", start, vh.CoqList(ops), kc, keyCoq, cls, n, pp, vh.CoqBytes(fb)), desc)
		}
	}
}

// ---------- synthetic blocks ----------
func coqTx(tx *wire.MsgTx) string {
	var ins, outs []string
	for _, in := range tx.TxIn {
		ins = append(ins, fmt.Sprintf("mkOutpoint %s %d", vh.CoqBytes(in.PreviousOutPoint.Hash[:]), in.PreviousOutPoint.Index))
	}
	for _, o := range tx.TxOut {
		outs = append(outs, vh.CoqBytes(o.PkScript))
	}
	return fmt.Sprintf("mkTx %s %s", vh.CoqList(ins), vh.CoqList(outs))
}

func expectedEntries(txs []*wire.MsgTx) [][]byte {
	seen := map[string]bool{}
	var out [][]byte
	add := func(e []byte) {
		if !seen[string(e)] {
			seen[string(e)] = true
			out = append(out, append([]byte{}, e...))
		}
	}
	for i, tx := range txs {
		if i > 0 {
			for _, in := range tx.TxIn {
				e := append(append([]byte{}, in.PreviousOutPoint.Hash[:]...), 0, 0, 0, 0)
				binary.LittleEndian.PutUint32(e[32:], in.PreviousOutPoint.Index)
				add(e)
			}
		}
		for _, o := range tx.TxOut {
			if len(o.PkScript) > 0 {
				add(o.PkScript)
			}
		}
	}
	return out
}

func checkBlock(block *wire.MsgBlock, corr bool, what string) {
	var f *gcs.Filter
	var err error
	if p, msg := vh.Catch(func() { f, err = builder.BuildBasicFilter(block) }); p || err != nil {
		rep.Violate("C14:block:error", "BuildBasicFilter failed or panicked", map[string]interface{}{"block": what, "panic": msg, "error": fmt.Sprint(err)})
		return
	}
	var hdr bytes.Buffer
	block.Header.Serialize(&hdr)
	bh := sha256d(hdr.Bytes())
	var key [16]byte
	copy(key[:], bh[:16])
	entries := expectedEntries(block.Transactions)
	F := gref.Modulus(uint64(len(entries)), 784931)
	want := gref.Pack(gref.EncodeBits(19, gref.Values(key, F, entries)))
	fb, _ := f.Bytes()
	rep.Count("block", what+vh.Hex(bh[:8]), len(entries) > 0)
	replay := map[string]interface{}{"block": what, "header": vh.Hex(hdr.Bytes()), "transactions": len(block.Transactions), "distinct_entries": len(entries), "impl_N": f.N(), "impl_P": f.P()}
	if len(block.Transactions) <= 6 && block.SerializeSize() <= 3000 {
		var txs []string
		for _, tx := range block.Transactions {
			var b bytes.Buffer
			tx.Serialize(&b)
			txs = append(txs, vh.Hex(b.Bytes()))
		}
		replay["txs"] = txs
	} else if len(block.Transactions) <= 12 {
		var lens [][]int
		for _, tx := range block.Transactions {
			l := []int{}
			for _, o := range tx.TxOut {
				l = append(l, len(o.PkScript))
			}
			lens = append(lens, l)
		}
		replay["output_script_lengths_per_tx"] = lens
	}
	if int(f.N()) != len(entries) || f.P() != 19 || !bytes.Equal(fb, want) {
		replay["impl_bytes"], replay["reference_bytes"] = vh.Hex(trunc(fb, 64)), vh.Hex(trunc(want, 64))
		rep.Violate("C14:block:content", "BuildBasicFilter is not the P=19, M=784931 filter, keyed by the first 16 bytes of the block hash, of {outpoints spent by non-coinbase inputs} + {non-empty output scripts}", replay)
	}
	// every entry matches (C13 through the builder)
	for _, e := range entries {
		if ok, _ := f.Match(key, e); !ok {
			replay["entry"], replay["entry_length"] = vh.Hex(trunc(e, 48)), len(e)
			rep.Violate("C14:block:member", "an entry of the block is not matched by its basic filter", replay)
			break
		}
	}
	// filter hash and header
	prev := chainhash.Hash{}
	copy(prev[:], sha256d([]byte(what)))
	fh, e1 := builder.GetFilterHash(f)
	fhd, e2 := builder.MakeHeaderForFilter(f, prev)
	nb := append(gref.VarInt(uint64(f.N())), fb...)
	wantH := sha256d(nb)
	wantHdr := sha256d(append(append([]byte{}, wantH...), prev[:]...))
	if e1 != nil || e2 != nil || !bytes.Equal(fh[:], wantH) || !bytes.Equal(fhd[:], wantHdr) {
		rep.Violate("C14:hash:header", "GetFilterHash / MakeHeaderForFilter differ from SHA256d(CompactSize(N)||bytes) / SHA256d(hash||prev)", replay)
	}
	if corr {
		var txs []string
		for _, tx := range block.Transactions {
			txs = append(txs, coqTx(tx))
		}
		cases.Add(fmt.Sprintf("Basic %s %s 0 %d %s %s %s %s", vh.CoqBytes(hdr.Bytes()), vh.CoqList(txs), f.N(), vh.CoqBytes(fb), vh.CoqBytes(fh[:]), vh.CoqBytes(prev[:]), vh.CoqBytes(fhd[:])),
			map[string]interface{}{"op": "BuildBasicFilter+GetFilterHash+MakeHeaderForFilter", "block": replay})
	}
}

func randScript(r *vh.RNG) []byte {
	switch r.Intn(7) {
	case 0:
		return nil // empty script: skipped
	case 1:
		return append([]byte{0x6a, 0x04}, r.Bytes(4)...) // OP_RETURN: included like any other script
	case 2:
		return append(append([]byte{0x76, 0xa9, 0x14}, r.Bytes(20)...), 0x88, 0xac)
	case 3:
		return []byte{0x51}
	}
	return r.Bytes(1 + r.Intn(30))
}

func familyBlocks(rng *vh.RNG) {
	r := rng.Fork("blocks")
	count := cfg.Scale(400, 2000)
	for i := 0; i < count; i++ {
		hdr := wire.BlockHeader{Version: int32(r.U32()), Timestamp: time.Unix(int64(r.U32()), 0), Bits: r.U32(), Nonce: r.U32()}
		copy(hdr.PrevBlock[:], r.Bytes(32))
		copy(hdr.MerkleRoot[:], r.Bytes(32))
		block := wire.NewMsgBlock(&hdr)
		ntx := r.Intn(5)
		if i%10 == 0 {
			ntx = 0
		}
		var pool []wire.OutPoint
		var scripts [][]byte
		for t := 0; t < ntx; t++ {
			tx := wire.NewMsgTx(1)
			nin := 1 + r.Intn(3)
			for k := 0; k < nin; k++ {
				var op wire.OutPoint
				switch {
				case len(pool) > 0 && r.Intn(4) == 0:
					op = pool[r.Intn(len(pool))] // the same outpoint again (de-duplicated)
				case len(pool) > 0 && r.Intn(4) == 0:
					op = pool[r.Intn(len(pool))] // another output of the same transaction: a distinct entry
					op.Index += 1 + uint32(r.Intn(3))
					rep.Histogram["block:same-txid-outpoint"]++
				case r.Intn(8) == 0:
					op.Index = 0xffffffff // the null outpoint (what a coinbase spends), at any position
					rep.Histogram[fmt.Sprintf("block:null-outpoint-tx%d", min(t, 1))]++
				default:
					copy(op.Hash[:], r.Bytes(32))
					op.Index = vh.Pick(r, []uint32{0, 1, 2, 0xffffffff, r.U32()})
				}
				pool = append(pool, op)
				tx.AddTxIn(wire.NewTxIn(&op, r.Bytes(r.Intn(5))))
			}
			nout := r.Intn(4)
			for k := 0; k < nout; k++ {
				s := randScript(r)
				switch {
				case len(scripts) > 0 && r.Intn(4) == 0:
					s = scripts[r.Intn(len(scripts))]
				case len(scripts) > 0 && r.Intn(6) == 0:
					// extension / proper prefix of an earlier script: distinct entries
					o := scripts[r.Intn(len(scripts))]
					if len(o) > 1 && r.Bool() {
						s = append([]byte{}, o[:1+r.Intn(len(o)-1)]...)
					} else {
						s = append(append([]byte{}, o...), r.Bytes(1+r.Intn(3))...)
					}
				case len(pool) > 0 && r.Intn(8) == 0:
					// a script that is byte-for-byte a serialised outpoint of the block: ONE entry with it
					o := pool[r.Intn(len(pool))]
					s = append(append([]byte{}, o.Hash[:]...), 0, 0, 0, 0)
					binary.LittleEndian.PutUint32(s[32:], o.Index)
					rep.Histogram["block:script=outpoint"]++
				case r.Intn(8) == 0:
					// two long scripts that agree in their first 40 bytes
					s = append(bytes.Repeat([]byte{0x6a}, 40), r.Bytes(1+r.Intn(3))...)
					rep.Histogram["block:long-shared-prefix"]++
				}
				scripts = append(scripts, s)
				tx.AddTxOut(wire.NewTxOut(int64(r.Intn(1000)), s, wire.TokenData{}))
			}
			block.AddTransaction(tx)
		}
		checkBlock(block, !cfg.Search && i < cfg.Scale(25, 60), fmt.Sprintf("synthetic#%d", i))
		// mempool filter over the non-coinbase transactions
		if i%3 == 0 && len(block.Transactions) > 0 {
			txs := block.Transactions[1:]
			f, err := builder.BuildMempoolFilter(txs)
			all := append([]*wire.MsgTx{{}}, txs...)
			entries := expectedEntries(all)
			var key [16]byte
			F := gref.Modulus(uint64(len(entries)), 784931)
			want := gref.Pack(gref.EncodeBits(19, gref.Values(key, F, entries)))
			rep.Count("mempool", fmt.Sprintf("m%d", i), len(entries) > 0)
			var fb []byte
			if err == nil {
				fb, _ = f.Bytes()
			}
			if err != nil || int(f.N()) != len(entries) || !bytes.Equal(fb, want) {
				rep.Violate("C14:block:mempool", "BuildMempoolFilter is not the zero-keyed filter of all inputs' outpoints and non-empty scripts", map[string]interface{}{"block": i, "error": fmt.Sprint(err)})
			} else if !cfg.Search && i < 30 {
				var ct []string
				for _, tx := range txs {
					ct = append(ct, coqTx(tx))
				}
				cases.Add(fmt.Sprintf("Mempool %s 0 %d %s", vh.CoqList(ct), f.N(), vh.CoqBytes(fb)), map[string]interface{}{"op": "BuildMempoolFilter", "txs": len(txs)})
			}
		}
	}
	// real genesis blocks (BIP158's published testnet vector for height 0 is 019dfca8)
	for _, g := range []struct {
		name   string
		params *chaincfg.Params
		want   string
	}{{"mainnet genesis", &chaincfg.MainNetParams, ""}, {"testnet3 genesis", &chaincfg.TestNet3Params, "019dfca8"}, {"regtest genesis", &chaincfg.RegressionNetParams, ""}} {
		checkBlock(g.params.GenesisBlock, true, g.name)
		if g.want != "" {
			f, err := builder.BuildBasicFilter(g.params.GenesisBlock)
			if err == nil {
				nb, _ := f.NBytes()
				rep.Extra["bip158_vector_"+strings.ReplaceAll(g.name, " ", "_")] = vh.Hex(nb)
				if vh.Hex(nb) != g.want {
					rep.Violate("C14:block:bip158vector", "basic filter of the testnet genesis block differs from the BIP158 test vector", map[string]interface{}{"block": g.name, "impl_nbytes": vh.Hex(nb), "bip158": g.want})
				}
			}
		}
	}
}

// ---------- Round 3: scripts and entries of every length class ----------
// longScript is a script of exactly l bytes: 0x6a (OP_RETURN) followed by byte(j*131 + l + tag) at offset j.
func longScript(l, tag int) []byte {
	b := make([]byte, l)
	for j := range b {
		b[j] = byte(j*131 + l + tag)
	}
	if l > 0 {
		b[0] = 0x6a
	}
	return b
}

const longScriptFormula = "script(L,t): L bytes, [0] = 0x6a, [j] = byte(j*131 + L + t)"

// scriptLengths are the length classes: the push-opcode boundaries (75/76, 255/256), the standardness and consensus
// limits of scripts (520, 10000), the 16-bit boundary and beyond.
func scriptLengths() []int {
	ls := []int{1, 2, 34, 75, 76, 77, 255, 256, 257, 519, 520, 521, 4096, 9999, 10000, 10001, 10002, 20000, 65535, 65536, 65537, 100000}
	if cfg.Thorough() || cfg.Search {
		ls = append(ls, 1<<18+1, 1<<20+5)
	}
	return ls
}

func familyBlocksLong(rng *vh.RNG) {
	r := rng.Fork("blockslong")
	mkBlock := func() *wire.MsgBlock {
		hdr := wire.BlockHeader{Version: int32(r.U32()), Timestamp: time.Unix(int64(r.U32()), 0), Bits: r.U32(), Nonce: r.U32()}
		copy(hdr.PrevBlock[:], r.Bytes(32))
		copy(hdr.MerkleRoot[:], r.Bytes(32))
		return wire.NewMsgBlock(&hdr)
	}
	mkTx := func(nin int, scripts ...[]byte) *wire.MsgTx {
		tx := wire.NewMsgTx(1)
		for k := 0; k < nin; k++ {
			var op wire.OutPoint
			copy(op.Hash[:], r.Bytes(32))
			op.Index = uint32(r.Intn(4))
			tx.AddTxIn(wire.NewTxIn(&op, nil))
		}
		for _, s := range scripts {
			tx.AddTxOut(wire.NewTxOut(int64(r.Intn(1000)), s, wire.TokenData{}))
			rep.Histogram[scriptClass(len(s))]++
		}
		return tx
	}
	mempool := func(txs []*wire.MsgTx, what string) {
		var f *gcs.Filter
		var err error
		if pn, msg := vh.Catch(func() { f, err = builder.BuildMempoolFilter(txs) }); pn || err != nil {
			rep.Violate("C14:block:mempool", "BuildMempoolFilter failed or panicked", map[string]interface{}{"block": what, "panic": msg, "error": fmt.Sprint(err)})
			return
		}
		entries := expectedEntries(append([]*wire.MsgTx{{}}, txs...))
		var key [16]byte
		want := gref.Pack(gref.EncodeBits(19, gref.Values(key, gref.Modulus(uint64(len(entries)), 784931), entries)))
		fb, _ := f.Bytes()
		rep.Count("mempool", what, len(entries) > 0)
		if int(f.N()) != len(entries) || !bytes.Equal(fb, want) {
			rep.Violate("C14:block:mempool", "BuildMempoolFilter is not the zero-keyed filter of all inputs' outpoints and non-empty scripts",
				map[string]interface{}{"block": what, "distinct_entries": len(entries), "impl_N": f.N(), "scripts": longScriptFormula})
		}
	}
	lens := scriptLengths()
	// (a) one block per length class: the long script in the coinbase, in a later transaction, and twice (one entry)
	for li, l := range lens {
		for variant := 0; variant < 3; variant++ {
			block := mkBlock()
			var what string
			switch variant {
			case 0:
				block.AddTransaction(mkTx(1, longScript(l, li)))
				what = fmt.Sprintf("long#%d.0: only a coinbase with one output, script(%d,%d); %s", li, l, li, longScriptFormula)
			case 1:
				block.AddTransaction(mkTx(1, []byte{0x51}))
				block.AddTransaction(mkTx(2, []byte{0x52}, longScript(l, li), nil))
				what = fmt.Sprintf("long#%d.1: coinbase [51]; tx with 2 inputs and outputs [52], script(%d,%d), empty; %s", li, l, li, longScriptFormula)
			default:
				other := longScript(l, li)
				other[l-1] ^= 1 // differs from the first in the LAST byte only: a distinct entry
				block.AddTransaction(mkTx(1, longScript(l, li)))
				block.AddTransaction(mkTx(1, longScript(l, li), other, longScript(l+1, li)))
				what = fmt.Sprintf("long#%d.2: coinbase script(%d,%d); tx with outputs script(%d,%d) again, the same with its last byte ^1, script(%d,%d); %s", li, l, li, l, li, l+1, li, longScriptFormula)
			}
			checkBlock(block, false, what)
			if variant == 1 {
				mempool(block.Transactions[1:], what)
			}
		}
	}
	// (b) every length class in one block
	{
		block := mkBlock()
		block.AddTransaction(mkTx(1, []byte{0x51}))
		var all [][]byte
		for li, l := range lens {
			all = append(all, longScript(l, 1000+li))
		}
		for i := 0; i < len(all); i += 4 {
			j := i + 4
			if j > len(all) {
				j = len(all)
			}
			block.AddTransaction(mkTx(1, all[i:j]...))
		}
		what := fmt.Sprintf("long-all: coinbase [51]; transactions with 1 input and 4 outputs each, scripts script(L,1000+i) for the i-th L of %v; %s", lens, longScriptFormula)
		checkBlock(block, false, what)
		mempool(block.Transactions[1:], what)
	}
	// (c) blocks with hundreds of entries (short scripts, a few long ones in between)
	for _, ntx := range []int{64, 257, cfg.Scale(600, 3000)} {
		block := mkBlock()
		block.AddTransaction(mkTx(1, []byte{0x51}))
		for t := 1; t < ntx; t++ {
			scripts := [][]byte{append([]byte{0x76, 0xa9, 0x14}, r.Bytes(22)...), longScript(20+t%60, t)}
			if t%97 == 0 {
				scripts = append(scripts, longScript(10001+t, t))
			}
			block.AddTransaction(mkTx(1+t%3, scripts...))
		}
		what := fmt.Sprintf("many#%d: %d transactions; tx t has 1+t%%3 inputs, outputs: a random 25-byte script, script(20+t%%60,t), and script(10001+t,t) when 97 divides t; %s", ntx, ntx, longScriptFormula)
		checkBlock(block, false, what)
		mempool(block.Transactions[1:], what)
	}
	// (d) the same length classes through the builder's own entry points
	for li, l := range lens {
		var key [16]byte
		copy(key[:], r.Bytes(16))
		e1, e2 := longScript(l, 2000+li), longScript(l, 3000+li)
		h := chainhash.Hash{}
		copy(h[:], r.Bytes(32))
		var f *gcs.Filter
		var err error
		desc := map[string]interface{}{"call": fmt.Sprintf("WithKey(%x).AddEntry(script(%d,%d)).AddEntries([script(%d,%d), script(%d,%d), 01]).AddHash(%x).Build()", key, l, 2000+li, l, 3000+li, l, 2000+li, h[:]), "scripts": longScriptFormula}
		if pn, msg := vh.Catch(func() { f, err = builder.WithKey(key).AddEntry(e1).AddEntries([][]byte{e2, e1, {1}}).AddHash(&h).Build() }); pn || err != nil {
			desc["panic"], desc["error"] = msg, fmt.Sprint(err)
			rep.Violate("C14:builder:panic", "a builder chain with long entries failed or panicked", desc)
			continue
		}
		entries := [][]byte{e1, e2, {1}, h[:]}
		if l == 1 && bytes.Equal(e1, []byte{1}) {
			continue
		}
		if bytes.Equal(e1, e2) {
			entries = entries[1:]
		}
		want := gref.Pack(gref.EncodeBits(19, gref.Values(key, gref.Modulus(uint64(len(entries)), 784931), entries)))
		fb, _ := f.Bytes()
		rep.Count("builder:long", fmt.Sprintf("bl%d", l), true)
		if int(f.N()) != len(entries) || !bytes.Equal(fb, want) {
			desc["impl_N"], desc["distinct_entries"] = f.N(), len(entries)
			rep.Violate("C14:builder:content", "Build() is not the filter of the de-duplicated entries under the configured key, P and M (long entries)", desc)
		}
	}
}

func scriptClass(l int) string {
	switch {
	case l == 0:
		return "script:len=0"
	case l <= 75:
		return "script:len<=75"
	case l <= 520:
		return "script:len<=520"
	case l <= 10000:
		return "script:len<=10000"
	case l <= 65535:
		return "script:len<=65535"
	}
	return "script:len>65535"
}

// serialisation methods on filters of every size class x every CompactSize class of N x the interesting P (0, 1, the
// default, 31, 32), built through FromBytes from patterned bytes: every method under a panic guard (size hints
// computed from N, P and the length), compared byte for byte with the stated concatenations; then FromNBytes back,
// filter hash / header, and nothing may change the filter.
func patternBytes(l int) []byte {
	b := make([]byte, l)
	for i := range b {
		b[i] = byte(i*167 + (i>>8)*13 + l)
	}
	return b
}

func familySerSizes(rng *vh.RNG) {
	ns := []uint32{0, 1, 0xfc, 0xfd, 0xffff, 0x10000, 0x10001, 0x1ffff, 0x20000, 0x30000, 0xffffff, 0x1000000, 0x7fffffff, 0x80000000, 0xffffffff}
	ps := []uint8{0, 1, 19, 31, 32}
	sizes := []int{0, 1, 7, 8, 9, 255, 256, 4096, 65535, 65536, 65537}
	bigSizes := []int{1<<18 + 1, 400001, 1<<20 + 3}
	if cfg.Thorough() || cfg.Search {
		bigSizes = append(bigSizes, 1<<18-1, 1<<18, 399999, 400000, 1<<19+1, 1<<21+1)
	}
	type combo struct {
		n    uint32
		p    uint8
		size int
	}
	var combos []combo
	for _, n := range ns {
		for _, p := range ps {
			for _, sz := range sizes {
				combos = append(combos, combo{n, p, sz})
			}
		}
		for _, p := range []uint8{19, 32} {
			for _, sz := range bigSizes {
				combos = append(combos, combo{n, p, sz})
			}
		}
	}
	bodies := map[int][]byte{}
	for _, c := range combos {
		body, ok := bodies[c.size]
		if !ok {
			body = patternBytes(c.size)
			bodies[c.size] = body
		}
		m := uint64(784931)
		if c.p == 32 {
			m = 1 << 32
		}
		replay := map[string]interface{}{"call": "FromBytes(N, P, M, bytes) then Bytes / NBytes / PBytes / NPBytes, FromNBytes(P, M, NBytes()), GetFilterHash, MakeHeaderForFilter",
			"N": c.n, "P": c.p, "M": u(m), "bytes_length": c.size, "bytes": "bytes[i] = byte(i*167 + (i>>8)*13 + length)"}
		var f *gcs.Filter
		var err error
		if pn, msg := vh.Catch(func() { f, err = gcs.FromBytes(c.n, c.p, m, body) }); pn || err != nil {
			replay["panic"], replay["error"] = msg, fmt.Sprint(err)
			rep.Violate("C14:deser:frombytes", "FromBytes failed or panicked on admissible parameters", replay)
			continue
		}
		rep.Count("sersizes", fmt.Sprintf("ss%d/%d/%d", c.n, c.p, c.size), c.size > 0)
		var fb, nb, pb, npb []byte
		var e0, e1, e2, e3 error
		failed := false
		for _, mc := range []struct {
			name string
			call func()
		}{{"Bytes", func() { fb, e0 = f.Bytes() }}, {"NBytes", func() { nb, e1 = f.NBytes() }}, {"PBytes", func() { pb, e2 = f.PBytes() }}, {"NPBytes", func() { npb, e3 = f.NPBytes() }}} {
			if pn, msg := vh.Catch(mc.call); pn {
				replay["method"], replay["panic"] = mc.name, msg
				rep.Violate("C14:ser:panic", "a serialisation method panicked", replay)
				failed = true
				break
			}
		}
		if failed {
			continue
		}
		vi := gref.VarInt(uint64(c.n))
		wantN := append(append([]byte{}, vi...), body...)
		wantP := append([]byte{c.p}, body...)
		wantNP := append(append(append([]byte{}, vi...), c.p), body...)
		if e0 != nil || f.N() != c.n || f.P() != c.p || !bytes.Equal(fb, body) {
			replay["first_difference_at_byte"] = firstDiff(fb, body)
			rep.Violate("C14:deser:fields", "FromBytes returned wrong N / P / bytes", replay)
			continue
		}
		if e1 != nil || e2 != nil || e3 != nil || !bytes.Equal(nb, wantN) || !bytes.Equal(pb, wantP) || !bytes.Equal(npb, wantNP) {
			replay["lengths_N_P_NP"] = []int{len(nb), len(pb), len(npb)}
			replay["first_difference_N_P_NP"] = []int{firstDiff(nb, wantN), firstDiff(pb, wantP), firstDiff(npb, wantNP)}
			rep.Violate("C14:ser:concat", "NBytes / PBytes / NPBytes is not CompactSize(N) / P / both followed by the filter bytes", replay)
			continue
		}
		var g *gcs.Filter
		if pn, msg := vh.Catch(func() { g, err = gcs.FromNBytes(c.p, m, nb) }); pn {
			replay["panic"] = msg
			rep.Violate("C14:deser:panic", "FromNBytes panicked on a serialisation produced by the library", replay)
			continue
		} else if err != nil {
			replay["error"] = err.Error()
			rep.Violate("C14:roundtrip:error", "FromNBytes rejected a serialisation produced by the library", replay)
			continue
		}
		if gb, _ := g.Bytes(); g.N() != c.n || g.P() != c.p || !bytes.Equal(gb, body) || gcs.VerifModulusNP(g) != gcs.VerifModulusNP(f) {
			replay["rebuilt_N"], replay["rebuilt_len"] = g.N(), len(gb)
			rep.Violate("C14:roundtrip:fields", "a filter rebuilt from its serialisation has different N / P / bytes / modulus", replay)
		}
		if c.size <= 65537 || c.n%7 == 1 || c.n == 0x10000 {
			prev := chainhash.Hash{}
			var fh, fhd chainhash.Hash
			var h1, h2 error
			if pn, msg := vh.Catch(func() { fh, h1 = builder.GetFilterHash(f); fhd, h2 = builder.MakeHeaderForFilter(f, prev) }); pn {
				replay["panic"] = msg
				rep.Violate("C14:ser:panic", "GetFilterHash / MakeHeaderForFilter panicked", replay)
				continue
			}
			wantH := sha256d(wantN)
			if h1 != nil || h2 != nil || !bytes.Equal(fh[:], wantH) || !bytes.Equal(fhd[:], sha256d(append(append([]byte{}, wantH...), prev[:]...))) {
				rep.Violate("C14:hash:header", "GetFilterHash / MakeHeaderForFilter differ from SHA256d(CompactSize(N)||bytes) / SHA256d(hash||prev)", replay)
			}
		}
		if fb2, _ := f.Bytes(); !bytes.Equal(fb2, body) || f.N() != c.n || f.P() != c.p {
			replay["len_after"] = len(fb2)
			rep.Violate("C14:ser:mutates", "Bytes() / N() / P() of a filter changed after calling its serialisation / hash methods", replay)
		}
	}
}

// ---------- replay ----------
func runReplay(path string) {
	raw, err := os.ReadFile(path)
	vh.Must(err)
	var doc struct {
		Key   string                 `json:"key"`
		Input map[string]interface{} `json:"input"`
	}
	vh.Must(json.Unmarshal(raw, &doc))
	in := doc.Input
	if g, ok := in["set"].(string); ok {
		if d, ok2 := parseBigSpec(g); ok2 {
			s := spec{Data: d, Gen: g}
			if v, ok := in["P"].(float64); ok {
				s.P = uint8(v)
			}
			if v, ok := in["M"].(string); ok {
				s.M, _ = strconv.ParseUint(v, 10, 64)
			}
			if v, ok := in["key"].(string); ok {
				b, _ := hex.DecodeString(v)
				copy(s.Key[:], b)
			}
			checkFilter(s, false, "replay")
			return
		}
	}
	if _, ok := in["items"]; !ok {
		// generated inputs (big sets, blocks, chains, reductions): re-run the family with the recorded seed
		rng := vh.NewRNG(cfg.Seed)
		switch {
		case strings.HasPrefix(doc.Key, "C14:fastreduction"):
			familyReduction(rng)
		case strings.HasPrefix(doc.Key, "C14:builder"):
			familyBuilder(rng)
			familyBlocksLong(rng)
		case strings.HasPrefix(doc.Key, "C14:block"):
			familyBlocks(rng)
			familyBlocksLong(rng)
		case strings.HasPrefix(doc.Key, "C14:hash"):
			familyBlocks(rng)
			familySerSizes(rng)
		case strings.HasPrefix(doc.Key, "C14:deser"), strings.HasPrefix(doc.Key, "C14:ser"), strings.HasPrefix(doc.Key, "C14:roundtrip"):
			familyDeser(rng)
			familySerN(rng)
			familySerSizes(rng)
		default:
			familyBig(rng)
		}
		return
	}
	s := spec{}
	if v, ok := in["P"].(float64); ok {
		s.P = uint8(v)
	}
	if v, ok := in["M"].(string); ok {
		s.M, _ = strconv.ParseUint(v, 10, 64)
	}
	if v, ok := in["key"].(string); ok {
		b, _ := hex.DecodeString(v)
		copy(s.Key[:], b)
	}
	for _, x := range in["items"].([]interface{}) {
		b, _ := hex.DecodeString(fmt.Sprint(x))
		s.Data = append(s.Data, b)
	}
	checkFilter(s, false, "replay")
}

func main() {
	cfg = vh.ParseFlags("C14")
	rep = vh.NewReport(cfg)
	cases = vh.NewCases(cfg, "Run.Run_C14", 150)
	rep.Rule = "a build / serialisation / round trip counts when N > 0; fastReduction when n >= 2^32; a deserialisation when the input is non-empty; a builder chain or block when it has at least one entry"
	rng := vh.NewRNG(cfg.Seed)
	if cfg.Replay != "" {
		runReplay(cfg.Replay)
	} else {
		secs := map[string]float64{}
		timed := func(name string, f func(*vh.RNG)) {
			t0 := time.Now()
			f(rng)
			secs[name] = float64(int(time.Since(t0).Seconds()*10)) / 10
		}
		timed("small", familySmall)
		timed("big", familyBig)
		timed("serN", familySerN)
		timed("longrun", familyLongRun)
		timed("codeword", familyCodeword)
		timed("reducewrap", familyReduceWrap)
		timed("reduction", familyReduction)
		timed("builder", familyBuilder)
		timed("blocks", familyBlocks)
		timed("deser", familyDeser)
		timed("sersizes", familySerSizes)
		timed("blockslong", familyBlocksLong)
		rep.Extra["family_seconds"] = secs
	}
	keys := make([]string, 0, len(rep.Histogram))
	for k := range rep.Histogram {
		keys = append(keys, k)
	}
	sort.Strings(keys)
	rep.Cases = cases.Len()
	rep.Extra["duplicate_cases_dropped"] = cases.Dups
	_, err := cases.Flush()
	vh.Must(err)
	vh.Must(rep.Write(cfg))
	fmt.Printf("c14: %d implementation executions, %d correspondence cases, %d monitor violations\n", rep.Evaluations, rep.Cases, len(rep.Violations))
}

// Package plainrun builds and runs harness/cmd/c12/plain the way an ordinary user program is built:
// no build tag, a scratch module with a neutral path (so the main module is not verif/...), a neutral
// binary name, an environment without VERIF_* variables.  Used by the harness commands c11 and c12 for
// the monitors that need no hook: the binary they are themselves is built `-tags verif`, which is not
// the build that ships.
package plainrun

import (
	"context"
	"encoding/json"
	"fmt"
	"os"
	"os/exec"
	"path/filepath"
	"regexp"
	"strings"
	"time"
)

type Violation struct {
	Key    string                 `json:"key"`
	What   string                 `json:"what"`
	Replay map[string]interface{} `json:"replay"`
}

type Output struct {
	MainPath    string         `json:"main_path"`
	Tags        string         `json:"build_tags"`
	MaxTxnStart uint32         `json:"max_txn_count_start"`
	MaxTxnEnd   uint32         `json:"max_txn_count_end"`
	Formula     uint32         `json:"max_block_payload_div_61"`
	Executions  int            `json:"executions"`
	Histogram   map[string]int `json:"histogram"`
	Violations  []Violation    `json:"violations"`
	BuildSecs   float64        `json:"build_seconds"`
	RunSecs     float64        `json:"run_seconds"`
}

// harnessDir: the module directory of verif/harness (the harness commands are run with it as the
// working directory; fall back to the directory above the binary, harness/bin/cNN).
func harnessDir() (string, error) {
	var cands []string
	if wd, err := os.Getwd(); err == nil {
		cands = append(cands, wd)
	}
	if exe, err := os.Executable(); err == nil {
		cands = append(cands, filepath.Dir(filepath.Dir(exe)))
	}
	cands = append(cands, "/verif/harness")
	for _, d := range cands {
		if _, err := os.Stat(filepath.Join(d, "cmd", "c12", "plain", "main.go")); err == nil {
			return d, nil
		}
	}
	return "", fmt.Errorf("harness/cmd/c12/plain not found from %v", cands)
}

var modfileFlag = regexp.MustCompile(`-modfile=(\S+)`)

// Run builds the program in outDir/np (scratch module "np") and runs it.
func Run(outDir, prop string, seed uint64, scale int) (*Output, error) {
	hd, err := harnessDir()
	if err != nil {
		return nil, err
	}
	// the module file in force (bin/check passes -modfile=go.alt.mod for a scratch copy of the repository)
	modfile := filepath.Join(hd, "go.mod")
	if m := modfileFlag.FindStringSubmatch(os.Getenv("GOFLAGS")); m != nil {
		modfile = m[1]
	}
	mod, err := os.ReadFile(modfile)
	if err != nil {
		return nil, err
	}
	sum, err := os.ReadFile(strings.TrimSuffix(modfile, ".mod") + ".sum")
	if err != nil {
		return nil, err
	}
	dir := filepath.Join(outDir, "np")
	os.RemoveAll(dir)
	if err := os.MkdirAll(filepath.Join(dir, "pmtref"), 0o755); err != nil {
		return nil, err
	}
	write := func(name string, b []byte) {
		if err == nil {
			err = os.WriteFile(filepath.Join(dir, name), b, 0o644)
		}
	}
	write("go.mod", []byte(strings.Replace(string(mod), "module verif/harness", "module np", 1)))
	write("go.sum", sum)
	src, e2 := os.ReadFile(filepath.Join(hd, "cmd", "c12", "plain", "main.go"))
	ref, e3 := os.ReadFile(filepath.Join(hd, "cmd", "c12", "pmtref", "pmtref.go"))
	if e2 != nil || e3 != nil {
		return nil, fmt.Errorf("reading the sources: %v %v", e2, e3)
	}
	write("main.go", []byte(strings.Replace(string(src), `"verif/harness/cmd/c12/pmtref"`, `"np/pmtref"`, 1)))
	write(filepath.Join("pmtref", "pmtref.go"), ref)
	if err != nil {
		return nil, err
	}
	env := []string{"GOFLAGS=-mod=mod", "GOPROXY=off", "GOSUMDB=off", "GOTOOLCHAIN=local"}
	for _, kv := range os.Environ() {
		k := strings.SplitN(kv, "=", 2)[0]
		switch {
		case k == "GOFLAGS" || k == "GOPROXY" || k == "GOSUMDB" || k == "GOTOOLCHAIN" || strings.HasPrefix(k, "VERIF"):
		default:
			env = append(env, kv)
		}
	}
	t0 := time.Now()
	ctx, cancel := context.WithTimeout(context.Background(), 10*time.Minute)
	defer cancel()
	build := exec.CommandContext(ctx, "go", "build", "-o", "node", ".")
	build.Dir, build.Env = dir, env
	if b, err := build.CombinedOutput(); err != nil {
		return nil, fmt.Errorf("go build (no tags) failed: %v\n%s", err, b)
	}
	o := &Output{BuildSecs: time.Since(t0).Seconds()}
	t0 = time.Now()
	run := exec.CommandContext(ctx, filepath.Join(dir, "node"), "-prop", prop, "-seed", fmt.Sprint(seed), "-scale", fmt.Sprint(scale))
	run.Dir, run.Env = dir, env
	run.Stderr = os.Stderr
	b, err := run.Output()
	if err != nil {
		return nil, fmt.Errorf("running the plain program: %v\n%s", err, b)
	}
	if err := json.Unmarshal(b, o); err != nil {
		return nil, fmt.Errorf("output of the plain program: %v", err)
	}
	o.RunSecs = time.Since(t0).Seconds()
	return o, nil
}

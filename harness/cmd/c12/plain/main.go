// Command plain is the hook-free part of the C11 / C12 monitors as a program of its own.  The harness
// commands c11 and c12 are built with `-tags verif` inside the module verif/harness; this program is
// built by them at run time (package plainrun) WITHOUT any build tag, inside a scratch module with a
// neutral path, under a neutral binary name and with a scrubbed environment, i.e. the way an ordinary
// program that imports the library is built.  Whatever differs between the verified build and the
// build that ships (files constrained `verif` / `!verif`, code that looks at the main module, the
// program name or the environment) is observed here.  It needs nothing but the exported API and the
// independent reference pmtref; it prints one JSON document on stdout.
//
// It must stay self-contained: standard library, the repository under test, bchd, and pmtref only.
package main

import (
	"bytes"
	"encoding/hex"
	"encoding/json"
	"flag"
	"fmt"
	"os"
	"runtime/debug"
	"time"

	"github.com/gcash/bchd/chaincfg/chainhash"
	"github.com/gcash/bchd/wire"
	"github.com/gcash/bchutil"
	"github.com/gcash/bchutil/bloom"
	"github.com/gcash/bchutil/merkleblock"

	"verif/harness/cmd/c12/pmtref"
)

type violation struct {
	Key    string                 `json:"key"`
	What   string                 `json:"what"`
	Replay map[string]interface{} `json:"replay"`
}

type output struct {
	MainPath    string         `json:"main_path"`
	Tags        string         `json:"build_tags"`
	MaxTxnStart uint32         `json:"max_txn_count_start"`
	MaxTxnEnd   uint32         `json:"max_txn_count_end"`
	Formula     uint32         `json:"max_block_payload_div_61"`
	Executions  int            `json:"executions"`
	Histogram   map[string]int `json:"histogram"`
	Violations  []violation    `json:"violations"`
}

var out = output{Histogram: map[string]int{}}

func violate(key, what string, rp map[string]interface{}) {
	rp["plain_build"] = true
	rp["build_note"] = "observed in a program built WITHOUT -tags verif in a scratch module with a neutral path (harness/cmd/c12/plain, built by package plainrun); re-run: bin/check --replay, or `go run` that directory from any module that requires the repository"
	size := func(x interface{}) int { j, _ := json.Marshal(x); return len(j) }
	for i, v := range out.Violations {
		if v.Key == key {
			if size(rp) < size(v.Replay) {
				out.Violations[i] = violation{key, what, rp}
			}
			return
		}
	}
	out.Violations = append(out.Violations, violation{key, what, rp})
}

// ---------- PRNG (splitmix64) ----------
type rng struct{ s uint64 }

func (r *rng) u64() uint64 {
	r.s += 0x9E3779B97F4A7C15
	z := r.s
	z = (z ^ (z >> 30)) * 0xBF58476D1CE4E5B9
	z = (z ^ (z >> 27)) * 0x94D049BB133111EB
	return z ^ (z >> 31)
}
func (r *rng) intn(n int) int { return int(r.u64() % uint64(n)) }
func (r *rng) hash() pmtref.Hash {
	var h pmtref.Hash
	for i := 0; i < 32; i += 8 {
		x := r.u64()
		for k := 0; k < 8; k++ {
			h[i+k] = byte(x >> (8 * uint(k)))
		}
	}
	return h
}

func hexHashes(hs []pmtref.Hash) []string {
	o := make([]string, len(hs))
	for i := range hs {
		o[i] = hex.EncodeToString(hs[i][:])
	}
	return o
}

func ptrs(hs []pmtref.Hash) []*chainhash.Hash {
	o := make([]*chainhash.Hash, len(hs))
	for i := range hs {
		h := chainhash.Hash(hs[i])
		o[i] = &h
	}
	return o
}

// ---------- C12: extraction ----------
type ext struct {
	Panic   string
	OK, Bad bool
	Root    pmtref.Hash
	Items   []uint32
	Matches []pmtref.Hash
	pb      *merkleblock.PartialBlock
}

func (e *ext) read() {
	e.Items = append([]uint32(nil), e.pb.GetItems()...)
	e.Matches = e.Matches[:0]
	for _, m := range e.pb.GetMatches() {
		e.Matches = append(e.Matches, pmtref.Hash(*m))
	}
}

func extract(count uint32, hashes []pmtref.Hash, flags []byte) (e ext) {
	defer func() {
		if x := recover(); x != nil {
			e.Panic = fmt.Sprint(x)
		}
	}()
	out.Executions++
	pb := merkleblock.NewMerkleBlockFromMsg(wire.MsgMerkleBlock{Transactions: count, Hashes: ptrs(hashes), Flags: append([]byte(nil), flags...)})
	root := pb.ExtractMatches()
	e.pb = pb
	e.Bad = pb.BadTree()
	if root != nil {
		e.OK = true
		e.Root = pmtref.Hash(*root)
		e.read()
	}
	return
}

func msgReplay(count uint32, hashes []pmtref.Hash, flags []byte, e ext, r pmtref.Result, limit uint32) map[string]interface{} {
	m := map[string]interface{}{"count": count, "hashes": hexHashes(hashes), "flags": hex.EncodeToString(flags), "limit_formula": limit,
		"impl_accepted": e.OK, "impl_bad_tree": e.Bad, "reference_accepts": r.OK, "reference_reason": r.Reason, "max_txn_count_variable": merkleblock.MaxTxnCount}
	if e.Panic != "" {
		m["impl_panic"] = e.Panic
	}
	if e.OK {
		m["impl_root"] = hex.EncodeToString(e.Root[:])
		m["impl_items"] = e.Items
	}
	return m
}

var ruleOf = map[string]string{
	"zero_tx": "C12:rule:zero_transactions", "too_many_tx": "C12:rule:too_many_transactions", "more_hashes_than_tx": "C12:rule:more_hashes_than_transactions",
	"fewer_bits_than_hashes": "C12:rule:fewer_bits_than_hashes", "bits_exhausted": "C12:rule:bits_exhausted", "hashes_exhausted": "C12:rule:hashes_exhausted",
	"equal_children": "C12:rule:equal_children", "unused_flag_byte": "C12:rule:unused_flag_byte", "unused_hash": "C12:rule:unused_hash",
}

type keptExt struct {
	count      uint32
	hashes     []pmtref.Hash
	flags      []byte
	e          ext
	items      []uint32
	matches    []pmtref.Hash
	lastCount  uint32
	lastHashes []pmtref.Hash
	lastFlags  []byte
}

var keptExts []keptExt

// monitor12: one message through the implementation against the reference evaluated with the FORMULA limit.
func monitor12(count uint32, hashes []pmtref.Hash, flags []byte, limit uint32, family string) ext {
	e := extract(count, hashes, flags)
	r := pmtref.Evaluate(count, hashes, flags, limit)
	out.Histogram["C12/"+family]++
	rp := func() map[string]interface{} { return msgReplay(count, hashes, flags, e, r, limit) }
	switch {
	case e.Panic != "":
		violate("C12:panic", "ExtractMatches panicked", rp())
	case e.OK && !r.OK:
		violate(ruleOf[r.Reason], "ExtractMatches accepted a message that violates the rule: "+r.Reason, rp())
	case !e.OK && r.OK:
		violate("C12:complete:valid_rejected", "ExtractMatches rejected a message whose partial tree is valid", rp())
	case e.OK:
		same := e.Root == r.Root && len(e.Items) == len(r.Matches) && len(e.Matches) == len(r.Matches)
		for i := 0; same && i < len(r.Matches); i++ {
			same = uint64(e.Items[i]) == r.Matches[i].Pos && e.Matches[i] == r.Matches[i].H
		}
		if !same {
			violate("C12:sound:matches", "returned root / reported matches differ from the parsed partial tree", rp())
		}
	}
	// results returned earlier are read again after this extraction
	for _, k := range keptExts {
		now := k.e
		now.read()
		same := len(now.Items) == len(k.items) && len(now.Matches) == len(k.matches)
		for i := 0; same && i < len(k.items); i++ {
			same = now.Items[i] == k.items[i] && now.Matches[i] == k.matches[i]
		}
		if !same {
			m := msgReplay(k.count, k.hashes, k.flags, k.e, pmtref.Evaluate(k.count, k.hashes, k.flags, limit), limit)
			m["other_count"], m["other_hashes"], m["other_flags"] = count, hexHashes(hashes), hex.EncodeToString(flags)
			m["items_now"], m["matches_now"] = now.Items, hexHashes(now.Matches)
			violate("C12:stable:matches", "GetItems()/GetMatches() of a PartialBlock extracted earlier changed after a later extraction", m)
		}
	}
	if e.OK && len(e.Items) > 0 && len(e.Items) <= 64 {
		keptExts = append(keptExts, keptExt{count: count, hashes: append([]pmtref.Hash(nil), hashes...), flags: append([]byte(nil), flags...), e: e,
			items: append([]uint32(nil), e.Items...), matches: append([]pmtref.Hash(nil), e.Matches...)})
		if len(keptExts) > 6 {
			keptExts = append(keptExts[:2:2], keptExts[len(keptExts)-4:]...)
		}
	}
	return e
}

func runC12(r *rng, scale int) {
	formula := wire.MaxBlockPayload() / 61
	out.Formula = formula
	if out.MaxTxnStart != formula {
		A := r.hash()
		// the first count above the formula that the implementation accepts
		rp := map[string]interface{}{"MaxTxnCount": out.MaxTxnStart, "MaxBlockPayload": wire.MaxBlockPayload(), "want": formula}
		for _, c := range []uint32{formula + 1, 3000000, 100000000} {
			if e := extract(c, []pmtref.Hash{A}, []byte{0}); e.OK {
				rp["count"], rp["hashes"], rp["flags"], rp["impl_accepted"] = c, hexHashes([]pmtref.Hash{A}), "00", true
				break
			}
		}
		violate("C12:limit:maxtxncount", "merkleblock.MaxTxnCount is not wire.MaxBlockPayload()/61", rp)
	}
	A, B := r.hash(), r.hash()
	AB := pmtref.NodeHash(A, B)
	// acceptance right at the limit (the formula, not the variable)
	for _, c := range []uint32{formula - 1, formula, formula + 1, formula + 2, 2 * formula, 3000000, 61 * formula, wire.MaxBlockPayload(), wire.MaxBlockPayload() + 1, 1 << 31, 0xffffffff} {
		monitor12(c, []pmtref.Hash{A}, []byte{0}, formula, "limit_probe")
		monitor12(c, []pmtref.Hash{A, B}, []byte{0xff, 0xff, 0xff}, formula, "limit_probe")
	}
	// exhaustive: count <= 5, hash lists over {A, B, H(A,B)} of length <= count+1, one flag byte
	alpha := []pmtref.Hash{A, B, AB}
	for c := uint32(0); c <= 5; c++ {
		for fb := 0; fb < 256; fb++ {
			for L := 0; L <= int(c)+1 && L <= 5; L++ {
				total := 1
				for i := 0; i < L; i++ {
					total *= 3
				}
				hs := make([]pmtref.Hash, L)
				for code := 0; code < total; code++ {
					x := code
					for i := 0; i < L; i++ {
						hs[i] = alpha[x%3]
						x /= 3
					}
					monitor12(c, hs, []byte{byte(fb)}, formula, "exhaustive")
				}
			}
		}
	}
	// honest proofs and simple mutations
	for i := 0; i < 150*scale; i++ {
		n := 1 + r.intn(40)
		if i%10 == 0 {
			n = 1 + r.intn(600)
		}
		leaves := make([]pmtref.Hash, n)
		sel := make([]bool, n)
		for k := range leaves {
			leaves[k] = r.hash()
			sel[k] = r.intn(4) == 0
		}
		t := pmtref.Build(leaves, sel)
		hs, fl := t.Hashes(nil), pmtref.Pack(t.Flags(nil))
		e := monitor12(uint32(n), hs, fl, formula, "honest")
		if !e.OK || e.Root != pmtref.MerkleRoot(leaves) {
			violate("C12:complete:honest_proof", "an honest proof (reference builder) does not extract to the merkle root", msgReplay(uint32(n), hs, fl, e, pmtref.Evaluate(uint32(n), hs, fl, formula), formula))
		}
		f2 := append([]byte(nil), fl...)
		f2[r.intn(len(f2))] ^= 1 << uint(r.intn(8))
		monitor12(uint32(n), hs, f2, formula, "bitflip")
		monitor12(uint32(n), hs, append(append([]byte(nil), fl...), 0), formula, "extend_flags")
		monitor12(uint32(n), hs[:len(hs)-1], fl, formula, "drop_hash")
		monitor12(uint32(n)+1, hs, fl, formula, "alter_count")
		h2 := append([]pmtref.Hash(nil), hs...)
		h2[r.intn(len(h2))] = h2[r.intn(len(h2))]
		monitor12(uint32(n), h2, fl, formula, "equal_hashes")
	}
}

// ---------- C11: the builders ----------
type blk struct {
	seed   uint64
	b      *bchutil.Block
	leaves []pmtref.Hash
	header []byte
}

// makeBlock: the plain synthetic block of harness/cmd/c11 is not reproduced here (other PRNG); the replay
// therefore carries the transaction ids and the block is rebuilt from (seed, n) by THIS program.
func makeBlock(seed uint64, n int) *blk {
	r := &rng{s: seed*0x9E3779B97F4A7C15 + uint64(n)}
	prev := chainhash.Hash(r.hash())
	hdr := wire.NewBlockHeader(1, &prev, &chainhash.Hash{}, 0x1d00ffff, uint32(r.u64()))
	hdr.Timestamp = time.Unix(1231006505+int64(n), 0)
	mb := wire.NewMsgBlock(hdr)
	for i := 0; i < n; i++ {
		tx := wire.NewMsgTx(1)
		ph := chainhash.Hash(r.hash())
		tx.AddTxIn(wire.NewTxIn(wire.NewOutPoint(&ph, uint32(i)), []byte{0x51}))
		tx.AddTxOut(wire.NewTxOut(int64(i)+1, []byte{0x51}, wire.TokenData{}))
		tx.LockTime = uint32(i)
		mb.AddTransaction(tx)
	}
	b := bchutil.NewBlock(mb)
	o := &blk{seed: seed, b: b}
	for _, tx := range b.Transactions() {
		o.leaves = append(o.leaves, pmtref.Hash(*tx.Hash()))
	}
	if n > 0 {
		mb.Header.MerkleRoot = chainhash.Hash(pmtref.MerkleRoot(o.leaves))
	}
	var buf bytes.Buffer
	mb.Header.Serialize(&buf)
	o.header = buf.Bytes()
	return o
}

type built struct {
	Panic   string
	Count   uint32
	Hashes  []pmtref.Hash
	Flags   []byte
	Header  []byte
	Indices []uint32
	msg     *wire.MsgMerkleBlock
	idx     []uint32 // the returned slice itself
	input   string
}

func observe(f func() (*wire.MsgMerkleBlock, []uint32)) (o built) {
	defer func() {
		if e := recover(); e != nil {
			o.Panic = fmt.Sprint(e)
		}
	}()
	out.Executions++
	m, idx := f()
	o.msg, o.idx = m, idx
	o.Count = m.Transactions
	for _, h := range m.Hashes {
		o.Hashes = append(o.Hashes, pmtref.Hash(*h))
	}
	o.Flags = append([]byte(nil), m.Flags...)
	var buf bytes.Buffer
	m.Header.Serialize(&buf)
	o.Header = buf.Bytes()
	o.Indices = append([]uint32(nil), idx...)
	return
}

func selString(sel []bool) string {
	b := make([]byte, len(sel))
	for i, s := range sel {
		b[i] = '0'
		if s {
			b[i] = '1'
		}
	}
	return string(b)
}

func replay11(bk *blk, how string, sel []bool, o built) map[string]interface{} {
	m := map[string]interface{}{"plain_block_seed": bk.seed, "n": len(bk.leaves), "builder": how, "chosen": selString(sel),
		"note": "block = makeBlock(plain_block_seed, n) of harness/cmd/c12/plain; chosen[i]=1: transaction i is in the set / matched by the filter"}
	if len(bk.leaves) <= 16 {
		m["txids"] = hexHashes(bk.leaves)
	}
	if o.input != "" {
		m["input"] = o.input
	}
	if o.Panic != "" {
		m["panic"] = o.Panic
	} else {
		m["impl_transactions"], m["impl_flags"], m["impl_indices"], m["impl_hash_count"] = o.Count, hex.EncodeToString(o.Flags), o.Indices, len(o.Hashes)
	}
	return m
}

type kept11 struct {
	bk  *blk
	how string
	sel []bool
	o   built
}

var kept11s []kept11

func check11(bk *blk, how string, sel []bool, o built) {
	n := len(bk.leaves)
	out.Histogram["C11/"+how]++
	rp := func() map[string]interface{} { return replay11(bk, how, sel, o) }
	if o.Panic != "" {
		violate("C11:panic:"+how, "the builder panicked on a block with at least one transaction", rp())
		return
	}
	if !bytes.Equal(o.Header, bk.header) || int(o.Count) != n {
		violate("C11:header:"+how, "the message header / transaction count is not the block's", rp())
	}
	t := pmtref.Build(bk.leaves, sel)
	wantH, wantF := t.Hashes(nil), pmtref.Pack(t.Flags(nil))
	same := len(wantH) == len(o.Hashes) && bytes.Equal(wantF, o.Flags)
	for i := 0; same && i < len(wantH); i++ {
		same = wantH[i] == o.Hashes[i]
	}
	if !same {
		r := rp()
		r["reference_flags"], r["reference_hash_count"] = hex.EncodeToString(wantF), len(wantH)
		violate("C11:canonical:"+how, "the built message is not the canonical partial merkle tree for the chosen subset", r)
	}
	var want []uint32
	for i, s := range sel {
		if s {
			want = append(want, uint32(i))
		}
	}
	okIdx := len(want) == len(o.Indices)
	for i := 0; okIdx && i < len(want); i++ {
		okIdx = want[i] == o.Indices[i]
	}
	if !okIdx {
		violate("C11:indices:"+how, "the returned index list is not the list of chosen positions in block order", rp())
	}
	e := extract(o.Count, o.Hashes, o.Flags)
	switch {
	case e.Panic != "" || !e.OK:
		violate("C11:roundtrip:rejected:"+how, "ExtractMatches rejects (or panics on) the message the builder produced", rp())
	default:
		okM := e.Root == pmtref.MerkleRoot(bk.leaves) && len(e.Items) == len(want)
		for i := 0; okM && i < len(want); i++ {
			okM = e.Items[i] == want[i] && e.Matches[i] == bk.leaves[want[i]]
		}
		if !okM {
			r := rp()
			r["extracted_root"], r["extracted_items"] = hex.EncodeToString(e.Root[:]), e.Items
			violate("C11:roundtrip:root:"+how, "extraction of the built message does not give the block's merkle root and exactly the chosen transactions", r)
		}
	}
	// earlier results, read again
	for _, k := range kept11s {
		okNow := len(k.o.idx) == len(k.o.Indices) && k.o.msg.Transactions == k.o.Count && bytes.Equal(k.o.msg.Flags, k.o.Flags) && len(k.o.msg.Hashes) == len(k.o.Hashes)
		for i := 0; okNow && i < len(k.o.Indices); i++ {
			okNow = k.o.idx[i] == k.o.Indices[i]
		}
		for i := 0; okNow && i < len(k.o.Hashes); i++ {
			okNow = pmtref.Hash(*k.o.msg.Hashes[i]) == k.o.Hashes[i]
		}
		if !okNow {
			r := replay11(k.bk, k.how, k.sel, k.o)
			r["indices_now"] = append([]uint32(nil), k.o.idx...)
			r["later_n"], r["later_chosen"], r["later_builder"] = n, selString(sel), how
			violate("C11:stable:"+k.how, "a message / index list returned earlier changed while later messages were built", r)
		}
	}
	kept11s = append(kept11s, kept11{bk, how, append([]bool(nil), sel...), o})
	if len(kept11s) > 8 {
		kept11s = append(kept11s[:3:3], kept11s[len(kept11s)-5:]...)
	}
}

func sameBuilt(a, b built) bool {
	if a.Count != b.Count || !bytes.Equal(a.Flags, b.Flags) || !bytes.Equal(a.Header, b.Header) || len(a.Hashes) != len(b.Hashes) || len(a.Indices) != len(b.Indices) {
		return false
	}
	for i := range a.Hashes {
		if a.Hashes[i] != b.Hashes[i] {
			return false
		}
	}
	for i := range a.Indices {
		if a.Indices[i] != b.Indices[i] {
			return false
		}
	}
	return true
}

func newFilter(bk *blk, sel []bool, tweak uint32) *bloom.Filter {
	k := 1
	for _, s := range sel {
		if s {
			k++
		}
	}
	f := bloom.NewFilter(uint32(k), tweak, 0.0000001, wire.BloomUpdateNone)
	for i, s := range sel {
		if s {
			h := chainhash.Hash(bk.leaves[i])
			f.AddHash(&h)
		}
	}
	return f
}

func subset11(bk *blk, sel []bool, r *rng) {
	var set []pmtref.Hash
	chosen := 0
	for i, s := range sel {
		if s {
			set = append(set, bk.leaves[i])
			chosen++
		}
	}
	o := observe(func() (*wire.MsgMerkleBlock, []uint32) { return merkleblock.NewMerkleBlockWithTxnSet(bk.b, ptrs(set)) })
	check11(bk, "NewMerkleBlockWithTxnSet", sel, o)
	if chosen == 0 {
		// the empty set as a nil slice
		o2 := observe(func() (*wire.MsgMerkleBlock, []uint32) { return merkleblock.NewMerkleBlockWithTxnSet(bk.b, nil) })
		o2.input = "txnSet = nil"
		check11(bk, "NewMerkleBlockWithTxnSet", sel, o2)
	}
	tweak := uint32(r.u64())
	mm := bloom.GetMatchedIndices(bk.b, newFilter(bk, sel, tweak))
	matched := make([]bool, len(sel))
	for i := range matched {
		matched[i] = mm[i]
	}
	a := observe(func() (*wire.MsgMerkleBlock, []uint32) {
		return merkleblock.NewMerkleBlockWithFilter(bk.b, newFilter(bk, sel, tweak))
	})
	b := observe(func() (*wire.MsgMerkleBlock, []uint32) { return bloom.NewMerkleBlock(bk.b, newFilter(bk, sel, tweak)) })
	check11(bk, "NewMerkleBlockWithFilter", matched, a)
	check11(bk, "bloom.NewMerkleBlock", matched, b)
	if a.Panic == "" && b.Panic == "" && !sameBuilt(a, b) {
		rp := replay11(bk, "bloom.NewMerkleBlock", matched, b)
		rp["merkleblock_flags"], rp["merkleblock_hash_count"], rp["merkleblock_indices"] = hex.EncodeToString(a.Flags), len(a.Hashes), a.Indices
		violate("C11:builders_agree", "bloom.NewMerkleBlock and merkleblock.NewMerkleBlockWithFilter differ for the same block and filter", rp)
	}
}

func runC11(r *rng, seed uint64, scale int) {
	for n := 1; n <= 9; n++ {
		bk := makeBlock(seed, n)
		for code := 0; code < 1<<uint(n); code++ {
			sel := make([]bool, n)
			for i := range sel {
				sel[i] = code>>uint(i)&1 == 1
			}
			subset11(bk, sel, r)
		}
	}
	sizes := []int{10, 11, 12, 13, 15, 16, 17, 23, 31, 32, 33, 47, 63, 64, 65, 100, 127, 128, 129, 255, 256, 257, 1000}
	for _, n := range sizes {
		bk := makeBlock(seed, n)
		sels := [][]bool{make([]bool, n), make([]bool, n), make([]bool, n), make([]bool, n), make([]bool, n)}
		for i := 0; i < n; i++ {
			sels[1][i] = true
			sels[4][i] = r.intn(5) == 0
		}
		sels[2][0] = true
		sels[3][n-1] = true
		for k := 0; k < scale; k++ {
			s := make([]bool, n)
			for i := range s {
				s[i] = r.intn(2) == 0
			}
			sels = append(sels, s)
		}
		for _, sel := range sels {
			subset11(bk, sel, r)
		}
	}
}

func main() {
	prop := flag.String("prop", "both", "C11 | C12 | both")
	seed := flag.Uint64("seed", 1, "PRNG seed")
	scale := flag.Int("scale", 1, "1 = quick, larger = more")
	flag.Parse()
	out.MaxTxnStart = merkleblock.MaxTxnCount
	if bi, ok := debug.ReadBuildInfo(); ok {
		out.MainPath = bi.Main.Path
		for _, s := range bi.Settings {
			if s.Key == "-tags" {
				out.Tags = s.Value
			}
		}
	}
	r := &rng{s: *seed}
	if *prop == "C12" || *prop == "both" {
		runC12(r, *scale)
	}
	if *prop == "C11" || *prop == "both" {
		runC11(r, *seed, *scale)
	}
	out.MaxTxnEnd = merkleblock.MaxTxnCount
	if out.MaxTxnEnd != out.MaxTxnStart {
		violate("C12:limit:maxtxncount", "merkleblock.MaxTxnCount changed during the run", map[string]interface{}{"at_start": out.MaxTxnStart, "at_end": out.MaxTxnEnd})
	}
	j, _ := json.MarshalIndent(out, "", " ")
	os.Stdout.Write(j)
}

// Package pmtref is an independent reference for BIP37 partial merkle trees, written from the
// specification (coq/theories/Merkle/PmtSpec.v) rather than from bchutil's code: a message is
// first *parsed* into an explicit tree, and root, matches, merkle paths and the validity rules
// are separate evaluations of that tree.  Used by the harnesses of C11 and C12.
package pmtref

import (
	"crypto/sha256"
)

type Hash = [32]byte

// NodeHash is double SHA-256 of left||right.
func NodeHash(l, r Hash) Hash {
	var b [64]byte
	copy(b[:32], l[:])
	copy(b[32:], r[:])
	h := sha256.Sum256(b[:])
	return sha256.Sum256(h[:])
}

// Width is the number of nodes at height h of a merkle tree over n leaves: ceil(n / 2^h).
func Width(n uint64, h uint) uint64 { return (n + (uint64(1) << h) - 1) >> h }

// Height is the least h with Width(n, h) <= 1.
func Height(n uint64) uint {
	h := uint(0)
	for Width(n, h) > 1 {
		h++
	}
	return h
}

// MerkleRoot is the textbook level-by-level merkle root (last element duplicated on odd levels).
func MerkleRoot(leaves []Hash) Hash {
	if len(leaves) == 0 {
		return Hash{}
	}
	cur := append([]Hash(nil), leaves...)
	for len(cur) > 1 {
		var next []Hash
		for i := 0; i < len(cur); i += 2 {
			if i+1 < len(cur) {
				next = append(next, NodeHash(cur[i], cur[i+1]))
			} else {
				next = append(next, NodeHash(cur[i], cur[i]))
			}
		}
		cur = next
	}
	return cur[0]
}

// Tree is a partial merkle tree.
type Tree struct {
	Kind    int // 0 leaf, 1 pruned inner node, 2 inner node with one child, 3 inner node with two children
	Matched bool
	H       Hash
	L, R    *Tree
}

func (t *Tree) Root() Hash {
	switch t.Kind {
	case 0, 1:
		return t.H
	case 2:
		l := t.L.Root()
		return NodeHash(l, l)
	default:
		return NodeHash(t.L.Root(), t.R.Root())
	}
}

func (t *Tree) Flags(out []bool) []bool {
	switch t.Kind {
	case 0:
		return append(out, t.Matched)
	case 1:
		return append(out, false)
	case 2:
		return t.L.Flags(append(out, true))
	default:
		return t.R.Flags(t.L.Flags(append(out, true)))
	}
}

func (t *Tree) Hashes(out []Hash) []Hash {
	switch t.Kind {
	case 0, 1:
		return append(out, t.H)
	case 2:
		return t.L.Hashes(out)
	default:
		return t.R.Hashes(t.L.Hashes(out))
	}
}

// Match is a revealed transaction with its merkle path (nil entry = the node is duplicated).
type Match struct {
	Pos  uint64
	H    Hash
	Path []*Hash
}

// Matches returns the matched leaves in left-to-right order, each with its path to the root of t.
func (t *Tree) Matches(pos uint64) []Match {
	switch t.Kind {
	case 0:
		if t.Matched {
			return []Match{{Pos: pos, H: t.H}}
		}
		return nil
	case 1:
		return nil
	case 2:
		ms := t.L.Matches(2 * pos)
		for i := range ms {
			ms[i].Path = append(ms[i].Path, nil)
		}
		return ms
	default:
		lr, rr := t.L.Root(), t.R.Root()
		ml := t.L.Matches(2 * pos)
		for i := range ml {
			ml[i].Path = append(ml[i].Path, &rr)
		}
		mr := t.R.Matches(2*pos + 1)
		for i := range mr {
			mr[i].Path = append(mr[i].Path, &lr)
		}
		return append(ml, mr...)
	}
}

// EqualChildren reports whether some two-child node has children with equal hashes.
func (t *Tree) EqualChildren() bool {
	switch t.Kind {
	case 0, 1:
		return false
	case 2:
		return t.L.EqualChildren()
	default:
		return t.L.Root() == t.R.Root() || t.L.EqualChildren() || t.R.EqualChildren()
	}
}

// VerifyPath is ordinary SPV verification: fold the path from leaf h at position pos in a tree of n leaves.
func VerifyPath(n uint64, pos uint64, h Hash, path []*Hash) (Hash, bool) {
	if pos >= n {
		return Hash{}, false
	}
	cur := h
	for lvl, sib := range path {
		p := pos >> uint(lvl)
		w := Width(n, uint(lvl))
		switch {
		case sib == nil:
			if p&1 != 0 || p+1 < w {
				return Hash{}, false
			}
			cur = NodeHash(cur, cur)
		case p&1 == 0:
			if p+1 >= w {
				return Hash{}, false
			}
			cur = NodeHash(cur, *sib)
		default:
			cur = NodeHash(*sib, cur)
		}
	}
	return cur, true
}

// Build returns the canonical partial merkle tree for the leaves and the selection.
func Build(leaves []Hash, sel []bool) *Tree {
	n := uint64(len(leaves))
	// full levels
	levels := [][]Hash{append([]Hash(nil), leaves...)}
	for len(levels[len(levels)-1]) > 1 {
		cur := levels[len(levels)-1]
		var next []Hash
		for i := 0; i < len(cur); i += 2 {
			if i+1 < len(cur) {
				next = append(next, NodeHash(cur[i], cur[i+1]))
			} else {
				next = append(next, NodeHash(cur[i], cur[i]))
			}
		}
		levels = append(levels, next)
	}
	var rec func(h uint, pos uint64) *Tree
	rec = func(h uint, pos uint64) *Tree {
		if h == 0 {
			return &Tree{Kind: 0, Matched: sel[pos], H: leaves[pos]}
		}
		any := false
		for i := pos << h; i < (pos+1)<<h && i < n; i++ {
			any = any || sel[i]
		}
		if !any {
			return &Tree{Kind: 1, H: levels[h][pos]}
		}
		if 2*pos+1 < Width(n, h-1) {
			return &Tree{Kind: 3, L: rec(h-1, 2*pos), R: rec(h-1, 2*pos+1)}
		}
		return &Tree{Kind: 2, L: rec(h-1, 2*pos)}
	}
	return rec(uint(len(levels)-1), 0)
}

// Pack packs flag bits into bytes, bit i into bit (i mod 8) of byte i/8.
func Pack(bits []bool) []byte {
	out := make([]byte, (len(bits)+7)/8)
	for i, b := range bits {
		if b {
			out[i/8] |= 1 << uint(i%8)
		}
	}
	return out
}

// Unpack is the inverse direction: all 8*len(flags) bits.
func Unpack(flags []byte) []bool {
	out := make([]bool, 0, 8*len(flags))
	for _, b := range flags {
		for j := uint(0); j < 8; j++ {
			out = append(out, b>>j&1 == 1)
		}
	}
	return out
}

// Result of the reference evaluation of a message.
type Result struct {
	OK      bool
	Reason  string // first violated rule when !OK
	Root    Hash
	Matches []Match
	Tree    *Tree
	BitsUsed, HashesUsed int
}

type parser struct {
	n      uint64
	bits   []bool
	hashes []Hash
	bi, hi int
	err    string
}

func (p *parser) parse(h uint, pos uint64) *Tree {
	if p.bi >= len(p.bits) {
		p.err = "bits_exhausted"
		return nil
	}
	f := p.bits[p.bi]
	p.bi++
	if h == 0 || !f {
		if p.hi >= len(p.hashes) {
			p.err = "hashes_exhausted"
			return nil
		}
		x := p.hashes[p.hi]
		p.hi++
		if h == 0 {
			return &Tree{Kind: 0, Matched: f, H: x}
		}
		return &Tree{Kind: 1, H: x}
	}
	l := p.parse(h-1, 2*pos)
	if l == nil {
		return nil
	}
	if 2*pos+1 < Width(p.n, h-1) {
		r := p.parse(h-1, 2*pos+1)
		if r == nil {
			return nil
		}
		return &Tree{Kind: 3, L: l, R: r}
	}
	return &Tree{Kind: 2, L: l}
}

// Evaluate applies the BIP37 / CVE-2012-2459 rules to (count, hashes, flags).
func Evaluate(count uint32, hashes []Hash, flags []byte, maxTxn uint32) Result {
	n := uint64(count)
	switch {
	case n == 0:
		return Result{Reason: "zero_tx"}
	case count > maxTxn:
		return Result{Reason: "too_many_tx"}
	case uint64(len(hashes)) > n:
		return Result{Reason: "more_hashes_than_tx"}
	case 8*len(flags) < len(hashes):
		return Result{Reason: "fewer_bits_than_hashes"}
	}
	p := &parser{n: n, bits: Unpack(flags), hashes: hashes}
	t := p.parse(Height(n), 0)
	if t == nil {
		return Result{Reason: p.err, BitsUsed: p.bi, HashesUsed: p.hi}
	}
	res := Result{Tree: t, BitsUsed: p.bi, HashesUsed: p.hi}
	switch {
	case t.EqualChildren():
		res.Reason = "equal_children"
	case (p.bi+7)/8 != len(flags):
		res.Reason = "unused_flag_byte"
	case p.hi != len(hashes):
		res.Reason = "unused_hash"
	default:
		res.OK = true
		res.Root = t.Root()
		res.Matches = t.Matches(0)
	}
	return res
}

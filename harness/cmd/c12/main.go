// Command c12 drives merkleblock.NewMerkleBlockFromMsg + PartialBlock.ExtractMatches of the repository
// under test with well-formed, malformed and malicious merkle-block messages:
//   - monitors: the property's own predicate evaluated on the implementation against an independent
//     evaluation of the same partial tree (package pmtref): acceptance, root, matches, merkle paths, the
//     individual rejection rules, no panic, bounded time;
//   - correspondence cases for the Coq model (Run/Run_C12.v).
package main

import (
	"encoding/hex"
	"encoding/json"
	"fmt"
	"os"
	"runtime"
	"sort"
	"strings"
	"sync"
	"time"

	"github.com/gcash/bchd/blockchain"
	"github.com/gcash/bchd/chaincfg/chainhash"
	"github.com/gcash/bchd/wire"
	"github.com/gcash/bchutil/merkleblock"

	"verif/harness/cmd/c12/plainrun"
	"verif/harness/cmd/c12/pmtref"
	"verif/harness/internal/vh"
)

var cfg vh.Config
var rep *vh.Report
var cases *vh.Cases
var maxTxn uint32

// refLimit is the limit the property states, wire.MaxBlockPayload()/61, computed here (not read from the
// package variable): the reference evaluation of every monitor uses it, the Coq cases get the run-time
// value of the variable (maxTxn), so a changed variable shows on the implementation side with a message.
var refLimit uint32

// assumedLimit is the value the theorems' side conditions were checked for (checks.d: MaxTxnCount = 2098360).
const assumedLimit = 2098360

// named hashes (printed by name in the cases files; defined in the preamble)
var named = map[pmtref.Hash]string{}
var preamble string

func defName(name string, h pmtref.Hash) {
	named[h] = name
	preamble += fmt.Sprintf("Definition %s : list N := %s.\n", name, vh.CoqBytes(h[:]))
}

func coqHash(h pmtref.Hash) string {
	if n, ok := named[h]; ok {
		return n
	}
	return vh.CoqBytes(h[:])
}

func coqHashes(hs []pmtref.Hash) string {
	it := make([]string, len(hs))
	for i, h := range hs {
		it[i] = coqHash(h)
	}
	return vh.CoqList(it)
}

func hexHashes(hs []pmtref.Hash) []string {
	out := make([]string, len(hs))
	for i := range hs {
		out[i] = hex.EncodeToString(hs[i][:])
	}
	return out
}

// ---------- one execution of the implementation ----------
type implOut struct {
	Panic   string
	Mutated bool // the message (flag bytes, hash values, count) was written to
	OK      bool
	Bad     bool
	Root    pmtref.Hash
	Items   []uint32
	Matches []pmtref.Hash
	Nanos   int64
	pb      *merkleblock.PartialBlock // kept to be read again after later extractions
	rootPtr *chainhash.Hash
}

func runImpl(count uint32, hashes []pmtref.Hash, flags []byte) (o implOut) {
	defer func() {
		if e := recover(); e != nil {
			o.Panic = fmt.Sprint(e)
		}
	}()
	ptrs := make([]*chainhash.Hash, len(hashes))
	for i := range hashes {
		h := chainhash.Hash(hashes[i])
		ptrs[i] = &h
	}
	msg := wire.MsgMerkleBlock{Transactions: count, Hashes: ptrs, Flags: flags}
	before := flagSum(flags)
	t0 := time.Now()
	pb := merkleblock.NewMerkleBlockFromMsg(msg)
	root := pb.ExtractMatches()
	o.Nanos = time.Since(t0).Nanoseconds()
	o.pb, o.rootPtr = pb, root
	o.Bad = pb.BadTree()
	o.Mutated = flagSum(flags) != before || msg.Transactions != count || len(msg.Hashes) != len(hashes) || len(msg.Flags) != len(flags)
	for i := range ptrs {
		if msg.Hashes[i] != ptrs[i] || pmtref.Hash(*ptrs[i]) != hashes[i] {
			o.Mutated = true
		}
	}
	if root != nil {
		o.OK = true
		o.Root = pmtref.Hash(*root)
		o.Items = append(o.Items, pb.GetItems()...)
		for _, m := range pb.GetMatches() {
			o.Matches = append(o.Matches, pmtref.Hash(*m))
		}
	}
	return
}

// flagSum is a position-sensitive checksum of the flag bytes (taken before and after extraction).
func flagSum(b []byte) uint64 {
	h := uint64(1469598103934665603)
	for _, x := range b {
		h = (h ^ uint64(x)) * 1099511628211
	}
	return h
}

// slowAgain re-runs an over-budget call three times and reports whether even the fastest run is over
// budget (a scheduling or GC pause in a parallel sweep is not a finding).
func slowAgain(count uint32, hashes []pmtref.Hash, flags []byte, budget int64) bool {
	for i := 0; i < 3; i++ {
		if o := runImpl(count, hashes, flags); o.Nanos <= budget {
			return false
		}
	}
	return true
}

// ---------- monitors (safe for concurrent use: violations go to a local sink) ----------
type sink struct {
	evals, accepted int
	hist            map[string]int
	viol            []vh.Violation
	// accepted PartialBlocks kept alive: the first two of this sink for good, the last three in a ring;
	// all are read again after every later extraction of the same sink (= on the same goroutine) and
	// once more by the goroutine that merges the sink
	pinned, ring []keptPB
}

type keptPB struct {
	count  uint32
	hashes []pmtref.Hash
	flags  []byte
	o      implOut // what was read right after ExtractMatches (copies), and the PartialBlock itself
}

// readAgain reads the results of a kept PartialBlock now.
func (k keptPB) readAgain() (o implOut) {
	o.OK, o.Bad = true, k.o.pb.BadTree()
	if k.o.rootPtr != nil {
		o.Root = pmtref.Hash(*k.o.rootPtr)
	}
	o.Items = append(o.Items, k.o.pb.GetItems()...)
	for _, m := range k.o.pb.GetMatches() {
		if m == nil {
			o.Matches = append(o.Matches, pmtref.Hash{})
		} else {
			o.Matches = append(o.Matches, pmtref.Hash(*m))
		}
	}
	return
}

// recheck reads every kept PartialBlock again; (count, hashes, flags) is the message extracted last.
func (s *sink) recheck(count uint32, hashes []pmtref.Hash, flags []byte, where string) {
	for _, set := range [][]keptPB{s.pinned, s.ring} {
		for _, k := range set {
			now := k.readAgain()
			if sameOut(now, k.o) {
				continue
			}
			rp := replayOf(k.count, k.hashes, k.flags, k.o, pmtref.Evaluate(k.count, k.hashes, k.flags, refLimit))
			rp["other_count"], rp["other_hashes"], rp["other_flags"] = count, hexHashes(hashes), hex.EncodeToString(flags)
			rp["items_now"], rp["matches_now"], rp["root_now"], rp["bad_tree_now"] = now.Items, hexHashes(now.Matches), hex.EncodeToString(now.Root[:]), now.Bad
			rp["note"] = "this message was extracted and its results read (impl_items, impl_matches); then the other message was extracted (" + where + "); then GetItems()/GetMatches()/BadTree()/the returned root of THIS PartialBlock were read again"
			s.violate("C12:stable:matches", "the results of a PartialBlock extracted earlier (GetItems/GetMatches/root/BadTree) changed after a later extraction", rp)
		}
	}
}

func (s *sink) keep(count uint32, hashes []pmtref.Hash, flags []byte, o implOut) {
	if !o.OK || o.pb == nil || len(o.Items) == 0 || len(o.Items) > 256 {
		return
	}
	k := keptPB{count, append([]pmtref.Hash(nil), hashes...), append([]byte(nil), flags...), o}
	if len(s.pinned) < 2 {
		s.pinned = append(s.pinned, k)
		return
	}
	s.ring = append(s.ring, k)
	if len(s.ring) > 3 {
		s.ring = s.ring[1:]
	}
}

func newSink() *sink { return &sink{hist: map[string]int{}} }
func (s *sink) violate(key, what string, replay interface{}) {
	for _, v := range s.viol {
		if v.Key == key {
			return
		}
	}
	s.viol = append(s.viol, vh.Violation{Key: key, What: what, Replay: replay})
}

var ruleOf = map[string]string{
	"zero_tx":                "C12:rule:zero_transactions",
	"too_many_tx":            "C12:rule:too_many_transactions",
	"more_hashes_than_tx":    "C12:rule:more_hashes_than_transactions",
	"fewer_bits_than_hashes": "C12:rule:fewer_bits_than_hashes",
	"bits_exhausted":         "C12:rule:bits_exhausted",
	"hashes_exhausted":       "C12:rule:hashes_exhausted",
	"equal_children":         "C12:rule:equal_children",
	"unused_flag_byte":       "C12:rule:unused_flag_byte",
	"unused_hash":            "C12:rule:unused_hash",
}

func replayOf(count uint32, hashes []pmtref.Hash, flags []byte, o implOut, r pmtref.Result) map[string]interface{} {
	m := map[string]interface{}{
		"count": count, "hashes": hexHashes(hashes), "flags": hex.EncodeToString(flags), "max_txn_count": maxTxn,
		"impl_accepted": o.OK, "impl_bad_tree": o.Bad, "reference_accepts": r.OK, "reference_reason": r.Reason,
	}
	if o.Panic != "" {
		m["impl_panic"] = o.Panic
	}
	if o.OK {
		m["impl_root"] = hex.EncodeToString(o.Root[:])
		m["impl_items"] = o.Items
		m["impl_matches"] = hexHashes(o.Matches)
	}
	if r.OK {
		m["reference_root"] = hex.EncodeToString(r.Root[:])
	}
	return m
}

// monitor evaluates the property on one message; returns the implementation's and the reference's results.
func monitor(s *sink, count uint32, hashes []pmtref.Hash, flags []byte) (implOut, pmtref.Result) {
	o := runImpl(count, hashes, flags)
	r := pmtref.Evaluate(count, hashes, flags, refLimit)
	s.evals++
	s.recheck(count, hashes, flags, "same goroutine")
	defer func() { s.keep(count, hashes, flags, o) }()
	if r.OK {
		s.accepted++
		s.hist["ext:accepted"]++
	} else {
		s.hist["ext:"+r.Reason]++
	}
	rp := func() map[string]interface{} { return replayOf(count, hashes, flags, o, r) }
	if o.Panic != "" {
		s.violate("C12:panic", "ExtractMatches panicked", rp())
		return o, r
	}
	if o.Mutated {
		s.violate("C12:input_mutated", "NewMerkleBlockFromMsg/ExtractMatches wrote to the message it was given", rp())
	}
	// generous: 2 node hashes of 64 bytes per flag bit cost well under a microsecond each
	if budget := int64(50e6) + int64(len(flags))*8*20000; o.Nanos > budget && slowAgain(count, hashes, flags, budget) {
		s.violate("C12:time", fmt.Sprintf("ExtractMatches took %d ns on %d flag bytes", o.Nanos, len(flags)), rp())
	}
	if o.OK && !r.OK {
		s.violate(ruleOf[r.Reason], "ExtractMatches accepted a message that violates the rule: "+r.Reason, rp())
		return o, r
	}
	if !o.OK && r.OK {
		s.violate("C12:complete:valid_rejected", "ExtractMatches rejected a message whose partial tree is valid", rp())
		return o, r
	}
	wantBad := r.Reason == "bits_exhausted" || r.Reason == "hashes_exhausted" || r.Reason == "equal_children"
	if o.Bad != wantBad {
		s.violate("C12:bad_tree_flag", "BadTree() differs from 'the traversal ran out of bits/hashes or met equal children'", rp())
	}
	if o.OK {
		if o.Root != r.Root {
			s.violate("C12:sound:root", "returned root differs from the root of the parsed partial tree", rp())
		}
		same := len(o.Items) == len(r.Matches) && len(o.Matches) == len(r.Matches)
		for i := 0; same && i < len(r.Matches); i++ {
			same = uint64(o.Items[i]) == r.Matches[i].Pos && o.Matches[i] == r.Matches[i].H
		}
		if !same {
			s.violate("C12:sound:matches", "reported matches differ from the matched leaves of the parsed partial tree", rp())
		} else {
			h := pmtref.Height(uint64(count))
			for _, m := range r.Matches {
				got, ok := pmtref.VerifyPath(uint64(count), m.Pos, m.H, m.Path)
				if !ok || got != o.Root || uint(len(m.Path)) != h {
					s.violate("C12:sound:path", "a reported (position, hash) has no merkle path to the returned root", rp())
				}
			}
		}
	}
	return o, r
}

// ---------- two PartialBlocks alive at the same time ----------
type rawMsg struct {
	count  uint32
	hashes []pmtref.Hash
	flags  []byte
	o      implOut // what an isolated run returned
}

func sameOut(a, b implOut) bool {
	if a.Panic != b.Panic || a.OK != b.OK || a.Bad != b.Bad || a.Root != b.Root || len(a.Items) != len(b.Items) || len(a.Matches) != len(b.Matches) {
		return false
	}
	for i := range a.Items {
		if a.Items[i] != b.Items[i] || a.Matches[i] != b.Matches[i] {
			return false
		}
	}
	return true
}

// interleave creates the PartialBlocks of two messages first and extracts afterwards (first a, then b):
// each must return what it returns on its own.  Extraction keeps its cursors in the PartialBlock, so
// anything that is shared between two of them (or kept in the package) shows up here.
func interleave(s *sink, a, b rawMsg) {
	mk := func(m rawMsg) wire.MsgMerkleBlock {
		ptrs := make([]*chainhash.Hash, len(m.hashes))
		for i := range m.hashes {
			h := chainhash.Hash(m.hashes[i])
			ptrs[i] = &h
		}
		return wire.MsgMerkleBlock{Transactions: m.count, Hashes: ptrs, Flags: append([]byte(nil), m.flags...)}
	}
	// extraction and reading are separate steps: A is extracted and read, B is extracted and read, and then
	// A is read AGAIN (results that live in storage shared between PartialBlocks, in the package or per
	// goroutine, are intact right after their own extraction and gone after the next one)
	ext := func(pb *merkleblock.PartialBlock) (root *chainhash.Hash, panicked string) {
		defer func() {
			if e := recover(); e != nil {
				panicked = fmt.Sprint(e)
			}
		}()
		return pb.ExtractMatches(), ""
	}
	read := func(pb *merkleblock.PartialBlock, root *chainhash.Hash, panicked string) (o implOut) {
		if o.Panic = panicked; panicked != "" {
			return
		}
		o.Bad = pb.BadTree()
		if root != nil {
			o.OK = true
			o.Root = pmtref.Hash(*root)
			o.Items = append(o.Items, pb.GetItems()...)
			for _, m := range pb.GetMatches() {
				o.Matches = append(o.Matches, pmtref.Hash(*m))
			}
		}
		return
	}
	var pa, pb2 *merkleblock.PartialBlock
	if p, _ := vh.Catch(func() { pa = merkleblock.NewMerkleBlockFromMsg(mk(a)); pb2 = merkleblock.NewMerkleBlockFromMsg(mk(b)) }); p {
		return // panics are reported by the isolated runs
	}
	ra, pnA := ext(pa)
	oa := read(pa, ra, pnA)
	rb, pnB := ext(pb2)
	ob := read(pb2, rb, pnB)
	oa2 := read(pa, ra, pnA)
	s.evals += 2
	s.hist["interleaved"] += 2
	for i, pair := range [][2]implOut{{oa, a.o}, {ob, b.o}, {oa2, a.o}} {
		if pair[1].Panic == "" && !sameOut(pair[0], pair[1]) {
			m := a
			other := b
			if i == 1 {
				m, other = b, a
			}
			rp := replayOf(m.count, m.hashes, m.flags, pair[0], pmtref.Evaluate(m.count, m.hashes, m.flags, refLimit))
			rp["other_count"] = other.count
			rp["other_hashes"] = hexHashes(other.hashes)
			rp["other_flags"] = hex.EncodeToString(other.flags)
			rp["alone_accepted"] = pair[1].OK
			rp["alone_bad_tree"] = pair[1].Bad
			rp["alone_items"] = pair[1].Items
			rp["note"] = "both PartialBlocks are created (this message first when it is the first of the pair) before either is extracted"
			if i == 2 {
				rp["note"] = "both PartialBlocks are created, this one is extracted, the other one is extracted, then the results of this one are read"
			}
			s.violate("C12:isolation", "ExtractMatches / GetItems / GetMatches give something else when another PartialBlock exists (or was extracted in between) than on their own", rp)
		}
	}
}

// ---------- PartialBlocks handed from goroutine to goroutine, and extracted by many goroutines at once ----------
// (a) relay: K PartialBlocks are created by one goroutine, extracted (one after the other) by a second, and
// read by a third after all extractions; (b) crowd: W goroutines extract the same K messages at the same
// time (each its own PartialBlocks), read at once and read again when all of them are done, and the
// main goroutine reads everything once more.  Everything must be what the message gives on its own.
func goroutineFamily(r *vh.RNG, K, W int) {
	t0 := time.Now()
	defer func() { rep.Extra["goroutine_family_seconds"] = time.Since(t0).Seconds() }()
	type item struct {
		m     rawMsg
		pb    *merkleblock.PartialBlock
		root  *chainhash.Hash
		panic string
	}
	var msgs []rawMsg
	for i := 0; i < K; i++ {
		n := 1 + r.Intn(40)
		leaves, sel := honest(r, n, 1+r.Intn(6))
		t := pmtref.Build(leaves, sel)
		hs, fl := t.Hashes(nil), pmtref.Pack(t.Flags(nil))
		if i%7 == 3 && len(fl) > 0 { // some rejected ones in between
			fl = append([]byte(nil), fl...)
			fl[0] ^= 1
		}
		msgs = append(msgs, rawMsg{uint32(n), hs, fl, runImpl(uint32(n), hs, fl)})
	}
	mk := func(m rawMsg) wire.MsgMerkleBlock {
		ptrs := make([]*chainhash.Hash, len(m.hashes))
		for i := range m.hashes {
			h := chainhash.Hash(m.hashes[i])
			ptrs[i] = &h
		}
		return wire.MsgMerkleBlock{Transactions: m.count, Hashes: ptrs, Flags: append([]byte(nil), m.flags...)}
	}
	read := func(it *item) (o implOut) {
		defer func() {
			if e := recover(); e != nil {
				o.Panic = fmt.Sprint(e)
			}
		}()
		if o.Panic = it.panic; it.panic != "" {
			return
		}
		o.Bad = it.pb.BadTree()
		if it.root != nil {
			o.OK = true
			o.Root = pmtref.Hash(*it.root)
			o.Items = append(o.Items, it.pb.GetItems()...)
			for _, m := range it.pb.GetMatches() {
				o.Matches = append(o.Matches, pmtref.Hash(*m))
			}
		}
		return
	}
	extract := func(it *item) {
		defer func() {
			if e := recover(); e != nil {
				it.panic = fmt.Sprint(e)
			}
		}()
		it.root = it.pb.ExtractMatches()
	}
	compare := func(s *sink, its []*item, how string) {
		for i, it := range its {
			if o := read(it); it.m.o.Panic == "" && !sameOut(o, it.m.o) {
				rp := replayOf(it.m.count, it.m.hashes, it.m.flags, o, pmtref.Evaluate(it.m.count, it.m.hashes, it.m.flags, refLimit))
				rp["alone_accepted"], rp["alone_items"], rp["goroutines"] = it.m.o.OK, it.m.o.Items, how
				if len(its) > 1 {
					other := its[(i+1)%len(its)].m
					rp["other_count"], rp["other_hashes"], rp["other_flags"] = other.count, hexHashes(other.hashes), hex.EncodeToString(other.flags)
				}
				s.violate("C12:isolation:goroutines", "a PartialBlock gives something else than on its own when PartialBlocks are created / extracted / read by different goroutines", rp)
			}
		}
	}
	// (a) relay
	s := newSink()
	its := make([]*item, len(msgs))
	done := make(chan bool)
	go func() {
		for i, m := range msgs {
			its[i] = &item{m: m}
			if p, msg := vh.Catch(func() { its[i].pb = merkleblock.NewMerkleBlockFromMsg(mk(m)) }); p {
				its[i].panic = msg
			}
		}
		done <- true
	}()
	<-done
	go func() {
		for _, it := range its {
			if it.panic == "" {
				extract(it)
			}
		}
		done <- true
	}()
	<-done
	go func() { compare(s, its, "relay: created by goroutine 1, extracted by goroutine 2, read by goroutine 3"); done <- true }()
	<-done
	compare(s, its, "relay: read by the main goroutine")
	s.evals += len(its)
	s.hist["goroutines:relay"] += len(its)
	// (b) crowd
	sinks := make([]*sink, W)
	all := make([][]*item, W)
	var wg sync.WaitGroup
	start := make(chan bool)
	for w := 0; w < W; w++ {
		sinks[w] = newSink()
		wg.Add(1)
		go func(w int) {
			defer wg.Done()
			<-start
			for round := 0; round < 3; round++ {
				for i := range msgs {
					m := msgs[(i+w*5+round)%len(msgs)]
					it := &item{m: m}
					if p, msg := vh.Catch(func() { it.pb = merkleblock.NewMerkleBlockFromMsg(mk(m)) }); p {
						it.panic = msg
					} else {
						extract(it)
					}
					compare(sinks[w], []*item{it}, "crowd: read right after extraction")
					all[w] = append(all[w], it)
				}
			}
			compare(sinks[w], all[w], "crowd: read by the extracting goroutine after its last extraction")
		}(w)
	}
	close(start)
	wg.Wait()
	for w := 0; w < W; w++ {
		compare(sinks[w], all[w], "crowd: read by the main goroutine after all goroutines finished")
		sinks[w].evals += len(all[w])
		sinks[w].hist["goroutines:crowd"] += len(all[w])
		mergeSink(sinks[w], "goroutines")
	}
	mergeSink(s, "goroutines")
}

// ---------- correspondence ----------
// tracer replicates the order of node hashing of the traversal (continuing after errors) only to
// collect (left, right, result) triples for the oracle table; a missing triple is computed in Coq.
type tracer struct {
	n      uint64
	bits   []bool
	hashes []pmtref.Hash
	bi, hi int
	tbl    [][3]pmtref.Hash
}

func (t *tracer) walk(h uint, pos uint64) pmtref.Hash {
	if t.bi >= len(t.bits) {
		return pmtref.Hash{}
	}
	f := t.bits[t.bi]
	t.bi++
	if h == 0 || !f {
		if t.hi >= len(t.hashes) {
			return pmtref.Hash{}
		}
		t.hi++
		return t.hashes[t.hi-1]
	}
	l := t.walk(h-1, 2*pos)
	r := l
	if 2*pos+1 < pmtref.Width(t.n, h-1) {
		r = t.walk(h-1, 2*pos+1)
	}
	o := pmtref.NodeHash(l, r)
	t.tbl = append(t.tbl, [3]pmtref.Hash{l, r, o})
	return o
}

// namer gives every distinct hash of a case one `let` binding (Coq spends ~4 ms per 32-byte literal);
// the alphabet hashes are defined once in the preamble.
type namer struct {
	names map[pmtref.Hash]string
	order []pmtref.Hash
}

func newNamer() *namer { return &namer{names: map[pmtref.Hash]string{}} }
func (nm *namer) h(x pmtref.Hash) string {
	if s, ok := named[x]; ok {
		return s
	}
	if s, ok := nm.names[x]; ok {
		return s
	}
	s := fmt.Sprintf("h%d", len(nm.order))
	nm.names[x] = s
	nm.order = append(nm.order, x)
	return s
}
func (nm *namer) hs(xs []pmtref.Hash) string {
	it := make([]string, len(xs))
	for i, x := range xs {
		it[i] = nm.h(x)
	}
	return vh.CoqList(it)
}
func (nm *namer) wrap(body string) string {
	var sb strings.Builder
	sb.WriteString("(")
	for i, x := range nm.order {
		fmt.Fprintf(&sb, "let h%d := %s in ", i, vh.CoqBytes(x[:]))
	}
	sb.WriteString(body)
	sb.WriteString(")")
	return sb.String()
}

func addCase(count uint32, hashes []pmtref.Hash, flags []byte, o implOut, withTable bool, family string) {
	if o.Panic != "" {
		return
	}
	nm := newNamer()
	tbl := "[]"
	if withTable && count != 0 && count <= maxTxn && len(hashes) <= int(count) && 8*len(flags) >= len(hashes) {
		t := &tracer{n: uint64(count), bits: pmtref.Unpack(flags), hashes: hashes}
		t.walk(pmtref.Height(uint64(count)), 0)
		it := make([]string, len(t.tbl))
		for i, e := range t.tbl {
			it[i] = fmt.Sprintf("(%s, %s, %s)", nm.h(e[0]), nm.h(e[1]), nm.h(e[2]))
		}
		tbl = vh.CoqList(it)
	}
	ms := make([]string, len(o.Items))
	for i := range o.Items {
		ms[i] = fmt.Sprintf("(%d, %s)", o.Items[i], nm.h(o.Matches[i]))
	}
	root := "[]"
	if o.OK {
		root = nm.h(o.Root)
	}
	term := nm.wrap(fmt.Sprintf("Ext %s %d %d %s %s %s %s %s %s", tbl, maxTxn, count, nm.hs(hashes), vh.CoqBytes(flags),
		vh.CoqBool(o.OK), vh.CoqBool(o.Bad), root, vh.CoqList(ms)))
	cases.Add(term, map[string]interface{}{"op": "ExtractMatches", "family": family, "count": count, "hashes": hexHashes(hashes),
		"flags": hex.EncodeToString(flags), "impl_ok": o.OK, "impl_bad": o.Bad, "impl_root": hex.EncodeToString(o.Root[:]), "impl_items": o.Items})
}

// ---------- exhaustive small scope ----------
type job struct {
	count    uint32
	flagsLen int
	first    int // first flag byte (when flagsLen >= 1), -1 otherwise
}

type sample struct {
	count  uint32
	hashes []pmtref.Hash
	flags  []byte
	o      implOut
}

type jobResult struct {
	s       *sink
	samples map[string][]sample
}

func runJob(j job, alphabet []pmtref.Hash, maxHashes func(uint32, int) int, rng *vh.RNG, secondBytes []int) jobResult {
	if j.count == 7 && len(secondBytes) > 32 {
		// count 7 with 2-byte flags: every 8th value of the second byte plus the all-ones patterns (the full
		// 65536 x 3^7 product costs as much as all smaller counts together)
		var sb []int
		for _, b := range secondBytes {
			if b%8 == 0 || b == 1 || b == 3 || b == 7 || b == 0x0f || b == 0x1f || b == 0x3f || b == 0x7f || b == 0xff {
				sb = append(sb, b)
			}
		}
		secondBytes = sb
	}
	res := jobResult{s: newSink(), samples: map[string][]sample{}}
	seen := map[string]int{}
	var flagSets [][]byte
	switch j.flagsLen {
	case 0:
		flagSets = [][]byte{{}}
	case 1:
		flagSets = [][]byte{{byte(j.first)}}
	default:
		for _, b := range secondBytes {
			flagSets = append(flagSets, []byte{byte(j.first), byte(b)})
		}
	}
	k := len(alphabet)
	for _, flags := range flagSets {
		for L := 0; L <= maxHashes(j.count, j.flagsLen); L++ {
			total := 1
			for i := 0; i < L; i++ {
				total *= k
			}
			hs := make([]pmtref.Hash, L)
			for code := 0; code < total; code++ {
				c := code
				for i := 0; i < L; i++ {
					hs[i] = alphabet[c%k]
					c /= k
				}
				o, r := monitor(res.s, j.count, hs, flags)
				cls := r.Reason
				if r.OK {
					cls = fmt.Sprintf("accepted/%d", len(r.Matches))
				}
				cls = fmt.Sprintf("%s/n%d", cls, j.count)
				seen[cls]++
				// reservoir of 2 per class per job
				if len(res.samples[cls]) < 2 {
					res.samples[cls] = append(res.samples[cls], sample{j.count, append([]pmtref.Hash(nil), hs...), append([]byte(nil), flags...), o})
				} else if x := rng.Intn(seen[cls]); x < 2 {
					res.samples[cls][x] = sample{j.count, append([]pmtref.Hash(nil), hs...), append([]byte(nil), flags...), o}
				}
			}
		}
	}
	return res
}

func exhaustive(name string, alphabet []pmtref.Hash, maxCount uint32, maxHashes func(uint32, int) int, secondBytes []int, perClass int, rng *vh.RNG) {
	var jobs []job
	for c := uint32(0); c <= maxCount; c++ {
		jobs = append(jobs, job{c, 0, -1})
		for b := 0; b < 256; b++ {
			jobs = append(jobs, job{c, 1, b})
			if len(secondBytes) > 0 {
				jobs = append(jobs, job{c, 2, b})
			}
		}
	}
	results := make([]jobResult, len(jobs))
	var wg sync.WaitGroup
	ch := make(chan int, len(jobs))
	for i := range jobs {
		ch <- i
	}
	close(ch)
	for w := 0; w < runtime.NumCPU(); w++ {
		wg.Add(1)
		go func() {
			defer wg.Done()
			for i := range ch {
				results[i] = runJob(jobs[i], alphabet, maxHashes, rng.Fork(fmt.Sprintf("job%d", i)), secondBytes)
			}
		}()
	}
	wg.Wait()
	// deterministic merge in job order
	all := map[string][]sample{}
	for _, r := range results {
		mergeSink(r.s, name)
		for cls, ss := range r.samples {
			all[cls] = append(all[cls], ss...)
		}
	}
	var keys []string
	for k := range all {
		keys = append(keys, k)
	}
	sort.Strings(keys)
	for _, cls := range keys {
		ss := all[cls]
		for i := 0; i < perClass && len(ss) > 0; i++ {
			x := rng.Intn(len(ss))
			s := ss[x]
			ss = append(ss[:x], ss[x+1:]...)
			addCase(s.count, s.hashes, s.flags, s.o, false, name+":"+cls)
		}
	}
}

var nontrivialSeen = map[string]bool{}

func mergeSink(s *sink, family string) {
	// the PartialBlocks this sink kept alive were extracted by the goroutine that filled the sink; they are
	// read once more here, by the merging goroutine, after every other goroutine of the family has finished
	s.recheck(0, nil, nil, "read again by another goroutine after all goroutines of the family finished")
	rep.Evaluations += s.evals
	for k, v := range s.hist {
		rep.Histogram[family+"/"+k] += v
	}
	// non-trivial = passes the four pre-traversal checks (the traversal runs)
	for k, v := range s.hist {
		switch k {
		case "ext:zero_tx", "ext:too_many_tx", "ext:more_hashes_than_tx", "ext:fewer_bits_than_hashes":
		default:
			rep.Nontrivial += v
		}
	}
	for _, v := range s.viol {
		rep.Violate(v.Key, v.What, v.Replay)
	}
}

// ---------- honest proofs and their mutations ----------
func randHash(r *vh.RNG) pmtref.Hash {
	var h pmtref.Hash
	copy(h[:], r.Bytes(32))
	return h
}

// alike: hand-made leaf hashes that agree in a prefix (kind 0), a suffix (kind 1) or in all but one
// or two bytes (kind 2): real transaction ids never look alike, a message may contain anything.
func alike(r *vh.RNG, n int) []pmtref.Hash {
	base := r.Bytes(32)
	kind, k := r.Intn(3), 1+r.Intn(29)
	out := make([]pmtref.Hash, n)
	for i := range out {
		var h pmtref.Hash
		copy(h[:], base)
		switch kind {
		case 0:
			copy(h[k:], r.Bytes(32-k))
			h[31], h[30] = byte(i), byte(i>>8)
		case 1:
			copy(h[:32-k], r.Bytes(32-k))
			h[0], h[1] = byte(i), byte(i>>8)
		default:
			h[k], h[(k+1)%32] = byte(i), byte(i>>8)
		}
		out[i] = h
	}
	return out
}

func honest(r *vh.RNG, n int, mode int) (leaves []pmtref.Hash, sel []bool) {
	leaves = make([]pmtref.Hash, n)
	sel = make([]bool, n)
	for i := range leaves {
		leaves[i] = randHash(r)
	}
	if r.Chance(1, 3) && n < 65536 {
		leaves = alike(r, n)
	}
	switch mode {
	case 0: // empty
	case 1: // full
		for i := range sel {
			sel[i] = true
		}
	case 2: // singleton
		sel[r.Intn(n)] = true
	case 3: // right edge
		sel[n-1] = true
	case 4: // sparse
		for i := range sel {
			sel[i] = r.Chance(1, 8)
		}
	default: // dense
		for i := range sel {
			sel[i] = r.Bool()
		}
	}
	return
}

type mutant struct {
	name   string
	count  uint32
	hashes []pmtref.Hash
	flags  []byte
}

func mutate(r *vh.RNG, count uint32, hashes []pmtref.Hash, flags []byte) []mutant {
	cp := func() ([]pmtref.Hash, []byte) {
		return append([]pmtref.Hash(nil), hashes...), append([]byte(nil), flags...)
	}
	var out []mutant
	add := func(name string, c uint32, h []pmtref.Hash, f []byte) { out = append(out, mutant{name, c, h, f}) }
	h, f := cp()
	add("honest", count, h, f)
	// bit flips: every bit for short flag strings, a few random ones otherwise
	nb := 8 * len(flags)
	flips := []int{}
	if nb <= 24 {
		for i := 0; i < nb; i++ {
			flips = append(flips, i)
		}
	} else {
		for i := 0; i < 6; i++ {
			flips = append(flips, r.Intn(nb))
		}
		flips = append(flips, 0, nb-1)
	}
	for _, i := range flips {
		h, f = cp()
		f[i/8] ^= 1 << uint(i%8)
		add("bitflip", count, h, f)
	}
	if len(hashes) > 0 {
		i := r.Intn(len(hashes))
		h, f = cp()
		add("drop_hash", count, append(h[:i], h[i+1:]...), f)
		h, f = cp()
		add("drop_last_hash", count, h[:len(h)-1], f)
		h, f = cp()
		h = append(h[:i+1], h[i:]...)
		add("dup_hash", count, h, f)
		h, f = cp()
		add("append_hash", count, append(h, randHash(r)), f)
		h, f = cp()
		add("append_dup_last", count, append(h, h[len(h)-1]), f)
		if len(hashes) > 1 {
			j := r.Intn(len(hashes))
			h, f = cp()
			h[i], h[j] = h[j], h[i]
			add("swap_hashes", count, h, f)
			h, f = cp()
			h[i] = h[(i+1)%len(h)]
			add("equal_neighbours", count, h, f)
		}
		h, f = cp()
		h[i][r.Intn(32)] ^= 1 << uint(r.Intn(8))
		add("corrupt_hash", count, h, f)
	}
	counts := []uint32{0, count - 1, count + 1, count * 2, count*2 + 1, refLimit, refLimit + 1, 0xffffffff}
	if maxTxn != refLimit {
		counts = append(counts, maxTxn, maxTxn+1)
	}
	for _, c := range counts {
		if c != count {
			h, f = cp()
			add("alter_count", c, h, f)
		}
	}
	if len(flags) > 0 {
		h, f = cp()
		add("truncate_flags", count, h, f[:len(f)-1])
	}
	h, f = cp()
	add("extend_flags_zero", count, h, append(f, 0))
	h, f = cp()
	add("extend_flags_ones", count, h, append(f, 0xff))
	h, f = cp()
	add("empty_flags", count, h, nil)
	h, f = cp()
	add("no_hashes", count, nil, f)
	return out
}

func mutationStream(r *vh.RNG, rounds int, maxN int, coqEvery int, coqMaxN int, tableMaxN int) {
	t0 := time.Now()
	defer func() { rep.Extra["mutation_seconds"] = time.Since(t0).Seconds() }()
	s := newSink()
	k := 0
	var prev *rawMsg
	for i := 0; i < rounds; i++ {
		var n int
		switch {
		case i < 70:
			n = i%35 + 1
		case r.Chance(1, 10):
			n = 1 + r.Intn(maxN)
		default:
			n = 1 + r.Intn(70)
		}
		leaves, sel := honest(r, n, r.Intn(7))
		t := pmtref.Build(leaves, sel)
		hashes := t.Hashes(nil)
		flags := pmtref.Pack(t.Flags(nil))
		for _, m := range mutate(r, uint32(n), hashes, flags) {
			o, res := monitor(s, m.count, m.hashes, m.flags)
			cur := rawMsg{m.count, m.hashes, m.flags, o}
			if prev != nil && len(m.flags) <= 4096 {
				interleave(s, *prev, cur)
			}
			if len(m.flags) <= 4096 && (m.name == "honest" || k%5 == 0) {
				c := cur
				prev = &c
			}
			if m.name == "honest" {
				// the honest proof must verify to the textbook root and the chosen leaves
				want := pmtref.MerkleRoot(leaves)
				okm := o.OK && o.Root == want
				idx := 0
				for p, b := range sel {
					if b {
						okm = okm && idx < len(o.Items) && int(o.Items[idx]) == p && o.Matches[idx] == leaves[p]
						idx++
					}
				}
				if !okm || idx != len(o.Items) {
					s.violate("C12:complete:honest_proof", "an honest proof (reference builder) does not extract to the merkle root and the chosen leaves",
						replayOf(m.count, m.hashes, m.flags, o, res))
				}
			}
			s.hist["mut:"+m.name]++
			k++
			small := n <= coqMaxN && m.count <= uint32(4*coqMaxN)
			if (small || n <= tableMaxN) && (m.name == "honest" && i%3 == 0 || k%coqEvery == 0) {
				addCase(m.count, m.hashes, m.flags, o, !small, "mutation:"+m.name)
			}
		}
	}
	mergeSink(s, "mutation")
	rep.Write(cfg)
}

// ---------- every tree shape (skeleton) for small transaction counts ----------
// skeletons enumerates every partial-tree shape at node (h, pos) of a block with n transactions
// (hash contents left empty).
func skeletons(n uint64, h uint, pos uint64) []*pmtref.Tree {
	if h == 0 {
		return []*pmtref.Tree{{Kind: 0, Matched: false}, {Kind: 0, Matched: true}}
	}
	out := []*pmtref.Tree{{Kind: 1}}
	ls := skeletons(n, h-1, 2*pos)
	if 2*pos+1 < pmtref.Width(n, h-1) {
		rs := skeletons(n, h-1, 2*pos+1)
		for _, l := range ls {
			for _, r := range rs {
				out = append(out, &pmtref.Tree{Kind: 3, L: l, R: r})
			}
		}
	} else {
		for _, l := range ls {
			out = append(out, &pmtref.Tree{Kind: 2, L: l})
		}
	}
	return out
}

// fill copies a skeleton giving every hash-bearing node a fresh hash.
func fill(t *pmtref.Tree, r *vh.RNG) *pmtref.Tree {
	c := *t
	switch t.Kind {
	case 0, 1:
		c.H = randHash(r)
	case 2:
		c.L = fill(t.L, r)
	default:
		c.L, c.R = fill(t.L, r), fill(t.R, r)
	}
	return &c
}

// twoChildNodes lists the two-child nodes of t (pointers into t) with their heights.
func twoChildNodes(t *pmtref.Tree, h uint, out *[]*pmtref.Tree, hs *[]uint) {
	switch t.Kind {
	case 2:
		twoChildNodes(t.L, h-1, out, hs)
	case 3:
		*out = append(*out, t)
		*hs = append(*hs, h)
		twoChildNodes(t.L, h-1, out, hs)
		twoChildNodes(t.R, h-1, out, hs)
	}
}

// skeletonFamily: for every n <= maxN and every tree shape: (a) the honest serialisation must be
// accepted with the tree's root and matches, also with the padding bits set; (b) 1 and 2 extra flag
// bytes (0x00 / 0xff) must be rejected, whatever the number of bits the traversal consumes (in
// particular exactly 8 and 16); (c) for every two-child node at every height whose one child carries
// a hash, making that hash equal to the other child's hash must be rejected (CVE-2012-2459 at every
// height, pruned-vs-recomputed included); (d) one hash fewer / one hash more must be rejected.
func skeletonFamily(r *vh.RNG, maxN int, coqPerN int) {
	t0 := time.Now()
	defer func() { rep.Extra["skeleton_seconds"] = time.Since(t0).Seconds() }()
	s := newSink()
	for n := 1; n <= maxN; n++ {
		H := pmtref.Height(uint64(n))
		sk := skeletons(uint64(n), H, 0)
		added := 0
		for si, sk0 := range sk {
			t := fill(sk0, r)
			bits := t.Flags(nil)
			hashes := t.Hashes(nil)
			flags := pmtref.Pack(bits)
			coq := added < coqPerN && (si%97 == 0 || r.Chance(1, len(sk)/coqPerN+1))
			check := func(name string, hs []pmtref.Hash, fl []byte, wantOK bool, wantReason string) {
				o, res := monitor(s, uint32(n), hs, fl)
				s.hist["skel:"+name]++
				if res.OK != wantOK || (!wantOK && wantReason != "" && res.Reason != wantReason) {
					// the family's expectation and the reference disagree: a harness defect, not a finding
					s.violate("C12:harness:skeleton_expectation", fmt.Sprintf("skeleton family expected ok=%v/%s, reference says ok=%v/%s", wantOK, wantReason, res.OK, res.Reason),
						replayOf(uint32(n), hs, fl, o, res))
				}
				if coq && n <= 8 {
					addCase(uint32(n), hs, fl, o, n > 4, "skeleton:"+name)
				}
			}
			check("honest", hashes, flags, true, "")
			if len(bits)%8 != 0 {
				fl := append([]byte(nil), flags...)
				fl[len(fl)-1] |= byte(0xff) << uint(len(bits)%8)
				check("padding_ones", hashes, fl, true, "")
			}
			for extra := 1; extra <= 2; extra++ {
				for _, fillb := range []byte{0x00, 0xff} {
					fl := append([]byte(nil), flags...)
					for k := 0; k < extra; k++ {
						fl = append(fl, fillb)
					}
					check(fmt.Sprintf("extra_flag_bytes_%d", extra), hashes, fl, false, "unused_flag_byte")
				}
			}
			if len(flags) > 1 || len(bits) > 0 && len(flags) == 1 {
				// drop the last flag byte: the bits run out (or, if it held no bits of the tree, cannot happen)
				check("drop_last_flag_byte", hashes, flags[:len(flags)-1], false, "")
			}
			check("drop_last_hash", hashes[:len(hashes)-1], flags, false, "")
			if len(hashes) < n {
				check("append_hash", append(append([]pmtref.Hash(nil), hashes...), randHash(r)), flags, false, "unused_hash")
			}
			// equal children at every two-child node
			var nodes []*pmtref.Tree
			var hs []uint
			twoChildNodes(t, H, &nodes, &hs)
			for k, nd := range nodes {
				for side := 0; side < 2; side++ {
					a, b := nd.L, nd.R
					if side == 1 {
						a, b = nd.R, nd.L
					}
					if a.Kind > 1 {
						continue // not hash-bearing
					}
					saved := a.H
					a.H = b.Root()
					check(fmt.Sprintf("equal_children_h%d", hs[k]), t.Hashes(nil), flags, false, "equal_children")
					a.H = saved
				}
			}
			if coq {
				added++
			}
		}
		s.hist[fmt.Sprintf("skel:shapes_n%d", n)] = len(sk)
	}
	mergeSink(s, "skeleton")
	rep.Write(cfg)
}

// ---------- deep trees: proofs for a few positions of very large declared counts ----------
// sparseTree is the canonical partial tree of a block of n transactions in which the (sorted)
// positions are matched, with fresh random hashes for everything that is pruned: it exists for every
// n without the n leaves having to exist.
func sparseTree(r *vh.RNG, n uint64, h uint, pos uint64, want []uint64) *pmtref.Tree {
	lo, hi := pos<<h, (pos+1)<<h
	var below []uint64
	for _, p := range want {
		if p >= lo && p < hi {
			below = append(below, p)
		}
	}
	if h == 0 {
		return &pmtref.Tree{Kind: 0, Matched: len(below) > 0, H: randHash(r)}
	}
	if len(below) == 0 {
		return &pmtref.Tree{Kind: 1, H: randHash(r)}
	}
	l := sparseTree(r, n, h-1, 2*pos, below)
	if 2*pos+1 < pmtref.Width(n, h-1) {
		return &pmtref.Tree{Kind: 3, L: l, R: sparseTree(r, n, h-1, 2*pos+1, below)}
	}
	return &pmtref.Tree{Kind: 2, L: l}
}

// deepFamily: counts around 2^16, 2^17, 2^20, 2^21 and MaxTxnCount (heights 16..22), matched positions
// at the far left, the far right (where single-child nodes pile up for counts of the form 2^k+1),
// around 65535/65536 and at random; per tree: honest (must be accepted with exactly those positions),
// equal children forced at every two-child node on the way down (must be rejected at every height),
// the generic mutations (bit flips, dropped/extra hashes, altered counts, truncated/extended flags).
func deepFamily(r *vh.RNG, perCount int, coqEvery int) {
	t0 := time.Now()
	defer func() { rep.Extra["deep_seconds"] = time.Since(t0).Seconds() }()
	s := newSink()
	counts := []uint64{65535, 65536, 65537, 1<<17 - 1, 1<<17 + 1, 1 << 20, 1<<20 + 1, 1<<21 - 1, 1 << 21, 1<<21 + 1, uint64(maxTxn) - 1, uint64(maxTxn)}
	k := 0
	for _, n := range counts {
		if n == 0 || n > uint64(maxTxn) {
			continue
		}
		H := pmtref.Height(n)
		var sets [][]uint64
		for _, p := range []uint64{0, 1, n - 1, n - 2, 65535, 65536, 65537, n / 2} {
			if p < n {
				sets = append(sets, []uint64{p})
			}
		}
		sets = append(sets, []uint64{0, n - 1}, []uint64{n - 2, n - 1}, []uint64{65535, 65536})
		for i := 0; i < perCount; i++ {
			a, b, c := uint64(r.Intn(int(n))), uint64(r.Intn(int(n))), uint64(r.Intn(int(n)))
			sets = append(sets, []uint64{a}, []uint64{a, b, c})
		}
		for _, want := range sets {
			ok := true
			for _, p := range want {
				ok = ok && p < n
			}
			if !ok {
				continue
			}
			sort.Slice(want, func(i, j int) bool { return want[i] < want[j] })
			var uniq []uint64
			for i, p := range want {
				if i == 0 || p != want[i-1] {
					uniq = append(uniq, p)
				}
			}
			t := sparseTree(r, n, H, 0, uniq)
			hashes, flags := t.Hashes(nil), pmtref.Pack(t.Flags(nil))
			o, res := monitor(s, uint32(n), hashes, flags)
			s.hist["deep:honest"]++
			s.hist[fmt.Sprintf("deep:height_%d", H)]++
			okm := res.OK && o.OK && len(o.Items) == len(uniq)
			for i := 0; okm && i < len(uniq); i++ {
				okm = uint64(o.Items[i]) == uniq[i]
			}
			if !okm {
				if !res.OK {
					s.violate("C12:harness:deep_expectation", "deep family: the reference rejects a tree built by construction", replayOf(uint32(n), hashes, flags, o, res))
				} else {
					s.violate("C12:complete:honest_proof", "a well-formed proof for a few positions of a very large block is not accepted with exactly those positions", replayOf(uint32(n), hashes, flags, o, res))
				}
			}
			k++
			if coqEvery > 0 && k%coqEvery == 0 {
				addCase(uint32(n), hashes, flags, o, true, "deep:honest")
			}
			// equal children at every two-child node, each side that carries a hash
			var nodes []*pmtref.Tree
			var hs []uint
			twoChildNodes(t, H, &nodes, &hs)
			for j, nd := range nodes {
				for side := 0; side < 2; side++ {
					a, b := nd.L, nd.R
					if side == 1 {
						a, b = nd.R, nd.L
					}
					if a.Kind > 1 {
						continue
					}
					saved := a.H
					a.H = b.Root()
					hh := t.Hashes(nil)
					o2, res2 := monitor(s, uint32(n), hh, flags)
					s.hist["deep:equal_children"]++
					if res2.OK || res2.Reason != "equal_children" {
						s.violate("C12:harness:deep_expectation", "deep family: the reference does not report equal children", replayOf(uint32(n), hh, flags, o2, res2))
					}
					if coqEvery > 0 && (k+j)%(4*coqEvery) == 0 {
						addCase(uint32(n), hh, flags, o2, true, fmt.Sprintf("deep:equal_children_h%d", hs[j]))
					}
					a.H = saved
				}
			}
			for _, m := range mutate(r, uint32(n), hashes, flags) {
				o3, _ := monitor(s, m.count, m.hashes, m.flags)
				s.hist["deep:"+m.name]++
				k++
				if coqEvery > 0 && k%(3*coqEvery) == 0 {
					addCase(m.count, m.hashes, m.flags, o3, true, "deep:"+m.name)
				}
			}
		}
	}
	mergeSink(s, "deep")
	rep.Write(cfg)
}

// ---------- messages whose traversal meets very many problems ----------
// Every inner node with equal children, every node visited after the hashes or the bits ran out is one
// more reason to reject; the number of such events in one traversal is made to cross 2^8, 2^15, 2^16
// and 2^17 (a latch is a latch however often it is set).  (a) k adjacent pairs of equal leaves, pairs
// pairwise distinct, everything descended and matched: exactly k inner nodes with equal children;
// (b) all flag bits set (every node descended) with only 0, 1 or 2 hashes, for every declared count
// in windows around those powers of two: the event count grows by about two per transaction.
func manyProblems(r *vh.RNG, coqEvery int) {
	t0 := time.Now()
	defer func() { rep.Extra["many_problems_seconds"] = time.Since(t0).Seconds() }()
	s := newSink()
	k := 0
	expect := func(name string, count uint32, hashes []pmtref.Hash, flags []byte, reasons ...string) {
		o, res := monitor(s, count, hashes, flags)
		s.hist["many:"+name]++
		ok := false
		for _, x := range reasons {
			ok = ok || (!res.OK && res.Reason == x)
		}
		if !ok {
			s.violate("C12:harness:many_expectation", "many-problems family: the reference does not reject for the expected reason", replayOf(count, hashes, flags, o, res))
		}
		k++
		if coqEvery > 0 && k%coqEvery == 0 && count <= 600 {
			addCase(count, hashes, flags, o, true, "many:"+name)
		}
	}
	pairs := []int{1, 2, 3, 127, 128, 129, 255, 256, 257, 32767, 32768, 32769, 65535, 65536, 65537}
	if cfg.Thorough() || cfg.Search {
		pairs = append(pairs, 131071, 131072, 131073)
	}
	for _, np := range pairs {
		n := 2 * np
		leaves := make([]pmtref.Hash, n)
		for i := 0; i < np; i++ {
			h := randHash(r)
			h[0], h[1], h[2], h[3] = byte(i), byte(i>>8), byte(i>>16), 0xee
			leaves[2*i], leaves[2*i+1] = h, h
		}
		sel := make([]bool, n)
		for i := range sel {
			sel[i] = true
		}
		t := pmtref.Build(leaves, sel)
		expect("equal_pairs", uint32(n), t.Hashes(nil), pmtref.Pack(t.Flags(nil)), "equal_children")
	}
	// all-ones flags, few hashes
	windows := [][2]int{{1, 600}, {32700, 32850}}
	if cfg.Thorough() || cfg.Search {
		windows = append(windows, [2]int{16350, 16450}, [2]int{65450, 65650}, [2]int{131000, 131200})
	}
	A, B := randHash(r), randHash(r)
	for _, w := range windows {
		for n := w[0]; n <= w[1]; n++ {
			// a fully descended tree has 2n-1+(single-child nodes) flag bits: 2n+64 ones are more than enough
			flags := make([]byte, (2*n+64+7)/8)
			for i := range flags {
				flags[i] = 0xff
			}
			for nh := 0; nh <= 2; nh++ {
				if nh > n {
					continue
				}
				if n > 700 && nh != 1 && n%8 != 0 {
					continue
				}
				hs := []pmtref.Hash{A, B}[:nh]
				expect(fmt.Sprintf("all_ones_%d_hashes", nh), uint32(n), hs, flags, "hashes_exhausted", "bits_exhausted", "unused_flag_byte")
			}
		}
	}
	mergeSink(s, "many")
	rep.Write(cfg)
}

// ---------- fixed edge cases ----------
func edgeCases(r *vh.RNG) {
	s := newSink()
	A, B := randHash(r), randHash(r)
	run := func(name string, count uint32, hs []pmtref.Hash, flags []byte, corr bool) {
		o, _ := monitor(s, count, hs, flags)
		s.hist["edge:"+name]++
		if corr {
			addCase(count, hs, flags, o, false, "edge:"+name)
		}
	}
	run("single_tx_unmatched", 1, []pmtref.Hash{A}, []byte{0}, true)
	run("single_tx_matched", 1, []pmtref.Hash{A}, []byte{1}, true)
	run("single_tx_padding_set", 1, []pmtref.Hash{A}, []byte{0xff}, true)
	run("two_tx_equal", 2, []pmtref.Hash{A, A}, []byte{7}, true)
	run("two_tx", 2, []pmtref.Hash{A, B}, []byte{7}, true)
	run("cve_2012_2459", 3, []pmtref.Hash{A, B, B}, []byte{0x1f}, true) // 3 leaves presented as A,B | B,B would need 4
	run("cve_2012_2459_4", 4, []pmtref.Hash{A, B, A, B}, []byte{0x7f}, true)
	run("zero_tx", 0, nil, nil, true)
	run("zero_tx_with_data", 0, []pmtref.Hash{A}, []byte{1}, true)
	run("max_count", maxTxn, []pmtref.Hash{A}, []byte{0}, true)
	run("max_count_plus_1", maxTxn+1, []pmtref.Hash{A}, []byte{0}, true)
	run("count_2^32-1", 0xffffffff, []pmtref.Hash{A}, []byte{0}, true)
	run("count_2^31", 1<<31, []pmtref.Hash{A}, []byte{0}, true)
	// deep left spine at the maximal count: all ones
	run("max_count_all_ones", maxTxn, []pmtref.Hash{A, B}, []byte{0xff, 0xff, 0xff}, true)
	// acceptance right at the limit the property states (the formula, whatever the variable says), and far above
	for _, c := range []uint32{refLimit - 1, refLimit, refLimit + 1, refLimit + 2, 2 * refLimit, 3000000, 61 * refLimit, wire.MaxBlockPayload() - 1, wire.MaxBlockPayload(), wire.MaxBlockPayload() + 1, 100000000, assumedLimit, assumedLimit + 1} {
		run("limit_probe", c, []pmtref.Hash{A}, []byte{0}, false)
		run("limit_probe", c, []pmtref.Hash{A}, []byte{1}, false)
		run("limit_probe", c, []pmtref.Hash{A, B}, []byte{0xff, 0xff, 0xff}, false)
	}
	nilVariants(s, A, B)
	// big flag strings: bounded time
	for _, n := range []int{1 << 10, 1 << 16, 1 << 20} {
		fl := r.Bytes(n)
		run("big_random_flags", maxTxn, []pmtref.Hash{A, B, A}, fl, false)
		for i := range fl {
			fl[i] = 0xff
		}
		run("big_ones_flags", maxTxn, []pmtref.Hash{A, B, A}, fl, false)
	}
	mergeSink(s, "edge")
}

// nilVariants: a message field that is a nil slice must be treated like the empty slice (the model
// cannot tell them apart, so the implementation must not): Hashes nil / empty, Flags nil / empty.
func nilVariants(s *sink, A, B pmtref.Hash) {
	type res struct {
		Panic   string
		OK, Bad bool
		N       int
	}
	run := func(m wire.MsgMerkleBlock) (o res) {
		defer func() {
			if e := recover(); e != nil {
				o.Panic = fmt.Sprint(e)
			}
		}()
		pb := merkleblock.NewMerkleBlockFromMsg(m)
		o.OK = pb.ExtractMatches() != nil
		o.Bad, o.N = pb.BadTree(), len(pb.GetItems())+len(pb.GetMatches())
		return
	}
	ha, hb := chainhash.Hash(A), chainhash.Hash(B)
	for _, count := range []uint32{0, 1, 2, 3, refLimit, refLimit + 1} {
		for _, hs := range [][]*chainhash.Hash{nil, {&ha}, {&ha, &hb}} {
			for _, fl := range [][]byte{nil, {0}, {1}, {7}} {
				var variants []wire.MsgMerkleBlock
				hv := [][]*chainhash.Hash{hs}
				if len(hs) == 0 {
					hv = [][]*chainhash.Hash{nil, {}, make([]*chainhash.Hash, 0, 4)}
				}
				fv := [][]byte{fl}
				if len(fl) == 0 {
					fv = [][]byte{nil, {}, make([]byte, 0, 4)}
				}
				for _, h := range hv {
					for _, f := range fv {
						variants = append(variants, wire.MsgMerkleBlock{Transactions: count, Hashes: h, Flags: f})
					}
				}
				if len(variants) < 2 {
					continue
				}
				first := run(variants[0])
				s.evals++
				for vi, v := range variants[1:] {
					s.evals++
					s.hist["edge:nil_vs_empty"]++
					if o := run(v); o != first {
						hx := []pmtref.Hash{}
						for _, h := range hs {
							hx = append(hx, pmtref.Hash(*h))
						}
						s.violate("C12:nil_vs_empty", "a message with a nil Hashes / Flags slice is treated differently from the same message with an empty slice",
							map[string]interface{}{"count": count, "hashes": hexHashes(hx), "flags": hex.EncodeToString(fl), "variant": vi + 1,
								"first_variant": fmt.Sprintf("%+v", first), "this_variant": fmt.Sprintf("%+v", o),
								"note": "variants of an absent list, in order: nil, empty literal, make(.., 0, 4) (Hashes outer, Flags inner)"})
					}
				}
			}
		}
	}
}

// ---------- the limit ----------
// checkLimit compares the package variable with the formula of the property and with the value the
// theorems' side conditions were checked for; called at the start and at the end of the run.
func checkLimit(when string) {
	now := merkleblock.MaxTxnCount
	formula := wire.MaxBlockPayload() / 61
	if now != formula || now != maxTxn || formula != refLimit {
		A := pmtref.Hash{1, 2, 3}
		rp := map[string]interface{}{"when": when, "MaxTxnCount_now": now, "MaxTxnCount_at_start": maxTxn, "MaxBlockPayload": wire.MaxBlockPayload(), "want": formula, "formula_at_start": refLimit}
		for _, c := range []uint32{formula + 1, 3000000, 100000000} {
			if o := runImpl(c, []pmtref.Hash{A}, []byte{0}); o.OK {
				rp["count"], rp["hashes"], rp["flags"], rp["impl_accepted"] = c, hexHashes([]pmtref.Hash{A}), "00", true
				break
			}
		}
		if o := runImpl(formula, []pmtref.Hash{A}, []byte{0}); !o.OK {
			rp["count"], rp["hashes"], rp["flags"], rp["impl_accepted"] = formula, hexHashes([]pmtref.Hash{A}), "00", false
		}
		rep.Violate("C12:limit:maxtxncount", "merkleblock.MaxTxnCount is not wire.MaxBlockPayload()/61 ("+when+")", rp)
	}
	if formula != assumedLimit {
		rep.Violate("C12:limit:maxblockpayload", "wire.MaxBlockPayload()/61 is not the 2098360 the theorems' side conditions (MaxTxnCount < 2^31, checks.d) were checked for ("+when+")",
			map[string]interface{}{"MaxBlockPayload": wire.MaxBlockPayload(), "formula": formula, "assumed": assumedLimit})
	}
}

// ---------- the build that ships ----------
// runPlain builds harness/cmd/c12/plain without -tags verif under a neutral module path and merges what it found.
func runPlain(scale int) {
	o, err := plainrun.Run(cfg.Out, "C12", cfg.Seed, scale)
	if err != nil {
		rep.Extra["plain_build"] = "NOT RUN: " + err.Error()
		rep.Histogram["plain/not_run"]++
		return
	}
	rep.Extra["plain_build"] = map[string]interface{}{"main_module": o.MainPath, "build_tags": o.Tags, "MaxTxnCount": o.MaxTxnStart, "executions": o.Executions,
		"build_seconds": o.BuildSecs, "run_seconds": o.RunSecs}
	rep.Evaluations += o.Executions
	for k, v := range o.Histogram {
		rep.Histogram["plain/"+k] += v
	}
	for _, v := range o.Violations {
		rep.Violate(v.Key, v.What+" [build without -tags verif]", v.Replay)
	}
}

// ---------- node hash validation ----------
func nodeHashCases(r *vh.RNG, n int) {
	for i := 0; i < n; i++ {
		l, rr := randHash(r), randHash(r)
		if i == 0 {
			l, rr = pmtref.Hash{}, pmtref.Hash{}
		}
		if i == 1 {
			rr = l
		}
		cl, cr := chainhash.Hash(l), chainhash.Hash(rr)
		impl := blockchain.HashMerkleBranches(&cl, &cr)
		if pmtref.Hash(*impl) != pmtref.NodeHash(l, rr) {
			rep.Violate("C12:dep:node_hash", "blockchain.HashMerkleBranches differs from double SHA-256 of the concatenation",
				map[string]interface{}{"left": hex.EncodeToString(l[:]), "right": hex.EncodeToString(rr[:])})
		}
		rep.Count("nodehash", string(l[:])+string(rr[:]), true)
		cases.Add(fmt.Sprintf("NodeHash %s %s %s", vh.CoqBytes(l[:]), vh.CoqBytes(rr[:]), vh.CoqBytes(impl[:])),
			map[string]interface{}{"op": "HashMerkleBranches", "left": hex.EncodeToString(l[:]), "right": hex.EncodeToString(rr[:])})
	}
}

func replay(path string) {
	var rp struct {
		Input struct {
			Count       uint32   `json:"count"`
			Hashes      []string `json:"hashes"`
			Flags       string   `json:"flags"`
			OtherCount  *uint32  `json:"other_count"`
			OtherHashes []string `json:"other_hashes"`
			OtherFlags  string   `json:"other_flags"`
			Plain       bool     `json:"plain_build"`
			When        string   `json:"when"`
		} `json:"input"`
	}
	b, err := os.ReadFile(path)
	vh.Must(err)
	vh.Must(json.Unmarshal(b, &rp))
	dec := func(xs []string) []pmtref.Hash {
		var hs []pmtref.Hash
		for _, x := range xs {
			var h pmtref.Hash
			d, _ := hex.DecodeString(x)
			copy(h[:], d)
			hs = append(hs, h)
		}
		return hs
	}
	if rp.Input.Plain {
		runPlain(1)
		return
	}
	hs := dec(rp.Input.Hashes)
	fl, _ := hex.DecodeString(rp.Input.Flags)
	s := newSink()
	if rp.Input.OtherCount == nil {
		nilVariants(s, pmtref.Hash{1}, pmtref.Hash{2})
	}
	o, _ := monitor(s, rp.Input.Count, hs, fl)
	if rp.Input.OtherCount != nil {
		ohs := dec(rp.Input.OtherHashes)
		ofl, _ := hex.DecodeString(rp.Input.OtherFlags)
		oo, _ := monitor(s, *rp.Input.OtherCount, ohs, ofl)
		a, b := rawMsg{rp.Input.Count, hs, fl, o}, rawMsg{*rp.Input.OtherCount, ohs, ofl, oo}
		interleave(s, a, b)
		interleave(s, b, a)
		goroutineFamily(vh.NewRNG(cfg.Seed).Fork("goroutines"), 8, 2)
	}
	mergeSink(s, "replay")
}

func main() {
	cfg = vh.ParseFlags("C12")
	rep = vh.NewReport(cfg)
	rep.Rule = "a message is non-trivial when it passes the four pre-traversal checks (count in 1..MaxTxnCount, hashes <= count, bits >= hashes) so that the tree traversal runs; exhaustive small scopes are counted per message"
	cases = vh.NewCases(cfg, "Run.Run_C12", 60)
	maxTxn = merkleblock.MaxTxnCount
	refLimit = wire.MaxBlockPayload() / 61
	rng := vh.NewRNG(cfg.Seed)
	rep.Extra["MaxTxnCount"] = maxTxn
	checkLimit("at the start of the run")

	if cfg.Replay != "" {
		replay(cfg.Replay)
		checkLimit("at the end of the run")
		vh.Must(rep.Write(cfg))
		return
	}

	// alphabets for the exhaustive scopes
	ra := rng.Fork("alphabet")
	A, B := randHash(ra), randHash(ra)
	AA := pmtref.NodeHash(A, A)
	AB := pmtref.NodeHash(A, B)
	Z := pmtref.Hash{}
	defName("hA", A)
	defName("hB", B)
	defName("hAA", AA)
	defName("hAB", AB)
	defName("hZ", Z)
	cases.SetPreamble(preamble)

	nodeHashCases(rng.Fork("nodehash"), 6)
	edgeCases(rng.Fork("edge"))
	// the cheap round-3 families run first and the report is written after every family: a change that makes
	// extraction slow enough for the big sweeps to hit the driver's time limit is still reported
	// (bin/check reads report.json whatever the exit code)
	switch {
	case cfg.Search:
		goroutineFamily(rng.Fork("goroutines"), 400, 16)
		runPlain(8)
	case cfg.Thorough():
		goroutineFamily(rng.Fork("goroutines"), 200, 16)
		runPlain(4)
	default:
		goroutineFamily(rng.Fork("goroutines"), 60, 8)
		runPlain(1)
	}
	checkLimit("after the first families")
	vh.Must(rep.Write(cfg))

	allBytes := make([]int, 256)
	for i := range allBytes {
		allBytes[i] = i
	}
	// hash lists of every length <= count+1 (one more than can be valid) with flag strings of <= 1 byte,
	// of every length <= count with 2-byte flag strings (the "more hashes than transactions" rule is
	// checked before the flags are looked at)
	upTo := func(c uint32, flagsLen int) int {
		if flagsLen <= 1 {
			return int(c) + 1
		}
		return int(c)
	}
	t0 := time.Now()
	switch {
	case cfg.Search:
		// wider monitor-only exploration (run after the thorough tier when something broke)
		second := []int{0, 1, 3, 0x15, 0x2a, 0x7f, 0x80, 0xff}
		exhaustive("scope{0,A,H(A,B)}", []pmtref.Hash{Z, A, AB}, 7, upTo, second, 0, rng.Fork("ex2"))
		skeletonFamily(rng.Fork("skel"), 12, 0)
		mutationStream(rng.Fork("mut"), 4000, 5000, 1<<30, 0, 0)
		deepFamily(rng.Fork("deep"), 40, 0)
		manyProblems(rng.Fork("many"), 0)
	case cfg.Thorough():
		// count <= 7, all hash lists over three letters, all flag strings of <= 2 bytes
		exhaustive("scope{A,B,H(A,A)}", []pmtref.Hash{A, B, AA}, 7, upTo, allBytes, 3, rng.Fork("ex1"))
		exhaustive("scope{0,A,H(A,B)}", []pmtref.Hash{Z, A, AB}, 4, upTo, allBytes, 1, rng.Fork("ex2"))
		skeletonFamily(rng.Fork("skel"), 10, 6)
		mutationStream(rng.Fork("mut"), 3000, 5000, 151, 4, 120)
		deepFamily(rng.Fork("deep"), 20, 97)
		manyProblems(rng.Fork("many"), 131)
	default:
		// quick: the same scope with the second flag byte restricted to 8 values (all 2-byte strings in the thorough tier)
		second := []int{0, 1, 3, 0x15, 0x2a, 0x7f, 0x80, 0xff}
		exhaustive("scope{A,B,H(A,A)}", []pmtref.Hash{A, B, AA}, 7, upTo, second, 1, rng.Fork("ex1"))
		skeletonFamily(rng.Fork("skel"), 9, 3)
		mutationStream(rng.Fork("mut"), 600, 3000, 67, 4, 100)
		deepFamily(rng.Fork("deep"), 4, 61)
		manyProblems(rng.Fork("many"), 211)
	}
	checkLimit("at the end of the run")
	rep.Extra["exhaustive_and_mutation_seconds"] = time.Since(t0).Seconds()
	rep.Sample(map[string]interface{}{"family": "edge", "what": "CVE-2012-2459 shapes, count 0 / MaxTxnCount / MaxTxnCount+1 / 2^32-1, megabyte flag strings"}, 4)
	rep.Sample(map[string]interface{}{"family": "exhaustive", "what": "count <= 7 x hash lists (<= count+1) over {A,B,H(A,A)} x flag strings <= 2 bytes"}, 4)
	rep.Sample(map[string]interface{}{"family": "skeleton", "what": "every partial-tree shape for n <= 9 (12 in search): honest, padding bits set, 1-2 extra flag bytes, dropped byte/hash, extra hash, equal children forced at every two-child node of every height"}, 4)
	rep.Sample(map[string]interface{}{"family": "deep", "what": "proofs for 1-3 positions (far left, far right, around 65535/65536, random) of blocks of 65535..MaxTxnCount transactions (heights 16..22): honest, equal children forced at every height on the way down, generic mutations; interleaved: two PartialBlocks created before either is extracted"}, 4)
	rep.Sample(map[string]interface{}{"family": "many", "what": "k = 1..65537 (131073) adjacent pairs of equal leaves, all descended; all-ones flags with 0/1/2 hashes for every declared count in 1..600 and 32700..32850 (thorough: also around 2^14, 2^16, 2^17): the number of problem events of one traversal crosses 2^8, 2^15, 2^16, 2^17"}, 4)
	rep.Sample(map[string]interface{}{"family": "kept / goroutines / plain", "what": "accepted PartialBlocks kept alive and read again after every later extraction of the same goroutine and by the merging goroutine; PartialBlocks created, extracted and read by three different goroutines, and extracted by 8-16 goroutines at once; MaxTxnCount against MaxBlockPayload()/61 at start and end, acceptance at the formula limit and limit+1; nil vs empty Hashes/Flags; a second program built without -tags verif in a neutral module (limit, small exhaustive scope, honest proofs + mutations)"}, 8)
	rep.Sample(map[string]interface{}{"family": "mutation", "what": "honest proofs (reference builder) with bit flips, dropped/duplicated/reordered/corrupted hashes, altered count, truncated/extended flags"}, 4)
	if !cfg.Search {
		_, err := cases.Flush()
		vh.Must(err)
		rep.Cases = cases.Len()
	}
	vh.Must(rep.Write(cfg))
}

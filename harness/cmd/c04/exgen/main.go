// Command exgen prints the oracle tables for BIP32 test vector 1 (m and m/0H) used by the Examples in Props/C04.v.
package main

import (
	"encoding/hex"
	"fmt"

	"verif/harness/cmd/c04/hdref"
)

func main() {
	seed, _ := hex.DecodeString("000102030405060708090a0b0c0d0e0f")
	o := hdref.NewOracle()
	m, _ := hdref.Master(o, seed)
	c, _, _ := hdref.CKDpriv(o, m, 1<<31)
	c2, _, _ := hdref.CKDpriv(o, c, 1)
	hdref.CKDpub(o, hdref.Neuter(c), 1)
	hdref.Identifier(o, c2)
	fmt.Println(o.Coq())
	fmt.Println(hdref.String(nil, c, []byte{4, 136, 173, 228}))
	fmt.Println(hdref.String(nil, c2, []byte{4, 136, 173, 228}))
	fmt.Println(hdref.String(nil, hdref.Neuter(c2), []byte{4, 136, 178, 30}))
	fmt.Printf("%x\n", hdref.Identifier(nil, c2))
}

// Command lzscan finds, with the reference arithmetic only (hdref: HMAC-SHA512 + one big-integer addition per index),
// children of the master key of fixed seeds whose private scalar has at least -zeros leading zero bytes: one hardened
// and one normal index per seed.  Its output is pasted into the table `lz3` of cmd/c04/main.go (the quick tier must not
// search: 2^-24 per index, about 1.7e7 HMACs per hit).
//
//	go run ./cmd/c04/lzscan -zeros 3 -workers 16
package main

import (
	"encoding/hex"
	"flag"
	"fmt"
	"sync"

	"verif/harness/cmd/c04/hdref"
)

func main() {
	zeros := flag.Int("zeros", 3, "leading zero bytes wanted")
	workers := flag.Int("workers", 8, "goroutines")
	flag.Parse()
	seeds := []string{"000102030405060708090a0b0c0d0e0f", hex.EncodeToString([]byte("C04 children with three leading zero bytes")),
		"fffcf9f6f3f0edeae7e4e1dedbd8d5d2cfccc9c6c3c0bdbab7b4b1aeaba8a5a29f9c999693908d8a8784817e7b7875726f6c696663605d5a5754514e4b484542"}
	for _, sh := range seeds {
		seed, _ := hex.DecodeString(sh)
		par, st := hdref.Master(nil, seed)
		if st != hdref.Valid {
			continue
		}
		for _, hard := range []bool{true, false} {
			const chunk = 1 << 18
			found := int64(-1)
			for off := int64(0); off < 1<<31 && found < 0; off += int64(chunk * *workers) {
				var mu sync.Mutex
				var wg sync.WaitGroup
				for w := 0; w < *workers; w++ {
					wg.Add(1)
					go func(w int) {
						defer wg.Done()
						for t := int64(0); t < chunk; t++ {
							q := off + int64(w)*chunk + t
							if q >= 1<<31 {
								return
							}
							i := uint32(q)
							if hard {
								i |= 1 << 31
							}
							if sc, st, _ := hdref.CKDprivNoPoint(par, i); st == hdref.Valid && sc.BitLen() <= 256-8**zeros {
								mu.Lock()
								if found < 0 || int64(i) < found {
									found = int64(i)
								}
								mu.Unlock()
								return
							}
						}
					}(w)
				}
				wg.Wait()
			}
			if found >= 0 {
				sc, _, _ := hdref.CKDprivNoPoint(par, uint32(found))
				z := 0
				for _, b := range hdref.Ser256(sc) {
					if b != 0 {
						break
					}
					z++
				}
				fmt.Printf("\t{%q, %d, %d}, // child scalar %x\n", sh, uint32(found), z, hdref.Ser256(sc))
			}
		}
	}
}

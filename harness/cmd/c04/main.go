// Command c04 drives hdkeychain (NewMaster, Child, Neuter, String, Address, ECPubKey, ECPrivKey, ...)
// of the repository under test.  Monitors evaluate the property's predicates (conformance of every
// derivation step, string and address with an independent BIP32 reference; Neuter/Child commutation;
// key length; the three guards) on the implementation; correspondence cases carry the inputs, the
// oracle tables for HMAC-SHA512 / EC / HASH160 and the implementation's projected observables for the
// Coq model HD/HD.v.
package main

import (
	"bytes"
	"encoding/binary"
	"encoding/hex"
	"encoding/json"
	"fmt"
	"math/big"
	"os"
	"strings"

	"github.com/gcash/bchd/bchec"
	"github.com/gcash/bchd/chaincfg"
	"github.com/gcash/bchutil"
	"github.com/gcash/bchutil/hdkeychain"

	"verif/harness/cmd/c04/hdref"
	"verif/harness/internal/vh"
)

var cfg vh.Config
var rep *vh.Report
var cases *vh.Cases

// same order as Gen/Nets.v all_nets
var nets = []*chaincfg.Params{&chaincfg.MainNetParams, &chaincfg.TestNet3Params, &chaincfg.TestNet4Params,
	&chaincfg.ChipNetParams, &chaincfg.RegressionNetParams, &chaincfg.SimNetParams}

const H = uint32(1) << 31

// ---------------------------------------------------------------- projections
func errClass(err error) int {
	switch err {
	case nil:
		return 0
	case hdkeychain.ErrDeriveBeyondMaxDepth:
		return 1
	case hdkeychain.ErrDeriveHardFromPublic:
		return 2
	case hdkeychain.ErrInvalidChild:
		return 3
	case hdkeychain.ErrInvalidSeedLen:
		return 5
	case hdkeychain.ErrUnusableSeed:
		return 6
	case hdkeychain.ErrInvalidKeyLen:
		return 7
	case hdkeychain.ErrBadChecksum:
		return 8
	case chaincfg.ErrUnknownHDKeyID:
		return 9
	case hdkeychain.ErrNotPrivExtKey:
		return 10
	}
	return 4 // every other error comes from bchec.ParsePubKey
}

func coqKey(f hdkeychain.VerifFields) string {
	return fmt.Sprintf("(mk_xkey %s %s %s %s %d %d %s)", vh.CoqBytes(f.Version), vh.CoqBytes(f.Key), vh.CoqBytes(f.ChainCode),
		vh.CoqBytes(f.ParentFP), f.Depth, f.ChildNum, vh.CoqBool(f.IsPrivate))
}

func coqRes(k *hdkeychain.ExtendedKey, err error) string {
	if err != nil {
		return fmt.Sprintf("(Err %d)", errClass(err))
	}
	return "(Ok " + coqKey(k.VerifFields()) + ")"
}

func descKey(f hdkeychain.VerifFields) map[string]interface{} {
	return map[string]interface{}{"version": vh.Hex(f.Version), "key": vh.Hex(f.Key), "chain": vh.Hex(f.ChainCode), "fp": vh.Hex(f.ParentFP),
		"depth": f.Depth, "childnum": f.ChildNum, "private": f.IsPrivate}
}

func netIndex(p *chaincfg.Params) int {
	for i, n := range nets {
		if n == p {
			return i
		}
	}
	return 0
}

func pathStr(p []uint32) string {
	var sb strings.Builder
	sb.WriteString("m")
	for _, i := range p {
		if i >= H {
			fmt.Fprintf(&sb, "/%dH", i-H)
		} else {
			fmt.Fprintf(&sb, "/%d", i)
		}
	}
	return sb.String()
}

func coqPath(p []uint32) string {
	it := make([]string, len(p))
	for i, x := range p {
		it[i] = fmt.Sprint(x)
	}
	return vh.CoqList(it)
}

// ---------------------------------------------------------------- oracle entries for one Child call on arbitrary fields
// (decides only WHICH arguments are tabulated; values come from the real primitives)
func childOracle(o *hdref.Oracle, f hdkeychain.VerifFields, i uint32) {
	pub := f.Key
	if f.IsPrivate {
		pub = hdref.SerP(o.Mul(new(big.Int).SetBytes(f.Key)))
	}
	data := make([]byte, 37)
	if i >= H {
		copy(data[1:], f.Key)
	} else {
		copy(data, pub)
	}
	binary.BigEndian.PutUint32(data[33:], i)
	I := o.HMAC(f.ChainCode, data)
	if !f.IsPrivate {
		pil := o.Mul(new(big.Int).SetBytes(I[:32]))
		if pk, ok := o.Parse(f.Key); ok {
			o.Add(pil, pk)
		}
	}
	o.H160(pub)
}

func pubOracle(o *hdref.Oracle, f hdkeychain.VerifFields) []byte {
	if f.IsPrivate {
		return hdref.SerP(o.Mul(new(big.Int).SetBytes(f.Key)))
	}
	return f.Key
}

// reference version bytes: the constants of bchd's chaincfg/params.go (hdref.KnownHDVersions), not the variables of the
// linked package, which code of the repository under test could rewrite (round 3)
func vprivOf(net int) []byte { return append([]byte{}, hdref.KnownHDVersions[net].Priv[:]...) }
func vpubOf(net int) []byte  { return append([]byte{}, hdref.KnownHDVersions[net].Pub[:]...) }

func checkLinkedNets() {
	for i, n := range nets {
		known := hdref.KnownHDVersions[i]
		pub, err := chaincfg.HDPrivateKeyToPublicKeyID(known.Priv[:])
		rep.Count("linked_net_ids", n.Name, true)
		if n.HDPrivateKeyID != known.Priv || n.HDPublicKeyID != known.Pub || err != nil || !bytes.Equal(pub, known.Pub[:]) {
			rep.Violate("C04:nets:version_ids", "with the repository's packages linked, a registered network's HD version identifiers are not the ones chaincfg declares (written by an init function / package-level initialiser of the repository)",
				map[string]interface{}{"net": n.Name, "net_index": i, "linked_private_id": vh.Hex(n.HDPrivateKeyID[:]), "linked_public_id": vh.Hex(n.HDPublicKeyID[:]),
					"declared_private_id": vh.Hex(known.Priv[:]), "declared_public_id": vh.Hex(known.Pub[:]), "HDPrivateKeyToPublicKeyID(declared_private_id)": fmt.Sprintf("%x %v", pub, err)})
		}
	}
}

// ---------------------------------------------------------------- monitors
type ctx struct {
	seed     []byte
	net      int
	path     []uint32
	explicit *explicitKey // the walk starts from an explicitly given extended private key instead of a seed (round 3)
}

func (c ctx) replay(extra map[string]interface{}) map[string]interface{} {
	m := map[string]interface{}{"seed": vh.Hex(c.seed), "net": nets[c.net].Name, "net_index": c.net, "path": pathStr(c.path), "path_indices": c.path}
	if c.explicit != nil {
		m["explicit_key"] = c.explicit
		m["seed"] = "(none: the walk starts from explicit_key = an extended private key (k, c) given by its fields)"
	}
	for k, v := range extra {
		m[k] = v
	}
	return m
}

// conforms compares every field of an implementation key with the reference node.
func conforms(k *hdkeychain.ExtendedKey, n *hdref.Node, version []byte) string {
	f := k.VerifFields()
	wantKey := hdref.SerP(n.P)
	if n.K != nil {
		wantKey = hdref.Ser256(n.K)
	}
	switch {
	case f.IsPrivate != (n.K != nil):
		return "private flag"
	case !bytes.Equal(f.Key, wantKey):
		return fmt.Sprintf("key material: have %x want %x", f.Key, wantKey)
	case !bytes.Equal(f.ChainCode, n.C):
		return "chain code"
	case int(f.Depth) != n.Depth || int(k.Depth()) != n.Depth:
		return "depth"
	case !bytes.Equal(f.ParentFP, n.FP) || k.ParentFingerprint() != binary.BigEndian.Uint32(n.FP):
		return "parent fingerprint"
	case f.ChildNum != n.Index:
		return "child number"
	case !bytes.Equal(f.Version, version):
		return "version"
	case k.IsPrivate() != (n.K != nil):
		return "IsPrivate()"
	}
	return ""
}

// observe checks string, address, EC accessors and the key-length invariant of one node.
func observe(c ctx, k *hdkeychain.ExtendedKey, n *hdref.Node, version []byte, what string) {
	f := k.VerifFields()
	rep.Count("observe", what+pathStr(c.path)+vh.Hex(c.seed)+fmt.Sprint(c.net), true)
	if (f.IsPrivate && len(f.Key) != 32) || (!f.IsPrivate && len(f.Key) != 33) {
		rep.Violate("C04:keylen", "a derived key is not 32 (private) / 33 (public) bytes long",
			c.replay(map[string]interface{}{"node": what, "key": vh.Hex(f.Key), "len": len(f.Key)}))
	}
	want := hdref.String(nil, n, version)
	if s := k.String(); s != want {
		rep.Violate("C04:string:conforms", "String() differs from the BIP32 serialisation of the reference node",
			c.replay(map[string]interface{}{"node": what, "impl": s, "bip32": want}))
	}
	id := hdref.Identifier(nil, n)
	addr, err := k.Address(nets[c.net])
	if err != nil || !bytes.Equal(addr.Hash160()[:], id) {
		rep.Violate("C04:address:conforms", "Address() is not the P2PKH address of HASH160(serP(K))",
			c.replay(map[string]interface{}{"node": what, "err": fmt.Sprint(err), "bip32_hash160": vh.Hex(id)}))
	} else if want, err2 := bchutil.NewAddressPubKeyHash(id, nets[c.net]); err2 != nil || want.EncodeAddress() != addr.EncodeAddress() {
		rep.Violate("C04:address:conforms", "Address() text differs from the P2PKH address of the reference identifier",
			c.replay(map[string]interface{}{"node": what, "impl": addr.EncodeAddress()}))
	}
	// the address is a function of the key and of the network PASSED to Address: ask the SAME object for its address on
	// every registered network, in an order that varies from node to node, and finally for the first one again --
	// nothing may be left over from earlier calls (several networks share HD version bytes but not the address
	// prefix: regtest / testnet3 / testnet4 / chipnet) (review round 2)
	perm := addrOrders[(int(f.ChildNum%6)+int(f.Depth)+c.net)%len(addrOrders)] // a function of the node, so that a replay asks in the same order
	for d := 0; d <= len(nets); d++ {
		on := nets[c.net]
		if d < len(nets) {
			on = nets[perm[d]]
		}
		a2, err2 := k.Address(on)
		want2, err3 := bchutil.NewAddressPubKeyHash(id, on)
		if err2 != nil || err3 != nil || a2.EncodeAddress() != want2.EncodeAddress() || !a2.IsForNet(on) || !bytes.Equal(a2.Hash160()[:], id) {
			rep.Violate("C04:address:conforms", "Address(net) called again on the same key object with another network is not the P2PKH address of HASH160(serP(K)) on THAT network",
				c.replay(map[string]interface{}{"node": what, "first_call_net": nets[c.net].Name, "this_call_net": on.Name, "call_number_on_this_object": d + 2, "err": fmt.Sprint(err2), "impl": fmt.Sprint(a2), "want": fmt.Sprint(want2)}))
			break
		}
	}
	// "forall registered networks": the SAME object is associated with every one of the six networks in turn (SetNet),
	// printed, neutered and the neutered key printed, chipnet included, and finally set back; each string must be the
	// BIP32 serialisation under the version bytes chaincfg DECLARES for that network (constants, hdref.KnownHDVersions)
	// (round 3: a rewritten version identifier of one network shows only on keys of that network)
	isKnown := bytes.Equal(version, vprivOf(c.net)) || bytes.Equal(version, vpubOf(c.net))
	if isKnown {
		perm := addrOrders[(int(f.ChildNum%5)+int(f.Depth)+c.net)%6]
		var visited []string
		for d := 0; d <= len(nets); d++ {
			b := c.net // last: back to the key's own network
			if d < len(nets) {
				b = perm[d]
			}
			k.SetNet(nets[b])
			visited = append(visited, nets[b].Name)
			ver := vpubOf(b)
			if n.K != nil {
				ver = vprivOf(b)
			}
			if s, want := k.String(), hdref.String(nil, n, ver); s != want {
				rep.Violate("C04:string:conforms", "after SetNet(net) String() is not the BIP32 serialisation of the node under the version bytes chaincfg declares for that network",
					c.replay(map[string]interface{}{"node": what, "setnet_sweep_on_this_object": visited, "this_net": nets[b].Name, "impl": s, "bip32": want}))
				break
			}
			if n.K == nil {
				continue
			}
			nk, nerr := k.Neuter()
			if nerr != nil {
				rep.Violate("C04:neuter:conforms", "Neuter failed on a key associated (SetNet) with a registered network",
					c.replay(map[string]interface{}{"node": what, "setnet_sweep_on_this_object": visited, "this_net": nets[b].Name, "err": fmt.Sprint(nerr)}))
				break
			}
			if s, want := nk.String(), hdref.String(nil, hdref.Neuter(n), vpubOf(b)); s != want {
				rep.Violate("C04:neuter:conforms", "after SetNet(net) the neutered key does not print as N((k,c)) under the public version bytes chaincfg declares for that network",
					c.replay(map[string]interface{}{"node": what, "setnet_sweep_on_this_object": visited, "this_net": nets[b].Name, "impl": s, "bip32": want}))
				break
			}
		}
		k.SetNet(nets[c.net])
	}
	pk, err := k.ECPubKey()
	if err != nil || pk.X.Cmp(n.P.X) != 0 || pk.Y.Cmp(n.P.Y) != 0 {
		rep.Violate("C04:ecpub", "ECPubKey() is not the reference public point", c.replay(map[string]interface{}{"node": what, "err": fmt.Sprint(err)}))
	}
	sk, err := k.ECPrivKey()
	if n.K != nil {
		if err != nil || sk.D.Cmp(n.K) != 0 {
			rep.Violate("C04:ecpriv", "ECPrivKey() is not the reference private scalar", c.replay(map[string]interface{}{"node": what, "err": fmt.Sprint(err)}))
		}
	} else if err != hdkeychain.ErrNotPrivExtKey {
		rep.Violate("C04:ecpriv", "ECPrivKey() on a public key did not return ErrNotPrivExtKey", c.replay(map[string]interface{}{"node": what, "err": fmt.Sprint(err)}))
	}
}

// orders in which one key object is asked for its address on all six networks (indices into nets)
var addrOrders = [][]int{{0, 1, 2, 3, 4, 5}, {4, 1, 0, 3, 5, 2}, {5, 4, 3, 2, 1, 0}, {1, 4, 2, 5, 3, 0}, {3, 0, 4, 1, 5, 2}, {2, 5, 1, 4, 0, 3}, {4, 2, 4, 3, 4, 1}}

type walkOpt struct {
	childEvery int  // emit a Child case for every n-th step (0: none)
	nodeEvery  int  // emit Str / Addr / Neuter / PubBytes cases for every n-th node (0: none)
	nodeAt     int  // >0: emit the node cases only for step nodeAt-1
	pathCase   bool // emit a Path case for the whole walk
	shaOracle  bool // pass double-SHA256 through the oracle instead of computing it in Coq
}

var gapsSeen int

// walk derives seed/path privately and (along the non-hardened suffix of every node) publicly, with all monitors.
func walk(seed []byte, net int, path []uint32, opt walkOpt) {
	c := ctx{seed: seed, net: net}
	po := hdref.NewOracle() // oracle of the Path case
	po.RecordDSha = opt.shaOracle
	vpriv, vpub := vprivOf(net), vpubOf(net)

	var k *hdkeychain.ExtendedKey
	var err error
	if p, msg := vh.Catch(func() { k, err = hdkeychain.NewMaster(seed, nets[net]) }); p {
		rep.Violate("C04:panic", "NewMaster panicked", c.replay(map[string]interface{}{"panic": msg}))
		return
	}
	legal := len(seed) >= 16 && len(seed) <= 64
	rep.Count("master", "m"+vh.Hex(seed)+fmt.Sprint(net), legal)
	rep.Histogram[fmt.Sprintf("seedlen_%s", lenBucket(len(seed)))]++
	if !legal {
		if err != hdkeychain.ErrInvalidSeedLen {
			rep.Violate("C04:guard:seedlen", "NewMaster did not refuse a seed outside 16..64 bytes with ErrInvalidSeedLen",
				c.replay(map[string]interface{}{"seed_len": len(seed), "err": fmt.Sprint(err)}))
		}
		cases.Add(fmt.Sprintf("Master no_oracle %s %d %s", vh.CoqBytes(seed), net, coqRes(k, err)),
			map[string]interface{}{"op": "NewMaster", "seed": vh.Hex(seed), "net": nets[net].Name, "impl_class": errClass(err)})
		return
	}
	mo := hdref.NewOracle()
	n, st := hdref.Master(mo, seed)
	hdref.Master(po, seed)
	if st != hdref.Valid {
		if err != hdkeychain.ErrUnusableSeed {
			rep.Violate("C04:master:conforms", "NewMaster accepted a seed the BIP marks invalid", c.replay(nil))
		}
		return
	}
	if err != nil {
		rep.Violate("C04:master:conforms", "NewMaster refused a valid seed", c.replay(map[string]interface{}{"err": fmt.Sprint(err)}))
		return
	}
	if d := conforms(k, n, vpriv); d != "" {
		rep.Violate("C04:master:conforms", "NewMaster differs from the BIP32 master key in: "+d, c.replay(nil))
	}
	cases.Add(fmt.Sprintf("Master %s %s %d %s", mo.Coq(), vh.CoqBytes(seed), net, coqRes(k, err)),
		map[string]interface{}{"op": "NewMaster", "seed": vh.Hex(seed), "net": nets[net].Name, "impl": descKey(k.VerifFields())})
	observe(c, k, n, vpriv, "master")
	rep.Sample(map[string]interface{}{"seed": vh.Hex(seed), "net": nets[net].Name, "path": pathStr(path), "master": k.String()}, 4)

	var ok bool
	if k, n, ok = descend(&c, k, n, path, opt, po, vpriv, vpub); !ok {
		return
	}
	if opt.pathCase {
		// the whole derivation inside the model: NewMaster; Child ...; String; Neuter; String; Address
		s := k.String()
		nk, _ := k.Neuter()
		ns := nk.String()
		hdref.String(po, n, vpriv)
		hdref.String(po, hdref.Neuter(n), vpub)
		id := hdref.Identifier(po, n)
		addr, aerr := k.Address(nets[net])
		var h []byte
		if aerr == nil {
			h = addr.Hash160()[:]
		}
		_ = id
		cases.Add(fmt.Sprintf("Path %s %s %d %s %s %s %s %s", po.Coq(), vh.CoqBytes(seed), net, coqPath(path), coqRes(k, nil), vh.CoqStr(s), vh.CoqStr(ns), vh.CoqBytes(h)),
			map[string]interface{}{"op": "NewMaster;Child...;String;Neuter;String;Address", "seed": vh.Hex(seed), "net": nets[net].Name, "path": pathStr(path), "impl_string": s, "impl_neutered_string": ns})
	}
}

// descend derives path below the key k (reference node n) privately and, along the non-hardened steps, publicly, with
// all monitors; it returns the last key / node, or ok = false when the walk had to stop.
func descend(cp *ctx, k *hdkeychain.ExtendedKey, n *hdref.Node, path []uint32, opt walkOpt, po *hdref.Oracle, vpriv, vpub []byte) (*hdkeychain.ExtendedKey, *hdref.Node, bool) {
	c := *cp
	base := append([]uint32{}, c.path...)
	var err error
	defer func() { *cp = c }()
	for step, i := range path {
		c.path = append(append([]uint32{}, base...), path[:step+1]...)
		par, parNode := k, n
		parF := par.VerifFields()
		var ch *hdkeychain.ExtendedKey
		if p, msg := vh.Catch(func() { ch, err = par.Child(i) }); p {
			rep.Violate("C04:panic", "Child panicked", c.replay(map[string]interface{}{"panic": msg}))
			return nil, nil, false
		}
		rep.Count("child_priv", "cp"+vh.Hex(parF.Key)+vh.Hex(parF.ChainCode)+fmt.Sprint(i), true)
		rep.Histogram["index_"+idxBucket(i)]++
		if par.Depth() == 255 {
			if err != hdkeychain.ErrDeriveBeyondMaxDepth {
				rep.Violate("C04:guard:depth", "Child at depth 255 did not return ErrDeriveBeyondMaxDepth", c.replay(map[string]interface{}{"err": fmt.Sprint(err)}))
			}
			cases.Add(fmt.Sprintf("Child no_oracle %s %d %s", coqKey(parF), i, coqRes(ch, err)),
				map[string]interface{}{"op": "Child(depth 255)", "parent": descKey(parF), "index": i, "impl_class": errClass(err)})
			return nil, nil, false
		}
		co := hdref.NewOracle()
		cn, cst, gap := hdref.CKDpriv(co, parNode, i)
		hdref.CKDpriv(po, parNode, i)
		if gap.ILZero || gap.ChildZero {
			gapsSeen++ // needs an HMAC-SHA512 preimage; recorded, excluded from the conformance monitor (DESIGN C04)
			return nil, nil, false
		}
		if cst != hdref.Valid {
			if err != hdkeychain.ErrInvalidChild {
				rep.Violate("C04:child:priv_conforms", "Child accepted an index the BIP marks invalid", c.replay(nil))
			}
			return nil, nil, false
		}
		if err != nil {
			rep.Violate("C04:child:priv_conforms", "Child refused a valid index", c.replay(map[string]interface{}{"err": fmt.Sprint(err)}))
			return nil, nil, false
		}
		if d := conforms(ch, cn, vpriv); d != "" {
			rep.Violate("C04:child:priv_conforms", "private Child differs from CKDpriv in: "+d,
				c.replay(map[string]interface{}{"parent": descKey(parF), "index": i, "impl": descKey(ch.VerifFields())}))
			return nil, nil, false // everything below this node would differ as a consequence
		}
		if cn.K.BitLen() <= 248 {
			rep.Histogram["child_scalar_leading_zero_byte"]++
			if cn.K.BitLen() <= 240 {
				rep.Histogram["child_scalar_two_leading_zero_bytes"]++
			}
		}
		if opt.childEvery > 0 && (step%opt.childEvery == 0 || cn.K.BitLen() <= 248 || parNode.K.BitLen() <= 248) {
			childOracle(co, parF, i)
			cases.Add(fmt.Sprintf("Child %s %s %d %s", co.Coq(), coqKey(parF), i, coqRes(ch, err)),
				map[string]interface{}{"op": "Child", "seed": vh.Hex(c.seed), "path": pathStr(c.path), "parent": descKey(parF), "index": i, "impl": descKey(ch.VerifFields())})
		}
		observe(c, ch, cn, vpriv, "priv")

		// the public side: Neuter, and CKDpub from the neutered parent
		np, nerr := par.Neuter()
		nc, nerr2 := ch.Neuter()
		if nerr != nil || nerr2 != nil {
			rep.Violate("C04:neuter:conforms", "Neuter failed on a key of a registered network", c.replay(map[string]interface{}{"err": fmt.Sprint(nerr, nerr2)}))
			return nil, nil, false
		}
		if d := conforms(nc, hdref.Neuter(cn), vpub); d != "" {
			rep.Violate("C04:neuter:conforms", "Neuter differs from N((k,c)) in: "+d, c.replay(nil))
		}
		observe(c, nc, hdref.Neuter(cn), vpub, "neutered")
		pc, perr := np.Child(i)
		rep.Count("child_pub", "cq"+vh.Hex(parF.Key)+vh.Hex(parF.ChainCode)+fmt.Sprint(i), i < H)
		if i >= H {
			if perr != hdkeychain.ErrDeriveHardFromPublic {
				rep.Violate("C04:guard:hardpub", "hardened Child of a public key did not return ErrDeriveHardFromPublic", c.replay(map[string]interface{}{"err": fmt.Sprint(perr)}))
			}
			if opt.childEvery > 0 && step%(3*opt.childEvery) == 0 {
				cases.Add(fmt.Sprintf("Child no_oracle %s %d %s", coqKey(np.VerifFields()), i, coqRes(pc, perr)),
					map[string]interface{}{"op": "Child(hardened from public)", "parent": descKey(np.VerifFields()), "index": i, "impl_class": errClass(perr)})
			}
		} else {
			qo := hdref.NewOracle()
			qn, qst, qgap := hdref.CKDpub(qo, hdref.Neuter(parNode), i)
			if !(qgap.ILZero || qgap.ChildZero) {
				if (qst == hdref.Valid) != (perr == nil) {
					rep.Violate("C04:child:pub_conforms", "public Child validity differs from CKDpub", c.replay(map[string]interface{}{"err": fmt.Sprint(perr)}))
				} else if perr == nil {
					if d := conforms(pc, qn, vpub); d != "" {
						rep.Violate("C04:child:pub_conforms", "public Child differs from CKDpub in: "+d,
							c.replay(map[string]interface{}{"parent": descKey(np.VerifFields()), "index": i, "impl": descKey(pc.VerifFields())}))
					}
					// Child (Neuter k) i = Neuter (Child k i)
					if pc.String() != nc.String() || conforms(pc, hdref.Neuter(cn), vpub) != "" {
						rep.Violate("C04:neuter:commutes", "Child(Neuter(k), i) differs from Neuter(Child(k, i))",
							c.replay(map[string]interface{}{"child_of_neutered": pc.String(), "neutered_child": nc.String()}))
					}
				}
				if opt.childEvery > 0 && step%opt.childEvery == 0 {
					childOracle(qo, np.VerifFields(), i)
					cases.Add(fmt.Sprintf("Child %s %s %d %s", qo.Coq(), coqKey(np.VerifFields()), i, coqRes(pc, perr)),
						map[string]interface{}{"op": "Child(public)", "seed": vh.Hex(c.seed), "path": pathStr(c.path), "parent": descKey(np.VerifFields()), "index": i})
				}
			}
		}
		if (opt.nodeEvery > 0 && step%opt.nodeEvery == 0) || opt.nodeAt == step+1 {
			nodeCases(ch, opt.shaOracle || step%2 == 1, pathStr(c.path))
			nodeCases(nc, true, pathStr(c.path)+" neutered")
		}
		k, n = ch, cn
	}
	return k, n, true
}

// ---------------------------------------------------------------- walks from an EXPLICIT extended private key (round 3)
// explicitKey is an extended private key (k, c) with its serialisation metadata, given by its bytes: BIP32's CKDpriv /
// CKDpub / N / serialisation are defined for every such key, and choosing the bytes reaches corners that derivation from
// seeds reaches with probability 2^-24 and less: scalars with 3..31 leading zero bytes, chain codes of zeros, and
// serialisations whose base-58 digit string has aligned all-zero groups (constructed, hdref.ZeroRunPayload).
type explicitKey struct {
	Key      string `json:"key"`        // 32 bytes, hex
	Chain    string `json:"chain_code"` // 32 bytes, hex
	FP       string `json:"parent_fingerprint"`
	Depth    uint8  `json:"depth"`
	ChildNum uint32 `json:"child_number"`
	Via      string `json:"made_by"` // "NewKeyFromString(reference serialisation)" or "NewExtendedKey(fields)"
	Why      string `json:"why,omitempty"`
}

const viaString, viaFields = "NewKeyFromString(reference serialisation)", "NewExtendedKey(fields)"

func explicitWalk(e explicitKey, net int, path []uint32, opt walkOpt) {
	key, _ := hex.DecodeString(e.Key)
	cc, _ := hex.DecodeString(e.Chain)
	fp, _ := hex.DecodeString(e.FP)
	kn := new(big.Int).SetBytes(key)
	if len(key) != 32 || len(cc) != 32 || len(fp) != 4 || kn.Sign() == 0 || kn.Cmp(hdref.N) >= 0 {
		return
	}
	c := ctx{net: net, explicit: &e}
	vpriv, vpub := vprivOf(net), vpubOf(net)
	n := &hdref.Node{K: kn, P: (*hdref.Oracle)(nil).Mul(kn), C: cc, Depth: int(e.Depth), FP: fp, Index: e.ChildNum}
	want := hdref.String(nil, n, vpriv)
	var k *hdkeychain.ExtendedKey
	var err error
	rep.Count("explicit_key", "ek"+want+e.Via, true)
	if e.Via == viaFields {
		k = hdkeychain.NewExtendedKey(vprivOf(net), append([]byte{}, key...), append([]byte{}, cc...), append([]byte{}, fp...), e.Depth, e.ChildNum, true)
	} else {
		if p, msg := vh.Catch(func() { k, err = hdkeychain.NewKeyFromString(want) }); p {
			rep.Violate("C04:panic", "NewKeyFromString panicked on the BIP32 serialisation of an extended private key", c.replay(map[string]interface{}{"panic": msg, "bip32": want}))
			return
		}
		if err != nil {
			rep.Violate("C04:string:conforms", "the BIP32 serialisation of an extended private key (scalar in [1, n-1]) is refused by NewKeyFromString", c.replay(map[string]interface{}{"bip32": want, "err": fmt.Sprint(err)}))
			return
		}
	}
	if d := conforms(k, n, vpriv); d != "" {
		rep.Violate("C04:string:conforms", "an extended private key given by its bytes is not held as that key: "+d, c.replay(map[string]interface{}{"bip32": want}))
		return
	}
	observe(c, k, n, vpriv, "explicit key")
	if opt.childEvery > 0 {
		nodeCases(k, true, "explicit key: "+e.Why)
	}
	// in-memory vs re-parsed: the same descent from the object and from the object parsed back from ITS OWN string
	descend(&c, k, n, path, opt, nil, vpriv, vpub)
	if p2, err := hdkeychain.NewKeyFromString(k.String()); err == nil {
		c2 := ctx{net: net, explicit: &e}
		descend(&c2, p2, n, path, walkOpt{}, nil, vpriv, vpub)
	}
}

// explicitFamily: the fixed and random explicit keys of one run.
func explicitFamily(r *vh.RNG, rounds int, corr bool) {
	g := func() uint32 { return uint32(r.Intn(1000)) }
	paths := func() [][]uint32 {
		return [][]uint32{{H + g()}, {g()}, {H + g(), H + g()}, {g(), H + g()}}
	}
	emit := func(key, cc []byte, why string, t int) {
		for vi, via := range []string{viaString, viaFields} {
			e := explicitKey{Key: vh.Hex(key), Chain: vh.Hex(cc), FP: vh.Hex(r.Bytes(4)), Depth: uint8(r.Intn(255)), ChildNum: r.U32(), Via: via, Why: why}
			for pi, p := range paths() {
				o := walkOpt{}
				if corr && vi == 0 && pi == t%4 && t%3 == 0 {
					o = walkOpt{childEvery: 1}
				}
				explicitWalk(e, (t+pi)%len(nets), p, o)
			}
		}
	}
	t := 0
	for round := 0; round < rounds; round++ {
		// scalars with z leading zero bytes, z = 1 .. 31
		for _, z := range []int{1, 2, 3, 3, 4, 5, 6, 8, 12, 16, 24, 28, 31} {
			key := append(make([]byte, z), r.Bytes(32-z)...)
			key[z] |= 1 // exactly z leading zero bytes
			emit(key, r.Bytes(32), fmt.Sprintf("private scalar with %d leading zero bytes", z), t)
			t++
		}
		// boundary scalars
		nm := func(d int64) []byte { return hdref.Ser256(new(big.Int).Sub(hdref.N, big.NewInt(d))) }
		for _, key := range [][]byte{hdref.Ser256(big.NewInt(1)), hdref.Ser256(big.NewInt(2)), hdref.Ser256(big.NewInt(0x10000)), nm(1), nm(2),
			hdref.Ser256(new(big.Int).Lsh(big.NewInt(1), 255)), hdref.Ser256(new(big.Int).Lsh(big.NewInt(1), 232))} {
			emit(key, r.Bytes(32), "boundary scalar", t)
			t++
		}
		// chain codes of zeros / with leading zero bytes / all 0xff
		sc := r.Bytes(32)
		sc[0] &= 0x7f
		sc[31] |= 1
		for _, cc := range [][]byte{make([]byte, 32), append(make([]byte, 5), r.Bytes(27)...), bytes.Repeat([]byte{0xff}, 32), append(r.Bytes(29), 0, 0, 0)} {
			emit(sc, cc, "chain code with zero / 0xff bytes", t)
			t++
		}
	}
}

// zeroGroupFamily: explicit keys whose serialisation has aligned all-zero base-58 digit groups (5 / 10 digits, every
// position from digit 10 to digit 105), constructed arithmetically; String() of the key, of its children, and the
// derivation below it are compared with the reference.
func zeroGroupFamily(r *vh.RNG, rounds int, widths []int, corr bool) {
	built, failed := 0, 0
	for round := 0; round < rounds; round++ {
		for lo := 10; lo <= 100; lo += 5 {
			for _, w := range widths {
				hi := lo + w
				if hi > 105 {
					continue
				}
				net := (lo/5 + w + round) % len(nets)
				sc := r.Bytes(32)
				sc[0] &= 0x7f
				sc[31] |= 1
				base := append(append(append(append(vprivOf(net), byte(r.Intn(256))), r.Bytes(4)...), hdref.Ser32(r.U32())...), r.Bytes(32)...)
				base = append(append(base, 0), sc...)
				var p []byte
				ok := false
				for try := 0; try < 8 && !ok; try++ {
					p, ok = hdref.ZeroRunPayload(base, r.Bytes, lo, hi)
					ok = ok && bytes.Equal(p[:4], vprivOf(net))
				}
				if !ok {
					failed++
					continue
				}
				kn := new(big.Int).SetBytes(p[46:78])
				n := &hdref.Node{K: kn, P: (*hdref.Oracle)(nil).Mul(kn), C: p[13:45], Depth: int(p[4]), FP: p[5:9], Index: binary.BigEndian.Uint32(p[9:13])}
				if !hdref.HasZeroRun(hdref.String(nil, n, vprivOf(net)), lo, hi) {
					failed++
					continue
				}
				built++
				rep.Histogram["explicit_keys_with_zero_digit_group"]++
				for vi, via := range []string{viaFields, viaString} {
					e := explicitKey{Key: vh.Hex(p[46:78]), Chain: vh.Hex(p[13:45]), FP: vh.Hex(p[5:9]), Depth: p[4], ChildNum: n.Index, Via: via,
						Why: fmt.Sprintf("base-58 digits %d..%d of the serialisation on %s (counted from the end of the string) are all '1'", lo, hi-1, nets[net].Name)}
					o := walkOpt{}
					if corr && vi == 0 && round == 0 && (lo/5)%4 == 0 && w == widths[0] {
						o = walkOpt{childEvery: 1, nodeAt: 1}
					}
					explicitWalk(e, net, []uint32{H + uint32(r.Intn(100)), uint32(r.Intn(100))}, o)
				}
			}
		}
	}
	rep.Extra["explicit_keys_with_zero_digit_group"] = map[string]int{"constructed": built, "construction_failed": failed}
}

// ---------------------------------------------------------------- children with THREE or more leading zero bytes (round 3)
// lz3 lists children (of the masters of fixed seeds) whose private scalar has at least three leading zero bytes, found
// once with the reference arithmetic by cmd/c04/lzscan (2^-24 per index: about 1.7e7 HMACs each) and kept here so that the
// quick tier does not search.  vectors() of the reference (BIP32 test vectors) guards the reference; each entry is
// re-checked against the reference before use.
type lz3Entry struct {
	seed  string
	index uint32
	zeros int
}

var lz3 = []lz3Entry{
	{"000102030405060708090a0b0c0d0e0f", 2150775374, 3},                                                                                                 // child scalar 0000004f7e0a2c1cefcce976200851fc9000b13a6009910a826c37a2da71c57a
	{"000102030405060708090a0b0c0d0e0f", 28672661, 3},                                                                                                   // child scalar 000000edbfa290d7071ed6c7e716f7c62da07d86a643aba0ae786045bc569a01
	{"433034206368696c6472656e2077697468207468726565206c656164696e67207a65726f206279746573", 2148998315, 3},                                             // child scalar 00000019d7b4e0d19ee85fbce65559fdf7a151ed88f6a5f6aef0fb4e4dda89f3
	{"433034206368696c6472656e2077697468207468726565206c656164696e67207a65726f206279746573", 2339335, 3},                                                // child scalar 0000005340fcee22eacf818c38210690be279168013c1bd130f923cdb476de7e
	{"fffcf9f6f3f0edeae7e4e1dedbd8d5d2cfccc9c6c3c0bdbab7b4b1aeaba8a5a29f9c999693908d8a8784817e7b7875726f6c696663605d5a5754514e4b484542", 2154588353, 3}, // child scalar 0000007430d8b8ce9eaa0f87df4685e3435ce081231f11f5a0922e8aa86f953c
	{"fffcf9f6f3f0edeae7e4e1dedbd8d5d2cfccc9c6c3c0bdbab7b4b1aeaba8a5a29f9c999693908d8a8784817e7b7875726f6c696663605d5a5754514e4b484542", 11155245, 3},   // child scalar 000000149496c202b0a481fee3a9e6f35194d7b5cbd16d39ce6b5016ac50022a
}

// scanLeadingZero looks, in parallel, for the smallest index >= start (hardened or not) whose child scalar has at most
// `bits` bits, trying at most max indices.
func scanLeadingZero(par *hdref.Node, hardened bool, start uint32, bits int, max int) (uint32, bool) {
	const chunk = 1 << 16
	workers := 8
	for off := 0; off < max; off += chunk * workers {
		res := make([]int64, workers)
		done := make(chan int, workers)
		for w := 0; w < workers; w++ {
			go func(w int) {
				res[w] = -1
				for t := 0; t < chunk; t++ {
					q := off + w*chunk + t
					if q >= max {
						break
					}
					i := (start + uint32(q)) & 0x7fffffff
					if hardened {
						i |= H
					}
					if sc, st, _ := hdref.CKDprivNoPoint(par, i); st == hdref.Valid && sc.BitLen() <= bits {
						res[w] = int64(i)
						break
					}
				}
				done <- w
			}(w)
		}
		for w := 0; w < workers; w++ {
			<-done
		}
		for w := 0; w < workers; w++ {
			if res[w] >= 0 {
				return uint32(res[w]), true
			}
		}
	}
	return 0, false
}

// lz3Walks: below a child with >= 3 leading zero bytes: hardened and normal grandchildren (and one more level) from the
// in-memory object (walk) and from the object parsed back from its string (parsedWalk), all against the reference.
func lz3Walks(seed []byte, net int, prefix []uint32, i uint32, r *vh.RNG, corr bool) {
	at := append(append([]uint32{}, prefix...), i)
	for gi, tail := range [][]uint32{{H + uint32(r.Intn(1000)), H + uint32(r.Intn(1000))}, {uint32(r.Intn(1000)), H + uint32(r.Intn(1000))}, {H, 0}} {
		o := walkOpt{}
		if corr && gi == 0 {
			o = walkOpt{childEvery: 1, nodeAt: len(at), pathCase: true, shaOracle: true}
		}
		walk(seed, (net+gi)%len(nets), append(append([]uint32{}, at...), tail...), o)
		parsedWalk(seed, (net+gi)%len(nets), at, tail, false, false)
	}
	siblings(seed, net, at, []uint32{H + 1, 1, H, 0, 0xffffffff, H - 1}, false)
}

// nodeCases writes the single-function cases for one key.
var nodeCount int

func nodeCases(k *hdkeychain.ExtendedKey, shaOracle bool, what string) {
	f := k.VerifFields()
	nodeCount++
	full := nodeCount%3 == 0 || len(f.Key) != 32
	o := hdref.NewOracle()
	o.RecordDSha = shaOracle
	pub := pubOracle(o, f)
	s := k.String()
	// payload of String for the sha oracle
	if shaOracle && len(f.Key) > 0 {
		p := append([]byte{}, f.Version...)
		p = append(p, f.Depth)
		p = append(p, f.ParentFP...)
		p = append(p, hdref.Ser32(f.ChildNum)...)
		p = append(p, f.ChainCode...)
		if f.IsPrivate {
			p = append(p, 0)
			p = append(p, make([]byte, max(0, 32-len(f.Key)))...)
			p = append(p, f.Key...)
		} else {
			p = append(p, f.Key...)
		}
		o.DSha(p)
	}
	cases.Add(fmt.Sprintf("Str %s %s %s", o.Coq(), coqKey(f), vh.CoqStr(s)), map[string]interface{}{"op": "String", "node": what, "key": descKey(f), "impl": s})
	o2 := hdref.NewOracle()
	pubOracle(o2, f)
	nk, nerr := k.Neuter()
	cases.Add(fmt.Sprintf("Neuter %s %s %s", o2.Coq(), coqKey(f), coqRes(nk, nerr)), map[string]interface{}{"op": "Neuter", "node": what, "key": descKey(f)})
	if !full {
		return
	}
	cases.Add(fmt.Sprintf("PubBytes %s %s %s", o2.Coq(), coqKey(f), vh.CoqBytes(k.VerifPubKeyBytes())), map[string]interface{}{"op": "pubKeyBytes", "node": what, "key": descKey(f)})
	o3 := hdref.NewOracle()
	pubOracle(o3, f)
	o3.H160(pub)
	addr, err := k.Address(nets[0])
	if err == nil {
		cases.Add(fmt.Sprintf("Addr %s %s (Ok %s)", o3.Coq(), coqKey(f), vh.CoqBytes(addr.Hash160()[:])), map[string]interface{}{"op": "Address", "node": what, "key": descKey(f)})
	}
	sk, err := k.ECPrivKey()
	if err != nil {
		cases.Add(fmt.Sprintf("ECPriv %s (Err %d)", coqKey(f), errClass(err)), map[string]interface{}{"op": "ECPrivKey", "node": what})
	} else {
		cases.Add(fmt.Sprintf("ECPriv %s (Ok %s)", coqKey(f), hdref.Hex(sk.D)), map[string]interface{}{"op": "ECPrivKey", "node": what})
	}
	o4 := hdref.NewOracle()
	o4.Parse(pubOracle(o4, f))
	pk, err := k.ECPubKey()
	if err != nil {
		cases.Add(fmt.Sprintf("ECPub %s %s (Err 4)", o4.Coq(), coqKey(f)), map[string]interface{}{"op": "ECPubKey", "node": what})
	} else {
		cases.Add(fmt.Sprintf("ECPub %s %s (Ok (%s, %s))", o4.Coq(), coqKey(f), hdref.Hex(pk.X), hdref.Hex(pk.Y)), map[string]interface{}{"op": "ECPubKey", "node": what})
	}
}

// siblings derives several children from ONE key object in mixed hardened / non-hardened order (and calls
// String / Address / Neuter in between), checking each against the reference: the result of Child must not
// depend on the history of the object.
func siblings(seed []byte, net int, prefix []uint32, idx []uint32, corr bool) {
	c := ctx{seed: seed, net: net, path: prefix}
	k, err := derivePriv(seed, net, prefix)
	n := refDerive(seed, prefix)
	if err != nil || n == nil {
		return
	}
	vpriv, vpub := vprivOf(net), vpubOf(net)
	nk, _ := k.Neuter()
	var hist []uint32
	for step, i := range idx {
		hist = append(hist, i)
		parF := k.VerifFields()
		ch, err := k.Child(i)
		rep.Count("sibling_priv", fmt.Sprint("sp", vh.Hex(seed), pathStr(prefix), hist), true)
		co := hdref.NewOracle()
		cn, st, gap := hdref.CKDpriv(co, n, i)
		if gap.ILZero || gap.ChildZero {
			continue
		}
		if (st == hdref.Valid) != (err == nil) {
			rep.Violate("C04:child:priv_conforms", "Child validity differs from CKDpriv (several children of one key object)",
				c.replay(map[string]interface{}{"children_derived_from_the_same_object_in_order": hist, "err": fmt.Sprint(err)}))
			continue
		}
		if err == nil {
			if d := conforms(ch, cn, vpriv); d != "" {
				rep.Violate("C04:child:priv_conforms", "private Child differs from CKDpriv (several children of one key object) in: "+d,
					c.replay(map[string]interface{}{"children_derived_from_the_same_object_in_order": hist, "index": i, "impl": descKey(ch.VerifFields())}))
			}
			if want := hdref.String(nil, cn, vpriv); ch.String() != want {
				rep.Violate("C04:string:conforms", "String() of a sibling differs from the BIP32 serialisation",
					c.replay(map[string]interface{}{"children_derived_from_the_same_object_in_order": hist, "impl": ch.String(), "bip32": want}))
			}
		}
		if corr {
			childOracle(co, parF, i)
			cases.Add(fmt.Sprintf("Child %s %s %d %s", co.Coq(), coqKey(parF), i, coqRes(ch, err)),
				map[string]interface{}{"op": "Child (sibling of one object)", "seed": vh.Hex(seed), "prefix": pathStr(prefix), "history": hist, "index": i})
		}
		// the public object, same order
		if nk != nil {
			pc, perr := nk.Child(i)
			rep.Count("sibling_pub", fmt.Sprint("sq", vh.Hex(seed), pathStr(prefix), hist), i < H)
			if i >= H {
				if perr != hdkeychain.ErrDeriveHardFromPublic {
					rep.Violate("C04:guard:hardpub", "hardened Child of a public key did not return ErrDeriveHardFromPublic", c.replay(map[string]interface{}{"history": hist}))
				}
			} else if st == hdref.Valid {
				qn, qst, qgap := hdref.CKDpub(nil, hdref.Neuter(n), i)
				if !(qgap.ILZero || qgap.ChildZero) {
					if (qst == hdref.Valid) != (perr == nil) || (perr == nil && conforms(pc, qn, vpub) != "") {
						rep.Violate("C04:child:pub_conforms", "public Child differs from CKDpub (several children of one key object)",
							c.replay(map[string]interface{}{"children_derived_from_the_same_object_in_order": hist, "index": i}))
					}
				}
			}
		}
		switch step % 4 { // touch the memoised state between derivations
		case 0:
			_ = k.String()
		case 1:
			k.Address(nets[net])
		case 2:
			k.Neuter()
		}
	}
}

// pubChain follows a non-hardened path with PUBLIC derivation only, starting from the neutered key at
// seed/prefix: every step is a Child of the previous public key (never re-neutered from a private key),
// compared with CKDpub of the reference and with the neutered private derivation (review round 2).
func pubChain(seed []byte, net int, prefix, path []uint32, corr bool) {
	c := ctx{seed: seed, net: net, path: prefix}
	k, err := derivePriv(seed, net, prefix)
	n := refDerive(seed, prefix)
	if err != nil || n == nil {
		return
	}
	vpub := vpubOf(net)
	pk, err := k.Neuter()
	if err != nil {
		rep.Violate("C04:neuter:conforms", "Neuter failed on a key of a registered network", c.replay(map[string]interface{}{"err": fmt.Sprint(err)}))
		return
	}
	pn := hdref.Neuter(n)
	priv := n
	full := append([]uint32{}, prefix...)
	for step, i := range path {
		i &^= H
		full = append(full, i)
		c.path = full
		parF := pk.VerifFields()
		var ch *hdkeychain.ExtendedKey
		if p, msg := vh.Catch(func() { ch, err = pk.Child(i) }); p {
			rep.Violate("C04:panic", "public Child panicked", c.replay(map[string]interface{}{"panic": msg, "public_chain_from": pathStr(prefix)}))
			return
		}
		rep.Count("child_pub_chain", "cc"+vh.Hex(parF.Key)+vh.Hex(parF.ChainCode)+fmt.Sprint(i), true)
		if int(parF.Depth) == 255 {
			if err != hdkeychain.ErrDeriveBeyondMaxDepth {
				rep.Violate("C04:guard:depth", "public Child at depth 255 did not return ErrDeriveBeyondMaxDepth", c.replay(map[string]interface{}{"err": fmt.Sprint(err)}))
			}
			return
		}
		qo := hdref.NewOracle()
		qn, qst, qgap := hdref.CKDpub(qo, pn, i)
		var cst hdref.Status
		priv, cst, _ = hdref.CKDpriv(nil, priv, i)
		if qgap.ILZero || qgap.ChildZero {
			gapsSeen++
			return
		}
		if (qst == hdref.Valid) != (err == nil) {
			rep.Violate("C04:child:pub_conforms", "public Child validity differs from CKDpub (chain of public derivations)",
				c.replay(map[string]interface{}{"public_chain_from": pathStr(prefix), "err": fmt.Sprint(err)}))
			return
		}
		if err != nil {
			return
		}
		if d := conforms(ch, qn, vpub); d != "" {
			rep.Violate("C04:child:pub_conforms", "public Child differs from CKDpub (chain of public derivations) in: "+d,
				c.replay(map[string]interface{}{"public_chain_from": pathStr(prefix), "parent": descKey(parF), "index": i, "impl": descKey(ch.VerifFields())}))
			return
		}
		if cst == hdref.Valid {
			if d := conforms(ch, hdref.Neuter(priv), vpub); d != "" {
				rep.Violate("C04:neuter:commutes", "a chain of public derivations differs from the neutered private derivation in: "+d,
					c.replay(map[string]interface{}{"public_chain_from": pathStr(prefix)}))
			}
		}
		if qn.P.X.BitLen() <= 248 {
			rep.Histogram["child_pubkey_x_leading_zero_byte"]++
		}
		observe(c, ch, qn, vpub, "public chain")
		if corr && (step%2 == 0 || qn.P.X.BitLen() <= 248) {
			childOracle(qo, parF, i)
			cases.Add(fmt.Sprintf("Child %s %s %d %s", qo.Coq(), coqKey(parF), i, coqRes(ch, err)),
				map[string]interface{}{"op": "Child(public chain)", "seed": vh.Hex(seed), "from": pathStr(prefix), "path": pathStr(full), "index": i})
			if qn.P.X.BitLen() <= 248 {
				nodeCases(ch, true, pathStr(full)+" public chain, X with a leading zero byte")
			}
		}
		pk, pn = ch, qn
	}
}

// parsedWalk: the tree below a key obtained from NewKeyFromString (the xprv, or the xpub, of the node seed/prefix).
// Every descendant must be the BIP32 node; after every step -- which prints the newest key, neuters it, takes its
// addresses -- EVERY ancestor object, in particular the parsed one (whose four field slices are ranges of one
// decoded buffer with spare capacity), is observed again and must still be its own node (review round 2).
func parsedWalk(seed []byte, net int, prefix, path []uint32, public bool, corr bool) {
	c := ctx{seed: seed, net: net, path: prefix}
	k0, err := derivePriv(seed, net, prefix)
	n := refDerive(seed, prefix)
	if err != nil || n == nil {
		return
	}
	ver := vprivOf(net)
	if public {
		if k0, err = k0.Neuter(); err != nil {
			return
		}
		n = hdref.Neuter(n)
		ver = vpubOf(net)
	}
	extra := map[string]interface{}{"parsed_at": len(prefix), "parsed_public": public,
		"history": "the key at path[:parsed_at] (neutered if parsed_public) is printed and parsed back with NewKeyFromString; the rest of the path is derived from the parsed object, observing every ancestor object again after every step"}
	p, err := hdkeychain.NewKeyFromString(k0.String())
	if err != nil {
		rep.Violate("C04:string:conforms", "the string of a derived key does not parse", c.replay(extra))
		return
	}
	type link struct {
		k *hdkeychain.ExtendedKey
		n *hdref.Node
	}
	chain := []link{{p, n}}
	full := append([]uint32{}, prefix...)
	for _, i := range path {
		if public {
			i &^= H
		}
		cur := chain[len(chain)-1]
		if cur.n.Depth == 255 {
			break
		}
		full = append(full, i)
		c.path = full
		parF := cur.k.VerifFields()
		ch, err := cur.k.Child(i)
		rep.Count("child_of_parsed", fmt.Sprint("pw", vh.Hex(parF.Key), vh.Hex(parF.ChainCode), i), true)
		co := hdref.NewOracle()
		var cn *hdref.Node
		var st hdref.Status
		var gap hdref.Gap
		if public {
			cn, st, gap = hdref.CKDpub(co, cur.n, i)
		} else {
			cn, st, gap = hdref.CKDpriv(co, cur.n, i)
		}
		if gap.ILZero || gap.ChildZero {
			gapsSeen++
			return
		}
		key := "C04:child:priv_conforms"
		if public {
			key = "C04:child:pub_conforms"
		}
		if (st == hdref.Valid) != (err == nil) {
			rep.Violate(key, "Child validity differs from the reference below a key obtained from NewKeyFromString", c.replay(extra))
			return
		}
		if err != nil {
			return
		}
		if d := conforms(ch, cn, ver); d != "" {
			rep.Violate(key, "Child of a key obtained from NewKeyFromString (or of its descendant) differs from the BIP32 node in: "+d, c.replay(extra))
			return
		}
		if corr {
			childOracle(co, parF, i)
			cases.Add(fmt.Sprintf("Child %s %s %d %s", co.Coq(), coqKey(parF), i, coqRes(ch, err)),
				map[string]interface{}{"op": "Child (below a parsed key)", "seed": vh.Hex(seed), "path": pathStr(full), "parsed_at": len(prefix), "index": i})
		}
		chain = append(chain, link{ch, cn})
		// print / neuter / address the newest key, then look at every ancestor object again (oldest first)
		observe(c, ch, cn, ver, "below a parsed key")
		if !public {
			if nk, err := ch.Neuter(); err == nil {
				_ = nk.String()
			}
		}
		for ai, a := range chain[:len(chain)-1] {
			ca := ctx{seed: seed, net: net, path: full[:len(prefix)+ai]}
			ex := map[string]interface{}{"parsed_at": len(prefix), "parsed_public": public, "history": extra["history"],
				"then": fmt.Sprintf("derived down to %s from it (String / Neuter / Address on every new key); this ancestor object was not operated on", pathStr(full))}
			if d := conforms(a.k, a.n, ver); d != "" {
				rep.Violate("C04:string:conforms", "an ancestor key object no longer holds its BIP32 node after its descendants were derived and printed: "+d, ca.replay(ex))
				return
			}
			if want := hdref.String(nil, a.n, ver); a.k.String() != want {
				rep.Violate("C04:string:conforms", "String() of an ancestor key object changed after its descendants were derived and printed", ca.replay(ex))
				return
			}
		}
	}
}

// findLeadingZeroPub scans non-hardened indices for a child whose PUBLIC key has an X coordinate with a leading
// zero byte (SerializeCompressed must left-pad it), with the reference arithmetic.
func findLeadingZeroPub(par *hdref.Node, start uint32, maxTries int) (uint32, bool) {
	pp := hdref.Neuter(par)
	for t := 0; t < maxTries; t++ {
		i := (start + uint32(t)) &^ H
		n, st, gap := hdref.CKDpub(nil, pp, i)
		if st == hdref.Valid && !gap.ILZero && !gap.ChildZero && n.P.X.BitLen() <= 248 {
			return i, true
		}
	}
	return 0, false
}

// setNetThenChild: SetNet on a key, then derivation: children, neutered forms and strings carry the new network's
// version bytes and are otherwise the BIP32 nodes (SetNet "associates the key, and any child keys yet to be derived").
func setNetThenChild(r *vh.RNG, a, b int, corr bool) {
	setNetRun(r.Bytes(16+r.Intn(49)), []uint32{randIndex(r)}, a, b, [3]uint32{uint32(r.Intn(1000)), H + uint32(r.Intn(1000)), uint32(r.Intn(1000))}, corr)
}

func setNetRun(seed []byte, prefix []uint32, a, b int, idx [3]uint32, corr bool) {
	c := ctx{seed: seed, net: a, path: prefix}
	k, err := derivePriv(seed, a, prefix)
	n := refDerive(seed, prefix)
	if err != nil || n == nil {
		return
	}
	k.SetNet(nets[b])
	vpriv, vpub := vprivOf(b), vpubOf(b)
	rep.Count("setnet_child", fmt.Sprint("sn", vh.Hex(seed), a, b), a != b)
	what := map[string]interface{}{"then": "SetNet(" + nets[b].Name + ") on the key at the path, then Child / Neuter / String",
		"setnet_from": a, "setnet_to": b, "setnet_prefix": prefix, "setnet_children": idx}
	if d := conforms(k, n, vpriv); d != "" || k.String() != hdref.String(nil, n, vpriv) || !k.IsForNet(nets[b]) || (a != b && nets[a].HDPrivateKeyID != nets[b].HDPrivateKeyID && k.IsForNet(nets[a])) {
		rep.Violate("C04:string:conforms", "after SetNet the key is not the same BIP32 node under the new network's version: "+d, c.replay(what))
		return
	}
	for _, i := range []uint32{idx[0], idx[1]} {
		parF := k.VerifFields()
		ch, err := k.Child(i)
		co := hdref.NewOracle()
		cn, st, gap := hdref.CKDpriv(co, n, i)
		if gap.ILZero || gap.ChildZero || st != hdref.Valid {
			continue
		}
		c2 := ctx{seed: seed, net: b, path: append(append([]uint32{}, prefix...), i)}
		if err != nil {
			rep.Violate("C04:child:priv_conforms", "Child refused a valid index after SetNet", c2.replay(what))
			continue
		}
		if d := conforms(ch, cn, vpriv); d != "" {
			rep.Violate("C04:child:priv_conforms", "private Child after SetNet differs from CKDpriv / the new network's version in: "+d, c2.replay(what))
			continue
		}
		observe(c2, ch, cn, vpriv, "priv after SetNet")
		nc, nerr := ch.Neuter()
		if nerr != nil {
			rep.Violate("C04:neuter:conforms", "Neuter failed after SetNet to a registered network", c2.replay(what))
			continue
		}
		if d := conforms(nc, hdref.Neuter(cn), vpub); d != "" {
			rep.Violate("C04:neuter:conforms", "Neuter after SetNet differs from N((k,c)) / the new network's public version in: "+d, c2.replay(what))
		}
		observe(c2, nc, hdref.Neuter(cn), vpub, "neutered after SetNet")
		if corr && i < H {
			childOracle(co, parF, i)
			cases.Add(fmt.Sprintf("Child %s %s %d %s", co.Coq(), coqKey(parF), i, coqRes(ch, err)),
				map[string]interface{}{"op": "Child after SetNet", "from": nets[a].Name, "to": nets[b].Name, "index": i})
		}
	}
	// the public side: SetNet on the neutered key
	pk, _ := derivePriv(seed, a, prefix)
	nk, _ := pk.Neuter()
	if nk == nil {
		return
	}
	nk.SetNet(nets[b])
	if d := conforms(nk, hdref.Neuter(n), vpub); d != "" {
		rep.Violate("C04:neuter:conforms", "after SetNet a public key is not the same node under the new network's public version: "+d, c.replay(what))
		return
	}
	i := idx[2]
	pc, perr := nk.Child(i)
	qn, qst, qgap := hdref.CKDpub(nil, hdref.Neuter(n), i)
	if !(qgap.ILZero || qgap.ChildZero) && qst == hdref.Valid {
		if perr != nil {
			rep.Violate("C04:child:pub_conforms", "public Child refused a valid index after SetNet", c.replay(what))
		} else if d := conforms(pc, qn, vpub); d != "" {
			rep.Violate("C04:child:pub_conforms", "public Child after SetNet differs from CKDpub / the new network's version in: "+d, c.replay(what))
		}
	}
}

func lenBucket(n int) string {
	switch {
	case n < 16:
		return "<16"
	case n == 16:
		return "16"
	case n < 32:
		return "17..31"
	case n == 32:
		return "32"
	case n < 64:
		return "33..63"
	case n == 64:
		return "64"
	}
	return ">64"
}

func idxBucket(i uint32) string {
	switch {
	case i == 0:
		return "0"
	case i == H-1:
		return "2^31-1"
	case i == H:
		return "2^31"
	case i == 0xffffffff:
		return "2^32-1"
	case i < H:
		return "normal"
	}
	return "hardened"
}

func randIndex(r *vh.RNG) uint32 {
	switch r.Intn(10) {
	case 0:
		return 0
	case 1:
		return H - 1
	case 2:
		return H
	case 3:
		return 0xffffffff
	case 4, 5:
		return uint32(r.Intn(1 << 20))
	case 6:
		return r.U32() &^ H
	case 7:
		return H + uint32(r.Intn(1<<20))
	default:
		return r.U32() | H
	}
}

// ---------------------------------------------------------------- targeted search: children whose scalar has leading zero bytes
// Scans indices with the reference arithmetic only (HMAC + big-int addition), from the given parent.
func findLeadingZeroChild(par *hdref.Node, hardened bool, start uint32, bits int, maxTries int) (uint32, bool) {
	for t := 0; t < maxTries; t++ {
		i := start + uint32(t)
		if hardened {
			i |= H
		} else {
			i &^= H
		}
		n, st, _ := hdref.CKDprivNoPoint(par, i)
		if st == hdref.Valid && n.BitLen() <= bits {
			return i, true
		}
	}
	return 0, false
}

// ---------------------------------------------------------------- BIP32 test vectors 1-3
type vec struct {
	seed      string
	path      []uint32
	pub, priv string
}

var bipVectors = []vec{
	{"000102030405060708090a0b0c0d0e0f", []uint32{}, "xpub661MyMwAqRbcFtXgS5sYJABqqG9YLmC4Q1Rdap9gSE8NqtwybGhePY2gZ29ESFjqJoCu1Rupje8YtGqsefD265TMg7usUDFdp6W1EGMcet8", "xprv9s21ZrQH143K3QTDL4LXw2F7HEK3wJUD2nW2nRk4stbPy6cq3jPPqjiChkVvvNKmPGJxWUtg6LnF5kejMRNNU3TGtRBeJgk33yuGBxrMPHi"},
	{"000102030405060708090a0b0c0d0e0f", []uint32{H}, "xpub68Gmy5EdvgibQVfPdqkBBCHxA5htiqg55crXYuXoQRKfDBFA1WEjWgP6LHhwBZeNK1VTsfTFUHCdrfp1bgwQ9xv5ski8PX9rL2dZXvgGDnw", "xprv9uHRZZhk6KAJC1avXpDAp4MDc3sQKNxDiPvvkX8Br5ngLNv1TxvUxt4cV1rGL5hj6KCesnDYUhd7oWgT11eZG7XnxHrnYeSvkzY7d2bhkJ7"},
	{"000102030405060708090a0b0c0d0e0f", []uint32{H, 1}, "xpub6ASuArnXKPbfEwhqN6e3mwBcDTgzisQN1wXN9BJcM47sSikHjJf3UFHKkNAWbWMiGj7Wf5uMash7SyYq527Hqck2AxYysAA7xmALppuCkwQ", "xprv9wTYmMFdV23N2TdNG573QoEsfRrWKQgWeibmLntzniatZvR9BmLnvSxqu53Kw1UmYPxLgboyZQaXwTCg8MSY3H2EU4pWcQDnRnrVA1xe8fs"},
	{"000102030405060708090a0b0c0d0e0f", []uint32{H, 1, H + 2}, "xpub6D4BDPcP2GT577Vvch3R8wDkScZWzQzMMUm3PWbmWvVJrZwQY4VUNgqFJPMM3No2dFDFGTsxxpG5uJh7n7epu4trkrX7x7DogT5Uv6fcLW5", "xprv9z4pot5VBttmtdRTWfWQmoH1taj2axGVzFqSb8C9xaxKymcFzXBDptWmT7FwuEzG3ryjH4ktypQSAewRiNMjANTtpgP4mLTj34bhnZX7UiM"},
	{"000102030405060708090a0b0c0d0e0f", []uint32{H, 1, H + 2, 2}, "xpub6FHa3pjLCk84BayeJxFW2SP4XRrFd1JYnxeLeU8EqN3vDfZmbqBqaGJAyiLjTAwm6ZLRQUMv1ZACTj37sR62cfN7fe5JnJ7dh8zL4fiyLHV", "xprvA2JDeKCSNNZky6uBCviVfJSKyQ1mDYahRjijr5idH2WwLsEd4Hsb2Tyh8RfQMuPh7f7RtyzTtdrbdqqsunu5Mm3wDvUAKRHSC34sJ7in334"},
	{"000102030405060708090a0b0c0d0e0f", []uint32{H, 1, H + 2, 2, 1000000000}, "xpub6H1LXWLaKsWFhvm6RVpEL9P4KfRZSW7abD2ttkWP3SSQvnyA8FSVqNTEcYFgJS2UaFcxupHiYkro49S8yGasTvXEYBVPamhGW6cFJodrTHy", "xprvA41z7zogVVwxVSgdKUHDy1SKmdb533PjDz7J6N6mV6uS3ze1ai8FHa8kmHScGpWmj4WggLyQjgPie1rFSruoUihUZREPSL39UNdE3BBDu76"},
	{"fffcf9f6f3f0edeae7e4e1dedbd8d5d2cfccc9c6c3c0bdbab7b4b1aeaba8a5a29f9c999693908d8a8784817e7b7875726f6c696663605d5a5754514e4b484542", []uint32{}, "xpub661MyMwAqRbcFW31YEwpkMuc5THy2PSt5bDMsktWQcFF8syAmRUapSCGu8ED9W6oDMSgv6Zz8idoc4a6mr8BDzTJY47LJhkJ8UB7WEGuduB", "xprv9s21ZrQH143K31xYSDQpPDxsXRTUcvj2iNHm5NUtrGiGG5e2DtALGdso3pGz6ssrdK4PFmM8NSpSBHNqPqm55Qn3LqFtT2emdEXVYsCzC2U"},
	{"fffcf9f6f3f0edeae7e4e1dedbd8d5d2cfccc9c6c3c0bdbab7b4b1aeaba8a5a29f9c999693908d8a8784817e7b7875726f6c696663605d5a5754514e4b484542", []uint32{0}, "xpub69H7F5d8KSRgmmdJg2KhpAK8SR3DjMwAdkxj3ZuxV27CprR9LgpeyGmXUbC6wb7ERfvrnKZjXoUmmDznezpbZb7ap6r1D3tgFxHmwMkQTPH", "xprv9vHkqa6EV4sPZHYqZznhT2NPtPCjKuDKGY38FBWLvgaDx45zo9WQRUT3dKYnjwih2yJD9mkrocEZXo1ex8G81dwSM1fwqWpWkeS3v86pgKt"},
	{"fffcf9f6f3f0edeae7e4e1dedbd8d5d2cfccc9c6c3c0bdbab7b4b1aeaba8a5a29f9c999693908d8a8784817e7b7875726f6c696663605d5a5754514e4b484542", []uint32{0, H + 2147483647}, "xpub6ASAVgeehLbnwdqV6UKMHVzgqAG8Gr6riv3Fxxpj8ksbH9ebxaEyBLZ85ySDhKiLDBrQSARLq1uNRts8RuJiHjaDMBU4Zn9h8LZNnBC5y4a", "xprv9wSp6B7kry3Vj9m1zSnLvN3xH8RdsPP1Mh7fAaR7aRLcQMKTR2vidYEeEg2mUCTAwCd6vnxVrcjfy2kRgVsFawNzmjuHc2YmYRmagcEPdU9"},
	{"fffcf9f6f3f0edeae7e4e1dedbd8d5d2cfccc9c6c3c0bdbab7b4b1aeaba8a5a29f9c999693908d8a8784817e7b7875726f6c696663605d5a5754514e4b484542", []uint32{0, H + 2147483647, 1}, "xpub6DF8uhdarytz3FWdA8TvFSvvAh8dP3283MY7p2V4SeE2wyWmG5mg5EwVvmdMVCQcoNJxGoWaU9DCWh89LojfZ537wTfunKau47EL2dhHKon", "xprv9zFnWC6h2cLgpmSA46vutJzBcfJ8yaJGg8cX1e5StJh45BBciYTRXSd25UEPVuesF9yog62tGAQtHjXajPPdbRCHuWS6T8XA2ECKADdw4Ef"},
	{"fffcf9f6f3f0edeae7e4e1dedbd8d5d2cfccc9c6c3c0bdbab7b4b1aeaba8a5a29f9c999693908d8a8784817e7b7875726f6c696663605d5a5754514e4b484542", []uint32{0, H + 2147483647, 1, H + 2147483646}, "xpub6ERApfZwUNrhLCkDtcHTcxd75RbzS1ed54G1LkBUHQVHQKqhMkhgbmJbZRkrgZw4koxb5JaHWkY4ALHY2grBGRjaDMzQLcgJvLJuZZvRcEL", "xprvA1RpRA33e1JQ7ifknakTFpgNXPmW2YvmhqLQYMmrj4xJXXWYpDPS3xz7iAxn8L39njGVyuoseXzU6rcxFLJ8HFsTjSyQbLYnMpCqE2VbFWc"},
	{"fffcf9f6f3f0edeae7e4e1dedbd8d5d2cfccc9c6c3c0bdbab7b4b1aeaba8a5a29f9c999693908d8a8784817e7b7875726f6c696663605d5a5754514e4b484542", []uint32{0, H + 2147483647, 1, H + 2147483646, 2}, "xpub6FnCn6nSzZAw5Tw7cgR9bi15UV96gLZhjDstkXXxvCLsUXBGXPdSnLFbdpq8p9HmGsApME5hQTZ3emM2rnY5agb9rXpVGyy3bdW6EEgAtqt", "xprvA2nrNbFZABcdryreWet9Ea4LvTJcGsqrMzxHx98MMrotbir7yrKCEXw7nadnHM8Dq38EGfSh6dqA9QWTyefMLEcBYJUuekgW4BYPJcr9E7j"},
	{"4b381541583be4423346c643850da4b320e46a87ae3d2a4e6da11eba819cd4acba45d239319ac14f863b8d5ab5a0d0c64d2e8a1e7d1457df2e5a3c51c73235be", []uint32{}, "xpub661MyMwAqRbcEZVB4dScxMAdx6d4nFc9nvyvH3v4gJL378CSRZiYmhRoP7mBy6gSPSCYk6SzXPTf3ND1cZAceL7SfJ1Z3GC8vBgp2epUt13", "xprv9s21ZrQH143K25QhxbucbDDuQ4naNntJRi4KUfWT7xo4EKsHt2QJDu7KXp1A3u7Bi1j8ph3EGsZ9Xvz9dGuVrtHHs7pXeTzjuxBrCmmhgC6"},
	{"4b381541583be4423346c643850da4b320e46a87ae3d2a4e6da11eba819cd4acba45d239319ac14f863b8d5ab5a0d0c64d2e8a1e7d1457df2e5a3c51c73235be", []uint32{H}, "xpub68NZiKmJWnxxS6aaHmn81bvJeTESw724CRDs6HbuccFQN9Ku14VQrADWgqbhhTHBaohPX4CjNLf9fq9MYo6oDaPPLPxSb7gwQN3ih19Zm4Y", "xprv9uPDJpEQgRQfDcW7BkF7eTya6RPxXeJCqCJGHuCJ4GiRVLzkTXBAJMu2qaMWPrS7AANYqdq6vcBcBUdJCVVFceUvJFjaPdGZ2y9WACViL4L"},
}

func derivePriv(seed []byte, net int, path []uint32) (*hdkeychain.ExtendedKey, error) {
	k, err := hdkeychain.NewMaster(seed, nets[net])
	for _, i := range path {
		if err != nil {
			return nil, err
		}
		k, err = k.Child(i)
	}
	return k, err
}

func refDerive(seed []byte, path []uint32) *hdref.Node {
	n, st := hdref.Master(nil, seed)
	for _, i := range path {
		if st != hdref.Valid {
			return nil
		}
		n, st, _ = hdref.CKDpriv(nil, n, i)
	}
	if st != hdref.Valid {
		return nil
	}
	return n
}

func vectors() {
	for vi, v := range bipVectors {
		seed, _ := hex.DecodeString(v.seed)
		c := ctx{seed: seed, net: 0, path: v.path}
		n := refDerive(seed, v.path)
		if n == nil || hdref.String(nil, n, vprivOf(0)) != v.priv || hdref.String(nil, hdref.Neuter(n), vpubOf(0)) != v.pub {
			vh.Must(fmt.Errorf("the reference implementation does not reproduce BIP32 test vector #%d (%s)", vi, pathStr(v.path)))
		}
		k, err := derivePriv(seed, 0, v.path)
		rep.Count("bip32_vector", fmt.Sprintf("vec%d", vi), true)
		if err != nil {
			rep.Violate("C04:vectors", "BIP32 test vector cannot be derived", c.replay(map[string]interface{}{"err": fmt.Sprint(err)}))
			continue
		}
		nk, _ := k.Neuter()
		if k.String() != v.priv || nk == nil || nk.String() != v.pub {
			rep.Violate("C04:vectors", "BIP32 test vector not reproduced", c.replay(map[string]interface{}{"impl_priv": k.String(), "want_priv": v.priv, "want_pub": v.pub}))
		}
		walk(seed, 0, v.path, walkOpt{childEvery: 1, nodeEvery: 3, pathCase: true, shaOracle: vi%3 != 0})
	}
}

// ---------------------------------------------------------------- keys outside the reachable set (model fidelity only)
func oddKeys(r *vh.RNG) {
	type odd struct {
		what string
		key  []byte
		priv bool
	}
	_, gpub := bchec.PrivKeyFromBytes(bchec.S256(), []byte{7})
	bad := gpub.SerializeCompressed()
	bad[0] = 5
	offc := append([]byte{2}, make([]byte, 32)...) // x = 0 is not on the curve
	odds := []odd{
		{"private key of 31 bytes (missing left pad)", r.Bytes(31), true},
		{"private key of 30 bytes", r.Bytes(30), true},
		{"private key of 1 byte", []byte{9}, true},
		{"private key of 33 bytes", append([]byte{0}, r.Bytes(32)...), true},
		{"private key of 40 bytes", r.Bytes(40), true},
		{"private key with a leading zero byte", append([]byte{0}, r.Bytes(31)...), true},
		{"private key empty (nil)", nil, true},
		{"private key of 32 zero bytes", make([]byte, 32), true},
		{"public key with format byte 05", bad, false},
		{"public key off the curve", offc, false},
		{"public key, uncompressed 65 bytes", gpub.SerializeUncompressed(), false},
		{"public key of 32 bytes", r.Bytes(32), false},
	}
	for _, od := range odds {
		for _, i := range []uint32{0, 5, H - 1, H, H + 7, 0xffffffff} {
			ver := nets[r.Intn(len(nets))].HDPrivateKeyID[:]
			if !od.priv {
				ver = nets[r.Intn(len(nets))].HDPublicKeyID[:]
			}
			k := hdkeychain.NewExtendedKey(ver, od.key, r.Bytes(32), r.Bytes(4), uint8(r.Intn(255)), r.U32(), od.priv)
			f := k.VerifFields()
			var ch *hdkeychain.ExtendedKey
			var err error
			if p, _ := vh.Catch(func() { ch, err = k.Child(i) }); p {
				continue // outside the property's domain
			}
			rep.Count("child_odd", od.what+fmt.Sprint(i), false)
			o := hdref.NewOracle()
			childOracle(o, f, i)
			cases.Add(fmt.Sprintf("Child %s %s %d %s", o.Coq(), coqKey(f), i, coqRes(ch, err)),
				map[string]interface{}{"op": "Child on " + od.what, "parent": descKey(f), "index": i, "impl_class": errClass(err)})
		}
		k := hdkeychain.NewExtendedKey(nets[0].HDPrivateKeyID[:], od.key, r.Bytes(32), r.Bytes(4), 3, 4, od.priv)
		if p, _ := vh.Catch(func() { _ = k.String() }); !p {
			nodeCases(k, false, od.what)
		}
	}
	// error precedence at depth 255: the depth guard comes before the hardened-from-public guard and before any parsing
	for _, od := range []odd{{"public key at depth 255", good33(r), false}, {"public key off the curve at depth 255", offc, false}, {"private key at depth 255", r.Bytes(32), true}} {
		for _, i := range []uint32{0, H - 1, H, 0xffffffff} {
			ver := nets[0].HDPrivateKeyID[:]
			if !od.priv {
				ver = nets[0].HDPublicKeyID[:]
			}
			k := hdkeychain.NewExtendedKey(ver, od.key, r.Bytes(32), r.Bytes(4), 255, r.U32(), od.priv)
			ch, err := k.Child(i)
			rep.Count("guard_depth", od.what+fmt.Sprint(i), true)
			if err != hdkeychain.ErrDeriveBeyondMaxDepth {
				rep.Violate("C04:guard:depth", "Child at depth 255 did not return ErrDeriveBeyondMaxDepth", map[string]interface{}{"key": od.what, "index": i, "err": fmt.Sprint(err)})
			}
			cases.Add(fmt.Sprintf("Child no_oracle %s %d %s", coqKey(k.VerifFields()), i, coqRes(ch, err)), map[string]interface{}{"op": "Child(depth 255) on " + od.what, "index": i})
		}
	}
	// unknown version: Neuter must fail with ErrUnknownHDKeyID; zero-length key prints the zeroed marker
	k := hdkeychain.NewExtendedKey([]byte{1, 2, 3, 4}, r.Bytes(32), r.Bytes(32), r.Bytes(4), 1, 1, true)
	nk, err := k.Neuter()
	o := hdref.NewOracle()
	pubOracle(o, k.VerifFields())
	cases.Add(fmt.Sprintf("Neuter %s %s %s", o.Coq(), coqKey(k.VerifFields()), coqRes(nk, err)), map[string]interface{}{"op": "Neuter(unknown version)"})
	k = hdkeychain.NewExtendedKey([]byte{4, 136, 173}, r.Bytes(32), r.Bytes(32), r.Bytes(4), 1, 1, true)
	nk, err = k.Neuter()
	o = hdref.NewOracle()
	pubOracle(o, k.VerifFields())
	cases.Add(fmt.Sprintf("Neuter %s %s %s", o.Coq(), coqKey(k.VerifFields()), coqRes(nk, err)), map[string]interface{}{"op": "Neuter(3-byte version)"})
	k = hdkeychain.NewExtendedKey(nets[0].HDPrivateKeyID[:], nil, r.Bytes(32), r.Bytes(4), 1, 1, true)
	cases.Add(fmt.Sprintf("Str no_oracle %s %s", coqKey(k.VerifFields()), vh.CoqStr(k.String())), map[string]interface{}{"op": "String(empty key)"})

	// String is a plain concatenation of whatever the fields hold (NewExtendedKey performs no checks): fields of
	// unusual lengths, depth / child number at the top of their ranges
	for _, sh := range []struct{ v, f, c int }{{3, 4, 32}, {5, 4, 32}, {4, 3, 32}, {4, 5, 32}, {4, 4, 31}, {4, 4, 33}, {0, 0, 0}, {4, 4, 32}} {
		for _, priv := range []bool{true, false} {
			key := r.Bytes(32)
			if !priv {
				key = good33(r)
			}
			k := hdkeychain.NewExtendedKey(r.Bytes(sh.v), key, r.Bytes(sh.c), r.Bytes(sh.f), 255, 0xffffffff, priv)
			if p, _ := vh.Catch(func() { _ = k.String() }); p {
				continue
			}
			o := hdref.NewOracle()
			pubOracle(o, k.VerifFields())
			cases.Add(fmt.Sprintf("Str %s %s %s", o.Coq(), coqKey(k.VerifFields()), vh.CoqStr(k.String())),
				map[string]interface{}{"op": "String(fields of unusual lengths)", "version_len": sh.v, "fp_len": sh.f, "chain_len": sh.c, "private": priv})
		}
	}

	// paddedAppend, IsForNet, SetNet
	for size := 0; size <= 34; size += 2 {
		for _, l := range []int{0, 1, 31, 32, 33} {
			dst, src := r.Bytes(r.Intn(4)), r.Bytes(l)
			out := hdkeychain.VerifPaddedAppend(uint(size), append([]byte{}, dst...), src)
			cases.Add(fmt.Sprintf("PadApp %s %s %s %s", vh.CoqNat(size), vh.CoqBytes(dst), vh.CoqBytes(src), vh.CoqBytes(out)), map[string]interface{}{"op": "paddedAppend", "size": size, "src_len": l})
		}
	}
	for a := range nets {
		for b := range nets {
			for _, priv := range []bool{true, false} {
				ver := nets[a].HDPublicKeyID[:]
				if priv {
					ver = nets[a].HDPrivateKeyID[:]
				}
				k := hdkeychain.NewExtendedKey(append([]byte{}, ver...), r.Bytes(32), r.Bytes(32), r.Bytes(4), 1, 1, priv)
				f := k.VerifFields()
				cases.Add(fmt.Sprintf("ForNet %s %d %s", coqKey(f), b, vh.CoqBool(k.IsForNet(nets[b]))), map[string]interface{}{"op": "IsForNet", "a": nets[a].Name, "b": nets[b].Name})
				k.SetNet(nets[b])
				cases.Add(fmt.Sprintf("SetNet %s %d %s", coqKey(f), b, coqKey(k.VerifFields())), map[string]interface{}{"op": "SetNet", "a": nets[a].Name, "b": nets[b].Name})
			}
		}
	}
}

func good33(r *vh.RNG) []byte {
	_, p := bchec.PrivKeyFromBytes(bchec.S256(), r.Bytes(32))
	return p.SerializeCompressed()
}

func main() {
	cfg = vh.ParseFlags("C04")
	rep = vh.NewReport(cfg)
	rep.Rule = "a case is non-trivial when it is a derivation step / node observation / master creation from a legal seed that the reference BIP32 implementation marks valid; distinct by (parent key, chain code, index) resp. (seed, net, path)"
	cases = vh.NewCases(cfg, "Run.Run_C04", 120)
	rng := vh.NewRNG(cfg.Seed)

	if cfg.Replay != "" {
		var rp struct {
			Input struct {
				Seed         string       `json:"seed"`
				Net          int          `json:"net_index"`
				Path         []uint32     `json:"path_indices"`
				Hist         []uint32     `json:"children_derived_from_the_same_object_in_order"`
				SetNetTo     *int         `json:"setnet_to"`
				SetNetFrom   int          `json:"setnet_from"`
				SetNetPrefix []uint32     `json:"setnet_prefix"`
				SetNetIdx    [3]uint32    `json:"setnet_children"`
				Explicit     *explicitKey `json:"explicit_key"`
				Untagged     bool         `json:"untagged_build"`
				ParsedAt     *int         `json:"parsed_at"`
				ParsedPublic bool         `json:"parsed_public"`
				Then         string       `json:"then"`
			} `json:"input"`
		}
		b, err := os.ReadFile(cfg.Replay)
		vh.Must(err)
		vh.Must(json.Unmarshal(b, &rp))
		seed, _ := hex.DecodeString(rp.Input.Seed)
		if rp.Input.Untagged {
			twin([]twinJob{{Seed: rp.Input.Seed, Net: rp.Input.Net % len(nets), Path: rp.Input.Path}})
		} else if rp.Input.Explicit != nil {
			explicitWalk(*rp.Input.Explicit, rp.Input.Net%len(nets), rp.Input.Path, walkOpt{})
		} else if rp.Input.SetNetTo != nil {
			setNetRun(seed, rp.Input.SetNetPrefix, rp.Input.SetNetFrom%len(nets), *rp.Input.SetNetTo%len(nets), rp.Input.SetNetIdx, false)
		} else if rp.Input.ParsedAt != nil && *rp.Input.ParsedAt <= len(rp.Input.Path) {
			// an ancestor's replay names the ancestor's path only: extend it as the family does (8 more steps)
			path := append([]uint32{}, rp.Input.Path...)
			if rp.Input.Then != "" {
				path = append(path, 0, H+1, 2, H, 1, 0xffffffff, 3, H-1)
			}
			parsedWalk(seed, rp.Input.Net, path[:*rp.Input.ParsedAt], path[*rp.Input.ParsedAt:], rp.Input.ParsedPublic, false)
		} else if len(rp.Input.Hist) > 0 {
			siblings(seed, rp.Input.Net, rp.Input.Path, rp.Input.Hist, false)
		} else {
			walk(seed, rp.Input.Net, rp.Input.Path, walkOpt{})
		}
		finish()
		return
	}

	// the curve order the model uses, and the local RIPEMD-160 against the library's HASH160
	cases.Add("CurveN "+hdref.Hex(bchec.S256().N), map[string]string{"op": "bchec.S256().N"})
	r := rng.Fork("deps")
	for _, n := range []int{0, 1, 33, 55, 56, 64, 65, 120} {
		m := r.Bytes(n)
		if !bytes.Equal(hdref.Hash160(m), bchutil.Hash160(m)) {
			rep.Violate("C04:dep:hash160", "the harness's RIPEMD-160 disagrees with bchutil.Hash160", map[string]interface{}{"msg": vh.Hex(m)})
		}
	}

	quick := !cfg.Thorough() && !cfg.Search
	corr := !cfg.Search
	opt := func(ce, ne int, pc, sha bool) walkOpt {
		if !corr {
			return walkOpt{}
		}
		return walkOpt{childEvery: ce, nodeEvery: ne, pathCase: pc, shaOracle: sha}
	}

	checkLinkedNets()
	vectors()

	// --- seeds of every length 0..70 and some far outside, all six nets
	r = rng.Fork("seeds")
	for l := 0; l <= 70; l++ {
		walk(r.Bytes(l), l%len(nets), []uint32{randIndex(r)}, opt(1, 0, l%4 == 0, l%8 != 0))
	}
	for _, l := range []int{100, 128, 255, 256, 1000} {
		walk(r.Bytes(l), r.Intn(len(nets)), nil, opt(0, 0, false, true))
	}

	// --- every seed length up to 1200 on the implementation (monitor); a few long ones for the model
	r = rng.Fork("longseeds")
	for l := 71; l <= 1200; l++ {
		seed := r.Bytes(l)
		k, err := hdkeychain.NewMaster(seed, nets[l%len(nets)])
		rep.Count("master", "m"+vh.Hex(seed), false)
		rep.Histogram["seedlen_>64"]++
		if err != hdkeychain.ErrInvalidSeedLen {
			rep.Violate("C04:guard:seedlen", "NewMaster did not refuse a seed outside 16..64 bytes with ErrInvalidSeedLen",
				map[string]interface{}{"seed_len": l, "seed": vh.Hex(seed), "err": fmt.Sprint(err), "net": nets[l%len(nets)].Name, "net_index": l % len(nets)})
		}
		if corr && (l%256 == 16 || l%256 == 40 || l%256 == 64 || l == 1200) {
			cases.Add(fmt.Sprintf("Master no_oracle %s %d %s", vh.CoqBytes(seed), l%len(nets), coqRes(k, err)),
				map[string]interface{}{"op": "NewMaster", "seed_len": l, "impl_class": errClass(err)})
		}
	}

	// --- seed lengths around the powers of two up to 2^17 (a length or bit count narrowed to 8 / 16 bits wraps
	//     back into the legal range there): l and 8*l congruent to 16..64 bytes / 128..512 bits mod 2^8, 2^16
	{
		var ls []int
		for _, base := range []int{1 << 13, 1 << 14, 1 << 15, 1 << 16, 1 << 17} {
			for _, d := range []int{-1, 0, 1, 15, 16, 17, 32, 63, 64, 65} {
				ls = append(ls, base+d)
			}
		}
		ls = append(ls, 3<<15+32, 3<<16+32)
		for _, l := range ls {
			seed := r.Bytes(l)
			_, err := hdkeychain.NewMaster(seed, nets[l%len(nets)])
			rep.Count("master", fmt.Sprint("mlong", l), false)
			rep.Histogram["seedlen_>=8191"]++
			if err != hdkeychain.ErrInvalidSeedLen {
				rep.Violate("C04:guard:seedlen", "NewMaster did not refuse a seed outside 16..64 bytes with ErrInvalidSeedLen",
					map[string]interface{}{"seed_len": l, "seed_is": "deterministic bytes, only the length matters", "seed_sha256_prefix": vh.Hex(bchutil.Hash160(seed)[:4]), "err": fmt.Sprint(err), "net": nets[l%len(nets)].Name, "net_index": l % len(nets)})
			}
		}
	}

	// --- several children of ONE key object, mixed hardened / normal order
	r = rng.Fork("siblings")
	ns := 12
	if cfg.Thorough() {
		ns = 120
	}
	if cfg.Search {
		ns = 1500
	}
	for t := 0; t < ns; t++ {
		var prefix []uint32
		for j := 0; j < r.Intn(3); j++ {
			prefix = append(prefix, randIndex(r))
		}
		idx := []uint32{uint32(r.Intn(100)), H + uint32(r.Intn(100)), randIndex(r), randIndex(r), 0, H, H - 1, 0xffffffff}
		r2 := r.Intn(len(idx))
		idx[0], idx[r2] = idx[r2], idx[0]
		if t%3 == 0 {
			idx = append(idx, idx[0], idx[1])
		}
		siblings(r.Bytes(16+r.Intn(49)), t%len(nets), prefix, idx, corr && t < 16)
	}

	// --- random paths with boundary indices
	r = rng.Fork("paths")
	np := 40
	if cfg.Thorough() {
		np = 250
	}
	if cfg.Search {
		np = 6000
	}
	for p := 0; p < np; p++ {
		l := r.Intn(9)
		if p%10 == 0 {
			l = 10 + r.Intn(30)
		}
		path := make([]uint32, l)
		for j := range path {
			path[j] = randIndex(r)
		}
		seedLen := vh.Pick(r, []int{16, 32, 32, 64, 16 + r.Intn(49)})
		walk(r.Bytes(seedLen), p%len(nets), path, opt(3, 7, true, p%4 != 0))
	}

	// --- depth: a path of 255 steps, then one more (ErrDeriveBeyondMaxDepth)
	r = rng.Fork("deep")
	nd := 1
	if !quick {
		nd = 3
	}
	for d := 0; d < nd; d++ {
		path := make([]uint32, 256)
		for j := range path {
			path[j] = randIndex(r)
		}
		walk(r.Bytes(32), d%len(nets), path[:255], opt(40, 100, true, true)) // exactly depth 255: succeeds
		walk(r.Bytes(32), (d+1)%len(nets), path, opt(0, 0, false, true))     // step 256 must be refused
	}
	// depth 255 reached directly (hook sets the depth field): both private and public
	{
		k, _ := hdkeychain.NewMaster(r.Bytes(32), nets[0])
		k.VerifSetDepth(255)
		for _, i := range []uint32{0, H} {
			ch, err := k.Child(i)
			rep.Count("guard_depth", fmt.Sprint("gd", i), true)
			if err != hdkeychain.ErrDeriveBeyondMaxDepth {
				rep.Violate("C04:guard:depth", "Child at depth 255 did not return ErrDeriveBeyondMaxDepth", map[string]interface{}{"index": i, "err": fmt.Sprint(err)})
			}
			cases.Add(fmt.Sprintf("Child no_oracle %s %d %s", coqKey(k.VerifFields()), i, coqRes(ch, err)), map[string]interface{}{"op": "Child(depth 255)", "index": i})
		}
		k254, _ := hdkeychain.NewMaster(r.Bytes(32), nets[0])
		k254.VerifSetDepth(254)
		ch, err := k254.Child(1)
		if err != nil || ch.Depth() != 255 {
			rep.Violate("C04:guard:depth", "Child at depth 254 must succeed with depth 255", map[string]interface{}{"err": fmt.Sprint(err)})
		} else if corr {
			o := hdref.NewOracle()
			childOracle(o, k254.VerifFields(), 1)
			cases.Add(fmt.Sprintf("Child %s %s %d %s", o.Coq(), coqKey(k254.VerifFields()), 1, coqRes(ch, err)), map[string]interface{}{"op": "Child(depth 254)"})
		}
	}

	// --- targeted: children whose scalar has one / two leading zero bytes, then a hardened and a normal grandchild
	r = rng.Fork("leadingzero")
	n1, n2 := 14, 2
	if !quick {
		n1, n2 = 150, 12
	}
	found1, found2, tries := 0, 0, 0
	for t := 0; t < n1+n2; t++ {
		seed := r.Bytes(32)
		prefix := []uint32{randIndex(r)}
		par := refDerive(seed, prefix)
		if par == nil {
			continue
		}
		bits, max := 248, 6000
		if t >= n1 {
			bits, max = 240, 1500000
		}
		hardened := t%2 == 0
		i, ok := findLeadingZeroChild(par, hardened, r.U32()&0x3fffffff, bits, max)
		tries++
		if !ok {
			continue
		}
		if bits == 248 {
			found1++
		} else {
			found2++
		}
		for gi, g := range []uint32{H + uint32(r.Intn(1000)), uint32(r.Intn(1000))} {
			path := append(append([]uint32{}, prefix...), i, g)
			o := opt(1, 0, true, t%3 != 0)
			if corr && gi == 0 && t%2 == 0 {
				o.nodeAt = 2 // the node whose scalar has the leading zero byte(s)
			}
			walk(seed, t%len(nets), path, o)
		}
	}
	rep.Extra["targeted_leading_zero_children_found"] = map[string]int{"one_zero_byte": found1, "two_zero_bytes": found2, "scans": tries}

	// --- targeted: children with THREE or more leading zero bytes (cached indices; thorough / search scan for fresh ones)
	r = rng.Fork("leadingzero3")
	found3 := 0
	for li, e := range lz3 {
		seed, _ := hex.DecodeString(e.seed)
		par := refDerive(seed, nil)
		if par == nil {
			continue
		}
		sc, st, _ := hdref.CKDprivNoPoint(par, e.index)
		if st != hdref.Valid || sc.BitLen() > 256-8*e.zeros {
			vh.Must(fmt.Errorf("cached leading-zero child %s/%d does not have %d leading zero bytes under the reference", e.seed, e.index, e.zeros))
		}
		found3++
		rep.Histogram["child_scalar_three_or_more_leading_zero_bytes"]++
		lz3Walks(seed, li%len(nets), nil, e.index, r, corr && li < 2)
	}
	if !quick {
		scans := 2
		if cfg.Search {
			scans = 4
		}
		for t := 0; t < scans; t++ {
			seed := r.Bytes(32)
			prefix := []uint32{randIndex(r)}
			par := refDerive(seed, prefix)
			if par == nil {
				continue
			}
			if i, ok := scanLeadingZero(par, t%2 == 0, r.U32()&0x3fffffff, 232, 60000000); ok {
				found3++
				rep.Histogram["child_scalar_three_or_more_leading_zero_bytes"]++
				lz3Walks(seed, t%len(nets), prefix, i, r, false)
			}
		}
	}
	rep.Extra["targeted_children_with_three_or_more_leading_zero_bytes"] = found3

	// --- explicit extended private keys: scalars with 1..31 leading zero bytes, boundary scalars, odd chain codes
	{
		rounds := 1
		if cfg.Thorough() {
			rounds = 4
		}
		if cfg.Search {
			rounds = 20
		}
		explicitFamily(rng.Fork("explicit"), rounds, corr)
		widths := []int{5, 10, 20} // a run of 2g-1 digits contains a group aligned for ANY grouping by g digits: 20 covers g <= 10
		if !quick {
			widths = []int{5, 10, 15, 20, 30}
		}
		zeroGroupFamily(rng.Fork("zerogroups"), rounds, widths, corr)
	}

	// --- chains of PUBLIC derivations (xpub -> child -> grandchild ...), random and deep
	r = rng.Fork("pubchain")
	npc := 12
	if cfg.Thorough() {
		npc = 80
	}
	if cfg.Search {
		npc = 1500
	}
	for t := 0; t < npc; t++ {
		var prefix []uint32
		for j := 0; j < r.Intn(3); j++ {
			prefix = append(prefix, randIndex(r))
		}
		l := 2 + r.Intn(6)
		if t%6 == 0 {
			l = 20 + r.Intn(20)
		}
		path := make([]uint32, l)
		for j := range path {
			path[j] = randIndex(r)
		}
		pubChain(r.Bytes(16+r.Intn(49)), t%len(nets), prefix, path, corr && t < 6)
	}
	// --- targeted: public children whose X coordinate has a leading zero byte, then two more public steps
	r = rng.Fork("leadingzeropub")
	nzp, foundp := 6, 0
	if !quick {
		nzp = 40
	}
	for t := 0; t < nzp; t++ {
		seed := r.Bytes(32)
		prefix := []uint32{randIndex(r)}
		par := refDerive(seed, prefix)
		if par == nil {
			continue
		}
		i, ok := findLeadingZeroPub(par, r.U32()&0x3fffffff, 6000)
		if !ok {
			continue
		}
		foundp++
		pubChain(seed, t%len(nets), prefix, []uint32{i, uint32(r.Intn(1000)), uint32(r.Intn(1000))}, corr && t < 4)
		walk(seed, t%len(nets), append(append([]uint32{}, prefix...), i, uint32(r.Intn(1000))), opt(1, 0, t%2 == 0, true))
	}
	rep.Extra["targeted_public_children_with_leading_zero_X_found"] = foundp

	// --- trees below a key obtained from NewKeyFromString (xprv and xpub), ancestors re-observed after every step
	r = rng.Fork("parsed")
	npw := 10
	if cfg.Thorough() {
		npw = 60
	}
	if cfg.Search {
		npw = 800
	}
	for t := 0; t < npw; t++ {
		var prefix []uint32
		for j := 0; j < r.Intn(3); j++ {
			prefix = append(prefix, randIndex(r))
		}
		path := make([]uint32, 2+r.Intn(5))
		for j := range path {
			path[j] = randIndex(r)
		}
		parsedWalk(r.Bytes(16+r.Intn(49)), t%len(nets), prefix, path, t%2 == 1, corr && t < 4)
	}

	// --- SetNet, then derivation: every ordered pair of networks
	r = rng.Fork("setnet")
	for a := range nets {
		for b := range nets {
			setNetThenChild(r, a, b, corr && (a+b)%4 == 1)
		}
	}

	// --- the same observations in the build users get (no `verif` tag): cmd/c04/untagged through `go run`
	{
		perNet := 1
		if !quick {
			perNet = 6
		}
		twin(twinJobs(rng.Fork("twin"), perNet))
	}

	if corr {
		oddKeys(rng.Fork("odd"))
	}
	finish()
}

func finish() {
	rep.Extra["spec_gap_events_seen"] = gapsSeen
	if !cfg.Search { // search mode is monitor-only
		rep.Cases = cases.Len()
		rep.Extra["duplicate_cases_dropped"] = cases.Dups
		_, err := cases.Flush()
		vh.Must(err)
	}
	vh.Must(rep.Write(cfg))
	fmt.Printf("c04: %d implementation executions, %d correspondence cases, %d monitor violations\n", rep.Evaluations, rep.Cases, len(rep.Violations))
}

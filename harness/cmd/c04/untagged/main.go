// Command untagged is the "shipped-build twin" of cmd/c04: it is compiled WITHOUT the `verif` build tag (so without
// the hook files, and WITH every file that is constrained `!verif`), uses only the public API of hdkeychain, reads
// derivation jobs from stdin and prints what the implementation returns.  cmd/c04 runs it (`go run`, same module file
// and environment as the harness itself) and compares every line with the independent BIP32 reference: the binary the
// monitors observe must not differ from the binary users build (red team, round 3: a `//go:build !verif` file).
package main

import (
	"encoding/hex"
	"encoding/json"
	"fmt"
	"os"

	"github.com/gcash/bchd/chaincfg"
	"github.com/gcash/bchutil/hdkeychain"
)

type job struct {
	Seed string   `json:"seed"`
	Net  int      `json:"net"`
	Path []uint32 `json:"path"`
}

// node: what the shipped build says about the key at Path[:Step]
type node struct {
	Job      int      `json:"job"`
	Step     int      `json:"step"`
	Err      string   `json:"err,omitempty"`
	Priv     string   `json:"priv,omitempty"`
	Pub      string   `json:"pub,omitempty"`
	NeutErr  string   `json:"neuter_err,omitempty"`
	Addr     string   `json:"addr,omitempty"`
	Reparsed string   `json:"reparsed,omitempty"`   // NewKeyFromString(Priv).String()
	PubChild string   `json:"pub_child,omitempty"`  // Neuter().Child(0).String()
	SweepPrv []string `json:"sweep_priv,omitempty"` // after SetNet(net b), b = 0..5, on the same object
	SweepPub []string `json:"sweep_pub,omitempty"`  // ... and its neutered form ("error: ..." when Neuter fails)
}

var nets = []*chaincfg.Params{&chaincfg.MainNetParams, &chaincfg.TestNet3Params, &chaincfg.TestNet4Params,
	&chaincfg.ChipNetParams, &chaincfg.RegressionNetParams, &chaincfg.SimNetParams}

func main() {
	var jobs []job
	if err := json.NewDecoder(os.Stdin).Decode(&jobs); err != nil {
		fmt.Fprintln(os.Stderr, "untagged: bad input:", err)
		os.Exit(2)
	}
	// the identifiers the linked chaincfg holds after every init function of this build has run
	type ids struct {
		Name      string `json:"name"`
		Priv, Pub string
	}
	var linked []ids
	for _, n := range nets {
		linked = append(linked, ids{n.Name, hex.EncodeToString(n.HDPrivateKeyID[:]), hex.EncodeToString(n.HDPublicKeyID[:])})
	}
	var out []node
	for ji, j := range jobs {
		seed, _ := hex.DecodeString(j.Seed)
		k, err := hdkeychain.NewMaster(seed, nets[j.Net%len(nets)])
		for step := 0; ; step++ {
			nd := node{Job: ji, Step: step}
			if err != nil {
				nd.Err = err.Error()
				out = append(out, nd)
				break
			}
			nd.Priv = k.String()
			if p, e := hdkeychain.NewKeyFromString(nd.Priv); e != nil {
				nd.Reparsed = "error: " + e.Error()
			} else {
				nd.Reparsed = p.String()
			}
			if nk, e := k.Neuter(); e != nil {
				nd.NeutErr = e.Error()
			} else {
				nd.Pub = nk.String()
				if c, e := nk.Child(0); e == nil {
					nd.PubChild = c.String()
				}
			}
			if a, e := k.Address(nets[j.Net%len(nets)]); e == nil {
				nd.Addr = a.EncodeAddress()
			}
			for b := range nets {
				k.SetNet(nets[b])
				nd.SweepPrv = append(nd.SweepPrv, k.String())
				if nk, e := k.Neuter(); e != nil {
					nd.SweepPub = append(nd.SweepPub, "error: "+e.Error())
				} else {
					nd.SweepPub = append(nd.SweepPub, nk.String())
				}
			}
			k.SetNet(nets[j.Net%len(nets)])
			out = append(out, nd)
			if step >= len(j.Path) {
				break
			}
			k, err = k.Child(j.Path[step])
		}
	}
	json.NewEncoder(os.Stdout).Encode(map[string]interface{}{"linked_ids": linked, "nodes": out})
}

package hdref

// Arithmetic construction of extended-key serialisations with chosen digit patterns, and the HD
// version identifiers of bchd's chaincfg as constants (round 3, red team).  Nothing here calls the
// repository under test.

import (
	"bytes"
	"math/big"
)

// HDVersion is the pair of extended-key version identifiers of one network.
type HDVersion struct {
	Name      string
	Priv, Pub [4]byte
}

// KnownHDVersions: the identifiers bchd v0.20.0 declares in chaincfg/params.go, in the order of Gen/Nets.v
// (mainnet, testnet3, testnet4, chipnet, regtest, simnet).  The harness compares the LINKED chaincfg
// with these (nothing in the repository under test may rewrite them) and uses them, not the linked values,
// as the reference version of every serialised key.
var KnownHDVersions = []HDVersion{
	{"mainnet", [4]byte{0x04, 0x88, 0xad, 0xe4}, [4]byte{0x04, 0x88, 0xb2, 0x1e}},
	{"testnet3", [4]byte{0x04, 0x35, 0x83, 0x94}, [4]byte{0x04, 0x35, 0x87, 0xcf}},
	{"testnet4", [4]byte{0x04, 0x35, 0x83, 0x94}, [4]byte{0x04, 0x35, 0x87, 0xcf}},
	{"chipnet", [4]byte{0x04, 0x35, 0x83, 0x94}, [4]byte{0x04, 0x35, 0x87, 0xcf}},
	{"regtest", [4]byte{0x04, 0x35, 0x83, 0x94}, [4]byte{0x04, 0x35, 0x87, 0xcf}},
	{"simnet", [4]byte{0x04, 0x20, 0xb9, 0x00}, [4]byte{0x04, 0x20, 0xbd, 0x3a}},
}

// KnownPrivToPub is chaincfg.HDPrivateKeyToPublicKeyID on the constants.
func KnownPrivToPub(v []byte) ([]byte, bool) {
	for _, id := range KnownHDVersions {
		if bytes.Equal(v, id.Priv[:]) {
			return append([]byte{}, id.Pub[:]...), true
		}
	}
	return nil, false
}

func pow58(e int) *big.Int { return new(big.Int).Exp(big.NewInt(58), big.NewInt(int64(e)), nil) }
func pow2(e int) *big.Int  { return new(big.Int).Lsh(big.NewInt(1), uint(e)) }

// ZeroRunPayload builds the 78-byte payload of a PRIVATE extended key whose 82-byte serialisation
// (payload || first four bytes of SHA-256d) has base-58 digits d[lo..hi-1] all zero (digit 0 = least
// significant; lo, hi multiples of five for runs aligned with a five-digits-per-division encoder),
// whatever the checksum turns out to be.  base78 is any valid private payload (its version, depth,
// fingerprint, child number survive when the run lies below them); rnd supplies random bytes.
//
// No search: with V = payload*2^32 (+ checksum c < 2^32), T = 58^hi, M = 58^lo the run is
// "V mod T < M"; the digits below lo are put into [2^32, M - 2^33] so that adding any c cannot carry
// into the run, and, depending on where the run lies,
//
//	hi <= 45        : the run lies inside the key; the key's top bit is set so that clearing digits cannot borrow from byte 45;
//	lo >= 55        : the digits below lo are SOLVED so that the low 296 bits are 00 || key || 00000000 of base78;
//	otherwise       : a multiple y*T is added with y = (wanted - current) / 2^hi * (29^hi)^-1 mod 2^(296-hi), which
//	                  makes byte 45 zero and the key < 2^255 without touching digits below hi.
//
// ok is false when a side condition failed (key 0 or >= n, value too long): the caller retries with other randomness.
func ZeroRunPayload(base78 []byte, rnd func(int) []byte, lo, hi int) (payload []byte, ok bool) {
	if len(base78) != 78 || base78[45] != 0 || lo < 10 || hi <= lo || hi > 105 {
		return nil, false
	}
	b := append([]byte{}, base78...)
	if hi <= 45 {
		b[46] = 0x80 | b[46]&0x3f
	}
	V0 := new(big.Int).SetBytes(append(b, 0, 0, 0, 0))
	T, M := pow58(hi), pow58(lo)
	Top := new(big.Int).Div(V0, T)
	// digits below lo: anything in [2^32, M - 2^33]
	L := new(big.Int).SetBytes(rnd(80))
	L.Mod(L, new(big.Int).Sub(M, pow2(34)))
	L.Add(L, pow2(32))
	V := new(big.Int)
	switch {
	case hi <= 45:
		L.Mod(new(big.Int).Mod(V0, M), new(big.Int).Sub(M, pow2(34))) // keep the base's low digits where possible
		L.Add(L, pow2(32))
		V.Mul(Top, T).Add(V, L)
	case lo >= 55:
		two296 := pow2(296)
		X := new(big.Int).Mod(V0, two296) // 00 || key || 00000000
		L.Mul(Top, T)
		L.Sub(X, L).Mod(L, two296)
		room := new(big.Int).Rsh(M, 296)
		room.Sub(room, big.NewInt(2))
		if room.Sign() <= 0 {
			return nil, false
		}
		l := new(big.Int).SetBytes(rnd(48))
		l.Mod(l, room)
		L.Add(L, l.Lsh(l, 296))
		if L.Cmp(pow2(32)) < 0 {
			return nil, false
		}
		V.Mul(Top, T).Add(V, L)
	default:
		V1 := new(big.Int).Mul(Top, T)
		V1.Add(V1, L)
		two296 := pow2(296)
		cur := new(big.Int).Mod(V1, two296)
		low := new(big.Int).Mod(V1, pow2(hi))
		x := new(big.Int).SetBytes(rnd(40))
		x.Mod(x, pow2(287-hi))
		X := new(big.Int).Lsh(x, uint(hi))
		X.Add(X, low)
		mod := pow2(296 - hi)
		d := new(big.Int).Sub(X, cur)
		d.Mod(d, two296)
		d.Rsh(d, uint(hi)) // exact: X and cur agree on the low hi bits
		inv := new(big.Int).ModInverse(new(big.Int).Exp(big.NewInt(29), big.NewInt(int64(hi)), mod), mod)
		if inv == nil {
			return nil, false
		}
		y := d.Mul(d, inv)
		y.Mod(y, mod)
		V.Mul(y, T).Add(V, V1)
	}
	if V.BitLen() > 656 {
		return nil, false
	}
	out := V.FillBytes(make([]byte, 82))
	payload = out[:78]
	k := new(big.Int).SetBytes(payload[46:78])
	if payload[45] != 0 || k.Sign() == 0 || k.Cmp(N) >= 0 {
		return nil, false
	}
	return payload, true
}

// HasZeroRun reports whether the base-58 digits lo..hi-1 (counted from the end of the string) of s are all '1'.
func HasZeroRun(s string, lo, hi int) bool {
	if len(s) < hi {
		return false
	}
	for i := lo; i < hi; i++ {
		if s[len(s)-1-i] != '1' {
			return false
		}
	}
	return true
}

// Package hdref is an independent reference implementation of BIP32 written from the BIP text
// (math/big for arithmetic, bchec only for the secp256k1 group operations, crypto/hmac+sha512,
// crypto/sha256, and a local RIPEMD-160 and Base58), plus the recorder that turns every primitive
// call into an oracle-table entry for the Coq model (HD/HDRun.v).  It shares no code with
// hdkeychain, base58 or bchutil.Hash160.  Used by cmd/c04 and cmd/c05.
package hdref

import (
	"bytes"
	"crypto/hmac"
	"crypto/sha256"
	"crypto/sha512"
	"encoding/binary"
	"fmt"
	"math/big"
	"strings"

	"github.com/gcash/bchd/bchec"
)

// ---------------------------------------------------------------- points
// Point is an affine point as Go's curve code represents it; (0,0) is the point at infinity.
type Point struct{ X, Y *big.Int }

func (p Point) Inf() bool { return p.X.Sign() == 0 || p.Y.Sign() == 0 }
func (p Point) coq() string {
	return "(" + Hex(p.X) + ", " + Hex(p.Y) + ")"
}

// Hex renders a non-negative integer as a Coq hexadecimal literal (much cheaper to parse than decimal).
func Hex(v *big.Int) string { return "0x" + v.Text(16) }

// SerP is the BIP's serP: 0x02/0x03 by parity of y, then the 32-byte big-endian x.
func SerP(p Point) []byte {
	out := make([]byte, 33)
	out[0] = 2 + byte(p.Y.Bit(0))
	p.X.FillBytes(out[1:])
	return out
}

var N = bchec.S256().N

// ---------------------------------------------------------------- oracle recorder
type Oracle struct {
	hmacE, mulE, addE, parseE, h160E, dshaE []string
	seen                                    map[string]bool
	RecordDSha                              bool
}

func NewOracle() *Oracle { return &Oracle{seen: map[string]bool{}} }

func coqBytes(b []byte) string {
	if len(b) == 0 {
		return "[]"
	}
	var sb strings.Builder
	sb.WriteByte('[')
	for i, x := range b {
		if i > 0 {
			sb.WriteByte(';')
		}
		fmt.Fprintf(&sb, "%d", x)
	}
	sb.WriteByte(']')
	return sb.String()
}

func (o *Oracle) add(list *[]string, e string) {
	if o == nil || o.seen[e] {
		return
	}
	o.seen[e] = true
	*list = append(*list, e)
}

func (o *Oracle) HMAC(key, data []byte) []byte {
	m := hmac.New(sha512.New, key)
	m.Write(data)
	out := m.Sum(nil)
	if o != nil {
		o.add(&o.hmacE, "(("+coqBytes(key)+", "+coqBytes(data)+"), "+coqBytes(out)+")")
	}
	return out
}

// Mul is point(k): k*G for the integer k (as bchec computes it from k's big-endian bytes).
func (o *Oracle) Mul(k *big.Int) Point {
	x, y := bchec.S256().ScalarBaseMult(k.Bytes())
	p := Point{x, y}
	if o != nil {
		o.add(&o.mulE, "("+Hex(k)+", "+p.coq()+")")
	}
	return p
}

func (o *Oracle) Add(a, b Point) Point {
	x, y := bchec.S256().Add(a.X, a.Y, b.X, b.Y)
	p := Point{x, y}
	if o != nil {
		o.add(&o.addE, "(("+a.coq()+", "+b.coq()+"), "+p.coq()+")")
	}
	return p
}

// Parse is bchec.ParsePubKey (format byte, decompression, on-curve test).
func (o *Oracle) Parse(b []byte) (Point, bool) {
	pk, err := bchec.ParsePubKey(b, bchec.S256())
	if err != nil {
		if o != nil {
			o.add(&o.parseE, "("+coqBytes(b)+", None)")
		}
		return Point{new(big.Int), new(big.Int)}, false
	}
	p := Point{pk.X, pk.Y}
	if o != nil {
		o.add(&o.parseE, "("+coqBytes(b)+", Some "+p.coq()+")")
	}
	return p, true
}

func (o *Oracle) H160(b []byte) []byte {
	out := Hash160(b)
	if o != nil {
		o.add(&o.h160E, "("+coqBytes(b)+", "+coqBytes(out)+")")
	}
	return out
}

func (o *Oracle) DSha(b []byte) []byte {
	h := sha256.Sum256(b)
	h2 := sha256.Sum256(h[:])
	if o != nil && o.RecordDSha {
		o.add(&o.dshaE, "("+coqBytes(b)+", "+coqBytes(h2[:])+")")
	}
	return h2[:]
}

func lst(xs []string) string {
	if len(xs) == 0 {
		return "[]"
	}
	return "[" + strings.Join(xs, "; ") + "]"
}

// Coq renders the recorded tables as a term of HDRun.oracle.
func (o *Oracle) Coq() string {
	if o == nil {
		return "no_oracle"
	}
	return "(mk_oracle " + lst(o.hmacE) + " " + lst(o.mulE) + " " + lst(o.addE) + " " + lst(o.parseE) + " " + lst(o.h160E) + " " + lst(o.dshaE) + ")"
}

func (o *Oracle) Size() int {
	return len(o.hmacE) + len(o.mulE) + len(o.addE) + len(o.parseE) + len(o.h160E) + len(o.dshaE)
}

// ---------------------------------------------------------------- BIP32, from the text
func Ser32(i uint32) []byte {
	var b [4]byte
	binary.BigEndian.PutUint32(b[:], i)
	return b[:]
}
func Ser256(p *big.Int) []byte   { return p.FillBytes(make([]byte, 32)) }
func Parse256(b []byte) *big.Int { return new(big.Int).SetBytes(b) }

// Node is an extended key of the specification with its serialisation metadata.
type Node struct {
	K     *big.Int // private key, nil for an extended public key
	P     Point    // public key
	C     []byte   // chain code
	Depth int
	FP    []byte // parent fingerprint
	Index uint32
}

type Status int

const (
	Valid Status = iota
	Invalid
	HardenedFromPublic
)

// Master: I = HMAC-SHA512(Key = "Bitcoin seed", Data = S); IL = 0 or >= n is invalid.
func Master(o *Oracle, seed []byte) (*Node, Status) {
	I := o.HMAC([]byte("Bitcoin seed"), seed)
	k := Parse256(I[:32])
	if k.Sign() == 0 || k.Cmp(N) >= 0 {
		return nil, Invalid
	}
	return &Node{K: k, P: o.Mul(k), C: I[32:], Depth: 0, FP: []byte{0, 0, 0, 0}, Index: 0}, Valid
}

// Gap describes the two places where the code's validity test differs from the BIP's text.
type Gap struct{ ILZero, ChildZero bool }

// CKDpriv((kpar, cpar), i) -> (ki, ci)
func CKDpriv(o *Oracle, par *Node, i uint32) (*Node, Status, Gap) {
	var data []byte
	if i >= 1<<31 {
		data = append(append([]byte{0}, Ser256(par.K)...), Ser32(i)...)
	} else {
		data = append(SerP(par.P), Ser32(i)...)
	}
	I := o.HMAC(par.C, data)
	il := Parse256(I[:32])
	ki := new(big.Int).Add(il, par.K)
	ki.Mod(ki, N)
	g := Gap{ILZero: il.Sign() == 0, ChildZero: il.Cmp(N) < 0 && ki.Sign() == 0}
	if il.Cmp(N) >= 0 || ki.Sign() == 0 {
		return nil, Invalid, g
	}
	return &Node{K: ki, P: o.Mul(ki), C: I[32:], Depth: par.Depth + 1, FP: o.H160(SerP(par.P))[:4], Index: i}, Valid, g
}

// CKDprivNoPoint computes only the child scalar (no EC operation, nothing recorded): used to scan indices.
func CKDprivNoPoint(par *Node, i uint32) (*big.Int, Status, Gap) {
	var data []byte
	if i >= 1<<31 {
		data = append(append([]byte{0}, Ser256(par.K)...), Ser32(i)...)
	} else {
		data = append(SerP(par.P), Ser32(i)...)
	}
	var o *Oracle
	I := o.HMAC(par.C, data)
	il := Parse256(I[:32])
	ki := new(big.Int).Add(il, par.K)
	ki.Mod(ki, N)
	g := Gap{ILZero: il.Sign() == 0, ChildZero: il.Cmp(N) < 0 && ki.Sign() == 0}
	if il.Cmp(N) >= 0 || ki.Sign() == 0 {
		return nil, Invalid, g
	}
	return ki, Valid, g
}

// CKDpub((Kpar, cpar), i) -> (Ki, ci)
func CKDpub(o *Oracle, par *Node, i uint32) (*Node, Status, Gap) {
	if i >= 1<<31 {
		return nil, HardenedFromPublic, Gap{}
	}
	I := o.HMAC(par.C, append(SerP(par.P), Ser32(i)...))
	il := Parse256(I[:32])
	g := Gap{ILZero: il.Sign() == 0}
	if il.Cmp(N) >= 0 {
		return nil, Invalid, g
	}
	pil := o.Mul(il)
	// the model parses the parent's serialised point before adding
	ppar, _ := o.Parse(SerP(par.P))
	ki := o.Add(pil, ppar)
	if ki.Inf() {
		g.ChildZero = true
		return nil, Invalid, g
	}
	return &Node{P: ki, C: I[32:], Depth: par.Depth + 1, FP: o.H160(SerP(par.P))[:4], Index: i}, Valid, g
}

// Neuter is N((k, c)) = (point(k), c).
func Neuter(n *Node) *Node {
	return &Node{P: n.P, C: n.C, Depth: n.Depth, FP: n.FP, Index: n.Index}
}

// Serialize: 4 version | 1 depth | 4 fingerprint | 4 child number | 32 chain code | 33 key data.
func Serialize(n *Node, version []byte) []byte {
	out := append([]byte{}, version...)
	out = append(out, byte(n.Depth))
	out = append(out, n.FP...)
	out = append(out, Ser32(n.Index)...)
	out = append(out, n.C...)
	if n.K != nil {
		out = append(out, 0)
		out = append(out, Ser256(n.K)...)
	} else {
		out = append(out, SerP(n.P)...)
	}
	return out
}

// String: Base58(payload || first 32 bits of SHA256(SHA256(payload))).
func String(o *Oracle, n *Node, version []byte) string {
	p := Serialize(n, version)
	return B58Encode(append(p, o.DSha(p)[:4]...))
}

// Identifier is HASH160(serP(K)).
func Identifier(o *Oracle, n *Node) []byte { return o.H160(SerP(n.P)) }

// ---------------------------------------------------------------- Base58 (Bitcoin alphabet), from its definition
const b58 = "123456789ABCDEFGHJKLMNPQRSTUVWXYZabcdefghijkmnopqrstuvwxyz"

func B58Encode(b []byte) string {
	x := new(big.Int).SetBytes(b)
	r := new(big.Int)
	base := big.NewInt(58)
	var out []byte
	for x.Sign() > 0 {
		x.DivMod(x, base, r)
		out = append(out, b58[r.Int64()])
	}
	for i := 0; i < len(b) && b[i] == 0; i++ {
		out = append(out, '1')
	}
	for i, j := 0, len(out)-1; i < j; i, j = i+1, j-1 {
		out[i], out[j] = out[j], out[i]
	}
	return string(out)
}

// B58Decode returns ok=false when a character is outside the alphabet.
func B58Decode(s string) ([]byte, bool) {
	x := new(big.Int)
	base := big.NewInt(58)
	for i := 0; i < len(s); i++ {
		k := strings.IndexByte(b58, s[i])
		if k < 0 {
			return nil, false
		}
		x.Mul(x, base)
		x.Add(x, big.NewInt(int64(k)))
	}
	nz := 0
	for nz < len(s) && s[nz] == '1' {
		nz++
	}
	return append(make([]byte, nz), x.Bytes()...), true
}

// ---------------------------------------------------------------- reference parser (what the property requires of a string)
// ParseClass: 0 accept, 7 length, 8 checksum, 6 unusable scalar, 4 bad public key.
func ParseString(o *Oracle, s string) (cls int, payload []byte) {
	d, ok := B58Decode(s)
	if !ok || len(d) != 82 {
		return 7, nil
	}
	payload = d[:78]
	if !bytes.Equal(o.DSha(payload)[:4], d[78:]) {
		return 8, nil
	}
	kd := payload[45:]
	if kd[0] == 0 {
		k := Parse256(kd[1:])
		if k.Sign() == 0 || k.Cmp(N) >= 0 {
			return 6, nil
		}
		return 0, payload
	}
	if _, ok := o.Parse(kd); !ok {
		return 4, nil
	}
	return 0, payload
}

// ---------------------------------------------------------------- HASH160 with a local RIPEMD-160
func Hash160(b []byte) []byte {
	h := sha256.Sum256(b)
	return Ripemd160(h[:])
}

var rmdR = [80]uint{
	0, 1, 2, 3, 4, 5, 6, 7, 8, 9, 10, 11, 12, 13, 14, 15,
	7, 4, 13, 1, 10, 6, 15, 3, 12, 0, 9, 5, 2, 14, 11, 8,
	3, 10, 14, 4, 9, 15, 8, 1, 2, 7, 0, 6, 13, 11, 5, 12,
	1, 9, 11, 10, 0, 8, 12, 4, 13, 3, 7, 15, 14, 5, 6, 2,
	4, 0, 5, 9, 7, 12, 2, 10, 14, 1, 3, 8, 11, 6, 15, 13}
var rmdRp = [80]uint{
	5, 14, 7, 0, 9, 2, 11, 4, 13, 6, 15, 8, 1, 10, 3, 12,
	6, 11, 3, 7, 0, 13, 5, 10, 14, 15, 8, 12, 4, 9, 1, 2,
	15, 5, 1, 3, 7, 14, 6, 9, 11, 8, 12, 2, 10, 0, 4, 13,
	8, 6, 4, 1, 3, 11, 15, 0, 5, 12, 2, 13, 9, 7, 10, 14,
	12, 15, 10, 4, 1, 5, 8, 7, 6, 2, 13, 14, 0, 3, 9, 11}
var rmdS = [80]uint{
	11, 14, 15, 12, 5, 8, 7, 9, 11, 13, 14, 15, 6, 7, 9, 8,
	7, 6, 8, 13, 11, 9, 7, 15, 7, 12, 15, 9, 11, 7, 13, 12,
	11, 13, 6, 7, 14, 9, 13, 15, 14, 8, 13, 6, 5, 12, 7, 5,
	11, 12, 14, 15, 14, 15, 9, 8, 9, 14, 5, 6, 8, 6, 5, 12,
	9, 15, 5, 11, 6, 8, 13, 12, 5, 12, 13, 14, 11, 8, 5, 6}
var rmdSp = [80]uint{
	8, 9, 9, 11, 13, 15, 15, 5, 7, 7, 8, 11, 14, 14, 12, 6,
	9, 13, 15, 7, 12, 8, 9, 11, 7, 7, 12, 7, 6, 15, 13, 11,
	9, 7, 15, 11, 8, 6, 6, 14, 12, 13, 5, 14, 13, 13, 7, 5,
	15, 5, 8, 11, 14, 14, 6, 14, 6, 9, 12, 9, 12, 5, 15, 8,
	8, 5, 12, 9, 12, 5, 14, 6, 8, 13, 6, 5, 15, 13, 11, 11}
var rmdK = [5]uint32{0x00000000, 0x5a827999, 0x6ed9eba1, 0x8f1bbcdc, 0xa953fd4e}
var rmdKp = [5]uint32{0x50a28be6, 0x5c4dd124, 0x6d703ef3, 0x7a6d76e9, 0x00000000}

func rmdF(j int, x, y, z uint32) uint32 {
	switch j / 16 {
	case 0:
		return x ^ y ^ z
	case 1:
		return (x & y) | (^x & z)
	case 2:
		return (x | ^y) ^ z
	case 3:
		return (x & z) | (y & ^z)
	default:
		return x ^ (y | ^z)
	}
}

func rol(x uint32, n uint) uint32 { return x<<n | x>>(32-n) }

// Ripemd160 follows the pseudo-code of the RIPEMD-160 paper (Dobbertin, Bosselaers, Preneel).
func Ripemd160(msg []byte) []byte {
	h := [5]uint32{0x67452301, 0xefcdab89, 0x98badcfe, 0x10325476, 0xc3d2e1f0}
	m := append([]byte{}, msg...)
	m = append(m, 0x80)
	for len(m)%64 != 56 {
		m = append(m, 0)
	}
	var lb [8]byte
	binary.LittleEndian.PutUint64(lb[:], uint64(len(msg))*8)
	m = append(m, lb[:]...)
	for off := 0; off < len(m); off += 64 {
		var x [16]uint32
		for i := range x {
			x[i] = binary.LittleEndian.Uint32(m[off+4*i:])
		}
		a, b, c, d, e := h[0], h[1], h[2], h[3], h[4]
		ap, bp, cp, dp, ep := a, b, c, d, e
		for j := 0; j < 80; j++ {
			t := rol(a+rmdF(j, b, c, d)+x[rmdR[j]]+rmdK[j/16], rmdS[j]) + e
			a, e, d, c, b = e, d, rol(c, 10), b, t
			t = rol(ap+rmdF(79-j, bp, cp, dp)+x[rmdRp[j]]+rmdKp[j/16], rmdSp[j]) + ep
			ap, ep, dp, cp, bp = ep, dp, rol(cp, 10), bp, t
		}
		t := h[1] + c + dp
		h[1] = h[2] + d + ep
		h[2] = h[3] + e + ap
		h[3] = h[4] + a + bp
		h[4] = h[0] + b + cp
		h[0] = t
	}
	out := make([]byte, 20)
	for i, v := range h {
		binary.LittleEndian.PutUint32(out[4*i:], v)
	}
	return out
}

package hdref

import (
	"crypto/sha256"
	"math/rand"
	"testing"
)

// every aligned 5- and 10-digit run from digit 10 to digit 105 can be constructed, survives the checksum, and
// the result is a valid private extended key for the reference parser
func TestZeroRunPayload(t *testing.T) {
	rng := rand.New(rand.NewSource(1))
	rnd := func(n int) []byte {
		b := make([]byte, n)
		rng.Read(b)
		return b
	}
	base := append([]byte{0x04, 0x88, 0xad, 0xe4, 3}, rnd(40)...)
	base = append(base, 0)
	base = append(base, rnd(32)...)
	base[46] &= 0x7f
	for lo := 10; lo <= 100; lo += 5 {
		for _, w := range []int{5, 10, 15} {
			hi := lo + w
			if hi > 105 {
				continue
			}
			okN := 0
			for try := 0; try < 20; try++ {
				p, ok := ZeroRunPayload(base, rnd, lo, hi)
				if !ok {
					continue
				}
				h := sha256.Sum256(p)
				h2 := sha256.Sum256(h[:])
				s := B58Encode(append(append([]byte{}, p...), h2[:4]...))
				if !HasZeroRun(s, lo, hi) {
					t.Fatalf("run %d..%d missing in %s", lo, hi, s)
				}
				if cls, _ := ParseString(nil, s); cls != 0 {
					t.Fatalf("run %d..%d: class %d for %s", lo, hi, cls, s)
				}
				okN++
			}
			if okN < 10 {
				t.Errorf("run %d..%d: only %d of 20 constructions succeeded", lo, hi, okN)
			}
		}
	}
}

package main

// The shipped-build twin (round 3): cmd/c04/untagged is compiled WITHOUT the `verif` tag and run on a sample of
// derivations; everything it prints is compared with the BIP32 reference here.

import (
	"bytes"
	"encoding/json"
	"fmt"
	"os"
	"os/exec"
	"path/filepath"
	"time"

	"github.com/gcash/bchutil"

	"verif/harness/cmd/c04/hdref"
	"verif/harness/internal/vh"
)

type twinJob struct {
	Seed string   `json:"seed"`
	Net  int      `json:"net"`
	Path []uint32 `json:"path"`
}

type twinNode struct {
	Job      int      `json:"job"`
	Step     int      `json:"step"`
	Err      string   `json:"err"`
	Priv     string   `json:"priv"`
	Pub      string   `json:"pub"`
	NeutErr  string   `json:"neuter_err"`
	Addr     string   `json:"addr"`
	Reparsed string   `json:"reparsed"`
	PubChild string   `json:"pub_child"`
	SweepPrv []string `json:"sweep_priv"`
	SweepPub []string `json:"sweep_pub"`
}

type twinOut struct {
	Linked []struct{ Name, Priv, Pub string } `json:"linked_ids"`
	Nodes  []twinNode                         `json:"nodes"`
}

func harnessDir() string {
	if wd, err := os.Getwd(); err == nil {
		if _, err := os.Stat(filepath.Join(wd, "cmd", "c04", "untagged", "main.go")); err == nil {
			return wd
		}
	}
	if exe, err := os.Executable(); err == nil {
		d := filepath.Dir(filepath.Dir(exe))
		if _, err := os.Stat(filepath.Join(d, "cmd", "c04", "untagged", "main.go")); err == nil {
			return d
		}
	}
	return ""
}

// runTwin builds and runs the untagged program; "" + reason when that is not possible here.
func runTwin(jobs []twinJob) (*twinOut, string) {
	dir := harnessDir()
	if dir == "" {
		return nil, "cmd/c04/untagged not found from the working directory (run the harness from /verif/harness)"
	}
	gobin, err := exec.LookPath("go")
	if err != nil {
		return nil, "no go tool in PATH"
	}
	in, _ := json.Marshal(jobs)
	cmd := exec.Command(gobin, "run", "./cmd/c04/untagged") // no -tags: the build users get; GOFLAGS (-modfile) as inherited
	cmd.Dir = dir
	cmd.Stdin = bytes.NewReader(in)
	var stdout, stderr bytes.Buffer
	cmd.Stdout, cmd.Stderr = &stdout, &stderr
	if err := cmd.Start(); err != nil {
		return nil, "go run: " + err.Error()
	}
	done := make(chan error, 1)
	go func() { done <- cmd.Wait() }()
	select {
	case err = <-done:
	case <-time.After(600 * time.Second):
		cmd.Process.Kill()
		return nil, "go run ./cmd/c04/untagged timed out"
	}
	if err != nil {
		msg := stderr.String()
		if len(msg) > 600 {
			msg = msg[:600]
		}
		return nil, "go run ./cmd/c04/untagged failed: " + err.Error() + ": " + msg
	}
	var out twinOut
	if err := json.Unmarshal(stdout.Bytes(), &out); err != nil {
		return nil, "unreadable output of cmd/c04/untagged: " + err.Error()
	}
	return &out, ""
}

func twin(jobs []twinJob) {
	out, why := runTwin(jobs)
	if out == nil {
		rep.Extra["shipped_build_twin"] = "NOT RUN: " + why
		return
	}
	rep.Extra["shipped_build_twin"] = fmt.Sprintf("%d derivations, %d nodes observed in a build without the verif tag", len(jobs), len(out.Nodes))
	const build = "WITHOUT the `verif` build tag (the build users get; cmd/c04/untagged)"
	for i, l := range out.Linked {
		if i < len(hdref.KnownHDVersions) {
			kn := hdref.KnownHDVersions[i]
			rep.Count("linked_net_ids_untagged", l.Name, true)
			if l.Priv != vh.Hex(kn.Priv[:]) || l.Pub != vh.Hex(kn.Pub[:]) {
				rep.Violate("C04:nets:version_ids", "in a build "+build+" a registered network's HD version identifiers are not the ones chaincfg declares",
					map[string]interface{}{"untagged_build": true, "net": l.Name, "net_index": i, "seed": jobs[0].Seed, "path_indices": jobs[0].Path, "linked_private_id": l.Priv, "linked_public_id": l.Pub,
						"declared_private_id": vh.Hex(kn.Priv[:]), "declared_public_id": vh.Hex(kn.Pub[:])})
			}
		}
	}
	for _, nd := range out.Nodes {
		if nd.Job >= len(jobs) || nd.Step > len(jobs[nd.Job].Path) {
			continue
		}
		j := jobs[nd.Job]
		seed := unhexStr(j.Seed)
		path := j.Path[:nd.Step]
		c := ctx{seed: seed, net: j.Net % len(nets), path: path}
		n := refDerive(seed, path)
		if n == nil || nd.Err != "" {
			continue // gap / invalid index: judged by the tagged walk
		}
		rep.Count("untagged_node", fmt.Sprint("un", j.Seed, j.Net, path), true)
		bad := func(key, what string, impl, want string, extra map[string]interface{}) {
			m := map[string]interface{}{"untagged_build": true, "build": build, "impl": impl, "bip32": want}
			for a, b := range extra {
				m[a] = b
			}
			rep.Violate(key, "in a build "+build+": "+what, c.replay(m))
		}
		if want := hdref.String(nil, n, vprivOf(c.net)); nd.Priv != want {
			bad("C04:string:conforms", "String() differs from the BIP32 serialisation of the reference node", nd.Priv, want, nil)
			continue
		} else if nd.Reparsed != want {
			bad("C04:string:conforms", "NewKeyFromString(String()).String() differs from the BIP32 serialisation", nd.Reparsed, want, nil)
		}
		pn := hdref.Neuter(n)
		if want := hdref.String(nil, pn, vpubOf(c.net)); nd.NeutErr != "" || nd.Pub != want {
			bad("C04:neuter:conforms", "Neuter fails or its string is not N((k,c))", nd.Pub+nd.NeutErr, want, nil)
		} else if qn, st, gap := hdref.CKDpub(nil, pn, 0); st == hdref.Valid && !gap.ILZero && !gap.ChildZero {
			if want := hdref.String(nil, qn, vpubOf(c.net)); nd.PubChild != want {
				bad("C04:child:pub_conforms", "Child(0) of the neutered key differs from CKDpub", nd.PubChild, want, nil)
			}
		}
		if a, err := bchutil.NewAddressPubKeyHash(hdref.Identifier(nil, n), nets[c.net]); err == nil && nd.Addr != a.EncodeAddress() {
			bad("C04:address:conforms", "Address() is not the P2PKH address of HASH160(serP(K))", nd.Addr, a.EncodeAddress(), nil)
		}
		for b := range nets {
			if b < len(nd.SweepPrv) {
				if want := hdref.String(nil, n, vprivOf(b)); nd.SweepPrv[b] != want {
					bad("C04:string:conforms", "after SetNet(net) String() is not the BIP32 serialisation under the version bytes chaincfg declares for that network", nd.SweepPrv[b], want, map[string]interface{}{"this_net": nets[b].Name})
					break
				}
			}
			if b < len(nd.SweepPub) {
				if want := hdref.String(nil, pn, vpubOf(b)); nd.SweepPub[b] != want {
					bad("C04:neuter:conforms", "after SetNet(net) Neuter fails or the neutered key does not print under the public version bytes chaincfg declares for that network", nd.SweepPub[b], want, map[string]interface{}{"this_net": nets[b].Name})
					break
				}
			}
		}
	}
}

func unhexStr(s string) []byte {
	b := make([]byte, len(s)/2)
	for i := range b {
		fmt.Sscanf(s[2*i:2*i+2], "%02x", &b[i])
	}
	return b
}

// twinJobs: the BIP32 vectors' deepest paths and, for every network, random seeds with mixed paths.
func twinJobs(r *vh.RNG, perNet int) []twinJob {
	var js []twinJob
	for _, vi := range []int{5, 11, 13} {
		js = append(js, twinJob{Seed: bipVectors[vi].seed, Net: 0, Path: bipVectors[vi].path})
	}
	for t := 0; t < perNet*len(nets); t++ {
		js = append(js, twinJob{Seed: vh.Hex(r.Bytes(vh.Pick(r, []int{16, 32, 64}))), Net: t % len(nets), Path: []uint32{randIndex(r), H + uint32(r.Intn(100)), uint32(r.Intn(100))}})
	}
	return js
}

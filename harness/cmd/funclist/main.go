package main

import (
	"verif/harness/internal/srcsel"
	"fmt"
	"go/ast"
	"go/parser"
	"go/token"
	"os"
	"path/filepath"
	"strings"
)

func main() {
	fset := token.NewFileSet()
	filepath.Walk("/repo", func(path string, info os.FileInfo, err error) error {
		if err != nil { return nil }
		if info.IsDir() {
			if info.Name() == ".git" || info.Name() == "testpb" { return filepath.SkipDir }
			return nil
		}
		n := info.Name()
		if !strings.HasSuffix(n, ".go") || !srcsel.Analysed(path) { return nil }
		f, err := parser.ParseFile(fset, path, nil, 0)
		if err != nil { return nil }
		for _, d := range f.Decls {
			fd, ok := d.(*ast.FuncDecl)
			if !ok || fd.Body == nil { continue }
			name := fd.Name.Name
			recv := ""
			if fd.Recv != nil && len(fd.Recv.List) > 0 {
				t := fd.Recv.List[0].Type
				if st, ok := t.(*ast.StarExpr); ok { t = st.X }
				if id, ok := t.(*ast.Ident); ok { recv = id.Name }
			}
			rel, _ := filepath.Rel("/repo", path)
			lines := fset.Position(fd.End()).Line - fset.Position(fd.Pos()).Line + 1
			fmt.Printf("%s\t%s\t%s\t%d\n", rel, recv, name, lines)
		}
		return nil
	})
}

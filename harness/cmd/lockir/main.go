// Command lockir is the C20 half of the translator: for every method of
// bloom.Filter and gcs.Filter it emits, into coq/theories/Gen/LockIR.v, the
// sequence of lock-relevant events along every syntactic path of the body
// (loops taken 0..3 times in exported methods, 0..1 times in unexported ones).  It only uses go/parser and go/ast; it decides
// nothing: whether the sequences obey the lock discipline is checked in Coq
// (Conc/Conc.v, Props/C20.v).
//
// Events
//
//	Lock / Unlock            recv.<mutex field>.Lock() / .Unlock(); `defer recv.mtx.Unlock()` is an
//	                         Unlock before every Return that follows it
//	RLock / RUnlock          the shared (reader) side of a sync.RWMutex field, same treatment
//	ReadField f              recv.f (or something reached through it, or through a local alias
//	                         `x := recv.f`) is read
//	WriteField f             recv.f, or memory reached through it (recv.f.X[i] |= ..), is assigned
//	CallWorker w             recv.w(..): a method of the same type called with the same receiver
//	PassField f callee       recv.f of reference type (slice, pointer, map, chan, interface, func)
//	                         or its address handed to a function / method
//	PassRecv callee          the receiver itself handed on (or stored, returned, captured)
//	UseArg a                 a parameter of reference type (pointer, slice, map, chan, interface, func, named type)
//	                         is mentioned: memory the CALLER may share with other goroutines (e.g. a *bchutil.Tx
//	                         with an unsynchronised memo) is touched at this point
//	Global g                 a package-level variable g is mentioned (read, written, sliced, passed on): state
//	                         shared by ALL values of the type, which the receiver's mutex does not guard
//	Unsupported what         a construct the translator does not follow (go, select, goto, labels,
//	                         function literals touching the receiver); the Coq checks reject it
//	Return                   end of the path
//
// Besides the methods, three facts about each type are emitted as data (the Coq side decides):
//
//	<t>_mutex_fields      the fields of type sync.Mutex / sync.RWMutex (Lock events do not name the
//	                      mutex; the discipline is only meaningful if there is exactly one)
//	<t>_field_inits       (function, field, parameters) for every initialisation of a reference-typed field of
//	                      the type in a function that is not one of its methods (constructors): the reference-
//	                      typed parameters of that function that flow into the stored value through assignments
//	                      (not through len/cap, not through make/new, not through arguments of method calls on
//	                      locals).  A non-empty list means the new value may ALIAS caller-owned memory.
//	<t>_outside_accesses  for a type that has a mutex: (function, field) for every selector .field
//	                      naming one of the type's fields in a function or method that is NOT a method
//	                      of the type (such code bypasses the per-method discipline; composite literals
//	                      Filter{field: v} in constructors are not selectors and are not listed)
//
// Files carrying the build constraint `verif` (the add-only harness hooks) and
// _test.go files are not part of the library as shipped and are skipped.
package main

import (
	"verif/harness/internal/srcsel"
	"bytes"
	"flag"
	"fmt"
	"go/ast"
	"go/parser"
	"go/token"
	"os"
	"path/filepath"
	"sort"
	"strings"
)

type event struct{ kind, a, b string }

func (e event) coq() string {
	q := func(s string) string { return "\"" + strings.ReplaceAll(s, "\"", "'") + "\"%string" }
	switch e.kind {
	case "Lock", "Unlock", "RLock", "RUnlock", "Return":
		return e.kind
	case "PassField":
		return fmt.Sprintf("PassField %s %s", q(e.a), q(e.b))
	default:
		return fmt.Sprintf("%s %s", e.kind, q(e.a))
	}
}

type path struct {
	ev       []event
	deferred []event // run in reverse order at Return
}

func (p path) add(evs ...event) path {
	n := path{ev: make([]event, 0, len(p.ev)+len(evs)), deferred: p.deferred}
	n.ev = append(n.ev, p.ev...)
	n.ev = append(n.ev, evs...)
	return n
}

func (p path) pushDefer(evs ...event) path {
	n := path{ev: p.ev, deferred: make([]event, 0, len(p.deferred)+len(evs))}
	n.deferred = append(n.deferred, p.deferred...)
	n.deferred = append(n.deferred, evs...)
	return n
}

func (p path) finish() path {
	n := p.add()
	for i := len(p.deferred) - 1; i >= 0; i-- {
		n.ev = append(n.ev, p.deferred[i])
	}
	n.ev = append(n.ev, event{kind: "Return"})
	n.deferred = nil
	return n
}

type outcome struct {
	normal, ret, fall []path
	brk, cont         map[string][]path // by label; "" = innermost
}

func mergeInto(dst *map[string][]path, src map[string][]path) {
	for k, v := range src {
		if len(v) == 0 {
			continue
		}
		if *dst == nil {
			*dst = map[string][]path{}
		}
		(*dst)[k] = append((*dst)[k], v...)
	}
}

// ---- per type information
type typeInfo struct {
	name     string
	mutexes  map[string]bool // fields of type sync.Mutex / sync.RWMutex
	refField map[string]bool // fields of reference type
	fields   map[string]bool
	methods  map[string]*ast.FuncDecl
	pkgVars  map[string]bool // package-level variables of the package (non-test, non-verif files)
}

type walker struct {
	ti      *typeInfo
	recv    string
	aliases map[string]string // local variable -> receiver field it was initialised from
	locals  map[string]bool   // names declared inside the function (they shadow package-level variables)
	refArgs map[string]bool   // parameters of reference type
	maxIter int
}

// global: the event for an identifier that names a package-level variable (and is not shadowed)
func (w *walker) global(name string) []event {
	if w.ti.pkgVars[name] && !w.locals[name] {
		return []event{{kind: "Global", a: name}}
	}
	return nil
}

// refParams: the parameters of fd whose declared type is a reference type
func refParams(fd *ast.FuncDecl) map[string]bool {
	out := map[string]bool{}
	if fd.Type.Params == nil {
		return out
	}
	for _, f := range fd.Type.Params.List {
		if isRefType(f.Type) {
			for _, n := range f.Names {
				if n.Name != "_" {
					out[n.Name] = true
				}
			}
		}
	}
	return out
}

// mentions: does e mention one of the names (outside len/cap arguments, and not at all if e is make/new)?
func mentions(e ast.Expr, names map[string]bool) []string {
	if c, ok := e.(*ast.CallExpr); ok {
		if id, ok := c.Fun.(*ast.Ident); ok && (id.Name == "make" || id.Name == "new") {
			return nil
		}
	}
	seen := map[string]bool{}
	var out []string
	ast.Inspect(e, func(n ast.Node) bool {
		if c, ok := n.(*ast.CallExpr); ok {
			if id, ok := c.Fun.(*ast.Ident); ok && (id.Name == "len" || id.Name == "cap") {
				return false
			}
		}
		if id, ok := n.(*ast.Ident); ok && names[id.Name] && !seen[id.Name] {
			seen[id.Name] = true
			out = append(out, id.Name)
		}
		return true
	})
	return out
}

// fieldInits: initialisations of reference-typed fields of the type in the non-method function fd, each with the
// reference-typed parameters that flow into the stored value (assignment-based taint, to a fixpoint)
func fieldInits(ti *typeInfo, fname string, fd *ast.FuncDecl) [][3]string {
	params := refParams(fd)
	// taint[x] = set of parameters flowing into local x
	taint := map[string]map[string]bool{}
	for p := range params {
		taint[p] = map[string]bool{p: true}
	}
	names := func() map[string]bool {
		m := map[string]bool{}
		for k := range taint {
			m[k] = true
		}
		return m
	}
	flow := func(lhs []ast.Expr, rhs []ast.Expr) bool {
		changed := false
		for i, l := range lhs {
			id, ok := l.(*ast.Ident)
			if !ok || id.Name == "_" {
				continue
			}
			var srcs []string
			if len(lhs) == len(rhs) {
				srcs = mentions(rhs[i], names())
			} else {
				for _, r := range rhs {
					srcs = append(srcs, mentions(r, names())...)
				}
			}
			for _, sname := range srcs {
				for pname := range taint[sname] {
					if taint[id.Name] == nil {
						taint[id.Name] = map[string]bool{}
					}
					if !taint[id.Name][pname] {
						taint[id.Name][pname] = true
						changed = true
					}
				}
			}
		}
		return changed
	}
	for changed := true; changed; {
		changed = false
		ast.Inspect(fd.Body, func(n ast.Node) bool {
			switch t := n.(type) {
			case *ast.AssignStmt:
				if flow(t.Lhs, t.Rhs) {
					changed = true
				}
			case *ast.ValueSpec:
				var lhs []ast.Expr
				for _, id := range t.Names {
					lhs = append(lhs, id)
				}
				if len(t.Values) > 0 && flow(lhs, t.Values) {
					changed = true
				}
			case *ast.RangeStmt:
				var lhs []ast.Expr
				for _, l := range []ast.Expr{t.Key, t.Value} {
					if l != nil {
						lhs = append(lhs, l)
					}
				}
				if flow(lhs, []ast.Expr{t.X}) {
					changed = true
				}
			}
			return true
		})
	}
	paramsOf := func(e ast.Expr) string {
		set := map[string]bool{}
		for _, sname := range mentions(e, names()) {
			for pname := range taint[sname] {
				set[pname] = true
			}
		}
		var ps []string
		for pname := range set {
			ps = append(ps, pname)
		}
		sort.Strings(ps)
		return strings.Join(ps, ",")
	}
	var out [][3]string
	ast.Inspect(fd.Body, func(n ast.Node) bool {
		switch t := n.(type) {
		case *ast.AssignStmt:
			for i, l := range t.Lhs {
				if se, ok := l.(*ast.SelectorExpr); ok && ti.refField[se.Sel.Name] {
					var r ast.Expr
					if len(t.Lhs) == len(t.Rhs) {
						r = t.Rhs[i]
					} else if len(t.Rhs) == 1 {
						r = t.Rhs[0]
					}
					if r != nil {
						out = append(out, [3]string{fname, se.Sel.Name, paramsOf(r)})
					}
				}
			}
		case *ast.CompositeLit:
			isT := false
			if id, ok := t.Type.(*ast.Ident); ok && id.Name == ti.name {
				isT = true
			}
			if isT {
				for _, el := range t.Elts {
					if kv, ok := el.(*ast.KeyValueExpr); ok {
						if id, ok := kv.Key.(*ast.Ident); ok && ti.refField[id.Name] {
							out = append(out, [3]string{fname, id.Name, paramsOf(kv.Value)})
						}
					}
				}
			}
		}
		return true
	})
	return out
}

// localNames: every name a function declares (parameters, results, :=, var, range, type switch)
func localNames(fd *ast.FuncDecl) map[string]bool {
	out := map[string]bool{}
	addFields := func(fl *ast.FieldList) {
		if fl == nil {
			return
		}
		for _, f := range fl.List {
			for _, n := range f.Names {
				out[n.Name] = true
			}
		}
	}
	addFields(fd.Recv)
	addFields(fd.Type.Params)
	addFields(fd.Type.Results)
	if fd.Body == nil {
		return out
	}
	ast.Inspect(fd.Body, func(n ast.Node) bool {
		switch t := n.(type) {
		case *ast.AssignStmt:
			if t.Tok == token.DEFINE {
				for _, l := range t.Lhs {
					if id, ok := l.(*ast.Ident); ok {
						out[id.Name] = true
					}
				}
			}
		case *ast.ValueSpec:
			for _, id := range t.Names {
				out[id.Name] = true
			}
		case *ast.RangeStmt:
			if t.Tok == token.DEFINE {
				for _, l := range []ast.Expr{t.Key, t.Value} {
					if id, ok := l.(*ast.Ident); ok {
						out[id.Name] = true
					}
				}
			}
		case *ast.FuncLit:
			addFields(t.Type.Params)
			addFields(t.Type.Results)
		}
		return true
	})
	return out
}

const maxPaths = 200000

// loop bodies are taken 0..maxIter times.  The automaton the Coq checks run over a path has the states
// before-Lock < inside < after-Unlock (monotone), so a violating run needs at most two state-changing iterations
// plus the violating one: any violation reachable with n iterations is reachable with at most 3.
// For unexported methods the checks are per event (which events occur, not in which order or how often), and
// every statement lies on a path that takes each enclosing loop once, so one iteration is enumerated there.
const maxIterExported = 3
const maxIterUnexported = 1

func isRefType(e ast.Expr) bool {
	switch t := e.(type) {
	case *ast.StarExpr, *ast.MapType, *ast.ChanType, *ast.InterfaceType, *ast.FuncType:
		return true
	case *ast.ArrayType:
		return t.Len == nil
	case *ast.Ident:
		switch t.Name {
		case "bool", "string", "int", "int8", "int16", "int32", "int64", "uint", "uint8", "uint16", "uint32", "uint64", "uintptr", "byte", "rune", "float32", "float64", "complex64", "complex128":
			return false
		}
		return true // named type of unknown shape: assume it may hold references
	}
	return true
}

func exprText(e ast.Expr) string {
	switch t := e.(type) {
	case *ast.Ident:
		return t.Name
	case *ast.SelectorExpr:
		return exprText(t.X) + "." + t.Sel.Name
	case *ast.StarExpr:
		return "*" + exprText(t.X)
	case *ast.ParenExpr:
		return exprText(t.X)
	case *ast.IndexExpr:
		return exprText(t.X) + "[]"
	case *ast.CallExpr:
		return exprText(t.Fun) + "()"
	case *ast.FuncLit:
		return "func literal"
	case *ast.ArrayType:
		return "[]" + exprText(t.Elt)
	}
	return fmt.Sprintf("%T", e)
}

// rootField: if e is recv.f followed by any number of selectors/indexes/slices/derefs, return (f, depth)
// where depth = number of steps after recv.f; also follows local aliases (depth counts from the alias).
func (w *walker) rootField(e ast.Expr) (field string, depth int, viaAlias bool, ok bool) {
	switch t := e.(type) {
	case *ast.ParenExpr:
		return w.rootField(t.X)
	case *ast.SelectorExpr:
		if id, isId := t.X.(*ast.Ident); isId && id.Name == w.recv {
			if w.ti.methods[t.Sel.Name] != nil && !w.ti.fields[t.Sel.Name] {
				return "", 0, false, false
			}
			return t.Sel.Name, 0, false, true
		}
		f, d, a, k := w.rootField(t.X)
		return f, d + 1, a, k
	case *ast.IndexExpr:
		f, d, a, k := w.rootField(t.X)
		return f, d + 1, a, k
	case *ast.SliceExpr:
		f, d, a, k := w.rootField(t.X)
		return f, d + 1, a, k
	case *ast.StarExpr:
		f, d, a, k := w.rootField(t.X)
		return f, d + 1, a, k
	case *ast.Ident:
		if f, isAlias := w.aliases[t.Name]; isAlias {
			return f, 0, true, true
		}
	}
	return "", 0, false, false
}

// subIndexEvents: events of index / slice bound expressions inside an lvalue or rooted expression
func (w *walker) subIndexEvents(e ast.Expr) []event {
	switch t := e.(type) {
	case *ast.ParenExpr:
		return w.subIndexEvents(t.X)
	case *ast.SelectorExpr:
		return w.subIndexEvents(t.X)
	case *ast.StarExpr:
		return w.subIndexEvents(t.X)
	case *ast.IndexExpr:
		return append(w.subIndexEvents(t.X), w.expr(t.Index)...)
	case *ast.SliceExpr:
		evs := w.subIndexEvents(t.X)
		for _, b := range []ast.Expr{t.Low, t.High, t.Max} {
			if b != nil {
				evs = append(evs, w.expr(b)...)
			}
		}
		return evs
	}
	return nil
}

func (w *walker) mentionsRecv(n ast.Node) bool {
	found := false
	ast.Inspect(n, func(x ast.Node) bool {
		if id, ok := x.(*ast.Ident); ok && (id.Name == w.recv || w.aliases[id.Name] != "") {
			found = true
		}
		return !found
	})
	return found
}

// expr: events of evaluating e (reads), in source order
func (w *walker) expr(e ast.Expr) []event {
	if e == nil {
		return nil
	}
	if f, depth, viaAlias, ok := w.rootField(e); ok {
		if w.ti.mutexes[f] {
			return []event{{kind: "Unsupported", a: "mutex field " + f + " used other than by Lock/Unlock"}}
		}
		if viaAlias && depth == 0 {
			return nil // the local variable itself; the memory behind it is not touched
		}
		return append(w.subIndexEvents(e), event{kind: "ReadField", a: f})
	}
	switch t := e.(type) {
	case *ast.Ident:
		if t.Name == w.recv {
			return []event{{kind: "PassRecv", a: "receiver used as a value"}}
		}
		if w.refArgs[t.Name] {
			return []event{{kind: "UseArg", a: t.Name}}
		}
		return w.global(t.Name)
	case *ast.BasicLit:
		return nil
	case *ast.ParenExpr:
		return w.expr(t.X)
	case *ast.SelectorExpr:
		return w.expr(t.X)
	case *ast.StarExpr:
		return w.expr(t.X)
	case *ast.UnaryExpr:
		if t.Op == token.AND {
			if f, _, _, ok := w.rootField(t.X); ok {
				return append(w.subIndexEvents(t.X), event{kind: "PassField", a: f, b: "address taken"})
			}
		}
		return w.expr(t.X)
	case *ast.BinaryExpr:
		return append(w.expr(t.X), w.expr(t.Y)...)
	case *ast.IndexExpr:
		return append(w.expr(t.X), w.expr(t.Index)...)
	case *ast.SliceExpr:
		evs := w.expr(t.X)
		for _, b := range []ast.Expr{t.Low, t.High, t.Max} {
			evs = append(evs, w.expr(b)...)
		}
		return evs
	case *ast.TypeAssertExpr:
		return w.expr(t.X)
	case *ast.KeyValueExpr:
		return append(w.expr(t.Key), w.expr(t.Value)...)
	case *ast.CompositeLit:
		var evs []event
		for _, el := range t.Elts {
			evs = append(evs, w.argEvents(el, "composite literal")...)
		}
		return evs
	case *ast.FuncLit:
		if w.mentionsRecv(t.Body) {
			return []event{{kind: "Unsupported", a: "function literal captures the receiver"}}
		}
		return nil
	case *ast.CallExpr:
		return w.call(t)
	case *ast.ArrayType, *ast.MapType, *ast.ChanType, *ast.FuncType, *ast.InterfaceType, *ast.StructType:
		return nil
	}
	return []event{{kind: "Unsupported", a: fmt.Sprintf("expression %T", e)}}
}

// argEvents: an expression handed to someone else (call argument, composite literal element, return value)
func (w *walker) argEvents(e ast.Expr, callee string) []event {
	if id, ok := e.(*ast.Ident); ok && id.Name == w.recv {
		return []event{{kind: "PassRecv", a: callee}}
	}
	if f, depth, viaAlias, ok := w.rootField(e); ok && !w.ti.mutexes[f] {
		evs := w.subIndexEvents(e)
		if !(viaAlias && depth == 0) {
			evs = append(evs, event{kind: "ReadField", a: f})
		}
		// the value handed over is a reference into shared memory when the field is of reference type
		// (depth 0: the field itself; deeper: unknown type, assume so unless it is an indexed element)
		_, isIndex := e.(*ast.IndexExpr)
		if w.ti.refField[f] && !isIndex {
			evs = append(evs, event{kind: "PassField", a: f, b: callee})
		}
		return evs
	}
	return w.expr(e)
}

func (w *walker) call(c *ast.CallExpr) []event {
	// recv.mtx.Lock() / recv.mtx.Unlock()
	if sel, ok := c.Fun.(*ast.SelectorExpr); ok {
		if inner, ok := sel.X.(*ast.SelectorExpr); ok {
			if id, ok := inner.X.(*ast.Ident); ok && id.Name == w.recv && w.ti.mutexes[inner.Sel.Name] {
				switch sel.Sel.Name {
				case "Lock":
					return []event{{kind: "Lock"}}
				case "Unlock":
					return []event{{kind: "Unlock"}}
				case "RLock": // shared (reader) side of a sync.RWMutex
					return []event{{kind: "RLock"}}
				case "RUnlock":
					return []event{{kind: "RUnlock"}}
				}
				return []event{{kind: "Unsupported", a: "mutex operation " + sel.Sel.Name}}
			}
		}
		// recv.method(args)
		if id, ok := sel.X.(*ast.Ident); ok && id.Name == w.recv && w.ti.methods[sel.Sel.Name] != nil {
			var evs []event
			for _, a := range c.Args {
				evs = append(evs, w.argEvents(a, w.ti.name+"."+sel.Sel.Name)...)
			}
			return append(evs, event{kind: "CallWorker", a: sel.Sel.Name})
		}
		// method called on a receiver field (or through it): recv.f.M(args)
		if f, _, _, ok := w.rootField(sel.X); ok && !w.ti.mutexes[f] {
			evs := w.subIndexEvents(sel.X)
			evs = append(evs, event{kind: "ReadField", a: f}, event{kind: "PassField", a: f, b: "method " + sel.Sel.Name})
			for _, a := range c.Args {
				evs = append(evs, w.argEvents(a, exprText(c.Fun))...)
			}
			return evs
		}
	}
	name := exprText(c.Fun)
	if id, ok := c.Fun.(*ast.Ident); ok {
		switch id.Name {
		case "len", "cap":
			var evs []event
			for _, a := range c.Args {
				evs = append(evs, w.expr(a)...)
			}
			return evs
		case "copy":
			if len(c.Args) == 2 {
				var evs []event
				if f, _, _, ok := w.rootField(c.Args[0]); ok {
					evs = append(evs, w.subIndexEvents(c.Args[0])...)
					evs = append(evs, event{kind: "ReadField", a: f}, event{kind: "WriteField", a: f})
				} else {
					evs = append(evs, w.expr(c.Args[0])...)
				}
				return append(evs, w.expr(c.Args[1])...) // the source is only read
			}
		case "panic":
			var evs []event
			for _, a := range c.Args {
				evs = append(evs, w.expr(a)...)
			}
			return append(evs, event{kind: "Unsupported", a: "panic"})
		}
	}
	evs := w.expr(funOperand(c.Fun))
	if id, ok := c.Fun.(*ast.Ident); ok {
		evs = append(evs, w.global(id.Name)...) // call through a package-level variable of function type
	}
	for _, a := range c.Args {
		evs = append(evs, w.argEvents(a, name)...)
	}
	return evs
}

// funOperand: the part of a call's function expression that is evaluated (x in x.M(..)); nil for plain names
func funOperand(f ast.Expr) ast.Expr {
	switch t := f.(type) {
	case *ast.SelectorExpr:
		return t.X
	case *ast.Ident:
		return nil
	case *ast.ParenExpr:
		return funOperand(t.X)
	case *ast.ArrayType, *ast.MapType, *ast.ChanType, *ast.FuncType, *ast.InterfaceType, *ast.StarExpr:
		return nil // conversion
	}
	return f
}

func addAll(ps []path, evs []event) []path {
	if len(evs) == 0 {
		return ps
	}
	out := make([]path, len(ps))
	for i, p := range ps {
		out[i] = p.add(evs...)
	}
	return out
}

func (w *walker) assign(lhs ast.Expr) []event {
	if id, ok := lhs.(*ast.Ident); ok {
		if id.Name == w.recv {
			return []event{{kind: "Unsupported", a: "receiver variable reassigned"}}
		}
		return w.global(id.Name)
	}
	if f, depth, viaAlias, ok := w.rootField(lhs); ok {
		if w.ti.mutexes[f] {
			return []event{{kind: "Unsupported", a: "mutex field assigned"}}
		}
		if viaAlias && depth == 0 {
			return nil
		}
		evs := w.subIndexEvents(lhs)
		if depth > 0 {
			evs = append(evs, event{kind: "ReadField", a: f})
		}
		return append(evs, event{kind: "WriteField", a: f})
	}
	// some other lvalue: its index expressions are evaluated
	switch t := lhs.(type) {
	case *ast.IndexExpr:
		return append(w.expr(t.X), w.expr(t.Index)...)
	case *ast.SelectorExpr:
		return w.expr(t.X)
	case *ast.StarExpr:
		return w.expr(t.X)
	case *ast.ParenExpr:
		return w.assign(t.X)
	}
	return nil
}

func (w *walker) stmts(list []ast.Stmt, in []path) outcome {
	out := outcome{}
	cur := in
	for _, s := range list {
		if len(cur) == 0 {
			break
		}
		o := w.stmt(s, cur)
		mergeInto(&out.brk, o.brk)
		mergeInto(&out.cont, o.cont)
		out.ret = append(out.ret, o.ret...)
		out.fall = o.fall // only meaningful for the last statement of a case clause
		cur = o.normal
		if len(cur)+len(out.ret) > maxPaths {
			fmt.Fprintln(os.Stderr, "lockir: too many paths")
			os.Exit(3)
		}
	}
	out.normal = cur
	return out
}

func (w *walker) loop(label string, init ast.Stmt, cond ast.Expr, post ast.Stmt, body *ast.BlockStmt, rangeX ast.Expr, rangeLHS []ast.Expr, in []path) outcome {
	out := outcome{}
	cur := in
	if init != nil {
		o := w.stmt(init, cur)
		cur = o.normal
	}
	if rangeX != nil {
		cur = addAll(cur, w.expr(rangeX))
	}
	var exits []path
	for iter := 0; iter <= w.maxIter; iter++ {
		if cond != nil {
			cur = addAll(cur, w.expr(cond))
		}
		if cond != nil || rangeX != nil {
			exits = append(exits, cur...) // condition false / range exhausted
		}
		if iter == w.maxIter {
			break // paths needing a third iteration are not enumerated
		}
		for _, l := range rangeLHS {
			cur = addAll(cur, w.assign(l))
		}
		o := w.stmts(body.List, cur)
		out.ret = append(out.ret, o.ret...)
		cur = append([]path{}, o.normal...)
		for l, ps := range o.brk {
			if l == "" || l == label {
				exits = append(exits, ps...)
			} else {
				mergeInto(&out.brk, map[string][]path{l: ps})
			}
		}
		for l, ps := range o.cont {
			if l == "" || l == label {
				cur = append(cur, ps...)
			} else {
				mergeInto(&out.cont, map[string][]path{l: ps})
			}
		}
		cur = dedup(cur)
		if post != nil {
			cur = w.stmt(post, cur).normal
		}
	}
	out.normal = dedup(exits)
	out.ret = dedup(out.ret)
	return out
}

func (w *walker) stmt(s ast.Stmt, in []path) outcome { return w.stmtL(s, in, "") }

func (w *walker) stmtL(s ast.Stmt, in []path, label string) outcome {
	switch t := s.(type) {
	case nil:
		return outcome{normal: in}
	case *ast.EmptyStmt:
		return outcome{normal: in}
	case *ast.ExprStmt:
		return outcome{normal: addAll(in, w.expr(t.X))}
	case *ast.IncDecStmt:
		evs := w.assign(t.X)
		return outcome{normal: addAll(in, evs)}
	case *ast.AssignStmt:
		var evs []event
		for i, r := range t.Rhs {
			// x := recv.f  /  x = recv.f.g : remember the alias
			aliased := false
			if len(t.Lhs) == len(t.Rhs) {
				if id, ok := t.Lhs[i].(*ast.Ident); ok && id.Name != "_" {
					if f, _, _, ok := w.rootField(r); ok && !w.ti.mutexes[f] && w.ti.refField[f] {
						evs = append(evs, w.expr(r)...)
						w.aliases[id.Name] = f
						aliased = true
					} else if w.aliases[id.Name] != "" && t.Tok == token.ASSIGN {
						// keep the alias: over-approximation (the variable may still refer to the field)
					}
				}
			}
			if !aliased {
				evs = append(evs, w.argOrExpr(r)...)
			}
		}
		for _, l := range t.Lhs {
			if t.Tok != token.ASSIGN && t.Tok != token.DEFINE {
				// op= reads the target first
				if f, _, _, ok := w.rootField(l); ok && !w.ti.mutexes[f] {
					evs = append(evs, event{kind: "ReadField", a: f})
				}
			}
			evs = append(evs, w.assign(l)...)
		}
		return outcome{normal: addAll(in, evs)}
	case *ast.DeclStmt:
		var evs []event
		if gd, ok := t.Decl.(*ast.GenDecl); ok {
			for _, sp := range gd.Specs {
				if vs, ok := sp.(*ast.ValueSpec); ok {
					for i, v := range vs.Values {
						if len(vs.Names) == len(vs.Values) {
							if f, _, _, ok := w.rootField(v); ok && !w.ti.mutexes[f] && w.ti.refField[f] {
								w.aliases[vs.Names[i].Name] = f
							}
						}
						evs = append(evs, w.argOrExpr(v)...)
					}
				}
			}
		}
		return outcome{normal: addAll(in, evs)}
	case *ast.ReturnStmt:
		var evs []event
		for _, r := range t.Results {
			if id, ok := r.(*ast.Ident); ok && id.Name == w.recv {
				evs = append(evs, event{kind: "PassRecv", a: "returned"})
				continue
			}
			evs = append(evs, w.expr(r)...)
		}
		ps := addAll(in, evs)
		out := outcome{}
		for _, p := range ps {
			out.ret = append(out.ret, p.finish())
		}
		return out
	case *ast.BlockStmt:
		return w.stmts(t.List, in)
	case *ast.IfStmt:
		cur := in
		if t.Init != nil {
			cur = w.stmt(t.Init, cur).normal
		}
		cur = addAll(cur, w.expr(t.Cond))
		a := w.stmts(t.Body.List, cur)
		var b outcome
		if t.Else != nil {
			b = w.stmt(t.Else, cur)
		} else {
			b = outcome{normal: cur}
		}
		out := outcome{normal: dedup(append(a.normal, b.normal...)), ret: append(a.ret, b.ret...)}
		mergeInto(&out.brk, a.brk)
		mergeInto(&out.brk, b.brk)
		mergeInto(&out.cont, a.cont)
		mergeInto(&out.cont, b.cont)
		return out
	case *ast.ForStmt:
		return w.loop(label, t.Init, t.Cond, t.Post, t.Body, nil, nil, in)
	case *ast.RangeStmt:
		var lhs []ast.Expr
		if t.Tok == token.ASSIGN {
			for _, l := range []ast.Expr{t.Key, t.Value} {
				if l != nil {
					lhs = append(lhs, l)
				}
			}
		}
		return w.loop(label, nil, nil, nil, t.Body, t.X, lhs, in)
	case *ast.SwitchStmt:
		cur := in
		if t.Init != nil {
			cur = w.stmt(t.Init, cur).normal
		}
		cur = addAll(cur, w.expr(t.Tag))
		out := outcome{}
		hasDefault := false
		var fall []path // paths falling through into the next clause body
		for _, cc := range t.Body.List {
			clause := cc.(*ast.CaseClause)
			if clause.List == nil {
				hasDefault = true
			}
			// the case expressions of this and all earlier clauses may have been evaluated
			for _, ce := range clause.List {
				cur = addAll(cur, w.expr(ce))
			}
			entry := append(append([]path{}, cur...), fall...)
			o := w.stmts(clause.Body, entry)
			fall = o.fall
			out.normal = append(out.normal, o.normal...)
			for l, ps := range o.brk {
				if l == "" || l == label {
					out.normal = append(out.normal, ps...) // break leaves the switch
				} else {
					mergeInto(&out.brk, map[string][]path{l: ps})
				}
			}
			mergeInto(&out.cont, o.cont)
			out.ret = append(out.ret, o.ret...)
		}
		if !hasDefault {
			out.normal = append(out.normal, cur...)
		}
		out.normal = dedup(out.normal)
		return out
	case *ast.BranchStmt:
		l := ""
		if t.Label != nil {
			l = t.Label.Name
		}
		switch t.Tok {
		case token.BREAK:
			return outcome{brk: map[string][]path{l: in}}
		case token.CONTINUE:
			return outcome{cont: map[string][]path{l: in}}
		case token.FALLTHROUGH:
			return outcome{fall: in}
		}
		return outcome{normal: addAll(in, []event{{kind: "Unsupported", a: t.Tok.String()}})}
	case *ast.DeferStmt:
		evs := w.call(t.Call)
		// argument evaluation happens now, the call at return; lock events and worker calls are deferred,
		// reads of arguments happen now
		var now, later []event
		for _, e := range evs {
			switch e.kind {
			case "Lock", "Unlock", "RLock", "RUnlock", "CallWorker", "Unsupported", "WriteField":
				later = append(later, e)
			default:
				now = append(now, e)
			}
		}
		if fl, ok := t.Call.Fun.(*ast.FuncLit); ok && w.mentionsRecv(fl.Body) {
			later = append(later, event{kind: "Unsupported", a: "deferred function literal touches the receiver"})
		}
		out := make([]path, len(in))
		for i, p := range in {
			out[i] = p.add(now...).pushDefer(later...)
		}
		return outcome{normal: out}
	case *ast.LabeledStmt:
		return w.stmtL(t.Stmt, in, t.Label.Name)
	case *ast.GoStmt:
		return outcome{normal: addAll(in, append(w.call(t.Call), event{kind: "Unsupported", a: "go statement"}))}
	}
	if w.mentionsRecv(s) {
		return outcome{normal: addAll(in, []event{{kind: "Unsupported", a: fmt.Sprintf("statement %T", s)}})}
	}
	return outcome{normal: addAll(in, []event{{kind: "Unsupported", a: fmt.Sprintf("statement %T (control flow not followed)", s)}})}
}

// argOrExpr: right-hand side of an assignment to something that is not an alias-tracked local
func (w *walker) argOrExpr(e ast.Expr) []event {
	if id, ok := e.(*ast.Ident); ok && id.Name == w.recv {
		return []event{{kind: "PassRecv", a: "assigned"}}
	}
	return w.expr(e)
}

func key(p path) string {
	var b bytes.Buffer
	for _, e := range p.ev {
		b.WriteString(e.kind + "\x00" + e.a + "\x00" + e.b + "\x01")
	}
	b.WriteString("\x02")
	for _, e := range p.deferred {
		b.WriteString(e.kind + "\x00" + e.a + "\x00" + e.b + "\x01")
	}
	return b.String()
}

func dedup(ps []path) []path {
	seen := map[string]bool{}
	var out []path
	for _, p := range ps {
		k := key(p)
		if !seen[k] {
			seen[k] = true
			out = append(out, p)
		}
	}
	return out
}

func hasVerifConstraint(f *ast.File) bool {
	// files are selected by evaluating their build constraints (internal/srcsel): hook files never get here
	if true {
		return false
	}
	for _, cg := range f.Comments {
		if cg.Pos() > f.Package {
			break
		}
		for _, c := range cg.List {
			t := strings.TrimSpace(c.Text)
			if (strings.HasPrefix(t, "//go:build") || strings.HasPrefix(t, "// +build")) && strings.Contains(t, "verif") {
				return true
			}
		}
	}
	return false
}

func recvTypeName(fd *ast.FuncDecl) (typ, name string) {
	if fd.Recv == nil || len(fd.Recv.List) != 1 {
		return "", ""
	}
	r := fd.Recv.List[0]
	t := r.Type
	if st, ok := t.(*ast.StarExpr); ok {
		t = st.X
	}
	id, ok := t.(*ast.Ident)
	if !ok {
		return "", ""
	}
	if len(r.Names) == 1 {
		name = r.Names[0].Name
	}
	return id.Name, name
}

type analysis struct {
	body    string      // the Coq list elements of the methods
	files   []string    // files read
	mutexes []string    // mutex fields of the type, sorted
	outside [][2]string // (function, field): selectors naming a field of the type outside its methods
	inits   [][3]string // (function, field, comma-separated parameters): see fieldInits
}

func analyse(dir, typeName string) (*analysis, error) {
	fset := token.NewFileSet()
	pkgs, err := parser.ParseDir(fset, dir, srcsel.Filter(dir), parser.ParseComments)
	if err != nil {
		return nil, err
	}
	ti := &typeInfo{name: typeName, mutexes: map[string]bool{}, refField: map[string]bool{}, fields: map[string]bool{}, methods: map[string]*ast.FuncDecl{}, pkgVars: map[string]bool{}}
	var files []*ast.File
	var fileNames []string
	for _, p := range pkgs {
		var names []string
		for n := range p.Files {
			names = append(names, n)
		}
		sort.Strings(names)
		for _, n := range names {
			f := p.Files[n]
			if hasVerifConstraint(f) {
				continue
			}
			files = append(files, f)
			fileNames = append(fileNames, filepath.Base(n))
		}
	}
	found := false
	for _, f := range files {
		for _, d := range f.Decls {
			switch t := d.(type) {
			case *ast.GenDecl:
				for _, sp := range t.Specs {
					ts, ok := sp.(*ast.TypeSpec)
					if !ok || ts.Name.Name != typeName {
						continue
					}
					st, ok := ts.Type.(*ast.StructType)
					if !ok {
						return nil, fmt.Errorf("%s is not a struct", typeName)
					}
					found = true
					for _, fl := range st.Fields.List {
						isMutex := false
						if se, ok := fl.Type.(*ast.SelectorExpr); ok {
							if x, ok := se.X.(*ast.Ident); ok && x.Name == "sync" && (se.Sel.Name == "Mutex" || se.Sel.Name == "RWMutex") {
								isMutex = true
							}
						}
						for _, n := range fl.Names {
							ti.fields[n.Name] = true
							if isMutex {
								ti.mutexes[n.Name] = true
							} else if isRefType(fl.Type) {
								ti.refField[n.Name] = true
							}
						}
						if len(fl.Names) == 0 {
							return nil, fmt.Errorf("%s has an embedded field (not supported)", typeName)
						}
					}
				}
			case *ast.FuncDecl:
				if tn, _ := recvTypeName(t); tn == typeName {
					ti.methods[t.Name.Name] = t
				}
			}
		}
	}
	if !found {
		return nil, fmt.Errorf("type %s not found in %s", typeName, dir)
	}
	// package-level variables, and accesses to the type's fields from outside its methods
	var outside [][2]string
	var inits [][3]string
	seenOut := map[[2]string]bool{}
	for _, f := range files {
		for _, d := range f.Decls {
			switch t := d.(type) {
			case *ast.GenDecl:
				if t.Tok == token.VAR {
					for _, sp := range t.Specs {
						if vs, ok := sp.(*ast.ValueSpec); ok {
							for _, n := range vs.Names {
								if n.Name != "_" {
									ti.pkgVars[n.Name] = true
								}
							}
						}
					}
				}
			case *ast.FuncDecl:
				if tn, _ := recvTypeName(t); tn == typeName || t.Body == nil {
					continue
				}
				fname := t.Name.Name
				if tn, _ := recvTypeName(t); tn != "" {
					fname = tn + "." + fname
				}
				inits = append(inits, fieldInits(ti, fname, t)...)
				ast.Inspect(t.Body, func(n ast.Node) bool {
					if se, ok := n.(*ast.SelectorExpr); ok && ti.fields[se.Sel.Name] && len(ti.mutexes) > 0 {
						k := [2]string{fname, se.Sel.Name}
						if !seenOut[k] {
							seenOut[k] = true
							outside = append(outside, k)
						}
					}
					return true
				})
			}
		}
	}
	sort.Slice(outside, func(i, j int) bool {
		if outside[i][0] != outside[j][0] {
			return outside[i][0] < outside[j][0]
		}
		return outside[i][1] < outside[j][1]
	})
	var mutexes []string
	for m := range ti.mutexes {
		mutexes = append(mutexes, m)
	}
	sort.Strings(mutexes)
	var names []string
	for n := range ti.methods {
		names = append(names, n)
	}
	sort.Slice(names, func(i, j int) bool { return ti.methods[names[i]].Pos() < ti.methods[names[j]].Pos() })
	var sb strings.Builder
	for i, n := range names {
		fd := ti.methods[n]
		_, recv := recvTypeName(fd)
		w := &walker{ti: ti, recv: recv, aliases: map[string]string{}, locals: localNames(fd), refArgs: refParams(fd), maxIter: maxIterUnexported}
		if ast.IsExported(n) {
			w.maxIter = maxIterExported
		}
		var paths []path
		if recv == "" || recv == "_" || fd.Body == nil {
			paths = []path{{ev: []event{{kind: "Return"}}}}
		} else {
			// first pass finds the aliases, second pass uses them everywhere (order-insensitive)
			w.stmts(fd.Body.List, []path{{}})
			o := w.stmts(fd.Body.List, []path{{}})
			for _, p := range o.normal {
				paths = append(paths, p.finish())
			}
			paths = append(paths, o.ret...)
			paths = dedup(paths)
		}
		sb.WriteString(fmt.Sprintf("  Method \"%s\"%%string %v [\n", n, ast.IsExported(n)))
		for j, p := range paths {
			var evs []string
			for _, e := range p.ev {
				evs = append(evs, e.coq())
			}
			sb.WriteString("    [" + strings.Join(evs, "; ") + "]")
			if j+1 < len(paths) {
				sb.WriteString(";")
			}
			sb.WriteString("\n")
		}
		sb.WriteString("  ]")
		if i+1 < len(names) {
			sb.WriteString(";")
		}
		sb.WriteString("\n")
	}
	return &analysis{body: sb.String(), files: fileNames, mutexes: mutexes, outside: outside, inits: inits}, nil
}

func main() {
	repo := flag.String("repo", "/repo", "repository under test")
	out := flag.String("out", "/verif/coq/theories/Gen/LockIR.v", "output file")
	flag.Parse()
	var sb strings.Builder
	sb.WriteString("(* GENERATED by harness/cmd/lockir from the Go sources (go/ast only); do not edit.\n")
	sb.WriteString("   For every method of bloom.Filter and gcs.Filter: the lock-relevant events along every syntactic\n")
	sb.WriteString("   path of its body (loops taken 0..3 times in exported methods, 0..1 times in unexported ones; defer = at every following Return);\n")
	sb.WriteString("   the mutex fields of each type; accesses to a mutex-guarded type's fields from outside its methods. *)\n")
	sb.WriteString("From Coq Require Import List String.\nFrom BU Require Import Conc.LockEvents.\nImport ListNotations.\n\n")
	for _, t := range []struct{ dir, typ, name string }{{"bloom", "Filter", "bloom_methods"}, {"gcs", "Filter", "gcs_methods"}} {
		an, err := analyse(filepath.Join(*repo, t.dir), t.typ)
		if err != nil {
			fmt.Fprintln(os.Stderr, "lockir:", err)
			os.Exit(1)
		}
		sb.WriteString(fmt.Sprintf("(* %s.%s — files read: %s *)\n", t.dir, t.typ, strings.Join(an.files, " ")))
		sb.WriteString(fmt.Sprintf("Definition %s : list method := [\n%s].\n\n", t.name, an.body))
		q := func(x string) string { return "\"" + strings.ReplaceAll(x, "\"", "'") + "\"%string" }
		var ms, os_ []string
		for _, m := range an.mutexes {
			ms = append(ms, q(m))
		}
		for _, o := range an.outside {
			os_ = append(os_, "("+q(o[0])+", "+q(o[1])+")")
		}
		prefix := strings.TrimSuffix(t.name, "_methods")
		sb.WriteString(fmt.Sprintf("(* fields of %s.%s of type sync.Mutex / sync.RWMutex *)\n", t.dir, t.typ))
		sb.WriteString(fmt.Sprintf("Definition %s_mutex_fields : list string := [%s].\n\n", prefix, strings.Join(ms, "; ")))
		sb.WriteString(fmt.Sprintf("(* (function, field): selectors naming a field of %s.%s in code that is not one of its methods (only listed when the type has a mutex) *)\n", t.dir, t.typ))
		sb.WriteString(fmt.Sprintf("Definition %s_outside_accesses : list (string * string) := [%s].\n\n", prefix, strings.Join(os_, "; ")))
		var is_ []string
		for _, in := range an.inits {
			var ps []string
			if in[2] != "" {
				for _, pn := range strings.Split(in[2], ",") {
					ps = append(ps, q(pn))
				}
			}
			is_ = append(is_, "("+q(in[0])+", "+q(in[1])+", ["+strings.Join(ps, "; ")+"])")
		}
		sb.WriteString(fmt.Sprintf("(* (function, field, reference-typed parameters flowing into the stored value) for every initialisation of a reference-typed field of %s.%s outside its methods *)\n", t.dir, t.typ))
		sb.WriteString(fmt.Sprintf("Definition %s_field_inits : list (string * string * list string) := [%s].\n\n", prefix, strings.Join(is_, ";\n  ")))
	}
	new := []byte(sb.String())
	if old, err := os.ReadFile(*out); err == nil && bytes.Equal(old, new) {
		return
	}
	if err := os.WriteFile(*out, new, 0o644); err != nil {
		fmt.Fprintln(os.Stderr, "lockir:", err)
		os.Exit(1)
	}
}

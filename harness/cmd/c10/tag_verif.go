//go:build verif

package main

// builtWithVerifTag: bin/check builds the harness commands with -tags verif.
const builtWithVerifTag = true

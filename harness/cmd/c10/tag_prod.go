//go:build !verif

package main

const builtWithVerifTag = false

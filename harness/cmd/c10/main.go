// Command c10 drives bloom.Filter.MatchTxAndUpdate and bloom.GetMatchedIndices /
// bloom.NewMerkleBlock of the repository under test on generated transactions and
// blocks (random spend DAGs in several orders): it evaluates the property's own
// predicates on the implementation (monitors, against an exact-set relevance
// closure computed here independently) and writes correspondence cases for the
// Coq model Bloom/BloomTx.v (driver Run/Run_C10.v).
package main

import (
	"bytes"
	"encoding/binary"
	"encoding/hex"
	"encoding/json"
	"fmt"
	"math/big"
	"os"
	"os/exec"
	"path/filepath"
	"runtime"
	"sort"
	"strings"
	"time"

	"github.com/gcash/bchd/chaincfg/chainhash"
	"github.com/gcash/bchd/txscript"
	"github.com/gcash/bchd/wire"
	"github.com/gcash/bchutil"
	"github.com/gcash/bchutil/bloom"
	"github.com/gcash/bchutil/merkleblock"

	"verif/harness/internal/vh"
)

var cfg vh.Config
var rep *vh.Report
var cases *vh.Cases
var stats = map[string]int{}

// ---------------------------------------------------------------- scripts
func push(d []byte) []byte {
	switch {
	case len(d) == 0:
		return []byte{0x4c, 0x00} // OP_PUSHDATA1 with length 0: an empty, non-nil push
	case len(d) <= 75:
		return append([]byte{byte(len(d))}, d...)
	case len(d) <= 255:
		return append([]byte{0x4c, byte(len(d))}, d...)
	default:
		return append([]byte{0x4d, byte(len(d)), byte(len(d) >> 8)}, d...)
	}
}

func cat(parts ...[]byte) []byte {
	var b []byte
	for _, p := range parts {
		b = append(b, p...)
	}
	return b
}

// what the generator knows about a script by construction (independent of txscript)
type gScript struct {
	script   []byte
	pushes   [][]byte // nil when parseErr
	parseErr bool
	upd      bool   // pay-to-pubkey or multisig by construction
	shape    string // for histograms
}

type wallet struct {
	h160   [][]byte // address hashes
	pubs   [][]byte // 33- and 65-byte keys
	h256   [][]byte // 32-byte script hashes
	tags   [][]byte // data carried by OP_RETURN / non-standard scripts
	bigs   [][]byte // data elements longer than a standard push (> 520 bytes)
	others [][]byte // foreign material (never watched)
}

func newWallet(r *vh.RNG) *wallet {
	w := &wallet{}
	for i := 0; i < 3; i++ {
		w.h160 = append(w.h160, r.Bytes(20))
	}
	for i := 0; i < 2; i++ {
		w.pubs = append(w.pubs, append([]byte{byte(2 + r.Intn(2))}, r.Bytes(32)...))
	}
	w.pubs = append(w.pubs, append([]byte{4}, r.Bytes(64)...))
	w.h256 = append(w.h256, r.Bytes(32))
	w.tags = append(w.tags, r.Bytes(1+r.Intn(12)), r.Bytes(4))
	w.bigs = append(w.bigs, r.Bytes(521+r.Intn(4)), r.Bytes(600))
	for i := 0; i < 4; i++ {
		w.others = append(w.others, r.Bytes(20))
	}
	return w
}

// pick returns wallet material with probability own/10, otherwise fresh foreign material of the same length
func (w *wallet) pick(r *vh.RNG, pool [][]byte, own int) []byte {
	d := vh.Pick(r, pool)
	if r.Intn(10) < own {
		return d
	}
	f := r.Bytes(len(d))
	if len(d) == 33 || len(d) == 65 {
		f[0] = d[0]
	}
	return f
}

var outShapes = []string{"p2pkh", "p2pkh", "p2pkh", "p2sh", "p2pk", "p2pk", "multisig", "multisig", "nulldata", "nonstd", "unparsable", "empty", "emptypush", "op0", "badpk", "p2sh32", "p2pkh+pk", "multisig-wide", "padded", "bigpush"}

// script lengths around the limits other layers impose (MaxScriptElementSize 520, MaxScriptSize 10000): none of
// them is a limit of txscript.PushedData or of the filter, so a watched push in such a script must still be found
var paddedLens = []int{521, 1651, 9999, 10000, 10001, 10002, 12000}

func genOutScript(r *vh.RNG, w *wallet, shape string, own int) gScript {
	switch shape {
	case "p2pkh":
		h := w.pick(r, w.h160, own)
		return gScript{cat([]byte{0x76, 0xa9}, push(h), []byte{0x88, 0xac}), [][]byte{h}, false, false, shape}
	case "p2sh":
		h := w.pick(r, w.h160, own)
		return gScript{cat([]byte{0xa9}, push(h), []byte{0x87}), [][]byte{h}, false, false, shape}
	case "p2sh32":
		h := w.pick(r, w.h256, own)
		return gScript{cat([]byte{0xaa}, push(h), []byte{0x87}), [][]byte{h}, false, false, shape}
	case "p2pk":
		k := w.pick(r, w.pubs, own)
		return gScript{cat(push(k), []byte{0xac}), [][]byte{k}, false, true, shape}
	case "multisig":
		n := 1 + r.Intn(3)
		m := 1 + r.Intn(n)
		var ks [][]byte
		s := []byte{byte(0x50 + m)}
		for i := 0; i < n; i++ {
			k := w.pick(r, w.pubs, own/2+1)
			ks = append(ks, k)
			s = append(s, push(k)...)
		}
		s = append(s, byte(0x50+n), 0xae)
		return gScript{s, ks, false, true, shape}
	case "multisig-wide": // bare multisig with 4..16 keys, compressed and uncompressed (scripts of 140 .. 1059 bytes)
		n := 4 + r.Intn(13)
		m := 1 + r.Intn(n)
		var ks [][]byte
		s := []byte{byte(0x50 + m)}
		for i := 0; i < n; i++ {
			k := w.pick(r, w.pubs, own/3+1)
			ks = append(ks, k)
			s = append(s, push(k)...)
		}
		s = append(s, byte(0x50+n), 0xae)
		return gScript{s, ks, false, true, shape}
	case "padded": // <h> OP_DROP OP_NOP... OP_1, padded to a length around a limit
		h := w.pick(r, w.h160, own)
		base := cat(push(h), []byte{0x75})
		L := vh.Pick(r, paddedLens)
		return gScript{cat(base, bytes.Repeat([]byte{0x61}, L-len(base)-1), []byte{0x51}), [][]byte{h}, false, false, shape}
	case "bigpush": // a data element longer than 520 bytes, then a short one
		d := w.pick(r, w.bigs, own)
		h := w.pick(r, w.h160, own)
		return gScript{cat(push(d), []byte{0x75}, push(h), []byte{0x75, 0x51}), [][]byte{d, h}, false, false, shape}
	case "nulldata":
		d := w.pick(r, w.tags, own)
		return gScript{cat([]byte{0x6a}, push(d)), [][]byte{d}, false, false, shape}
	case "nonstd": // <d1> OP_DROP <d2> OP_DROP OP_1
		d1 := w.pick(r, w.h160, own)
		d2 := w.pick(r, w.tags, own)
		return gScript{cat(push(d1), []byte{0x75}, push(d2), []byte{0x75, 0x51}), [][]byte{d1, d2}, false, false, shape}
	case "unparsable": // a watched push followed by a truncated OP_PUSHDATA1: PushedData fails, the output is skipped
		d := w.pick(r, w.h160, 9)
		return gScript{cat(push(d), []byte{0x4c, 0x05, 0x01}), nil, true, false, shape}
	case "empty":
		return gScript{[]byte{}, [][]byte{}, false, false, shape}
	case "emptypush": // OP_PUSHDATA1 0 OP_DROP <h> : an empty push, then a real one
		h := w.pick(r, w.h160, own)
		return gScript{cat(push(nil), []byte{0x75}, push(h)), [][]byte{{}, h}, false, false, shape}
	case "op0": // OP_0 OP_DROP OP_1: PushedData reports a nil push for OP_0
		return gScript{[]byte{0x00, 0x75, 0x51}, [][]byte{{}}, false, false, shape}
	case "badpk": // 32-byte "key" OP_CHECKSIG: not a pubkey script
		k := w.pick(r, w.h256, own)
		return gScript{cat(push(k), []byte{0xac}), [][]byte{k}, false, false, shape}
	case "p2pkh+pk": // looks like pay-to-pubkey-hash but carries a wallet pubkey push in front: non-standard
		k := w.pick(r, w.pubs, own)
		h := w.pick(r, w.h160, own)
		return gScript{cat(push(k), []byte{0x75, 0x76, 0xa9}, push(h), []byte{0x88, 0xac}), [][]byte{k, h}, false, false, shape}
	}
	panic("shape " + shape)
}

func genSigScript(r *vh.RNG, w *wallet, own int) gScript {
	switch r.Intn(20) { // 1 in 10: long signature scripts
	case 18: // a watched tag, then OP_NOP padding to a length around a limit
		d := w.pick(r, w.tags, own)
		L := vh.Pick(r, paddedLens)
		return gScript{cat(push(d), bytes.Repeat([]byte{0x61}, L-len(push(d)))), [][]byte{d}, false, false, "padded"}
	case 19: // a data element longer than 520 bytes
		d := w.pick(r, w.bigs, own)
		return gScript{cat(push(d), []byte{0x51}), [][]byte{d}, false, false, "bigpush"}
	}
	switch r.Intn(8) {
	case 0, 1, 2: // <sig> <pubkey>
		sig := r.Bytes(vh.Pick(r, []int{8, 9, 8, 71, 72}))
		k := w.pick(r, w.pubs, own)
		return gScript{cat(push(sig), push(k)), [][]byte{sig, k}, false, false, "sig+key"}
	case 3: // <sig>
		sig := r.Bytes(vh.Pick(r, []int{8, 71}))
		return gScript{push(sig), [][]byte{sig}, false, false, "sig"}
	case 4: // OP_0 <sig> <redeem script containing a wallet key>
		sig := r.Bytes(10)
		k := w.pick(r, w.pubs, own)
		redeem := cat([]byte{0x51}, push(k), []byte{0x51, 0xae})
		return gScript{cat([]byte{0x00}, push(sig), push(redeem)), [][]byte{{}, sig, redeem}, false, false, "p2sh-spend"}
	case 5: // unparsable (coinbase-like arbitrary bytes ending in a truncated push)
		k := w.pick(r, w.pubs, 9)
		return gScript{cat(push(k), []byte{0x4b, 0x01}), nil, true, false, "unparsable"}
	case 6:
		return gScript{[]byte{}, [][]byte{}, false, false, "empty"}
	default: // a watched tag pushed in the signature script
		d := w.pick(r, w.tags, own)
		return gScript{cat(push(d), []byte{0x51}), [][]byte{d}, false, false, "tag"}
	}
}

// ---------------------------------------------------------------- transactions
type gTx struct {
	msg  *wire.MsgTx
	id   chainhash.Hash
	outs []gScript
	ins  []gScript // signature scripts, parallel to msg.TxIn
}

func opBytes(h *chainhash.Hash, idx uint32) []byte {
	b := make([]byte, 36)
	copy(b, h[:])
	binary.LittleEndian.PutUint32(b[32:], idx)
	return b
}

// abstract view used by the reference closure
type absOut struct {
	pushes [][]byte
	err    bool
	upd    bool
	// aliasHot: the output's only push is the serialisation of the single outpoint the
	// transaction spends, the signature script pushes nothing, and no other output of the
	// transaction aliases: whenever such a transaction matches an exact filter that does not
	// contain its other material, the spent outpoint is in the filter, so this output hits
	// and its own outpoint is inserted (if the flag allows) by that same call
	aliasHot bool
}
type absIn struct {
	prevHash chainhash.Hash
	prevIdx  uint32
	pushes   [][]byte
	err      bool
}
type absTx struct {
	id   chainhash.Hash
	outs []absOut
	ins  []absIn
}

func (t *gTx) abs() absTx {
	a := absTx{id: t.id}
	for _, o := range t.outs {
		a.outs = append(a.outs, absOut{o.pushes, o.parseErr, o.upd, false})
	}
	for i, in := range t.ins {
		a.ins = append(a.ins, absIn{t.msg.TxIn[i].PreviousOutPoint.Hash, t.msg.TxIn[i].PreviousOutPoint.Index, in.pushes, in.parseErr})
	}
	markAlias(&a)
	return a
}

// absFromMsg derives the abstract view through txscript (replay mode, and the oracle half of the cases)
func absFromMsg(m *wire.MsgTx) absTx {
	a := absTx{id: m.TxHash()}
	for _, o := range m.TxOut {
		p, err := txscript.PushedData(o.PkScript)
		c := txscript.GetScriptClass(o.PkScript)
		a.outs = append(a.outs, absOut{norm(p), err != nil, c == txscript.PubKeyTy || c == txscript.MultiSigTy, false})
	}
	for _, in := range m.TxIn {
		p, err := txscript.PushedData(in.SignatureScript)
		a.ins = append(a.ins, absIn{in.PreviousOutPoint.Hash, in.PreviousOutPoint.Index, norm(p), err != nil})
	}
	markAlias(&a)
	return a
}

// markAlias derives aliasHot from the shape of the transaction (see absOut)
func markAlias(a *absTx) {
	if len(a.ins) != 1 || a.ins[0].err || len(a.ins[0].pushes) != 0 {
		return
	}
	spent := opBytes(&a.ins[0].prevHash, a.ins[0].prevIdx)
	for k := range a.outs {
		o := &a.outs[k]
		if !o.err && len(o.pushes) == 1 && bytes.Equal(o.pushes[0], spent) {
			o.aliasHot = true
		}
	}
}

func norm(p [][]byte) [][]byte {
	out := make([][]byte, len(p))
	for i, d := range p {
		if d == nil {
			d = []byte{}
		}
		out[i] = d
	}
	return out
}

func sameAbs(a, b absTx) bool {
	ja, _ := json.Marshal(absJSON(a))
	jb, _ := json.Marshal(absJSON(b))
	return bytes.Equal(ja, jb)
}

func absJSON(a absTx) interface{} {
	type o struct {
		P   []string
		Err bool
		Upd bool
	}
	type i struct {
		Prev string
		P    []string
		Err  bool
	}
	var os []o
	var is []i
	hx := func(p [][]byte) []string {
		s := []string{}
		for _, d := range p {
			s = append(s, vh.Hex(d))
		}
		return s
	}
	for _, x := range a.outs {
		if x.err {
			os = append(os, o{nil, true, x.upd})
		} else {
			os = append(os, o{hx(x.pushes), false, x.upd})
		}
	}
	for _, x := range a.ins {
		if x.err {
			is = append(is, i{vh.Hex(opBytes(&x.prevHash, x.prevIdx)), nil, true})
		} else {
			is = append(is, i{vh.Hex(opBytes(&x.prevHash, x.prevIdx)), hx(x.pushes), false})
		}
	}
	return map[string]interface{}{"id": vh.Hex(a.id[:]), "outs": os, "ins": is}
}

type prevRef struct {
	parent int // index into the already built transactions, -1 = external
	idx    uint32
}

func buildTx(r *vh.RNG, w *wallet, built []*gTx, prevs []prevRef, nOut int, own int, outShape string) *gTx {
	m := wire.NewMsgTx(int32(1 + r.Intn(2)))
	t := &gTx{msg: m}
	for _, p := range prevs {
		var op wire.OutPoint
		if p.parent >= 0 {
			op = wire.OutPoint{Hash: built[p.parent].id, Index: p.idx}
		} else {
			var h chainhash.Hash
			copy(h[:], r.Bytes(32))
			op = wire.OutPoint{Hash: h, Index: p.idx}
		}
		s := genSigScript(r, w, own)
		t.ins = append(t.ins, s)
		m.AddTxIn(wire.NewTxIn(&op, s.script))
	}
	for i := 0; i < nOut; i++ {
		sh := outShape
		if sh == "" {
			sh = vh.Pick(r, outShapes)
		}
		s := genOutScript(r, w, sh, own)
		t.outs = append(t.outs, s)
		m.AddTxOut(wire.NewTxOut(int64(1000+r.Intn(100000)), s.script, wire.TokenData{}))
	}
	m.LockTime = r.U32() // make otherwise identical transactions distinct
	t.id = m.TxHash()
	return t
}

// spendIdx picks the output of p a child spends: preferably one that pays to the wallet
func spendIdx(r *vh.RNG, w *wallet, p *gTx) uint32 {
	var mine []int
	for i, o := range p.outs {
		for _, d := range o.pushes {
			if w.owns(d) {
				mine = append(mine, i)
				break
			}
		}
	}
	if len(mine) > 0 && r.Intn(10) < 7 {
		return uint32(vh.Pick(r, mine))
	}
	return uint32(r.Intn(len(p.outs) + 1))
}

func (w *wallet) owns(d []byte) bool {
	for _, pool := range [][][]byte{w.h160, w.pubs, w.h256, w.tags, w.bigs} {
		for _, x := range pool {
			if bytes.Equal(x, d) {
				return true
			}
		}
	}
	return false
}

// ---------------------------------------------------------------- blocks (spend DAGs)
// genDAG returns transactions in a topological (creation) order
func genDAG(r *vh.RNG, w *wallet, family string, n int, own int) []*gTx {
	var built []*gTx
	add := func(prevs []prevRef, nOut int, shape string) {
		// some transactions pay to the wallet, most others are only relevant through what they spend
		o := 0
		if r.Intn(10) < 5 {
			o = 7 + own/3
		}
		built = append(built, buildTx(r, w, built, prevs, nOut, o, shape))
	}
	ext := func() prevRef { return prevRef{-1, uint32(r.Intn(3))} }
	switch family {
	case "chain": // t0 <- t1 <- t2 ...
		add([]prevRef{ext()}, 1+r.Intn(2), "")
		for i := 1; i < n; i++ {
			add([]prevRef{{i - 1, spendIdx(r, w, built[i-1])}}, 1+r.Intn(2), "")
		}
	case "chain2": // every child spends two outputs of its parent
		add([]prevRef{ext()}, 2, "")
		for i := 1; i < n; i++ {
			add([]prevRef{{i - 1, 0}, {i - 1, 1}}, 2, "")
		}
	case "diamond": // a <- b, a <- c, d spends b and c; repeated
		for len(built) < n {
			b := len(built)
			add([]prevRef{ext()}, 2+r.Intn(2), "")
			add([]prevRef{{b, 0}}, 1+r.Intn(2), "")
			add([]prevRef{{b, 1}}, 1+r.Intn(2), "")
			add([]prevRef{{b + 1, 0}, {b + 2, 0}}, 1+r.Intn(2), "")
		}
	case "multiout": // a parent with several outputs paying to the wallet, one neutral child per output (and a double spend)
		k := 2 + r.Intn(3)
		built = append(built, buildTx(r, w, built, []prevRef{ext()}, k, 10, vh.Pick(r, []string{"", "p2pkh", "p2pk", "multisig"})))
		for j := 0; j < k; j++ {
			built = append(built, buildTx(r, w, built, []prevRef{{0, uint32(j)}}, 1, 0, ""))
		}
		built = append(built, buildTx(r, w, built, []prevRef{{0, uint32(k - 1)}}, 1, 0, ""))
	case "fan": // several children spend (double-spend) outputs of one parent
		add([]prevRef{ext(), ext()}, 1+r.Intn(3), "")
		for i := 1; i < n; i++ {
			add([]prevRef{{0, spendIdx(r, w, built[0])}}, 1+r.Intn(2), "")
		}
	default: // random DAG
		for i := 0; i < n; i++ {
			k := 1 + r.Intn(3)
			var prevs []prevRef
			for j := 0; j < k; j++ {
				if i > 0 && r.Intn(3) != 0 {
					p := r.Intn(i)
					prevs = append(prevs, prevRef{p, spendIdx(r, w, built[p])})
				} else {
					prevs = append(prevs, ext())
				}
			}
			add(prevs, r.Intn(4), "")
		}
	}
	return built
}

func permute(r *vh.RNG, txs []*gTx, order string) []*gTx {
	out := append([]*gTx(nil), txs...)
	switch order {
	case "topological":
	case "reverse":
		for i, j := 0, len(out)-1; i < j; i, j = i+1, j-1 {
			out[i], out[j] = out[j], out[i]
		}
	case "ctor": // lexicographic by displayed txid, first transaction stays in place (coinbase position)
		rest := out[1:]
		sort.Slice(rest, func(i, j int) bool { return rest[i].id.String() < rest[j].id.String() })
	default:
		for i := len(out) - 1; i > 0; i-- {
			j := r.Intn(i + 1)
			out[i], out[j] = out[j], out[i]
		}
	}
	return out
}

func mkBlock(txs []*wire.MsgTx) *bchutil.Block {
	mb := wire.NewMsgBlock(&wire.BlockHeader{Version: 1, Timestamp: time.Unix(1600000000, 0), Bits: 0x1d00ffff})
	for _, t := range txs {
		mb.AddTransaction(t.Copy())
	}
	return bchutil.NewBlock(mb)
}

// ---------------------------------------------------------------- filters
type fParams struct {
	Size   int    `json:"size"`
	K      uint32 `json:"hash_funcs"`
	Tweak  uint32 `json:"tweak"`
	Flags  uint8  `json:"flags"`
	Loaded bool   `json:"loaded"`
}

func (p fParams) exact() bool { return p.Loaded && p.Size >= 4096 && p.K >= 8 }

func newFilter(p fParams, watch [][]byte) *bloom.Filter {
	if !p.Loaded {
		return bloom.LoadFilter(nil)
	}
	f := bloom.LoadFilter(wire.NewMsgFilterLoad(make([]byte, p.Size), p.K, p.Tweak, wire.BloomUpdateType(p.Flags)))
	for _, x := range watch {
		f.Add(x)
	}
	return f
}

func filterBytes(f *bloom.Filter) []byte {
	m := f.MsgFilterLoad()
	if m == nil {
		return nil
	}
	return append([]byte(nil), m.Filter...)
}

func cloneFilter(p fParams, b []byte) *bloom.Filter {
	if !p.Loaded {
		return bloom.LoadFilter(nil)
	}
	return bloom.LoadFilter(wire.NewMsgFilterLoad(append([]byte(nil), b...), p.K, p.Tweak, wire.BloomUpdateType(p.Flags)))
}

func bitsN(b []byte) string { // the bit array as a number: bit j of byte k = bit 8k+j
	le := make([]byte, len(b))
	for i := range b {
		le[len(b)-1-i] = b[i]
	}
	return "0x0" + new(big.Int).SetBytes(le).Text(16)
}

// maskOf asks the real code which bits an item selects (list of bit positions)
func maskOf(p fParams, item []byte) string {
	if !p.Loaded {
		return "[]"
	}
	f := bloom.LoadFilter(wire.NewMsgFilterLoad(make([]byte, p.Size), p.K, p.Tweak, 0))
	f.Add(item)
	var pos []string
	for k, x := range filterBytes(f) {
		for j := 0; j < 8; j++ {
			if x&(1<<uint(j)) != 0 {
				pos = append(pos, fmt.Sprint(8*k+j))
			}
		}
	}
	return "[" + strings.Join(pos, ";") + "]"
}

func genParams(r *vh.RNG, flags uint8) fParams {
	p := fParams{Flags: flags, Loaded: true, Tweak: r.U32()}
	switch r.Intn(12) {
	case 0:
		p.Size, p.K = 1+r.Intn(3), uint32(1+r.Intn(3)) // tiny: saturates quickly
	case 1, 2, 3:
		p.Size, p.K = 4+r.Intn(12), uint32(1+r.Intn(5))
	case 4, 5, 6:
		p.Size, p.K = 24+r.Intn(40), uint32(2+r.Intn(10))
	case 7:
		p.Size, p.K = 64, 50
	case 8:
		p.Size, p.K = 256, 11
	case 9:
		switch r.Intn(3) {
		case 0:
			p.Size, p.K = 0, 3 // empty array: matches everything, add is a no-op
		case 1:
			p.Size, p.K = 8, 0 // no hash functions: matches everything
		default:
			p.Loaded = false
		}
	default:
		p.Size, p.K = 8192, 12 // false positives negligible: exact-set monitors apply
	}
	if r.Intn(8) == 0 {
		p.Tweak = 0xffffffff - uint32(r.Intn(3))
	}
	return p
}

var flagChoices = []uint8{0, 1, 1, 1, 1, 1, 2, 2, 2, 2, 3, 255}

func flagAllows(flags uint8, upd bool) bool {
	return flags == uint8(wire.BloomUpdateAll) || (flags == uint8(wire.BloomUpdateP2PubkeyOnly) && upd)
}

// ---------------------------------------------------------------- exact-set reference
type itemSet map[string]bool

func (s itemSet) hasAny(p [][]byte) bool {
	for _, d := range p {
		if s[string(d)] {
			return true
		}
	}
	return false
}

// matchesSet: the four-way disjunction against an exact set
func matchesSet(s itemSet, t absTx) bool {
	if s[string(t.id[:])] {
		return true
	}
	for _, o := range t.outs {
		if !o.err && s.hasAny(o.pushes) {
			return true
		}
	}
	for _, in := range t.ins {
		if s[string(opBytes(&in.prevHash, in.prevIdx))] {
			return true
		}
		if !in.err && s.hasAny(in.pushes) {
			return true
		}
	}
	return false
}

// relClosure: least set of block positions containing the transactions matching the
// watch set and closed under "spends an outpoint that a member's matching output caused
// to be inserted" (computed as a fixpoint over positions; independent of block order)
func relClosure(watch itemSet, flags uint8, txs []absTx, useAlias bool) map[int]bool {
	rel := map[int]bool{}
	byID := map[chainhash.Hash][]int{} // positions of every id (duplicates possible)
	direct := make([]bool, len(txs))
	for i, t := range txs {
		byID[t.id] = append(byID[t.id], i)
		if matchesSet(watch, t) {
			rel[i] = true
			direct[i] = true
		}
	}
	for changed := true; changed; {
		changed = false
		for i, t := range txs {
			if rel[i] {
				continue
			}
			for _, in := range t.ins {
				for _, j := range byID[in.prevHash] {
					p := txs[j]
					if !rel[j] || int64(in.prevIdx) >= int64(len(p.outs)) {
						continue
					}
					o := p.outs[in.prevIdx]
					hot := !o.err && watch.hasAny(o.pushes)
					if useAlias && o.aliasHot && !direct[j] {
						hot = true // general form of completeness (C10_scan_complete_hot), exact filters only
					}
					if hot && flagAllows(flags, o.upd) {
						rel[i] = true
						changed = true
					}
				}
			}
		}
	}
	return rel
}

// finalMatches: does the (final) filter match the transaction, by the public API
func finalMatches(f *bloom.Filter, m *wire.MsgTx) bool {
	h := m.TxHash()
	if f.Matches(h[:]) {
		return true
	}
	for _, o := range m.TxOut {
		if p, err := txscript.PushedData(o.PkScript); err == nil {
			for _, d := range p {
				if f.Matches(d) {
					return true
				}
			}
		}
	}
	for _, in := range m.TxIn {
		if f.MatchesOutPoint(&in.PreviousOutPoint) {
			return true
		}
		if p, err := txscript.PushedData(in.SignatureScript); err == nil {
			for _, d := range p {
				if f.Matches(d) {
					return true
				}
			}
		}
	}
	return false
}

// refMatchUpdate: the statement of the property for one transaction, evaluated with the
// filter's public query/add operations on a separate filter object
func refMatchUpdate(f *bloom.Filter, flags uint8, m *wire.MsgTx) bool {
	h := m.TxHash()
	matched := f.Matches(h[:])
	for i, o := range m.TxOut {
		p, err := txscript.PushedData(o.PkScript)
		if err != nil {
			continue
		}
		hit := false
		for _, d := range p {
			if f.Matches(d) {
				hit = true
				break
			}
		}
		if hit {
			matched = true
			c := txscript.GetScriptClass(o.PkScript)
			if flagAllows(flags, c == txscript.PubKeyTy || c == txscript.MultiSigTy) {
				f.AddOutPoint(wire.NewOutPoint(&h, uint32(i)))
			}
		}
	}
	if matched {
		return true
	}
	for _, in := range m.TxIn {
		if f.MatchesOutPoint(&in.PreviousOutPoint) {
			return true
		}
		if p, err := txscript.PushedData(in.SignatureScript); err == nil {
			for _, d := range p {
				if f.Matches(d) {
					return true
				}
			}
		}
	}
	return false
}

// ---------------------------------------------------------------- Coq terms
// coqNum writes a byte string as the number 0x01||bytes (Run_C10.v "Encoding")
func coqNum(b []byte) string { return "0x01" + vh.Hex(b) }

func coqItems(p [][]byte) string {
	it := make([]string, len(p))
	for i, d := range p {
		it[i] = coqNum(d)
	}
	return vh.CoqList(it)
}

func coqClass(c txscript.ScriptClass) string {
	switch c {
	case txscript.NonStandardTy:
		return "ClsNonStandard"
	case txscript.PubKeyTy:
		return "ClsPubKey"
	case txscript.PubKeyHashTy:
		return "ClsPubKeyHash"
	case txscript.ScriptHashTy:
		return "ClsScriptHash"
	case txscript.ScriptHash32Ty:
		return "ClsScriptHash32"
	case txscript.MultiSigTy:
		return "ClsMultiSig"
	case txscript.NullDataTy:
		return "ClsNullData"
	}
	return fmt.Sprintf("(ClsOther %d)", int(c))
}

func coqFlag(f uint8) string {
	switch wire.BloomUpdateType(f) {
	case wire.BloomUpdateNone:
		return "UpdNone"
	case wire.BloomUpdateAll:
		return "UpdAll"
	case wire.BloomUpdateP2PubkeyOnly:
		return "UpdP2PubkeyOnly"
	}
	return fmt.Sprintf("(UpdOther %d)", f)
}

// coqTx writes the transaction as the model sees it: txscript is the oracle for pushes and classes.
// items collects every byte string the model may query.
func coqTx(m *wire.MsgTx, items map[string][]byte) string {
	h := m.TxHash()
	items[string(h[:])] = h[:]
	var outs, ins []string
	for i, o := range m.TxOut {
		p, err := txscript.PushedData(o.PkScript)
		ps := "None"
		if err == nil {
			p = norm(p)
			ps = "(Some " + coqItems(p) + ")"
			for _, d := range p {
				items[string(d)] = d
			}
		}
		ob := opBytes(&h, uint32(i))
		items[string(ob)] = ob
		outs = append(outs, fmt.Sprintf("(%s, %s)", ps, coqClass(txscript.GetScriptClass(o.PkScript))))
	}
	for _, in := range m.TxIn {
		p, err := txscript.PushedData(in.SignatureScript)
		ps := "None"
		if err == nil {
			p = norm(p)
			ps = "(Some " + coqItems(p) + ")"
			for _, d := range p {
				items[string(d)] = d
			}
		}
		ob := opBytes(&in.PreviousOutPoint.Hash, in.PreviousOutPoint.Index)
		items[string(ob)] = ob
		ins = append(ins, fmt.Sprintf("(%s, %d, %s)", coqNum(in.PreviousOutPoint.Hash[:]), in.PreviousOutPoint.Index, ps))
	}
	return fmt.Sprintf("(T %s %s %s)", coqNum(h[:]), vh.CoqList(outs), vh.CoqList(ins))
}

func coqTable(p fParams, items map[string][]byte) string {
	keys := make([]string, 0, len(items))
	for k := range items {
		keys = append(keys, k)
	}
	sort.Strings(keys)
	ent := make([]string, len(keys))
	for i, k := range keys {
		ent[i] = fmt.Sprintf("(%s, %s)", coqNum(items[k]), maskOf(p, items[k]))
	}
	return vh.CoqList(ent)
}

// ---------------------------------------------------------------- replay descriptions
type scanReplay struct {
	Kind     string      `json:"kind"`
	Family   string      `json:"family,omitempty"`
	Order    string      `json:"order,omitempty"`
	Filter   fParams     `json:"filter"`
	Watch    []string    `json:"watch"`
	Txs      []string    `json:"txs,omitempty"` // serialized transactions, in block order
	Gen      *genSpec    `json:"generated,omitempty"` // wide scenarios: regenerated from these parameters instead of Txs
	Observed interface{} `json:"observed,omitempty"`
	Required interface{} `json:"required,omitempty"`
}

func rawTx(m *wire.MsgTx) string {
	var b bytes.Buffer
	m.Serialize(&b)
	return vh.Hex(b.Bytes())
}

func hexList(w [][]byte) []string {
	s := make([]string, len(w))
	for i, d := range w {
		s[i] = vh.Hex(d)
	}
	return s
}

func mkReplay(kind, family, order string, p fParams, watch [][]byte, txs []*wire.MsgTx, observed, required interface{}) scanReplay {
	rp := scanReplay{Kind: kind, Family: family, Order: order, Filter: p, Watch: hexList(watch), Observed: observed, Required: required}
	if curGen != nil { // the transactions are too large to print: the replay names the generator parameters and describes them
		g := *curGen
		rp.Gen = &g
		return rp
	}
	for _, t := range txs {
		rp.Txs = append(rp.Txs, rawTx(t))
	}
	return rp
}

// ---------------------------------------------------------------- cost measurement
func mallocs() uint64 {
	var ms runtime.MemStats
	runtime.ReadMemStats(&ms)
	return ms.Mallocs
}

// perCallAllocs: heap objects allocated by one direct MatchTxAndUpdate call on each transaction (maximum)
func perCallAllocs(p fParams, f0 []byte, txs []*wire.MsgTx) uint64 {
	var mx uint64
	for _, m := range txs {
		f := cloneFilter(p, f0)
		t := bchutil.NewTx(m.Copy())
		t.Hash()
		a := mallocs()
		f.MatchTxAndUpdate(t)
		d := mallocs() - a
		if d > mx {
			mx = d
		}
	}
	return mx
}

type scanResult struct {
	matched  map[int]bool
	final    []byte
	mallocs  uint64
	elapsed  time.Duration
	timedOut bool
	panicMsg string
	filter   *bloom.Filter
}

// runScan runs GetMatchedIndices on a fresh filter in its own goroutine with a deadline
func runScan(p fParams, f0 []byte, txs []*wire.MsgTx, deadline time.Duration) scanResult {
	res := scanResult{}
	blk := mkBlock(txs)
	blk.Transactions()
	f := cloneFilter(p, f0)
	done := make(chan struct{})
	go func() {
		defer close(done)
		defer func() {
			if e := recover(); e != nil {
				res.panicMsg = fmt.Sprint(e)
			}
		}()
		a := mallocs()
		t0 := time.Now()
		m := bloom.GetMatchedIndices(blk, f)
		res.elapsed = time.Since(t0)
		res.mallocs = mallocs() - a
		res.matched = m
	}()
	select {
	case <-done:
	case <-time.After(deadline):
		res.timedOut = true
		return res
	}
	res.final = filterBytes(f)
	res.filter = f
	return res
}

func totalInputs(txs []*wire.MsgTx) int {
	n := 0
	for _, t := range txs {
		n += len(t.TxIn)
	}
	return n
}

func distinctIDs(txs []*wire.MsgTx) bool {
	seen := map[chainhash.Hash]bool{}
	for _, t := range txs {
		h := t.TxHash()
		if seen[h] {
			return false
		}
		seen[h] = true
	}
	return true
}

func containsInt(a []int, x int) bool {
	for _, y := range a {
		if y == x {
			return true
		}
	}
	return false
}

func sortedKeys(m map[int]bool) []int {
	var k []int
	for i, v := range m {
		if v {
			k = append(k, i)
		}
	}
	sort.Ints(k)
	return k
}

// allocation budget of a scan that makes at most n + inputs filter matches: every match
// costs at most the largest single-call allocation count plus the bookkeeping of
// checkFilterTx (TxHash serialisation, map lookups); the index costs a few objects per input
func allocBudget(n, inputs int, perCall uint64) uint64 {
	return uint64(n+inputs)*(perCall+40) + uint64(16*inputs) + 256
}

// ---------------------------------------------------------------- one block scenario
type scenario struct {
	family     string
	order      string
	p          fParams
	watch      [][]byte
	txs        []*wire.MsgTx
	abs        []absTx // by construction (generation) or through txscript (replay)
	alias      bool    // a data push equals an outpoint serialisation: the exact-equality monitor does not apply
	aliasChain bool    // the constructed alias-chain family: the closure uses the aliasHot rule on exact filters
}

func checkScan(sc scenario, corr bool, costOnly bool) {
	n := len(sc.txs)
	inputs := totalInputs(sc.txs)
	f0 := filterBytes(newFilter(sc.p, sc.watch))
	replay := func(obs, req interface{}) scanReplay {
		return mkReplay("scan", sc.family, sc.order, sc.p, sc.watch, sc.txs, obs, req)
	}
	res := runScan(sc.p, f0, sc.txs, time.Duration(cfg.Scale(20, 60))*time.Second)
	key := fmt.Sprintf("%s/%s/%d/%v", sc.family, sc.order, sc.p.Flags, rawTxs(sc.txs))
	if res.timedOut {
		rep.Count("scan:"+sc.family+":"+sc.order, key, true)
		rep.Violate("C10:scan:cost", "GetMatchedIndices did not finish within the deadline on a block that needs at most n + inputs filter matches",
			replay(map[string]interface{}{"timed_out": true}, map[string]interface{}{"max_filter_matches": n + inputs}))
		return
	}
	if res.panicMsg != "" {
		rep.Count("scan:"+sc.family+":"+sc.order, key, true)
		rep.Violate("C10:scan:panic", "GetMatchedIndices panicked", replay(map[string]interface{}{"panic": res.panicMsg}, nil))
		return
	}
	// exact-set relevance closure
	watch := itemSet{}
	for _, x := range sc.watch {
		watch[string(x)] = true
	}
	rel := map[int]bool{}
	if sc.p.Loaded {
		rel = relClosure(watch, sc.p.Flags, sc.abs, sc.p.exact() && sc.aliasChain)
	}
	rep.Count("scan:"+sc.family+":"+sc.order, key, len(rel) > 0 && len(rel) < n)

	// cost: the scan may perform at most n + inputs filter matches (distinct txids)
	if distinctIDs(sc.txs) {
		per := perCallAllocs(sc.p, f0, sc.txs)
		budget := allocBudget(n, inputs, per)
		if res.mallocs > budget {
			// confirm on a second run (allocation counts are deterministic, but be safe against runtime noise)
			res2 := runScan(sc.p, f0, sc.txs, time.Duration(cfg.Scale(20, 60))*time.Second)
			if res2.timedOut || res2.mallocs > budget {
				rep.Violate("C10:scan:cost", "GetMatchedIndices does more work than n + inputs filter matches allow (heap objects allocated vs. budget from single-call measurements)",
					replay(map[string]interface{}{"heap_objects": res.mallocs, "elapsed_us": res.elapsed.Microseconds(), "estimated_filter_matches": res.mallocs / (per + 1)},
						map[string]interface{}{"max_filter_matches": n + inputs, "heap_object_budget": budget, "per_match_max": per}))
			}
		}
	}
	if costOnly {
		return
	}

	// generator-quality statistics: did the re-check of earlier dependants matter, were there false positives
	{
		f := cloneFilter(sc.p, f0)
		single := map[int]bool{}
		for i, m := range sc.txs {
			if f.MatchTxAndUpdate(bchutil.NewTx(m.Copy())) {
				single[i] = true
			}
		}
		if fmt.Sprint(sortedKeys(single)) != fmt.Sprint(sortedKeys(res.matched)) {
			stats["scans_where_recheck_of_dependants_mattered"]++
		}
		if len(res.matched) > len(rel) && sc.p.Loaded && sc.p.Size > 0 && sc.p.K > 0 {
			stats["scans_reporting_false_positives"]++
		}
		if len(rel) > 0 {
			stats["scans_with_relevant_transactions"]++
		}
		direct := 0
		for i, t := range sc.abs {
			if rel[i] && matchesSet(watch, t) {
				direct++
			}
		}
		if sc.p.Loaded && direct < len(rel) {
			stats["scans_with_transactions_relevant_only_through_a_spent_outpoint"]++
		}
		stats["scans"]++
	}

	// completeness: every relevant transaction is reported
	for i := range sc.txs {
		if rel[i] && !res.matched[i] {
			rep.Violate("C10:scan:complete", "a transaction relevant to the loaded filter (exact-set closure) is not reported",
				replay(map[string]interface{}{"matched": sortedKeys(res.matched)}, map[string]interface{}{"relevant": sortedKeys(rel), "missing": i}))
			break
		}
	}
	// soundness: nothing reported that the final filter does not match
	for _, i := range sortedKeys(res.matched) {
		if i < 0 || i >= n {
			rep.Violate("C10:scan:sound", "reported index out of range", replay(map[string]interface{}{"matched": sortedKeys(res.matched)}, nil))
			break
		}
		if !finalMatches(res.filter, sc.txs[i]) {
			rep.Violate("C10:scan:sound", "a reported transaction does not match the final filter",
				replay(map[string]interface{}{"matched": sortedKeys(res.matched), "index": i}, nil))
			break
		}
	}
	// with negligible false positives and no data aliasing the report is exactly the closure,
	// and the final filter is exactly the initial one plus the prescribed outpoints
	if sc.p.exact() && !sc.alias {
		if fmt.Sprint(sortedKeys(res.matched)) != fmt.Sprint(sortedKeys(rel)) {
			rep.Violate("C10:scan:exact", "with a filter without false positives the reported set differs from the relevance closure",
				replay(map[string]interface{}{"matched": sortedKeys(res.matched)}, map[string]interface{}{"relevant": sortedKeys(rel)}))
		}
		ref := cloneFilter(sc.p, f0)
		for i, t := range sc.abs {
			if !rel[i] {
				continue
			}
			for k, o := range t.outs {
				hot := !o.err && watch.hasAny(o.pushes)
				if sc.aliasChain && o.aliasHot && !matchesSet(watch, t) {
					hot = true
				}
				if hot && flagAllows(sc.p.Flags, o.upd) {
					ref.Add(opBytes(&t.id, uint32(k))) // txid ++ LE32(index), serialised here
				}
			}
		}
		if !bytes.Equal(filterBytes(ref), res.final) {
			rep.Violate("C10:scan:update", "final filter differs from the initial filter plus the outpoints of the relevant transactions' matching outputs allowed by the update flag",
				replay(map[string]interface{}{"matched": sortedKeys(res.matched)}, map[string]interface{}{"relevant": sortedKeys(rel)}))
		}
	}
	// the matched-INDEX lists of both merkle-block builders (the property's observation points): equal to
	// GetMatchedIndices, ascending, and - on filters without false positives - equal to the relevance closure
	// itself (index 0 / the coinbase position included)
	for _, b := range []struct {
		name, key string
		call      func(*bchutil.Block, *bloom.Filter) (*wire.MsgMerkleBlock, []uint32)
	}{
		{"bloom.NewMerkleBlock", "C10:scan:merkleblock", bloom.NewMerkleBlock},
		{"merkleblock.NewMerkleBlockWithFilter", "C10:scan:merkleblock_withfilter", merkleblock.NewMerkleBlockWithFilter},
	} {
		f := cloneFilter(sc.p, f0)
		var idxs []uint32
		var mb *wire.MsgMerkleBlock
		if p, msg := vh.Catch(func() { mb, idxs = b.call(mkBlock(sc.txs), f) }); p {
			rep.Violate("C10:scan:panic", b.name+" panicked", replay(map[string]interface{}{"panic": msg, "builder": b.name}, nil))
			continue
		}
		a := []int{}
		for _, x := range idxs {
			a = append(a, int(x))
		}
		if fmt.Sprint(a) != fmt.Sprint(append([]int{}, sortedKeys(res.matched)...)) {
			rep.Violate(b.key, b.name+"'s matched-index list differs from GetMatchedIndices (ascending)",
				replay(map[string]interface{}{"builder": b.name, "index_list": a, "matched": sortedKeys(res.matched)}, nil))
		}
		for i := range sc.txs {
			if rel[i] && !containsInt(a, i) {
				rep.Violate(b.key+":complete", "a transaction relevant to the loaded filter (exact-set closure) is missing from "+b.name+"'s matched-index list",
					replay(map[string]interface{}{"builder": b.name, "index_list": a}, map[string]interface{}{"relevant": sortedKeys(rel), "missing": i}))
				break
			}
		}
		if sc.p.exact() && !sc.alias && fmt.Sprint(a) != fmt.Sprint(append([]int{}, sortedKeys(rel)...)) {
			rep.Violate(b.key+":exact", "with a filter without false positives "+b.name+"'s matched-index list differs from the relevance closure",
				replay(map[string]interface{}{"builder": b.name, "index_list": a}, map[string]interface{}{"relevant": sortedKeys(rel)}))
		}
		if mb != nil && int(mb.Transactions) != n {
			rep.Violate(b.key, b.name+": the message's transaction count differs from the block's",
				replay(map[string]interface{}{"builder": b.name, "transactions": mb.Transactions}, map[string]interface{}{"transactions": n}))
		}
		if !bytes.Equal(filterBytes(f), res.final) {
			rep.Violate(b.key, b.name+" leaves the filter in a different state than GetMatchedIndices on the same block",
				replay(map[string]interface{}{"builder": b.name}, nil))
		}
	}
	if rel[0] {
		stats["scans_with_first_transaction_relevant"]++
	}

	if corr {
		items := map[string][]byte{}
		var ts []string
		for _, m := range sc.txs {
			ts = append(ts, coqTx(m, items))
		}
		var mi []string
		for _, i := range sortedKeys(res.matched) {
			mi = append(mi, vh.CoqNat(i))
		}
		term := fmt.Sprintf("Scan %s %s %s %s %s %s %s", coqTable(sc.p, items), vh.CoqBool(sc.p.Loaded), coqFlag(sc.p.Flags),
			bitsN(f0), vh.CoqList(ts), vh.CoqList(mi), bitsN(res.final))
		cases.Add(term, replay(map[string]interface{}{"matched": sortedKeys(res.matched), "final_filter": vh.Hex(res.final)}, nil))
	}
	rep.Sample(map[string]interface{}{"family": sc.family, "order": sc.order, "n": n, "inputs": inputs, "filter": sc.p,
		"relevant": sortedKeys(rel), "matched": sortedKeys(res.matched)}, 6)
}

func rawTxs(txs []*wire.MsgTx) string {
	var sb strings.Builder
	for _, t := range txs {
		h := t.TxHash()
		sb.Write(h[:4])
	}
	return sb.String()
}

// ---------------------------------------------------------------- one transaction
func checkMatch(p fParams, watch [][]byte, m *wire.MsgTx, corr bool, kind string) {
	f := newFilter(p, watch)
	f0 := filterBytes(f)
	replay := func(obs, req interface{}) scanReplay {
		return mkReplay("match", kind, "", p, watch, []*wire.MsgTx{m}, obs, req)
	}
	var r bool
	if pn, msg := vh.Catch(func() { r = f.MatchTxAndUpdate(bchutil.NewTx(m.Copy())) }); pn {
		rep.Count("match:"+kind, rawTx(m), true)
		rep.Violate("C10:match:panic", "MatchTxAndUpdate panicked", replay(map[string]interface{}{"panic": msg}, nil))
		return
	}
	f1 := filterBytes(f)
	ref := cloneFilter(p, f0)
	want := refMatchUpdate(ref, p.Flags, m)
	rep.Count("match:"+kind, fmt.Sprintf("%v/%s/%s", p, hexList(watch), rawTx(m)), r || !bytes.Equal(f0, f1))
	if want != r {
		rep.Violate("C10:match:iff", "MatchTxAndUpdate's result differs from the four-way disjunction (txid, output pushes, spent outpoints, input pushes)",
			replay(map[string]interface{}{"result": r}, map[string]interface{}{"result": want}))
	}
	if !bytes.Equal(filterBytes(ref), f1) {
		rep.Violate("C10:match:update", "after MatchTxAndUpdate the filter is not the initial filter plus the outpoints of the matching outputs the update flag prescribes",
			replay(map[string]interface{}{"filter_after": vh.Hex(f1)}, map[string]interface{}{"filter_after": vh.Hex(filterBytes(ref))}))
	}
	// on a filter without false positives: the result is the four-way disjunction over the EXACT watch set and the
	// filter afterwards is the initial one plus txid ++ LE32(k) for every output k that carries a watched push and
	// whose class the flag lets be inserted - both computed here without the filter's own outpoint entry points
	if p.exact() {
		ws := itemSet{}
		for _, x := range watch {
			ws[string(x)] = true
		}
		a := absFromMsg(m)
		selfAlias := false // an output push equal to one of the transaction's own outpoints (not generated; replay safety)
		for _, o := range a.outs {
			for _, d := range o.pushes {
				if len(d) == 36 && bytes.Equal(d[:32], a.id[:]) {
					selfAlias = true
				}
			}
		}
		if want2 := matchesSet(ws, a); want2 != r {
			rep.Violate("C10:match:exact", "on a filter without false positives MatchTxAndUpdate's result differs from the four-way disjunction over the exact watch set (outpoints serialised as txid ++ LE32 index)",
				replay(map[string]interface{}{"result": r}, map[string]interface{}{"result": want2}))
		}
		if !selfAlias {
			ref2 := cloneFilter(p, f0)
			var ins []string
			for k, o := range a.outs {
				if !o.err && ws.hasAny(o.pushes) && flagAllows(p.Flags, o.upd) {
					ref2.Add(opBytes(&a.id, uint32(k)))
					ins = append(ins, fmt.Sprint(k))
				}
			}
			if !bytes.Equal(filterBytes(ref2), f1) {
				rep.Violate("C10:match:update", "after MatchTxAndUpdate the filter is not the initial filter plus the outpoints of the matching outputs the update flag prescribes",
					replay(map[string]interface{}{"filter_after_differs": true}, map[string]interface{}{"outpoints_inserted_for_outputs": ins, "serialisation": "txid ++ LE32(output index)"}))
			}
		}
	}
	// bits are only ever added
	for i := range f0 {
		if f0[i]&^f1[i] != 0 {
			rep.Violate("C10:match:monotone", "MatchTxAndUpdate cleared a filter bit", replay(map[string]interface{}{"before": vh.Hex(f0), "after": vh.Hex(f1)}, nil))
			break
		}
	}
	if corr {
		items := map[string][]byte{}
		tt := coqTx(m, items)
		term := fmt.Sprintf("MatchTx %s %s %s %s %s %s %s", coqTable(p, items), vh.CoqBool(p.Loaded), coqFlag(p.Flags), bitsN(f0), tt, vh.CoqBool(r), bitsN(f1))
		cases.Add(term, replay(map[string]interface{}{"result": r, "filter_after": vh.Hex(f1)}, nil))
	}
}

// ---------------------------------------------------------------- watch sets
func genWatch(r *vh.RNG, w *wallet, txs []*gTx) [][]byte {
	var ws [][]byte
	add := func(d []byte) { ws = append(ws, append([]byte(nil), d...)) }
	for _, h := range w.h160 {
		if r.Intn(6) != 0 {
			add(h)
		}
	}
	for _, k := range w.pubs {
		if r.Intn(3) != 0 {
			add(k)
		}
	}
	if r.Intn(2) == 0 {
		add(w.h256[0])
	}
	if r.Intn(3) == 0 {
		add(vh.Pick(r, w.tags))
	}
	if r.Intn(3) == 0 {
		add(vh.Pick(r, w.bigs))
	}
	if len(txs) > 0 {
		if r.Intn(3) == 0 { // a transaction id (preferably of a transaction with outputs)
			add(vh.Pick(r, txs).id[:])
		}
		if r.Intn(3) == 0 { // an outpoint some transaction spends
			t := vh.Pick(r, txs)
			if len(t.msg.TxIn) > 0 {
				in := vh.Pick(r, t.msg.TxIn)
				add(opBytes(&in.PreviousOutPoint.Hash, in.PreviousOutPoint.Index))
			}
		}
		if r.Intn(6) == 0 { // a signature push
			t := vh.Pick(r, txs)
			if len(t.ins) > 0 {
				s := vh.Pick(r, t.ins)
				if len(s.pushes) > 0 {
					add(s.pushes[0])
				}
			}
		}
	}
	if r.Intn(10) == 0 {
		add([]byte{}) // the empty item
	}
	if r.Intn(12) == 0 {
		ws = nil // empty filter
	}
	return ws
}

func msgs(txs []*gTx) []*wire.MsgTx {
	out := make([]*wire.MsgTx, len(txs))
	for i, t := range txs {
		out[i] = t.msg
	}
	return out
}

func absList(txs []*gTx) []absTx {
	out := make([]absTx, len(txs))
	for i, t := range txs {
		out[i] = t.abs()
	}
	return out
}

func selfCheckOracle(txs []*gTx) {
	for _, t := range txs {
		if !sameAbs(t.abs(), absFromMsg(t.msg)) {
			a, _ := json.Marshal(absJSON(t.abs()))
			b, _ := json.Marshal(absJSON(absFromMsg(t.msg)))
			vh.Must(fmt.Errorf("generator and txscript disagree about a script:\n by construction %s\n by txscript     %s", a, b))
		}
	}
}

// ---------------------------------------------------------------- the cost family
// deep chains in reverse-topological order in which every transaction matches on its own:
// linear for "recurse only when newly matched", exponential/quadratic if a re-matched
// transaction re-recurses into its dependants
func costFamily(r *vh.RNG, shape string, L int) scenario {
	w := newWallet(r)
	var built []*gTx
	for i := 0; i < L; i++ {
		var prevs []prevRef
		switch {
		case i == 0:
			prevs = []prevRef{{-1, 0}}
		case shape == "chain2":
			prevs = []prevRef{{i - 1, 0}, {i - 1, 1}}
		case shape == "fib" && i >= 2:
			prevs = []prevRef{{i - 1, 0}, {i - 2, 1}}
		default:
			prevs = []prevRef{{i - 1, 0}}
		}
		built = append(built, buildTx(r, w, built, prevs, 2, 10, "p2pkh"))
	}
	txs := permute(r, built, "reverse")
	var watch [][]byte
	for _, h := range w.h160 {
		watch = append(watch, h)
	}
	return scenario{family: "cost-" + shape, order: "reverse", p: fParams{Size: 8192, K: 12, Tweak: 7, Flags: 1, Loaded: true}, watch: watch, txs: msgs(txs), abs: absList(txs)}
}

// ---------------------------------------------------------------- the alias-chain family
// G pays the watched address; every later link spends output 0 of its predecessor with a
// signature script that pushes nothing and carries, as its output 0, a data push equal to
// the serialisation of the outpoint it spends (token-style outputs referencing their
// funding outpoint); it matches in no other way.  Such a link becomes relevant, and gets
// its own outpoint inserted, only when its predecessor's outpoint is in the filter, which
// in most orders happens on the re-check.  The last link carries no alias.
func aliasChain(r *vh.RNG, w *wallet, n int) []*gTx {
	var built []*gTx
	built = append(built, buildTx(r, w, built, []prevRef{{-1, 0}}, 1+r.Intn(2), 10, "p2pkh"))
	for i := 1; i < n; i++ {
		prev := built[i-1]
		m := wire.NewMsgTx(1)
		op := wire.OutPoint{Hash: prev.id, Index: 0}
		sig := []byte{0x51}
		m.AddTxIn(wire.NewTxIn(&op, sig))
		t := &gTx{msg: m, ins: []gScript{{sig, [][]byte{}, false, false, "op1"}}}
		if i < n-1 || r.Bool() {
			d := opBytes(&prev.id, 0)
			s := cat([]byte{0x6a}, push(d))
			m.AddTxOut(wire.NewTxOut(0, s, wire.TokenData{}))
			t.outs = append(t.outs, gScript{s, [][]byte{d}, false, false, "alias"})
		}
		if r.Bool() || len(t.outs) == 0 {
			o := genOutScript(r, w, "p2pkh", 0)
			m.AddTxOut(wire.NewTxOut(1000, o.script, wire.TokenData{}))
			t.outs = append(t.outs, o)
		}
		m.LockTime = r.U32()
		t.id = m.TxHash()
		built = append(built, t)
	}
	return built
}

func permutations(n int) [][]int {
	if n == 0 {
		return [][]int{{}}
	}
	var out [][]int
	for _, p := range permutations(n - 1) {
		for i := 0; i <= len(p); i++ {
			q := append(append(append([]int{}, p[:i]...), n-1), p[i:]...)
			out = append(out, q)
		}
	}
	return out
}

// ---------------------------------------------------------------- coinbase-shaped and wide transactions
func coinbaseTx(r *vh.RNG, w *wallet, own int) *gTx {
	m := wire.NewMsgTx(1)
	d1, d2 := r.Bytes(3), r.Bytes(8)
	sig := gScript{cat(push(d1), push(d2)), [][]byte{d1, d2}, false, false, "coinbase"}
	if r.Intn(4) == 0 { // arbitrary coinbase bytes that do not parse as a script
		sig = gScript{cat(push(d1), []byte{0x4d, 0xff}), nil, true, false, "coinbase-unparsable"}
	}
	m.AddTxIn(wire.NewTxIn(&wire.OutPoint{Index: 0xffffffff}, sig.script))
	t := &gTx{msg: m, ins: []gScript{sig}}
	for k := 1 + r.Intn(2); k > 0; k-- {
		o := genOutScript(r, w, vh.Pick(r, []string{"p2pkh", "p2pk", "p2pkh", "nulldata"}), own)
		t.outs = append(t.outs, o)
		m.AddTxOut(wire.NewTxOut(int64(50e8), o.script, wire.TokenData{}))
	}
	m.LockTime = r.U32()
	t.id = m.TxHash()
	return t
}

// genSpec names a generated wide scenario (see buildGen); the replay carries it instead of megabytes of hex
type genSpec struct {
	Name     string                 `json:"name"` // wide-out | wide-in | wide-block
	N        int                    `json:"n"`    // outputs of the wide transaction / inputs / transactions of the block
	Variant  int                    `json:"variant"`
	Seed     uint64                 `json:"seed"`
	Order    string                 `json:"order"`
	Flags    uint8                  `json:"flags"`
	Describe map[string]interface{} `json:"describe,omitempty"`
}

var curGen *genSpec

var emptyScript = gScript{[]byte{}, [][]byte{}, false, false, "empty"}

// buildGen: deterministic in g.  All filters are exact (8192 bytes, 12 hash functions).
//
//	wide-out    W has N outputs, all empty scripts except the LAST (variant&2: also output 0), which pays the wallet
//	            (variant&1: pay-to-pubkey, else pay-to-pubkey-hash).  Children (foreign material only) spend (W, N-1) -
//	            relevant when the flag lets the outpoint be inserted - and, as decoys, (W, (N-1) mod 2^16),
//	            (W, (N-1) mod 2^8), (W, N-2), (W, N) and an EXTERNAL outpoint with index N-1.
//	wide-in     P pays the wallet with output 1; C has N inputs (fillers spend (X, position)), the LAST spends (P,1)
//	            (variant&1: position N/2; variant&2: instead, its signature script pushes a watched tag).
//	wide-block  N transactions: R pays the wallet, S spends R's output; variant 0: S first, R last; variant 1: R first
//	            (index 0), S last; everything in between is foreign.
func buildGen(g *genSpec) scenario {
	r := vh.NewRNG(g.Seed)
	w := newWallet(r)
	var built []*gTx
	desc := map[string]interface{}{}
	switch g.Name {
	case "wide-out":
		shape := "p2pkh"
		if g.Variant&1 == 1 {
			shape = "p2pk"
		}
		hot := map[int]bool{g.N - 1: true}
		if g.Variant&2 != 0 {
			hot[0] = true
		}
		m := wire.NewMsgTx(1)
		var h chainhash.Hash
		copy(h[:], r.Bytes(32))
		m.AddTxIn(wire.NewTxIn(&wire.OutPoint{Hash: h, Index: 0}, []byte{}))
		W := &gTx{msg: m, ins: []gScript{emptyScript}, outs: make([]gScript, 0, g.N)}
		for i := 0; i < g.N; i++ {
			o := emptyScript
			if hot[i] {
				o = genOutScript(r, w, shape, 10)
			}
			W.outs = append(W.outs, o)
			m.AddTxOut(wire.NewTxOut(1, o.script, wire.TokenData{}))
		}
		m.LockTime = r.U32()
		W.id = m.TxHash()
		built = append(built, W)
		last := g.N - 1
		var spent []string
		seen := map[int]bool{}
		for _, d := range []int{last, last % 65536, last % 256, last - 1, last + 1, last - 65536, last - 256} {
			if d < 0 || seen[d] || (d != last && hot[d]) {
				continue
			}
			seen[d] = true
			built = append(built, buildTx(r, w, built, []prevRef{{0, uint32(d)}}, 1, 0, "p2pkh"))
			spent = append(spent, fmt.Sprintf("tx %d spends (W,%d)", len(built)-1, d))
		}
		built = append(built, buildTx(r, w, built, []prevRef{{-1, uint32(last)}}, 1, 0, "p2pkh"))
		desc["W"] = map[string]interface{}{"txid": W.id.String(), "outputs": g.N, "outputs_paying_the_wallet": sortedKeys(hot), "script_shape": shape, "serialised_bytes": m.SerializeSize()}
		desc["creation_order"] = append([]string{"tx 0 = W"}, append(spent, fmt.Sprintf("tx %d spends an external outpoint with index %d", len(built)-1, last))...)
	case "wide-in":
		P := buildTx(r, w, nil, []prevRef{{-1, 0}}, 2, 10, "p2pkh")
		built = append(built, P)
		pos := g.N - 1
		if g.Variant&1 == 1 {
			pos = g.N / 2
		}
		m := wire.NewMsgTx(1)
		var x chainhash.Hash
		copy(x[:], r.Bytes(32))
		C := &gTx{msg: m, ins: make([]gScript, 0, g.N)}
		for i := 0; i < g.N; i++ {
			op := wire.OutPoint{Hash: x, Index: uint32(i)}
			sig := emptyScript
			if i == pos {
				if g.Variant&2 != 0 {
					sig = gScript{cat(push(w.tags[0]), []byte{0x51}), [][]byte{w.tags[0]}, false, false, "tag"}
				} else {
					op = wire.OutPoint{Hash: P.id, Index: 1}
				}
			}
			C.ins = append(C.ins, sig)
			m.AddTxIn(wire.NewTxIn(&op, sig.script))
		}
		o := genOutScript(r, w, "p2pkh", 0)
		C.outs = []gScript{o}
		m.AddTxOut(wire.NewTxOut(1, o.script, wire.TokenData{}))
		m.LockTime = r.U32()
		C.id = m.TxHash()
		built = append(built, C)
		desc["C"] = map[string]interface{}{"txid": C.id.String(), "inputs": g.N, "relevant_input_position": pos, "relevant_because": map[bool]string{false: "spends (P,1), P's output paying the wallet", true: "its signature script pushes a watched tag"}[g.Variant&2 != 0], "serialised_bytes": m.SerializeSize()}
		desc["creation_order"] = []string{"tx 0 = P", "tx 1 = C"}
	case "wide-block":
		R := buildTx(r, w, nil, []prevRef{{-1, 0}}, 1, 10, vh.Pick(r, []string{"p2pkh", "p2pk"}))
		S := buildTx(r, w, []*gTx{R}, []prevRef{{0, 0}}, 1, 0, "p2pkh")
		first, last := S, R
		if g.Variant&1 == 1 {
			first, last = R, S
		}
		built = append(built, first)
		for i := 0; i < g.N-2; i++ {
			m := wire.NewMsgTx(1)
			var x chainhash.Hash
			copy(x[:], r.Bytes(32))
			m.AddTxIn(wire.NewTxIn(&wire.OutPoint{Hash: x, Index: uint32(i)}, []byte{}))
			o := genOutScript(r, w, "p2pkh", 0)
			m.AddTxOut(wire.NewTxOut(1, o.script, wire.TokenData{}))
			built = append(built, &gTx{msg: m, id: m.TxHash(), outs: []gScript{o}, ins: []gScript{emptyScript}})
		}
		built = append(built, last)
		desc["block"] = map[string]interface{}{"transactions": len(built), "R_pays_the_wallet_at_position": map[bool]int{false: len(built) - 1, true: 0}[g.Variant&1 == 1],
			"S_spends_R_output_0_at_position": map[bool]int{true: len(built) - 1, false: 0}[g.Variant&1 == 1], "R": R.id.String(), "S": S.id.String()}
	default:
		vh.Must(fmt.Errorf("unknown generated scenario %q", g.Name))
	}
	ptx := built
	if g.Order != "as-built" {
		ptx = permute(r, built, g.Order)
		var pos []string
		for _, t := range ptx {
			for j, b := range built {
				if b == t {
					pos = append(pos, fmt.Sprint(j))
				}
			}
		}
		desc["block_order_by_creation_index"] = strings.Join(pos, ",")
	}
	g.Describe = desc
	watch := append(append([][]byte{}, w.h160...), w.pubs...)
	watch = append(watch, w.tags[0])
	return scenario{family: g.Name, order: g.Order, p: fParams{Size: 8192, K: 12, Tweak: uint32(g.Seed), Flags: g.Flags, Loaded: true},
		watch: watch, txs: msgs(ptx), abs: absList(ptx)}
}

func runGen(g genSpec, kind string) {
	sc := buildGen(&g)
	curGen = &g
	defer func() { curGen = nil }()
	rep.Count("gen:"+g.Name+fmt.Sprintf(":%d", g.N), "", false)
	if kind == "match" {
		for _, m := range sc.txs[:1] { // the wide transaction on its own
			checkMatch(sc.p, sc.watch, m, false, g.Name)
		}
		return
	}
	checkScan(sc, false, false)
}

// ---------------------------------------------------------------- the production configuration (Round 3)
// bin/check builds this command with -tags verif; library code compiled only WITHOUT that tag is not in such a
// binary.  The tagged binary therefore builds the command again with no tag (what users of the library compile; same
// module graph: GOFLAGS is inherited) and runs the same generators and monitors in it at the driver's tier; the
// child's violations are merged under their keys, the replay says which build showed them.
func runProdChild(extra ...string) {
	if !builtWithVerifTag {
		return
	}
	dir, _ := os.Getwd()
	if exe, err := os.Executable(); err == nil {
		if d := filepath.Dir(filepath.Dir(exe)); fileExists(filepath.Join(d, "go.mod")) {
			dir = d
		}
	}
	bin := filepath.Join(dir, "bin", "c10_prod")
	build := exec.Command("go", "build", "-o", bin, "./cmd/c10")
	build.Dir = dir
	if out, err := build.CombinedOutput(); err != nil {
		if len(out) > 1500 {
			out = out[:1500]
		}
		rep.Extra["production_build"] = "go build (no tags) of cmd/c10 failed: " + err.Error() + ": " + string(out)
		fmt.Fprintln(os.Stderr, "c10: production build failed:", err)
		return
	}
	out := filepath.Join(cfg.Out, "prod")
	cmd := exec.Command(bin, append([]string{"-seed", fmt.Sprint(cfg.Seed), "-tier", cfg.Tier, "-out", out}, extra...)...)
	cmd.Dir = dir
	cmd.Stderr = os.Stderr
	if err := cmd.Run(); err != nil {
		rep.Extra["production_build"] = "run failed: " + err.Error()
	}
	raw, err := os.ReadFile(filepath.Join(out, "report.json"))
	os.RemoveAll(out)
	var pr vh.Report
	if err != nil || json.Unmarshal(raw, &pr) != nil {
		return
	}
	rep.Extra["production_build"] = fmt.Sprintf("cmd/c10 rebuilt without any build tag and run as a child: %d executions, %d violations", pr.Evaluations, len(pr.Violations))
	rep.Histogram["production-build executions"] = pr.Evaluations
	for _, v := range pr.Violations {
		r, _ := v.Replay.(map[string]interface{})
		if r == nil {
			r = map[string]interface{}{"input": v.Replay}
		}
		r["build"] = "production configuration (go build without -tags verif); the tagged build may not show it"
		rep.Violate(v.Key, v.What, r)
	}
}

func fileExists(p string) bool { _, err := os.Stat(p); return err == nil }

// ---------------------------------------------------------------- replay
func runReplay(path string) {
	raw, err := os.ReadFile(path)
	vh.Must(err)
	var outer struct {
		Input scanReplay `json:"input"`
	}
	vh.Must(json.Unmarshal(raw, &outer))
	in := outer.Input
	if in.Kind == "" {
		vh.Must(json.Unmarshal(raw, &in))
	}
	if in.Gen != nil {
		runGen(*in.Gen, in.Kind)
		return
	}
	var txs []*wire.MsgTx
	for _, h := range in.Txs {
		b, err := hex.DecodeString(h)
		vh.Must(err)
		m := wire.NewMsgTx(1)
		vh.Must(m.Deserialize(bytes.NewReader(b)))
		txs = append(txs, m)
	}
	var watch [][]byte
	for _, h := range in.Watch {
		b, err := hex.DecodeString(h)
		vh.Must(err)
		watch = append(watch, b)
	}
	switch in.Kind {
	case "match":
		checkMatch(in.Filter, watch, txs[0], false, "replay")
	default:
		sc := scenario{family: in.Family, order: in.Order, p: in.Filter, watch: watch, txs: txs}
		for _, m := range txs {
			sc.abs = append(sc.abs, absFromMsg(m))
		}
		sc.aliasChain = in.Family == "refchain"
		sc.alias = strings.HasPrefix(in.Family, "alias-") || (sc.aliasChain && !in.Filter.exact())
		checkScan(sc, false, false)
	}
}

// ---------------------------------------------------------------- main
func main() {
	cfg = vh.ParseFlags("C10")
	rep = vh.NewReport(cfg)
	rep.Rule = "random spend DAGs (chain, two-input chain, diamond, fan/double-spend, random, duplicate-transaction, data-alias) x {topological, reverse, CTOR, random} orders x update flags {none, all, p2pubkey-only, other} x script shapes; a block case is non-trivial when some but not all of its transactions are relevant (exact-set closure), a single-transaction case when it matched or changed the filter; distinct by block content, order and filter"
	cases = vh.NewCases(cfg, "Run.Run_C10", 150)
	if cfg.Replay != "" {
		runReplay(cfg.Replay)
		runProdChild("-replay", cfg.Replay)
		vh.Must(rep.Write(cfg))
		fmt.Printf("c10 replay: %d monitor violations\n", len(rep.Violations))
		return
	}
	rng := vh.NewRNG(cfg.Seed)
	wide := cfg.Search || cfg.Thorough()

	// --- single transactions
	r := rng.Fork("match")
	nm := cfg.Scale(1500, 12000)
	if cfg.Search {
		nm = 40000
	}
	corrEvery := cfg.Scale(5, 12)
	for i := 0; i < nm; i++ {
		w := newWallet(r)
		own := 2 + r.Intn(7)
		var prevs []prevRef
		for j := r.Intn(4); j > 0; j-- {
			prevs = append(prevs, prevRef{-1, uint32(r.Intn(4))})
		}
		t := buildTx(r, w, nil, prevs, r.Intn(5), own, "")
		selfCheckOracle([]*gTx{t})
		watch := genWatch(r, w, []*gTx{t})
		if i%7 == 0 { // watch one of the transaction's own future outpoints: a later output of the same transaction is not affected, an input spending it is
			if len(t.outs) > 0 {
				watch = append(watch, opBytes(&t.id, uint32(r.Intn(len(t.outs)))))
			}
		}
		p := genParams(r, vh.Pick(r, flagChoices))
		checkMatch(p, watch, t.msg, !cfg.Search && i%corrEvery == 0 && p.Size <= 256, "random")
	}
	// fixed edge cases: no inputs/outputs, all shapes once under every flag
	{
		w := newWallet(r)
		for _, fl := range []uint8{0, 1, 2, 3} {
			for _, sh := range outShapes {
				t := buildTx(r, w, nil, []prevRef{{-1, 0}}, 2, 10, sh)
				selfCheckOracle([]*gTx{t})
				watch := append(append(append([][]byte{}, w.h160...), w.pubs...), w.tags...)
				watch = append(watch, w.h256...)
				checkMatch(fParams{Size: 32, K: 5, Tweak: 1, Flags: fl, Loaded: true}, watch, t.msg, !cfg.Search, "shape:"+sh)
			}
			t := buildTx(r, w, nil, nil, 0, 10, "")
			checkMatch(fParams{Size: 8, K: 2, Tweak: 0, Flags: fl, Loaded: true}, [][]byte{t.id[:]}, t.msg, !cfg.Search, "empty-tx")
		}
	}

	// --- blocks
	// fixed edge cases: the empty block, a block of one transaction without inputs or outputs
	{
		r = rng.Fork("scan-edge")
		w := newWallet(r)
		for _, fl := range []uint8{0, 1, 2} {
			p := fParams{Size: 8, K: 3, Tweak: 5, Flags: fl, Loaded: true}
			checkScan(scenario{family: "empty-block", order: "topological", p: p, watch: [][]byte{w.h160[0]}}, !cfg.Search, false)
			t := buildTx(r, w, nil, nil, 0, 0, "")
			checkScan(scenario{family: "bare-tx", order: "topological", p: p, watch: [][]byte{t.id[:]}, txs: msgs([]*gTx{t}), abs: absList([]*gTx{t})}, !cfg.Search, false)
		}
	}
	r = rng.Fork("scan")
	families := []string{"chain", "chain2", "diamond", "fan", "multiout", "random", "random", "random"}
	orders := []string{"topological", "reverse", "ctor", "random"}
	nb := cfg.Scale(260, 2500)
	if cfg.Search {
		nb = 8000
	}
	scanCorr := cfg.Scale(3, 10)
	for i := 0; i < nb; i++ {
		w := newWallet(r)
		fam := vh.Pick(r, families)
		n := 1 + r.Intn(cfg.Scale(9, 12))
		if fam == "diamond" {
			n = 4 * (1 + r.Intn(2))
		}
		own := 2 + r.Intn(7)
		txs := genDAG(r, w, fam, n, own)
		selfCheckOracle(txs)
		alias := false
		switch {
		case i%23 == 5 && len(txs) >= 2: // duplicate transaction in the block
			txs = append(txs, txs[r.Intn(len(txs))])
			fam += "+dup"
		case i%23 == 11 && len(txs) >= 2: // a data push equal to another transaction's outpoint serialisation
			p := vh.Pick(r, txs)
			if len(p.outs) > 0 {
				d := opBytes(&p.id, uint32(r.Intn(len(p.outs))))
				m := wire.NewMsgTx(1)
				var h chainhash.Hash
				copy(h[:], r.Bytes(32))
				m.AddTxIn(wire.NewTxIn(&wire.OutPoint{Hash: h, Index: 0}, nil))
				s := cat([]byte{0x6a}, push(d))
				m.AddTxOut(wire.NewTxOut(0, s, wire.TokenData{}))
				t := &gTx{msg: m, id: m.TxHash(), outs: []gScript{{s, [][]byte{d}, false, false, "alias"}}, ins: []gScript{{nil, [][]byte{}, false, false, "empty"}}}
				txs = append(txs, t)
				fam = "alias-" + fam
				alias = true
			}
		}
		watch := genWatch(r, w, txs)
		flags := vh.Pick(r, flagChoices)
		p := genParams(r, flags)
		for oi, ord := range orders {
			ptx := permute(r, txs, ord)
			sc := scenario{family: fam, order: ord, p: p, watch: watch, txs: msgs(ptx), abs: absList(ptx), alias: alias}
			corr := !cfg.Search && p.Size <= 256 && (i%scanCorr == 0 || (alias && oi < 2)) && (oi == i%4 || oi == (i+1)%4 && i%2 == 0)
			checkScan(sc, corr, false)
		}
	}

	// --- coinbase position: a coinbase-shaped first transaction (null outpoint, index 2^32-1) that pays the wallet, a
	// later transaction spending it; the first transaction keeps its place in every order
	r = rng.Fork("coinbase")
	ncb := cfg.Scale(40, 400)
	if cfg.Search {
		ncb = 1500
	}
	for i := 0; i < ncb; i++ {
		w := newWallet(r)
		cb := coinbaseTx(r, w, vh.Pick(r, []int{10, 10, 0}))
		rest := genDAG(r, w, vh.Pick(r, families), 1+r.Intn(6), 2+r.Intn(7))
		all := append([]*gTx{cb}, rest...)
		for k := r.Intn(3); k > 0; k-- { // spenders of the coinbase outputs
			all = append(all, buildTx(r, w, all, []prevRef{{0, uint32(r.Intn(len(cb.outs) + 1))}}, 1+r.Intn(2), vh.Pick(r, []int{0, 0, 8}), ""))
		}
		selfCheckOracle(all)
		watch := genWatch(r, w, all)
		if i%5 == 0 { // the null outpoint itself is watched: the coinbase is relevant through "spends a watched outpoint"
			watch = append(watch, opBytes(&chainhash.Hash{}, 0xffffffff))
		}
		if i%7 == 3 { // ONLY the first transaction is relevant
			watch = [][]byte{cb.id[:]}
		}
		p := genParams(r, vh.Pick(r, flagChoices))
		for oi, ord := range orders {
			var ptx []*gTx
			if ord == "ctor" { // permute keeps the first transaction in place and sorts the rest
				ptx = permute(r, all, ord)
			} else {
				ptx = append([]*gTx{cb}, permute(r, all[1:], ord)...)
			}
			sc := scenario{family: "coinbase-first", order: ord, p: p, watch: watch, txs: msgs(ptx), abs: absList(ptx)}
			checkScan(sc, !cfg.Search && p.Size <= 256 && i%4 == 0 && oi == i%4, false)
		}
	}

	// --- outpoint index values around 2^8, 2^16, 2^24, 2^31 and 2^32-1: a transaction that is relevant ONLY because it
	// spends a watched outpoint (txid ++ LE32 index, serialised here), and decoys that spend the same txid at the
	// index truncated / sign-flipped / byte-swapped (exact filter: the decoys must not match)
	r = rng.Fork("opindex")
	edgeIdx := []uint32{0, 1, 0xff, 0x100, 0x101, 0xffff, 0x10000, 0x10001, 0xffffff, 0x1000000, 0x7fffffff, 0x80000000, 0x80000001, 0xfffffffe, 0xffffffff, 0x01020304, 0x00010000, 0x00010100}
	for rnd := 0; rnd < cfg.Scale(1, 4); rnd++ {
		for _, idx := range append(edgeIdx, r.U32(), 0x10000+uint32(r.Intn(0x10000))) {
			w := newWallet(r)
			var h chainhash.Hash
			copy(h[:], r.Bytes(32))
			mk := func(i uint32) *gTx {
				m := wire.NewMsgTx(1)
				m.AddTxIn(wire.NewTxIn(&wire.OutPoint{Hash: h, Index: i}, []byte{}))
				o := genOutScript(r, w, "p2pkh", 0)
				m.AddTxOut(wire.NewTxOut(1000, o.script, wire.TokenData{}))
				m.LockTime = r.U32()
				return &gTx{msg: m, id: m.TxHash(), outs: []gScript{o}, ins: []gScript{{[]byte{}, [][]byte{}, false, false, "empty"}}}
			}
			txs := []*gTx{mk(idx)}
			seen := map[uint32]bool{idx: true}
			for _, d := range []uint32{idx & 0xffff, idx & 0xff, idx ^ 0x80000000, idx<<24 | idx>>24 | (idx&0xff00)<<8 | (idx>>8)&0xff00, idx + 1, idx - 1, idx | 0x10000, idx + 0x10000} {
				if !seen[d] {
					seen[d] = true
					txs = append(txs, mk(d))
				}
			}
			watch := [][]byte{opBytes(&h, idx)}
			for _, fl := range []uint8{1, 0} {
				p := fParams{Size: 8192, K: 12, Tweak: r.U32(), Flags: fl, Loaded: true}
				for _, t := range txs {
					checkMatch(p, watch, t.msg, false, "opindex")
				}
				for _, ord := range []string{"topological", "reverse"} {
					ptx := permute(r, txs, ord)
					checkScan(scenario{family: "opindex", order: ord, p: p, watch: watch, txs: msgs(ptx), abs: absList(ptx)}, false, false)
				}
			}
		}
	}

	// --- wide transactions and blocks: output / input / transaction counts around 2^8 and 2^16 with the relevant
	// output (input, transaction) LAST, spenders of the real outpoint and of its truncations (regenerated from
	// parameters on replay: the transactions are up to 3 MB)
	r = rng.Fork("wide")
	type wplan struct {
		name     string
		ns       []int
		variants int
	}
	plans := []wplan{{"wide-out", []int{255, 256, 257, 65537}, 2}, {"wide-in", []int{256, 257}, 2}, {"wide-block", []int{257}, 2}}
	if wide {
		plans = []wplan{{"wide-out", []int{2, 255, 256, 257, 258, 300, 65535, 65536, 65537, 65538, 70000, 131073}, 4},
			{"wide-in", []int{255, 256, 257, 300, 65536, 65537}, 4}, {"wide-block", []int{255, 256, 257, 300}, 2}}
	}
	if cfg.Search {
		plans = append(plans, wplan{"wide-block", []int{65535, 65536, 65537}, 2})
	}
	for _, pl := range plans {
		for _, n := range pl.ns {
			for v := 0; v < pl.variants; v++ {
				for _, fl := range []uint8{1, 2, 0} {
					if fl == 0 && v > 0 {
						continue
					}
					ords := []string{"topological", "reverse", "random"}
					if pl.name == "wide-block" {
						ords = []string{"as-built"}
					}
					if !wide {
						ords = ords[:1+len(ords)/2] // quick tier: topological + reverse
					}
					seed := r.U64()
					for _, ord := range ords {
						runGen(genSpec{Name: pl.name, N: n, Variant: v, Seed: seed, Order: ord, Flags: fl}, "scan")
					}
					if pl.name == "wide-out" {
						runGen(genSpec{Name: pl.name, N: n, Variant: v, Seed: seed, Order: "topological", Flags: fl}, "match")
					}
				}
			}
		}
	}

	// --- alias chains: every permutation of 3- and 4-link chains
	r = rng.Fork("aliaschain")
	nac := cfg.Scale(6, 40)
	if cfg.Search {
		nac = 120
	}
	for i := 0; i < nac; i++ {
		w := newWallet(r)
		n := 3 + i%2
		txs := aliasChain(r, w, n)
		selfCheckOracle(txs)
		watch := [][]byte{txs[0].outs[0].pushes[0]}
		if i%5 == 4 {
			watch = append(watch, w.pubs[0]) // unrelated extra item
		}
		for _, fl := range []uint8{1, 1, 2, 0}[:cfg.Scale(2, 4)] {
			var p fParams
			if fl == 1 && i%3 != 2 {
				p = fParams{Size: 8192, K: 12, Tweak: r.U32(), Flags: fl, Loaded: true}
			} else {
				p = genParams(r, fl)
			}
			for pi, perm := range permutations(n) {
				ptx := make([]*gTx, n)
				for a, b := range perm {
					ptx[a] = txs[b]
				}
				sc := scenario{family: "refchain", order: fmt.Sprint(perm), p: p, watch: watch, txs: msgs(ptx), abs: absList(ptx), alias: !p.exact(), aliasChain: true}
				corr := !cfg.Search && p.Size <= 256 && (pi+i)%cfg.Scale(3, 5) == 0
				checkScan(sc, corr, false)
			}
		}
	}

	// --- cost: deep reverse chains
	r = rng.Fork("cost")
	for _, shape := range []string{"chain2", "fib", "chain"} {
		depths := []int{6, cfg.Scale(16, 20)}
		if wide {
			depths = append(depths, 12)
		}
		for _, L := range depths {
			if shape == "chain" {
				L *= 4
			}
			sc := costFamily(r, shape, L)
			checkScan(sc, false, false)
		}
	}

	runProdChild()
	rep.Cases = cases.Len()
	rep.Extra["duplicate_cases_dropped"] = cases.Dups
	rep.Extra["generator_statistics"] = stats
	rep.Extra["cost_metric"] = "heap objects allocated by GetMatchedIndices (runtime.MemStats.Mallocs) against (n + inputs) x (max objects of one direct MatchTxAndUpdate call + 40) + 16 x inputs + 256, plus a wall-clock deadline"
	_, err := cases.Flush()
	vh.Must(err)
	vh.Must(rep.Write(cfg))
	fmt.Printf("c10: %d implementation executions, %d correspondence cases, %d monitor violations\n", rep.Evaluations, rep.Cases, len(rep.Violations))
}

// Command c06 drives wif.go of the repository under test (NewWIF, WIF.String, DecodeWIF,
// SerializePubKey, IsForNet): it evaluates the property's own predicates on the implementation
// (monitors, keys C06:<clause>) and writes correspondence cases for the Coq model Wif/Wif.v.
package main

import (
	"bytes"
	"crypto/sha256"
	"encoding/hex"
	"encoding/json"
	"fmt"
	"math/big"
	"os"
	"strings"

	"github.com/gcash/bchd/bchec"
	"github.com/gcash/bchd/chaincfg"
	"github.com/gcash/bchutil"
	"github.com/gcash/bchutil/base58"

	al "verif/harness/cmd/c01/addrlib"
	"verif/harness/cmd/c01/addrlib/envrun"
	"verif/harness/internal/vh"
)

var cfg vh.Config
var rep *vh.Report
var cases *vh.Cases

var nets = []*chaincfg.Params{&chaincfg.MainNetParams, &chaincfg.TestNet3Params, &chaincfg.TestNet4Params,
	&chaincfg.ChipNetParams, &chaincfg.RegressionNetParams, &chaincfg.SimNetParams}

func sha256d(b []byte) []byte {
	h := sha256.Sum256(b)
	h2 := sha256.Sum256(h[:])
	return h2[:]
}

// ---------- independent secp256k1 reference (affine double-and-add over math/big) ----------
var (
	fieldP, _ = new(big.Int).SetString("fffffffffffffffffffffffffffffffffffffffffffffffffffffffefffffc2f", 16)
	orderN, _ = new(big.Int).SetString("fffffffffffffffffffffffffffffffebaaedce6af48a03bbfd25e8cd0364141", 16)
	genX, _   = new(big.Int).SetString("79be667ef9dcbbac55a06295ce870b07029bfcdb2dce28d959f2815b16f81798", 16)
	genY, _   = new(big.Int).SetString("483ada7726a3c4655da4fbfc0e1108a8fd17b448a68554199c47d08ffb10d4b8", 16)
)

type pt struct {
	x, y *big.Int
	inf  bool
}

func padd(a, b pt) pt {
	if a.inf {
		return b
	}
	if b.inf {
		return a
	}
	var lam *big.Int
	if a.x.Cmp(b.x) == 0 {
		if new(big.Int).Mod(new(big.Int).Add(a.y, b.y), fieldP).Sign() == 0 {
			return pt{inf: true}
		}
		num := new(big.Int).Mul(big.NewInt(3), new(big.Int).Mul(a.x, a.x))
		den := new(big.Int).ModInverse(new(big.Int).Mul(big.NewInt(2), a.y), fieldP)
		lam = new(big.Int).Mod(new(big.Int).Mul(num, den), fieldP)
	} else {
		num := new(big.Int).Sub(b.y, a.y)
		den := new(big.Int).ModInverse(new(big.Int).Mod(new(big.Int).Sub(b.x, a.x), fieldP), fieldP)
		lam = new(big.Int).Mod(new(big.Int).Mul(num, den), fieldP)
	}
	x := new(big.Int).Mod(new(big.Int).Sub(new(big.Int).Sub(new(big.Int).Mul(lam, lam), a.x), b.x), fieldP)
	y := new(big.Int).Mod(new(big.Int).Sub(new(big.Int).Mul(lam, new(big.Int).Sub(a.x, x)), a.y), fieldP)
	return pt{x: x, y: y}
}

func refBaseMult(d *big.Int) pt {
	acc := pt{inf: true}
	g := pt{x: genX, y: genY}
	for i := d.BitLen() - 1; i >= 0; i-- {
		acc = padd(acc, acc)
		if d.Bit(i) == 1 {
			acc = padd(acc, g)
		}
	}
	return acc
}

func pad32(b []byte) []byte {
	if len(b) >= 32 {
		return b
	}
	return append(make([]byte, 32-len(b)), b...)
}

// ---------- observations ----------
// netIDOf finds the network id a decoded WIF answers to, through the exported IsForNet only.
func netIDOf(w *bchutil.WIF) (int, int) {
	id, n := -1, 0
	for b := 0; b < 256; b++ {
		if w.IsForNet(&chaincfg.Params{PrivateKeyID: byte(b)}) {
			id = b
			n++
		}
	}
	return id, n
}

func leadingZeros(b []byte) int {
	n := 0
	for n < len(b) && b[n] == 0 {
		n++
	}
	return n
}

// encodeKey: PrivKeyFromBytes + NewWIF + String + DecodeWIF, with the round-trip, spec-string and
// public-key monitors.
func encodeKey(key []byte, net *chaincfg.Params, compress bool, corr bool) string {
	replay := map[string]interface{}{"op": "encode", "key": vh.Hex(key), "net_id": net.PrivateKeyID, "compress": compress}
	var s string
	var w *bchutil.WIF
	var pub []byte
	if p, msg := vh.Catch(func() {
		priv, _ := bchec.PrivKeyFromBytes(bchec.S256(), key)
		var err error
		w, err = bchutil.NewWIF(priv, net, compress)
		if err != nil {
			panic("NewWIF: " + err.Error())
		}
		s = w.String()
		pub = w.SerializePubKey()
	}); p {
		replay["panic"] = msg
		rep.Violate("C06:panic", "NewWIF/String/SerializePubKey panicked", replay)
		return ""
	}
	d := new(big.Int).SetBytes(key)
	inRange := d.Sign() > 0 && d.Cmp(orderN) < 0
	rep.Count(fmt.Sprintf("encode/lz%02d", leadingZeros(key)), fmt.Sprintf("e%x/%d/%v", key, net.PrivateKeyID, compress), inRange)
	replay["string"] = s

	// the string is Base58(net || key || [01] || sha256d(..)[:4])
	full := append([]byte{net.PrivateKeyID}, key...)
	if compress {
		full = append(full, 1)
	}
	full = append(full, sha256d(full)[:4]...)
	if want := base58.Encode(full); want != s {
		replay["required"] = want
		rep.Violate("C06:string_spec", "WIF.String differs from Base58(net||key||[01]||sha256d[:4])", replay)
	}
	if !w.IsForNet(net) {
		rep.Violate("C06:roundtrip:net", "NewWIF(..., net).IsForNet(net) is false", replay)
	}
	// round trip
	var w2 *bchutil.WIF
	var err error
	if p, msg := vh.Catch(func() { w2, err = bchutil.DecodeWIF(s) }); p {
		replay["panic"] = msg
		rep.Violate("C06:panic", "DecodeWIF panicked on a string produced by WIF.String", replay)
		return s
	}
	if err != nil {
		replay["err"] = err.Error()
		rep.Violate("C06:roundtrip", "DecodeWIF rejects a string produced by WIF.String", replay)
	} else {
		id, cnt := netIDOf(w2)
		got := w2.PrivKey.Serialize()
		if !bytes.Equal(got, key) || w2.CompressPubKey != compress || id != int(net.PrivateKeyID) || cnt != 1 || !w2.IsForNet(net) {
			replay["decoded_key"] = vh.Hex(got)
			replay["decoded_compress"] = w2.CompressPubKey
			replay["decoded_net_id"] = id
			rep.Violate("C06:roundtrip", "DecodeWIF(String(NewWIF(key, net, flag))) != (key, net, flag)", replay)
		}
		if s2 := w2.String(); s2 != s {
			replay["reencoded"] = s2
			rep.Violate("C06:canonical", "a decoded WIF re-encodes to a different string", replay)
		}
		if pub2 := w2.SerializePubKey(); !bytes.Equal(pub2, pub) {
			replay["pub"] = vh.Hex(pub)
			replay["pub_decoded"] = vh.Hex(pub2)
			rep.Violate("C06:pubkey", "public key of the decoded WIF differs from the original's", replay)
		}
	}
	// public key: SEC1 serialisation of d*G by the flag, against the independent reference
	if inRange {
		P := refBaseMult(d)
		var want []byte
		if compress {
			want = append([]byte{byte(2 + P.y.Bit(0))}, pad32(P.x.Bytes())...)
		} else {
			want = append(append([]byte{4}, pad32(P.x.Bytes())...), pad32(P.y.Bytes())...)
		}
		wantLen := 65
		if compress {
			wantLen = 33
		}
		if len(pub) != wantLen || !bytes.Equal(pub, want) {
			replay["pub"] = vh.Hex(pub)
			replay["required"] = vh.Hex(want)
			rep.Violate("C06:pubkey", "SerializePubKey is not the 33/65-byte SEC1 encoding of key*G chosen by the flag", replay)
		}
		if corr {
			cases.Add(fmt.Sprintf("Pub %s %s %s %s %s", vh.CoqBytes(key), vh.CoqBool(compress), P.x.String(), P.y.String(), vh.CoqBytes(pub)),
				map[string]interface{}{"op": "SerializePubKey", "key": vh.Hex(key), "compress": compress, "impl": vh.Hex(pub)})
		}
	}
	if corr {
		cases.Add(fmt.Sprintf("Enc %s %d %s %s", vh.CoqBytes(key), net.PrivateKeyID, vh.CoqBool(compress), vh.CoqStr(s)),
			map[string]interface{}{"op": "WIF.String", "key": vh.Hex(key), "net_id": net.PrivateKeyID, "compress": compress, "impl": s})
	}
	// history on ONE WIF value (round 4): the exported flag is live state and every result is a fresh value --
	// scribbling on a returned serialisation, or flipping CompressPubKey between calls, must leave String and
	// SerializePubKey functions of (key, net, current flag) only.
	if inRange {
		historyOnOneValue(w, key, net, compress, s, pub, replay, corr)
	}
	return s
}

var histCases int

func historyOnOneValue(w *bchutil.WIF, key []byte, net *chaincfg.Params, compress bool, s string, pub []byte, base map[string]interface{}, corr bool) {
	replay := map[string]interface{}{}
	for k, v := range base {
		replay[k] = v
	}
	replay["op"] = "encode-history"
	specString := func(c bool) string {
		full := append([]byte{net.PrivateKeyID}, key...)
		if c {
			full = append(full, 1)
		}
		return base58.Encode(append(full, sha256d(full)[:4]...))
	}
	specPub := func(c bool) []byte {
		P := refBaseMult(new(big.Int).SetBytes(key))
		if c {
			return append([]byte{byte(2 + P.y.Bit(0))}, pad32(P.x.Bytes())...)
		}
		return append(append([]byte{4}, pad32(P.x.Bytes())...), pad32(P.y.Bytes())...)
	}
	if p, msg := vh.Catch(func() {
		r := w.SerializePubKey()
		for i := range r {
			r[i] ^= 0xa5
		}
		pub := specPub(compress) // not the caller's slice: a memoising implementation hands out ONE buffer, scribbled on above
		if again := w.SerializePubKey(); !bytes.Equal(again, pub) {
			replay["steps"] = "SerializePubKey; overwrite the returned slice; SerializePubKey"
			replay["pub"] = vh.Hex(again)
			replay["required"] = vh.Hex(pub)
			rep.Violate("C06:pubkey:fresh", "writing into a returned public-key serialisation changes what later calls return", replay)
		}
		for step, c := range []bool{!compress, compress} {
			w.CompressPubKey = c
			gotS, gotP := w.String(), w.SerializePubKey()
			if wantS, wantP := specString(c), specPub(c); gotS != wantS || !bytes.Equal(gotP, wantP) {
				replay["steps"] = fmt.Sprintf("String; SerializePubKey; then %d flag flip(s); String; SerializePubKey", step+1)
				replay["flag_now"] = c
				replay["string_now"] = gotS
				replay["pub"] = vh.Hex(gotP)
				replay["required"] = vh.Hex(wantP)
				replay["required_string"] = wantS
				rep.Violate("C06:pubkey:follows_flag", "after CompressPubKey is changed on a WIF value, String/SerializePubKey are not those of the current flag", replay)
				break
			}
		}
		w.CompressPubKey = compress
		// a longer history derived from the key (replayable): assignments of either value, String, SerializePubKey
		// in any order; every returned slice is overwritten before the next call.  Each answer against the
		// specification with the flag in force; the whole history goes to the Coq model (Hist case, wrun).
		h := sha256d(append(append([]byte{}, key...), net.PrivateKeyID, byte(len(s))))
		flag := compress
		var ops, outs, names []string
		bad := false
		for i := 0; i < 9 && !bad; i++ {
			switch h[i] % 5 {
			case 0:
				flag = true
				w.CompressPubKey = true
				ops, outs, names = append(ops, "SetFlag true"), append(outs, "[]"), append(names, "flag=true")
			case 1:
				flag = false
				w.CompressPubKey = false
				ops, outs, names = append(ops, "SetFlag false"), append(outs, "[]"), append(names, "flag=false")
			case 2:
				got := w.String()
				ops, outs, names = append(ops, "Str"), append(outs, vh.CoqStr(got)), append(names, "String")
				bad = got != specString(flag)
			default:
				got := w.SerializePubKey()
				ops, outs, names = append(ops, "Ser"), append(outs, vh.CoqBytes(got)), append(names, "SerializePubKey")
				bad = !bytes.Equal(got, specPub(flag))
				for j := range got {
					got[j] = byte(j) ^ h[31]
				}
			}
		}
		w.CompressPubKey = compress
		if bad {
			replay["steps"] = strings.Join(names, "; ")
			replay["flag_now"] = flag
			rep.Violate("C06:history", "in a history on one WIF value an answer is not that of (key, net, flag in force)", replay)
		}
		if limit := map[bool]int{false: 40, true: 160}[cfg.Thorough()]; corr && histCases < limit {
			histCases++
			P := refBaseMult(new(big.Int).SetBytes(key))
			cases.Add(fmt.Sprintf("Hist %s %d %s [%s] %s %s [%s]", vh.CoqBytes(key), net.PrivateKeyID, vh.CoqBool(compress),
				strings.Join(ops, "; "), P.x.String(), P.y.String(), strings.Join(outs, "; ")),
				map[string]interface{}{"op": "history", "key": vh.Hex(key), "net_id": net.PrivateKeyID, "compress": compress, "steps": names})
		}
	}); p {
		replay["panic"] = msg
		rep.Violate("C06:panic", "String/SerializePubKey panicked in a history on one WIF value", replay)
	}
	rep.Count("encode-history", fmt.Sprintf("h%x/%d/%v", key, net.PrivateKeyID, compress), true)
}

// decodeStr: DecodeWIF on an arbitrary string with the accept_iff and canonicity monitors.
func decodeStr(s string, family string, corr bool) {
	replay := map[string]interface{}{"op": "decode", "string": s, "family": family}
	var w *bchutil.WIF
	var err error
	if p, msg := vh.Catch(func() { w, err = bchutil.DecodeWIF(s) }); p {
		replay["panic"] = msg
		rep.Violate("C06:panic", "DecodeWIF panicked", replay)
		return
	}
	d := al.RefBase58Decode(s) // byte-wise table semantics, independent of the implementation
	replay["decoded"] = vh.Hex(d)
	// the property's acceptance predicate, independently
	lenOK := len(d) == 37 || (len(d) == 38 && d[33] == 0x01)
	ckOK := len(d) >= 4 && bytes.Equal(sha256d(d[:len(d)-4])[:4], d[len(d)-4:])
	want := lenOK && ckOK
	rep.Count("decode/"+family, "d"+s, len(d) == 37 || len(d) == 38)
	cls := 0
	switch err {
	case nil:
	case bchutil.ErrMalformedPrivateKey:
		cls = 1
	case bchutil.ErrChecksumMismatch:
		cls = 2
	default:
		cls = 9
	}
	replay["accepted"] = err == nil
	replay["required_accept"] = want
	if want != (err == nil) {
		key := "C06:accept_iff"
		if err == nil && !lenOK {
			key = "C06:accept_iff:marker_or_length"
		} else if err == nil && !ckOK {
			key = "C06:accept_iff:checksum"
		}
		rep.Violate(key, "DecodeWIF acceptance differs from '37 bytes, or 38 with byte 33 = 0x01, last four = sha256d prefix of the rest'", replay)
	}
	if err != nil && ((cls == 1) != !lenOK) {
		replay["class"] = cls
		rep.Violate("C06:error_class", "DecodeWIF reports the wrong error class (malformed iff length/marker wrong, else checksum)", replay)
	}
	var key []byte
	compress := false
	id := 0
	if err == nil {
		key = w.PrivKey.Serialize()
		compress = w.CompressPubKey
		var cnt int
		id, cnt = netIDOf(w)
		if len(d) >= 33 && (!bytes.Equal(key, d[1:33]) || id != int(d[0]) || cnt != 1 || compress != (len(d) == 38)) {
			replay["decoded_key"] = vh.Hex(key)
			replay["decoded_net_id"] = id
			replay["decoded_compress"] = compress
			rep.Violate("C06:fields", "DecodeWIF returned fields other than payload[0], payload[1:33], len == 38", replay)
		}
		if s2 := w.String(); s2 != s {
			replay["reencoded"] = s2
			rep.Violate("C06:canonical", "an accepted WIF string does not re-encode to itself", replay)
		}
		wantLen := 65
		if compress {
			wantLen = 33
		}
		if pub := w.SerializePubKey(); len(pub) != wantLen {
			replay["pub"] = vh.Hex(pub)
			rep.Violate("C06:pubkey", "SerializePubKey length is not 33/65 by the flag", replay)
		}
	}
	if corr {
		cases.Add(fmt.Sprintf("Dec %s %d %s %s %d", vh.CoqStr(s), cls, vh.CoqBytes(key), vh.CoqBool(compress), id),
			map[string]interface{}{"op": "DecodeWIF", "family": family, "string": s, "decoded": vh.Hex(d), "impl_class": cls, "impl_key": vh.Hex(key), "impl_compress": compress, "impl_net_id": id})
	}
}

func withChecksum(body []byte) []byte {
	return append(append([]byte(nil), body...), sha256d(body)[:4]...)
}

func replayFile(path string) {
	raw, err := os.ReadFile(path)
	vh.Must(err)
	var rp struct {
		Input map[string]interface{} `json:"input"`
	}
	vh.Must(json.Unmarshal(raw, &rp))
	in := rp.Input
	if in["op"] == "decode" {
		decodeStr(in["string"].(string), "replay", false)
	} else if in["op"] == "encode" || in["op"] == "encode-history" {
		key, _ := hex.DecodeString(in["key"].(string))
		id := byte(in["net_id"].(float64))
		encodeKey(key, &chaincfg.Params{PrivateKeyID: id}, in["compress"].(bool), false)
	}
}

func main() {
	cfg = vh.ParseFlags("C06")
	rep = vh.NewReport(cfg)
	rep.Rule = "keys with 0..31 leading zero bytes x flag x six nets, boundary scalars, single-bit corruptions of valid payloads, payload lengths 0..45 and every marker byte with a recomputed checksum, random strings; an encode case is non-trivial when the scalar is in [1, n-1], a decode case when the string decodes to 37 or 38 bytes (reaches the marker/checksum tests); distinct by input"
	cases = vh.NewCases(cfg, "Run.Run_C06", 150)
	rng := vh.NewRNG(cfg.Seed)
	if cfg.Replay != "" {
		if !envrun.Replay(cfg, rep) {
			replayFile(cfg.Replay)
		}
		vh.Must(rep.Write(cfg))
		return
	}
	// environment monitors (round 3): Base58 digit table, network parameters, WIF strings of every net; plain children
	env := envrun.Start(cfg, rep)
	if bchec.PrivKeyBytesLen != 32 {
		rep.Violate("C06:dependency", "bchec.PrivKeyBytesLen is not 32 (the model's priv_len)", map[string]interface{}{"value": bchec.PrivKeyBytesLen})
	}
	wide := cfg.Search || cfg.Thorough()

	// --- family 1: keys with every number of leading zero bytes x flag x nets
	r := rng.Fork("keys")
	var valid []string
	var validPayload [][]byte
	// the first non-zero byte takes the boundary values of a byte's bit length (0x01, 0x7f, 0x80, 0xff) and
	// a random one: padding computed from the bit length instead of the byte length shows there
	firsts := []int{-1, 0x80, 0x7f, 0xff, 0x01}
	if wide {
		firsts = append(firsts, -1, -1, 0x81, 0x40)
	}
	reps := len(firsts)
	for rp := 0; rp < reps; rp++ {
		for lz := 0; lz <= 31; lz++ {
			key := r.Bytes(32)
			for j := 0; j < lz; j++ {
				key[j] = 0
			}
			if firsts[rp] >= 0 {
				key[lz] = byte(firsts[rp])
			}
			if key[lz] == 0 {
				key[lz] = 1 + byte(r.Intn(255))
			}
			if lz == 0 && key[0] == 0xff {
				key[0] = 0xfe // stay below the group order
			}
			for ni, net := range nets {
				for _, compress := range []bool{true, false} {
					// model cases: every lz on one net/flag combination, rotating; all nets for a few lz
					corr := rp == 0 && (ni == (lz+boolInt(compress))%len(nets) || lz == 31 || lz == 0 && compress) ||
						rp > 0 && rp < 5 && ni == (lz+rp)%len(nets) && compress == (lz%2 == 0) && lz%4 == rp%4
					s := encodeKey(key, net, compress, corr && !cfg.Search)
					if s != "" && rp == 0 && (lz == 0 || lz == 1 || lz == 31) && ni < 2 {
						valid = append(valid, s)
						validPayload = append(validPayload, base58.Decode(s))
					}
				}
			}
		}
	}
	// boundary scalars (also outside [1, n-1]: PrivKeyFromBytes does not validate; the string
	// clauses still apply to every 32-byte key) and arbitrary net ids
	nm1 := new(big.Int).Sub(orderN, big.NewInt(1))
	np1 := new(big.Int).Add(orderN, big.NewInt(1))
	edge := [][]byte{pad32(big.NewInt(1).Bytes()), pad32(big.NewInt(2).Bytes()), pad32(nm1.Bytes()), pad32(orderN.Bytes()), pad32(np1.Bytes()),
		bytes.Repeat([]byte{0xff}, 32), make([]byte, 32), pad32(big.NewInt(256).Bytes()), pad32(new(big.Int).Lsh(big.NewInt(1), 248).Bytes())}
	for i, key := range edge {
		for _, compress := range []bool{true, false} {
			encodeKey(key, nets[i%len(nets)], compress, !cfg.Search)
		}
	}
	for i := 0; i < cfg.Scale(12, 200); i++ {
		id := r.Byte()
		if i < 4 {
			id = []byte{0, 1, 255, 128}[i]
		}
		encodeKey(r.Bytes(32), &chaincfg.Params{PrivateKeyID: id}, r.Bool(), i < 12 && !cfg.Search)
	}
	for i, s := range valid {
		decodeStr(s, "valid", i%2 == 0 && !cfg.Search)
	}

	// --- family 2: all single-bit corruptions of valid decoded payloads (monitors: all; model: sample)
	r = rng.Fork("bitflip")
	for vi, d := range validPayload {
		if !wide && vi >= 4 {
			break
		}
		for pos := 0; pos < len(d); pos++ {
			for bit := 0; bit < 8; bit++ {
				c := append([]byte(nil), d...)
				c[pos] ^= 1 << uint(bit)
				corr := !cfg.Search && vi < 2 && (pos >= len(d)-5 && bit%4 == vi || pos == 0 && bit == 0 || pos == 33 && bit < 2 || r.Intn(60) == 0)
				decodeStr(base58.Encode(c), "bitflip", corr)
			}
		}
		// the same corruptions with the checksum recomputed (only the marker may reject now)
		for pos := 0; pos < len(d)-4; pos++ {
			for bit := 0; bit < 8; bit++ {
				c := append([]byte(nil), d[:len(d)-4]...)
				c[pos] ^= 1 << uint(bit)
				corr := !cfg.Search && vi < 2 && (pos == 33 || r.Intn(80) == 0)
				decodeStr(base58.Encode(withChecksum(c)), "bitflip_recomputed", corr)
			}
		}
	}

	// --- family 3: every marker byte with a recomputed checksum
	r = rng.Fork("marker")
	for rp := 0; rp < cfg.Scale(1, 4); rp++ {
		body := append([]byte{vh.Pick(r, []byte{128, 239, 100})}, r.Bytes(32)...)
		for m := 0; m < 256; m++ {
			c := append(append([]byte(nil), body...), byte(m))
			corr := !cfg.Search && rp == 0 && (m < 4 || m == 0x81 || m == 0xff || m%32 == 7)
			decodeStr(base58.Encode(withChecksum(c)), "marker", corr)
		}
	}

	// --- family 3b: the byte at offset 33 of a 37-byte payload is the first checksum byte, not a marker:
	// uncompressed keys whose checksum starts with 0x01 (found by scanning), and for contrast 0x00
	r = rng.Fork("cks01")
	for _, first := range []byte{0x01, 0x01, 0x01, 0x00} {
		for tries := 0; tries < 200000; tries++ {
			key := r.Bytes(32)
			key[0] &= 0x7f
			net := nets[tries%len(nets)]
			full := append([]byte{net.PrivateKeyID}, key...)
			if sha256d(full)[0] != first {
				continue
			}
			s := encodeKey(key, net, false, !cfg.Search)
			decodeStr(s, "cks_first_byte", !cfg.Search)
			encodeKey(key, net, true, false)
			break
		}
	}

	// --- family 3c: the checksum computed over the wrong prefix (as if the other layout applied):
	// 33 bytes || m || cks(first 33)  for every m, and 37/38-byte payloads with cks over 32, 33, 34 bytes
	r = rng.Fork("prefix")
	for rp := 0; rp < cfg.Scale(1, 3); rp++ {
		body := append([]byte{vh.Pick(r, []byte{128, 239, 100})}, r.Bytes(32)...)
		ck33 := sha256d(body)[:4]
		for m := 0; m < 256; m++ {
			c := append(append(append([]byte(nil), body...), byte(m)), ck33...)
			corr := !cfg.Search && rp == 0 && (m < 3 || m == 0xff || m%64 == 9)
			decodeStr(base58.Encode(c), "cks_over_33_with_marker", corr)
		}
		for _, total := range []int{37, 38} {
			for _, over := range []int{31, 32, 33, 34} {
				c := r.Bytes(total)
				c[0] = 128
				if total == 38 && rp%2 == 0 {
					c[33] = 1
				}
				copy(c[total-4:], sha256d(c[:over])[:4])
				decodeStr(base58.Encode(c), "cks_over_prefix", !cfg.Search && rp == 0)
			}
		}
	}

	// --- family 4: payload lengths 0..45, valid checksum / wrong checksum / zero bytes
	r = rng.Fork("length")
	for n := 0; n <= 45; n++ {
		for rp := 0; rp < cfg.Scale(1, 4); rp++ {
			body := r.Bytes(n)
			if n > 0 {
				body[0] = vh.Pick(r, []byte{128, 239, 100, 0, r.Byte()})
			}
			if n >= 34 {
				body[33] = 1
			}
			corr := !cfg.Search && rp == 0
			decodeStr(base58.Encode(withChecksum(body)), "length_total", corr) // total length n+4
			decodeStr(base58.Encode(body), "length_raw", corr && n >= 30 && n <= 40)
		}
		decodeStr(base58.Encode(make([]byte, n)), "zeros", !cfg.Search && (n == 37 || n == 38 || n < 3))
	}

	// --- family 5: string-level damage: foreign characters, substitutions, truncation, leading '1'
	r = rng.Fork("strings")
	const alpha = "123456789ABCDEFGHJKLMNPQRSTUVWXYZabcdefghijkmnopqrstuvwxyz"
	for i := 0; i < cfg.Scale(40, 800); i++ {
		s := []byte(valid[r.Intn(len(valid))])
		switch i % 5 {
		case 0:
			s[r.Intn(len(s))] = alpha[r.Intn(58)]
		case 1:
			s[r.Intn(len(s))] = vh.Pick(r, []byte("0OIl +\xff"))
		case 2:
			s = s[:r.Intn(len(s))]
		case 3:
			s = append([]byte("1"), s...)
		case 4:
			k := r.Intn(len(s))
			s = append(s[:k:k], append([]byte{alpha[r.Intn(58)]}, s[k:]...)...)
		}
		decodeStr(string(s), "string_damage", !cfg.Search && i < 40)
	}
	// white space / control characters around a valid string: Base58 has none of them, so the string must be
	// refused (a DecodeWIF that trims its input would accept a string that does not re-encode to itself)
	for i, v := range valid {
		if i >= 4 {
			break
		}
		for j, w := range []string{" ", "\n", "\t", "\r\n", "\x00", "\x0b", "\xa0"} {
			decodeStr(w+v, "whitespace", !cfg.Search && (i == 0 || j < 2))
			decodeStr(v+w, "whitespace", !cfg.Search && (i == 0 || j < 2))
			decodeStr(w+v+w, "whitespace", !cfg.Search && i == 0 && j < 3)
		}
	}
	// one character of a valid string replaced by a multi-byte code point with the same low eight bits (a Base58
	// decoder that walks the string by code point and narrows to a byte reads the original character)
	for i, v := range valid {
		if i >= 4 {
			break
		}
		for _, pos := range []int{0, 1, len(v) / 2, len(v) - 1} {
			for k, alias := range al.RuneAliases(v, pos) {
				decodeStr(alias, "rune_alias", !cfg.Search && i < 2 && k < 2)
			}
		}
	}

	// two DIFFERENT valid strings whose four checksum bytes are equal (birthday search over the keys: about
	// sqrt(2^32) of them): decoded one after the other, each must give its own key
	r = rng.Fork("cks-collision")
	{
		type ent struct {
			key      []byte
			compress bool
			net      byte
		}
		seen := map[uint32]ent{}
		found := 0
		for tries := 0; tries < 600000 && found < cfg.Scale(3, 8); tries++ {
			e := ent{key: r.Bytes(32), compress: tries%2 == 0, net: nets[tries%3].PrivateKeyID}
			e.key[0] &= 0x7f
			body := append([]byte{e.net}, e.key...)
			if e.compress {
				body = append(body, 1)
			}
			ck := sha256d(body)
			tag := uint32(ck[0])<<24 | uint32(ck[1])<<16 | uint32(ck[2])<<8 | uint32(ck[3])
			if o, ok := seen[tag]; ok && !bytes.Equal(o.key, e.key) {
				found++
				for _, order := range [][2]ent{{o, e}, {e, o}} {
					for _, x := range order {
						s := encodeKey(x.key, &chaincfg.Params{PrivateKeyID: x.net}, x.compress, false)
						decodeStr(s, "equal_checksum_pair", !cfg.Search && found == 1)
						if w, err := bchutil.DecodeWIF(s); err != nil || !bytes.Equal(w.PrivKey.Serialize(), x.key) {
							rep.Violate("C06:roundtrip", "DecodeWIF(String(NewWIF(key, net, flag))) != (key, net, flag)",
								map[string]interface{}{"op": "decode", "string": s, "family": "two valid strings with equal checksum bytes, decoded one after the other",
									"key": vh.Hex(x.key), "other_key": vh.Hex(order[0].key), "checksum": fmt.Sprintf("%08x", tag)})
						}
					}
				}
			}
			seen[tag] = e
		}
		rep.Extra["equal_checksum_pairs"] = found
	}

	// public points with a SHORT coordinate (two or more leading zero bytes; one in 2^15 keys): consecutive scalars
	// walked with the independent reference (one point addition each) until some are met, plus the scalars
	// (n+1)/2 and (n-1)/2 whose x coordinate has 166 bits
	{
		g := pt{x: genX, y: genY}
		acc := pt{inf: true}
		shortX, shortY := 0, 0
		limit := cfg.Scale(70000, 400000)
		for k := 1; k <= limit && (shortX < 2 || shortY < 2); k++ {
			acc = padd(acc, g)
			sx, sy := acc.x.BitLen() <= 240, acc.y.BitLen() <= 240
			if !sx && !sy {
				continue
			}
			if sx {
				shortX++
			}
			if sy {
				shortY++
			}
			key := pad32(big.NewInt(int64(k)).Bytes())
			for _, compress := range []bool{true, false} {
				encodeKey(key, nets[k%len(nets)], compress, !cfg.Search)
			}
		}
		rep.Extra["short_coordinate_scalars"] = shortX + shortY
		half := new(big.Int).Rsh(new(big.Int).Add(orderN, big.NewInt(1)), 1)
		for _, d := range []*big.Int{half, new(big.Int).Sub(half, big.NewInt(1)), new(big.Int).Sub(orderN, big.NewInt(2))} {
			for _, compress := range []bool{true, false} {
				encodeKey(pad32(d.Bytes()), nets[0], compress, !cfg.Search)
			}
		}
	}

	// keys solved for so that the digit string of the WIF has a run of zero digits ('1') in its interior
	r = rng.Fork("zero-digits")
	for i, run := range [][2]int{{10, 20}, {20, 30}, {30, 40}, {10, 40}, {9, 19}, {21, 31}} {
		net := nets[i%len(nets)]
		if body := al.ZeroDigitRunBody(r, net.PrivateKeyID, 33, run[0], run[1]); body != nil {
			encodeKey(body[1:], net, false, !cfg.Search && i < 3)
		}
	}

	decodeStr("", "edge", !cfg.Search)
	decodeStr("1", "edge", !cfg.Search)
	decodeStr("5HueCGU8rMjxEXxiPuD5BDku4MkFqeZyd4dZ1jvhTVqvbTLvyTJ", "known", !cfg.Search)  // bitcoin wiki vector
	decodeStr("KwdMAjGmerYanjeui5SHS7JkmpZvVipYvB2LJGU1ZxJwYvP98617", "known", !cfg.Search) // compressed
	decodeStr("5HpHagT65TZzG1PH3CSu63k8DbpvD8s5ip4nEB3kEsreAnchuDf", "known", !cfg.Search)  // scalar 1

	// NewWIF(nil net) is an error, not a panic
	if p, msg := vh.Catch(func() {
		priv, _ := bchec.PrivKeyFromBytes(bchec.S256(), edge[0])
		if _, err := bchutil.NewWIF(priv, nil, true); err == nil {
			panic("no error")
		}
	}); p {
		rep.Violate("C06:panic", "NewWIF(priv, nil, _) does not fail cleanly", map[string]interface{}{"op": "NewWIF nil net", "panic": msg})
	}

	env.Finish()
	rep.Cases = cases.Len()
	rep.Extra["duplicate_cases_dropped"] = cases.Dups
	_, err := cases.Flush()
	vh.Must(err)
	vh.Must(rep.Write(cfg))
	fmt.Printf("c06: %d implementation executions, %d correspondence cases, %d monitor violations\n", rep.Evaluations, rep.Cases, len(rep.Violations))
}

func boolInt(b bool) int {
	if b {
		return 1
	}
	return 0
}

package main

import (
	"sort"
	"verif/harness/internal/srcsel"
	"bytes"
	"crypto/sha256"
	"encoding/hex"
	"encoding/json"
	"go/parser"
	"go/printer"
	"go/token"
	"os"
	"path/filepath"
	"strings"
)

// writeFingerprints hashes every non-test Go file of the repository after
// parsing it WITHOUT comments and re-printing it (so comment and formatting
// changes do not alter the hash).  bin/check compares the hashes of the files a
// property is anchored in with a committed baseline; a difference means "this
// code changed since the model was validated against it" and escalates the
// exploration (thorough generators + search), it is not by itself an alarm.
func writeFingerprints(repo, out string) error {
	fps := map[string]string{}
	imports := map[string]map[string]bool{} // package dir -> repository-internal package dirs it imports
	const modPrefix = "github.com/gcash/bchutil"
	err := filepath.Walk(repo, func(path string, info os.FileInfo, err error) error {
		if err != nil {
			return err
		}
		if info.IsDir() {
			if info.Name() == ".git" || info.Name() == "testpb" || info.Name() == "testdata" {
				return filepath.SkipDir
			}
			return nil
		}
		n := info.Name()
		if !strings.HasSuffix(n, ".go") || !srcsel.Analysed(path) {
			return nil
		}
		fset := token.NewFileSet()
		f, perr := parser.ParseFile(fset, path, nil, parser.SkipObjectResolution)
		if perr != nil {
			fps[rel(repo, path)] = "parse-error"
			return nil
		}
		pdir := filepath.Dir(rel(repo, path))
		for _, im := range f.Imports {
			ip := strings.Trim(im.Path.Value, `"`)
			if ip == modPrefix || strings.HasPrefix(ip, modPrefix+"/") {
				d := strings.TrimPrefix(strings.TrimPrefix(ip, modPrefix), "/")
				if d == "" {
					d = "."
				}
				if imports[pdir] == nil {
					imports[pdir] = map[string]bool{}
				}
				imports[pdir][d] = true
			}
		}
		var buf bytes.Buffer
		if perr := printer.Fprint(&buf, fset, f); perr != nil {
			return perr
		}
		// go/printer reproduces blank lines from token positions: drop them, so that adding or removing a
		// comment line does not change the hash
		var norm bytes.Buffer
		for _, line := range bytes.Split(buf.Bytes(), []byte("\n")) {
			if len(bytes.TrimSpace(line)) > 0 {
				norm.Write(line)
				norm.WriteByte('\n')
			}
		}
		h := sha256.Sum256(norm.Bytes())
		fps[rel(repo, path)] = hex.EncodeToString(h[:])
		return nil
	})
	if err != nil {
		return err
	}
	// "//imports:<pkg dir>" entries: the repository-internal import graph, so that the driver can close a
	// property's anchored files under "everything their packages can call inside the repository"
	for d, m := range imports {
		var l []string
		for k := range m {
			l = append(l, k)
		}
		sort.Strings(l)
		fps["//imports:"+d] = strings.Join(l, ",")
	}
	j, _ := json.MarshalIndent(fps, "", " ")
	return os.WriteFile(out, j, 0o644)
}

func rel(repo, path string) string {
	r, err := filepath.Rel(repo, path)
	if err != nil {
		return path
	}
	return r
}

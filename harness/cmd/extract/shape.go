package main

import (
	"verif/harness/internal/srcsel"
	"bytes"
	"fmt"
	"go/ast"
	"go/parser"
	"go/printer"
	"go/token"
	"os"
	"path/filepath"
	"sort"
	"strings"
)

// shapeOf lists, for one package, everything that can carry STATE between calls:
// package-level variables (name and declared type / initialiser head) and the
// fields of every struct type.  The hand-written models treat the modelled
// functions as functions of their arguments and of the modelled fields only; a new
// package-level variable or struct field (a cache, a memo, a counter) invalidates
// that reading, so the Coq development carries the obligation "shape = baseline".
func shapeOf(dir string) ([]string, error) {
	fset := token.NewFileSet()
	parsed, err := parser.ParseDir(fset, dir, srcsel.Filter(dir), parser.SkipObjectResolution|parser.ParseComments)
	if err != nil {
		return nil, err
	}
	show := func(n ast.Node) string {
		var b bytes.Buffer
		printer.Fprint(&b, fset, n)
		s := strings.Join(strings.Fields(b.String()), " ")
		if len(s) > 60 {
			s = s[:60]
		}
		return s
	}
	// identifiers mentioned inside function bodies (by name): a package-level variable that no function mentions
	// cannot carry state between calls and is left out of the shape
	used := map[string]bool{}
	for _, pk := range parsed {
		for _, f := range pk.Files {
			for _, d := range f.Decls {
				if fd, ok := d.(*ast.FuncDecl); ok && fd.Body != nil {
					ast.Inspect(fd.Body, func(n ast.Node) bool {
						if id, ok := n.(*ast.Ident); ok {
							used[id.Name] = true
						}
						return true
					})
				}
			}
		}
	}
	var items []string
	for _, pk := range parsed {
		if strings.HasSuffix(pk.Name, "_test") || pk.Name == "main" {
			continue
		}
		for _, f := range pk.Files {
			for _, d := range f.Decls {
				gd, ok := d.(*ast.GenDecl)
				if !ok {
					continue
				}
				switch gd.Tok {
				case token.VAR:
					for _, sp := range gd.Specs {
						vs := sp.(*ast.ValueSpec)
						for i, id := range vs.Names {
							effectful := false // an initialiser that calls something runs at package initialisation
							if i < len(vs.Values) {
								ast.Inspect(vs.Values[i], func(n ast.Node) bool {
									switch n.(type) {
									case *ast.CallExpr, *ast.FuncLit:
										effectful = true
									}
									return true
								})
							}
							if !used[id.Name] && !effectful {
								continue
							}
							desc := "var " + id.Name
							if vs.Type != nil {
								desc += " " + show(vs.Type)
							}
							if i < len(vs.Values) {
								// head of the initialiser: enough to tell a table / sentinel error from a map or cache
								switch v := vs.Values[i].(type) {
								case *ast.CallExpr:
									desc += " = " + show(v.Fun) + "(…)"
								case *ast.CompositeLit:
									desc += " = " + show(v.Type) + "{…}"
								default:
									desc += " = " + show(v)
								}
							}
							items = append(items, desc)
						}
					}
				case token.TYPE:
					for _, sp := range gd.Specs {
						ts := sp.(*ast.TypeSpec)
						st, ok := ts.Type.(*ast.StructType)
						if !ok {
							// every other named type is listed with its underlying type: a new wrapper type (with its own
							// method set, e.g. a sort.Interface with another Less) is a change of shape
							items = append(items, "type "+ts.Name.Name+" "+show(ts.Type))
							continue
						}
						var fs []string
						for _, fl := range st.Fields.List {
							t := show(fl.Type)
							if len(fl.Names) == 0 {
								fs = append(fs, t)
							}
							for _, id := range fl.Names {
								fs = append(fs, id.Name+" "+t)
							}
						}
						sort.Strings(fs) // declaration order of fields carries no state
						items = append(items, "type "+ts.Name.Name+" struct { "+strings.Join(fs, "; ")+" }")
					}
				}
			}
		}
	}
	pkgVarNames := map[string]bool{}
	for _, pk := range parsed {
		for _, f := range pk.Files {
			for _, d := range f.Decls {
				if gd, ok := d.(*ast.GenDecl); ok && gd.Tok == token.VAR {
					for _, sp := range gd.Specs {
						for _, id := range sp.(*ast.ValueSpec).Names {
							pkgVarNames[id.Name] = true
						}
					}
				}
			}
		}
	}
	localNames := func(fd *ast.FuncDecl) map[string]bool { // names (re)declared inside the function: parameters, results, := and var
		m := map[string]bool{}
		add := func(fl *ast.FieldList) {
			if fl != nil {
				for _, f := range fl.List {
					for _, id := range f.Names {
						m[id.Name] = true
					}
				}
			}
		}
		add(fd.Recv)
		add(fd.Type.Params)
		add(fd.Type.Results)
		if fd.Body != nil {
			ast.Inspect(fd.Body, func(n ast.Node) bool {
				switch v := n.(type) {
				case *ast.AssignStmt:
					if v.Tok == token.DEFINE {
						for _, l := range v.Lhs {
							if id, ok := l.(*ast.Ident); ok {
								m[id.Name] = true
							}
						}
					}
				case *ast.ValueSpec:
					for _, id := range v.Names {
						m[id.Name] = true
					}
				case *ast.RangeStmt:
					if v.Tok == token.DEFINE {
						for _, e := range []ast.Expr{v.Key, v.Value} {
							if id, ok := e.(*ast.Ident); ok {
								m[id.Name] = true
							}
						}
					}
				}
				return true
			})
		}
		return m
	}
	predeclared := map[string]bool{"append": true, "cap": true, "clear": true, "close": true, "complex": true, "copy": true, "delete": true, "imag": true,
		"len": true, "make": true, "max": true, "min": true, "new": true, "panic": true, "print": true, "println": true, "real": true, "recover": true,
		"bool": true, "byte": true, "error": true, "int": true, "int8": true, "int16": true, "int32": true, "int64": true, "rune": true, "string": true,
		"uint": true, "uint8": true, "uint16": true, "uint32": true, "uint64": true, "uintptr": true, "float32": true, "float64": true,
		"true": true, "false": true, "nil": true, "iota": true, "any": true}
	for _, pk := range parsed {
		if strings.HasSuffix(pk.Name, "_test") || pk.Name == "main" {
			continue
		}
		for fn, f := range pk.Files {
			base := filepath.Base(fn)
			for _, im := range f.Imports {
				path := strings.Trim(im.Path.Value, `"`)
				sensitive := map[string]bool{"unsafe": true, "C": true, "syscall": true, "os": true, "os/exec": true, "os/signal": true, "runtime": true,
					"runtime/debug": true, "reflect": true, "testing": true, "plugin": true, "net/http": true, "sync/atomic": true, "flag": true}
				if sensitive[path] || strings.HasPrefix(path, "golang.org/x/sys") || (im.Name != nil && (im.Name.Name == "_" || im.Name.Name == ".")) {
					items = append(items, "import "+path+" in "+base)
				}
			}
			for _, cg := range f.Comments {
				for _, c := range cg.List {
					if strings.HasPrefix(c.Text, "//go:linkname") || strings.HasPrefix(c.Text, "//go:noescape") || strings.HasPrefix(c.Text, "//go:nosplit") {
						items = append(items, "directive "+strings.Join(strings.Fields(c.Text), " ")+" in "+base)
					}
				}
			}
			for _, d := range f.Decls {
				switch d := d.(type) {
				case *ast.FuncDecl:
					if d.Recv == nil && d.Name.Name == "init" {
						items = append(items, "func init in "+base)
					}
					if d.Recv != nil && len(d.Recv.List) == 1 { // method sets: a new method (String, Error, Less, …) can be reached by reflection / interfaces
						t := d.Recv.List[0].Type
						if st, ok := t.(*ast.StarExpr); ok {
							t = st.X
						}
						if id, ok := t.(*ast.Ident); ok {
							items = append(items, "method "+id.Name+"."+d.Name.Name)
						}
					}
					if d.Body != nil { // writers of package-level variables
						fname := d.Name.Name
						ast.Inspect(d.Body, func(n ast.Node) bool {
							mark := func(e ast.Expr) {
								for {
									switch v := e.(type) {
									case *ast.IndexExpr:
										e = v.X
										continue
									case *ast.SelectorExpr:
										e = v.X
										continue
									case *ast.StarExpr:
										e = v.X
										continue
									case *ast.ParenExpr:
										e = v.X
										continue
									case *ast.Ident:
										if pkgVarNames[v.Name] && !localNames(d)[v.Name] {
											items = append(items, "write to package-level "+v.Name+" in func "+fname)
										}
									}
									return
								}
							}
							switch v := n.(type) {
							case *ast.AssignStmt:
								for _, l := range v.Lhs {
									mark(l)
								}
							case *ast.IncDecStmt:
								mark(v.X)
							case *ast.UnaryExpr:
								if v.Op == token.AND { // address taken: may be written through the pointer
									if id, ok := v.X.(*ast.Ident); ok && pkgVarNames[id.Name] && !localNames(d)[id.Name] {
										items = append(items, "address of package-level "+id.Name+" taken in func "+fname)
									}
								}
							}
							return true
						})
					}
					if d.Recv == nil && predeclared[d.Name.Name] {
						items = append(items, "shadows predeclared "+d.Name.Name+" (func) in "+base)
					}
				case *ast.GenDecl:
					for _, sp := range d.Specs {
						switch sp := sp.(type) {
						case *ast.ValueSpec:
							for _, id := range sp.Names {
								if predeclared[id.Name] {
									items = append(items, "shadows predeclared "+id.Name+" in "+base)
								}
							}
						case *ast.TypeSpec:
							if predeclared[sp.Name.Name] {
								items = append(items, "shadows predeclared "+sp.Name.Name+" (type) in "+base)
							}
						}
					}
				}
			}
		}
	}
	// the files of the package and how the build selects them
	ents, _ := os.ReadDir(dir)
	for _, e := range ents {
		if e.IsDir() || !strings.HasSuffix(e.Name(), ".go") {
			continue
		}
		switch srcsel.Classify(filepath.Join(dir, e.Name())) {
		case srcsel.Normal:
			items = append(items, "file "+e.Name())
		case srcsel.Hook:
			items = append(items, "file "+e.Name()+" (hook: built only with -tags verif)")
			// what a hook file declares is part of the shape too: hooks only add exports named Verif…
			if hf, herr := parser.ParseFile(token.NewFileSet(), filepath.Join(dir, e.Name()), nil, parser.SkipObjectResolution); herr == nil {
				for _, d := range hf.Decls {
					switch d := d.(type) {
					case *ast.FuncDecl:
						if !strings.HasPrefix(d.Name.Name, "Verif") && !strings.HasPrefix(d.Name.Name, "verif") {
							items = append(items, "hook file "+e.Name()+" declares func "+d.Name.Name+" (not a Verif… export)")
						}
					case *ast.GenDecl:
						if d.Tok != token.IMPORT {
							for _, sp := range d.Specs {
								switch sp := sp.(type) {
								case *ast.ValueSpec:
									for _, id := range sp.Names {
										if !strings.HasPrefix(strings.ToLower(id.Name), "verif") {
											items = append(items, "hook file "+e.Name()+" declares "+id.Name)
										}
									}
								case *ast.TypeSpec:
									if !strings.HasPrefix(strings.ToLower(sp.Name.Name), "verif") {
										items = append(items, "hook file "+e.Name()+" declares type "+sp.Name.Name)
									}
								}
							}
						}
					}
				}
			}
		case srcsel.Flagged:
			items = append(items, "file "+e.Name()+" (EXCLUDED from the -tags verif build: the tested binary differs from the shipped one)")
		case srcsel.Excluded:
			// not built in the analysed configuration (linux/amd64, cgo, no tags): invisible to the translators and to the
			// harness, so at least its existence is part of the shape (another GOOS, `ignore`, `!cgo`, `race`, …)
			items = append(items, "file "+e.Name()+" (not built in the analysed configuration)")
		}
	}
	sort.Strings(items)
	return items, nil
}

// moduleShape lists, over EVERY package directory of the repository, what can influence the modelled packages from
// outside them: init functions, linkname/unsafe-style directives and sensitive imports, writes to (or addresses taken
// of) package-level variables of ANOTHER package of the repository, and files excluded from the analysed build.
func moduleShape(repo string) ([]string, error) {
	var items []string
	err := filepath.Walk(repo, func(path string, info os.FileInfo, err error) error {
		if err != nil {
			return err
		}
		if info.IsDir() {
			if info.Name() == ".git" || info.Name() == "testdata" {
				return filepath.SkipDir
			}
			return nil
		}
		if !strings.HasSuffix(info.Name(), ".go") || strings.HasSuffix(info.Name(), "_test.go") {
			return nil
		}
		relp, _ := filepath.Rel(repo, path)
		cl := srcsel.Classify(path)
		if cl == srcsel.Excluded {
			items = append(items, "file "+relp+" (not built in the analysed configuration)")
			return nil
		}
		if cl == srcsel.Hook {
			return nil
		}
		fset := token.NewFileSet()
		f, perr := parser.ParseFile(fset, path, nil, parser.SkipObjectResolution|parser.ParseComments)
		if perr != nil {
			items = append(items, "file "+relp+" does not parse")
			return nil
		}
		// names under which other repository packages are imported here
		repoPkgs := map[string]string{}
		for _, im := range f.Imports {
			ip := strings.Trim(im.Path.Value, `"`)
			if ip == "github.com/gcash/bchutil" || strings.HasPrefix(ip, "github.com/gcash/bchutil/") {
				name := filepath.Base(ip)
				if im.Name != nil {
					name = im.Name.Name
				}
				repoPkgs[name] = ip
			}
			if ip == "unsafe" || ip == "C" || ip == "syscall" || ip == "plugin" || ip == "reflect" || strings.HasPrefix(ip, "golang.org/x/sys") {
				items = append(items, "import "+ip+" in "+relp)
			}
		}
		for _, cg := range f.Comments {
			for _, c := range cg.List {
				if strings.HasPrefix(c.Text, "//go:linkname") || strings.HasPrefix(c.Text, "//go:cgo_") {
					items = append(items, "directive "+strings.Join(strings.Fields(c.Text), " ")+" in "+relp)
				}
			}
		}
		for _, d := range f.Decls {
			fd, ok := d.(*ast.FuncDecl)
			if !ok {
				if gd, ok := d.(*ast.GenDecl); ok && gd.Tok == token.VAR {
					// package-level initialisers run at start-up too
					for _, sp := range gd.Specs {
						for _, v := range sp.(*ast.ValueSpec).Values {
							ast.Inspect(v, func(n ast.Node) bool {
								if _, ok := n.(*ast.FuncLit); ok {
									items = append(items, "package-level initialiser with a function literal in "+relp)
								}
								return true
							})
						}
					}
				}
				continue
			}
			if fd.Recv == nil && fd.Name.Name == "init" {
				items = append(items, "func init in "+relp)
			}
			if fd.Body == nil {
				continue
			}
			ast.Inspect(fd.Body, func(n ast.Node) bool {
				foreign := func(e ast.Expr) string {
					for {
						switch v := e.(type) {
						case *ast.IndexExpr:
							e = v.X
							continue
						case *ast.StarExpr:
							e = v.X
							continue
						case *ast.ParenExpr:
							e = v.X
							continue
						case *ast.SelectorExpr:
							if id, ok := v.X.(*ast.Ident); ok {
								if ip, ok := repoPkgs[id.Name]; ok {
									return ip + "." + v.Sel.Name
								}
							}
							e = v.X
							continue
						}
						return ""
					}
				}
				switch v := n.(type) {
				case *ast.AssignStmt:
					for _, l := range v.Lhs {
						if t := foreign(l); t != "" {
							items = append(items, "write to "+t+" in "+relp+" func "+fd.Name.Name)
						}
					}
				case *ast.IncDecStmt:
					if t := foreign(v.X); t != "" {
						items = append(items, "write to "+t+" in "+relp+" func "+fd.Name.Name)
					}
				case *ast.UnaryExpr:
					if v.Op == token.AND {
						if t := foreign(v.X); t != "" {
							items = append(items, "address of "+t+" taken in "+relp+" func "+fd.Name.Name)
						}
					}
				}
				return true
			})
		}
		return nil
	})
	sort.Strings(items)
	return items, err
}

func writeShape(repo, out string, baseline string) (bool, error) {
	var sb, bb strings.Builder
	sb.WriteString("(* GENERATED by harness/cmd/extract (shape.go); do not edit.\n   Package-level variables and struct fields of every modelled package: everything that can carry state between calls. *)\n")
	sb.WriteString("From Coq Require Import List NArith.\nImport ListNotations.\n\n")
	bb.WriteString("(* RECORDED by bin/record-fingerprints: the shape the models were written against. *)\nFrom Coq Require Import List NArith.\nImport ListNotations.\n\n")
	for _, p := range pkgs {
		items, err := shapeOf(filepath.Join(repo, p))
		if err != nil {
			return false, err
		}
		name := coqIdent(strings.ReplaceAll(p, ".", "bchutil"))
		var lits []string
		for _, it := range items {
			lits = append(lits, "\n  (* "+strings.ReplaceAll(it, "*)", "* )")+" *) "+bytesList(it))
		}
		fmt.Fprintf(&sb, "Definition shape_%s : list (list N) := [%s]%%N.\n\n", name, strings.Join(lits, ";"))
		fmt.Fprintf(&bb, "Definition base_%s : list (list N) := [%s]%%N.\n\n", name, strings.Join(lits, ";"))
	}
	mitems, merr := moduleShape(repo)
	if merr != nil {
		return false, merr
	}
	var mlits []string
	for _, it := range mitems {
		mlits = append(mlits, "\n  (* "+strings.ReplaceAll(it, "*)", "* )")+" *) "+bytesList(it))
	}
	fmt.Fprintf(&sb, "Definition shape_module : list (list N) := [%s]%%N.\n\n", strings.Join(mlits, ";"))
	fmt.Fprintf(&bb, "Definition base_module : list (list N) := [%s]%%N.\n\n", strings.Join(mlits, ";"))
	changed := false
	if old, _ := os.ReadFile(out); !bytes.Equal(old, []byte(sb.String())) {
		if err := os.WriteFile(out, []byte(sb.String()), 0o644); err != nil {
			return false, err
		}
		changed = true
	}
	if baseline != "" {
		if err := os.MkdirAll(filepath.Dir(baseline), 0o755); err != nil {
			return false, err
		}
		if old, _ := os.ReadFile(baseline); !bytes.Equal(old, []byte(bb.String())) {
			if err := os.WriteFile(baseline, []byte(bb.String()), 0o644); err != nil {
				return false, err
			}
		}
	}
	return changed, nil
}

// Command c18 drives txsort (BIP69 sorting) of the repository under test: it evaluates
// the property's own predicates on the implementation against an independent math/big
// reference (monitors) and writes correspondence cases for the Coq model.
package main

import (
	"bytes"
	"encoding/binary"
	"fmt"
	"math"
	"math/big"
	"path/filepath"
	"sort"
	"strings"

	"github.com/gcash/bchd/chaincfg/chainhash"
	"github.com/gcash/bchd/wire"
	"github.com/gcash/bchutil/txsort"

	"encoding/json"

	"verif/harness/cmd/c16/srclits"
	"verif/harness/cmd/c17/prodrun"
	"verif/harness/internal/vh"
)

var cfg vh.Config
var rep *vh.Report
var cases *vh.Cases

// Version and LockTime of the transactions built next (the fields Sort must carry over unchanged).
var curVersion int32 = 2
var curLockTime uint32 = 77

var versions = []int32{2, 1, 0, -1, math.MaxInt32, math.MinInt32}
var lockTimes = []uint32{77, 0, 499999999, 500000000, 0x7fffffff, 0x80000000, 0xffffffff}

type inEl struct {
	Hash   [32]byte
	Index  uint32
	Script []byte
	Seq    uint32
}
type outEl struct {
	Value  int64
	Script []byte
	Tok    wire.TokenData
}

func (e inEl) str() string {
	return fmt.Sprintf("%x:%d:%x:%d", e.Hash[:], e.Index, e.Script, e.Seq)
}
func (e outEl) str() string {
	return fmt.Sprintf("%d:%x:%x:%x:%d:%d", e.Value, e.Script, e.Tok.CategoryID[:], e.Tok.Commitment, e.Tok.Amount, e.Tok.BitField)
}
func inOf(t *wire.TxIn) inEl {
	return inEl{t.PreviousOutPoint.Hash, t.PreviousOutPoint.Index, t.SignatureScript, t.Sequence}
}
func outOf(t *wire.TxOut) outEl { return outEl{t.Value, t.PkScript, t.TokenData} }

func (e inEl) json() map[string]interface{} {
	return map[string]interface{}{"prev_hash_stored": vh.Hex(e.Hash[:]), "prev_index": e.Index, "sig_script": vh.Hex(e.Script), "sequence": e.Seq}
}
func (e outEl) json() map[string]interface{} {
	return map[string]interface{}{"value": e.Value, "pk_script": vh.Hex(e.Script), "token_category": vh.Hex(e.Tok.CategoryID[:]), "token_commitment": vh.Hex(e.Tok.Commitment), "token_amount": e.Tok.Amount, "token_bitfield": e.Tok.BitField}
}
func txJSON(ins []inEl, outs []outEl) map[string]interface{} {
	a := []interface{}{}
	for _, e := range ins {
		a = append(a, e.json())
	}
	b := []interface{}{}
	for _, e := range outs {
		b = append(b, e.json())
	}
	return map[string]interface{}{"version": curVersion, "lock_time": curLockTime, "inputs": a, "outputs": b}
}

// build makes a transaction out of fresh objects and fresh buffers.
func build(ins []inEl, outs []outEl) *wire.MsgTx {
	tx := wire.NewMsgTx(curVersion)
	tx.LockTime = curLockTime
	for _, e := range ins {
		h := chainhash.Hash(e.Hash)
		ti := wire.NewTxIn(wire.NewOutPoint(&h, e.Index), append([]byte(nil), e.Script...))
		ti.Sequence = e.Seq
		tx.AddTxIn(ti)
	}
	for _, e := range outs {
		tok := e.Tok
		tok.Commitment = append([]byte(nil), e.Tok.Commitment...)
		tx.AddTxOut(wire.NewTxOut(e.Value, append([]byte(nil), e.Script...), tok))
	}
	return tx
}

// ---------- independent reference (BIP69 text, math/big) ----------
func idNum(h [32]byte) *big.Int {
	be := make([]byte, 32)
	for i := 0; i < 32; i++ {
		be[i] = h[31-i] // the id as displayed
	}
	return new(big.Int).SetBytes(be)
}
func refInLess(a, b inEl) bool {
	c := idNum(a.Hash).Cmp(idNum(b.Hash))
	if c != 0 {
		return c < 0
	}
	return a.Index < b.Index
}
func lexLess(a, b []byte) bool {
	for i := 0; i < len(a) && i < len(b); i++ {
		if a[i] != b[i] {
			return a[i] < b[i]
		}
	}
	return len(a) < len(b)
}
func refOutLess(a, b outEl) bool {
	x, y := big.NewInt(a.Value), big.NewInt(b.Value)
	if c := x.Cmp(y); c != 0 {
		return c < 0
	}
	return lexLess(a.Script, b.Script)
}
func refOrderedIn(l []inEl) bool {
	for i := 0; i < len(l); i++ {
		for j := i + 1; j < len(l); j++ {
			if refInLess(l[j], l[i]) {
				return false
			}
		}
	}
	return true
}
func refOrderedOut(l []outEl) bool {
	for i := 0; i < len(l); i++ {
		for j := i + 1; j < len(l); j++ {
			if refOutLess(l[j], l[i]) {
				return false
			}
		}
	}
	return true
}
func inKey(e inEl) string   { return fmt.Sprintf("%x:%d", e.Hash[:], e.Index) }
func outKey(e outEl) string { return fmt.Sprintf("%d:%x", e.Value, e.Script) }

func elemsOf(tx *wire.MsgTx) ([]inEl, []outEl) {
	var a []inEl
	for _, t := range tx.TxIn {
		a = append(a, inOf(t))
	}
	var b []outEl
	for _, t := range tx.TxOut {
		b = append(b, outOf(t))
	}
	return a, b
}
func keySeq(tx *wire.MsgTx) string {
	a, b := elemsOf(tx)
	var sb strings.Builder
	for _, e := range a {
		sb.WriteString(inKey(e) + ",")
	}
	sb.WriteString("|")
	for _, e := range b {
		sb.WriteString(outKey(e) + ",")
	}
	return sb.String()
}
func snapshot(tx *wire.MsgTx) string {
	a, b := elemsOf(tx)
	var sb strings.Builder
	fmt.Fprintf(&sb, "v%d l%d;", tx.Version, tx.LockTime)
	for _, e := range a {
		sb.WriteString(e.str() + ";")
	}
	sb.WriteString("|")
	for _, e := range b {
		sb.WriteString(e.str() + ";")
	}
	return sb.String()
}
func sortedStrings(x []string) []string {
	y := append([]string(nil), x...)
	sort.Strings(y)
	return y
}
func first(p *[]byte) *byte {
	if len(*p) == 0 {
		return nil
	}
	return &(*p)[0]
}

// positions maps each result element to an original position (equal elements: first unused).
func positions(orig []string, res []string) []int {
	used := make([]bool, len(orig))
	out := make([]int, 0, len(res))
	for _, r := range res {
		k := -1
		for i, o := range orig {
			if !used[i] && o == r {
				k = i
				break
			}
		}
		if k >= 0 {
			used[k] = true
		} else {
			k = len(orig) // not an element of the original: invalid on purpose
		}
		out = append(out, k)
	}
	return out
}

// ---------- Coq terms ----------
var restIDs = map[string]int{}

func restID(s string) int {
	if id, ok := restIDs[s]; ok {
		return id
	}
	restIDs[s] = len(restIDs) + 1
	return restIDs[s]
}
func coqIn(e inEl) string {
	return fmt.Sprintf("(mk_in %s %d %d)", vh.CoqBytes(e.Hash[:]), e.Index, restID(fmt.Sprintf("i%x:%d", e.Script, e.Seq)))
}
func coqOut(e outEl) string {
	return fmt.Sprintf("(mk_out (%d)%%Z %s %d)", e.Value, vh.CoqBytes(e.Script), restID("o"+e.str()[strings.Index(e.str(), ":"):]))
}
func coqNats(p []int) string {
	if len(p) == 0 {
		return "([]%nat)"
	}
	s := make([]string, len(p))
	for i, v := range p {
		s[i] = fmt.Sprint(v)
	}
	return "([" + strings.Join(s, ";") + "]%nat)"
}

// ---------- the comparators as observable through the public API ----------
func implInLess(a, b inEl) bool  { return !txsort.IsSorted(build([]inEl{b, a}, nil)) }
func implOutLess(a, b outEl) bool { return !txsort.IsSorted(build(nil, []outEl{b, a})) }

func lessIn(a, b inEl, corr bool) {
	got := implInLess(a, b)
	want := refInLess(a, b)
	rep.Count("in_less", "il"+a.str()+"/"+b.str(), a.Hash != b.Hash || a.Index != b.Index)
	if got != want {
		rep.Violate("C18:less:input", "input comparator differs from (id as big-endian number, then index)",
			map[string]interface{}{"a": a.json(), "b": b.json(), "observed_less": got, "required_less": want, "observed_as": "!IsSorted(tx with inputs [b, a])"})
	}
	if corr {
		cases.Add(fmt.Sprintf("InLess %s %s %s", coqIn(a), coqIn(b), vh.CoqBool(got)), map[string]interface{}{"op": "input Less(a,b)", "a": a.json(), "b": b.json(), "impl": got})
	}
}
func lessOut(a, b outEl, corr bool) {
	got := implOutLess(a, b)
	want := refOutLess(a, b)
	rep.Count("out_less", "ol"+a.str()+"/"+b.str(), a.Value != b.Value || string(a.Script) != string(b.Script))
	if got != want {
		rep.Violate("C18:less:output", "output comparator differs from (signed amount, then script bytes lexicographically)",
			map[string]interface{}{"a": a.json(), "b": b.json(), "observed_less": got, "required_less": want, "observed_as": "!IsSorted(tx with outputs [b, a])"})
	}
	if corr {
		cases.Add(fmt.Sprintf("OutLess %s %s %s", coqOut(a), coqOut(b), vh.CoqBool(got)), map[string]interface{}{"op": "output Less(a,b)", "a": a.json(), "b": b.json(), "impl": got})
	}
}

// ---------- the property on one transaction ----------
func runTx(ins []inEl, outs []outEl, corr bool) {
	replay := txJSON(ins, outs)
	if p, msg := vh.Catch(func() { runTx1(ins, outs, corr, replay) }); p {
		rep.Violate("C18:panic", "txsort panicked", map[string]interface{}{"tx": replay, "panic": msg})
	}
}

func runTx1(ins []inEl, outs []outEl, corr bool, replay map[string]interface{}) {
	tx := build(ins, outs)
	before := snapshot(tx)
	inPtrs := append([]*wire.TxIn(nil), tx.TxIn...)
	outPtrs := append([]*wire.TxOut(nil), tx.TxOut...)
	viol := func(key, what string, extra map[string]interface{}) {
		m := map[string]interface{}{"tx": replay}
		for k, v := range extra {
			m[k] = v
		}
		rep.Violate(key, what, m)
	}

	wantSorted := refOrderedIn(ins) && refOrderedOut(outs)
	ties := false
	seenK := map[string]string{}
	for _, e := range ins {
		if s, ok := seenK["i"+inKey(e)]; ok && s != e.str() {
			ties = true
		}
		seenK["i"+inKey(e)] = e.str()
	}
	for _, e := range outs {
		if s, ok := seenK["o"+outKey(e)]; ok && s != e.str() {
			ties = true
		}
		seenK["o"+outKey(e)] = e.str()
	}
	rep.Count("tx", before, len(ins)+len(outs) >= 2 && (!wantSorted || ties))
	switch n := len(ins) + len(outs); {
	case len(ins) <= 4 && len(outs) <= 4:
		rep.Histogram["tx_up_to_4_ins_outs"]++
	case len(ins) <= 6 && len(outs) <= 6:
		rep.Histogram["tx_5_to_6_ins_outs"]++
	case n <= 80:
		rep.Histogram["tx_medium"]++
	default:
		rep.Histogram["tx_hundreds"]++
	}
	if wantSorted {
		rep.Histogram["tx_already_in_order"]++
	}
	if ties {
		rep.Histogram["tx_with_unequal_elements_of_equal_key"]++
	}
	dup := map[string]bool{}
	for _, e := range ins {
		if dup["i"+e.str()] {
			rep.Histogram["tx_with_duplicated_elements"]++
			break
		}
		dup["i"+e.str()] = true
	}

	// IsSorted <=> already in BIP69 order
	gotSorted := txsort.IsSorted(tx)
	if gotSorted != wantSorted {
		viol("C18:issorted:iff", "IsSorted differs from 'inputs and outputs are in BIP69 order'", map[string]interface{}{"IsSorted": gotSorted, "in_order": wantSorted})
	}
	if snapshot(tx) != before {
		viol("C18:issorted:mutates", "IsSorted modified the transaction", nil)
	}

	// Sort
	s := txsort.Sort(tx)
	if snapshot(tx) != before {
		viol("C18:sort:original_modified", "Sort modified the transaction it was given", map[string]interface{}{"before": before, "after": snapshot(tx)})
	}
	for i := range inPtrs {
		if i >= len(tx.TxIn) || tx.TxIn[i] != inPtrs[i] {
			viol("C18:sort:original_modified", "Sort rearranged the input objects of the transaction it was given", nil)
			break
		}
	}
	for i := range outPtrs {
		if i >= len(tx.TxOut) || tx.TxOut[i] != outPtrs[i] {
			viol("C18:sort:original_modified", "Sort rearranged the output objects of the transaction it was given", nil)
			break
		}
	}
	shared := ""
	for _, a := range s.TxIn {
		for _, b := range tx.TxIn {
			if a == b {
				shared = "TxIn object"
			}
			if p := first(&a.SignatureScript); p != nil && p == first(&b.SignatureScript) {
				shared = "SignatureScript buffer"
			}
		}
	}
	for _, a := range s.TxOut {
		for _, b := range tx.TxOut {
			if a == b {
				shared = "TxOut object"
			}
			if p := first(&a.PkScript); p != nil && p == first(&b.PkScript) {
				shared = "PkScript buffer"
			}
		}
	}
	if s == tx {
		shared = "MsgTx object"
	}
	if shared != "" {
		viol("C18:sort:shared", "the sorted copy shares memory with the original", map[string]interface{}{"shared": shared})
	}
	if s.Version != tx.Version || s.LockTime != tx.LockTime {
		viol("C18:sort:other_fields", "Sort changed Version/LockTime", nil)
	}
	sIn, sOut := elemsOf(s)
	strIn := func(l []inEl) []string {
		r := make([]string, len(l))
		for i, e := range l {
			r[i] = e.str()
		}
		return r
	}
	strOut := func(l []outEl) []string {
		r := make([]string, len(l))
		for i, e := range l {
			r[i] = e.str()
		}
		return r
	}
	if strings.Join(sortedStrings(strIn(sIn)), ";") != strings.Join(sortedStrings(strIn(ins)), ";") ||
		strings.Join(sortedStrings(strOut(sOut)), ";") != strings.Join(sortedStrings(strOut(outs)), ";") {
		viol("C18:sort:permutation", "Sort's result does not hold exactly the original inputs and outputs", map[string]interface{}{"sorted": txJSON(sIn, sOut)})
	}
	if !refOrderedIn(sIn) {
		viol("C18:sort:order_in", "Sort's inputs are not ordered by (id as big-endian number, index)", map[string]interface{}{"sorted": txJSON(sIn, sOut)})
	}
	if !refOrderedOut(sOut) {
		viol("C18:sort:order_out", "Sort's outputs are not ordered by (amount, script)", map[string]interface{}{"sorted": txJSON(sIn, sOut)})
	}
	// idempotence
	if !txsort.IsSorted(s) {
		viol("C18:sort:idempotent", "IsSorted(Sort(tx)) is false", map[string]interface{}{"sorted": txJSON(sIn, sOut)})
	}
	ks := keySeq(s)
	if s2 := txsort.Sort(s); keySeq(s2) != ks || (!ties && snapshot(s2) != snapshot(s)) {
		viol("C18:sort:idempotent", "Sort(Sort(tx)) differs from Sort(tx)", map[string]interface{}{"sorted": txJSON(sIn, sOut)})
	}
	if wantSorted && (ks != keySeq(tx) || (!ties && snapshot(s) != before)) {
		viol("C18:sort:idempotent", "Sort changed a transaction that is already in order", map[string]interface{}{"sorted": txJSON(sIn, sOut)})
	}

	// InPlaceSort on an equal transaction made of other objects
	c := build(ins, outs)
	cin := append([]*wire.TxIn(nil), c.TxIn...)
	cout := append([]*wire.TxOut(nil), c.TxOut...)
	txsort.InPlaceSort(c)
	qin := make([]int, len(c.TxIn))
	qout := make([]int, len(c.TxOut))
	okObjs := len(c.TxIn) == len(cin) && len(c.TxOut) == len(cout)
	usedI := make([]bool, len(cin))
	for i, p := range c.TxIn {
		qin[i] = len(cin)
		for j, q := range cin {
			if p == q && !usedI[j] {
				qin[i] = j
				usedI[j] = true
				break
			}
		}
		if qin[i] == len(cin) {
			okObjs = false
		}
	}
	usedO := make([]bool, len(cout))
	for i, p := range c.TxOut {
		qout[i] = len(cout)
		for j, q := range cout {
			if p == q && !usedO[j] {
				qout[i] = j
				usedO[j] = true
				break
			}
		}
		if qout[i] == len(cout) {
			okObjs = false
		}
	}
	if !okObjs {
		viol("C18:inplace:objects", "InPlaceSort did not merely permute the transaction's own input/output objects", nil)
	}
	cIn, cOut := elemsOf(c)
	if !refOrderedIn(cIn) || !refOrderedOut(cOut) {
		viol("C18:inplace:order", "InPlaceSort's result is not in BIP69 order", map[string]interface{}{"in_place": txJSON(cIn, cOut)})
	}
	if keySeq(c) != ks || (!ties && snapshot(c) != snapshot(s)) {
		viol("C18:inplace:same_order", "InPlaceSort and Sort produce different orders", map[string]interface{}{"sorted": txJSON(sIn, sOut), "in_place": txJSON(cIn, cOut)})
	}
	if okObjs {
		for i, j := range qin {
			if cIn[i].str() != ins[j].str() {
				viol("C18:inplace:objects", "InPlaceSort changed the contents of an input object", nil)
			}
		}
		for i, j := range qout {
			if cOut[i].str() != outs[j].str() {
				viol("C18:inplace:objects", "InPlaceSort changed the contents of an output object", nil)
			}
		}
	}

	if corr {
		pin := positions(strIn(ins), strIn(sIn))
		pout := positions(strOut(outs), strOut(sOut))
		ci := make([]string, len(ins))
		for i, e := range ins {
			ci[i] = coqIn(e)
		}
		co := make([]string, len(outs))
		for i, e := range outs {
			co[i] = coqOut(e)
		}
		cases.Add(fmt.Sprintf("SortCase %s %s %s %s %s %s %s", vh.CoqList(ci), vh.CoqList(co), vh.CoqBool(gotSorted), coqNats(pin), coqNats(pout), coqNats(qin), coqNats(qout)),
			map[string]interface{}{"op": "Sort/InPlaceSort/IsSorted", "tx": replay, "impl_IsSorted": gotSorted, "impl_sort_positions_in": pin, "impl_sort_positions_out": pout, "impl_inplace_positions_in": qin, "impl_inplace_positions_out": qout})
	}
}

// ---------- the same objects holding other contents (nothing may be remembered between calls) ----------
// runReuse builds a transaction from (ins, outs), runs IsSorted / Sort / InPlaceSort on it, then stores
// (ins2, outs2) into the very same TxIn / TxOut objects and requires the three functions to answer for
// the contents the objects hold now.
func runReuse(ins, ins2 []inEl, outs, outs2 []outEl) {
	if len(ins) != len(ins2) || len(outs) != len(outs2) {
		panic("runReuse: lengths differ")
	}
	replay := map[string]interface{}{"first": txJSON(ins, outs), "then_the_same_objects_hold": txJSON(ins2, outs2)}
	if p, msg := vh.Catch(func() { runReuse1(ins, ins2, outs, outs2, replay) }); p {
		replay["panic"] = msg
		rep.Violate("C18:panic", "txsort panicked", replay)
	}
}

func multisetEq(a, b []string) bool {
	return strings.Join(sortedStrings(a), ";") == strings.Join(sortedStrings(b), ";")
}

func runReuse1(ins, ins2 []inEl, outs, outs2 []outEl, replay map[string]interface{}) {
	tx := build(ins, outs)
	inObjs := append([]*wire.TxIn(nil), tx.TxIn...)
	outObjs := append([]*wire.TxOut(nil), tx.TxOut...)
	txsort.IsSorted(tx)
	txsort.Sort(tx)
	txsort.InPlaceSort(tx)
	// object k now holds element k of the second transaction, and the slices are in the original object order
	for k, o := range inObjs {
		e := ins2[k]
		o.PreviousOutPoint.Hash = chainhash.Hash(e.Hash)
		o.PreviousOutPoint.Index = e.Index
		o.SignatureScript = append([]byte(nil), e.Script...)
		o.Sequence = e.Seq
		tx.TxIn[k] = o
	}
	for k, o := range outObjs {
		e := outs2[k]
		o.Value = e.Value
		o.PkScript = append([]byte(nil), e.Script...)
		o.TokenData = e.Tok
		o.TokenData.Commitment = append([]byte(nil), e.Tok.Commitment...)
		tx.TxOut[k] = o
	}
	rep.Count("reuse", snapshot(tx)+"<-"+fmt.Sprint(len(ins)), len(ins)+len(outs) >= 2)
	rep.Histogram["tx_on_reused_objects"]++
	with := func(k string, v interface{}, k2 string, v2 interface{}) map[string]interface{} {
		m := map[string]interface{}{k: v}
		if k2 != "" {
			m[k2] = v2
		}
		for kk, vv := range replay {
			m[kk] = vv
		}
		return m
	}
	want := refOrderedIn(ins2) && refOrderedOut(outs2)
	if got := txsort.IsSorted(tx); got != want {
		rep.Violate("C18:reuse:issorted", "IsSorted answers for contents the objects held during an earlier call", with("IsSorted", got, "in_order", want))
	}
	strs := func(a []inEl, b []outEl) (x, y []string) {
		for _, e := range a {
			x = append(x, e.str())
		}
		for _, e := range b {
			y = append(y, e.str())
		}
		return
	}
	wi, wo := strs(ins2, outs2)
	s := txsort.Sort(tx)
	sIn, sOut := elemsOf(s)
	gi, go2 := strs(sIn, sOut)
	if !multisetEq(gi, wi) || !multisetEq(go2, wo) || !refOrderedIn(sIn) || !refOrderedOut(sOut) {
		rep.Violate("C18:reuse:sort", "Sort of objects seen before is not the BIP69-ordered permutation of their present contents", with("sorted", txJSON(sIn, sOut), "", nil))
	}
	txsort.InPlaceSort(tx)
	cIn, cOut := elemsOf(tx)
	gi, go2 = strs(cIn, cOut)
	if !multisetEq(gi, wi) || !multisetEq(go2, wo) || !refOrderedIn(cIn) || !refOrderedOut(cOut) {
		rep.Violate("C18:reuse:inplace", "InPlaceSort of objects seen before is not the BIP69-ordered permutation of their present contents", with("in_place", txJSON(cIn, cOut), "", nil))
	}
}

// ---------- generators ----------
func hashWith(pos []int, val []byte) [32]byte {
	var h [32]byte
	for i, p := range pos {
		h[p] = val[i]
	}
	return h
}

func hashPool() [][32]byte {
	var pool [][32]byte
	pool = append(pool, [32]byte{})
	for _, p := range []int{0, 1, 15, 16, 30, 31} {
		for _, v := range []byte{1, 0x7f, 0x80, 0xff} {
			pool = append(pool, hashWith([]int{p}, []byte{v}))
		}
	}
	// pairs where the first and last bytes disagree about the order
	pool = append(pool, hashWith([]int{0, 31}, []byte{2, 1}), hashWith([]int{0, 31}, []byte{1, 2}),
		hashWith([]int{15, 16}, []byte{2, 1}), hashWith([]int{15, 16}, []byte{1, 2}),
		hashWith([]int{0, 16}, []byte{9, 1}), hashWith([]int{1, 30}, []byte{3, 4}))
	var ff [32]byte
	for i := range ff {
		ff[i] = 0xff
	}
	pool = append(pool, ff)
	return pool
}

func randHash(r *vh.RNG, pool [][32]byte) [32]byte {
	switch r.Intn(4) {
	case 0:
		return vh.Pick(r, pool)
	case 1: // differs from a pool hash in one byte
		h := vh.Pick(r, pool)
		h[r.Intn(32)] = r.Byte()
		return h
	default:
		var h [32]byte
		copy(h[:], r.Bytes(32))
		return h
	}
}

var amounts = []int64{0, 1, 2, -1, math.MaxInt64, math.MinInt64, 2100000000000000, 546, 255, 256, 1 << 32, -(1 << 32)}
var scripts = [][]byte{{}, {0}, {0, 0}, {0, 1}, {1}, {0x7f}, {0x80}, {0xff}, {0x76, 0xa9, 0x14}, {0x76, 0xa9}, {0x76, 0xa9, 0x14, 0x00}, {0xa9, 0x14}}

// standard output script shapes around a payload
func p2pkh(h []byte) []byte { return append(append([]byte{0x76, 0xa9, 0x14}, h[:20]...), 0x88, 0xac) }
func p2sh(h []byte) []byte  { return append(append([]byte{0xa9, 0x14}, h[:20]...), 0x87) }
func p2sh32(h []byte) []byte { return append(append([]byte{0xaa, 0x20}, h[:32]...), 0x87) }
func p2pk(h []byte) []byte  { return append(append([]byte{0x21, 0x02 + h[32]&1}, h[:32]...), 0xac) }
func opReturn(h []byte, n int) []byte {
	return append([]byte{0x6a, byte(n)}, h[:n]...)
}
func templateScript(r *vh.RNG) []byte {
	h := r.Bytes(40)
	switch r.Intn(8) { // payloads with extreme first / last bytes
	case 0:
		h[0] = 0
	case 1:
		h[0] = 0xff
	case 2:
		h[19] = 0
	case 3:
		h[19] = 0xff
	}
	switch r.Intn(6) {
	case 0, 1:
		return p2pkh(h)
	case 2:
		return p2sh(h)
	case 3:
		return p2sh32(h)
	case 4:
		return p2pk(h)
	default:
		return opReturn(h, r.Intn(41))
	}
}

func randScript(r *vh.RNG) []byte {
	switch r.Intn(4) {
	case 3:
		return templateScript(r)
	case 0:
		return vh.Pick(r, scripts)
	case 1: // extension / truncation of a pool script
		s := append([]byte(nil), vh.Pick(r, scripts)...)
		return append(s, r.Bytes(r.Intn(3))...)
	default:
		return r.Bytes(r.Intn(30))
	}
}

func permute[T any](l []T, f func([]T)) {
	var rec func(k int)
	rec = func(k int) {
		if k == len(l) {
			f(l)
			return
		}
		for i := k; i < len(l); i++ {
			l[k], l[i] = l[i], l[k]
			rec(k + 1)
			l[k], l[i] = l[i], l[k]
		}
	}
	rec(0)
}

func main() {
	cfg = vh.ParseFlags("C18")
	rep = vh.NewReport(cfg)
	rep.Rule = "comparator pairs over a structured hash/amount/script pool (observed through IsSorted on two-element transactions); all tuples of <= 4 and all permutations of random multisets of 5..6 inputs/outputs over small key alphabets with ties; txids differing in one byte at every position and in two bytes that disagree at every pair of positions; amounts next to each other at every binary size and sign; scripts equal up to every position of the usual lengths and standard script shapes; random transactions up to hundreds of inputs/outputs with few distinct keys; the same TxIn/TxOut objects holding other contents on a later call; a comparator pair is non-trivial when the keys differ, transactions of the sizes around 8..128 (thorough: ..512) whose txids share their high-order bytes; standard script shapes with one byte changed at every position; special values of the fields that play no role in the ordering (null outpoint, signature-script lengths, sequence, token data) on one side with the other side out of order; a transaction when it has >= 2 elements and is out of order or holds unequal elements with equal keys; distinct by content"
	cases = vh.NewCases(cfg, "Run.Run_C18", 150) // small shards: a 300-case shard of large transactions needs 1 GB in coqc
	rng := vh.NewRNG(cfg.Seed)
	wide := cfg.Search || cfg.Thorough()
	pool := hashPool()

	// --- comparators
	r := rng.Fork("less")
	idx := []uint32{0, 1, 2, 0x7fffffff, 0x80000000, 0xffffffff}
	for i, ha := range pool {
		for j, hb := range pool {
			for k := 0; k < 3; k++ {
				a := inEl{ha, vh.Pick(r, idx), nil, 0xffffffff}
				b := inEl{hb, vh.Pick(r, idx), nil, 0xffffffff}
				if k == 0 {
					b.Index = a.Index
				}
				lessIn(a, b, (i*len(pool)+j+k)%11 == 0 || (i == j && k < 2))
			}
		}
	}
	for i := 0; i < cfg.Scale(400, 6000); i++ {
		a := inEl{randHash(r, pool), vh.Pick(r, idx), nil, 0}
		b := inEl{randHash(r, pool), vh.Pick(r, idx), nil, 0}
		if i%3 == 0 { // same hash, or differing in exactly one byte
			b.Hash = a.Hash
			if i%2 == 0 {
				b.Hash[r.Intn(32)] ^= 1 << uint(r.Intn(8))
			}
		}
		if i%5 == 0 {
			b.Index = r.U32()
			a.Index = r.U32()
		}
		lessIn(a, b, i%4 == 0 && !cfg.Search)
	}
	// txids that differ in exactly one byte, at every byte position, with the indices ordered the other way round
	for p := 0; p < 32; p++ {
		for rep3 := 0; rep3 < 3; rep3++ {
			var base [32]byte
			if rep3 > 0 {
				copy(base[:], r.Bytes(32))
			}
			ha, hb := base, base
			va := byte(r.Intn(255))
			ha[p], hb[p] = va, va+1
			if rep3 == 2 {
				hb[p] = byte(int(va) + 1 + r.Intn(255-int(va)))
			}
			a := inEl{ha, 5, nil, 0}
			b := inEl{hb, 2, nil, 0}
			lessIn(a, b, rep3 < 2)
			lessIn(b, a, rep3 < 2)
			c := inEl{ha, 9, nil, 0}
			runTx([]inEl{b, c, a}, nil, rep3 == 1)
			runTx([]inEl{a, c, b}, nil, false)
			runTx([]inEl{a, b}, nil, false)
			runReuse([]inEl{a, b}, []inEl{b, a}, nil, nil)
		}
	}
	// txids that differ in exactly two bytes which disagree about the order, for every pair of byte
	// positions p < q (the more significant position q must decide), on a zero and on a random base;
	// the indices are ordered the other way round as well
	for p := 0; p < 32; p++ {
		for q := p + 1; q < 32; q++ {
			for rep2 := 0; rep2 < 2; rep2++ {
				var base [32]byte
				if rep2 == 1 {
					copy(base[:], r.Bytes(32))
				}
				ha, hb := base, base
				x, y := byte(r.Intn(255)), byte(r.Intn(255))
				ha[p], hb[p] = x+1, x // a wins on the less significant byte
				ha[q], hb[q] = y, y+1 // b wins on the more significant byte
				a := inEl{ha, 1, nil, 0}
				b := inEl{hb, 0, nil, 0}
				rep.Histogram["in_less_two_positions_disagree"] += 2
				corr := !cfg.Search && (p*32+q+rep2)%9 == 0
				lessIn(a, b, corr)
				lessIn(b, a, corr)
				if (p+q+rep2)%4 == 0 {
					runTx([]inEl{b, a, {ha, 0, nil, 0}}, nil, false)
					runReuse([]inEl{b, a}, []inEl{a, b}, nil, nil)
				}
			}
		}
	}
	// amounts next to each other at every binary size and sign (a comparison that loses low bits, wraps
	// or compares as unsigned shows only here), with the scripts ordered the other way round
	for k := 0; k < 64; k++ {
		for sgn := 0; sgn < 2; sgn++ {
			for rep2 := 0; rep2 < 3; rep2++ {
				var v int64
				switch {
				case k == 63 && sgn == 0:
					v = math.MaxInt64 - int64(rep2)
				case k == 63:
					v = math.MinInt64 + 1 + int64(rep2)
				default:
					v = int64(1) << uint(k)
					if rep2 == 1 {
						v += int64(r.U64() & uint64(v-1) &^ 1) // random lower bits, still even
					} else if rep2 == 2 {
						v += v - 2 + int64(k&1) // all ones below, or all ones but the last bit
						if v < 0 {
							v = math.MaxInt64 - 1
						}
					}
					if sgn == 1 {
						v = -v
					}
				}
				lo := outEl{Value: v - 1, Script: []byte{0xff, 0xff}}
				hi := outEl{Value: v, Script: []byte{}}
				rep.Histogram["out_less_adjacent_amounts"] += 2
				corr := !cfg.Search && (k+sgn+rep2)%6 == 0
				lessOut(lo, hi, corr)
				lessOut(hi, lo, corr)
				if rep2 == 0 {
					runTx(nil, []outEl{hi, lo, {Value: v - 1, Script: []byte{0xff}}}, k%8 == 0 && !cfg.Search)
				}
			}
		}
	}
	// scripts with a long common part: equal up to position pos (every position of the standard script
	// lengths and around 64 / 76 / 256), then a differing byte, then tails ordered the other way round;
	// and a script against its own extension
	for _, n := range []int{2, 8, 9, 20, 22, 23, 24, 25, 26, 32, 33, 34, 35, 36, 64, 65, 67, 76, 77, 255, 256, 257, 520} {
		for pos := 0; pos < n; pos++ {
			if n > 40 && pos > 3 && pos < n-3 && pos%16 != 0 && pos%16 != 15 {
				continue
			}
			base := r.Bytes(n)
			sa := append([]byte(nil), base...)
			sb := append([]byte(nil), base...)
			x := byte(r.Intn(255))
			sa[pos], sb[pos] = x, x+1
			for t := pos + 1; t < n; t++ { // everything after pos says the opposite
				sa[t], sb[t] = 0xff, 0
			}
			v := vh.Pick(r, amounts)
			a := outEl{Value: v, Script: sa}
			b := outEl{Value: v, Script: sb}
			rep.Histogram["out_less_long_common_prefix"] += 2
			corr := !cfg.Search && (n+pos)%7 == 0 && n <= 80
			lessOut(a, b, corr)
			lessOut(b, a, corr)
			if pos == n-1 { // proper prefix against the full script, and against a shorter script that is larger
				pre := outEl{Value: v, Script: base[:n-1]}
				full := outEl{Value: v, Script: base}
				lessOut(pre, full, corr)
				lessOut(full, pre, corr)
				runTx(nil, []outEl{b, full, a, pre}, false)
			}
		}
	}
	// standard script shapes (P2PKH, P2SH, P2SH32, P2PK, OP_RETURN) with random payloads for one amount
	for i := 0; i < cfg.Scale(400, 6000); i++ {
		v := vh.Pick(r, amounts)
		a := outEl{Value: v, Script: templateScript(r)}
		b := outEl{Value: v, Script: templateScript(r)}
		if i%4 == 0 { // same shape, payload differing in one byte
			b.Script = append([]byte(nil), a.Script...)
			if len(b.Script) > 0 {
				b.Script[r.Intn(len(b.Script))] ^= 1 << uint(r.Intn(8))
			}
		}
		if i%9 == 0 {
			b.Script = randScript(r)
		}
		rep.Histogram["out_less_standard_scripts"]++
		lessOut(a, b, i%6 == 0 && !cfg.Search)
		if i%5 == 0 {
			runTx(nil, []outEl{a, b, {Value: v, Script: templateScript(r)}, {Value: v, Script: templateScript(r)}}, i%40 == 0 && !cfg.Search)
		}
	}
	// every standard shape against itself with exactly ONE byte changed, at EVERY position (opcode bytes,
	// push lengths, every payload byte, the trailing opcode): a comparison that skips "fixed" bytes of a
	// recognised shape shows only here
	for shape := 0; shape < 5; shape++ {
		for rep2 := 0; rep2 < 2; rep2++ {
			h := r.Bytes(40)
			var sa []byte
			switch shape {
			case 0:
				sa = p2pkh(h)
			case 1:
				sa = p2sh(h)
			case 2:
				sa = p2sh32(h)
			case 3:
				sa = p2pk(h)
			default:
				sa = opReturn(h, 20)
			}
			v := vh.Pick(r, amounts)
			for pos := 0; pos < len(sa); pos++ {
				sb := append([]byte(nil), sa...)
				if rep2 == 0 {
					sb[pos]++ // the neighbouring byte value (wraps to 00 from ff)
				} else {
					sb[pos] ^= byte(1 + r.Intn(255))
				}
				a := outEl{Value: v, Script: sa}
				b := outEl{Value: v, Script: sb}
				rep.Histogram["out_less_standard_shape_one_byte_changed"] += 2
				corr := !cfg.Search && rep2 == 0 && (shape*7+pos)%5 == 0
				lessOut(a, b, corr)
				lessOut(b, a, corr)
				runTx(nil, []outEl{b, a}, false)
				if pos%6 == 0 {
					runTx(nil, []outEl{a, b, {Value: v, Script: sa[:len(sa)-1]}, b, a}, false)
				}
			}
		}
	}
	for i, va := range amounts {
		for j, vb := range amounts {
			for k, sa := range scripts {
				for l, sb := range scripts {
					if va != vb && (k+l)%5 != 0 {
						continue
					}
					lessOut(outEl{Value: va, Script: sa}, outEl{Value: vb, Script: sb}, (i*7+j*5+k*3+l)%9 == 0)
				}
			}
		}
	}
	for i := 0; i < cfg.Scale(300, 6000); i++ {
		a := outEl{Value: vh.Pick(r, amounts), Script: randScript(r)}
		b := outEl{Value: vh.Pick(r, amounts), Script: randScript(r)}
		if i%2 == 0 {
			b.Value = a.Value
		}
		if i%7 == 0 {
			a.Value, b.Value = int64(r.U64()), int64(r.U64())
		}
		lessOut(a, b, i%3 == 0 && !cfg.Search)
	}

	// --- small scopes: element pools with ties in hash, index, amount, script-prefix relations
	r = rng.Fork("small")
	h1, h2, h3 := hashWith([]int{0}, []byte{1}), hashWith([]int{31}, []byte{1}), hashWith([]int{0, 31}, []byte{2, 1})
	inPool := []inEl{
		{h1, 0, nil, 1}, {h1, 1, nil, 1}, {h1, 1, []byte{0x51}, 2}, // same key, different element
		{h2, 0, nil, 1}, {h2, 0xffffffff, nil, 1},
		{h3, 0, nil, 1}, {[32]byte{}, 7, nil, 1}, {[32]byte{}, 7, nil, 1}, // identical twins
	}
	tok := wire.TokenData{Amount: 5, BitField: 0x10}
	outPool := []outEl{
		{Value: 0, Script: []byte{}}, {Value: 0, Script: []byte{0}}, {Value: 0, Script: []byte{0, 0}}, {Value: 0, Script: []byte{1}},
		{Value: -1, Script: []byte{0xff}}, {Value: math.MaxInt64, Script: []byte{}}, {Value: 1, Script: []byte{0x80}}, {Value: 1, Script: []byte{0x7f}},
		{Value: 1, Script: []byte{0x7f}, Tok: tok}, // same key as the previous one, different element
		{Value: 0, Script: []byte{0}},              // identical twin of the second one
	}
	count := 0
	var tuples func(n int, curI []inEl, curO []outEl, kind int)
	tuples = func(n int, curI []inEl, curO []outEl, kind int) {
		if n == 0 {
			count++
			runTx(append([]inEl(nil), curI...), append([]outEl(nil), curO...), r.Intn(cfg.Scale(60, 45)) == 0 && !cfg.Search)
			return
		}
		if kind == 0 {
			for _, e := range inPool {
				tuples(n-1, append(curI, e), curO, kind)
			}
		} else {
			for _, e := range outPool {
				tuples(n-1, curI, append(curO, e), kind)
			}
		}
	}
	runTx(nil, nil, true)
	maxTuple := 4
	for n := 1; n <= maxTuple; n++ {
		tuples(n, nil, nil, 0)
		tuples(n, nil, nil, 1)
	}
	// all permutations of random multisets of 5..6 elements; inputs and outputs together
	nms := cfg.Scale(12, 120)
	if cfg.Search {
		nms = 200
	}
	for m := 0; m < nms; m++ {
		n := 5 + m%2
		mi := make([]inEl, n)
		mo := make([]outEl, n)
		for i := range mi {
			mi[i] = vh.Pick(r, inPool)
			mo[i] = vh.Pick(r, outPool)
		}
		fixedOut := append([]outEl(nil), mo...)
		permute(mi, func(p []inEl) {
			runTx(append([]inEl(nil), p...), fixedOut, r.Intn(cfg.Scale(400, 700)) == 0 && !cfg.Search)
		})
		fixedIn := append([]inEl(nil), mi...)
		permute(mo, func(p []outEl) {
			runTx(fixedIn, append([]outEl(nil), p...), r.Intn(cfg.Scale(400, 700)) == 0 && !cfg.Search)
		})
		// the same objects holding the multiset in reverse, then rotated
		revI, revO := make([]inEl, n), make([]outEl, n)
		rotI, rotO := make([]inEl, n), make([]outEl, n)
		for i := 0; i < n; i++ {
			revI[i], revO[i] = mi[n-1-i], mo[n-1-i]
			rotI[i], rotO[i] = mi[(i+1)%n], mo[(i+2)%n]
		}
		runReuse(mi, revI, mo, revO)
		runReuse(mi, rotI, mo, rotO)
	}
	// inputs in order, outputs not (and the reverse): IsSorted must look at both
	for i := 0; i < 40; i++ {
		oi := []inEl{inPool[0], inPool[1], inPool[3]}
		oo := []outEl{outPool[4], outPool[0], outPool[1], outPool[3]}
		switch i % 4 {
		case 1:
			oo[0], oo[3] = oo[3], oo[0]
		case 2:
			oi[0], oi[2] = oi[2], oi[0]
		case 3:
			oo[1], oo[2] = oo[2], oo[1]
		}
		runTx(oi[:1+r.Intn(3)], oo[:2+r.Intn(3)], i < 12)
	}

	// --- transactions around the sizes where a sorting routine may switch strategy (12, 24, 32, 64, 128, ...),
	// made of txids that share their high-order bytes and differ only in low-order ones (and scripts of one
	// amount sharing a long prefix), with the indices ordered the other way round
	r = rng.Fork("sizes")
	sizes := []int{7, 8, 9, 11, 12, 13, 15, 16, 17, 23, 24, 25, 31, 32, 33, 49, 50, 51, 63, 64, 65, 99, 100, 101, 127, 128, 129}
	if cfg.Thorough() || cfg.Search {
		sizes = append(sizes, 255, 256, 257, 511, 512, 513)
	}
	for si, n := range sizes {
		for _, low := range []int{1, 2, 8, 16, 24, 31} { // number of low-order (stored leading) bytes that vary
			var base [32]byte
			copy(base[:], r.Bytes(32))
			if low%2 == 0 {
				for k := low; k < 32; k++ { // leading zeros as displayed
					base[k] = 0
				}
			}
			ins := make([]inEl, n)
			for k := range ins {
				h := base
				switch {
				case low == 1:
					h[0] = byte(r.Intn(4))
				case k%3 == 0:
					h[r.Intn(low)] ^= byte(1 + r.Intn(255)) // one low-order byte differs from the base
				default:
					copy(h[:low], r.Bytes(low))
				}
				ins[k] = inEl{h, 0, nil, 0xffffffff}
			}
			// indices: the opposite of the txid order
			rank := make([]int, n)
			for k := range rank {
				rank[k] = k
			}
			sort.SliceStable(rank, func(a, b int) bool { return refInLess(ins[rank[a]], ins[rank[b]]) })
			for pos, k := range rank {
				ins[k].Index = uint32(n - pos)
			}
			outs := make([]outEl, n)
			pre := r.Bytes(low + 8)
			for k := range outs {
				sc := append(append([]byte(nil), pre...), r.Bytes(1+r.Intn(3))...)
				outs[k] = outEl{Value: int64(r.Intn(2)), Script: sc}
			}
			rep.Histogram["tx_at_size_thresholds_shared_high_bytes"]++
			runTx(ins, outs, !cfg.Search && n <= 33 && (si+low)%4 == 0)
			if n >= 2 {
				ins2 := append([]inEl(nil), ins[1:]...)
				ins2 = append(ins2, ins[0])
				runReuse(ins, ins2, nil, nil)
			}
		}
	}

	// --- fields that play no role in the ordering, at their special values, on one side; the other side out
	// of order.  Inputs: null outpoint (zero hash, index 0xffffffff) and its neighbours, signature scripts of
	// length 0, 1, 2, 3, 50, 100, 101, 520, sequence 0 / 0xfffffffe / 0xffffffff; one or two such inputs with
	// outputs in several wrong orders.  Outputs: amounts 0 / dust / max, empty / OP_RETURN / standard
	// scripts, token data; one or two such outputs with inputs in the wrong order.
	r = rng.Fork("shapes")
	var ffHash [32]byte
	for i := range ffHash {
		ffHash[i] = 0xff
	}
	shapeHashes := [][32]byte{{}, ffHash, hashWith([]int{0}, []byte{1}), hashWith([]int{31}, []byte{1})}
	shapeIdx := []uint32{0xffffffff, 0, 0xfffffffe, 1}
	shapeLens := []int{0, 1, 2, 3, 50, 99, 100, 101, 520}
	shapeSeq := []uint32{0xffffffff, 0, 0xfffffffe}
	wrongOuts := [][]outEl{
		{{Value: 2, Script: []byte{1}}, {Value: 1, Script: []byte{2}}},
		{{Value: 5, Script: []byte{2}}, {Value: 5, Script: []byte{1}}, {Value: 0, Script: opReturn(make([]byte, 40), 4)}},
		{{Value: 5000000000, Script: p2pkh(make([]byte, 40))}, {Value: 0, Script: opReturn(make([]byte, 40), 36)}, {Value: 0, Script: []byte{0x6a}}},
	}
	shapeN := 0
	for _, h := range shapeHashes {
		for _, ix := range shapeIdx {
			for _, ln := range shapeLens {
				for _, sq := range shapeSeq {
					e := inEl{h, ix, r.Bytes(ln), sq}
					if ln == 0 {
						e.Script = nil
					}
					for wi, wo := range wrongOuts {
						shapeN++
						if shapeN%7 == 0 {
							curVersion, curLockTime = vh.Pick(r, versions), vh.Pick(r, lockTimes)
						}
						rep.Histogram["tx_special_input_fields_outputs_out_of_order"]++
						runTx([]inEl{e}, wo, !cfg.Search && shapeN%40 == 0)
						if wi == 0 { // a second input of the same kind after / before it
							e2 := inEl{h, ix, r.Bytes(ln), shapeSeq[(shapeN+1)%3]}
							runTx([]inEl{e, e2}, wo, false)
							runTx([]inEl{{vh.Pick(r, shapeHashes), 3, nil, 0}, e}, wo, false)
						}
						curVersion, curLockTime = 2, 77
					}
				}
			}
		}
	}
	wrongIns := [][]inEl{
		{{hashWith([]int{31}, []byte{2}), 0, nil, 0}, {hashWith([]int{31}, []byte{1}), 0, nil, 0}},
		{{[32]byte{}, 1, []byte{0x51}, 0xffffffff}, {[32]byte{}, 0, nil, 0}, {ffHash, 0, nil, 0}},
		{{ffHash, 0xffffffff, nil, 0}, {[32]byte{}, 0xffffffff, []byte{1, 2, 3, 4}, 0xffffffff}},
	}
	shapeVals := []int64{0, 1, 546, 5000000000, 2100000000000000, math.MaxInt64, -1}
	shapeScripts := [][]byte{nil, {0x6a}, opReturn(make([]byte, 40), 40), p2pkh(make([]byte, 40)), p2sh(make([]byte, 40)), r.Bytes(520)}
	shapeToks := []wire.TokenData{{}, {Amount: 1, BitField: 0x10}, {Amount: 0, BitField: 0x60, Commitment: []byte{1, 2}}}
	for _, v := range shapeVals {
		for _, sc := range shapeScripts {
			for _, tk := range shapeToks {
				e := outEl{Value: v, Script: sc, Tok: tk}
				for wi, wins := range wrongIns {
					shapeN++
					if shapeN%7 == 0 {
						curVersion, curLockTime = vh.Pick(r, versions), vh.Pick(r, lockTimes)
					}
					rep.Histogram["tx_special_output_fields_inputs_out_of_order"]++
					runTx(wins, []outEl{e}, !cfg.Search && shapeN%40 == 0)
					if wi == 0 {
						runTx(wins, []outEl{e, e}, false)
						runTx(wins, []outEl{e, {Value: v + 1, Script: sc, Tok: tk}}, false)
					}
					curVersion, curLockTime = 2, 77
				}
			}
		}
	}

	// --- random transactions
	r = rng.Fork("random")
	nr := cfg.Scale(250, 4000)
	if cfg.Search {
		nr = 6000
	}
	for i := 0; i < nr; i++ {
		ni, no := r.Intn(9), r.Intn(9)
		large := i%25 == 0
		if large {
			ni, no = r.Intn(cfg.Scale(300, 700)), r.Intn(cfg.Scale(300, 700))
		} else if i%6 == 0 {
			ni, no = r.Intn(40), r.Intn(40)
		}
		nh := 1 + r.Intn(6) // few distinct hashes => many ties
		hs := make([][32]byte, nh)
		for k := range hs {
			hs[k] = randHash(r, pool)
		}
		ins := make([]inEl, ni)
		for k := range ins {
			ins[k] = inEl{vh.Pick(r, hs), uint32(r.Intn(4)), nil, uint32(r.Intn(2))}
			if r.Intn(5) == 0 {
				ins[k].Index = r.U32()
			}
			if r.Intn(6) == 0 {
				ins[k].Script = r.Bytes(1 + r.Intn(4))
			}
		}
		outs := make([]outEl, no)
		for k := range outs {
			outs[k] = outEl{Value: vh.Pick(r, amounts), Script: randScript(r)}
			if r.Intn(4) == 0 {
				outs[k].Value = int64(r.Intn(5))
			}
			if r.Intn(8) == 0 {
				outs[k].Tok = wire.TokenData{Amount: uint64(r.Intn(3)), BitField: 0x10, Commitment: r.Bytes(r.Intn(3))}
				if r.Bool() {
					copy(outs[k].Tok.CategoryID[:], r.Bytes(32))
				}
			}
		}
		if i%3 == 0 { // duplicated elements (full ties)
			for k := 0; k < 1+r.Intn(3); k++ {
				if ni >= 2 {
					ins[r.Intn(ni)] = ins[r.Intn(ni)]
				}
				if no >= 2 {
					outs[r.Intn(no)] = outs[r.Intn(no)]
				}
			}
		}
		if i%4 == 0 { // already sorted input
			sort.SliceStable(ins, func(a, b int) bool { return refInLess(ins[a], ins[b]) })
			sort.SliceStable(outs, func(a, b int) bool { return refOutLess(outs[a], outs[b]) })
			if i%8 == 0 && no >= 2 { // ... except for one swap
				a, b := r.Intn(no), r.Intn(no)
				outs[a], outs[b] = outs[b], outs[a]
			}
		}
		corr := !cfg.Search && ((!large && i%2 == 0) || (large && i%50 == 0 && ni+no <= 450))
		if i%3 == 1 { // other Version / LockTime values to be carried over
			curVersion, curLockTime = vh.Pick(r, versions), vh.Pick(r, lockTimes)
		}
		runTx(ins, outs, corr)
		if !large && ni+no >= 2 {
			// the same objects holding the elements in another arrangement (and partly other elements)
			ins2 := append([]inEl(nil), ins...)
			outs2 := append([]outEl(nil), outs...)
			for k := len(ins2) - 1; k > 0; k-- {
				j := r.Intn(k + 1)
				ins2[k], ins2[j] = ins2[j], ins2[k]
			}
			for k := len(outs2) - 1; k > 0; k-- {
				j := r.Intn(k + 1)
				outs2[k], outs2[j] = outs2[j], outs2[k]
			}
			if i%3 == 0 {
				for k := range ins2 {
					if r.Intn(3) == 0 {
						ins2[k].Hash = randHash(r, pool)
					}
				}
				for k := range outs2 {
					if r.Intn(3) == 0 {
						outs2[k].Value, outs2[k].Script = vh.Pick(r, amounts), randScript(r)
					}
				}
			}
			runReuse(ins, ins2, outs, outs2)
		}
		curVersion, curLockTime = 2, 77
	}
	_ = wide
	coincidingOrders(rng.Fork("coinciding"), wide)

	rep.Extra["small_scope_tuples"] = count
	rep.Cases = cases.Len()
	rep.Extra["duplicate_cases_dropped"] = cases.Dups
	_, err := cases.Flush()
	vh.Must(err)
	vh.Must(rep.Write(cfg))
	fmt.Printf("c18: %d implementation executions, %d correspondence cases, %d monitor violations\n", rep.Evaluations, rep.Cases, len(rep.Violations))
}

// ---------- orders that coincide with BIP69 on easy inputs (round 3) ----------
// Sort / InPlaceSort hand a slice type to sort.Sort; which Less that type has is invisible from the
// call.  A wrong order that agrees with BIP69 on most inputs (the stored bytes compared front to
// back, the index compared first, the index compared first only among ids sharing a leading or
// trailing run of bytes, ties among equal ids broken downwards, amounts compared unsigned ...) is
// told apart only by inputs built for the purpose.  For every PREFIX (lengths 0..32; zero, 0xff,
// random, every byte string and number that occurs as a literal in the package source - forwards
// and backwards - and memorable numbers) placed at either end of the stored hash in either
// direction, transactions of 2..6 inputs are built whose ids all carry the prefix, whose remaining
// bytes differ (randomly, or in one byte), and whose indices run AGAINST the id order (plus one id
// used twice with two indices); outputs likewise with amounts from the same number pool, equal
// amounts with scripts sharing the prefix, and script order against amount order.  Every such
// transaction goes through the ordinary monitors (Sort, InPlaceSort, IsSorted against the BIP69
// reference, inputs and outputs judged separately).  The histogram counts, per alternative key, the
// transactions on which that key and BIP69 disagree (alt_order_distinguished/<key>).
//
// Also: every integer table in the source that is a permutation is used as a rank layout of the
// inputs and of the outputs (with its inverse), next to the generic layouts (reversed, rotated,
// organ pipe, interleaved) at the lengths 2..16, 31..33, 63..65.
func coincidingOrders(r *vh.RNG, wide bool) {
	dict := srclits.Harvest(true, filepath.Join(srclits.RepoDir(), "txsort"))
	rep.Extra["dictionary"] = map[string]interface{}{"files": dict.Files, "source_literals": len(dict.Raw), "byte_strings": len(dict.Bytes), "permutation_tables": len(dict.Perms()) / 2}
	type altKey struct {
		name string
		less func(a, b inEl) bool
	}
	topEq := func(a, b inEl, k int) bool { // the k most significant bytes of the id agree
		for i := 0; i < k; i++ {
			if a.Hash[31-i] != b.Hash[31-i] {
				return false
			}
		}
		return true
	}
	alts := []altKey{
		{"stored_bytes_front_to_back", func(a, b inEl) bool {
			if c := bytes.Compare(a.Hash[:], b.Hash[:]); c != 0 {
				return c < 0
			}
			return a.Index < b.Index
		}},
		{"index_first", func(a, b inEl) bool {
			if a.Index != b.Index {
				return a.Index < b.Index
			}
			return refInLess(a, b)
		}},
		{"index_descending_among_equal_ids", func(a, b inEl) bool {
			if a.Hash != b.Hash {
				return refInLess(a, b)
			}
			return a.Index > b.Index
		}},
		{"index_signed", func(a, b inEl) bool {
			if a.Hash != b.Hash {
				return refInLess(a, b)
			}
			return int32(a.Index) < int32(b.Index)
		}},
	}
	for _, k := range []int{1, 2, 4, 5, 8, 16, 31} {
		k := k
		alts = append(alts, altKey{fmt.Sprintf("index_first_among_ids_sharing_%d_leading_bytes", k), func(a, b inEl) bool {
			if topEq(a, b, k) && a.Index != b.Index {
				return a.Index < b.Index
			}
			return refInLess(a, b)
		}})
	}
	judge := func(ins []inEl) {
		want := append([]inEl(nil), ins...)
		sort.SliceStable(want, func(i, j int) bool { return refInLess(want[i], want[j]) })
		for _, a := range alts {
			got := append([]inEl(nil), ins...)
			sort.SliceStable(got, func(i, j int) bool { return a.less(got[i], got[j]) })
			for i := range got {
				if inKey(got[i]) != inKey(want[i]) {
					rep.Histogram["alt_order_distinguished/"+a.name]++
					break
				}
			}
		}
	}
	// prefixes
	var prefixes [][]byte
	for _, L := range []int{0, 1, 2, 3, 4, 5, 6, 8, 12, 16, 24, 31} {
		z := make([]byte, L)
		f := bytes.Repeat([]byte{0xff}, L)
		prefixes = append(prefixes, z, f, r.Bytes(L))
		if wide {
			prefixes = append(prefixes, r.Bytes(L), r.Bytes(L))
		}
	}
	for _, b := range dict.Bytes {
		if len(b) <= 31 {
			prefixes = append(prefixes, b)
		}
	}
	nums := dict.Raw
	if wide {
		nums = dict.Numbers(400)
	} else {
		nums = append(append([]int64(nil), nums...), 0xdeadbeef, 0xbeef, 1234567891, 0xcafebabe, 123456789)
	}
	for _, v := range nums {
		if v > 255 || v < 0 {
			var b8 [8]byte
			binary.BigEndian.PutUint64(b8[:], uint64(v))
			p := bytes.TrimLeft(b8[:], "\x00")
			prefixes = append(prefixes, append([]byte(nil), p...))
		}
	}
	place := func(p []byte, mode int, tail []byte) [32]byte {
		var h [32]byte
		copy(h[:], tail)
		for k, v := range p {
			switch mode {
			case 0: // leading bytes of the id as displayed, in display order
				h[31-k] = v
			case 1: // leading bytes of the id as displayed, written backwards
				h[31-(len(p)-1-k)] = v
			case 2: // front of the stored bytes
				h[k] = v
			default: // front of the stored bytes, backwards
				h[len(p)-1-k] = v
			}
		}
		return h
	}
	scr := func(p []byte, tail []byte) []byte { return append(append([]byte(nil), p...), tail...) }
	for pi, p := range prefixes {
		for mode := 0; mode < 4; mode++ {
			if len(p) == 0 && mode > 0 {
				continue
			}
			for _, m := range []int{2, 3, 4, 6} {
				for variant := 0; variant < 3; variant++ {
					// ids carrying the prefix; the free bytes: random / differing in one byte of a common base
					hs := make([][32]byte, m)
					base := r.Bytes(32)
					for i := range hs {
						tail := r.Bytes(32)
						if variant == 1 {
							tail = append([]byte(nil), base...)
							if free := 32 - len(p); free > 0 {
								q := r.Intn(free)
								if mode < 2 {
									tail[q] = byte(i*37 + 1)
								} else {
									tail[31-q] = byte(i*37 + 1)
								}
							}
						}
						hs[i] = place(p, mode, tail)
					}
					ins := make([]inEl, m)
					for i := range ins {
						ins[i] = inEl{hs[i], 0, nil, 0xffffffff}
					}
					sort.SliceStable(ins, func(i, j int) bool { return refInLess(ins[i], ins[j]) })
					for i := range ins { // indices against the id order
						ins[i].Index = uint32(m - 1 - i)
						if variant == 2 {
							ins[i].Index = []uint32{0xffffffff, 0x80000000, 0x7fffffff, 65536, 255, 1, 0}[i%7]
						}
					}
					// one id twice, with two indices
					if m >= 3 {
						ins = append(ins, inEl{ins[0].Hash, ins[0].Index + 7, []byte{1}, 0})
					}
					for k := len(ins) - 1; k > 0; k-- {
						j := r.Intn(k + 1)
						ins[k], ins[j] = ins[j], ins[k]
					}
					// outputs: amounts from the pool in one order, scripts sharing the prefix in the other; equal amounts
					outs := make([]outEl, m)
					for i := range outs {
						v := int64(i)
						if len(nums) > 0 && variant != 1 {
							v = nums[(pi+i*7)%len(nums)]
						}
						outs[i] = outEl{Value: v, Script: scr(p, []byte{byte(200 - i*13), byte(i)})}
					}
					if variant == 1 {
						for i := range outs {
							outs[i].Value = outs[0].Value
						}
					}
					judge(ins)
					rep.Histogram["coinciding_order_tx"]++
					runTx(ins, outs, false)
					prodAdd(ins, outs)
				}
			}
		}
	}
	// rank layouts
	var layouts [][]int
	layouts = append(layouts, dict.Perms()...)
	for _, n := range []int{2, 3, 4, 5, 6, 7, 8, 9, 10, 11, 12, 13, 14, 15, 16, 31, 32, 33, 63, 64, 65} {
		rev, rot, pipe, inter := make([]int, n), make([]int, n), make([]int, n), make([]int, n)
		for i := 0; i < n; i++ {
			rev[i] = n - 1 - i
			rot[i] = (i + 1) % n
			if i%2 == 0 {
				pipe[i/2] = i
				inter[i] = i / 2
			} else {
				pipe[n-1-i/2] = i
				inter[i] = (n+1)/2 + i/2
			}
		}
		layouts = append(layouts, rev, rot, pipe, inter)
		for k := 0; k < 3; k++ {
			p := make([]int, n)
			for i := range p {
				p[i] = i
			}
			for i := n - 1; i > 0; i-- {
				j := r.Intn(i + 1)
				p[i], p[j] = p[j], p[i]
			}
			layouts = append(layouts, p)
		}
	}
	for li, lay := range layouts {
		for variant := 0; variant < 3; variant++ {
			ins := make([]inEl, len(lay))
			outs := make([]outEl, len(lay))
			base := r.Bytes(32)
			for i, rank := range lay {
				var h [32]byte
				switch variant {
				case 0: // the rank in the most significant byte(s) of the id
					copy(h[:], r.Bytes(32))
					h[31], h[30] = byte(rank>>8), byte(rank)
				case 1: // common id, the rank is the index
					copy(h[:], base)
				default: // the rank in the least significant bytes, everything else equal
					copy(h[:], base)
					h[0], h[1] = byte(rank), byte(rank>>8)
				}
				ins[i] = inEl{h, uint32(len(lay) - rank), nil, 0}
				if variant == 1 {
					ins[i].Index = uint32(rank)
				}
				outs[i] = outEl{Value: int64(rank) - int64(variant), Script: []byte{byte(255 - rank)}}
				if variant == 2 {
					outs[i] = outEl{Value: 546, Script: []byte{0x76, byte(rank >> 8), byte(rank)}}
				}
			}
			rep.Histogram["rank_layout_tx"]++
			if li < len(dict.Perms()) {
				rep.Histogram["rank_layout_tx_from_source_table"]++
			}
			runTx(ins, nil, false)
			runTx(nil, outs, false)
			runTx(ins, outs, false)
			prodAdd(ins, outs)
		}
	}
	runProd()
}

// ---------- the build that ships ----------
// The transactions of the two families above are also given to harness/cmd/c18/prod, a child built
// at run time WITHOUT -tags verif in a scratch module (harness/cmd/c17/prodrun): this harness is
// built with the tag, so files selected by `//go:build !verif` are invisible to it.
type prodIn struct {
	Hash  string `json:"h"`
	Index uint32 `json:"i"`
}
type prodOut struct {
	Value  int64  `json:"v"`
	Script string `json:"s"`
}
type prodTx struct {
	Ins  []prodIn  `json:"ins"`
	Outs []prodOut `json:"outs"`
}

var prodTxs []prodTx

func prodAdd(ins []inEl, outs []outEl) {
	var t prodTx
	for _, e := range ins {
		t.Ins = append(t.Ins, prodIn{vh.Hex(e.Hash[:]), e.Index})
	}
	for _, e := range outs {
		t.Outs = append(t.Outs, prodOut{e.Value, vh.Hex(e.Script)})
	}
	prodTxs = append(prodTxs, t)
}

func runProd() {
	stdin, _ := json.Marshal(prodTxs)
	o, err := prodrun.Run(cfg.Out, "c18", "cmd/c18/prod", stdin)
	if err != nil {
		rep.Extra["production_build"] = "NOT RUN: " + err.Error()
		rep.Histogram["production_build/not_run"]++
		return
	}
	rep.Extra["production_build"] = map[string]interface{}{"main_module": o.MainPath, "build_tags": o.Tags, "executions": o.Executions, "build_seconds": o.BuildSecs, "run_seconds": o.RunSecs}
	rep.Evaluations += o.Executions
	for k, v := range o.Histogram {
		rep.Histogram["production_build/"+k] += v
	}
	for _, v := range o.Violations {
		rep.Violate(v.Key, v.What+" [build without -tags verif]", v.Replay)
	}
}

// Command prod is the production-build child of harness/cmd/c18 (built at run time by
// harness/cmd/c17/prodrun WITHOUT the tag `verif`, scratch module, public API only): the parent
// sends the transactions of its "coinciding orders" and rank-layout families on stdin; Sort,
// InPlaceSort and IsSorted are judged here against the BIP69 text (math/big), inputs and outputs
// separately.  Output: prodrun.Output on stdout.
package main

import (
	"encoding/hex"
	"encoding/json"
	"fmt"
	"io"
	"math/big"
	"os"
	"runtime/debug"

	"github.com/gcash/bchd/chaincfg/chainhash"
	"github.com/gcash/bchd/wire"
	"github.com/gcash/bchutil/txsort"
)

type in struct {
	Hash  string `json:"h"`
	Index uint32 `json:"i"`
}
type out struct {
	Value  int64  `json:"v"`
	Script string `json:"s"`
}
type txd struct {
	Ins  []in  `json:"ins"`
	Outs []out `json:"outs"`
}
type violation struct {
	Key    string                 `json:"key"`
	What   string                 `json:"what"`
	Replay map[string]interface{} `json:"replay"`
}
type output struct {
	MainPath   string         `json:"main_path"`
	Tags       string         `json:"build_tags"`
	Executions int            `json:"executions"`
	Histogram  map[string]int `json:"histogram"`
	Violations []violation    `json:"violations"`
}

var res = output{Histogram: map[string]int{}}
var perKey = map[string]int{}

func violate(key, what string, t txd, extra map[string]interface{}) {
	perKey[key]++
	if perKey[key] > 2 {
		return
	}
	rp := map[string]interface{}{"prod_build": true, "tx": t}
	for k, v := range extra {
		rp[k] = v
	}
	res.Violations = append(res.Violations, violation{key, what, rp})
}

func build(t txd) *wire.MsgTx {
	tx := wire.NewMsgTx(2)
	for _, e := range t.Ins {
		var h chainhash.Hash
		b, _ := hex.DecodeString(e.Hash)
		copy(h[:], b)
		tx.AddTxIn(wire.NewTxIn(wire.NewOutPoint(&h, e.Index), nil))
	}
	for _, e := range t.Outs {
		b, _ := hex.DecodeString(e.Script)
		tx.AddTxOut(wire.NewTxOut(e.Value, b, wire.TokenData{}))
	}
	return tx
}

func idNum(h chainhash.Hash) *big.Int {
	be := make([]byte, 32)
	for i := range be {
		be[i] = h[31-i]
	}
	return new(big.Int).SetBytes(be)
}
func inLess(a, b *wire.TxIn) bool {
	if c := idNum(a.PreviousOutPoint.Hash).Cmp(idNum(b.PreviousOutPoint.Hash)); c != 0 {
		return c < 0
	}
	return a.PreviousOutPoint.Index < b.PreviousOutPoint.Index
}
func outLess(a, b *wire.TxOut) bool {
	if a.Value != b.Value {
		return a.Value < b.Value
	}
	x, y := a.PkScript, b.PkScript
	for i := 0; i < len(x) && i < len(y); i++ {
		if x[i] != y[i] {
			return x[i] < y[i]
		}
	}
	return len(x) < len(y)
}
func ordered(tx *wire.MsgTx) (bool, bool) {
	oi, oo := true, true
	for i := range tx.TxIn {
		for j := i + 1; j < len(tx.TxIn); j++ {
			if inLess(tx.TxIn[j], tx.TxIn[i]) {
				oi = false
			}
		}
	}
	for i := range tx.TxOut {
		for j := i + 1; j < len(tx.TxOut); j++ {
			if outLess(tx.TxOut[j], tx.TxOut[i]) {
				oo = false
			}
		}
	}
	return oi, oo
}
func multiset(tx *wire.MsgTx) string {
	m := map[string]int{}
	for _, e := range tx.TxIn {
		m[fmt.Sprintf("i%x:%d", e.PreviousOutPoint.Hash[:], e.PreviousOutPoint.Index)]++
	}
	for _, e := range tx.TxOut {
		m[fmt.Sprintf("o%d:%x", e.Value, e.PkScript)]++
	}
	b, _ := json.Marshal(m) // keys sorted
	return string(b)
}
func show(tx *wire.MsgTx) txd {
	var t txd
	for _, e := range tx.TxIn {
		t.Ins = append(t.Ins, in{hex.EncodeToString(e.PreviousOutPoint.Hash[:]), e.PreviousOutPoint.Index})
	}
	for _, e := range tx.TxOut {
		t.Outs = append(t.Outs, out{e.Value, hex.EncodeToString(e.PkScript)})
	}
	return t
}

func one(t txd) {
	defer func() {
		if e := recover(); e != nil {
			violate("C18:panic", "txsort panicked", t, map[string]interface{}{"panic": fmt.Sprint(e)})
		}
	}()
	res.Executions += 3
	tx := build(t)
	wi, wo := ordered(tx)
	if got := txsort.IsSorted(tx); got != (wi && wo) {
		violate("C18:issorted:iff", "IsSorted differs from 'inputs and outputs are in BIP69 order'", t, map[string]interface{}{"IsSorted": got, "in_order": wi && wo})
	}
	before := multiset(tx)
	s := txsort.Sort(tx)
	if oi, oo := ordered(s); !oi {
		violate("C18:sort:order_in", "Sort's inputs are not ordered by (id as big-endian number, index)", t, map[string]interface{}{"sorted": show(s)})
	} else if !oo {
		violate("C18:sort:order_out", "Sort's outputs are not ordered by (amount, script)", t, map[string]interface{}{"sorted": show(s)})
	}
	if multiset(s) != before {
		violate("C18:sort:permutation", "Sort's result does not hold exactly the original inputs and outputs", t, map[string]interface{}{"sorted": show(s)})
	}
	if i2, o2 := ordered(tx); i2 != wi || o2 != wo || multiset(tx) != before {
		violate("C18:sort:original_modified", "Sort modified the transaction it was given", t, nil)
	}
	txsort.InPlaceSort(tx)
	if oi, oo := ordered(tx); !oi || !oo || multiset(tx) != before {
		violate("C18:inplace:order", "InPlaceSort's result is not the BIP69-ordered permutation of the original", t, map[string]interface{}{"in_place": show(tx)})
	}
	if !txsort.IsSorted(tx) {
		violate("C18:inplace:issorted", "IsSorted(InPlaceSort(tx)) is false", t, map[string]interface{}{"in_place": show(tx)})
	}
}

func main() {
	if bi, ok := debug.ReadBuildInfo(); ok {
		res.MainPath = bi.Main.Path
		for _, s := range bi.Settings {
			if s.Key == "-tags" {
				res.Tags = s.Value
			}
		}
	}
	defer func() {
		b, _ := json.Marshal(res)
		os.Stdout.Write(b)
	}()
	raw, _ := io.ReadAll(os.Stdin)
	var txs []txd
	if err := json.Unmarshal(raw, &txs); err != nil {
		res.Histogram["bad_input"]++
		return
	}
	for _, t := range txs {
		one(t)
		res.Histogram["transactions"]++
	}
}

// Command c05 drives hdkeychain.NewKeyFromString / ExtendedKey.String of the repository under test.
// Monitors: (1) round trip - every key produced by derivation parses back from its string to a key with
// identical serialisation, fields and DERIVATION BEHAVIOUR; (2) strictness - a string is accepted iff it
// Base58-decodes to 82 bytes whose last four are the double-SHA256 prefix of the first 78 and whose key
// material is a scalar in [1, n-1] or a compressed point on the curve (independent reference parser in
// hdref), with the documented error class otherwise; (3) canonicity - an accepted string re-serialises to
// itself.  Correspondence cases carry the strings/keys, oracle tables and the projected observables for
// the Coq model (HD/HD.v: parse, to_string).
package main

import (
	"bytes"
	"crypto/sha256"
	"encoding/hex"
	"encoding/json"
	"fmt"
	"math/big"
	"os"
	"strings"

	"github.com/gcash/bchd/bchec"
	"github.com/gcash/bchd/chaincfg"
	"github.com/gcash/bchutil/hdkeychain"

	"verif/harness/cmd/c04/hdref"
	"verif/harness/internal/vh"
)

var cfg vh.Config
var rep *vh.Report
var cases *vh.Cases
var corr bool

var nets = []*chaincfg.Params{&chaincfg.MainNetParams, &chaincfg.TestNet3Params, &chaincfg.TestNet4Params,
	&chaincfg.ChipNetParams, &chaincfg.RegressionNetParams, &chaincfg.SimNetParams}

const H = uint32(1) << 31

const b58alphabet = "123456789ABCDEFGHJKLMNPQRSTUVWXYZabcdefghijkmnopqrstuvwxyz"

func errClass(err error) int {
	switch err {
	case nil:
		return 0
	case hdkeychain.ErrDeriveBeyondMaxDepth:
		return 1
	case hdkeychain.ErrDeriveHardFromPublic:
		return 2
	case hdkeychain.ErrInvalidChild:
		return 3
	case hdkeychain.ErrInvalidSeedLen:
		return 5
	case hdkeychain.ErrUnusableSeed:
		return 6
	case hdkeychain.ErrInvalidKeyLen:
		return 7
	case hdkeychain.ErrBadChecksum:
		return 8
	case chaincfg.ErrUnknownHDKeyID:
		return 9
	case hdkeychain.ErrNotPrivExtKey:
		return 10
	}
	return 4 // every other error comes from bchec.ParsePubKey
}

func coqKey(f hdkeychain.VerifFields) string {
	return fmt.Sprintf("(mk_xkey %s %s %s %s %d %d %s)", vh.CoqBytes(f.Version), vh.CoqBytes(f.Key), vh.CoqBytes(f.ChainCode),
		vh.CoqBytes(f.ParentFP), f.Depth, f.ChildNum, vh.CoqBool(f.IsPrivate))
}

func coqRes(k *hdkeychain.ExtendedKey, err error) string {
	if err != nil {
		return fmt.Sprintf("(Err %d)", errClass(err))
	}
	return "(Ok " + coqKey(k.VerifFields()) + ")"
}

func dsha(b []byte) []byte {
	h := sha256.Sum256(b)
	h2 := sha256.Sum256(h[:])
	return h2[:]
}

// withChecksum appends the correct checksum and encodes (reference Base58).
func withChecksum(payload []byte) string {
	return hdref.B58Encode(append(append([]byte{}, payload...), dsha(payload)[:4]...))
}

func sameFields(a, b hdkeychain.VerifFields) bool {
	return bytes.Equal(a.Version, b.Version) && bytes.Equal(a.Key, b.Key) && bytes.Equal(a.ChainCode, b.ChainCode) &&
		bytes.Equal(a.ParentFP, b.ParentFP) && a.Depth == b.Depth && a.ChildNum == b.ChildNum && a.IsPrivate == b.IsPrivate
}

var nCorr, nCorrSha int

// parseOne runs NewKeyFromString on s with the strictness and canonicity monitors; family names the generator.
func parseOne(s string, family string, wantCorr bool) (*hdkeychain.ExtendedKey, error) {
	var k *hdkeychain.ExtendedKey
	var err error
	if p, msg := vh.Catch(func() { k, err = hdkeychain.NewKeyFromString(s) }); p {
		rep.Violate("C05:panic", "NewKeyFromString panicked", map[string]interface{}{"string": s, "family": family, "panic": msg})
		return nil, fmt.Errorf("panic")
	}
	// the parser is a function of the string: the same string again, immediately (a verdict must not depend on what was
	// parsed before -- e.g. a memo of the last key material looked at) (review round 2)
	if k2, err2 := hdkeychain.NewKeyFromString(s); errClass(err2) != errClass(err) ||
		(err == nil && err2 == nil && (!sameFields(k.VerifFields(), k2.VerifFields()) || k.String() != k2.String())) {
		rep.Violate("C05:stateless", "NewKeyFromString gives different results for the same string when called twice in a row",
			map[string]interface{}{"string": s, "family": family, "parse_twice": true, "first_err": fmt.Sprint(err), "second_err": fmt.Sprint(err2)})
	}
	cls, payload := hdref.ParseString(nil, s)
	rep.Count("parse_"+family, "p"+s, cls == 0 || cls == 6 || cls == 4) // passes the length and checksum layers
	rep.Histogram[fmt.Sprintf("class_%d", cls)]++
	d, _ := hdref.B58Decode(s)
	if (cls == 0) != (err == nil) {
		rep.Violate("C05:accept_iff", "NewKeyFromString acceptance differs from '82 bytes, matching checksum, scalar in [1,n-1] or point on the curve'",
			map[string]interface{}{"string": s, "family": family, "decoded": vh.Hex(d), "accepted": err == nil, "required_class": cls, "err": fmt.Sprint(err)})
	} else if err != nil && errClass(err) != cls {
		rep.Violate("C05:error_class", "NewKeyFromString rejected with a different error than the failure class requires",
			map[string]interface{}{"string": s, "family": family, "decoded": vh.Hex(d), "impl_class": errClass(err), "required_class": cls, "err": fmt.Sprint(err)})
	}
	if err == nil {
		f := k.VerifFields()
		if back := k.String(); back != s {
			rep.Violate("C05:canonical", "an accepted string does not re-serialise to itself",
				map[string]interface{}{"string": s, "family": family, "reserialised": back})
		}
		if payload != nil {
			wantKey := payload[45:78]
			if f.IsPrivate {
				wantKey = payload[46:78]
			}
			if !bytes.Equal(f.Version, payload[:4]) || f.Depth != payload[4] || !bytes.Equal(f.ParentFP, payload[5:9]) ||
				!bytes.Equal(hdref.Ser32(f.ChildNum), payload[9:13]) || !bytes.Equal(f.ChainCode, payload[13:45]) ||
				!bytes.Equal(f.Key, wantKey) || f.IsPrivate != (payload[45] == 0) {
				rep.Violate("C05:fields", "the parsed key's fields are not the slices of the payload", map[string]interface{}{"string": s, "family": family, "payload": vh.Hex(payload)})
			}
		}
		if f.IsPrivate {
			sk, e := k.ECPrivKey()
			if e != nil || sk.D.Sign() <= 0 || sk.D.Cmp(hdref.N) >= 0 {
				rep.Violate("C05:usable", "an accepted private key has a scalar outside [1, n-1]", map[string]interface{}{"string": s, "family": family})
			}
		} else if pk, e := k.ECPubKey(); e != nil || !bchec.S256().IsOnCurve(pk.X, pk.Y) {
			rep.Violate("C05:usable", "an accepted public key is not a point on the curve", map[string]interface{}{"string": s, "family": family})
		}
	}
	if corr && wantCorr {
		o := hdref.NewOracle()
		// double SHA-256 computed inside Coq for every fourth case that reaches the checksum, tabulated otherwise
		o.RecordDSha = !(len(d) == 82 && nCorr%4 == 0)
		nCorr++
		if len(d) == 82 {
			if !o.RecordDSha {
				nCorrSha++
			}
			o.DSha(d[:78])
			if d[45] != 0 {
				o.Parse(d[45:78])
			}
		}
		cases.Add(fmt.Sprintf("Parse %s %s %s", o.Coq(), vh.CoqStr(s), coqRes(k, err)),
			map[string]interface{}{"op": "NewKeyFromString", "family": family, "string": s, "impl_class": errClass(err), "sha_in_coq": !o.RecordDSha})
	}
	return k, err
}

// roundTrip checks String -> NewKeyFromString on a produced key: identical serialisation, fields and behaviour.
func roundTrip(k *hdkeychain.ExtendedKey, what map[string]interface{}, wantCorr bool, r *vh.RNG) {
	s := k.String()
	f := k.VerifFields()
	rep.Count("roundtrip", "rt"+s, true)
	if f.IsPrivate {
		rep.Histogram["roundtrip_private"]++
		z := 0
		for z < len(f.Key) && f.Key[z] == 0 {
			z++
		}
		if z > 0 || len(f.Key) < 32 {
			rep.Histogram[fmt.Sprintf("roundtrip_private_scalar_%d_leading_zero_bytes", z+32-len(f.Key))]++
		}
	} else {
		rep.Histogram["roundtrip_public"]++
	}
	replay := func(extra map[string]interface{}) map[string]interface{} {
		m := map[string]interface{}{"string": s}
		for a, b := range what {
			m[a] = b
		}
		for a, b := range extra {
			m[a] = b
		}
		return m
	}
	k2, err := parseOne(s, "produced", wantCorr)
	if err != nil {
		rep.Violate("C05:roundtrip", "the string of a produced key does not parse", replay(map[string]interface{}{"err": fmt.Sprint(err)}))
		return
	}
	if k2.String() != s {
		rep.Violate("C05:roundtrip", "parse(String(k)).String() != String(k)", replay(map[string]interface{}{"reparsed": k2.String()}))
	}
	if f2 := k2.VerifFields(); !sameFields(f, f2) {
		rep.Violate("C05:roundtrip", "the reparsed key's fields differ from the produced key's", replay(map[string]interface{}{"produced_key": vh.Hex(f.Key), "reparsed_key": vh.Hex(f2.Key)}))
	}
	// derivation behaviour: hardened and normal children, neutering
	idx := []uint32{uint32(r.Intn(50)), H + uint32(r.Intn(50)), H - 1, 0xffffffff}
	for _, i := range idx {
		a, ea := k.Child(i)
		b, eb := k2.Child(i)
		if errClass(ea) != errClass(eb) || (ea == nil && a.String() != b.String()) {
			sa, sb := "", ""
			if ea == nil {
				sa = a.String()
			}
			if eb == nil {
				sb = b.String()
			}
			rep.Violate("C05:roundtrip:behaviour", "a produced key and the key parsed from its own string derive different children",
				replay(map[string]interface{}{"index": i, "child_of_produced": sa, "child_of_reparsed": sb, "err": fmt.Sprint(ea, eb)}))
		}
	}
	na, ea := k.Neuter()
	nb, eb := k2.Neuter()
	if (ea == nil) != (eb == nil) || (ea == nil && na.String() != nb.String()) {
		rep.Violate("C05:roundtrip:behaviour", "a produced key and its reparsed form neuter differently", replay(nil))
	}
	if corr && wantCorr {
		o := hdref.NewOracle()
		o.RecordDSha = nCorr%3 != 0
		if d, ok := hdref.B58Decode(s); ok && len(d) == 82 {
			o.DSha(d[:78])
		}
		cases.Add(fmt.Sprintf("Str %s %s %s", o.Coq(), coqKey(f), vh.CoqStr(s)), map[string]interface{}{"op": "String", "string": s, "what": what})
	}
}

// checkNet: a key whose network was set to nets[b] prints with that network's version bytes (the constants of bchd's
// chaincfg/params.go, not the linked variables) and, when private, neuters to a key with the public ones.
func checkNet(k *hdkeychain.ExtendedKey, b int, what map[string]interface{}) {
	known := hdref.KnownHDVersions[b]
	f := k.VerifFields()
	want := known.Pub[:]
	if f.IsPrivate {
		want = known.Priv[:]
	}
	s := k.String()
	rep.Count("allnets", fmt.Sprint("an", s, b), true)
	d, _ := hdref.B58Decode(s)
	if len(d) != 82 || !bytes.Equal(d[:4], want) {
		m := map[string]interface{}{"string": s, "network": known.Name, "required_version_bytes": vh.Hex(want), "decoded": vh.Hex(d)}
		for x, y := range what {
			m[x] = y
		}
		rep.Violate("C05:allnets:version", "after SetNet(net) the key does not print with the version bytes chaincfg declares for that network", m)
	}
	if !f.IsPrivate {
		return
	}
	nk, err := k.Neuter()
	var nd []byte
	if err == nil {
		nd, _ = hdref.B58Decode(nk.String())
	}
	if err != nil || len(nd) != 82 || !bytes.Equal(nd[:4], known.Pub[:]) {
		m := map[string]interface{}{"string": s, "network": known.Name, "required_public_version_bytes": vh.Hex(known.Pub[:]), "err": fmt.Sprint(err), "neutered_decoded": vh.Hex(nd)}
		for x, y := range what {
			m[x] = y
		}
		rep.Violate("C05:allnets:neuter", "a private key set to a registered network does not neuter to a key with that network's public version bytes", m)
	}
}

func derive(seed []byte, net int, path []uint32) (*hdkeychain.ExtendedKey, *hdref.Node) {
	k, err := hdkeychain.NewMaster(seed, nets[net])
	n, st := hdref.Master(nil, seed)
	if err != nil || st != hdref.Valid {
		return nil, nil
	}
	for _, i := range path {
		k, err = k.Child(i)
		n, st, _ = hdref.CKDpriv(nil, n, i)
		if err != nil || st != hdref.Valid {
			return nil, nil
		}
	}
	return k, n
}

func randIndex(r *vh.RNG) uint32 {
	switch r.Intn(8) {
	case 0:
		return 0
	case 1:
		return H - 1
	case 2:
		return H
	case 3:
		return 0xffffffff
	case 4, 5:
		return uint32(r.Intn(1 << 20))
	default:
		return r.U32() | H
	}
}

// payload78 builds a serialised payload from parts.
func payload78(version []byte, depth byte, fp []byte, idx uint32, chain []byte, keyData []byte) []byte {
	p := append([]byte{}, version...)
	p = append(p, depth)
	p = append(p, fp...)
	p = append(p, hdref.Ser32(idx)...)
	p = append(p, chain...)
	return append(p, keyData...)
}

func main() {
	cfg = vh.ParseFlags("C05")
	rep = vh.NewReport(cfg)
	rep.Rule = "a parse case is non-trivial when the string decodes to 82 bytes with a matching checksum (it reaches the key-material layer); a round-trip case is non-trivial always (a key produced by derivation); distinct by string"
	cases = vh.NewCases(cfg, "Run.Run_C05", 80)
	rng := vh.NewRNG(cfg.Seed)
	corr = !cfg.Search

	if cfg.Replay != "" {
		var rp struct {
			Input struct {
				String   string   `json:"string"`
				Seed     string   `json:"seed"`
				Net      int      `json:"net_index"`
				Path     []uint32 `json:"path_indices"`
				Neutered bool     `json:"neutered"`
				Steps    []string `json:"steps_after_derivation"` // "String", "SetNet:<net index>", "Neuter", "Child:<index>", "Reparse"
				Expect   *int     `json:"expect_net"`
			} `json:"input"`
		}
		b, err := os.ReadFile(cfg.Replay)
		vh.Must(err)
		vh.Must(json.Unmarshal(b, &rp))
		if rp.Input.Seed != "" { // a produced key: rebuild it by derivation, then round-trip it
			seed, _ := hex.DecodeString(rp.Input.Seed)
			if k, _ := derive(seed, rp.Input.Net, rp.Input.Path); k != nil {
				if rp.Input.Neutered {
					k, _ = k.Neuter()
				}
				for _, st := range rp.Input.Steps {
					var arg uint32
					name := st
					if j := strings.IndexByte(st, ':'); j >= 0 {
						name = st[:j]
						fmt.Sscan(st[j+1:], &arg)
					}
					switch name {
					case "String":
						_ = k.String()
					case "SetNet":
						k.SetNet(nets[int(arg)%len(nets)])
					case "Neuter":
						if nk, err := k.Neuter(); err == nil {
							k = nk
						}
					case "Child":
						if c, err := k.Child(arg); err == nil {
							k = c
						}
					case "Reparse":
						if pk, err := hdkeychain.NewKeyFromString(k.String()); err == nil {
							k = pk
						}
					}
				}
				if rp.Input.Expect != nil {
					checkNet(k, *rp.Input.Expect%len(nets), map[string]interface{}{"seed": rp.Input.Seed, "net_index": rp.Input.Net, "path_indices": rp.Input.Path, "steps_after_derivation": rp.Input.Steps, "expect_net": *rp.Input.Expect})
				}
				roundTrip(k, map[string]interface{}{"seed": rp.Input.Seed, "net_index": rp.Input.Net, "path_indices": rp.Input.Path, "neutered": rp.Input.Neutered}, false, rng.Fork("replay"))
			}
		} else if k, err := parseOne(rp.Input.String, "replay", false); err == nil {
			roundTrip(k, map[string]interface{}{"source": "replay"}, false, rng.Fork("replay"))
		}
		finish()
		return
	}
	scale := func(q, t, s int) int {
		if cfg.Search {
			return s
		}
		return cfg.Scale(q, t)
	}

	// ---------- 1. round trip of produced keys: all nets, private and public, boundary indices, deep, leading zeros
	r := rng.Fork("produced")
	var valid []string // valid strings reused by the corruption families
	np := scale(60, 500, 4000)
	for t := 0; t < np; t++ {
		l := r.Intn(6)
		if t%12 == 0 {
			l = 8 + r.Intn(20)
		}
		path := make([]uint32, l)
		for j := range path {
			path[j] = randIndex(r)
		}
		seed := r.Bytes(vh.Pick(r, []int{16, 32, 64, 16 + r.Intn(49)}))
		net := t % len(nets)
		k, _ := derive(seed, net, path)
		if k == nil {
			continue
		}
		what := map[string]interface{}{"seed": vh.Hex(seed), "net": nets[net].Name, "net_index": net, "path_indices": path}
		rep.Sample(map[string]interface{}{"family": "produced", "seed": vh.Hex(seed), "net": nets[net].Name, "path": fmt.Sprint(path), "string": k.String()}, 4)
		roundTrip(k, what, t%2 == 0, r)
		nk, _ := k.Neuter()
		what2 := map[string]interface{}{"seed": vh.Hex(seed), "net": nets[net].Name, "net_index": net, "path_indices": path, "neutered": true}
		roundTrip(nk, what2, t%2 == 1, r)
		if len(valid) < 40 {
			valid = append(valid, k.String(), nk.String())
		}
	}
	// keys whose network was changed after their string had been taken once, children derived publicly, children of
	// parsed keys: all "keys the library produces" (review round 2)
	r = rng.Fork("produced2")
	for t := 0; t < scale(18, 120, 1000); t++ {
		path := make([]uint32, 1+r.Intn(4))
		for j := range path {
			path[j] = randIndex(r)
		}
		seed := r.Bytes(vh.Pick(r, []int{16, 32, 64}))
		a, b := t%len(nets), (t/len(nets)+t+1)%len(nets)
		k, _ := derive(seed, a, path)
		if k == nil {
			continue
		}
		what := func(x string, steps ...string) map[string]interface{} {
			return map[string]interface{}{"seed": vh.Hex(seed), "net": nets[a].Name, "net_index": a, "path_indices": path, "then": x, "steps_after_derivation": steps}
		}
		setB, setA := fmt.Sprintf("SetNet:%d", b), fmt.Sprintf("SetNet:%d", a)
		s0 := k.String()
		k.SetNet(nets[b])
		if a != b && nets[a].HDPrivateKeyID != nets[b].HDPrivateKeyID && k.String() == s0 {
			rep.Violate("C05:roundtrip", "String() does not reflect SetNet to a different network", what("String; SetNet("+nets[b].Name+"); String", "String", setB))
		}
		roundTrip(k, what("String; SetNet("+nets[b].Name+")", "String", setB), t%3 == 0, r)
		nk, err := k.Neuter()
		if err != nil {
			continue
		}
		_ = nk.String()
		nk.SetNet(nets[a])
		roundTrip(nk, what("SetNet("+nets[b].Name+"); Neuter; String; SetNet("+nets[a].Name+")", "String", setB, "Neuter", "String", setA), t%3 == 1, r)
		i := uint32(r.Intn(1 << 20))
		if pc, err := nk.Child(i); err == nil {
			roundTrip(pc, what(fmt.Sprintf("Neuter; Child(%d) of the public key", i), "String", setB, "Neuter", "String", setA, fmt.Sprintf("Child:%d", i)), t%3 == 2, r)
		}
		if pk, err := hdkeychain.NewKeyFromString(s0); err == nil {
			for _, j := range []uint32{i, H + i} {
				if c, err := pk.Child(j); err == nil {
					roundTrip(c, what(fmt.Sprintf("NewKeyFromString(String()); Child(%d)", j), "Reparse", fmt.Sprintf("Child:%d", j)), false, r)
				}
			}
		}
	}
	// targeted: private children whose scalar has one / two+ leading zero bytes (index scan with the reference)
	r = rng.Fork("leadingzero")
	n1, n2 := scale(10, 100, 400), scale(3, 12, 40)
	found := map[int]int{}
	for t := 0; t < n1+n2; t++ {
		seed := r.Bytes(32)
		prefix := []uint32{randIndex(r)}
		_, par := derive(seed, 0, prefix)
		if par == nil {
			continue
		}
		bits, max := 248, 8000
		if t >= n1 {
			bits, max = 240, 2000000
		}
		start := r.U32() & 0x3fffffff
		for q := 0; q < max; q++ {
			i := start + uint32(q)
			if t%2 == 0 {
				i |= H
			}
			sc, st, _ := hdref.CKDprivNoPoint(par, i)
			if st == hdref.Valid && sc.BitLen() <= bits {
				path := append(append([]uint32{}, prefix...), i)
				k, _ := derive(seed, t%len(nets), path)
				if k != nil {
					found[bits]++
					roundTrip(k, map[string]interface{}{"seed": vh.Hex(seed), "net": nets[t%len(nets)].Name, "net_index": t % len(nets), "path_indices": path,
						"child_scalar": hex.EncodeToString(hdref.Ser256(sc))}, true, r)
				}
				break
			}
		}
	}
	// children with THREE leading zero bytes (2^-24 per index): indices found once by cmd/c04/lzscan with the reference and
	// cached (round 3); re-checked with the reference before use.  The produced key, its hardened and normal children,
	// and the same after a round trip through the string.
	for li, e := range []struct {
		seed string
		i    uint32
	}{{"000102030405060708090a0b0c0d0e0f", 2150775374}, {"000102030405060708090a0b0c0d0e0f", 28672661},
		{"433034206368696c6472656e2077697468207468726565206c656164696e67207a65726f206279746573", 2148998315},
		{"433034206368696c6472656e2077697468207468726565206c656164696e67207a65726f206279746573", 2339335}} {
		seed, _ := hex.DecodeString(e.seed)
		for _, tail := range [][]uint32{{}, {H + 3}, {3}} {
			path := append([]uint32{e.i}, tail...)
			k, n := derive(seed, li%len(nets), path)
			if k == nil {
				continue
			}
			if len(tail) == 0 && n.K.BitLen() > 232 {
				vh.Must(fmt.Errorf("cached child %s/%d does not have three leading zero bytes under the reference", e.seed, e.i))
			}
			found[232]++
			roundTrip(k, map[string]interface{}{"seed": e.seed, "net": nets[li%len(nets)].Name, "net_index": li % len(nets), "path_indices": path}, li < 2, r)
		}
	}
	rep.Extra["targeted_leading_zero_children"] = map[string]int{"one_zero_byte": found[248], "two_or_more_zero_bytes": found[240], "three_zero_bytes_cached_and_their_children": found[232]}

	// BIP32 test vector strings must parse and round-trip
	for _, s := range []string{
		"xprv9s21ZrQH143K3QTDL4LXw2F7HEK3wJUD2nW2nRk4stbPy6cq3jPPqjiChkVvvNKmPGJxWUtg6LnF5kejMRNNU3TGtRBeJgk33yuGBxrMPHi",
		"xpub661MyMwAqRbcFtXgS5sYJABqqG9YLmC4Q1Rdap9gSE8NqtwybGhePY2gZ29ESFjqJoCu1Rupje8YtGqsefD265TMg7usUDFdp6W1EGMcet8",
		"xprvA41z7zogVVwxVSgdKUHDy1SKmdb533PjDz7J6N6mV6uS3ze1ai8FHa8kmHScGpWmj4WggLyQjgPie1rFSruoUihUZREPSL39UNdE3BBDu76",
		"xpub6H1LXWLaKsWFhvm6RVpEL9P4KfRZSW7abD2ttkWP3SSQvnyA8FSVqNTEcYFgJS2UaFcxupHiYkro49S8yGasTvXEYBVPamhGW6cFJodrTHy",
		"xprvA2nrNbFZABcdryreWet9Ea4LvTJcGsqrMzxHx98MMrotbir7yrKCEXw7nadnHM8Dq38EGfSh6dqA9QWTyefMLEcBYJUuekgW4BYPJcr9E7j",
		"xpub68NZiKmJWnxxS6aaHmn81bvJeTESw724CRDs6HbuccFQN9Ku14VQrADWgqbhhTHBaohPX4CjNLf9fq9MYo6oDaPPLPxSb7gwQN3ih19Zm4Y",
		"xprv9uPDJpEQgRQfDcW7BkF7eTya6RPxXeJCqCJGHuCJ4GiRVLzkTXBAJMu2qaMWPrS7AANYqdq6vcBcBUdJCVVFceUvJFjaPdGZ2y9WACViL4L",
	} {
		k, err := parseOne(s, "bip32_vector", true)
		if err != nil {
			rep.Violate("C05:vectors", "a BIP32 test vector string is rejected", map[string]interface{}{"string": s, "err": fmt.Sprint(err)})
		} else {
			roundTrip(k, map[string]interface{}{"source": "BIP32 test vector"}, false, r)
		}
	}

	// ---------- 1b. strings whose base-58 digit string has ALIGNED ALL-ZERO GROUPS (round 3, red team): digits
	// 5j..5j+4 (and 10-, 15-, 20-digit runs) counted from the least significant digit are all '1'.  A random key has such
	// a group with probability 58^-5 per position, so an encoder / decoder that converts several digits per big-integer
	// division and mishandles a zero group is never met by derivation; the payloads are CONSTRUCTED (hdref.ZeroRunPayload:
	// key / chain-code bytes solved so that the 82-byte value has the run whatever the checksum is).  Every position from
	// digit 10 to digit 105, all six version pairs.
	r = rng.Fork("zerogroups")
	{
		built, failed := 0, 0
		widths := []int{5, 10, 20} // a run of 2g-1 digits contains a group aligned for ANY grouping by g digits: 20 covers g <= 10
		if cfg.Thorough() || cfg.Search {
			widths = []int{5, 10, 15, 20, 6, 9, 30}
		}
		for round := 0; round < scale(1, 4, 16); round++ {
			for lo := 10; lo <= 100; lo += 5 {
				for _, w := range widths {
					hi := lo + w
					if hi > 105 {
						continue
					}
					ver := hdref.KnownHDVersions[(lo/5+w+round)%len(nets)].Priv
					sc := r.Bytes(32)
					sc[0] &= 0x7f
					sc[31] |= 1
					base := payload78(ver[:], byte(r.Intn(256)), r.Bytes(4), r.U32(), r.Bytes(32), append([]byte{0}, sc...))
					var p []byte
					ok := false
					for try := 0; try < 8 && !ok; try++ {
						p, ok = hdref.ZeroRunPayload(base, r.Bytes, lo, hi)
					}
					if !ok || !hdref.HasZeroRun(withChecksum(p), lo, hi) {
						failed++
						continue
					}
					built++
					s := withChecksum(p)
					rep.Histogram["zero_digit_group_strings"]++
					if k, err := parseOne(s, "zero_digit_groups", round == 0 && (lo/5+w/5)%4 == 0); err == nil {
						roundTrip(k, map[string]interface{}{"source": fmt.Sprintf("constructed payload: base-58 digits %d..%d (from the end of the string) are all '1'", lo, hi-1)}, false, r)
					}
				}
			}
		}
		rep.Extra["zero_digit_group_strings"] = map[string]int{"constructed": built, "construction_failed": failed}
	}

	// ---------- 1c. every produced key on ALL SIX networks (round 3): SetNet(net), String, Neuter, String for each
	// registered network in turn on the same object, chipnet included; the printed version bytes are compared with the
	// constants of bchd's chaincfg (hdref.KnownHDVersions), not with the linked package's variables
	r = rng.Fork("allnets")
	for t := 0; t < scale(6, 40, 300); t++ {
		path := make([]uint32, r.Intn(4))
		for j := range path {
			path[j] = randIndex(r)
		}
		seed := r.Bytes(vh.Pick(r, []int{16, 32, 64}))
		a := t % len(nets)
		k, _ := derive(seed, a, path)
		if k == nil {
			continue
		}
		var steps []string
		for q := 0; q < len(nets); q++ {
			b := (a + 1 + q) % len(nets) // every network (the key's own last), forwards or backwards
			if t%2 == 1 {
				b = (a + 2*len(nets) - 1 - q) % len(nets)
			}
			k.SetNet(nets[b])
			steps = append(steps, fmt.Sprintf("SetNet:%d", b))
			what := map[string]interface{}{"seed": vh.Hex(seed), "net": nets[a].Name, "net_index": a, "path_indices": path,
				"steps_after_derivation": append([]string{}, steps...), "expect_net": b}
			checkNet(k, b, what)
			roundTrip(k, what, false, r)
			if nk, err := k.Neuter(); err == nil {
				what2 := map[string]interface{}{"seed": vh.Hex(seed), "net": nets[a].Name, "net_index": a, "path_indices": path,
					"steps_after_derivation": append(append([]string{}, steps...), "Neuter"), "expect_net": b}
				checkNet(nk, b, what2)
				roundTrip(nk, what2, false, r)
			}
			steps = append(steps, "String")
		}
	}

	// ---------- 2. corruptions of valid 82-byte payloads
	r = rng.Fork("corrupt")
	nv := scale(2, 8, 40)
	for vi := 0; vi < nv && vi < len(valid); vi++ {
		d, _ := hdref.B58Decode(valid[vi])
		// every single-bit flip
		for bit := 0; bit < 82*8; bit++ {
			m := append([]byte{}, d...)
			m[bit/8] ^= 1 << uint(bit%8)
			parseOne(hdref.B58Encode(m), "bitflip", vi < 2 && r.Intn(12) == 0)
		}
		// every single-byte substitution
		for pos := 0; pos < 82; pos++ {
			for v := 0; v < 256; v++ {
				if byte(v) == d[pos] {
					continue
				}
				m := append([]byte{}, d...)
				m[pos] = byte(v)
				parseOne(hdref.B58Encode(m), "bytesub", vi < 2 && r.Intn(400) == 0)
			}
		}
		// every single-character substitution of the string (incl. characters outside the alphabet)
		s := []byte(valid[vi])
		for pos := 0; pos < len(s); pos++ {
			// ALL 256 byte values (round 3: a decode table that accepts one more character -- '|', a scanner's
			// reading of '1' -- is noticed only when exactly that byte is tried; the earlier list had 72 of them)
			for v := 0; v < 256; v++ {
				c := byte(v)
				if c == s[pos] {
					continue
				}
				m := append([]byte{}, s...)
				m[pos] = c
				parseOne(string(m), "charsub", vi < 2 && r.Intn(1000) == 0)
			}
		}
		// every byte value inserted between two characters / appended / prepended (a foreign byte that the decoder
		// SKIPS instead of rejecting shows here, one that it reads as a digit shows above)
		for pos := 0; pos <= len(s); pos += 1 + pos%3 {
			for v := 0; v < 256; v++ {
				if strings.IndexByte(b58alphabet, byte(v)) >= 0 && !cfg.Thorough() && !cfg.Search {
					continue
				}
				parseOne(string(s[:pos])+string([]byte{byte(v)})+string(s[pos:]), "charinsert", vi < 1 && r.Intn(800) == 0)
			}
		}
		// corruptions that keep the checksum valid: each payload byte changed, checksum recomputed
		for pos := 0; pos < 78; pos++ {
			m := append([]byte{}, d[:78]...)
			m[pos] ^= byte(1 + r.Intn(255))
			parseOne(withChecksum(m), "payload_byte_recomputed_checksum", vi < 2 && pos%3 == 0)
		}
		// ... and every one of the 255 other values at every payload position, checksum recomputed (round 3): these
		// strings pass the checksum layer, so each one reaches the key-material layer and, when accepted, must print
		// as itself (exercises Encode/Decode on 78*255 neighbouring values of one key, zero bytes included)
		for pos := 0; pos < 78; pos++ {
			for v := 0; v < 256; v++ {
				if byte(v) == d[pos] {
					continue
				}
				m := append([]byte{}, d[:78]...)
				m[pos] = byte(v)
				parseOne(withChecksum(m), "payload_bytesub_recomputed_checksum", vi < 2 && r.Intn(1500) == 0)
			}
		}
		// a valid string wrapped in / interrupted by characters outside the alphabet (white space, NUL, look-alikes,
		// non-ASCII bytes): never accepted, in particular not "after trimming" (review round 2)
		for ai, affix := range []string{" ", "\n", "\t", "\r\n", "\x00", "\u00a0", "\u200b", "\ufeff", "0", "O", "I", "l", "\x80", "\xff", "  ", " \n"} {
			for _, v := range []string{affix + valid[vi], valid[vi] + affix, affix + valid[vi] + affix, valid[vi][:50] + affix + valid[vi][50:]} {
				parseOne(v, "affix_outside_alphabet", vi < 2 && ai < 6)
			}
		}
		// a character replaced by a WELL-FORMED multi-byte UTF-8 sequence whose code point is congruent to it mod 256
		// (2-, 3- and 4-byte encodings), at every position, and all characters at once: a decoder that walks code points
		// instead of bytes and narrows them would take these for the original (review round 2)
		for pos := 0; pos < len(valid[vi]); pos++ {
			for ci, add := range []rune{0x100, 0x700, 0x1000, 0xff00, 0x10000, 0x10ff00} {
				v := valid[vi][:pos] + string(rune(valid[vi][pos])+add) + valid[vi][pos+1:]
				parseOne(v, "utf8_alias_of_a_character", vi < 2 && pos%16 == ci)
			}
		}
		{
			var sb strings.Builder
			for _, ch := range valid[vi] {
				sb.WriteRune(ch + 0x100)
			}
			parseOne(sb.String(), "utf8_alias_of_a_character", vi < 2)
			parseOne(valid[vi]+"\u0131", "utf8_alias_of_a_character", vi < 2) // dotless i: low byte '1'
			parseOne("\u0131"+valid[vi], "utf8_alias_of_a_character", vi < 2)
		}
		// upper / lower case variants of the whole string
		parseOne(strings.ToUpper(valid[vi]), "case_variant", vi < 2)
		parseOne(strings.ToLower(valid[vi]), "case_variant", vi < 2)
		// truncations / extensions of the string, leading '1' added / removed
		for _, v := range []string{"1" + valid[vi], "11" + valid[vi], valid[vi][1:], valid[vi][:len(valid[vi])-1], valid[vi] + "1", valid[vi] + valid[vi], ""} {
			parseOne(v, "string_length", vi < 2)
		}
	}

	// ---------- 3. recomputed-checksum payloads carrying boundary key material
	r = rng.Fork("boundary")
	n := hdref.N
	one := big.NewInt(1)
	max256 := new(big.Int).Sub(new(big.Int).Lsh(one, 256), one)
	scalars := []*big.Int{big.NewInt(0), big.NewInt(1), big.NewInt(2), new(big.Int).Sub(n, one), new(big.Int).Set(n), new(big.Int).Add(n, one),
		new(big.Int).Add(n, big.NewInt(2)), max256, new(big.Int).Sub(max256, one), new(big.Int).Lsh(one, 255), new(big.Int).Lsh(one, 248), new(big.Int).Lsh(one, 240)}
	// a sweep of the whole range above n (a 2^-128 fraction of all scalars) and just below it
	span := new(big.Int).Sub(max256, n)
	ns := scale(40, 300, 3000)
	for t := 0; t < ns; t++ {
		off := new(big.Int).SetBytes(r.Bytes(16 - t%16)) // offsets of every magnitude up to 2^128
		off.Mod(off, span)
		scalars = append(scalars, new(big.Int).Add(new(big.Int).Add(n, one), off))
		if t%4 == 0 {
			scalars = append(scalars, new(big.Int).Sub(n, new(big.Int).Add(off, one)))
		}
	}
	// each 64-bit (and each 32-bit) word independently below / equal / above the corresponding word of n: a comparison
	// done word by word, or limb by limb, can be wrong only on such combinations (review round 2)
	nb := hdref.Ser256(n)
	for _, w := range []int{8, 4} {
		nw := 32 / w
		combos := 1
		for j := 0; j < nw; j++ {
			combos *= 3
		}
		step := 1
		if w == 4 {
			step = 3*3*3*3 + 2 // a sample of the 6561 combinations of eight 32-bit limbs ...
			if cfg.Thorough() || cfg.Search {
				step = 5
			}
		}
		for cmb := 0; cmb < combos; cmb += step {
			for variant := 0; variant < 2; variant++ {
				b := append([]byte{}, nb...)
				x := cmb
				for j := 0; j < nw; j++ {
					word := b[j*w : (j+1)*w]
					switch x % 3 {
					case 1: // below
						if variant == 0 {
							v := new(big.Int).SetBytes(word)
							if v.Sign() > 0 {
								v.Sub(v, one)
							}
							v.FillBytes(word)
						} else {
							lim := new(big.Int).SetBytes(word)
							if lim.Sign() > 0 {
								new(big.Int).Mod(new(big.Int).SetBytes(r.Bytes(w)), lim).FillBytes(word)
							}
						}
					case 2: // above
						v := new(big.Int).SetBytes(word)
						top := new(big.Int).Sub(new(big.Int).Lsh(one, uint(8*w)), one)
						if variant == 0 {
							if v.Cmp(top) < 0 {
								v.Add(v, one)
							}
						} else if d := new(big.Int).Sub(top, v); d.Sign() > 0 {
							v.Add(v, one).Add(v, new(big.Int).Mod(new(big.Int).SetBytes(r.Bytes(w)), d))
						}
						v.FillBytes(word)
					}
					x /= 3
				}
				p := payload78(nets[cmb%len(nets)].HDPrivateKeyID[:], byte(r.Intn(256)), r.Bytes(4), r.U32(), r.Bytes(32), append([]byte{0}, b...))
				parseOne(withChecksum(p), "scalar_wordwise", (w == 8 && (cmb+variant)%7 == 0) || (w == 4 && cmb%211 == 0 && variant == 0))
			}
		}
	}
	for si, sc := range scalars {
		net := nets[si%len(nets)]
		p := payload78(net.HDPrivateKeyID[:], byte(r.Intn(256)), r.Bytes(4), r.U32(), r.Bytes(32), append([]byte{0}, hdref.Ser256(sc)...))
		parseOne(withChecksum(p), "scalar_boundary", si < 60 || si%8 == 0)
	}
	// public key material
	_, gpub := bchec.PrivKeyFromBytes(bchec.S256(), r.Bytes(32))
	good := gpub.SerializeCompressed()
	pbytes := bchec.S256().P.Bytes()
	var pubs [][]byte
	for _, fb := range []byte{1, 2, 3, 4, 5, 6, 7, 0x80, 0xff} {
		m := append([]byte{}, good...)
		m[0] = fb
		pubs = append(pubs, m)
	}
	pubs = append(pubs, append([]byte{2}, make([]byte, 32)...))               // x = 0
	pubs = append(pubs, append([]byte{3}, pbytes...))                         // x = p
	pubs = append(pubs, append([]byte{2}, bytes.Repeat([]byte{0xff}, 32)...)) // x = 2^256-1
	nOff := 0
	for t := 0; nOff < scale(12, 60, 400) && t < 10000; t++ { // x with no square root of x^3+7 (off the curve)
		x := r.Bytes(32)
		cand := append([]byte{byte(2 + t%2)}, x...)
		if _, err := bchec.ParsePubKey(cand, bchec.S256()); err != nil {
			pubs = append(pubs, cand)
			nOff++
		} else if t%3 == 0 {
			pubs = append(pubs, cand) // and some that are on the curve
		}
	}
	for pi, pb := range pubs {
		net := nets[pi%len(nets)]
		p := payload78(net.HDPublicKeyID[:], byte(r.Intn(256)), r.Bytes(4), r.U32(), r.Bytes(32), pb)
		parseOne(withChecksum(p), "pubkey_boundary", true)
		// the same 33 bytes of key material again under other metadata (and once more after a valid key): state left
		// over from the previous call must not change the verdict
		p2 := payload78(nets[(pi+1)%len(nets)].HDPublicKeyID[:], byte(r.Intn(256)), r.Bytes(4), r.U32(), r.Bytes(32), pb)
		parseOne(withChecksum(p2), "pubkey_boundary_repeated_key_material", pi%4 == 0)
		parseOne(withChecksum(payload78(net.HDPublicKeyID[:], 0, r.Bytes(4), 1, r.Bytes(32), good)), "pubkey_boundary_repeated_key_material", false)
		parseOne(withChecksum(p2), "pubkey_boundary_repeated_key_material", false)
	}
	// a private-looking payload under a public version and vice versa (the version is not interpreted by the parser)
	parseOne(withChecksum(payload78(nets[0].HDPublicKeyID[:], 1, r.Bytes(4), 7, r.Bytes(32), append([]byte{0}, r.Bytes(32)...))), "version_mismatch", true)
	parseOne(withChecksum(payload78(nets[0].HDPrivateKeyID[:], 1, r.Bytes(4), 7, r.Bytes(32), good)), "version_mismatch", true)
	// lengths 0..100 with a correct checksum over the shortened / extended payload
	for l := 0; l <= 100; l++ {
		p := r.Bytes(l)
		if l >= 46 {
			p[45] = 0
		}
		parseOne(withChecksum(p), "payload_length", l >= 70 && l <= 86)
	}
	// leading zero bytes in the version: strings that start with '1'
	for z := 1; z <= 4; z++ {
		ver := append(make([]byte, z), r.Bytes(4-z)...)
		p := payload78(ver, 0, []byte{0, 0, 0, 0}, 0, r.Bytes(32), append([]byte{0}, r.Bytes(32)...))
		s := withChecksum(p)
		k, err := parseOne(s, "leading_one", true)
		if err == nil {
			roundTrip(k, map[string]interface{}{"source": "version with leading zero bytes"}, false, r)
		}
		parseOne(s[1:], "leading_one", true) // one '1' fewer: 81 bytes
		parseOne("1"+s, "leading_one", true) // one more: 83 bytes
	}
	// random strings
	for t := 0; t < scale(200, 2000, 20000); t++ {
		l := vh.Pick(r, []int{0, 1, 50, 110, 111, 112, r.Intn(200)})
		b := make([]byte, l)
		for j := range b {
			b[j] = "123456789ABCDEFGHJKLMNPQRSTUVWXYZabcdefghijkmnopqrstuvwxyz"[r.Intn(58)]
		}
		parseOne(string(b), "random_string", t%40 == 0)
	}
	rep.Extra["cases_with_sha256d_inside_coq"] = nCorrSha
	finish()
}

func finish() {
	rep.Cases = cases.Len()
	rep.Extra["duplicate_cases_dropped"] = cases.Dups
	_, err := cases.Flush()
	vh.Must(err)
	vh.Must(rep.Write(cfg))
	fmt.Printf("c05: %d implementation executions, %d correspondence cases, %d monitor violations\n", rep.Evaluations, rep.Cases, len(rep.Violations))
}

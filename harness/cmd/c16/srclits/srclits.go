// Package srclits is a generator family shared by the harness commands c16..c19: a DICTIONARY of
// the literals that occur in the source files of the package under test as it is now, plus a fixed
// list of "memorable" numbers.
//
// Why: a branch guarded by a comparison with a constant (`x == 1234567891`, `nonce&0xffff == 0xbeef`,
// a table of five bytes, a permutation table) has probability ~2^-32..2^-64 under any random or
// boundary-derived generator.  Fuzzers solve this with a dictionary harvested from the program text
// (AFL -x, libFuzzer's table of recent compares, go-fuzz's literal collection); this package does the
// same with go/parser: every integer, float and character literal of every non-test .go file of the
// given directories (ALL files, whatever their build constraints or names - a superset is harmless),
// every composite literal made of small integers (byte strings, permutations), negations, and the
// neighbours v-1, v+1.  Nothing here knows what any literal means: the harness commands put the
// values wherever their inputs have a number (indices, header fields, amounts, confirmations,
// targets, products, hash prefixes, ranks).
//
// The directory of the package under test is $VERIF_REPO (set by bin/check for scratch worktrees),
// default /repo.
package srclits

import (
	"go/ast"
	"go/parser"
	"go/token"
	"math"
	"os"
	"path/filepath"
	"sort"
	"strconv"
	"strings"
)

// Dict is what was harvested.
type Dict struct {
	Ints    []int64   // integer literals, integral float literals, their negations and +-1 neighbours; sorted, distinct
	Raw     []int64   // the literals themselves only (no neighbours); sorted, distinct
	Floats  []float64 // float literals (and the integer ones as floats), both signs; distinct
	Bytes   [][]byte  // composite / string literals that are sequences of 2..64 values in 0..255
	Seqs    [][]int64 // composite literals of 2..64 integers (any range)
	Files   int
	Sources []string
}

// RepoDir: the root of the repository under test.
func RepoDir() string {
	if d := os.Getenv("VERIF_REPO"); d != "" {
		return d
	}
	return "/repo"
}

// Memorable numbers: ascending / descending digit runs, repdigits, round decimals, hexspeak,
// powers of two and their neighbours.  A fixed list, independent of the source.
func Memorable() []int64 {
	var out []int64
	out = append(out, 0, 1, 2, 3, 7, 10, 42, 100, 255, 256, 1000, 1337, 4242, 65535, 65536,
		12345, 123456, 1234567, 12345678, 123456789, 1234567890, 1234567891, 12345678901, 123456789012,
		987654321, 9876543210, 87654321, 7654321,
		0xbeef, 0xdead, 0xcafe, 0xbabe, 0xf00d, 0xface, 0xfeed, 0xc0de, 0xd00d,
		0xdeadbeef, 0xcafebabe, 0xfeedface, 0xbaadf00d, 0xdeadc0de, 0x8badf00d, 0xc0ffee, 0x0badc0de, 0xabad1dea,
		0x20000000, 0x20000001, 0x3fffffff, 0x7fffffff, 0x80000000, 0xffffffff, 0x100000000,
		4294967295, 4294967296, 4294967297, 2147483647, 2147483648, 2147483649)
	for d := int64(1); d <= 9; d++ { // repdigits
		v := int64(0)
		for n := 1; n <= 12; n++ {
			v = v*10 + d
			if n >= 3 {
				out = append(out, v)
			}
		}
	}
	for p, v := 1, int64(10); p <= 15; p, v = p+1, v*10 { // round decimals
		out = append(out, v, v-1, v+1)
	}
	for e := uint(1); e <= 62; e++ {
		out = append(out, int64(1)<<e, int64(1)<<e-1, int64(1)<<e+1)
	}
	return distinct(out)
}

func distinct(xs []int64) []int64 {
	sort.Slice(xs, func(i, j int) bool { return xs[i] < xs[j] })
	out := xs[:0:0]
	for i, x := range xs {
		if i == 0 || x != xs[i-1] {
			out = append(out, x)
		}
	}
	return out
}

// Harvest parses every non-test .go file directly inside the given directories (recursive when
// recursive is set; vendor/testdata/hidden directories skipped).
func Harvest(recursive bool, dirs ...string) *Dict {
	d := &Dict{}
	var raw []int64
	var fl []float64
	addInt := func(v int64) { raw = append(raw, v) }
	addFloat := func(f float64) {
		if math.IsNaN(f) || math.IsInf(f, 0) {
			return
		}
		fl = append(fl, f, -f)
		if f == math.Trunc(f) && math.Abs(f) < 9e18 {
			addInt(int64(f))
		} else if math.Abs(f) < 9e18 {
			addInt(int64(math.Floor(f)))
			addInt(int64(math.Ceil(f)))
		}
	}
	litVal := func(e ast.Expr) (int64, bool) {
		neg := false
		for {
			if p, ok := e.(*ast.ParenExpr); ok {
				e = p.X
				continue
			}
			if u, ok := e.(*ast.UnaryExpr); ok && (u.Op == token.SUB || u.Op == token.ADD) {
				if u.Op == token.SUB {
					neg = !neg
				}
				e = u.X
				continue
			}
			break
		}
		b, ok := e.(*ast.BasicLit)
		if !ok {
			return 0, false
		}
		var v int64
		switch b.Kind {
		case token.INT:
			u, err := strconv.ParseUint(strings.ReplaceAll(b.Value, "_", ""), 0, 64)
			if err != nil {
				return 0, false
			}
			v = int64(u)
		case token.CHAR:
			s, err := strconv.Unquote(b.Value)
			if err != nil || len([]rune(s)) != 1 {
				return 0, false
			}
			v = int64([]rune(s)[0])
		case token.FLOAT:
			f, err := strconv.ParseFloat(strings.ReplaceAll(b.Value, "_", ""), 64)
			if err != nil || f != math.Trunc(f) || math.Abs(f) >= 9e18 {
				return 0, false
			}
			v = int64(f)
		default:
			return 0, false
		}
		if neg {
			v = -v
		}
		return v, true
	}
	visit := func(path string) {
		fset := token.NewFileSet()
		f, err := parser.ParseFile(fset, path, nil, parser.SkipObjectResolution)
		_ = err // a partial tree is used as far as it goes
		if f == nil {
			return
		}
		d.Files++
		d.Sources = append(d.Sources, path)
		ast.Inspect(f, func(n ast.Node) bool {
			switch x := n.(type) {
			case *ast.BasicLit:
				switch x.Kind {
				case token.INT, token.CHAR:
					if v, ok := litVal(x); ok {
						addInt(v)
						addFloat(float64(v))
					}
				case token.FLOAT:
					if f, err := strconv.ParseFloat(strings.ReplaceAll(x.Value, "_", ""), 64); err == nil {
						addFloat(f)
					}
				case token.STRING:
					if s, err := strconv.Unquote(x.Value); err == nil && len(s) >= 2 && len(s) <= 64 {
						d.Bytes = append(d.Bytes, []byte(s))
					}
				}
			case *ast.CompositeLit:
				if len(x.Elts) < 2 || len(x.Elts) > 64 {
					return true
				}
				seq := make([]int64, 0, len(x.Elts))
				small := true
				for _, e := range x.Elts {
					if kv, ok := e.(*ast.KeyValueExpr); ok {
						e = kv.Value
					}
					v, ok := litVal(e)
					if !ok {
						return true
					}
					seq = append(seq, v)
					if v < 0 || v > 255 {
						small = false
					}
				}
				d.Seqs = append(d.Seqs, seq)
				if small {
					b := make([]byte, len(seq))
					for i, v := range seq {
						b[i] = byte(v)
					}
					d.Bytes = append(d.Bytes, b)
				}
			}
			return true
		})
	}
	for _, dir := range dirs {
		if recursive {
			filepath.Walk(dir, func(p string, info os.FileInfo, err error) error {
				if err != nil {
					return nil
				}
				base := filepath.Base(p)
				if info.IsDir() {
					if p != dir && (strings.HasPrefix(base, ".") || base == "vendor" || base == "testdata") {
						return filepath.SkipDir
					}
					return nil
				}
				if strings.HasSuffix(base, ".go") && !strings.HasSuffix(base, "_test.go") {
					visit(p)
				}
				return nil
			})
			continue
		}
		ents, _ := os.ReadDir(dir)
		for _, e := range ents {
			if !e.IsDir() && strings.HasSuffix(e.Name(), ".go") && !strings.HasSuffix(e.Name(), "_test.go") {
				visit(filepath.Join(dir, e.Name()))
			}
		}
	}
	d.Raw = distinct(append([]int64(nil), raw...))
	var all []int64
	for _, v := range d.Raw {
		all = append(all, v, -v)
		if v < math.MaxInt64 {
			all = append(all, v+1)
		}
		if v > math.MinInt64 {
			all = append(all, v-1)
		}
	}
	d.Ints = distinct(all)
	seen := map[uint64]bool{}
	for _, f := range fl {
		if b := math.Float64bits(f); !seen[b] {
			seen[b] = true
			d.Floats = append(d.Floats, f)
		}
	}
	// distinct byte strings / sequences
	sb := map[string]bool{}
	var bs [][]byte
	for _, b := range d.Bytes {
		if !sb[string(b)] {
			sb[string(b)] = true
			bs = append(bs, b)
		}
	}
	d.Bytes = bs
	return d
}

// Numbers: the literals of the source (with neighbours and negations) followed by the memorable
// numbers; distinct, deterministic order.  big: keep at most this many of the source literals
// (the smallest absolute values are dropped first when there are more - small numbers are what
// every other generator already covers).
func (d *Dict) Numbers(max int) []int64 {
	src := append([]int64(nil), d.Ints...)
	if max > 0 && len(src) > max {
		sort.Slice(src, func(i, j int) bool { return absU(src[i]) > absU(src[j]) })
		src = src[:max]
	}
	return distinct(append(src, Memorable()...))
}

func absU(v int64) uint64 {
	if v < 0 {
		return uint64(-v)
	}
	return uint64(v)
}

// Perms: the integer sequences that are permutations of 0..n-1 or of 1..n (as 0-based ranks),
// each with its inverse.
func (d *Dict) Perms() [][]int {
	var out [][]int
	for _, s := range d.Seqs {
		n := len(s)
		for _, base := range []int64{0, 1} {
			seen := make([]bool, n)
			p := make([]int, n)
			ok := true
			for i, v := range s {
				v -= base
				if v < 0 || v >= int64(n) || seen[v] {
					ok = false
					break
				}
				seen[v] = true
				p[i] = int(v)
			}
			if ok {
				inv := make([]int, n)
				for i, v := range p {
					inv[v] = i
				}
				out = append(out, p, inv)
				break
			}
		}
	}
	return out
}

// Command prod is the production-build child of harness/cmd/c16 (built at run time by
// harness/cmd/c17/prodrun WITHOUT the tag `verif`, scratch module, public API only).  The parent
// sends the histories of its error-path family on stdin (block bytes, constructor, calls); every call
// is judged here against fresh computations with package wire: out-of-range Tx/TxHash fail with an
// OutOfRangeError and nothing else does, wrappers are non-nil and carry the message's transaction and
// index, hashes and bytes are the fresh ones, nothing panics.  Output: prodrun.Output on stdout.
package main

import (
	"bytes"
	"encoding/hex"
	"encoding/json"
	"fmt"
	"io"
	"os"
	"runtime/debug"

	"github.com/gcash/bchd/wire"
	"github.com/gcash/bchutil"
)

type op struct {
	Kind string `json:"k"`
	Arg  int64  `json:"a"`
}
type hist struct {
	Ctor  string `json:"constructor"` // new | bytes
	Block string `json:"block_serialized"`
	Ops   []op   `json:"ops"`
}
type violation struct {
	Key    string                 `json:"key"`
	What   string                 `json:"what"`
	Replay map[string]interface{} `json:"replay"`
}
type output struct {
	MainPath   string         `json:"main_path"`
	Tags       string         `json:"build_tags"`
	Executions int            `json:"executions"`
	Histogram  map[string]int `json:"histogram"`
	Violations []violation    `json:"violations"`
}

var res = output{Histogram: map[string]int{}}
var perKey = map[string]int{}

func one(h hist) {
	upto := 0
	violate := func(key, what string, extra map[string]interface{}) {
		perKey[key]++
		if perKey[key] > 2 {
			return
		}
		calls := []string{}
		for _, o := range h.Ops[:upto+1] {
			calls = append(calls, fmt.Sprintf("%s(%d)", o.Kind, o.Arg))
		}
		rp := map[string]interface{}{"prod_build": true, "constructor": h.Ctor, "block_serialized": h.Block, "history": calls}
		for k, v := range extra {
			rp[k] = v
		}
		res.Violations = append(res.Violations, violation{key, what, rp})
	}
	defer func() {
		if e := recover(); e != nil {
			violate("C16:panic", "a Block constructor or accessor panicked", map[string]interface{}{"panic": fmt.Sprint(e)})
		}
	}()
	raw, _ := hex.DecodeString(h.Block)
	var m *wire.MsgBlock
	var b *bchutil.Block
	if h.Ctor == "bytes" {
		var err error
		b, err = bchutil.NewBlockFromBytes(append([]byte(nil), raw...))
		if err != nil {
			violate("C16:ctor:accept", "constructor failed although wire deserialises the bytes", nil)
			return
		}
		m = b.MsgBlock()
	} else {
		m = new(wire.MsgBlock)
		if err := m.Deserialize(bytes.NewReader(raw)); err != nil {
			return
		}
		b = bchutil.NewBlock(m)
	}
	n := int64(len(m.Transactions))
	wrapper := func(i int, t *bchutil.Tx) {
		switch {
		case t == nil:
			violate("C16:tx:nil", "a wrapped transaction for an in-range index is nil", map[string]interface{}{"index": i})
		case t.MsgTx() != m.Transactions[i]:
			violate("C16:tx:msgtx", "Tx(i).MsgTx() is not MsgBlock().Transactions[i]", map[string]interface{}{"index": i})
		case t.Index() != i:
			violate("C16:tx:index", "a wrapped transaction does not carry its index in the block", map[string]interface{}{"index": i})
		}
	}
	for k, o := range h.Ops {
		upto = k
		res.Executions++
		inRange := o.Arg >= 0 && o.Arg < n
		switch o.Kind {
		case "tx":
			t, e := b.Tx(int(o.Arg))
			if inRange != (e == nil) || (e != nil && t != nil) {
				violate("C16:tx:range", "Tx(i) error does not coincide with i being out of range", map[string]interface{}{"index": o.Arg, "error": fmt.Sprint(e)})
			} else if e != nil {
				if _, ok := e.(bchutil.OutOfRangeError); !ok {
					violate("C16:tx:range", "out-of-range error is not an OutOfRangeError", map[string]interface{}{"index": o.Arg})
				}
			} else {
				wrapper(int(o.Arg), t)
			}
		case "txhash":
			p, e := b.TxHash(int(o.Arg))
			if inRange != (e == nil) || (e != nil && p != nil) {
				violate("C16:txhash:range", "TxHash(i) error does not coincide with i being out of range", map[string]interface{}{"index": o.Arg, "error": fmt.Sprint(e)})
			} else if e == nil {
				if p == nil {
					violate("C16:txhash:nil", "TxHash(i) returned nil without an error", map[string]interface{}{"index": o.Arg})
				} else if want := m.Transactions[o.Arg].TxHash(); *p != want {
					violate("C16:txhash:fresh", "TxHash(i) differs from a fresh MsgBlock().Transactions[i].TxHash()", map[string]interface{}{"index": o.Arg})
				}
			}
		case "txs":
			ts := b.Transactions()
			if int64(len(ts)) != n {
				violate("C16:txs:len", "Transactions() has a different length than the message", map[string]interface{}{"len": len(ts)})
			}
			for i, t := range ts {
				if int64(i) < n {
					wrapper(i, t)
				}
			}
		case "hash":
			if p, want := b.Hash(), m.BlockHash(); p == nil || *p != want {
				violate("C16:hash:fresh", "Hash() differs from a fresh MsgBlock().BlockHash()", nil)
			}
		case "bytes":
			got, e := b.Bytes()
			if e != nil {
				violate("C16:bytes:error", "Bytes() failed", nil)
			} else if !bytes.Equal(got, raw) {
				violate("C16:bytes:fresh", "Bytes() differs from a fresh MsgBlock().Serialize()", map[string]interface{}{"Bytes()": hex.EncodeToString(got)})
			}
		case "txloc":
			locs, e := b.TxLoc()
			if e != nil {
				violate("C16:txloc:error", "TxLoc() failed", nil)
			} else if int64(len(locs)) != n {
				violate("C16:txloc:delimits", "TxLoc() does not delimit each transaction's serialisation inside Bytes()", map[string]interface{}{"locs": fmt.Sprint(locs)})
			} else {
				for i, l := range locs {
					var w bytes.Buffer
					m.Transactions[i].Serialize(&w)
					if l.TxStart < 0 || l.TxLen < 0 || l.TxStart+l.TxLen > len(raw) || !bytes.Equal(raw[l.TxStart:l.TxStart+l.TxLen], w.Bytes()) {
						violate("C16:txloc:delimits", "TxLoc() does not delimit each transaction's serialisation inside Bytes()", map[string]interface{}{"locs": fmt.Sprint(locs)})
						break
					}
				}
			}
		}
	}
	var w bytes.Buffer
	m.Serialize(&w)
	if !bytes.Equal(w.Bytes(), raw) {
		violate("C16:msg:mutated", "the accessors changed the wire message", nil)
	}
}

func main() {
	if bi, ok := debug.ReadBuildInfo(); ok {
		res.MainPath = bi.Main.Path
		for _, s := range bi.Settings {
			if s.Key == "-tags" {
				res.Tags = s.Value
			}
		}
	}
	defer func() {
		b, _ := json.Marshal(res)
		os.Stdout.Write(b)
	}()
	raw, _ := io.ReadAll(os.Stdin)
	var hs []hist
	if err := json.Unmarshal(raw, &hs); err != nil {
		res.Histogram["bad_input"]++
		return
	}
	for _, h := range hs {
		one(h)
		res.Histogram["histories_"+h.Ctor]++
	}
}

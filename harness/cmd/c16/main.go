// Command c16 drives bchutil.Block / bchutil.Tx of the repository under test over
// constructors x histories of accessor calls.  Monitors compare every observable with a
// fresh computation from the wrapped wire message; correspondence cases replay the same
// histories through the Coq model with object identities abstracted to first-appearance
// numbers.
package main

import (
	"encoding/json"
	"bufio"
	"bytes"
	"fmt"
	"io"
	"math"
	"strings"

	"github.com/gcash/bchd/chaincfg/chainhash"
	"github.com/gcash/bchd/wire"
	"github.com/gcash/bchutil"

	"verif/harness/cmd/c16/srclits"
	"verif/harness/cmd/c17/prodrun"
	"verif/harness/internal/vh"
)

var cfg vh.Config
var rep *vh.Report
var cases *vh.Cases

// ---------- generators ----------
func genTx(r *vh.RNG, tokens bool) *wire.MsgTx {
	tx := wire.NewMsgTx(int32(1 + r.Intn(2)))
	ni := 1 + r.Intn(2)
	for i := 0; i < ni; i++ {
		var h chainhash.Hash
		copy(h[:], r.Bytes(32))
		ti := wire.NewTxIn(wire.NewOutPoint(&h, uint32(r.Intn(4))), r.Bytes(r.Intn(5)))
		ti.Sequence = vh.Pick(r, []uint32{0xffffffff, 0, 1})
		tx.AddTxIn(ti)
	}
	no := r.Intn(3)
	for i := 0; i < no; i++ {
		script := r.Bytes(r.Intn(6))
		if len(script) > 0 && script[0] == wire.PREFIX_BYTE {
			script[0] = 0x76
		}
		tok := wire.TokenData{}
		if tokens && r.Intn(2) == 0 {
			var cat [32]byte
			copy(cat[:], r.Bytes(32))
			var amount *uint64
			var commitment *[]byte
			var capab *byte
			switch r.Intn(3) {
			case 0:
				a := uint64(1 + r.Intn(1000))
				amount = &a
			case 1:
				c := r.Bytes(1 + r.Intn(4))
				commitment = &c
				k := byte(r.Intn(3))
				capab = &k
			case 2:
				a := uint64(1 + r.U64()%(1<<40))
				amount = &a
				k := byte(r.Intn(3))
				capab = &k
			}
			if td, err := wire.NewTokenData(cat, amount, commitment, capab); err == nil {
				tok = *td
			}
		}
		tx.AddTxOut(wire.NewTxOut(int64(r.Intn(100000)), script, tok))
	}
	tx.LockTime = uint32(r.Intn(3))
	return tx
}

func varIntBytes(v uint64) []byte {
	var w bytes.Buffer
	vh.Must(wire.WriteVarInt(&w, 0, v))
	return w.Bytes()
}

var validBitfields = []byte{0x10, 0x20, 0x21, 0x22, 0x30, 0x31, 0x32, 0x60, 0x61, 0x62, 0x70, 0x71, 0x72}

// tokenPrefixScript builds an output whose script bytes start with wire.PREFIX_BYTE (0xef), the family the
// ordinary generator avoids.  Kinds:
//
//	0 ef + fewer than 33 bytes              (wire: not token data, whole script kept)
//	1 ef + category + invalid bitfield      (kept whole)
//	2 ef + category + well-formed token     (split into TokenData + script; re-serialises to the same bytes)
//	3 ef + category + malformed token body  (commitment length 0 / 41 / non-canonical varint, amount 0 / non-canonical / missing: kept whole)
//	4 ef + ZERO category + well-formed body (split, but a zero category is "no token data" for the writer:
//	                                         wire re-serialises WITHOUT the prefix - not canonical)
//	5 TokenData given as a struct, invalid  (bitfield 0 / reserved bit / commitment of 41 bytes / amount 0: written, then read back as a plain script)
//	6 TokenData struct with a zero category (never written)
func tokenPrefixScript(r *vh.RNG, kind int) *wire.TxOut {
	tail := r.Bytes(r.Intn(4))
	cat := r.Bytes(32)
	cat[0] |= 1
	body := func(bf byte) []byte {
		var b []byte
		if bf&0x40 != 0 {
			c := r.Bytes(vh.Pick(r, []int{1, 2, 39, 40}))
			b = append(b, varIntBytes(uint64(len(c)))...)
			b = append(b, c...)
		}
		if bf&0x10 != 0 {
			b = append(b, varIntBytes(vh.Pick(r, []uint64{1, 5, 252, 253, 65535, 65536, 1 << 32, math.MaxInt64}))...)
		}
		return b
	}
	value := int64(r.Intn(1000))
	switch kind {
	case 0:
		return wire.NewTxOut(value, append([]byte{0xef}, r.Bytes(r.Intn(33))...), wire.TokenData{})
	case 1:
		bf := vh.Pick(r, []byte{0x00, 0x80, 0x90, 0x13, 0x40, 0x50, 0x11, 0x23, 0x0f, 0xff})
		return wire.NewTxOut(value, append(append(append([]byte{0xef}, cat...), bf), tail...), wire.TokenData{})
	case 2:
		bf := vh.Pick(r, validBitfields)
		return wire.NewTxOut(value, append(append(append(append([]byte{0xef}, cat...), bf), body(bf)...), tail...), wire.TokenData{})
	case 3:
		bad := [][]byte{
			append([]byte{0x60, 0x00}, tail...),                          // commitment length 0
			append(append([]byte{0x60, 41}, r.Bytes(41)...), tail...),    // commitment length 41
			append(append([]byte{0x60, 0xfd, 0x02, 0x00}, 1, 2), tail...), // non-canonical varint
			append([]byte{0x10, 0x00}, tail...),                          // amount 0
			append([]byte{0x10, 0xfd, 0x05, 0x00}, tail...),              // non-canonical amount
			{0x10},                                                       // amount missing
			{0x60, 0x05, 1, 2},                                           // commitment truncated
			append([]byte{0x10, 0xff, 0xff, 0xff, 0xff, 0xff, 0xff, 0xff, 0xff, 0xff}, tail...), // amount above the maximum
		}
		return wire.NewTxOut(value, append(append([]byte{0xef}, cat...), vh.Pick(r, bad)...), wire.TokenData{})
	case 4:
		bf := vh.Pick(r, validBitfields)
		return wire.NewTxOut(value, append(append(append(append([]byte{0xef}, make([]byte, 32)...), bf), body(bf)...), tail...), wire.TokenData{})
	case 5:
		td := wire.TokenData{BitField: vh.Pick(r, []byte{0x00, 0x80, 0x13, 0x60, 0x10, 0x10})}
		copy(td.CategoryID[:], cat)
		switch td.BitField {
		case 0x60:
			td.Commitment = r.Bytes(vh.Pick(r, []int{0, 41}))
		case 0x10:
			td.Amount = vh.Pick(r, []uint64{0, math.MaxInt64 + 1})
		}
		return wire.NewTxOut(value, append([]byte{0x76}, tail...), td)
	}
	return wire.NewTxOut(value, append([]byte{0x76}, tail...), wire.TokenData{BitField: 0x10, Amount: uint64(1 + r.Intn(9))})
}

func genBlock(r *vh.RNG, ntx int, tokens bool) *wire.MsgBlock {
	var prev, merkle chainhash.Hash
	copy(prev[:], r.Bytes(32))
	copy(merkle[:], r.Bytes(32))
	hdr := wire.NewBlockHeader(int32(r.Intn(4)), &prev, &merkle, r.U32(), r.U32())
	hdr.Timestamp = hdr.Timestamp.Truncate(1e9)
	m := wire.NewMsgBlock(hdr)
	for i := 0; i < ntx; i++ {
		m.AddTransaction(genTx(r, tokens))
	}
	return m
}

func serBlock(m *wire.MsgBlock) []byte {
	var w bytes.Buffer
	vh.Must(m.Serialize(&w))
	return w.Bytes()
}
func serTx(t *wire.MsgTx) []byte {
	var w bytes.Buffer
	vh.Must(t.Serialize(&w))
	return w.Bytes()
}
// wireCanonical: package wire accepts `in` as a block, and the bytes it consumed are exactly the
// serialisation of the message it returned.  Calls wire only.
func wireCanonical(in []byte) bool {
	var m wire.MsgBlock
	rd := bytes.NewReader(append([]byte(nil), in...))
	if err := m.Deserialize(rd); err != nil {
		return true // rejected: nothing is cached
	}
	return bytes.Equal(serBlock(&m), in[:len(in)-rd.Len()])
}

// wireConsumed: the prefix of `in` that wire.MsgBlock.Deserialize reads (all of it if rejected).
func wireConsumed(in []byte) []byte {
	var m wire.MsgBlock
	rd := bytes.NewReader(append([]byte(nil), in...))
	if err := m.Deserialize(rd); err != nil {
		return in
	}
	return in[:len(in)-rd.Len()]
}

func serHeader(m *wire.MsgBlock) []byte {
	var w bytes.Buffer
	vh.Must(m.Header.Serialize(&w))
	return w.Bytes()
}

// ---------- operations ----------
type opSpec struct {
	Kind string // tx, txs, txhash, hash, bytes, txloc, height, setheight
	Arg  int64
}

func (o opSpec) String() string {
	switch o.Kind {
	case "tx", "txhash", "setheight":
		return fmt.Sprintf("%s(%d)", o.Kind, o.Arg)
	}
	return o.Kind + "()"
}
func (o opSpec) coq() string {
	switch o.Kind {
	case "tx":
		return fmt.Sprintf("OpTx (%d)%%Z", o.Arg)
	case "txs":
		return "OpTransactions"
	case "txhash":
		return fmt.Sprintf("OpTxHash (%d)%%Z", o.Arg)
	case "hash":
		return "OpHash"
	case "bytes":
		return "OpBytes"
	case "txloc":
		return "OpTxLoc"
	case "height":
		return "OpHeight"
	}
	return fmt.Sprintf("OpSetHeight (%d)%%Z", o.Arg)
}

func genOps(r *vh.RNG, n int, count int) []opSpec {
	ops := make([]opSpec, count)
	idx := func() int64 {
		switch r.Intn(10) {
		case 0:
			return int64(-1 - r.Intn(3))
		case 1:
			return int64(n + r.Intn(3))
		case 2:
			return vh.Pick(r, []int64{math.MinInt64, math.MaxInt64, math.MaxInt32, math.MinInt32, int64(n), -1, 1 << 32, int64(n) + 1<<32, -(1 << 32)})
		}
		if n == 0 {
			return int64(r.Intn(2))
		}
		return int64(r.Intn(n))
	}
	for i := range ops {
		switch r.Intn(14) {
		case 0, 1, 2, 3:
			ops[i] = opSpec{"tx", idx()}
		case 4, 5:
			ops[i] = opSpec{"txs", 0}
		case 6, 7, 8:
			ops[i] = opSpec{"txhash", idx()}
		case 9:
			ops[i] = opSpec{"hash", 0}
		case 10:
			ops[i] = opSpec{"bytes", 0}
		case 11:
			ops[i] = opSpec{"txloc", 0}
		case 12:
			ops[i] = opSpec{"height", 0}
		default:
			ops[i] = opSpec{"setheight", int64(int32(r.U32()))}
		}
	}
	return ops
}

// ---------- Coq terms ----------
func coqLocs(l []wire.TxLoc) string {
	s := make([]string, len(l))
	for i, x := range l {
		s[i] = fmt.Sprintf("(%d,%d)", x.TxStart, x.TxLen)
	}
	if len(s) == 0 {
		return "([]%nat)"
	}
	return "([" + strings.Join(s, ";") + "]%nat)"
}

func coqContent(ser []byte, hash chainhash.Hash) string {
	return "(" + vh.CoqBytes(ser) + ", " + vh.CoqBytes(hash[:]) + ")"
}

func coqMsg(m *wire.MsgBlock) string {
	pnum := map[*wire.MsgTx]int{}
	items := make([]string, len(m.Transactions))
	for i, t := range m.Transactions {
		if _, ok := pnum[t]; !ok {
			pnum[t] = len(pnum)
		}
		items[i] = fmt.Sprintf("MT %d %s %s", pnum[t], vh.CoqBytes(serTx(t)), vh.CoqBytes(hashBytes(t.TxHash())))
	}
	return fmt.Sprintf("(MB %s %s %s)", vh.CoqBytes(serHeader(m)), vh.CoqBytes(hashBytes(m.BlockHash())), vh.CoqList(items))
}
func hashBytes(h chainhash.Hash) []byte { return append([]byte(nil), h[:]...) }

// deserialisation oracle entry for `in` (package wire itself, on a private copy)
func coqDeser(in []byte) string {
	var m wire.MsgBlock
	rd := bytes.NewReader(append([]byte(nil), in...))
	if err := m.Deserialize(rd); err != nil {
		return fmt.Sprintf("(%s, None)", vh.CoqBytes(in))
	}
	cs := make([]string, len(m.Transactions))
	for i, t := range m.Transactions {
		cs[i] = coqContent(serTx(t), t.TxHash())
	}
	rest := in[len(in)-rd.Len():]
	return fmt.Sprintf("(%s, Some (%s, %s, %s))", vh.CoqBytes(in), coqContent(serHeader(&m), m.BlockHash()), vh.CoqList(cs), vh.CoqBytes(rest))
}
func coqTxLocEntry(in []byte) string {
	var m wire.MsgBlock
	locs, err := m.DeserializeTxLoc(bytes.NewBuffer(append([]byte(nil), in...)))
	if err != nil {
		return fmt.Sprintf("(%s, None)", vh.CoqBytes(in))
	}
	return fmt.Sprintf("(%s, Some %s)", vh.CoqBytes(in), coqLocs(locs))
}

// ---------- one history ----------
type history struct {
	Ctor     string // new, bytes, reader, blockandbytes
	Msg      *wire.MsgBlock
	Input    []byte // bytes given to the constructor (bytes / reader / blockandbytes)
	Trailing int
	Ops      []opSpec
}

func (h history) replay(extra map[string]interface{}) map[string]interface{} {
	ops := make([]string, len(h.Ops))
	for i, o := range h.Ops {
		ops[i] = o.String()
	}
	m := map[string]interface{}{"constructor": h.Ctor, "history": ops}
	short := func(b []byte) string {
		if len(b) > 4096 {
			return fmt.Sprintf("%s... (%d bytes; regenerate with the recorded seed)", vh.Hex(b[:256]), len(b))
		}
		return vh.Hex(b)
	}
	if h.Msg != nil {
		m["block_serialized"] = short(serBlock(h.Msg))
		m["transactions"] = len(h.Msg.Transactions)
	}
	if h.Input != nil {
		m["constructor_bytes"] = short(h.Input)
		m["trailing_bytes"] = h.Trailing
	}
	for k, v := range extra {
		m[k] = v
	}
	return m
}

// withProbes inserts out-of-range accesses after every call of the history: whatever has been
// cached so far, a negative or too large index must give an error (and must not disturb anything).
func withProbes(r *vh.RNG, ops []opSpec, n int) []opSpec {
	var out []opSpec
	probes := func() {
		cands := []opSpec{{"tx", -1}, {"txhash", -1}, {"tx", int64(n)}, {"txhash", int64(n)}, {"tx", math.MinInt64}, {"txhash", int64(n) + 1}}
		k := 1 + r.Intn(3)
		for j := 0; j < k; j++ {
			out = append(out, vh.Pick(r, cands))
		}
	}
	probes()
	for _, o := range ops {
		out = append(out, o)
		probes()
	}
	return out
}

func runHistory(h history, corr bool) {
	if p, msg := vh.Catch(func() { runHistory1(h, corr) }); p {
		rep.Violate("C16:panic", "a Block constructor or accessor panicked", h.replay(map[string]interface{}{"panic": msg}))
	}
}

func runHistory1(h history, corr bool) {
	var b *bchutil.Block
	var err error
	unread := 0
	var ctorCoq string
	switch h.Ctor {
	case "new":
		b = bchutil.NewBlock(h.Msg)
		ctorCoq = "CNew " + coqMsg(h.Msg)
	case "bytes":
		b, err = bchutil.NewBlockFromBytes(h.Input)
		ctorCoq = "CBytes " + vh.CoqBytes(h.Input)
	case "reader":
		// the reader is the caller's: four concrete types, and afterwards the caller reuses its memory
		backing := append([]byte(nil), h.Input...)
		rd := bytes.NewReader(backing)
		switch len(h.Input) % 4 {
		case 0:
			b, err = bchutil.NewBlockFromReader(rd)
			unread = rd.Len()
			rep.Histogram["reader_bytes.Reader"]++
		case 1: // a plain io.Reader: no Len, no ReadByte, no Seek
			b, err = bchutil.NewBlockFromReader(struct{ io.Reader }{rd})
			unread = rd.Len()
			rep.Histogram["reader_opaque"]++
		case 2:
			buf := bytes.NewBuffer(backing)
			b, err = bchutil.NewBlockFromReader(buf)
			unread = buf.Len()
			rep.Histogram["reader_bytes.Buffer"]++
		default:
			br := bufio.NewReaderSize(rd, 16)
			b, err = bchutil.NewBlockFromReader(br)
			unread = br.Buffered() + rd.Len()
			rep.Histogram["reader_bufio"]++
		}
		for i := range backing { // e.g. the caller reads the next message into the same buffer
			backing[i] ^= 0x5a
		}
		ctorCoq = fmt.Sprintf("CReader %s %d%%nat", vh.CoqBytes(h.Input), unread)
	case "blockandbytes":
		b = bchutil.NewBlockFromBlockAndBytes(h.Msg, h.Input)
		ctorCoq = fmt.Sprintf("CBlockAndBytes %s %s", coqMsg(h.Msg), vh.CoqBytes(h.Input))
	}
	dt, lt := []string{}, []string{}
	if h.Ctor == "bytes" || h.Ctor == "reader" {
		dt = append(dt, coqDeser(h.Input))
	}
	key := fmt.Sprintf("%s|%x|%x|%v", h.Ctor, h.Input, func() []byte {
		if h.Msg != nil {
			return serBlock(h.Msg)
		}
		return nil
	}(), h.Ops)
	if err != nil || b == nil {
		// the constructor must fail exactly when wire rejects the bytes
		var m wire.MsgBlock
		werr := m.Deserialize(bytes.NewReader(h.Input))
		rep.Count("ctor_rejected", key, false)
		if werr == nil || b != nil {
			rep.Violate("C16:ctor:accept", "constructor failed although wire deserialises the bytes", h.replay(map[string]interface{}{"error": fmt.Sprint(err)}))
		}
		if corr {
			cases.Add(fmt.Sprintf("BlockCase (%s) %s [] false [] []", ctorCoq, vh.CoqList(dt)), h.replay(map[string]interface{}{"impl_ok": false}))
		}
		return
	}
	m := b.MsgBlock()
	n := len(m.Transactions)
	fresh := serBlock(m)
	trusted := h.Ctor != "blockandbytes" || len(h.Input) == 0 || bytes.Equal(h.Input, fresh) // precondition of NewBlockFromBlockAndBytes
	// The dependency's side of the contract, decided by calling package wire alone (never bchutil):
	// is what wire.Deserialize accepted the canonical serialisation of what it returned (hypothesis
	// wire_canonical of the theorems)?  Where it is not, the clauses that compare the bytes cached by
	// NewBlockFromBytes with a fresh serialisation are reported under C16:wire-noncanonical:<clause>.
	canonIn := true
	if h.Ctor == "bytes" || h.Ctor == "reader" {
		canonIn = wireCanonical(h.Input)
		if !canonIn {
			rep.Histogram["input_wire_noncanonical_"+h.Ctor]++
		}
	}
	clause := func(key string) string {
		if h.Ctor == "bytes" && !canonIn {
			return "C16:wire-noncanonical:" + key[len("C16:"):]
		}
		return key
	}
	if h.Ctor == "new" || h.Ctor == "blockandbytes" {
		if m != h.Msg {
			rep.Violate("C16:ctor:msg", "MsgBlock() is not the message the block was made from", h.replay(nil))
		}
	}
	if h.Ctor == "reader" && unread != h.Trailing {
		rep.Violate("C16:ctor:reader_consumed", "NewBlockFromReader did not consume exactly the block", h.replay(map[string]interface{}{"unread": unread}))
	}
	lt = append(lt, coqTxLocEntry(fresh))
	// the model takes MsgBlock.SerializeSize() to be the length of MsgBlock.Serialize()'s output (NewBlockFromBytes
	// compares it with the number of bytes consumed): a fact about package wire, checked on every block
	if m.SerializeSize() != len(fresh) {
		rep.Violate("C16:dependency:serialize_size", "wire.MsgBlock.SerializeSize() is not the length of Serialize()'s output", h.replay(map[string]interface{}{"SerializeSize()": m.SerializeSize(), "len(Serialize())": len(fresh)}))
	}
	if !trusted {
		lt = append(lt, coqTxLocEntry(h.Input))
	}
	if h.Ctor == "bytes" && !canonIn {
		// the bytes NewBlockFromBytes keeps are the consumed input, which here is not `fresh`
		lt = append(lt, coqTxLocEntry(wireConsumed(h.Input)))
	}
	rep.Count("history_"+h.Ctor, key, len(h.Ops) >= 2)
	if !trusted {
		rep.Histogram["history_blockandbytes_untrusted_bytes"]++
	}
	rep.Histogram[fmt.Sprintf("block_txs_%s", bucket(n))]++

	wnum := map[*bchutil.Tx]int{}
	hnum := map[*chainhash.Hash]int{}
	wAt := map[int]*bchutil.Tx{}
	wIdx := map[*bchutil.Tx]int{}
	hAt := map[int]*chainhash.Hash{}
	var blockHashPtr *chainhash.Hash
	var bytesPtr *byte
	height := int32(-1)
	mposOf := func(p *wire.MsgTx) int {
		for i, t := range m.Transactions {
			if t == p {
				return i
			}
		}
		return 999999
	}
	numW := func(t *bchutil.Tx) int {
		if _, ok := wnum[t]; !ok {
			wnum[t] = len(wnum)
		}
		return wnum[t]
	}
	numH := func(p *chainhash.Hash) int {
		if _, ok := hnum[p]; !ok {
			hnum[p] = len(hnum)
		}
		return hnum[p]
	}
	var outs []string
	var trace []string
	seenKey := map[string]bool{}
	viol := func(k int, key, what string, extra map[string]interface{}) {
		if seenKey[key] {
			return // the first occurrence in a history has the shortest prefix; building a replay is costly for big blocks
		}
		seenKey[key] = true
		hh := h
		hh.Ops = h.Ops[:k+1]
		rep.Violate(key, what, hh.replay(extra))
	}
	checkWrapper := func(k int, i int, t *bchutil.Tx) {
		if t == nil {
			viol(k, "C16:tx:nil", "a wrapped transaction for an in-range index is nil", map[string]interface{}{"index": i})
			return
		}
		if t.MsgTx() != m.Transactions[i] {
			viol(k, "C16:tx:msgtx", "Tx(i).MsgTx() is not MsgBlock().Transactions[i]", map[string]interface{}{"index": i})
		}
		if t.Index() != i {
			viol(k, "C16:tx:index", "a wrapped transaction does not carry its index in the block", map[string]interface{}{"index": i, "Index()": t.Index()})
		}
		if prev, ok := wAt[i]; ok && prev != t {
			viol(k, "C16:tx:identity", "repeated accessor calls returned different *Tx objects for the same index", map[string]interface{}{"index": i})
		}
		if j, ok := wIdx[t]; ok && j != i {
			viol(k, "C16:tx:distinct", "one *Tx object serves two indices", map[string]interface{}{"index": i, "other": j})
		}
		wIdx[t] = i
		wAt[i] = t
	}
	execOp := func(k int, o opSpec) {
		switch o.Kind {
		case "tx":
			t, e := b.Tx(int(o.Arg))
			inRange := o.Arg >= 0 && o.Arg < int64(n)
			if inRange != (e == nil) || (e != nil && t != nil) {
				viol(k, "C16:tx:range", "Tx(i) error does not coincide with i being out of range", map[string]interface{}{"index": o.Arg, "error": fmt.Sprint(e)})
			}
			if e != nil {
				if _, ok := e.(bchutil.OutOfRangeError); !ok {
					viol(k, "C16:tx:range", "out-of-range error is not an OutOfRangeError", map[string]interface{}{"index": o.Arg})
				}
				outs = append(outs, "XErr 1")
				trace = append(trace, "err")
			} else {
				checkWrapper(k, int(o.Arg), t)
				outs = append(outs, fmt.Sprintf("XTx %d %d (%d)%%Z", numW(t), mposOf(t.MsgTx()), t.Index()))
				trace = append(trace, fmt.Sprintf("tx#%d", numW(t)))
			}
		case "txs":
			ts := b.Transactions()
			if len(ts) != n {
				viol(k, "C16:txs:len", "Transactions() has a different length than the message", map[string]interface{}{"len": len(ts)})
			}
			items := make([]string, len(ts))
			for i, t := range ts {
				if i < n {
					checkWrapper(k, i, t)
				}
				if t == nil {
					items[i] = "None"
				} else {
					items[i] = fmt.Sprintf("Some (%d, %d, (%d)%%Z)", numW(t), mposOf(t.MsgTx()), t.Index())
				}
			}
			outs = append(outs, "XTxs "+vh.CoqList(items))
			trace = append(trace, fmt.Sprintf("txs[%d]", len(ts)))
		case "txhash":
			p, e := b.TxHash(int(o.Arg))
			inRange := o.Arg >= 0 && o.Arg < int64(n)
			if inRange != (e == nil) || (e != nil && p != nil) {
				viol(k, "C16:txhash:range", "TxHash(i) error does not coincide with i being out of range", map[string]interface{}{"index": o.Arg, "error": fmt.Sprint(e)})
			}
			if e != nil {
				outs = append(outs, "XErr 1")
				trace = append(trace, "err")
			} else if p == nil {
				viol(k, "C16:txhash:nil", "TxHash(i) returned nil without an error", map[string]interface{}{"index": o.Arg})
				outs = append(outs, "XPanic 0")
			} else {
				i := int(o.Arg)
				if want := m.Transactions[i].TxHash(); *p != want {
					viol(k, "C16:txhash:fresh", "TxHash(i) differs from a fresh MsgBlock().Transactions[i].TxHash()", map[string]interface{}{"index": i, "got": p.String(), "fresh": want.String()})
				}
				if prev, ok := hAt[i]; ok && prev != p {
					viol(k, "C16:txhash:identity", "repeated TxHash(i) calls returned different hash objects", map[string]interface{}{"index": i})
				}
				hAt[i] = p
				if t, e2 := b.Tx(i); e2 == nil && t != nil {
					if t.Hash() != p {
						viol(k, "C16:txhash:identity", "TxHash(i) is not the object Tx(i).Hash() returns", map[string]interface{}{"index": i})
					}
					checkWrapper(k, i, t)
				}
				outs = append(outs, fmt.Sprintf("XHash %d %s", numH(p), vh.CoqBytes(p[:])))
				trace = append(trace, fmt.Sprintf("h#%d", numH(p)))
			}
		case "hash":
			p := b.Hash()
			if want := m.BlockHash(); p == nil || *p != want {
				viol(k, "C16:hash:fresh", "Hash() differs from a fresh MsgBlock().BlockHash()", nil)
			}
			if blockHashPtr != nil && blockHashPtr != p {
				viol(k, "C16:hash:identity", "repeated Hash() calls returned different objects", nil)
			}
			blockHashPtr = p
			if p != nil {
				outs = append(outs, fmt.Sprintf("XHash %d %s", numH(p), vh.CoqBytes(p[:])))
			}
			trace = append(trace, "hash")
		case "bytes":
			got, e := b.Bytes()
			if e != nil {
				viol(k, "C16:bytes:error", "Bytes() failed", map[string]interface{}{"error": fmt.Sprint(e)})
				outs = append(outs, "XErr 2")
				return
			}
			if trusted && !bytes.Equal(got, fresh) {
				viol(k, clause("C16:bytes:fresh"), "Bytes() differs from a fresh MsgBlock().Serialize()", map[string]interface{}{"Bytes()": vh.Hex(got), "len(Bytes())": len(got), "fresh": vh.Hex(fresh), "len(fresh)": len(fresh)})
			}
			if len(got) > 0 {
				if bytesPtr != nil && bytesPtr != &got[0] {
					viol(k, "C16:bytes:identity", "repeated Bytes() calls returned different buffers", nil)
				}
				bytesPtr = &got[0]
			}
			outs = append(outs, "XBytes "+vh.CoqBytes(got))
			trace = append(trace, fmt.Sprintf("bytes[%d]", len(got)))
		case "txloc":
			locs, e := b.TxLoc()
			if e != nil {
				if trusted {
					viol(k, "C16:txloc:error", "TxLoc() failed", map[string]interface{}{"error": fmt.Sprint(e)})
				}
				outs = append(outs, "XErr 2")
				trace = append(trace, "txloc err")
				return
			}
			raw := fresh // what Bytes() must return (checked by its own monitor); calling Bytes() here would fill the cache
			if trusted {
				ok := len(locs) == n
				// exactly: transaction i sits where the header, the count and transactions 0..i-1 end
				// (a slice with the right content somewhere else - identical transactions - is not enough),
				// and the last one ends the block
				next := 80 + wire.VarIntSerializeSize(uint64(n))
				for i := 0; ok && i < n; i++ {
					s, l := locs[i].TxStart, locs[i].TxLen
					ok = s == next && l >= 0 && s+l <= len(raw) && bytes.Equal(raw[s:s+l], serTx(m.Transactions[i]))
					next = s + l
				}
				ok = ok && next == len(raw)
				if !ok {
					viol(k, clause("C16:txloc:delimits"), "TxLoc() does not delimit each transaction's serialisation inside Bytes()", map[string]interface{}{"locs": fmt.Sprint(locs)})
				}
			}
			outs = append(outs, "XLocs "+coqLocs(locs))
			trace = append(trace, "txloc")
		case "height":
			g := b.Height()
			if g != height {
				viol(k, "C16:height", "Height() is not the last SetHeight (or BlockHeightUnknown)", map[string]interface{}{"got": g, "want": height})
			}
			outs = append(outs, fmt.Sprintf("XInt (%d)%%Z", g))
			trace = append(trace, "height")
		case "setheight":
			b.SetHeight(int32(o.Arg))
			height = int32(o.Arg)
			outs = append(outs, "XUnit")
			trace = append(trace, "setheight")
		}
	}
	for k, o := range h.Ops {
		nOuts := len(outs)
		if p, msg := vh.Catch(func() { execOp(k, o) }); p {
			// a panic ends the history; it is recorded as an observation so that the model is asked too
			viol(k, "C16:panic", "a Block accessor panicked", map[string]interface{}{"panic": msg, "call": o.String()})
			outs = append(outs[:nOuts], "XPanic 1")
			trace = append(trace, "PANIC")
			h.Ops = h.Ops[:k+1]
			break
		}
	}
	// the message itself was not touched
	if !bytes.Equal(serBlock(m), fresh) {
		rep.Violate("C16:msg:mutated", "the accessors changed the wire message", h.replay(nil))
	}
	// re-parse equivalence
	if trusted {
		raw, e := b.Bytes()
		if e == nil {
			// does package wire itself read these bytes back as what they serialise (hypothesis wire_roundtrip;
			// decided with wire alone)?  Where it does not (script 0xef + zero category + token body), the clause
			// cannot hold for any wrapper: known finding, reported under C16:wire-noncanonical:reparse only.
			key := "C16:reparse"
			if !wireCanonical(raw) {
				key = "C16:wire-noncanonical:reparse"
				rep.Histogram["reparse_wire_does_not_roundtrip"]++
			}
			b2, e2 := bchutil.NewBlockFromBytes(append([]byte(nil), raw...))
			ok := e2 == nil && b2 != nil
			if ok {
				m2 := b2.MsgBlock()
				raw2, _ := b2.Bytes()
				ok = bytes.Equal(serBlock(m2), fresh) && bytes.Equal(raw2, raw) && *b2.Hash() == m.BlockHash() && len(m2.Transactions) == n
				for i := 0; ok && i < n; i++ {
					p, e3 := b2.TxHash(i)
					ok = e3 == nil && *p == m.Transactions[i].TxHash()
				}
				l1, _ := b.TxLoc()
				l2, _ := b2.TxLoc()
				ok = ok && fmt.Sprint(l1) == fmt.Sprint(l2)
			}
			if !ok {
				rep.Violate(key, "a block re-parsed from Bytes() is not equivalent to the original", h.replay(map[string]interface{}{"error": fmt.Sprint(e2)}))
			}
		}
	}
	if corr {
		opc := make([]string, len(h.Ops))
		for i, o := range h.Ops {
			opc[i] = o.coq()
		}
		cases.Add(fmt.Sprintf("BlockCase (%s) %s %s true %s %s", ctorCoq, vh.CoqList(dt), vh.CoqList(lt), vh.CoqList(opc), vh.CoqList(outs)),
			h.replay(map[string]interface{}{"impl_ok": true, "impl_trace": trace}))
	}
	rep.Sample(map[string]interface{}{"constructor": h.Ctor, "transactions": n, "history": fmt.Sprint(h.Ops), "trace": trace}, 4)
}

func bucket(n int) string {
	switch {
	case n == 0:
		return "0"
	case n == 1:
		return "1"
	case n <= 4:
		return "2-4"
	case n <= 12:
		return "5-12"
	}
	return "13+"
}

// ---------- stand-alone Tx wrappers ----------
type topSpec struct {
	Kind string // hash, index, setindex, msgtx
	Arg  int64
}

func runTxHistory(ctor string, msg *wire.MsgTx, input []byte, trailing int, ops []topSpec, corr bool) {
	replay := map[string]interface{}{"constructor": ctor, "history": fmt.Sprint(ops), "tx_serialized": vh.Hex(serTx(msg)), "constructor_bytes": vh.Hex(input)}
	p, pm := vh.Catch(func() {
		var t *bchutil.Tx
		var err error
		unread := 0
		var ctorCoq string
		tt := []string{}
		entry := func(in []byte) string {
			var m wire.MsgTx
			rd := bytes.NewReader(append([]byte(nil), in...))
			if e := m.Deserialize(rd); e != nil {
				return fmt.Sprintf("(%s, None)", vh.CoqBytes(in))
			}
			return fmt.Sprintf("(%s, Some (%s, %s))", vh.CoqBytes(in), coqContent(serTx(&m), m.TxHash()), vh.CoqBytes(in[len(in)-rd.Len():]))
		}
		switch ctor {
		case "new":
			t = bchutil.NewTx(msg)
			ctorCoq = fmt.Sprintf("TNew (MT 0 %s %s)", vh.CoqBytes(serTx(msg)), vh.CoqBytes(hashBytes(msg.TxHash())))
		case "bytes":
			t, err = bchutil.NewTxFromBytes(input)
			ctorCoq = "TFromBytes " + vh.CoqBytes(input)
			tt = append(tt, entry(input))
		case "reader":
			rd := bytes.NewReader(input)
			if len(input)%2 == 1 {
				t, err = bchutil.NewTxFromReader(struct{ io.Reader }{rd})
			} else {
				t, err = bchutil.NewTxFromReader(rd)
			}
			unread = rd.Len()
			ctorCoq = fmt.Sprintf("TFromReader %s %d%%nat", vh.CoqBytes(input), unread)
			tt = append(tt, entry(input))
		}
		rep.Count("txwrapper_"+ctor, fmt.Sprintf("%s|%x|%v", ctor, input, ops), err == nil)
		if err != nil || t == nil {
			var m wire.MsgTx
			if m.Deserialize(bytes.NewReader(input)) == nil {
				rep.Violate("C16:txctor:accept", "Tx constructor failed although wire deserialises the bytes", replay)
			}
			if corr {
				cases.Add(fmt.Sprintf("TxCase (%s) %s false [] []", ctorCoq, vh.CoqList(tt)), replay)
			}
			return
		}
		if ctor == "reader" && unread != trailing {
			rep.Violate("C16:txctor:reader_consumed", "NewTxFromReader did not consume exactly the transaction", replay)
		}
		m := t.MsgTx()
		if ctor == "new" && m != msg {
			rep.Violate("C16:txw:msgtx", "NewTx(m).MsgTx() is not m", replay)
		}
		want := serTx(msg)
		if ctor != "new" {
			// what package wire itself makes of the bytes (it is not canonical for every script, see tokenPrefixScript)
			var wm wire.MsgTx
			if wm.Deserialize(bytes.NewReader(append([]byte(nil), input...))) == nil {
				if !bytes.Equal(serTx(&wm), want) {
					rep.Histogram["txwrapper_input_wire_noncanonical"]++
				}
				want = serTx(&wm)
			}
		}
		if !bytes.Equal(serTx(m), want) {
			rep.Violate("C16:txw:content", "the wrapped transaction differs from the one serialised", replay)
		}
		index := -1
		var hp *chainhash.Hash
		var outs []string
		for _, o := range ops {
			switch o.Kind {
			case "hash":
				p := t.Hash()
				if p == nil || *p != m.TxHash() {
					rep.Violate("C16:txw:hash", "Tx.Hash() differs from a fresh MsgTx().TxHash()", replay)
				}
				if hp != nil && hp != p {
					rep.Violate("C16:txw:hash_identity", "repeated Tx.Hash() calls returned different objects", replay)
				}
				hp = p
				outs = append(outs, fmt.Sprintf("XHash 0 %s", vh.CoqBytes(p[:])))
			case "index":
				if t.Index() != index {
					rep.Violate("C16:txw:index", "Tx.Index() is not the last SetIndex (or TxIndexUnknown)", replay)
				}
				outs = append(outs, fmt.Sprintf("XInt (%d)%%Z", t.Index()))
			case "setindex":
				t.SetIndex(int(o.Arg))
				index = int(o.Arg)
				outs = append(outs, "XUnit")
			case "msgtx":
				if t.MsgTx() != m {
					rep.Violate("C16:txw:msgtx", "Tx.MsgTx() changed between calls", replay)
				}
				outs = append(outs, "XPtr 0")
			}
		}
		if corr {
			opc := make([]string, len(ops))
			for i, o := range ops {
				switch o.Kind {
				case "hash":
					opc[i] = "TpHash"
				case "index":
					opc[i] = "TpIndex"
				case "setindex":
					opc[i] = fmt.Sprintf("TpSetIndex (%d)%%Z", o.Arg)
				default:
					opc[i] = "TpMsgTx"
				}
			}
			cases.Add(fmt.Sprintf("TxCase (%s) %s true %s %s", ctorCoq, vh.CoqList(tt), vh.CoqList(opc), vh.CoqList(outs)), replay)
		}
	})
	if p {
		replay["panic"] = pm
		rep.Violate("C16:panic", "a Tx constructor or accessor panicked", replay)
	}
}

func main() {
	cfg = vh.ParseFlags("C16")
	rep = vh.NewReport(cfg)
	rep.Rule = "blocks with 0..40 generated transactions (with and without CashToken data) x {NewBlock, NewBlockFromBytes, NewBlockFromReader, NewBlockFromBlockAndBytes} x bytes with/without trailing data x random accessor histories (indices in range, negative, >= len, extreme); truncated/corrupted bytes for the failing constructors; stand-alone Tx wrappers likewise; a history is non-trivial when the constructor succeeds and it has >= 2 calls; distinct by constructor, bytes and history"
	cases = vh.NewCases(cfg, "Run.Run_C16", 60)
	rng := vh.NewRNG(cfg.Seed)
	ctors := []string{"new", "bytes", "reader", "blockandbytes"}

	mkHistory := func(r *vh.RNG, ctor string, m *wire.MsgBlock, nops int) history {
		h := history{Ctor: ctor, Msg: m, Ops: genOps(r, len(m.Transactions), nops)}
		ser := serBlock(m)
		switch ctor {
		case "bytes", "reader":
			h.Trailing = vh.Pick(r, []int{0, 0, 1, 2, 7})
			h.Input = append(append([]byte(nil), ser...), r.Bytes(h.Trailing)...)
			if h.Trailing == 2 && r.Bool() {
				h.Input[len(ser)], h.Input[len(ser)+1] = 0xde, 0xad
			}
		case "blockandbytes":
			switch r.Intn(6) {
			case 0:
				h.Input = nil
			case 1:
				h.Input = []byte{}
			default:
				h.Input = append([]byte(nil), ser...)
			}
		}
		return h
	}

	// --- fixed edge histories (every constructor): the sparse cache in both orders, boundaries
	r := rng.Fork("fixed")
	for _, n := range []int{0, 1, 3} {
		for ci, ctor := range ctors {
			m := genBlock(r, n, n == 3)
			edge := [][]opSpec{
				{{"tx", int64(n - 1)}, {"txs", 0}, {"tx", int64(n - 1)}, {"txs", 0}, {"tx", 0}},
				{{"txs", 0}, {"tx", 0}, {"txhash", 0}, {"txhash", 0}, {"tx", int64(n)}, {"txhash", int64(n)}, {"tx", -1}, {"txhash", -1}},
				{{"txloc", 0}, {"bytes", 0}, {"hash", 0}, {"hash", 0}, {"bytes", 0}, {"height", 0}, {"setheight", 7}, {"height", 0}},
				{{"txhash", int64(n - 1)}, {"tx", int64(n - 1)}, {"txs", 0}, {"txhash", 0}, {"tx", math.MaxInt64}, {"tx", math.MinInt64}, {"txhash", 1 << 32}},
			}
			for _, ops := range edge {
				h := mkHistory(r, ctor, m, 0)
				h.Ops = ops
				runHistory(h, !cfg.Search)
				h.Ops = withProbes(r, ops, n)
				runHistory(h, false)
			}
			_ = ci
		}
	}
	// the same *wire.MsgTx twice in one message
	{
		m := genBlock(r, 2, false)
		m.Transactions = append(m.Transactions, m.Transactions[0])
		runHistory(history{Ctor: "new", Msg: m, Ops: []opSpec{{"tx", 2}, {"tx", 0}, {"txs", 0}, {"txhash", 2}, {"txhash", 0}, {"txloc", 0}}}, !cfg.Search)
	}
	// identical transactions, adjacent and apart, as the same object and as equal copies: every arrangement of
	// 2..4 transactions over a pool of two (locations must be told apart although the contents are equal)
	for n := 2; n <= 4; n++ {
		for mask := 0; mask < 1<<uint(n); mask++ {
			pool := genBlock(r, 2, n == 3).Transactions
			m := genBlock(r, 0, false)
			for i := 0; i < n; i++ {
				t := pool[(mask>>uint(i))&1]
				if (mask+i)%3 == 0 {
					t = t.Copy() // equal content, another object
				}
				m.AddTransaction(t)
			}
			rep.Histogram["duplicate_transactions_block"]++
			ctor := ctors[mask%4]
			h := mkHistory(r, ctor, m, 0)
			h.Ops = []opSpec{{"txloc", 0}, {"tx", int64(n - 1)}, {"txhash", 0}, {"txs", 0}, {"bytes", 0}, {"txloc", 0}, {"txhash", int64(n - 1)}}
			runHistory(h, !cfg.Search && n <= 3)
		}
	}
	// the constructor that trusts its caller, given bytes of another block (precondition violated:
	// recorded for the correspondence, excluded from the freshness monitors)
	for i := 0; i < 3; i++ {
		m := genBlock(r, 2, false)
		other := serBlock(genBlock(r, 1+i, false))
		if i == 2 {
			other = []byte{1, 2, 3}
		}
		runHistory(history{Ctor: "blockandbytes", Msg: m, Input: other, Ops: []opSpec{{"bytes", 0}, {"txloc", 0}, {"tx", 1}, {"hash", 0}, {"txhash", 0}}}, !cfg.Search)
	}

	// --- random histories
	r = rng.Fork("random")
	nh := cfg.Scale(1500, 30000)
	if cfg.Search {
		nh = 40000
	}
	ncorr := 0
	maxCorr := cfg.Scale(230, 1500)
	for i := 0; i < nh; i++ {
		n := vh.Pick(r, []int{0, 1, 1, 2, 2, 3, 4, 5, 8})
		if i%20 == 0 {
			n = 9 + r.Intn(32)
		}
		m := genBlock(r, n, i%2 == 0)
		ctor := ctors[i%4]
		nops := 1 + r.Intn(12)
		if i%15 == 0 {
			nops = 20 + r.Intn(20)
		}
		h := mkHistory(r, ctor, m, nops)
		corr := !cfg.Search && ncorr < maxCorr && n <= 5 && nops <= 12 && i%3 != 2
		if corr {
			ncorr++
		}
		runHistory(h, corr)
		if i%4 == 1 {
			h.Ops = withProbes(r, h.Ops, n)
			runHistory(h, !cfg.Search && i%40 == 1 && n <= 4 && len(h.Ops) <= 24)
		}
	}

	// --- the transaction-count varint: 0xfc | 0xfd boundary (and 0xffff | 0x10000 in the wider tiers)
	r = rng.Fork("varint")
	counts := []int{252, 253, 254, 300}
	if cfg.Thorough() || cfg.Search {
		counts = append(counts, 65535, 65536, 65537) // 65537: the last index (65536) no longer fits 16 bits
	}
	for _, n := range counts {
		m := genBlock(r, 0, false)
		for i := 0; i < n; i++ {
			t := wire.NewMsgTx(1)
			var hsh chainhash.Hash
			copy(hsh[:], r.Bytes(32))
			t.AddTxIn(wire.NewTxIn(wire.NewOutPoint(&hsh, uint32(i)), nil))
			if n < 1000 && i%3 == 0 {
				t.AddTxOut(wire.NewTxOut(int64(i), r.Bytes(r.Intn(4)), wire.TokenData{}))
			}
			m.AddTransaction(t)
		}
		for _, ctor := range ctors {
			if n > 1000 && ctor != "new" && ctor != "bytes" {
				continue
			}
			h := mkHistory(r, ctor, m, 0)
			h.Ops = []opSpec{{"txloc", 0}, {"tx", int64(n - 1)}, {"txhash", int64(n - 1)}, {"tx", int64(n)}, {"bytes", 0}, {"txloc", 0}, {"txhash", 252}, {"tx", 253}}
			if n < 1000 {
				h.Ops = append(h.Ops, opSpec{"txs", 0}, opSpec{"tx", -1}, opSpec{"txloc", 0})
			}
			runHistory(h, false)
		}
	}

	// --- the count and length varints INSIDE transactions: scripts of 252 | 253 | 254 .. 65535 | 65536 bytes,
	// 253 inputs / outputs (the ordinary generator stays below 6 bytes and 3 entries)
	r = rng.Fork("bigfields")
	lens := []int{252, 253, 254, 255, 256, 1000}
	if cfg.Thorough() || cfg.Search {
		lens = append(lens, 65535, 65536)
	}
	for _, L := range lens {
		for variant := 0; variant < 4; variant++ {
			m := genBlock(r, 1+r.Intn(2), false)
			t := wire.NewMsgTx(1)
			var hsh chainhash.Hash
			copy(hsh[:], r.Bytes(32))
			nin, nout := 1, 1
			sigLen, pkLen := r.Intn(3), r.Intn(3)
			switch variant {
			case 0:
				sigLen = L
			case 1:
				pkLen = L
			case 2:
				if L > 1000 {
					continue
				}
				nin = L
			case 3:
				if L > 1000 {
					continue
				}
				nout = L
			}
			for i := 0; i < nin; i++ {
				t.AddTxIn(wire.NewTxIn(wire.NewOutPoint(&hsh, uint32(i)), r.Bytes(sigLen)))
			}
			for i := 0; i < nout; i++ {
				pk := r.Bytes(pkLen)
				if len(pk) > 0 && pk[0] == wire.PREFIX_BYTE {
					pk[0] = 0x76
				}
				t.AddTxOut(wire.NewTxOut(int64(i), pk, wire.TokenData{}))
			}
			pos := r.Intn(len(m.Transactions) + 1)
			m.Transactions = append(m.Transactions[:pos], append([]*wire.MsgTx{t}, m.Transactions[pos:]...)...)
			n := len(m.Transactions)
			rep.Histogram[fmt.Sprintf("bigfield_%s", []string{"sigscript", "pkscript", "inputs", "outputs"}[variant])]++
			for _, ctor := range ctors {
				h := mkHistory(r, ctor, m, 0)
				h.Ops = []opSpec{{"txloc", 0}, {"txhash", int64(pos)}, {"bytes", 0}, {"txs", 0}, {"txloc", 0}, {"tx", int64(n)}, {"hash", 0}}
				runHistory(h, false)
			}
			ser := serTx(t)
			runTxHistory("bytes", t, append(append([]byte(nil), ser...), 1, 2), 2, []topSpec{{"hash", 0}, {"index", 0}, {"hash", 0}}, false)
		}
	}

	// --- token-carrying outputs whose script length L is below a varint boundary while prefix + L is not
	// (the length varint covers the token prefix AND the script): every L with L <= 252 < L + prefix for three
	// prefix sizes, and the 65535 boundary in the wider tiers.  TxLoc() comes first in the history (no bytes cached).
	r = rng.Fork("tokenlen")
	type tokShape struct {
		name   string
		amount *uint64
		commit int
	}
	u := func(v uint64) *uint64 { return &v }
	shapes := []tokShape{{"ft1", u(5), 0}, {"ft3", u(300), 0}, {"nft40ft9", u(1 << 40), 40}, {"nft1", nil, 1}}
	var Ls []int
	for L := 160; L <= 256; L++ {
		Ls = append(Ls, L)
	}
	if cfg.Thorough() || cfg.Search {
		for L := 65535 - 90; L <= 65537; L++ {
			Ls = append(Ls, L)
		}
	}
	for li, L := range Ls {
		for si, sh := range shapes {
			if L > 1000 && (li+si)%4 != 0 {
				continue
			}
			var cat [32]byte
			copy(cat[:], r.Bytes(32))
			cat[0] |= 1
			var commitment *[]byte
			var capab *byte
			if sh.commit > 0 {
				c := r.Bytes(sh.commit)
				commitment = &c
				k := byte(r.Intn(3))
				capab = &k
			}
			td, err := wire.NewTokenData(cat, sh.amount, commitment, capab)
			vh.Must(err)
			pk := r.Bytes(L)
			pk[0] = 0x76
			m := genBlock(r, 1+r.Intn(2), true)
			pos := r.Intn(len(m.Transactions))
			m.Transactions[pos].AddTxOut(wire.NewTxOut(int64(L), pk, *td))
			n := len(m.Transactions)
			rep.Histogram["tokenlen_"+sh.name]++
			for _, ctor := range ctors {
				h := mkHistory(r, ctor, m, 0)
				h.Ops = []opSpec{{"txloc", 0}, {"txloc", 0}, {"bytes", 0}, {"txloc", 0}, {"txhash", int64(pos)}, {"tx", int64(n)}}
				runHistory(h, false)
			}
		}
	}

	// --- large blocks with a SPARSE wrapper cache before the first Transactions(): whatever Tx()/TxHash()
	// allocated for the few indices asked for, Transactions() must return every transaction
	r = rng.Fork("sparsebig")
	bigN := []int{257, 1025, 2500}
	if cfg.Thorough() || cfg.Search {
		bigN = append(bigN, 4097, 20000, 70000)
	}
	for _, n := range bigN {
		m := genBlock(r, 0, false)
		for i := 0; i < n; i++ {
			t := wire.NewMsgTx(1)
			var hsh chainhash.Hash
			copy(hsh[:], r.Bytes(32))
			t.AddTxIn(wire.NewTxIn(wire.NewOutPoint(&hsh, uint32(i)), nil))
			m.AddTransaction(t)
		}
		rep.Histogram["sparse_big_block"]++
		firsts := [][]opSpec{
			{{"tx", 0}},
			{{"txhash", 1}, {"tx", 3}},
			{{"tx", int64(n / 2)}},
			{{"tx", int64(n - 1)}},
			{{"txhash", 255}, {"tx", 256}},
			{{"tx", 1023}, {"txhash", 0}},
			{{"tx", 1024}},
		}
		for fi, first := range firsts {
			ok := true
			for _, o := range first {
				ok = ok && o.Arg < int64(n)
			}
			if !ok || (n > 5000 && fi > 2) {
				continue
			}
			ctor := ctors[fi%4]
			h := mkHistory(r, ctor, m, 0)
			h.Ops = append(append([]opSpec{}, first...), opSpec{"txs", 0}, opSpec{"tx", int64(n - 1)}, opSpec{"txhash", int64(n / 3)}, opSpec{"txs", 0}, opSpec{"tx", int64(n)})
			runHistory(h, false)
		}
	}

	// --- output scripts that start with the CashToken prefix byte (see tokenPrefixScript)
	r = rng.Fork("tokenprefix")
	np := cfg.Scale(210, 4000)
	if cfg.Search {
		np = 8000
	}
	ncorrP := 0
	for i := 0; i < np; i++ {
		kind := i % 7
		n := 1 + r.Intn(3)
		m := genBlock(r, n, i%2 == 0)
		pos := r.Intn(n)
		m.Transactions[pos].AddTxOut(tokenPrefixScript(r, kind))
		if r.Intn(4) == 0 {
			m.Transactions[r.Intn(n)].AddTxOut(tokenPrefixScript(r, r.Intn(7)))
		}
		rep.Histogram[fmt.Sprintf("tokenprefix_kind_%d", kind)]++
		ctor := ctors[(i/7)%4]
		h := mkHistory(r, ctor, m, 2+r.Intn(8))
		h.Ops = append(h.Ops, opSpec{"bytes", 0}, opSpec{"txloc", 0}, opSpec{"txhash", int64(pos)})
		corr := !cfg.Search && ncorrP < 56 && len(serBlock(m)) < 700
		if corr {
			ncorrP++
		}
		runHistory(h, corr)
		if i%5 == 0 {
			t := m.Transactions[pos]
			ser := serTx(t)
			tc := []string{"new", "bytes", "reader"}[(i/5)%3]
			var in []byte
			if tc != "new" {
				in = append([]byte(nil), ser...)
			}
			runTxHistory(tc, t, in, 0, []topSpec{{"hash", 0}, {"msgtx", 0}, {"index", 0}, {"hash", 0}}, !cfg.Search && i < 70)
		}
	}

	// --- bytes wire must reject / bytes that are altered: constructors from bytes and readers
	r = rng.Fork("malformed")
	nm := cfg.Scale(300, 6000)
	if cfg.Search {
		nm = 60000
	}
	for i := 0; i < nm; i++ {
		m := genBlock(r, r.Intn(4), i%2 == 0)
		ser := serBlock(m)
		in := append([]byte(nil), ser...)
		switch i % 3 {
		case 0: // truncated
			in = in[:r.Intn(len(in))]
		case 1: // one byte altered (may still parse: then everything must agree with the parsed message)
			in[r.Intn(len(in))] ^= byte(1 << uint(r.Intn(8)))
		case 2: // altered in the transaction area and extended
			if len(in) > 81 {
				in[80+r.Intn(len(in)-80)] = vh.Pick(r, []byte{0xef, 0xfd, 0xff, 0x00, 0x40, 0x10})
			}
			in = append(in, r.Bytes(r.Intn(3))...)
		}
		ctor := vh.Pick(r, []string{"bytes", "reader"})
		// how much would wire leave unread?
		var pm wire.MsgBlock
		rd := bytes.NewReader(in)
		trailing := 0
		nops := 0
		if pm.Deserialize(rd) == nil {
			trailing = rd.Len()
			nops = len(pm.Transactions)
		}
		h := history{Ctor: ctor, Input: in, Trailing: trailing, Ops: genOps(r, nops, 6)}
		if trailing > 0 || nops > 0 {
			rep.Histogram["altered_bytes_still_accepted"]++
		}
		runHistory(h, !cfg.Search && i%6 == 0 && i < 360)
	}

	// --- stand-alone Tx wrappers
	r = rng.Fork("tx")
	nt := cfg.Scale(300, 5000)
	for i := 0; i < nt; i++ {
		msg := genTx(r, i%2 == 0)
		ctor := []string{"new", "bytes", "reader"}[i%3]
		ser := serTx(msg)
		trailing := vh.Pick(r, []int{0, 0, 1, 5})
		in := append(append([]byte(nil), ser...), r.Bytes(trailing)...)
		if i%10 == 9 {
			in = in[:r.Intn(len(ser))]
			trailing = 0
		}
		if ctor == "new" {
			in = nil
		}
		ops := make([]topSpec, 1+r.Intn(8))
		for k := range ops {
			switch r.Intn(5) {
			case 0, 1:
				ops[k] = topSpec{"hash", 0}
			case 2:
				ops[k] = topSpec{"index", 0}
			case 3:
				ops[k] = topSpec{"setindex", int64(r.Intn(10)) - 2}
			default:
				ops[k] = topSpec{"msgtx", 0}
			}
		}
		runTxHistory(ctor, msg, in, trailing, ops, !cfg.Search && i < 70)
	}

	errorPathFamily(rng.Fork("errorpaths"), mkHistory)

	rep.Cases = cases.Len()
	rep.Extra["duplicate_cases_dropped"] = cases.Dups
	_, err := cases.Flush()
	vh.Must(err)
	vh.Must(rep.Write(cfg))
	fmt.Printf("c16: %d implementation executions, %d correspondence cases, %d monitor violations\n", rep.Evaluations, rep.Cases, len(rep.Violations))
}

// ---------- error paths (round 3) ----------
// Out-of-range accesses are calls like any other: they must fail with an OutOfRangeError, must not
// panic and must leave NOTHING behind.  The earlier generators probed a fixed handful of indices
// (-1, n, n+1, MinInt64 ...) and looked at whatever the random history happened to call next.
//
//  1. index sweep: every block shape x constructor is probed, through Tx AND TxHash, with ALL of
//     -3..n+3, +-(2^e - 1, 2^e, 2^e + 1) for e <= 62, random 31/32/33/63-bit values, decimal-looking
//     numbers (123456789, 1234567891, 4294967295 + k ...), repdigits, hexspeak and every number that
//     occurs as a literal in the source of the package as it is now (srclits), in chunks; after each
//     chunk the WHOLE block is observed again (Transactions, every Tx(i) and TxHash(i), Hash, Bytes,
//     TxLoc, Height) by the ordinary monitors against fresh computations - on a block where nothing was
//     cached before the failing calls ("cold") and on one where everything was ("warm");
//  2. header sweep: what the error path sees of the block is its header: versions (1..4, the
//     version-bits values 0x20000000.., negative), nonces and bits (hexspeak, all-ones, dictionary) in
//     a cross product, each followed by a few failing calls and the full re-observation.
//
// A guard on one particular index or header value can only be met if that value is in the sweep:
// memorable numbers and literals of the source are; an arbitrary 32-bit constant computed at run
// time (or assembled from pieces) is not, and no input-output generator can promise it.
func errorPathFamily(r *vh.RNG, mkHistory func(*vh.RNG, string, *wire.MsgBlock, int) history) {
	dict := srclits.Harvest(false, srclits.RepoDir())
	rep.Extra["dictionary"] = map[string]interface{}{"files": dict.Files, "source_literals": len(dict.Raw)}
	wide := cfg.Thorough() || cfg.Search
	ctors := []string{"new", "bytes", "reader", "blockandbytes"}
	observe := func(n int) []opSpec {
		ops := []opSpec{{"txs", 0}, {"hash", 0}, {"bytes", 0}, {"txloc", 0}, {"height", 0}}
		for i := 0; i < n; i++ {
			ops = append(ops, opSpec{"tx", int64(i)}, opSpec{"txhash", int64(i)})
		}
		return append(ops, opSpec{"txs", 0})
	}
	sweep := func(n int) []int64 {
		var xs []int64
		for i := int64(-3); i <= int64(n)+3; i++ {
			xs = append(xs, i)
		}
		for e := uint(1); e <= 62; e++ {
			for d := int64(-1); d <= 1; d++ {
				xs = append(xs, int64(1)<<e+d, -(int64(1)<<e + d), int64(n)+int64(1)<<e+d)
			}
		}
		xs = append(xs, math.MaxInt64, math.MinInt64, math.MaxInt64-1, math.MinInt64+1, math.MaxInt32, math.MinInt32, math.MaxUint32)
		for k := int64(-2); k <= 3; k++ {
			xs = append(xs, 4294967295+k+int64(n), 2147483647+k+int64(n), 123456789+k, 1234567891+k-1, 1234567890*10+k)
		}
		for i := 0; i < 24; i++ {
			xs = append(xs, int64(r.U64()>>33), int64(r.U64()>>32), int64(r.U64()>>31), int64(r.U64()>>1), -int64(r.U64()>>1), int64(int32(r.U32())))
		}
		xs = append(xs, dict.Numbers(0)...)
		return xs
	}
	// 1. index sweep
	for bi, n := range []int{0, 1, 2, 3, 5} {
		for ci, ctor := range ctors {
			if !wide && n == 5 && ci%2 == 1 {
				continue
			}
			m := genBlock(r, n, (bi+ci)%2 == 0)
			xs := sweep(n)
			const chunk = 12
			for lo := 0; lo < len(xs); lo += chunk {
				hi := lo + chunk
				if hi > len(xs) {
					hi = len(xs)
				}
				var probes []opSpec
				for j, x := range xs[lo:hi] {
					kinds := []string{"tx", "txhash"}
					probes = append(probes, opSpec{kinds[(j+lo/chunk)%2], x})
					if j%3 == 0 {
						probes = append(probes, opSpec{kinds[(j+lo/chunk+1)%2], x})
					}
				}
				cold := mkHistory(r, ctor, m, 0)
				cold.Ops = append(append([]opSpec{}, probes...), observe(n)...)
				runHistory(cold, false)
				prodAdd(cold)
				rep.Histogram["errorpath_index_sweep_cold"]++
				if (lo/chunk)%2 == 0 || wide {
					warm := mkHistory(r, ctor, m, 0)
					warm.Ops = append(append(observe(n), probes...), observe(n)...)
					runHistory(warm, false)
					prodAdd(warm)
					rep.Histogram["errorpath_index_sweep_warm"]++
				}
			}
		}
	}
	// 2. header sweep
	versions := []int64{0, 1, 2, 3, 4, 0x20000000, 0x20000001, 0x20000002, 0x20000004, 0x3fffffff, 0x7fffffff, -1, math.MinInt32, 0x30000000, 0x20000010, 0x00000020}
	nonces := []int64{0, 1, 0xffffffff, 0xffff, 0x10000, 0x80000000, 0x7fffffff}
	bitss := []int64{0x1d00ffff, 0x207fffff, 0x1b0404cb, 0, 0xffffffff}
	for _, v := range srclits.Memorable() {
		if v <= math.MaxUint32 && (v > 0xffff || v >= 0x1000 && v&0xf00 >= 0xa00) { // hexspeak, digit runs, big powers of two
			nonces = append(nonces, v)
		}
	}
	src := dict.Raw
	if wide {
		src = dict.Ints
	}
	for _, v := range src {
		if v >= math.MinInt32 && v <= math.MaxInt32 && (v > 255 || v < 0) {
			versions = append(versions, v)
		}
		if v >= 0 && v <= math.MaxUint32 && v > 255 {
			nonces = append(nonces, v)
			nonces = append(nonces, v|0xabcd0000, v<<16&0xffffffff|0x1234) // the literal in the low / high half only
		}
	}
	dedup := func(xs []int64) []int64 {
		seen := map[int64]bool{}
		var out []int64
		for _, x := range xs {
			if !seen[x] {
				seen[x] = true
				out = append(out, x)
			}
		}
		return out
	}
	versions, nonces = dedup(versions), dedup(nonces)
	rep.Extra["errorpath_header_sweep"] = map[string]interface{}{"versions": len(versions), "nonces": len(nonces)}
	k := 0
	for _, v := range versions {
		for _, nc := range nonces {
			k++
			n := []int{1, 2, 0, 3}[k%4]
			m := genBlock(r, n, false)
			m.Header.Version = int32(v)
			m.Header.Nonce = uint32(nc)
			m.Header.Bits = uint32(bitss[k%len(bitss)])
			ctor := ctors[(k/4)%4]
			bad := []int64{int64(n), -1, int64(n) + 1, math.MaxInt64, math.MinInt64, 1 << 32}
			h := mkHistory(r, ctor, m, 0)
			h.Ops = append([]opSpec{{[]string{"tx", "txhash"}[k%2], bad[k%len(bad)]}, {[]string{"txhash", "tx"}[k%2], bad[(k+1)%len(bad)]}}, observe(n)...)
			if k%3 == 0 { // something cached before the failing call
				h.Ops = append([]opSpec{{"hash", 0}, {"tx", int64(n - 1)}}, h.Ops...)
			}
			runHistory(h, false)
			prodAdd(h)
			rep.Histogram["errorpath_header_sweep"]++
		}
	}
	runProd()
}

// ---------- the build that ships ----------
// The histories of the family above are also given to harness/cmd/c16/prod, a child built at run
// time WITHOUT -tags verif in a scratch module (harness/cmd/c17/prodrun): this harness is built with
// the tag, so files selected by `//go:build !verif` are invisible to it.  (NewBlockFromReader
// histories go as NewBlockFromBytes, NewBlockFromBlockAndBytes ones as NewBlock; blocks that package
// wire itself does not read back as written - the known finding - are left out.)
type prodOp struct {
	Kind string `json:"k"`
	Arg  int64  `json:"a"`
}
type prodHist struct {
	Ctor  string   `json:"constructor"`
	Block string   `json:"block_serialized"`
	Ops   []prodOp `json:"ops"`
}

var prodHists []prodHist

func prodAdd(h history) {
	if h.Msg == nil {
		return
	}
	ser := serBlock(h.Msg)
	if !wireCanonical(ser) {
		return
	}
	ph := prodHist{Ctor: "new", Block: vh.Hex(ser)}
	if h.Ctor == "bytes" || h.Ctor == "reader" {
		ph.Ctor = "bytes"
	}
	for _, o := range h.Ops {
		ph.Ops = append(ph.Ops, prodOp{o.Kind, o.Arg})
	}
	prodHists = append(prodHists, ph)
}

func runProd() {
	stdin, _ := json.Marshal(prodHists)
	o, err := prodrun.Run(cfg.Out, "c16", "cmd/c16/prod", stdin)
	if err != nil {
		rep.Extra["production_build"] = "NOT RUN: " + err.Error()
		rep.Histogram["production_build/not_run"]++
		return
	}
	rep.Extra["production_build"] = map[string]interface{}{"main_module": o.MainPath, "build_tags": o.Tags, "executions": o.Executions, "build_seconds": o.BuildSecs, "run_seconds": o.RunSecs}
	rep.Evaluations += o.Executions
	for k, v := range o.Histogram {
		rep.Histogram["production_build/"+k] += v
	}
	for _, v := range o.Violations {
		rep.Violate(v.Key, v.What+" [build without -tags verif]", v.Replay)
	}
}

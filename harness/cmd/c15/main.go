// Command c15 runs histories of operations over a pool of hdkeychain.ExtendedKey values and checks
// that keys are independent values and that Zero really erases:
//
//   - monitor C15:independence — after every step every live key of the pool is compared with (a) an
//     independent shadow (a deep copy taken when the key was created, advanced only by the key's own
//     SetNet) and (b) the pure value computed from the key's own derivation by a small reference
//     implementation (mirror): String, IsPrivate, Depth, ParentFingerprint, ECPubKey bytes, Address,
//     probe child derivations; and every operation's result is compared with the mirror's;
//   - monitor C15:zero — the slices a key held (through the hook VerifBuffers, taken before Zero) are
//     all-zero after Zero, the key says "zeroed extended key", gives no private key, fields are reset;
//   - correspondence: the same histories are written as Coq cases for HDHeap/HDHeap.v (outcomes and
//     the String/IsPrivate observation of every key after every step), with the primitive calls the
//     model will make (HMAC-SHA512, secp256k1, HASH160) as an oracle table.
//
// A violating history is shrunk (greedy deletion of operations) before it is reported as the replay.
package main

import (
	"bytes"
	"crypto/hmac"
	"crypto/sha256"
	"crypto/sha512"
	"encoding/binary"
	"encoding/hex"
	"encoding/json"
	"fmt"
	"math/big"
	"os"
	"strings"

	"github.com/gcash/bchd/bchec"
	"github.com/gcash/bchd/chaincfg"
	"github.com/gcash/bchutil"
	"github.com/gcash/bchutil/hdkeychain"

	"verif/harness/cmd/c04/hdref"
	"verif/harness/internal/vh"
)

var cfg vh.Config
var rep *vh.Report
var cases *vh.Cases

// order = Gen/Nets.v all_nets
var nets = []*chaincfg.Params{&chaincfg.MainNetParams, &chaincfg.TestNet3Params, &chaincfg.TestNet4Params,
	&chaincfg.ChipNetParams, &chaincfg.RegressionNetParams, &chaincfg.SimNetParams}
var netNames = []string{"mainnet", "testnet3", "testnet4", "chipnet", "regtest", "simnet"}

const zeroedStr = "zeroed extended key"

// the version identifiers as they were at start-up (deep copies): the reference must not depend on
// package-level state the code under test could write through
type netIDs struct{ priv, pub [4]byte }

var savedIDs []netIDs

// saveGlobals: the reference identifiers are the CONSTANTS of bchd's chaincfg/params.go (hdref.KnownHDVersions), not
// what the linked package holds once every init function of the repository under test has run (round 3): a difference at
// start-up is reported, then repaired by globalsIntact so that the histories themselves are judged on their own.
func saveGlobals() {
	for i := range nets {
		savedIDs = append(savedIDs, netIDs{hdref.KnownHDVersions[i].Priv, hdref.KnownHDVersions[i].Pub})
	}
}

func checkGlobalsAtStart() {
	for i, n := range nets {
		v, err := chaincfg.HDPrivateKeyToPublicKeyID(savedIDs[i].priv[:])
		rep.Count("globals_at_start", netNames[i], true)
		if n.HDPrivateKeyID != savedIDs[i].priv || n.HDPublicKeyID != savedIDs[i].pub || err != nil || !bytes.Equal(v, savedIDs[i].pub[:]) {
			rep.Violate("C15:globals_at_start", "with the repository's packages linked, chaincfg's HD version identifiers of a registered network are not the ones chaincfg declares (an init function or package-level initialiser of the repository wrote them)",
				map[string]interface{}{"network": netNames[i], "linked_private_id": vh.Hex(n.HDPrivateKeyID[:]), "linked_public_id": vh.Hex(n.HDPublicKeyID[:]),
					"declared_private_id": vh.Hex(savedIDs[i].priv[:]), "declared_public_id": vh.Hex(savedIDs[i].pub[:]), "HDPrivateKeyToPublicKeyID(declared_private_id)": fmt.Sprintf("%x %v", v, err)})
		}
	}
	globalsIntact() // repair
}

// refPrivToPub is chaincfg.HDPrivateKeyToPublicKeyID on the saved table
func refPrivToPub(v []byte) ([]byte, bool) {
	for _, id := range savedIDs {
		if bytes.Equal(v, id.priv[:]) {
			return clone(id.pub[:]), true
		}
	}
	return nil, false
}

// globalsIntact checks (and repairs, so later histories are not confused) chaincfg's package-level
// version arrays and the values of its private->public map, which keys reference but must never write.
func globalsIntact() (string, bool) {
	bad := ""
	for i, n := range nets {
		if n.HDPrivateKeyID != savedIDs[i].priv || n.HDPublicKeyID != savedIDs[i].pub {
			bad = fmt.Sprintf("chaincfg %s HDPrivateKeyID/HDPublicKeyID = %x/%x, were %x/%x", netNames[i], n.HDPrivateKeyID, n.HDPublicKeyID, savedIDs[i].priv, savedIDs[i].pub)
			n.HDPrivateKeyID, n.HDPublicKeyID = savedIDs[i].priv, savedIDs[i].pub
		}
		if v, err := chaincfg.HDPrivateKeyToPublicKeyID(savedIDs[i].priv[:]); err == nil && !bytes.Equal(v, savedIDs[i].pub[:]) {
			bad = fmt.Sprintf("chaincfg.HDPrivateKeyToPublicKeyID(%x) = %x, was %x", savedIDs[i].priv, v, savedIDs[i].pub)
			copy(v, savedIDs[i].pub[:])
		}
	}
	return bad, bad == ""
}

// b58dec / b58enc: the harness's OWN Base58 (hdref, written from the definition).  Until round 3 the mirror and the
// observations used the repository's base58 package, so that (a) a wrong Encode agreed with itself and (b) the harness's
// own Decode calls stood between a parse and the next one (a decoder that keeps state across calls was never observed in
// the state the caller's history alone produces).  b58dec returns nil for a string with a character outside the alphabet,
// like the empty result of the repository's decoder.
func b58dec(s string) []byte {
	d, ok := hdref.B58Decode(s)
	if !ok {
		return nil
	}
	return d
}
func b58enc(b []byte) string { return hdref.B58Encode(b) }

func sha256d(b []byte) []byte {
	h := sha256.Sum256(b)
	h2 := sha256.Sum256(h[:])
	return h2[:]
}
func clone(b []byte) []byte { return append([]byte{}, b...) }

// ---------- oracle: the primitive calls, logged with their full arguments ----------
type oracle struct {
	seen  map[string]bool
	lines []string
}

func newOracle() *oracle { return &oracle{seen: map[string]bool{}} }
func (o *oracle) log(tag int, a, b []byte, status int, out []byte) {
	if o == nil {
		return
	}
	k := fmt.Sprintf("%d|%x|%x", tag, a, b)
	if o.seen[k] {
		return
	}
	o.seen[k] = true
	o.lines = append(o.lines, fmt.Sprintf("((%d, %s, %s), (%d, %s))", tag, vh.CoqBytes(a), vh.CoqBytes(b), status, vh.CoqBytes(out)))
}

var curveN = bchec.S256().N

type prims struct{ o *oracle }

func (p prims) hmac512(key, data []byte) []byte {
	h := hmac.New(sha512.New, key)
	h.Write(data)
	out := h.Sum(nil)
	p.o.log(1, key, data, 0, out)
	return out
}
func (p prims) scalarOK(b []byte) bool {
	n := new(big.Int).SetBytes(b)
	ok := n.Sign() != 0 && n.Cmp(curveN) < 0
	st := 0
	if ok {
		st = 1
	}
	p.o.log(2, b, nil, st, nil)
	return ok
}
func compress(x, y *big.Int) []byte {
	out := make([]byte, 33)
	out[0] = 2 + byte(y.Bit(0))
	xb := x.Bytes()
	copy(out[33-len(xb):], xb)
	return out
}
func (p prims) pubOfPriv(k []byte) []byte {
	x, y := bchec.S256().ScalarBaseMult(k)
	out := compress(x, y)
	p.o.log(3, k, nil, 0, out)
	return out
}
func (p prims) privAdd(il, k []byte) []byte {
	n := new(big.Int).Add(new(big.Int).SetBytes(il), new(big.Int).SetBytes(k))
	n.Mod(n, curveN)
	b := n.Bytes()
	out := append(make([]byte, 32-len(b)), b...)
	p.o.log(4, il, k, 0, out)
	return out
}
func (p prims) pubAdd(il, K []byte) ([]byte, int) {
	ilx, ily := bchec.S256().ScalarBaseMult(il)
	if ilx.Sign() == 0 || ily.Sign() == 0 {
		p.o.log(5, il, K, 3, nil)
		return nil, 3
	}
	pk, err := bchec.ParsePubKey(K, bchec.S256())
	if err != nil {
		p.o.log(5, il, K, 4, nil)
		return nil, 4
	}
	x, y := bchec.S256().Add(ilx, ily, pk.X, pk.Y)
	out := compress(x, y)
	p.o.log(5, il, K, 0, out)
	return out, 0
}
func (p prims) hash160(b []byte) []byte {
	out := bchutil.Hash160(b) // RIPEMD160(SHA256(b)): a dependency for this property
	p.o.log(6, b, nil, 0, out)
	return out
}
func (p prims) parsePub(b []byte) ([]byte, int) {
	pk, err := bchec.ParsePubKey(b, bchec.S256())
	if err != nil {
		p.o.log(7, b, nil, 4, nil)
		return nil, 4
	}
	out := pk.SerializeCompressed()
	p.o.log(7, b, nil, 0, out)
	return out, 0
}

// ---------- mirror: the pure value of a key, computed from its own derivation only ----------
type pure struct {
	ver, key, cc, fp []byte
	depth            uint8
	num              uint32
	priv             bool
	il               []byte // for a key made by Child: Il of its derivation (a slice of the mirror's own 64-byte HMAC output)
	parsed           bool   // made by NewKeyFromString: the four field slices are ranges of one decoded payload
}

func (p prims) pub(k *pure) []byte {
	if k.priv {
		return p.pubOfPriv(k.key)
	}
	return k.key
}
func (p prims) master(seed []byte, net int) (*pure, int) {
	if len(seed) < 16 || len(seed) > 64 {
		return nil, 1
	}
	lr := p.hmac512([]byte("Bitcoin seed"), seed)
	if !p.scalarOK(lr[:32]) {
		return nil, 2
	}
	return &pure{ver: clone(savedIDs[net].priv[:]), key: lr[:32], cc: lr[32:], fp: []byte{0, 0, 0, 0}, priv: true}, 0
}
func (p prims) fromString(dec []byte) (*pure, int) {
	if len(dec) != 82 {
		return nil, 1
	}
	if !bytes.Equal(sha256d(dec[:78])[:4], dec[78:]) {
		return nil, 2
	}
	k := &pure{ver: dec[0:4], depth: dec[4], fp: dec[5:9], num: binary.BigEndian.Uint32(dec[9:13]), cc: dec[13:45], parsed: true}
	if dec[45] == 0 {
		k.priv = true
		k.key = dec[46:78]
		if !p.scalarOK(k.key) {
			return nil, 3
		}
	} else {
		k.key = dec[45:78]
		if _, e := p.parsePub(k.key); e != 0 {
			return nil, 4
		}
	}
	return k, 0
}
func childData(hard bool, keyish []byte, i uint32) []byte {
	data := make([]byte, 37)
	if hard {
		copy(data[1:], keyish)
	} else {
		copy(data, keyish)
	}
	binary.BigEndian.PutUint32(data[33:], i)
	return data
}
func (p prims) child(k *pure, i uint32) (*pure, int) {
	if k.depth == 255 {
		return nil, 1
	}
	hard := i >= hdkeychain.HardenedKeyStart
	if !k.priv && hard {
		return nil, 2
	}
	keyish := k.key
	if !hard {
		keyish = p.pub(k)
	}
	ilr := p.hmac512(k.cc, childData(hard, keyish, i))
	il := ilr[:32]
	if !p.scalarOK(il) {
		return nil, 3
	}
	var ck []byte
	if k.priv {
		ck = p.privAdd(il, k.key)
	} else {
		var e int
		if ck, e = p.pubAdd(il, k.key); e != 0 {
			return nil, e
		}
	}
	fp := p.hash160(p.pub(k))[:4]
	return &pure{ver: k.ver, key: ck, cc: ilr[32:], fp: fp, depth: k.depth + 1, num: i, priv: k.priv, il: il}, 0
}
func (p prims) neuter(k *pure) (*pure, int) {
	v, ok := refPrivToPub(k.ver)
	if !ok {
		return nil, 5
	}
	return &pure{ver: v, key: p.pubOfPriv(k.key), cc: k.cc, fp: k.fp, depth: k.depth, num: k.num, priv: false}, 0
}
func (k *pure) payload() []byte {
	var b []byte
	b = append(b, k.ver...)
	b = append(b, k.depth)
	b = append(b, k.fp...)
	var n [4]byte
	binary.BigEndian.PutUint32(n[:], k.num)
	b = append(b, n[:]...)
	b = append(b, k.cc...)
	if k.priv {
		b = append(b, 0)
		for i := 0; i < 32-len(k.key); i++ {
			b = append(b, 0)
		}
	}
	b = append(b, k.key...)
	return b
}
func (k *pure) str() string {
	if len(k.key) == 0 {
		return zeroedStr
	}
	p := k.payload()
	return b58enc(append(p, sha256d(p)[:4]...))
}

// ---------- operations ----------
type opRec struct {
	Kind  string `json:"op"`
	K     int    `json:"k,omitempty"`
	I     uint32 `json:"i,omitempty"`
	Net   int    `json:"net,omitempty"`
	Seed  string `json:"seed,omitempty"`
	Str   string `json:"string,omitempty"`
	Ver   string `json:"ver,omitempty"`
	Key   string `json:"key,omitempty"`
	CC    string `json:"cc,omitempty"`
	FP    string `json:"fp,omitempty"`
	Depth uint8  `json:"depth,omitempty"`
	Num   uint32 `json:"num,omitempty"`
	Priv  bool   `json:"priv,omitempty"`
}

func unhex(s string) []byte { b, _ := hex.DecodeString(s); return b }

func (o opRec) text() string {
	switch o.Kind {
	case "NewMaster":
		return fmt.Sprintf("NewMaster(seed=%s, %s)", o.Seed, netNames[o.Net])
	case "FromString":
		return fmt.Sprintf("NewKeyFromString(%q)", o.Str)
	case "NewExt":
		return fmt.Sprintf("NewExtendedKey(ver=%s, key=%s, cc=%s, fp=%s, depth=%d, num=%d, priv=%v)", o.Ver, o.Key, o.CC, o.FP, o.Depth, o.Num, o.Priv)
	case "Child":
		return fmt.Sprintf("k%d.Child(%d)", o.K, o.I)
	case "SetNet":
		return fmt.Sprintf("k%d.SetNet(%s)", o.K, netNames[o.Net])
	default:
		return fmt.Sprintf("k%d.%s()", o.K, o.Kind)
	}
}
func (o opRec) coq() string {
	switch o.Kind {
	case "NewMaster":
		return fmt.Sprintf("NewMaster %s %d%%nat", vh.CoqBytes(unhex(o.Seed)), o.Net)
	case "FromString":
		return fmt.Sprintf("FromString %s", vh.CoqBytes(b58dec(o.Str)))
	case "NewExt":
		return fmt.Sprintf("NewExt %s %s %s %s %d %d %s", vh.CoqBytes(unhex(o.Ver)), vh.CoqBytes(unhex(o.Key)), vh.CoqBytes(unhex(o.CC)), vh.CoqBytes(unhex(o.FP)), o.Depth, o.Num, vh.CoqBool(o.Priv))
	case "Child":
		return fmt.Sprintf("Child %d%%nat %d", o.K, o.I)
	case "SetNet":
		return fmt.Sprintf("SetNet %d%%nat %d%%nat", o.K, o.Net)
	case "String":
		return fmt.Sprintf("StringOf %d%%nat", o.K)
	default: // Neuter Zero ECPubKey ECPrivKey Address
		return fmt.Sprintf("%s %d%%nat", o.Kind, o.K)
	}
}

// outcome of one operation, as the Coq type `outcome`
type outcome struct {
	kind string // Created Same Err Bytes Zeroed Done
	n    int
	b    []byte
}

func (o outcome) coq() string {
	switch o.kind {
	case "Created":
		return fmt.Sprintf("OCreated %d%%nat", o.n)
	case "Same":
		return fmt.Sprintf("OSame %d%%nat", o.n)
	case "Err":
		return fmt.Sprintf("OErr %d", o.n)
	case "Bytes":
		return "OBytes " + vh.CoqBytes(o.b)
	case "Zeroed":
		return "OZeroed"
	}
	return "ODone"
}
func (o outcome) String() string {
	if o.kind == "Bytes" {
		return "Bytes:" + vh.Hex(o.b)
	}
	return fmt.Sprintf("%s:%d", o.kind, o.n)
}
func sameOutcome(impl, want outcome) bool {
	if impl.kind != want.kind {
		return false
	}
	if impl.kind == "Err" && (want.n == 0 || impl.n == 0) {
		return true
	}
	return impl.n == want.n && bytes.Equal(impl.b, want.b)
}

type slot struct {
	real   *hdkeychain.ExtendedKey
	shadow *hdkeychain.ExtendedKey // deep copy taken at creation; nil once the key is zeroed
	pv     *pure                   // nil once zeroed
	zcc    int                     // length of the chain code of a zeroed key (for the oracle of ops on zeroed keys)
	parsed bool                    // created by NewKeyFromString (stays known after the key is zeroed)
}

type violation struct {
	key  string
	what string
	info map[string]interface{}
}

type runResult struct {
	viol     *violation
	outs     []outcome
	snaps    [][]string // Coq terms (outcome * bool) per key per step
	orc      *oracle
	executed int
	residue  int // non-zero bytes left in spare capacity (beyond len) of zeroed slices: informational
	zeros    int
}

func deepCopy(k *hdkeychain.ExtendedKey) *hdkeychain.ExtendedKey {
	f := k.VerifFields()
	return hdkeychain.NewExtendedKey(f.Version, f.Key, f.ChainCode, f.ParentFP, f.Depth, f.ChildNum, f.IsPrivate)
}

func classChild(err error) int {
	switch err {
	case hdkeychain.ErrDeriveBeyondMaxDepth:
		return 1
	case hdkeychain.ErrDeriveHardFromPublic:
		return 2
	case hdkeychain.ErrInvalidChild:
		return 3
	}
	return 4
}

func pubBytes(k *hdkeychain.ExtendedKey) (string, error) {
	pk, err := k.ECPubKey()
	if err != nil {
		return "", err
	}
	return vh.Hex(pk.SerializeCompressed()), nil
}

// observeAll compares every live key with its shadow and its pure value, and returns the snapshot.
func observeAll(pool []*slot, step int, deep bool) ([]string, *violation) {
	var snap []string
	var viol *violation
	fail := func(j int, what string, got, want interface{}) {
		if viol == nil {
			viol = &violation{"C15:independence", "a key that was not itself operated on shows a different " + what + " than the value determined by its own derivation",
				map[string]interface{}{"after_step": step, "key": fmt.Sprintf("k%d", j), "observation": what, "got": got, "required": want}}
		}
	}
	for j, sl := range pool {
		s := sl.real.String()
		if sl.pv == nil {
			if s != zeroedStr || sl.real.IsPrivate() {
				if viol == nil {
					viol = &violation{"C15:zero", "a zeroed key does not report itself as zeroed", map[string]interface{}{"after_step": step, "key": fmt.Sprintf("k%d", j), "string": s}}
				}
			}
			snap = append(snap, fmt.Sprintf("(%s, %s)", obsCoq(s), vh.CoqBool(sl.real.IsPrivate())))
			continue
		}
		snap = append(snap, fmt.Sprintf("(%s, %s)", obsCoq(s), vh.CoqBool(sl.real.IsPrivate())))
		if want := sl.pv.str(); s != want {
			fail(j, "String()", s, want)
		}
		if sh := sl.shadow.String(); s != sh {
			fail(j, "String() (vs deep copy)", s, sh)
		}
		if sl.real.IsPrivate() != sl.pv.priv {
			fail(j, "IsPrivate()", sl.real.IsPrivate(), sl.pv.priv)
		}
		if sl.real.Depth() != sl.pv.depth {
			fail(j, "Depth()", sl.real.Depth(), sl.pv.depth)
		}
		if len(sl.pv.fp) == 4 && sl.real.ParentFingerprint() != binary.BigEndian.Uint32(sl.pv.fp) {
			fail(j, "ParentFingerprint()", sl.real.ParentFingerprint(), binary.BigEndian.Uint32(sl.pv.fp))
		}
		if !deep {
			continue
		}
		pb, e1 := pubBytes(sl.real)
		ps, e2 := pubBytes(sl.shadow)
		if pb != ps || (e1 == nil) != (e2 == nil) {
			fail(j, "ECPubKey()", pb, ps)
		}
		a1, e1 := sl.real.Address(nets[0])
		a2, e2 := sl.shadow.Address(nets[0])
		if (e1 == nil) != (e2 == nil) || e1 == nil && a1.EncodeAddress() != a2.EncodeAddress() {
			fail(j, "Address()", fmt.Sprint(a1), fmt.Sprint(a2))
		}
		probes := []uint32{1}
		if sl.pv.priv {
			probes = append(probes, hdkeychain.HardenedKeyStart+1)
		}
		for _, pi := range probes {
			c1, e1 := sl.real.Child(pi)
			c2, e2 := sl.shadow.Child(pi)
			if (e1 == nil) != (e2 == nil) || e1 == nil && c1.String() != c2.String() {
				fail(j, fmt.Sprintf("Child(%d).String()", pi), fmt.Sprint(c1), fmt.Sprint(c2))
			}
		}
	}
	return snap, viol
}

func obsCoq(s string) string {
	if s == zeroedStr {
		return "OZeroed"
	}
	d := b58dec(s)
	if len(d) < 4 {
		return "OBytes []"
	}
	return "OBytes " + vh.CoqBytes(d[:len(d)-4])
}

func allZero(b []byte) bool {
	for _, x := range b {
		if x != 0 {
			return false
		}
	}
	return true
}

// runHistory executes ops on a fresh pool.  Handles are taken modulo the pool size (so that shrunk
// histories stay executable); operations on an empty pool are skipped.
type exec struct {
	res    runResult
	P      prims
	pool   []*slot
	deep   bool
	sparse bool // observe only after every fourth step and after the last one (nothing forces lazily computed state in between)
	last   int
	step   int
	ext    []*extBufs // caller-owned buffers handed to NewExtendedKey
}

// extBufs: the four buffers the caller gave to NewExtendedKey and what they contained
type extBufs struct {
	slot                 int
	ver, key, cc, fp     []byte
	ver0, key0, cc0, fp0 []byte
}

var sparseMode bool // set around the runs of the "sparse" family (and by a replay that says so)

func newExec(withOracle, deep bool) *exec {
	e := &exec{deep: deep, step: -1, sparse: sparseMode, last: -1}
	if withOracle {
		e.res.orc = newOracle()
	}
	e.P = prims{e.res.orc}
	return e
}

func (e *exec) live() int {
	n := 0
	for _, sl := range e.pool {
		if sl.pv != nil {
			n++
		}
	}
	return n
}

// apply executes one operation.  Handles are taken modulo the pool size (so that shrunk histories stay
// executable); operations on an empty pool are skipped.
func (ex *exec) apply(o opRec) {
	ex.step++
	setViol := func(v *violation) {
		if ex.res.viol == nil && v != nil {
			ex.res.viol = v
		}
	}
	needsKey := o.Kind != "NewMaster" && o.Kind != "FromString" && o.Kind != "NewExt"
	if needsKey && len(ex.pool) == 0 {
		ex.res.outs = append(ex.res.outs, outcome{kind: "Err", n: 99})
		ex.res.snaps = append(ex.res.snaps, nil)
		return
	}
	k := 0
	var sl *slot
	if needsKey {
		k = o.K % len(ex.pool)
		sl = ex.pool[k]
	}
	var got, want outcome
	push := func(nk *hdkeychain.ExtendedKey, pv *pure) {
		ns := &slot{real: nk, pv: pv}
		if pv != nil {
			ns.parsed = pv.parsed
			ns.shadow = deepCopy(nk)
		}
		ex.pool = append(ex.pool, ns)
		got = outcome{kind: "Created", n: len(ex.pool) - 1}
	}
	ex.res.executed++
	panicked, msg := vh.Catch(func() {
		switch o.Kind {
		case "NewMaster":
			seed := unhex(o.Seed)
			nk, err := hdkeychain.NewMaster(clone(seed), nets[o.Net])
			pv, e := ex.P.master(seed, o.Net)
			want = outcome{kind: "Err", n: e}
			if e == 0 {
				want = outcome{kind: "Created", n: len(ex.pool)}
			}
			if err != nil {
				got = outcome{kind: "Err", n: map[error]int{hdkeychain.ErrInvalidSeedLen: 1, hdkeychain.ErrUnusableSeed: 2}[err]}
			} else {
				push(nk, pv)
			}
		case "FromString":
			nk, err := hdkeychain.NewKeyFromString(o.Str)
			pv, e := ex.P.fromString(b58dec(o.Str))
			want = outcome{kind: "Err", n: e}
			if e == 0 {
				want = outcome{kind: "Created", n: len(ex.pool)}
			}
			if err != nil {
				c, ok := map[error]int{hdkeychain.ErrInvalidKeyLen: 1, hdkeychain.ErrBadChecksum: 2, hdkeychain.ErrUnusableSeed: 3}[err]
				if !ok {
					c = 4
				}
				got = outcome{kind: "Err", n: c}
			} else {
				push(nk, pv)
			}
		case "NewExt":
			ver, key, cc, fp := unhex(o.Ver), unhex(o.Key), unhex(o.CC), unhex(o.FP)
			nk := hdkeychain.NewExtendedKey(ver, key, cc, fp, o.Depth, o.Num, o.Priv) // four fresh caller buffers
			want = outcome{kind: "Created", n: len(ex.pool)}
			push(nk, &pure{ver: clone(ver), key: clone(key), cc: clone(cc), fp: clone(fp), depth: o.Depth, num: o.Num, priv: o.Priv})
		case "Child":
			c, err := sl.real.Child(o.I)
			var pv *pure
			if sl.pv == nil { // zeroed key: only "an error" is specified (hardened: ErrDeriveHardFromPublic)
				want = outcome{kind: "Err", n: 0}
				if o.I >= hdkeychain.HardenedKeyStart {
					want.n = 2
				} else { // what the model will ask its oracle
					ilr := ex.P.hmac512(make([]byte, sl.zcc), childData(false, nil, o.I))
					if ex.P.scalarOK(ilr[:32]) {
						ex.P.pubAdd(ilr[:32], nil)
					}
				}
			} else {
				var e int
				pv, e = ex.P.child(sl.pv, o.I)
				want = outcome{kind: "Err", n: e}
				if e == 0 {
					want = outcome{kind: "Created", n: len(ex.pool)}
				}
			}
			if err != nil {
				got = outcome{kind: "Err", n: classChild(err)}
			} else {
				push(c, pv)
			}
		case "Neuter":
			n, err := sl.real.Neuter()
			var pv *pure
			if sl.pv == nil || !sl.pv.priv {
				want = outcome{kind: "Same", n: k}
			} else {
				var e int
				pv, e = ex.P.neuter(sl.pv)
				want = outcome{kind: "Err", n: e}
				if e == 0 {
					want = outcome{kind: "Created", n: len(ex.pool)}
				}
			}
			if err != nil {
				got = outcome{kind: "Err", n: 5}
			} else if n == sl.real {
				got = outcome{kind: "Same", n: k}
			} else {
				push(n, pv)
			}
		case "SetNet":
			sl.real.SetNet(nets[o.Net])
			if sl.pv != nil {
				sl.shadow.SetNet(nets[o.Net])
				v := savedIDs[o.Net].pub[:]
				if sl.pv.priv {
					v = savedIDs[o.Net].priv[:]
				}
				np := *sl.pv
				np.ver = clone(v)
				sl.pv = &np
			}
			got, want = outcome{kind: "Done"}, outcome{kind: "Done"}
		case "Zero":
			kb, pb, cb, fb, _ := sl.real.VerifBuffers()
			held := [][]byte{kb, pb, cb, fb}
			names := []string{"key", "pubKey", "chainCode", "parentFP"}
			before := []string{vh.Hex(kb), vh.Hex(pb), vh.Hex(cb), vh.Hex(fb)}
			// what this key must not leave behind NEXT TO its buffers: Il of its own derivation.  (Copies of the key
			// material and of the chain code legitimately sit in neighbouring objects of the same size class: the
			// cached public key of the parent, the harness's shadow copy -- so only Il, which nobody else holds in a
			// 32-byte object, can be looked for in the neighbourhood.)
			var secrets [][]byte
			var secretNames []string
			if sl.pv != nil && len(sl.pv.il) >= 16 && !allZero(sl.pv.il) {
				secrets = append(secrets, sl.pv.il)
				secretNames = append(secretNames, "Il (the left half of the HMAC output the key was derived with)")
			}
			wasParsed := sl.parsed
			sl.real.Zero()
			ex.res.zeros++
			if sl.pv != nil {
				sl.zcc = len(sl.pv.cc)
			}
			sl.pv, sl.shadow = nil, nil
			for bi, b := range held {
				if !allZero(b) {
					setViol(&violation{"C15:zero", "after Zero the buffer that held the " + names[bi] + " still contains non-zero bytes",
						map[string]interface{}{"after_step": ex.step, "key": fmt.Sprintf("k%d", k), "buffer": names[bi], "before": before[bi], "after": vh.Hex(b)}})
				}
				for _, x := range b[len(b):cap(b)] {
					if x != 0 {
						ex.res.residue++
					}
				}
				// the allocation reading: the memory the buffer lives in.  Behind the slice: its spare capacity must be
				// zero (key / pubKey / chainCode; not for a parsed key, whose fields are ranges of the decoded payload,
				// and not for the fingerprint, which is the head of a 20-byte HASH160 of the parent's PUBLIC key).
				// In front of the slice (same page only, see the hook) and behind it: none of the key's own secrets.
				if len(b) == 0 {
					continue
				}
				ar := hdkeychain.VerifAroundOf(b, 64)
				if bi < 3 && !wasParsed && !allZero(ar.After) {
					setViol(&violation{"C15:zero", "after Zero the allocation that held the " + names[bi] + " still contains non-zero bytes behind the slice (spare capacity)",
						map[string]interface{}{"after_step": ex.step, "key": fmt.Sprintf("k%d", k), "buffer": names[bi], "spare_capacity_after": vh.Hex(ar.After)}})
				}
				for si, sec := range secrets {
					if bytes.Contains(ar.Before, sec) || bytes.Contains(ar.After, sec) {
						where := "in front of"
						if bytes.Contains(ar.After, sec) {
							where = "behind"
						}
						setViol(&violation{"C15:zero", "after Zero the memory directly " + where + " the zeroed " + names[bi] + " (same allocation) still holds the key's " + secretNames[si],
							map[string]interface{}{"after_step": ex.step, "key": fmt.Sprintf("k%d", k), "buffer": names[bi], "left_behind": secretNames[si],
								"bytes_in_front": vh.Hex(ar.Before), "bytes_behind": vh.Hex(ar.After)}})
					}
				}
			}
			f := sl.real.VerifFields()
			_, perr := sl.real.ECPrivKey()
			if sl.real.String() != zeroedStr || perr == nil || sl.real.IsPrivate() || !f.KeyNil || !f.VersionNil || f.Depth != 0 || f.ChildNum != 0 ||
				!allZero(f.PubKey) || !allZero(f.ChainCode) || !allZero(f.ParentFP) {
				setViol(&violation{"C15:zero", "after Zero the key does not report zeroed / still yields a private key / fields are not reset",
					map[string]interface{}{"after_step": ex.step, "key": fmt.Sprintf("k%d", k), "string": sl.real.String(), "ecprivkey_error": fmt.Sprint(perr), "fields": fmt.Sprintf("%+v", f)}})
			}
			got, want = outcome{kind: "Done"}, outcome{kind: "Done"}
		case "String":
			s := sl.real.String()
			if s == zeroedStr {
				got = outcome{kind: "Zeroed"}
			} else {
				d := b58dec(s)
				if len(d) < 5 || !bytes.Equal(sha256d(d[:len(d)-4])[:4], d[len(d)-4:]) {
					setViol(&violation{"C15:string_format", "String() is not Base58(payload || sha256d(payload)[:4])", map[string]interface{}{"after_step": ex.step, "string": s}})
					d = append(d, 0, 0, 0, 0)
				}
				got = outcome{kind: "Bytes", b: d[:len(d)-4]}
			}
			if sl.pv == nil {
				want = outcome{kind: "Zeroed"}
			} else {
				want = outcome{kind: "Bytes", b: sl.pv.payload()}
			}
		case "ECPubKey":
			pk, err := sl.real.ECPubKey()
			if err != nil {
				got = outcome{kind: "Err", n: 4}
			} else {
				got = outcome{kind: "Bytes", b: pk.SerializeCompressed()}
			}
			if sl.pv == nil {
				ex.P.parsePub(nil)
				want = outcome{kind: "Err", n: 0}
			} else if b, e := ex.P.parsePub(ex.P.pub(sl.pv)); e != 0 {
				want = outcome{kind: "Err", n: e}
			} else {
				want = outcome{kind: "Bytes", b: b}
			}
		case "ECPrivKey":
			pk, err := sl.real.ECPrivKey()
			if err != nil {
				got = outcome{kind: "Err", n: 1}
			} else {
				got = outcome{kind: "Bytes", b: pk.Serialize()}
			}
			if sl.pv == nil || !sl.pv.priv {
				want = outcome{kind: "Err", n: 1}
			} else {
				want = outcome{kind: "Bytes", b: sl.pv.key}
			}
		case "Address":
			a, err := sl.real.Address(nets[0])
			if err != nil {
				got = outcome{kind: "Err", n: 4}
			} else {
				got = outcome{kind: "Bytes", b: a.ScriptAddress()}
			}
			if sl.pv == nil {
				want = outcome{kind: "Bytes", b: ex.P.hash160(nil)}
			} else {
				want = outcome{kind: "Bytes", b: ex.P.hash160(ex.P.pub(sl.pv))}
			}
		}
	})
	if panicked {
		setViol(&violation{"C15:panic", "operation panicked", map[string]interface{}{"after_step": ex.step, "op": o.text(), "panic": msg}})
		ex.res.outs = append(ex.res.outs, outcome{kind: "Err", n: 98})
		ex.res.snaps = append(ex.res.snaps, nil)
		return
	}
	if !sameOutcome(got, want) {
		setViol(&violation{"C15:independence", "an operation's result differs from the one determined by the key's own derivation",
			map[string]interface{}{"after_step": ex.step, "op": o.text(), "got": got.String(), "required": want.String()}})
	}
	if want.kind == "Err" && want.n == 0 && got.kind == "Err" {
		got.n = 0 // unspecified class
	}
	ex.res.outs = append(ex.res.outs, got)
	if ex.sparse && ex.step%4 != 3 && ex.step != ex.last {
		ex.res.snaps = append(ex.res.snaps, nil)
	} else {
		snap, v := observeAll(ex.pool, ex.step, ex.deep)
		setViol(v)
		ex.res.snaps = append(ex.res.snaps, snap)
	}
	ex.checkCallerBuffers(setViol)
	if what, ok := globalsIntact(); !ok {
		setViol(&violation{"C15:independence", "an operation wrote through a version slice into package-level state shared by all keys",
			map[string]interface{}{"after_step": ex.step, "op": o.text(), "observation": what}})
	}
}

// checkCallerBuffers: the version buffer given to NewExtendedKey is never written; key / chain code /
// fingerprint buffers are the key's own and change only when that key is zeroed.
func (e *exec) checkCallerBuffers(setViol func(*violation)) {
	for _, x := range e.ext {
		if !bytes.Equal(x.ver, x.ver0) {
			setViol(&violation{"C15:independence", "the version buffer the caller passed to NewExtendedKey was written through",
				map[string]interface{}{"after_step": e.step, "key": fmt.Sprintf("k%d", x.slot), "before": vh.Hex(x.ver0), "after": vh.Hex(x.ver)}})
			copy(x.ver0, x.ver)
		}
		if e.pool[x.slot].pv != nil && !(bytes.Equal(x.key, x.key0) && bytes.Equal(x.cc, x.cc0) && bytes.Equal(x.fp, x.fp0)) {
			setViol(&violation{"C15:independence", "buffers the caller passed to NewExtendedKey changed although that key was not zeroed",
				map[string]interface{}{"after_step": e.step, "key": fmt.Sprintf("k%d", x.slot)}})
			x.key0, x.cc0, x.fp0 = clone(x.key), clone(x.cc), clone(x.fp)
		}
	}
}

func runHistory(ops []opRec, withOracle bool, deep bool) runResult {
	e := newExec(withOracle, deep)
	e.last = len(ops) - 1
	for _, o := range ops {
		e.apply(o)
	}
	return e.res
}

// shrink removes operations greedily while the same monitor still fails.
func shrink(ops []opRec, key string, deep bool) []opRec {
	cur := append([]opRec(nil), ops...)
	for changed := true; changed; {
		changed = false
		for i := len(cur) - 1; i >= 0; i-- {
			cand := append(append([]opRec(nil), cur[:i]...), cur[i+1:]...)
			if r := runHistory(cand, false, deep); r.viol != nil && r.viol.key == key {
				cur = cand
				changed = true
			}
		}
	}
	return cur
}

var reported = map[string]int{}

func report(ops []opRec, v *violation, deep bool) {
	// one (smallest) witness per key is kept by the report; shrinking is the expensive part, so only the
	// first few failing histories of a kind are minimised
	reported[v.key]++
	rep.Extra["failing_histories:"+v.key] = reported[v.key]
	if reported[v.key] > 6 {
		return
	}
	small := shrink(ops, v.key, deep)
	r := runHistory(small, false, deep)
	if r.viol == nil || r.viol.key != v.key {
		small, r = ops, runHistory(ops, false, deep)
	}
	if r.viol == nil { // not reproducible on a re-run (state left over between histories): report what was seen
		r.viol = v
	}
	var hist []string
	for _, o := range small {
		hist = append(hist, o.text())
	}
	info := map[string]interface{}{"history": hist, "ops": small, "shallow": !deep, "sparse": sparseMode,
		"observed_after_every_step": "on every live key: String, IsPrivate, Depth, ParentFingerprint, ECPubKey, Address, Child(1), Child(2^31+1) if private (these memoise the public key of private keys)"}
	if !deep {
		info["observed_after_every_step"] = "on every live key: String, IsPrivate, Depth, ParentFingerprint only (none of these memoises the public key, so keys without a cached public key stay that way)"
	}
	for k, x := range r.viol.info {
		info[k] = x
	}
	rep.Violate(r.viol.key, r.viol.what, info)
}

// ---------- generation ----------
func validScalar(r *vh.RNG) []byte {
	for {
		b := r.Bytes(32)
		n := new(big.Int).SetBytes(b)
		if n.Sign() != 0 && n.Cmp(curveN) < 0 {
			return b
		}
	}
}

func genCreator(r *vh.RNG) opRec {
	switch r.Intn(10) {
	case 0, 1, 2, 3:
		return opRec{Kind: "NewMaster", Seed: vh.Hex(r.Bytes(16 + r.Intn(49))), Net: r.Intn(len(nets))}
	case 4, 5, 6:
		// a string produced from an independent derivation (valid), private or public, some depth
		m, _ := hdkeychain.NewMaster(r.Bytes(32), nets[r.Intn(len(nets))])
		k := m
		for d := r.Intn(3); d > 0; d-- {
			if c, err := k.Child(r.U32() & 0x8000000f); err == nil {
				k = c
			}
		}
		if r.Bool() {
			k, _ = k.Neuter()
		}
		if r.Intn(5) == 0 {
			// a well-formed string (checksum recomputed) whose version bytes belong to the OTHER class than its key
			// data: an xprv version in front of a public key, or an xpub version in front of 00 || scalar.  The parser
			// does not interpret the version; SetNet must still give such a key the version of its own class.
			d := b58dec(k.String())
			if len(d) == 82 {
				n := savedIDs[r.Intn(len(nets))]
				if d[45] == 0 {
					copy(d[:4], n.pub[:])
				} else {
					copy(d[:4], n.priv[:])
				}
				copy(d[78:], sha256d(d[:78])[:4])
				return opRec{Kind: "FromString", Str: b58enc(d)}
			}
		}
		return opRec{Kind: "FromString", Str: k.String()}
	default:
		priv := r.Bool()
		key := validScalar(r)
		net := r.Intn(len(nets))
		ver := savedIDs[net].priv[:]
		if !priv {
			x, y := bchec.S256().ScalarBaseMult(key)
			key = compress(x, y)
			ver = savedIDs[net].pub[:]
		}
		switch r.Intn(8) {
		case 0:
			ver = r.Bytes(4) // unregistered version: Neuter fails
		case 1, 2: // registered version of the OTHER class (private key under an xpub version and vice versa)
			if priv {
				ver = savedIDs[net].pub[:]
			} else {
				ver = savedIDs[net].priv[:]
			}
		}
		depth := uint8(r.Intn(4))
		if r.Intn(10) == 0 {
			depth = 255
		}
		return opRec{Kind: "NewExt", Ver: vh.Hex(ver), Key: vh.Hex(key), CC: vh.Hex(r.Bytes(32)), FP: vh.Hex(r.Bytes(4)), Depth: depth, Num: r.U32(), Priv: priv}
	}
}

// genRejected: a creator call that must FAIL and create nothing (round 3, red team): NewKeyFromString of the empty
// string, of "1"s, of garbage, of the string of a LIVE key (or of a fresh valid key) with a changed character / a
// character removed or added / a foreign byte, of well-formed strings (checksum recomputed) whose key material is
// unusable; NewMaster with a seed of illegal length.  The rejected call sits between operations on live keys and every
// live key is observed after it like after any other step: a failing parse must not disturb anything (a decoder that
// recycles or wipes the buffer of the previous call, an error path that zeroes "the" key ...).
func genRejected(r *vh.RNG, pool []*slot) opRec {
	valid := ""
	var live []*slot
	for _, sl := range pool {
		if sl.pv != nil && len(sl.pv.key) >= 32 && len(sl.pv.ver) == 4 && len(sl.pv.cc) == 32 && len(sl.pv.fp) == 4 {
			live = append(live, sl)
		}
	}
	if len(live) > 0 && r.Intn(3) != 0 {
		valid = live[r.Intn(len(live))].pv.str() // the mirror's own rendering of a live key
	} else {
		sc := validScalar(r)
		pv := &pure{ver: clone(savedIDs[r.Intn(len(nets))].priv[:]), key: sc, cc: r.Bytes(32), fp: r.Bytes(4), depth: uint8(r.Intn(5)), num: r.U32(), priv: true}
		valid = pv.str()
	}
	recomputed := func(d []byte) string {
		copy(d[78:], sha256d(d[:78])[:4])
		return b58enc(d)
	}
	switch r.Intn(16) {
	case 0, 1:
		return opRec{Kind: "FromString", Str: ""}
	case 2:
		return opRec{Kind: "FromString", Str: strings.Repeat("1", vh.Pick(r, []int{1, 2, 4, 81, 82, 83, 111}))}
	case 3: // garbage: random bytes, random alphabet characters
		if r.Bool() {
			return opRec{Kind: "FromString", Str: string(r.Bytes(1 + r.Intn(120)))}
		}
		b := make([]byte, 1+r.Intn(120))
		for i := range b {
			b[i] = hdrefAlphabet[r.Intn(58)]
		}
		return opRec{Kind: "FromString", Str: string(b)}
	case 4, 5: // one character changed to another alphabet character: bad checksum
		b := []byte(valid)
		pos := 1 + r.Intn(len(b)-1)
		c := hdrefAlphabet[r.Intn(58)]
		for c == b[pos] {
			c = hdrefAlphabet[r.Intn(58)]
		}
		b[pos] = c
		return opRec{Kind: "FromString", Str: string(b)}
	case 6: // a foreign byte somewhere
		b := []byte(valid)
		b[r.Intn(len(b))] = vh.Pick(r, []byte{'0', 'O', 'I', 'l', ' ', '|', 0, 0x80, 0xff, '\n'})
		return opRec{Kind: "FromString", Str: string(b)}
	case 7: // wrong length: a character removed / added, a prefix, the string twice
		switch r.Intn(5) {
		case 0:
			return opRec{Kind: "FromString", Str: valid[:len(valid)-1]}
		case 1:
			return opRec{Kind: "FromString", Str: valid[1:]}
		case 2:
			return opRec{Kind: "FromString", Str: valid + "1"}
		case 3:
			return opRec{Kind: "FromString", Str: valid[:r.Intn(len(valid))]}
		}
		return opRec{Kind: "FromString", Str: valid + valid}
	case 8: // well-formed, scalar 0 or >= n
		d := b58dec(valid)
		if len(d) == 82 && d[45] == 0 {
			if r.Bool() {
				copy(d[46:78], make([]byte, 32))
			} else {
				copy(d[46:78], bytes.Repeat([]byte{0xff}, 32))
			}
			return opRec{Kind: "FromString", Str: recomputed(d)}
		}
		return opRec{Kind: "FromString", Str: ""}
	case 9: // well-formed, public key with a bad format byte / x = 0
		d := b58dec(valid)
		if len(d) == 82 {
			d[45] = vh.Pick(r, []byte{1, 4, 5, 0xff})
			if r.Bool() {
				d[45] = 2
				copy(d[46:78], make([]byte, 32))
			}
			return opRec{Kind: "FromString", Str: recomputed(d)}
		}
		return opRec{Kind: "FromString", Str: "1"}
	case 10: // payload of 77 / 79 bytes with a correct checksum
		d := b58dec(valid)
		if len(d) == 82 {
			p := d[:77]
			if r.Bool() {
				p = append(clone(d[:78]), 7)
			}
			return opRec{Kind: "FromString", Str: b58enc(append(clone(p), sha256d(p)[:4]...))}
		}
		return opRec{Kind: "FromString", Str: "11"}
	default: // NewMaster with an illegal seed length
		l := vh.Pick(r, []int{0, 1, 8, 15, 65, 66, 100, 128, 255})
		return opRec{Kind: "NewMaster", Seed: vh.Hex(r.Bytes(l)), Net: r.Intn(len(nets))}
	}
}

const hdrefAlphabet = "123456789ABCDEFGHJKLMNPQRSTUVWXYZabcdefghijkmnopqrstuvwxyz"

// genHistory generates and executes a history step by step (each choice sees the current pool).
// Families woven in: derive/neuter then SetNet(another net) on a relative; observe (memoise) then Zero;
// Zero of public keys; operations on zeroed keys.
func genHistory(r *vh.RNG, steps, maxPool int, withOracle bool, deep bool) ([]opRec, runResult) {
	e := newExec(withOracle, deep)
	e.last = steps - 1
	var ops []opRec
	lastCreated := -1
	for len(ops) < steps {
		var o opRec
		n := len(e.pool)
		room := n < maxPool
		if n == 0 || (n < 2 && r.Bool()) {
			o = genCreator(r)
		} else {
			k := r.Intn(n)
			if lastCreated >= 0 && r.Intn(3) == 0 {
				k = lastCreated // stay with the relatives of the key just made
			}
			switch x := r.Intn(100); {
			case rejectEvery > 0 && r.Intn(rejectEvery) == 0:
				o = genRejected(r, e.pool) // a creator that must fail, between operations on live keys (round 3)
			case x < 24 && room:
				i := uint32(r.Intn(4))
				if r.Intn(3) == 0 {
					i += hdkeychain.HardenedKeyStart
				}
				if r.Intn(12) == 0 {
					i = vh.Pick(r, []uint32{0x7fffffff, 0x80000000, 0xffffffff})
				}
				o = opRec{Kind: "Child", K: k, I: i}
			case x < 38 && room:
				o = opRec{Kind: "Neuter", K: k}
			case x < 52:
				o = opRec{Kind: "Zero", K: k}
			case x < 64:
				o = opRec{Kind: "SetNet", K: k, Net: r.Intn(len(nets))}
				if r.Intn(3) == 0 { // the network (one of the networks) the key's version bytes already belong to, either class
					ver := e.pool[k].real.VerifVersion()
					var own []int
					for ni := range nets {
						if bytes.Equal(ver, savedIDs[ni].priv[:]) || bytes.Equal(ver, savedIDs[ni].pub[:]) {
							own = append(own, ni)
						}
					}
					if len(own) > 0 {
						o.Net = own[r.Intn(len(own))]
					}
				}
			case x < 69:
				o = opRec{Kind: "String", K: k}
			case x < 77:
				o = opRec{Kind: "ECPubKey", K: k}
			case x < 82:
				o = opRec{Kind: "ECPrivKey", K: k}
			case x < 88:
				o = opRec{Kind: "Address", K: k}
			case x < 94 && room && e.pool[k].pv != nil:
				// a second object for a key that is already in the pool: parse its own string (possibly more than once)
				o = opRec{Kind: "FromString", Str: e.pool[k].real.String()}
			case room:
				o = genCreator(r)
			default:
				o = opRec{Kind: "SetNet", K: k, Net: r.Intn(len(nets))}
			}
		}
		before := len(e.pool)
		e.apply(o)
		ops = append(ops, o)
		if len(e.pool) > before {
			lastCreated = len(e.pool) - 1
		}
	}
	return ops, e.res
}

var histCount, liveObs int

// rejectEvery: one step in rejectEvery of a random history is a creator call that must be rejected (0: none)
var rejectEvery = 7

// rejectedBetween: deterministic histories "create a key, let a creator fail, use the key": every kind of live key
// (master, child, neutered, parsed xprv, parsed xpub, NewExtendedKey) x every kind of failing creator, the failing call
// directly after the creation and again after the key has been used.
func rejectedBetween() [][]opRec {
	seed := "000102030405060708090a0b0c0d0e0f"
	xprv := "xprv9s21ZrQH143K3QTDL4LXw2F7HEK3wJUD2nW2nRk4stbPy6cq3jPPqjiChkVvvNKmPGJxWUtg6LnF5kejMRNNU3TGtRBeJgk33yuGBxrMPHi"
	xpub := "xpub661MyMwAqRbcFtXgS5sYJABqqG9YLmC4Q1Rdap9gSE8NqtwybGhePY2gZ29ESFjqJoCu1Rupje8YtGqsefD265TMg7usUDFdp6W1EGMcet8"
	H := uint32(hdkeychain.HardenedKeyStart)
	creators := [][]opRec{
		{{Kind: "NewMaster", Seed: seed}},
		{{Kind: "NewMaster", Seed: seed, Net: 3}, {Kind: "Child", K: 0, I: H + 1}},
		{{Kind: "NewMaster", Seed: seed, Net: 5}, {Kind: "Neuter", K: 0}},
		{{Kind: "FromString", Str: xprv}},
		{{Kind: "FromString", Str: xpub}},
		{{Kind: "FromString", Str: xprv}, {Kind: "FromString", Str: xpub}},
		{{Kind: "NewExt", Ver: "0488ade4", Key: "00000000000000000000000000000000000000000000000000000000000000aa", CC: strings.Repeat("cc", 32), FP: "01020304", Depth: 3, Num: 9, Priv: true}},
	}
	bad := []opRec{
		{Kind: "FromString", Str: ""},
		{Kind: "FromString", Str: "1"},
		{Kind: "FromString", Str: strings.Repeat("1", 82)},
		{Kind: "FromString", Str: "xprv"},
		{Kind: "FromString", Str: xprv[:len(xprv)-1] + "j"},
		{Kind: "FromString", Str: xprv[:len(xprv)-1]},
		{Kind: "FromString", Str: xprv + "1"},
		{Kind: "FromString", Str: xprv[:30] + "|" + xprv[31:]},
		{Kind: "FromString", Str: xprv[:30] + "0" + xprv[31:]},
		{Kind: "FromString", Str: "\x00\xff not base58 at all"},
		{Kind: "NewMaster", Seed: ""},
		{Kind: "NewMaster", Seed: "0001"},
		{Kind: "NewMaster", Seed: strings.Repeat("ab", 65), Net: 3},
	}
	var hs [][]opRec
	for ci, c := range creators {
		for bi, b := range bad {
			last := len(c) - 1
			h := append([]opRec{}, c...)
			h = append(h, b, opRec{Kind: "String", K: last}, opRec{Kind: "Child", K: last, I: 1}, b, opRec{Kind: "ECPubKey", K: last})
			if (ci+bi)%2 == 0 {
				h = append(h, opRec{Kind: "Neuter", K: last}, b, opRec{Kind: "Address", K: last}, opRec{Kind: "Zero", K: 0}, b, opRec{Kind: "String", K: last})
			}
			hs = append(hs, h)
		}
	}
	return hs
}

// zeroGroupHistories: keys parsed from CONSTRUCTED strings whose base-58 digit string has an aligned all-zero group
// (hdref.ZeroRunPayload; a derived key has one with probability 58^-5 per position): the key and its relatives must
// keep printing as themselves (the mirror prints with the harness's own Base58).
func zeroGroupHistories(r *vh.RNG, widths []int) [][]opRec {
	var hs [][]opRec
	H := uint32(hdkeychain.HardenedKeyStart)
	for lo := 10; lo <= 100; lo += 5 {
		for _, w := range widths {
			hi := lo + w
			if hi > 105 {
				continue
			}
			sc := validScalar(r)
			sc[0] &= 0x7f
			base := (&pure{ver: clone(savedIDs[(lo/5+w)%len(nets)].priv[:]), key: sc, cc: r.Bytes(32), fp: r.Bytes(4), depth: uint8(r.Intn(200)), num: r.U32(), priv: true}).payload()
			var p []byte
			ok := false
			for try := 0; try < 8 && !ok; try++ {
				p, ok = hdref.ZeroRunPayload(base, r.Bytes, lo, hi)
			}
			if !ok {
				continue
			}
			s := b58enc(append(clone(p), sha256d(p)[:4]...))
			if !hdref.HasZeroRun(s, lo, hi) {
				continue
			}
			hs = append(hs, []opRec{{Kind: "FromString", Str: s}, {Kind: "String", K: 0}, {Kind: "Child", K: 0, I: H + 1}, {Kind: "String", K: 1}, {Kind: "Neuter", K: 0},
				{Kind: "String", K: 2}, {Kind: "FromString", Str: s}, {Kind: "Zero", K: 0}, {Kind: "String", K: 3}, {Kind: "Child", K: 3, I: 2}})
		}
	}
	return hs
}

// allNetsHistories: every kind of key is moved through ALL SIX networks (SetNet, String, Neuter, String of the
// neutered key, Child), chipnet included, forwards and backwards; the mirror prints with the constants of chaincfg.
func allNetsHistories() [][]opRec {
	seed := "000102030405060708090a0b0c0d0e0f"
	xprv := "xprv9s21ZrQH143K3QTDL4LXw2F7HEK3wJUD2nW2nRk4stbPy6cq3jPPqjiChkVvvNKmPGJxWUtg6LnF5kejMRNNU3TGtRBeJgk33yuGBxrMPHi"
	xpub := "xpub661MyMwAqRbcFtXgS5sYJABqqG9YLmC4Q1Rdap9gSE8NqtwybGhePY2gZ29ESFjqJoCu1Rupje8YtGqsefD265TMg7usUDFdp6W1EGMcet8"
	H := uint32(hdkeychain.HardenedKeyStart)
	creators := [][]opRec{
		{{Kind: "NewMaster", Seed: seed}},
		{{Kind: "NewMaster", Seed: seed + "aa", Net: 4}, {Kind: "Child", K: 0, I: H}},
		{{Kind: "FromString", Str: xprv}},
		{{Kind: "FromString", Str: xpub}},
		{{Kind: "NewMaster", Seed: seed, Net: 1}, {Kind: "Neuter", K: 0}},
	}
	var hs [][]opRec
	for ci, c := range creators {
		for _, back := range []bool{false, true} {
			k := len(c) - 1
			h := append([]opRec{}, c...)
			private := ci <= 2
			size := len(c) // pool size so far
			for q := 0; q < len(nets); q++ {
				net := (ci + q) % len(nets)
				if back {
					net = (ci + 2*len(nets) - q) % len(nets)
				}
				h = append(h, opRec{Kind: "SetNet", K: k, Net: net}, opRec{Kind: "String", K: k}, opRec{Kind: "Neuter", K: k})
				if private { // the key Neuter just made (for a public key Neuter returns the same object)
					h = append(h, opRec{Kind: "String", K: size})
					size++
				}
				if q%2 == 1 {
					h = append(h, opRec{Kind: "Child", K: k, I: uint32(q)}, opRec{Kind: "String", K: size})
					size++
				}
			}
			hs = append(hs, h)
		}
	}
	return hs
}

func runAndRecord(ops []opRec, family string, corr bool, deep bool) {
	record(ops, runHistory(ops, corr, deep), family, corr, deep)
}

func record(ops []opRec, r runResult, family string, corr bool, deep bool) {
	histCount++
	kinds := map[string]bool{}
	zeroThenObserve := false
	seenZero := false
	for _, o := range ops {
		kinds[o.Kind] = true
		if o.Kind == "Zero" {
			seenZero = true
		} else if seenZero {
			zeroThenObserve = true
		}
	}
	var sb strings.Builder
	for _, o := range ops {
		sb.WriteString(o.text())
	}
	for i := 0; i < r.executed; i++ {
		rep.Count("op/"+ops[i].Kind, "", false)
	}
	rep.Count("history/"+family, sb.String(), zeroThenObserve && len(kinds) >= 3)
	rep.Evaluations-- // the history line is a bucket, not an extra execution
	if r.viol != nil {
		report(ops, r.viol, deep)
	}
	rep.Extra["zero_calls"] = toInt(rep.Extra["zero_calls"]) + r.zeros
	rep.Extra["nonzero_bytes_beyond_len_in_zeroed_backing_arrays"] = toInt(rep.Extra["nonzero_bytes_beyond_len_in_zeroed_backing_arrays"]) + r.residue
	if corr && len(r.outs) == len(ops) && r.orc != nil {
		var opsC, outsC, snapsC []string
		var hist []string
		for i, o := range ops {
			opsC = append(opsC, o.coq())
			outsC = append(outsC, r.outs[i].coq())
			snapsC = append(snapsC, vh.CoqList(r.snaps[i]))
			hist = append(hist, o.text()+" -> "+r.outs[i].String())
		}
		term := fmt.Sprintf("Hist %s\n  %s\n  %s\n  %s", vh.CoqList(r.orc.lines), vh.CoqList(opsC), vh.CoqList(outsC), vh.CoqList(snapsC))
		cases.Add(term, map[string]interface{}{"family": family, "history": hist})
		rep.Sample(map[string]interface{}{"family": family, "history": hist}, 3)
	}
}

func toInt(x interface{}) int {
	if v, ok := x.(int); ok {
		return v
	}
	return 0
}

// leadingZeroChildren scans, with the mirror's arithmetic only (HMAC-SHA512 and a big-integer addition), the children
// of the master key of a fixed seed for private keys with at least `zeros` leading zero bytes: one hardened and one
// normal index.  (Two zero bytes: about 65 000 tries each.)
func leadingZeroChildren(seed []byte, zeros int, maxTries int) (idx []uint32) {
	P := prims{}
	m, e := P.master(seed, 0)
	if e != 0 {
		return nil
	}
	pub := P.pub(m)
	for _, hard := range []bool{true, false} {
		for t := 0; t < maxTries; t++ {
			i := uint32(t)
			keyish := pub
			if hard {
				i |= hdkeychain.HardenedKeyStart
				keyish = m.key
			}
			h := hmac.New(sha512.New, m.cc)
			h.Write(childData(hard, keyish, i))
			il := h.Sum(nil)[:32]
			v := new(big.Int).SetBytes(il)
			if v.Sign() == 0 || v.Cmp(curveN) >= 0 {
				continue
			}
			v.Add(v, new(big.Int).SetBytes(m.key)).Mod(v, curveN)
			if v.Sign() != 0 && v.BitLen() <= 256-8*zeros {
				idx = append(idx, i)
				break
			}
		}
	}
	return idx
}

// leadingZeroHistories: derive a child whose private key has leading zero bytes, then use THAT object: hardened and
// normal grandchildren, its string parsed back and derived from as well, Neuter, Zero of relatives.
// lz3: children of the master of a seed whose private key has THREE leading zero bytes (2^-24 per index), found once by
// cmd/c04/lzscan with the independent reference and cached here (round 3); re-checked with the mirror before use.
var lz3 = map[string][]uint32{
	"000102030405060708090a0b0c0d0e0f": {2150775374, 28672661},
	"433034206368696c6472656e2077697468207468726565206c656164696e67207a65726f206279746573": {2148998315, 2339335},
}

func leadingZeroHistories(quick bool) [][]opRec {
	var hs [][]opRec
	H := uint32(hdkeychain.HardenedKeyStart)
	seeds := []string{"000102030405060708090a0b0c0d0e0f", "4c6561642d7a65726f2d6368696c6472656e2d6f662d433135", "433034206368696c6472656e2077697468207468726565206c656164696e67207a65726f206279746573"}
	for si, seedHex := range seeds {
		seed := unhex(seedHex)
		for _, zeros := range []int{1, 2, 3} {
			if zeros == 2 && quick && si > 0 {
				continue
			}
			var idx []uint32
			if zeros == 3 {
				P := prims{}
				if m, e := P.master(seed, 0); e == 0 {
					for _, i := range lz3[seedHex] {
						if c, e := P.child(m, i); e == 0 && allZero(c.key[:3]) {
							idx = append(idx, i)
						}
					}
				}
			} else if si < 2 {
				idx = leadingZeroChildren(seed, zeros, 400000)
			}
			for _, i := range idx {
				var str string
				if m, err := hdkeychain.NewMaster(seed, nets[0]); err == nil {
					if c, err := m.Child(i); err == nil {
						str = c.String()
					}
				}
				h := []opRec{{Kind: "NewMaster", Seed: seedHex}, {Kind: "Child", K: 0, I: i}, {Kind: "Child", K: 1, I: H + 5}, {Kind: "Child", K: 1, I: 7},
					{Kind: "String", K: 1}, {Kind: "Neuter", K: 1}, {Kind: "Child", K: 4, I: 7}}
				if str != "" {
					h = append(h, opRec{Kind: "FromString", Str: str}, opRec{Kind: "Child", K: 6, I: H + 5}, opRec{Kind: "Child", K: 6, I: 7})
				}
				h = append(h, opRec{Kind: "Zero", K: 0}, opRec{Kind: "Child", K: 1, I: H}, opRec{Kind: "Zero", K: 1}, opRec{Kind: "String", K: 2})
				hs = append(hs, h)
			}
		}
	}
	return hs
}

func fixedHistories() [][]opRec {
	seed := "000102030405060708090a0b0c0d0e0f"
	xprv := "xprv9s21ZrQH143K3QTDL4LXw2F7HEK3wJUD2nW2nRk4stbPy6cq3jPPqjiChkVvvNKmPGJxWUtg6LnF5kejMRNNU3TGtRBeJgk33yuGBxrMPHi"
	xpub := "xpub661MyMwAqRbcFtXgS5sYJABqqG9YLmC4Q1Rdap9gSE8NqtwybGhePY2gZ29ESFjqJoCu1Rupje8YtGqsefD265TMg7usUDFdp6W1EGMcet8"
	return [][]opRec{
		// the finding: neuter, zero the parent, look at the neutered key — and the other way round
		{{Kind: "NewMaster", Seed: seed}, {Kind: "Neuter", K: 0}, {Kind: "Zero", K: 0}, {Kind: "String", K: 1}},
		{{Kind: "NewMaster", Seed: seed}, {Kind: "Neuter", K: 0}, {Kind: "Zero", K: 1}, {Kind: "String", K: 0}, {Kind: "Child", K: 0, I: 1}},
		// children share only the version
		{{Kind: "NewMaster", Seed: seed}, {Kind: "Child", K: 0, I: hdkeychain.HardenedKeyStart}, {Kind: "Child", K: 1, I: 1}, {Kind: "Zero", K: 0}, {Kind: "String", K: 1}, {Kind: "Zero", K: 1}, {Kind: "String", K: 2}, {Kind: "Neuter", K: 2}, {Kind: "Zero", K: 2}, {Kind: "String", K: 3}},
		// one decoded buffer, four ranges; SetNet replaces the version reference only for that key
		{{Kind: "FromString", Str: xprv}, {Kind: "Child", K: 0, I: 0}, {Kind: "SetNet", K: 0, Net: 1}, {Kind: "String", K: 1}, {Kind: "Zero", K: 0}, {Kind: "String", K: 1}, {Kind: "Child", K: 1, I: 2}},
		{{Kind: "FromString", Str: xpub}, {Kind: "Neuter", K: 0}, {Kind: "Child", K: 0, I: 0}, {Kind: "Child", K: 0, I: hdkeychain.HardenedKeyStart}, {Kind: "Zero", K: 0}, {Kind: "String", K: 1}, {Kind: "Neuter", K: 0}, {Kind: "Child", K: 0, I: 1}, {Kind: "ECPubKey", K: 0}, {Kind: "Address", K: 0}, {Kind: "ECPrivKey", K: 0}},
		// memoisation: ECPubKey / Address before and after Neuter, then Zero either side
		{{Kind: "NewMaster", Seed: seed, Net: 5}, {Kind: "ECPubKey", K: 0}, {Kind: "Neuter", K: 0}, {Kind: "Address", K: 0}, {Kind: "Zero", K: 1}, {Kind: "ECPubKey", K: 0}, {Kind: "Child", K: 0, I: 7}, {Kind: "Zero", K: 0}, {Kind: "String", K: 2}},
		// relatives share only an immutable version: SetNet on one must not show on the others (either direction)
		{{Kind: "NewMaster", Seed: seed}, {Kind: "Child", K: 0, I: 1}, {Kind: "SetNet", K: 0, Net: 1}, {Kind: "String", K: 1}, {Kind: "Child", K: 1, I: 2}, {Kind: "SetNet", K: 2, Net: 5}, {Kind: "String", K: 1}, {Kind: "String", K: 0}},
		{{Kind: "NewMaster", Seed: seed}, {Kind: "Neuter", K: 0}, {Kind: "SetNet", K: 1, Net: 5}, {Kind: "NewMaster", Seed: seed + "10"}, {Kind: "Neuter", K: 2}, {Kind: "String", K: 3}, {Kind: "SetNet", K: 0, Net: 1}, {Kind: "Neuter", K: 0}, {Kind: "String", K: 4}},
		{{Kind: "FromString", Str: xprv}, {Kind: "Child", K: 0, I: hdkeychain.HardenedKeyStart + 44}, {Kind: "Child", K: 1, I: 0}, {Kind: "SetNet", K: 1, Net: 5}, {Kind: "String", K: 0}, {Kind: "String", K: 2}, {Kind: "SetNet", K: 2, Net: 1}, {Kind: "String", K: 1}},
		{{Kind: "NewExt", Ver: "0488ade4", Key: "00000000000000000000000000000000000000000000000000000000000000aa", CC: strings.Repeat("cc", 32), FP: "01020304", Depth: 3, Num: 9, Priv: true}, {Kind: "Child", K: 0, I: 1}, {Kind: "SetNet", K: 0, Net: 1}, {Kind: "String", K: 1}, {Kind: "Neuter", K: 0}, {Kind: "SetNet", K: 1, Net: 5}, {Kind: "String", K: 0}, {Kind: "Zero", K: 0}, {Kind: "String", K: 2}},
		// raw memory after Zero: private key with a memoised public key, public keys (33-byte buffers)
		{{Kind: "NewMaster", Seed: seed}, {Kind: "ECPubKey", K: 0}, {Kind: "Zero", K: 0}},
		{{Kind: "NewMaster", Seed: seed}, {Kind: "Neuter", K: 0}, {Kind: "Zero", K: 1}, {Kind: "Address", K: 0}, {Kind: "Zero", K: 0}},
		{{Kind: "FromString", Str: xpub}, {Kind: "Child", K: 0, I: 3}, {Kind: "Zero", K: 1}, {Kind: "Zero", K: 0}},
		// bad inputs do not create keys
		{{Kind: "NewMaster", Seed: "0001"}, {Kind: "FromString", Str: xprv[:len(xprv)-1] + "j"}, {Kind: "FromString", Str: "xprv"}, {Kind: "NewMaster", Seed: seed}, {Kind: "Child", K: 0, I: 3}},
	}
}

func main() {
	cfg = vh.ParseFlags("C15")
	saveGlobals()
	rep = vh.NewReport(cfg)
	rep.Rule = "random histories over a pool of at most 4..6 extended keys (NewMaster / NewKeyFromString / NewExtendedKey on fresh buffers / Child / Neuter / SetNet / Zero / String / ECPubKey / ECPrivKey / Address), every key observed after every step; implementation executions = operations applied; a history is non-trivial when it uses at least three kinds of operation and applies some operation after a Zero; distinct by the operation sequence"
	cases = vh.NewCases(cfg, "Run.Run_C15", 12)
	rng := vh.NewRNG(cfg.Seed)
	checkGlobalsAtStart()

	if cfg.Replay != "" {
		raw, err := os.ReadFile(cfg.Replay)
		vh.Must(err)
		var rp struct {
			Input struct {
				Ops     []opRec `json:"ops"`
				Shallow bool    `json:"shallow"`
				Sparse  bool    `json:"sparse"`
			} `json:"input"`
		}
		vh.Must(json.Unmarshal(raw, &rp))
		sparseMode = rp.Input.Sparse
		if r := runHistory(rp.Input.Ops, false, !rp.Input.Shallow); r.viol != nil {
			report(rp.Input.Ops, r.viol, !rp.Input.Shallow)
		}
		vh.Must(rep.Write(cfg))
		return
	}

	// every fixed history twice: with the deep observation after every step (ECPubKey / Address / Child probes, which
	// memoise the public key of every private key) and with the shallow one (String / IsPrivate / Depth / ParentFingerprint
	// only), so that keys WITHOUT a cached public key are neutered, zeroed, derived from as well (review round 2)
	// children whose private key has one / two leading zero bytes (found by a scan), used as parents
	lz := leadingZeroHistories(!cfg.Thorough() && !cfg.Search)
	rep.Extra["leading_zero_child_histories"] = len(lz)
	for hi, h := range lz {
		runAndRecord(h, "leading_zero_child", !cfg.Search && hi < 4, true) // one and two zero bytes, hardened and normal, of the first seed
		runAndRecord(h, "leading_zero_child_shallow", false, false)
	}
	for hi, h := range rejectedBetween() {
		runAndRecord(h, "rejected_creator_between", !cfg.Search && hi%13 == 0, true)
		runAndRecord(h, "rejected_creator_between_shallow", false, false)
	}
	{
		widths := []int{5, 10, 20}
		if cfg.Thorough() || cfg.Search {
			widths = []int{5, 10, 15, 20, 30}
		}
		zg := zeroGroupHistories(rng.Fork("zerogroups"), widths)
		rep.Extra["zero_digit_group_histories"] = len(zg)
		for hi, h := range zg {
			runAndRecord(h, "parsed_from_string_with_zero_digit_group", !cfg.Search && hi%12 == 0, hi%2 == 0)
		}
	}
	for hi, h := range allNetsHistories() {
		runAndRecord(h, "all_six_nets", !cfg.Search && hi%4 == 0, true)
		runAndRecord(h, "all_six_nets_shallow", false, false)
	}
	for _, h := range fixedHistories() {
		runAndRecord(h, "fixed", !cfg.Search, true)
		runAndRecord(h, "fixed_shallow", false, false)
		sparseMode = true // observed only after every fourth step and at the end: nothing forces lazily computed state
		runAndRecord(h, "fixed_sparse", false, true)
		sparseMode = false
	}
	r := rng.Fork("histories")
	nCorr := cfg.Scale(40, 120)
	nMon := cfg.Scale(500, 2500)
	if cfg.Search {
		nCorr, nMon = 0, 3000
	}
	for i := 0; i < nMon; i++ {
		steps := 6 + r.Intn(13)
		maxPool := 4 + r.Intn(3)
		corr := i < nCorr
		if corr {
			steps = 5 + r.Intn(8)
		}
		deep := i%3 != 2
		fam := "random"
		if !deep {
			fam = "random_shallow"
		}
		if !corr && i%6 == 1 {
			fam, sparseMode = "random_sparse", true
		}
		ops, res := genHistory(r, steps, maxPool, corr, deep)
		record(ops, res, fam, corr, deep)
		sparseMode = false
	}
	rep.Extra["histories"] = histCount
	rep.Cases = cases.Len()
	rep.Extra["duplicate_cases_dropped"] = cases.Dups
	_, err := cases.Flush()
	vh.Must(err)
	vh.Must(rep.Write(cfg))
	fmt.Printf("c15: %d histories, %d implementation executions, %d correspondence cases, %d monitor violations\n", histCount, rep.Evaluations, rep.Cases, len(rep.Violations))
}

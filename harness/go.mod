module verif/harness

go 1.23.4

require (
	github.com/gcash/bchd v0.20.0
	github.com/gcash/bchutil v0.0.0
)

require github.com/dchest/siphash v1.2.3 // indirect

replace github.com/gcash/bchutil => /repo

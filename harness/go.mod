module verif/harness

go 1.23.4

require github.com/gcash/bchutil v0.0.0

replace github.com/gcash/bchutil => /repo

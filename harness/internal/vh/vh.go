// Package vh holds what every per-property harness command shares: flag parsing,
// the single PRNG every random choice derives from, Coq literal printers, the
// writer of cases_*.v shards and the report the driver (bin/check) consumes.
package vh

import (
	"encoding/hex"
	"encoding/json"
	"flag"
	"fmt"
	"os"
	"path/filepath"
	"sort"
	"strconv"
	"strings"
)

// Config is the common command line of a harness command.
type Config struct {
	Prop   string
	Seed   uint64
	Tier   string // quick | thorough
	Out    string // directory for cases_*.v, cases_*.json, report.json
	Search bool   // wider, monitor-only exploration (run when an obligation or the correspondence broke)
	Replay string // path of a replay file to re-run (monitor only)
}

func ParseFlags(prop string) Config {
	c := Config{Prop: prop}
	flag.Uint64Var(&c.Seed, "seed", 1, "PRNG seed")
	flag.StringVar(&c.Tier, "tier", "quick", "quick|thorough")
	flag.StringVar(&c.Out, "out", "", "output directory")
	flag.BoolVar(&c.Search, "search", false, "search mode")
	flag.StringVar(&c.Replay, "replay", "", "replay file")
	flag.Parse()
	if c.Out == "" {
		c.Out = filepath.Join("/verif/work", prop)
	}
	os.MkdirAll(c.Out, 0o755)
	return c
}

func (c Config) Thorough() bool { return c.Tier == "thorough" }

// Scale returns q for the quick tier and t for the thorough tier.
func (c Config) Scale(q, t int) int {
	if c.Thorough() {
		return t
	}
	return q
}

// ---------- PRNG (splitmix64; every random choice of a run derives from it) ----------
type RNG struct{ s uint64 }

func NewRNG(seed uint64) *RNG { return &RNG{s: seed*0x9E3779B97F4A7C15 + 0x1234567} }

func (r *RNG) U64() uint64 {
	r.s += 0x9E3779B97F4A7C15
	z := r.s
	z = (z ^ (z >> 30)) * 0xBF58476D1CE4E5B9
	z = (z ^ (z >> 27)) * 0x94D049BB133111EB
	return z ^ (z >> 31)
}
func (r *RNG) Intn(n int) int {
	if n <= 0 {
		return 0
	}
	return int(r.U64() % uint64(n))
}
func (r *RNG) Bool() bool   { return r.U64()&1 == 1 }
func (r *RNG) Byte() byte   { return byte(r.U64()) }
func (r *RNG) U32() uint32  { return uint32(r.U64()) }
func (r *RNG) Chance(p, q int) bool { return r.Intn(q) < p }
func (r *RNG) Bytes(n int) []byte {
	b := make([]byte, n)
	for i := range b {
		b[i] = r.Byte()
	}
	return b
}

// Pick returns one of xs.
func Pick[T any](r *RNG, xs []T) T { return xs[r.Intn(len(xs))] }

// Fork derives an independent stream (so adding cases to one family does not shift another).
func (r *RNG) Fork(tag string) *RNG {
	h := r.s
	for i := 0; i < len(tag); i++ {
		h = (h ^ uint64(tag[i])) * 0x100000001b3
	}
	return NewRNG(h)
}

// ---------- Coq literals ----------
func CoqN(v uint64) string { return strconv.FormatUint(v, 10) }

func CoqZ(v int64) string {
	if v < 0 {
		return "(" + strconv.FormatInt(v, 10) + ")"
	}
	return strconv.FormatInt(v, 10)
}

func CoqBytes(b []byte) string {
	if len(b) == 0 {
		return "[]"
	}
	var sb strings.Builder
	sb.Grow(len(b)*4 + 2)
	sb.WriteByte('[')
	for i, x := range b {
		if i > 0 {
			sb.WriteByte(';')
		}
		sb.WriteString(strconv.Itoa(int(x)))
	}
	sb.WriteByte(']')
	return sb.String()
}

func CoqStr(s string) string { return CoqBytes([]byte(s)) }

func CoqBool(b bool) string {
	if b {
		return "true"
	}
	return "false"
}

func CoqNat(n int) string { return strconv.Itoa(n) + "%nat" }

func CoqList(items []string) string {
	if len(items) == 0 {
		return "[]"
	}
	return "[" + strings.Join(items, "; ") + "]"
}

func CoqListU64(xs []uint64) string {
	it := make([]string, len(xs))
	for i, x := range xs {
		it[i] = CoqN(x)
	}
	return CoqList(it)
}

func CoqOptBytes(b []byte, some bool) string {
	if !some {
		return "None"
	}
	return "(Some " + CoqBytes(b) + ")"
}

func Hex(b []byte) string { return hex.EncodeToString(b) }

// ---------- cases shards ----------
type caseRec struct {
	Coq  string      `json:"-"`
	Desc interface{} `json:"desc"`
}

// Cases collects correspondence cases and writes them as shards
// cases_<prop>_<k>.v (evaluated by coqc) plus cases_<prop>_<k>.json (what each
// index was, for replay files).
type Cases struct {
	cfg       Config
	runModule string // e.g. "Run.Run_C07"
	extra     string // extra vernacular placed before the case list (oracle tables, ...)
	shardSize int
	recs      []caseRec
	seen      map[string]bool
	Dups      int
}

func NewCases(cfg Config, runModule string, shardSize int) *Cases {
	return &Cases{cfg: cfg, runModule: runModule, shardSize: shardSize, seen: map[string]bool{}}
}

// SetPreamble sets vernacular emitted after the Require line of every shard.
func (c *Cases) SetPreamble(s string) { c.extra = s }

// Add appends a case (a Coq term of the run module's case type); duplicates are dropped.
func (c *Cases) Add(coqTerm string, desc interface{}) bool {
	if c.seen[coqTerm] {
		c.Dups++
		return false
	}
	c.seen[coqTerm] = true
	c.recs = append(c.recs, caseRec{coqTerm, desc})
	return true
}

func (c *Cases) Len() int { return len(c.recs) }

// Flush writes the shards and returns their paths.
func (c *Cases) Flush() ([]string, error) {
	old, _ := filepath.Glob(filepath.Join(c.cfg.Out, "cases_*"))
	for _, f := range old {
		os.Remove(f)
	}
	var paths []string
	for k := 0; k*c.shardSize < len(c.recs); k++ {
		lo, hi := k*c.shardSize, (k+1)*c.shardSize
		if hi > len(c.recs) {
			hi = len(c.recs)
		}
		base := fmt.Sprintf("cases_%s_%03d", c.cfg.Prop, k)
		var sb strings.Builder
		sb.WriteString("(* written by the harness: inputs and what the implementation returned *)\n")
		sb.WriteString("From BU Require Import " + c.runModule + ".\n")
		sb.WriteString("Open Scope N_scope.\n")
		sb.WriteString(c.extra)
		sb.WriteString("\nDefinition cases : list case := [\n")
		for i := lo; i < hi; i++ {
			sb.WriteString(" ")
			sb.WriteString(c.recs[i].Coq)
			if i+1 < hi {
				sb.WriteString(";")
			}
			sb.WriteString("\n")
		}
		sb.WriteString("].\nDefinition M := Eval vm_compute in mismatches cases.\nPrint M.\n")
		p := filepath.Join(c.cfg.Out, base+".v")
		if err := os.WriteFile(p, []byte(sb.String()), 0o644); err != nil {
			return nil, err
		}
		descs := make([]interface{}, 0, hi-lo)
		for i := lo; i < hi; i++ {
			descs = append(descs, c.recs[i].Desc)
		}
		j, _ := json.Marshal(descs)
		os.WriteFile(filepath.Join(c.cfg.Out, base+".json"), j, 0o644)
		paths = append(paths, p)
	}
	return paths, nil
}

// ---------- report ----------
// Violation is a failure of the property's own predicate on the implementation.
type Violation struct {
	Key    string      `json:"key"`    // classifier, matched against known_findings.json
	What   string      `json:"what"`   // one line
	Replay interface{} `json:"replay"` // concrete input / history and what was observed vs required
}

type Report struct {
	Prop        string                 `json:"property"`
	Seed        uint64                 `json:"seed"`
	Tier        string                 `json:"tier"`
	Evaluations int                    `json:"evaluations"`           // implementation executions
	Nontrivial  int                    `json:"distinct_nontrivial"`   // by Rule
	Rule        string                 `json:"rule"`
	Cases       int                    `json:"correspondence_cases"`  // written to cases_*.v
	Histogram   map[string]int         `json:"histogram"`
	Samples     []interface{}          `json:"samples"`
	Violations  []Violation            `json:"violations"`
	Extra       map[string]interface{} `json:"extra,omitempty"`
	distinct    map[string]bool
}

func NewReport(cfg Config) *Report {
	return &Report{Prop: cfg.Prop, Seed: cfg.Seed, Tier: cfg.Tier, Histogram: map[string]int{}, distinct: map[string]bool{}, Extra: map[string]interface{}{}}
}

// Count records one implementation execution of the given kind; key identifies
// the case for the distinct count; nontrivial per the property's stated rule.
func (r *Report) Count(kind string, key string, nontrivial bool) {
	r.Evaluations++
	r.Histogram[kind]++
	if nontrivial && !r.distinct[key] {
		r.distinct[key] = true
		r.Nontrivial++
	}
}

func (r *Report) Sample(s interface{}, max int) {
	if len(r.Samples) < max {
		r.Samples = append(r.Samples, s)
	}
}

func (r *Report) Violate(key, what string, replay interface{}) {
	// one witness per key: keep the smallest (by serialised size)
	size := func(x interface{}) int { j, _ := json.Marshal(x); return len(j) }
	for i, v := range r.Violations {
		if v.Key == key {
			if size(replay) < size(v.Replay) {
				r.Violations[i] = Violation{key, what, replay}
			}
			return
		}
	}
	r.Violations = append(r.Violations, Violation{key, what, replay})
}

func (r *Report) Write(cfg Config) error {
	sort.Slice(r.Violations, func(i, j int) bool { return r.Violations[i].Key < r.Violations[j].Key })
	j, err := json.MarshalIndent(r, "", " ")
	if err != nil {
		return err
	}
	return os.WriteFile(filepath.Join(cfg.Out, "report.json"), j, 0o644)
}

// Catch runs f and reports whether it panicked (and with what).
func Catch(f func()) (panicked bool, msg string) {
	defer func() {
		if e := recover(); e != nil {
			panicked = true
			msg = fmt.Sprint(e)
		}
	}()
	f()
	return
}

func Must(err error) {
	if err != nil {
		fmt.Fprintln(os.Stderr, "harness error:", err)
		os.Exit(3)
	}
}

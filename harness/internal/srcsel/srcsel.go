// Package srcsel decides which Go files of the repository under test the
// translators read.  Selection is by what the Go BUILD selects (go/build's
// MatchFile: //go:build and // +build constraints AND the _GOOS/_GOARCH file-name
// suffixes), never by file name: a file belongs to the analysed source when it is
// part of the ordinary build (no extra tags, linux/amd64); the add-only hook
// files are exactly the files built only with the tag `verif`.  A file that is
// part of the ordinary build but NOT of the `-tags verif` build would make the
// binary the harness tests differ from the binary users run: it is analysed and
// reported (Flagged) through the state-shape obligation.
package srcsel

import (
	"go/build"
	"os"
	"path/filepath"
	"strings"
)

func ctx(verif bool) *build.Context {
	c := build.Default
	c.GOOS, c.GOARCH = "linux", "amd64"
	c.CgoEnabled = true
	c.BuildTags = nil
	if verif {
		c.BuildTags = []string{"verif"}
	}
	c.UseAllFiles = false
	return &c
}

// Class of a .go file.
type Class int

const (
	Normal   Class = iota // part of the ordinary build and of the verif build: analysed
	Hook                  // built only with -tags verif: the add-only hooks, skipped
	Flagged               // part of the ordinary build but excluded under -tags verif: analysed AND reported
	Excluded              // not built on this platform at all (ignore, other OS/arch): skipped
	Test                  // _test.go
)

func Classify(path string) Class {
	dir, name := filepath.Dir(path), filepath.Base(path)
	if strings.HasSuffix(name, "_test.go") {
		return Test
	}
	normal, err1 := ctx(false).MatchFile(dir, name)
	withVerif, err2 := ctx(true).MatchFile(dir, name)
	if err1 != nil || err2 != nil {
		return Flagged // unreadable / malformed: never skip silently
	}
	switch {
	case normal && withVerif:
		return Normal
	case normal && !withVerif:
		return Flagged
	case !normal && withVerif:
		return Hook
	}
	return Excluded
}

// Analysed reports whether the translators must read the file.
func Analysed(path string) bool {
	c := Classify(path)
	return c == Normal || c == Flagged
}

// Filter returns a parser.ParseDir filter for directory dir.
func Filter(dir string) func(os.FileInfo) bool {
	return func(fi os.FileInfo) bool {
		return strings.HasSuffix(fi.Name(), ".go") && Analysed(filepath.Join(dir, fi.Name()))
	}
}
